/-
  C12, tree level: every flash tree the shared parser builds is well-formed in the sense of `TWF`
  (its flash-level abstraction satisfies `WF`, its nodes carry the table slots their pointers alias),
  for images that are a whole number of 4 KiB blocks below 2^28 bytes.  Built on the shared C04 / C02
  theorems `flash_faithful` (the regions tile the image in tree order, every node is the image's bytes
  at its extent, non-gap nodes carry their table slot) and `parseFlash_sized` (every buffer has the
  size of its extent, gap regions included).
-/
import FianoModel.TightenMe.TreeAsm
import FianoModel.TightenMe.TreeStep
import FianoModel.TightenMe.ParseLemmas
import FianoModel.Uefi.ParseSized
import FianoModel.Uefi.ExtractParse

namespace Fiano.TightenMe.T
open Fiano

/-- `MERegion.FPT` of the ME node `tighten_me` would pick -/
def fptOfRegions (rs : List Uefi.Region) : Option (List Entry) :=
  match lastIdx isME rs with
  | none => none
  | some i =>
    match rs[i]? with
    | some (.me buf _) => parseFPT buf
    | _ => none

theorem free_of_fpt (rs : List Uefi.Region) :
    freeOfRegions rs = (match fptOfRegions rs with | some es => freeOf es | none => 0) ∧ freeOfRegions rs < 2 ^ 33 := by
  unfold freeOfRegions fptOfRegions
  cases lastIdx isME rs with
  | none => exact ⟨rfl, Nat.two_pow_pos 33⟩
  | some i =>
    simp only []
    cases rs[i]? with
    | none => exact ⟨rfl, Nat.two_pow_pos 33⟩
    | some r =>
      cases r with
      | bios b => exact ⟨rfl, Nat.two_pow_pos 33⟩
      | raw a c d => exact ⟨rfl, Nat.two_pow_pos 33⟩
      | me buf fr =>
        simp only [freeOfBuf]
        cases hp : parseFPT buf with
        | none => exact ⟨rfl, Nat.two_pow_pos 33⟩
        | some es => exact ⟨rfl, parseFPT_lt buf es hp⟩

/-! ### what the region loop and the gap filler produce -/

theorem parseFlash_shared_inv (h : Uefi.Hooks) (fuel : Nat) (img : Bytes) (st st' : Uefi.St) (f : Uefi.Flash)
    (hp : Uefi.parseFlash h fuel img st = .ok (f, st')) :
    ∃ rs, 4096 ≤ img.length ∧ Uefi.parseDescriptor (img.take 4096) = .ok f.ifd ∧
      Uefi.parseRegions h fuel img f.ifd.map.numberOfRegions f.ifd.region.regions 0 st = .ok (rs, st') ∧
      Uefi.fillGaps img img.length (Uefi.sortRegions rs) 4096 = .ok f.regions ∧ f.flashSize = img.length := by
  unfold Uefi.parseFlash at hp
  split at hp
  · cases hp
  · rename_i h4096
    split at hp
    · cases hp
    · rename_i ifd hd
      split at hp
      · cases hp
      · split at hp
        · cases hp
        · split at hp
          · cases hp
          · rename_i rs st1 hpr
            split at hp
            · cases hp
            · rename_i rs' hfill
              cases hp
              exact ⟨rs, by omega, hd, hpr, hfill, rfl⟩

/-- a raw node is a gap (type -1) or sits in a slot from 2 on -/
def rawTypeOk : Uefi.Region → Prop
  | .raw _ _ t => t = -1 ∨ 2 ≤ t
  | _ => True

theorem parseRegions_rawType (h : Uefi.Hooks) (fuel : Nat) (buf : Bytes) (nr : Nat) :
    ∀ (frs : List Uefi.FlashRegion) (i : Nat) (st : Uefi.St) (rs : List Uefi.Region) (st' : Uefi.St),
      Uefi.parseRegions h fuel buf nr frs i st = .ok (rs, st') → ∀ r ∈ rs, rawTypeOk r := by
  intro frs
  induction frs with
  | nil =>
    intro i st rs st' hp
    simp only [Uefi.parseRegions] at hp
    cases hp
    intro r hr; cases hr
  | cons fr frs ih =>
    intro i st rs st' hp
    simp only [Uefi.parseRegions] at hp
    split at hp
    · cases hp; intro r hr; cases hr
    · split at hp
      · exact ih _ _ _ _ hp
      · split at hp
        · cases hp
        · rename_i r st1 hone
          split at hp
          · cases hp
          · rename_i rs1 st2 hrest
            cases hp
            intro x hx
            rcases List.mem_cons.mp hx with rfl | hx
            · split at hone
              · split at hone
                · cases hone
                · cases hone; trivial
              · split at hone
                · cases hone; trivial
                · rename_i h0 h1
                  cases hone
                  exact Or.inr (by omega)
            · exact ih _ _ _ _ hrest x hx

theorem fillGaps_rawType (fbuf : Bytes) (size : Nat) : ∀ (l : List Uefi.Region) (off : Nat) (out : List Uefi.Region),
    (∀ r ∈ l, rawTypeOk r) → Uefi.fillGaps fbuf size l off = .ok out → ∀ r ∈ out, rawTypeOk r := by
  intro l
  induction l with
  | nil =>
    intro off out _ h
    simp only [Uefi.fillGaps] at h
    split at h
    · cases h
      intro r hr
      simp only [List.mem_singleton] at hr
      subst hr
      exact Or.inl rfl
    · cases h; intro r hr; cases hr
  | cons x xs ih =>
    intro off out hl h
    simp only [Uefi.fillGaps] at h
    split at h
    · cases h
    · split at h
      · cases h
      · split at h
        · cases h
        · rename_i out' hout
          have hrec := ih _ _ (fun r hr => hl r (List.mem_cons_of_mem _ hr)) hout
          split at h
          · cases h
            intro r hr
            simp only [List.mem_cons] at hr
            rcases hr with rfl | rfl | hr
            · exact Or.inl rfl
            · exact hl _ List.mem_cons_self
            · exact hrec r hr
          · cases h
            intro r hr
            rcases List.mem_cons.mp hr with rfl | hr
            · exact hl _ List.mem_cons_self
            · exact hrec r hr

theorem countMe_isME (l : List Uefi.Region) (h : Uefi.countMe l ≤ 1) :
    ∀ (a b : Nat) (x y : Uefi.Region), l[a]? = some x → l[b]? = some y → isME x = true → isME y = true → a = b := by
  induction l with
  | nil => intro a b x y hx; simp at hx
  | cons z zs ih =>
    have hzero : ∀ (l : List Uefi.Region), Uefi.countMe l = 0 → ∀ r ∈ l, isME r = false := by
      intro l
      induction l with
      | nil => intro _ r hr; cases hr
      | cons u us ihu =>
        intro hc r hr
        cases u with
        | me _ _ => simp [Uefi.countMe] at hc
        | bios _ =>
          simp only [Uefi.countMe] at hc
          rcases List.mem_cons.mp hr with rfl | hr
          · rfl
          · exact ihu hc r hr
        | raw _ _ _ =>
          simp only [Uefi.countMe] at hc
          rcases List.mem_cons.mp hr with rfl | hr
          · rfl
          · exact ihu hc r hr
    intro a b x y hx hy px py
    cases hz : isME z with
    | true =>
      have hc : Uefi.countMe zs = 0 := by
        cases z with
        | me _ _ => simp only [Uefi.countMe] at h; omega
        | bios _ => simp [isME] at hz
        | raw _ _ _ => simp [isME] at hz
      match a, b with
      | 0, 0 => rfl
      | 0, b + 1 =>
        simp only [List.getElem?_cons_succ] at hy
        have := hzero zs hc y (List.mem_of_getElem? hy); rw [py] at this; cases this
      | a + 1, 0 =>
        simp only [List.getElem?_cons_succ] at hx
        have := hzero zs hc x (List.mem_of_getElem? hx); rw [px] at this; cases this
      | a + 1, b + 1 =>
        simp only [List.getElem?_cons_succ] at hx hy
        have := hzero zs hc x (List.mem_of_getElem? hx); rw [px] at this; cases this
    | false =>
      have hc : Uefi.countMe zs ≤ 1 := by
        cases z with
        | me _ _ => simp [isME] at hz
        | bios _ => simpa [Uefi.countMe] using h
        | raw _ _ _ => simpa [Uefi.countMe] using h
      match a, b with
      | 0, _ => simp only [List.getElem?_cons_zero, Option.some.injEq] at hx; subst hx; rw [hz] at px; cases px
      | _ + 1, 0 => simp only [List.getElem?_cons_zero, Option.some.injEq] at hy; subst hy; rw [hz] at py; cases py
      | a + 1, b + 1 =>
        simp only [List.getElem?_cons_succ] at hx hy
        have := ih hc a b x y hx hy px py
        omega

theorem countBios_isBIOS (l : List Uefi.Region) (h : Uefi.countBios l ≤ 1) :
    ∀ (a b : Nat) (x y : Uefi.Region), l[a]? = some x → l[b]? = some y → isBIOS x = true → isBIOS y = true → a = b := by
  induction l with
  | nil => intro a b x y hx; simp at hx
  | cons z zs ih =>
    have hzero : ∀ (l : List Uefi.Region), Uefi.countBios l = 0 → ∀ r ∈ l, isBIOS r = false := by
      intro l
      induction l with
      | nil => intro _ r hr; cases hr
      | cons u us ihu =>
        intro hc r hr
        cases u with
        | bios _ => simp [Uefi.countBios] at hc
        | me _ _ =>
          simp only [Uefi.countBios] at hc
          rcases List.mem_cons.mp hr with rfl | hr
          · rfl
          · exact ihu hc r hr
        | raw _ _ _ =>
          simp only [Uefi.countBios] at hc
          rcases List.mem_cons.mp hr with rfl | hr
          · rfl
          · exact ihu hc r hr
    intro a b x y hx hy px py
    cases hz : isBIOS z with
    | true =>
      have hc : Uefi.countBios zs = 0 := by
        cases z with
        | bios _ => simp only [Uefi.countBios] at h; omega
        | me _ _ => simp [isBIOS] at hz
        | raw _ _ _ => simp [isBIOS] at hz
      match a, b with
      | 0, 0 => rfl
      | 0, b + 1 =>
        simp only [List.getElem?_cons_succ] at hy
        have := hzero zs hc y (List.mem_of_getElem? hy); rw [py] at this; cases this
      | a + 1, 0 =>
        simp only [List.getElem?_cons_succ] at hx
        have := hzero zs hc x (List.mem_of_getElem? hx); rw [px] at this; cases this
      | a + 1, b + 1 =>
        simp only [List.getElem?_cons_succ] at hx hy
        have := hzero zs hc x (List.mem_of_getElem? hx); rw [px] at this; cases this
    | false =>
      have hc : Uefi.countBios zs ≤ 1 := by
        cases z with
        | bios _ => simp [isBIOS] at hz
        | me _ _ => simpa [Uefi.countBios] using h
        | raw _ _ _ => simpa [Uefi.countBios] using h
      match a, b with
      | 0, _ => simp only [List.getElem?_cons_zero, Option.some.injEq] at hx; subst hx; rw [hz] at px; cases px
      | _ + 1, 0 => simp only [List.getElem?_cons_zero, Option.some.injEq] at hy; subst hy; rw [hz] at py; cases py
      | a + 1, b + 1 =>
        simp only [List.getElem?_cons_succ] at hx hy
        have := ih hc a b x y hx hy px py
        omega

/-! ### the descriptor -/

theorem encodePerms_length (ps : List (Nat × Nat × Nat)) : (Uefi.encodePerms ps).length = 4 * ps.length := by
  induction ps with
  | nil => rfl
  | cons p ps ih =>
    obtain ⟨a, b, c⟩ := p
    simp only [Uefi.encodePerms, List.length_append, leN_length, List.length_cons, List.length_nil, ih]
    omega

theorem parseDescriptor_geom (dbuf : Bytes) (d : Uefi.Descriptor) (hp : Uefi.parseDescriptor dbuf = .ok d) :
    (absDesc d).Geom := by
  unfold Uefi.parseDescriptor at hp
  split at hp
  · cases hp
  · rename_i hl
    have hl' : dbuf.length = 4096 := by omega
    split at hp
    · cases hp
    · rename_i ms hms
      simp only [] at hp
      split at hp
      · cases hp
      · rename_i hreg
        cases hp
        have hms' : ms = 20 ∨ ms = 4 := by
          unfold Uefi.findSignature at hms
          split at hms
          · cases hms
          · split at hms
            · cases hms; exact Or.inl rfl
            · split at hms
              · cases hms; exact Or.inr rfl
              · cases hms
        have hmb : (Uefi.DescMap.mk ((slice dbuf ms 16).map (·.toNat))).masterBase < 256 := by
          simp only [Uefi.DescMap.masterBase, List.getD_eq_getElem?_getD, List.getElem?_map]
          cases (slice dbuf ms 16)[4]? with
          | none => simp
          | some x => simpa using x.toNat_lt
        constructor
        · exact hl'
        · show ((List.map (·.toNat) (slice dbuf ms 16)).map Uefi.byte).length = 16
          rw [List.length_map, List.length_map]; exact slice_length dbuf ms 16 (by omega)
        · show (Uefi.encodePerms (Uefi.decodePerms 3 _)).length = 12
          rw [encodePerms_length, Uefi.decodePerms_length]
        · show ((Uefi.decodeRegions 15 _).map absFR).length = 15
          rw [List.length_map, Uefi.decodeRegions_length]
        · show ms + 16 ≤ 4096
          omega
        · show (Uefi.DescMap.mk ((slice dbuf ms 16).map (·.toNat))).regionBase * 16 + 64 ≤ 4096
          omega
        · show (Uefi.DescMap.mk ((slice dbuf ms 16).map (·.toNat))).masterBase * 16 + 12 ≤ 4096
          omega

/-! ### the regions -/

theorem absElems_flat (es : List Uefi.BiosElem) :
    (es.map absElem).flatMap (·.buf) = (es.map Uefi.BiosElem.buf).flatten := by
  induction es with
  | nil => rfl
  | cons e es ih =>
    simp only [List.map_cons, List.flatMap_cons, List.flatten_cons, ih]
    congr 1
    cases e with
    | pad b o => rfl
    | fv v => rfl

/-- every node the parser built: its extent, its bytes, its slot -/
structure NodeOk (h : Uefi.Hooks) (tbl : List Uefi.FlashRegion) (r : Uefi.Region) (off : Nat) : Prop where
  nonempty : r.buf ≠ []
  fr : ∃ fr, r.fr = some fr ∧ fr.baseOffset = off ∧ r.buf.length + fr.baseOffset = fr.endOffset ∧
    (r.rtype ≠ -1 → tbl[r.rtype.toNat]? = some fr)
  bios : ∀ b, r = .bios b → b.length = b.buf.length ∧ (b.elems.map Uefi.BiosElem.buf).flatten = b.buf

theorem nodeOk_of (h : Uefi.Hooks) (bs : Bytes) (tbl : List Uefi.FlashRegion) (nr : Nat) (r : Uefi.Region) (off : Nat)
    (hf : Uefi.RegionF h bs tbl r off) (hs : Uefi.RegionSized tbl nr r) : NodeOk h tbl r off := by
  obtain ⟨hne, _, _, ⟨fr, hfr, hbase, hslot⟩, hb⟩ := hf
  obtain ⟨⟨fr', hfr', hsz⟩, _, hbl⟩ := hs
  rw [hfr] at hfr'; cases hfr'
  refine ⟨hne, ⟨fr, hfr, hbase, hsz, fun ht => (hslot ht).2⟩, ?_⟩
  intro b hb'
  subst hb'
  simp only [Uefi.RegionInner] at hb
  obtain ⟨_, hlen, hel⟩ := hb
  exact ⟨hlen, Uefi.elems_concat h b.elems b.buf 0 hel⟩

/-- the chain of the abstraction, from the parser's tiling -/
theorem chain_of_regionsAt (h : Uefi.Hooks) (fpt : Option (List Entry)) (free : Nat) (bs : Bytes)
    (tbl : List Uefi.FlashRegion) (nr : Nat) (regs : List FRegion) :
    ∀ (rs : List Uefi.Region) (off : Nat), Uefi.RegionsAt h bs tbl rs off →
      (∀ r ∈ rs, Uefi.RegionSized tbl nr r) →
      (∀ r ∈ rs, ∀ fr, r.fr = some fr → frOf regs (absRegion fpt free r) = .ok (absFR fr)) →
      Chain regs off (rs.map (absRegion fpt free)) bs.length := by
  intro rs
  induction rs with
  | nil => intro off hr _ _; simp only [Uefi.RegionsAt] at hr; exact hr
  | cons r rs ih =>
    intro off hr hs hfo
    simp only [Uefi.RegionsAt] at hr
    obtain ⟨hrf, hrest⟩ := hr
    have hn := nodeOk_of h bs tbl nr r off hrf (hs r List.mem_cons_self)
    obtain ⟨fr, hfr, hbase, hsz, _⟩ := hn.fr
    have hpl : (payload (absRegion fpt free r)).length = r.buf.length := by
      cases r with
      | bios b =>
        obtain ⟨_, hflat⟩ := hn.bios b rfl
        simp only [payload, absRegion, absElems_flat, hflat, Uefi.Region.buf]
      | me buf f => rfl
      | raw buf f t => rfl
    simp only [List.map_cons, Chain]
    refine ⟨absFR fr, hfo r List.mem_cons_self fr hfr, by rw [baseOff_abs]; exact hbase,
      by rw [baseOff_abs, endOff_abs]; omega, by rw [hpl, baseOff_abs, endOff_abs]; omega, ?_⟩
    rw [endOff_abs, show fr.endOffset = off + r.buf.length by omega]
    exact ih _ hrest (fun x hx => hs x (List.mem_cons_of_mem _ hx)) (fun x hx => hfo x (List.mem_cons_of_mem _ hx))

theorem regionsAt_mem (h : Uefi.Hooks) (bs : Bytes) (tbl : List Uefi.FlashRegion) :
    ∀ (rs : List Uefi.Region) (off : Nat), Uefi.RegionsAt h bs tbl rs off →
      ∀ r ∈ rs, ∃ o, Uefi.RegionF h bs tbl r o := by
  intro rs
  induction rs with
  | nil => intro off _ r hr; cases hr
  | cons x xs ih =>
    intro off hr r hm
    simp only [Uefi.RegionsAt] at hr
    rcases List.mem_cons.mp hm with rfl | hm
    · exact ⟨off, hr.1⟩
    · exact ih _ hr.2 r hm

/-! ### the theorem -/

set_option maxRecDepth 10000 in
/-- **Every flash tree the shared parser builds is well-formed** (`TWF`), with the partition table and
    FreeSpaceOffset NewMERegion computes, for images that are a whole number of 4 KiB blocks below 2^28
    bytes. -/
theorem twf_parse (fuel : Nat) (img : Bytes) (st st' : Uefi.St) (f : Uefi.Flash)
    (hp : Uefi.parseFlash Uefi.Hooks.none fuel img st = .ok (f, st'))
    (hsz : img.length % 4096 = 0) (hlt : img.length < 2 ^ 28) :
    TWF (fptOfRegions f.regions) (freeOfRegions f.regions) f := by
  have hF := Uefi.flash_faithful Uefi.Hooks.none none_bounded fuel img st f st' (by unfold Uefi.GoLen; omega) hp
  obtain ⟨hbuf, hsize, h4096, hdescF, hregsAt⟩ := hF
  obtain ⟨⟨hifdlen, hsized⟩, _⟩ := Uefi.parseFlash_sized Uefi.Hooks.none fuel img st st' f hp hsz (by omega)
  obtain ⟨rs, _, hd, hpr, hfill, _⟩ := parseFlash_shared_inv Uefi.Hooks.none fuel img st st' f hp
  -- at most one ME node, at most one BIOS node
  have h16 := Uefi.parseDescriptor_16 _ _ hd
  have hv := Uefi.v16_parseRegions Uefi.Hooks.none fuel img _ _ 0 st rs st' hpr h16
  have hcs := Uefi.count_sort rs
  have hgap := Uefi.heads_fillGaps img img.length _ 4096 f.regions hfill
    (fun r hr => hv.1 r ((hcs.2.2 r).mp hr)) (by decide) (by decide)
    (by rw [hcs.1]; simpa using hv.2.1) (by rw [hcs.2.1]; simpa using hv.2.2)
  have hcb : Uefi.countBios f.regions ≤ 1 := by rw [hgap.2.2.1, hcs.1]; simpa using hv.2.1
  have hcm : Uefi.countMe f.regions ≤ 1 := by rw [hgap.2.2.2, hcs.2.1]; simpa using hv.2.2
  -- raw nodes are gaps or sit in slots from 2 on
  have hraw : ∀ r ∈ f.regions, rawTypeOk r :=
    fillGaps_rawType img img.length _ 4096 f.regions
      (fun r hr => parseRegions_rawType Uefi.Hooks.none fuel img _ _ 0 st rs st' hpr r ((hcs.2.2 r).mp hr)) hfill
  -- every node: extent, bytes, slot
  have hnode : ∀ r ∈ f.regions, ∃ o, NodeOk Uefi.Hooks.none f.ifd.region.regions r o := by
    intro r hr
    obtain ⟨o, ho⟩ := regionsAt_mem Uefi.Hooks.none img _ _ _ hregsAt r hr
    exact ⟨o, nodeOk_of Uefi.Hooks.none img _ f.ifd.map.numberOfRegions r o ho (hsized r hr)⟩
  -- pointer aliasing as a fact about values
  have hal : Aliased f := by
    constructor
    · intro buf fr hm
      obtain ⟨o, hn⟩ := hnode _ hm
      obtain ⟨fr', hfr, _, _, hslot⟩ := hn.fr
      simp only [Uefi.Region.fr, Option.some.injEq] at hfr
      subst hfr
      exact hslot (by simp [Uefi.Region.rtype])
    · intro b hm
      obtain ⟨o, hn⟩ := hnode _ hm
      obtain ⟨fr', hfr, _, _, hslot⟩ := hn.fr
      exact ⟨fr', hfr, hslot (by simp [Uefi.Region.rtype])⟩
    · intro buf fr t hm ht
      obtain ⟨o, hn⟩ := hnode _ hm
      obtain ⟨fr', hfr, _, _, hslot⟩ := hn.fr
      simp only [Uefi.Region.fr, Option.some.injEq] at hfr
      subst hfr
      have := hraw _ hm
      simp only [rawTypeOk] at this
      exact ⟨by omega, hslot ht⟩
  refine ⟨?_, hal⟩
  have hfo : ∀ r ∈ f.regions, ∀ fr, r.fr = some fr →
      frOf (absDesc f.ifd).regs (absRegion (fptOfRegions f.regions) (freeOfRegions f.regions) r) = .ok (absFR fr) := by
    intro r hr fr hfr
    obtain ⟨fr', h1, h2⟩ := frOf_abs (fptOfRegions f.regions) (freeOfRegions f.regions) f hal r hr
    rw [hfr] at h1; cases h1; exact h2
  have hchain := chain_of_regionsAt Uefi.Hooks.none (fptOfRegions f.regions) (freeOfRegions f.regions) img _
    f.ifd.map.numberOfRegions (absDesc f.ifd).regs f.regions 4096 hregsAt hsized hfo
  -- a node of the abstraction is the abstraction of a node
  have hmemabs : ∀ x ∈ (absFlash (fptOfRegions f.regions) (freeOfRegions f.regions) f).regions,
      ∃ r ∈ f.regions, x = absRegion (fptOfRegions f.regions) (freeOfRegions f.regions) r := by
    intro x hx
    simp only [absFlash, List.mem_map] at hx
    obtain ⟨r, hr, e⟩ := hx
    exact ⟨r, hr, e.symm⟩
  have hgetabs : ∀ (a : Nat) (x : Region),
      (absFlash (fptOfRegions f.regions) (freeOfRegions f.regions) f).regions[a]? = some x →
      ∃ r, f.regions[a]? = some r ∧ x = absRegion (fptOfRegions f.regions) (freeOfRegions f.regions) r := by
    intro a x hx
    simp only [absFlash, List.getElem?_map, Option.map_eq_some_iff] at hx
    obtain ⟨r, h1, h2⟩ := hx
    exact ⟨r, h1, h2.symm⟩
  refine
    { geom := parseDescriptor_geom _ _ hd, u16 := ?_, chain := ?_, meRef := ?_, biosRef := ?_, rawRef := ?_,
      oneME := ?_, oneBIOS := ?_, pos := ?_, bios := ?_, me := ?_ }
  · intro fr hfr
    simp only [absFlash, absDesc, List.mem_map] at hfr
    obtain ⟨fr0, h0, rfl⟩ := hfr
    exact h16 fr0 h0
  · show Chain (absDesc f.ifd).regs descLen (f.regions.map _) f.flashSize
    rw [hsize]; exact hchain
  · intro x hx hme
    obtain ⟨r, _, rfl⟩ := hmemabs x hx
    cases r with
    | me _ _ => rfl
    | bios _ => simp [absRegion, Body.isME] at hme
    | raw _ _ _ => simp [absRegion, Body.isME] at hme
  · intro x hx hb
    obtain ⟨r, _, rfl⟩ := hmemabs x hx
    cases r with
    | bios _ => rfl
    | me _ _ => simp [absRegion, Body.isBIOS] at hb
    | raw _ _ _ => simp [absRegion, Body.isBIOS] at hb
  · intro x hx hb k hk
    obtain ⟨r, hr, rfl⟩ := hmemabs x hx
    cases r with
    | bios _ => simp [absRegion] at hb
    | me _ _ => simp [absRegion] at hb
    | raw buf fr t =>
      have := hraw _ hr
      simp only [rawTypeOk] at this
      simp only [absRegion] at hk
      split at hk
      · cases hk
      · rename_i ht
        injection hk with hk
        omega
  · intro a b x y hx hy px py
    obtain ⟨r1, h1, rfl⟩ := hgetabs a x hx
    obtain ⟨r2, h2, rfl⟩ := hgetabs b y hy
    rw [absRegion_isME] at px py
    exact countMe_isME f.regions hcm a b r1 r2 h1 h2 px py
  · intro a b x y hx hy px py
    obtain ⟨r1, h1, rfl⟩ := hgetabs a x hx
    obtain ⟨r2, h2, rfl⟩ := hgetabs b y hy
    rw [absRegion_isBIOS] at px py
    exact countBios_isBIOS f.regions hcb a b r1 r2 h1 h2 px py
  · intro x hx _ fr hfr
    obtain ⟨r, hr, rfl⟩ := hmemabs x hx
    obtain ⟨o, hn⟩ := hnode r hr
    obtain ⟨fr0, h0, _, hsz0, _⟩ := hn.fr
    have := hfo r hr fr0 h0
    simp only [absFlash] at hfr
    rw [this] at hfr; injection hfr with hfr; subst hfr
    have hpos : 0 < r.buf.length := by
      cases hb : r.buf with
      | nil => exact absurd hb hn.nonempty
      | cons _ _ => simp
    rw [baseOff_abs, endOff_abs]; omega
  · intro x hx len els hb
    obtain ⟨r, hr, rfl⟩ := hmemabs x hx
    cases r with
    | bios b =>
      obtain ⟨o, hn⟩ := hnode _ hr
      obtain ⟨hl, hflat⟩ := hn.bios b rfl
      simp only [absRegion, Body.bios.injEq] at hb
      obtain ⟨rfl, rfl⟩ := hb
      rw [absElems_flat, hflat, hl]
    | me _ _ => simp [absRegion] at hb
    | raw _ _ _ => simp [absRegion] at hb
  · intro x hx fpt' free' hb
    obtain ⟨r, hr, rfl⟩ := hmemabs x hx
    cases r with
    | me _ _ =>
      simp only [absRegion, Body.me.injEq] at hb
      obtain ⟨rfl, rfl⟩ := hb
      exact free_of_fpt f.regions
    | bios _ => simp [absRegion] at hb
    | raw _ _ _ => simp [absRegion] at hb

/-! ### the visitors of the command line keep the tree well-formed -/

theorem twf_rwTree (E : Uefi.Editor) (fpt : Option (List Entry)) (free : Nat) (f : Uefi.Flash) (t1 : Uefi.Tree)
    (w : TWF fpt free f) (h : Uefi.rwTree E (.flash f) = .ok t1) : ∃ f1, t1 = .flash f1 ∧ TWF fpt free f1 := by
  rw [Uefi.rwTree] at h
  split at h
  · cases h
  · rename_i rs1 hrs
    cases h
    exact ⟨_, rfl, twf_rw E fpt free f rs1 w hrs⟩

/-- **every modelled visitor other than `save` keeps the shared tree well-formed** -/
theorem twf_step (h : Uefi.Hooks) (op : Uefi.Op) (hns : isSaveOp op = false) (fpt : Option (List Entry)) (free : Nat)
    (s s1 : Uefi.Run) (f : Uefi.Flash) (ht : s.tree = .flash f) (w : TWF fpt free f)
    (hop : Uefi.step h op s = .ok s1) : ∃ f1, s1.tree = .flash f1 ∧ TWF fpt free f1 := by
  obtain ⟨tree, st, outs, nilFile⟩ := s
  simp only [] at ht
  subst ht
  unfold Uefi.step at hop
  simp only [] at hop
  cases nilFile with
  | true =>
    simp only [if_true] at hop
    unfold Uefi.stepNil at hop
    split at hop
    · split at hop <;> cases hop
    · cases hop; exact ⟨f, rfl, w⟩
    · cases hop; exact ⟨f, rfl, w⟩
    · cases hop
  | false =>
    simp only [Bool.false_eq_true, if_false] at hop
    cases op with
    | save => simp [isSaveOp] at hns
    | insert p wh nfo =>
      cases nfo with
      | none =>
        simp only [] at hop
        split at hop
        · cases hop
        · cases hop; exact ⟨f, rfl, w⟩
      | some nf =>
        simp only [] at hop
        split at hop
        · cases hop
        · rename_i t1 hins
          cases hop
          unfold Uefi.insertOp at hins
          split at hins
          · cases hins
          · cases hins
          · split at hins
            · exact twf_rwTree _ fpt free f t1 w hins
            · exact twf_rwTree _ fpt free f t1 w hins
    | remove p pad =>
      simp only [] at hop
      split at hop
      · cases hop
      · rename_i t1 hrm
        cases hop
        unfold Uefi.removeOp at hrm
        exact twf_rwTree _ fpt free f t1 w hrm
    | replacePe32 p body =>
      simp only [] at hop
      split at hop
      · cases hop
      · rename_i t1 hpe
        cases hop
        unfold Uefi.replacePe32Op at hpe
        split at hpe
        · cases hpe
        · split at hpe
          · exact twf_rwTree _ fpt free f t1 w hpe
          · cases hpe
    | ro r =>
      simp only [] at hop
      split at hop
      · cases hop
      · cases hop; exact ⟨f, rfl, w⟩

end Fiano.TightenMe.T
