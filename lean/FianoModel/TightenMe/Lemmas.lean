/-
  Helper lemmas for C12: arithmetic of the new boundary, the FPT free-space maximum, lists
  (lastIdx, stable insertion sort, set), byte-level splice facts.  Core Lean only.
-/
import FianoModel.TightenMe.Model

namespace Fiano.TightenMe

/-! ### the numbers computed by `process` -/

theorem updateBase_eq (mb free : Nat) (h : mb + free + blockSize < 2 ^ 64) :
    updateBase mb free = (mb + free + 4095) / 4096 := by
  simp only [blockSize] at h
  simp only [updateBase, u64, blockSize]
  have h1 : (mb + free) % 2 ^ 64 = mb + free := Nat.mod_eq_of_lt (by omega)
  rw [h1]
  have h2 : (mb + free + 4096 - 1) % 2 ^ 64 = mb + free + 4095 := by
    rw [Nat.mod_eq_of_lt (by omega)]; omega
  rw [h2]
  exact Nat.mod_eq_of_lt (by omega)

theorem updateOffset_eq (mb free : Nat) (h : mb + free + blockSize < 2 ^ 64) :
    updateOffset mb free = (mb + free + 4095) / 4096 * 4096 := by
  simp only [updateOffset, updateBase_eq mb free h, u64, blockSize]
  simp only [blockSize] at h
  exact Nat.mod_eq_of_lt (by omega)

theorem bufOffset_eq (mb free : Nat) (h : mb + free + blockSize < 2 ^ 64) :
    bufOffset mb free = (mb + free + 4095) / 4096 * 4096 - mb := by
  simp only [bufOffset, updateOffset_eq mb free h, u64]
  simp only [blockSize] at h
  have : mb ≤ (mb + free + 4095) / 4096 * 4096 := by omega
  have e : (mb + free + 4095) / 4096 * 4096 + 2 ^ 64 - mb = ((mb + free + 4095) / 4096 * 4096 - mb) + 2 ^ 64 := by omega
  rw [e, Nat.add_mod_right]
  exact Nat.mod_eq_of_lt (by omega)

/-- the new boundary is the first block boundary at or after `mb + free` -/
theorem boundary_spec (mb free : Nat) :
    mb + free ≤ (mb + free + 4095) / 4096 * 4096 ∧ (mb + free + 4095) / 4096 * 4096 < mb + free + 4096 ∧
    (mb + free + 4095) / 4096 * 4096 % 4096 = 0 := by omega

/-! ### FreeSpaceOffset is the maximum end of the entries that have storage -/

theorem freeOf_foldl_ge (es : List Entry) (a : Nat) :
    a ≤ es.foldl (fun acc e => if e.offsetValid ∧ e.offset + e.length > acc then e.offset + e.length else acc) a := by
  induction es generalizing a with
  | nil => simp
  | cons e es ih =>
    simp only [List.foldl_cons]
    split
    · exact Nat.le_trans (by omega) (ih _)
    · exact ih _

theorem freeOf_foldl_mem (es : List Entry) (a : Nat) (e : Entry) (he : e ∈ es) (hv : e.offsetValid = true) :
    e.offset + e.length ≤ es.foldl (fun acc e => if e.offsetValid ∧ e.offset + e.length > acc then e.offset + e.length else acc) a := by
  induction es generalizing a with
  | nil => cases he
  | cons x xs ih =>
    simp only [List.foldl_cons]
    rcases List.mem_cons.mp he with rfl | h
    · split
      · exact freeOf_foldl_ge _ _
      · rename_i hn
        have : ¬ (e.offset + e.length > a) := fun hgt => hn ⟨hv, hgt⟩
        exact Nat.le_trans (by omega) (freeOf_foldl_ge _ _)
    · exact ih _ h

/-- every entry with a valid offset ends at or before `freeOf` -/
theorem freeOf_ge (es : List Entry) (e : Entry) (he : e ∈ es) (hv : e.offsetValid = true) :
    e.offset + e.length ≤ freeOf es := freeOf_foldl_mem es 0 e he hv

theorem freeOf_foldl_attained (es : List Entry) (a : Nat) :
    es.foldl (fun acc e => if e.offsetValid ∧ e.offset + e.length > acc then e.offset + e.length else acc) a = a ∨
    ∃ e ∈ es, e.offsetValid = true ∧
      es.foldl (fun acc e => if e.offsetValid ∧ e.offset + e.length > acc then e.offset + e.length else acc) a = e.offset + e.length := by
  induction es generalizing a with
  | nil => left; rfl
  | cons x xs ih =>
    simp only [List.foldl_cons]
    split
    · rename_i hx
      rcases ih (x.offset + x.length) with h | ⟨e, he, hv, h⟩
      · right; exact ⟨x, List.mem_cons_self, hx.1, h⟩
      · right; exact ⟨e, List.mem_cons_of_mem _ he, hv, h⟩
    · rcases ih a with h | ⟨e, he, hv, h⟩
      · left; exact h
      · right; exact ⟨e, List.mem_cons_of_mem _ he, hv, h⟩

/-- … and it is attained (or zero when no entry has storage) -/
theorem freeOf_attained (es : List Entry) :
    freeOf es = 0 ∨ ∃ e ∈ es, e.offsetValid = true ∧ freeOf es = e.offset + e.length :=
  freeOf_foldl_attained es 0

/-! ### lastIdx -/

theorem lastIdx_none {α} (p : α → Bool) (l : List α) (h : lastIdx p l = none) :
    ∀ x ∈ l, p x = false := by
  induction l with
  | nil => intro x hx; cases hx
  | cons a as ih =>
    simp only [lastIdx] at h
    split at h
    · cases h
    · rename_i hn
      split at h
      · cases h
      · rename_i hpa
        intro x hx
        rcases List.mem_cons.mp hx with rfl | hx
        · simpa using hpa
        · exact ih hn x hx

theorem lastIdx_some {α} (p : α → Bool) (l : List α) (i : Nat) (h : lastIdx p l = some i) :
    ∃ x, l[i]? = some x ∧ p x = true ∧ ∀ k y, i < k → l[k]? = some y → p y = false := by
  induction l generalizing i with
  | nil => cases h
  | cons x xs ih =>
    simp only [lastIdx] at h
    split at h
    · rename_i k hk
      injection h with h; subst h
      obtain ⟨y, h1, h2, h3⟩ := ih k hk
      refine ⟨y, by simpa using h1, h2, ?_⟩
      intro m z hm hz
      cases m with
      | zero => omega
      | succ m => exact h3 m z (by omega) (by simpa using hz)
    · rename_i hn
      split at h
      · rename_i hp
        injection h with h; subst h
        refine ⟨x, rfl, hp, ?_⟩
        intro m z hm hz
        cases m with
        | zero => omega
        | succ m =>
          simp only [List.getElem?_cons_succ] at hz
          exact lastIdx_none p xs hn z (List.mem_of_getElem? hz)
      · cases h

/-! ### stable insertion sort is the identity on a list whose keys never decrease -/

theorem insertBy_le_head {α} (key : α → Nat) (x : α) (l : List α)
    (h : ∀ y ∈ l, key x ≤ key y) : insertBy key x l = x :: l := by
  cases l with
  | nil => rfl
  | cons y ys =>
    have : ¬ key y < key x := by have := h y List.mem_cons_self; omega
    simp [insertBy, this]

theorem isort_sorted {α} (key : α → Nat) (l : List α)
    (h : l.Pairwise (fun a b => key a ≤ key b)) : isort key l = l := by
  induction l with
  | nil => rfl
  | cons x xs ih =>
    rw [List.pairwise_cons] at h
    simp only [isort, ih h.2]
    exact insertBy_le_head key x xs h.1

end Fiano.TightenMe
