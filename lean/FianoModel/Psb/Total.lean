/-
  pkg/amd/psb key / key-database / PSP-binary parsing against Go's semantics (GoM):
  `newTokenOrRootKey`, `NewRootKey`, `NewTokenKey`, `NewKeyFromDatabase`, `parseKeyDatabase`
  (keys.go, keyset.go) and `newPSPBinary` + `getSignedBlob` as reached through
  `ValidatePSPEntry` (psbbinary.go, pspentries.go) — as repaired by
  fixes/C20-psb-key-size-alloc.diff: `readExponent` / `readModulus` compare the announced size
  with the bytes that are left *before* `make` (ExponentSize = 0xFFFFFFF8 asked for 512 MiB twice).

  `getSignedBlob` computes its offsets in `uint32` with wrap-around (`% two32`); the model keeps
  that and the proof shows that `checkBoundaries` still guards both slices.  Key look-up and
  the RSA verification are not byte parsing: the key set is a parameter (`KeyInfo` list) and
  the cryptographic verdict does not influence safety.

  Own namespace (`Fiano.PsbTotal`): C16 / C17 own the functional AMD models.
-/
import FianoModel.Total.Hoare

namespace Fiano.PsbTotal
open GoM

def two32 : Nat := 4294967296

/-- `readExponent` / `readModulus` (repaired) -/
def readSizedG (site : String) (B bits : Nat) (r : Bytes) : GoM (Bytes × Bytes) := do
  if bits % 8 ≠ 0 then err
  else if bits / 8 > r.length then err                          -- repaired: before the make
  else do
    allocB site B (bits / 8) 1                                  -- make([]byte, size/8)
    allocB "binary.Read: make([]byte, n)" B (bits / 8) 1        -- binary.Read's own buffer
    binaryReadG r (bits / 8)

/-- the unrepaired order: `make` (and `binary.Read`'s buffer) before anything is known about the input -/
def readSizedOldG (site : String) (B bits : Nat) (r : Bytes) : GoM (Bytes × Bytes) := do
  if bits % 8 ≠ 0 then err
  else do
    allocB site B (bits / 8) 1
    allocB "binary.Read: make([]byte, n)" B (bits / 8) 1
    binaryReadG r (bits / 8)

structure Key where
  header : Bytes       -- the fixed part as read
  exponent : Bytes
  modulus : Bytes
  deriving Repr, DecidableEq

/-- `newTokenOrRootKey`: 64 header bytes field by field, then exponent and modulus -/
def tokenOrRootKeyG (B : Nat) (bs : Bytes) : GoM (Key × Bytes) := do
  let (h, r) ← readFieldsG [4, 16, 16, 4, 16, 4, 4] bs []
  let (e, r1) ← readSizedG "readExponent: make([]byte, ExponentSize/8)" B (fieldLE h 56 4) r
  let (md, r2) ← readSizedG "readModulus: make([]byte, ModulusSize/8)" B (fieldLE h 60 4) r1
  pure ({ header := h, exponent := e, modulus := md }, r2)

def rootKeyG (B : Nat) (bs : Bytes) : GoM Key := do
  let (k, _) ← tokenOrRootKeyG B bs
  if slice k.header 4 16 ≠ slice k.header 20 16 then err else pure k

/-- `NewTokenKey`: `sigLen` = modulus length of the signing key found in the key set (`none` =
    not found); returns the signature and the signed prefix `raw[:lenSigned]` -/
def tokenKeyG (B : Nat) (sigLen : Option Nat) (bs : Bytes) : GoM (Key × Bytes × Bytes) := do
  let (k, r) ← tokenOrRootKeyG B bs
  match sigLen with
  | none => err
  | some n =>
    if n = 0 then err                                            -- SignatureSize(): checkValid
    else do
      allocB "NewTokenKey: make([]byte, signatureSize)" B n 1
      let (sg, _) ← binaryReadG r n
      -- since /repo bbab7fd: 64 + ExponentSize/8 + ModulusSize/8 in uint64 (was 64 + 2*ModulusSize/8 in uint32)
      let lenSigned := 64 + fieldLE k.header 56 4 / 8 + fieldLE k.header 60 4 / 8
      if bs.length < lenSigned then err
      else do
        let signed ← sliceToG "NewTokenKey: raw[:lenSigned]" bs lenSigned
        pure (k, sg, signed)

/-- `NewKeyFromDatabase`: one entry; returns (key id, modulus) and the rest of the buffer -/
def dbKeyG (B : Nat) (r : Bytes) : GoM ((Bytes × Bytes) × Bytes) := do
  let (ds, r1) ← binaryReadG r 4
  let dataSize := fromLE ds
  if dataSize > r1.length + 4 then err
  else do
    let (f, r2) ← readFieldsG [4, 4, 4, 16, 4] r1 []           -- version, usage, exponent, key id, key size
    let keySize := fieldLE f 28 4
    if keySize = 0 then err
    else if keySize % 8 ≠ 0 then err
    else do
      let (_, r3) ← binaryReadG r2 44
      if 80 + keySize / 8 > dataSize then err
      else do
        let (md, r4) ← readSizedG "readModulus: make([]byte, ModulusSize/8)" B keySize r3
        pure ((slice f 12 16, md), r4)

/-- the loop of `parseKeyDatabase` (after the 80-byte header): until the buffer is empty -/
def dbLoopG (B : Nat) : Nat → Bytes → List Bytes → GoM (List Bytes)
  | 0, _, _ => outOfFuel
  | fuel+1, r, ids =>
    if r.length = 0 then pure ids
    else do
      let ((id, _), r') ← dbKeyG B r
      if ids.contains id then err                               -- KeySet.AddKey: duplicate id
      else dbLoopG B fuel r' (ids ++ [id])

def parseKeyDatabaseG (B : Nat) (bs : Bytes) : GoM (List Bytes) := do
  let (_, r) ← binaryReadG bs 80
  dbLoopG B (bs.length + 1) r []

/-! ### PSP binary -/

def pspHeaderSize : Nat := 0x100
def pspHeaderDataSize : Nat := 208       -- binary.Size(PSPHeaderData{})

structure KeyInfo where
  id : Bytes
  modBits : Nat       -- ModulusSize
  expBits : Nat       -- ExponentSize
  deriving Repr, DecidableEq

inductive Verdict where
  | reach (signature signed : Bytes)    -- NewSignedBlob is called on these slices
  | nokey
  | invalid
  deriving Repr, DecidableEq

def align16 (x : Nat) : Nat := ((x + 15) % two32) / 16 * 16           -- (x + 15) & ^15 in uint32

/-- `ValidatePSPEntry` on the bytes of one entry: `newPSPBinary`, then `getSignedBlob` -/
def validateEntryG (B : Nat) (keys : List KeyInfo) (data : Bytes) : GoM Verdict := do
  allocB "newPSPBinary: make([]byte, len(data))" B data.length 1
  let (h, _) ← binaryReadG data pspHeaderDataSize
  let sizeSigned := fieldLE h 20 4
  let sizeImageF := fieldLE h 108 4
  if sizeSigned = 0 then pure .invalid
  else if sizeImageF = 0 then pure .invalid
  else
    match keys.find? (fun k => k.id = slice h 56 16) with
    | none => pure .nokey
    | some k =>
      if k.modBits ≠ k.expBits then pure .invalid
      else
        let sizeSignature := k.modBits / 8
        let compressed := fieldLE h 72 4 ≠ 0
        if ¬ compressed ∧ sizeSigned > sizeImageF then pure .invalid
        else
          let sizeSignedImage :=
            if compressed then (align16 (fieldLE h 84 4) + pspHeaderSize) % two32
            else (sizeSigned + pspHeaderSize) % two32
          let sizeImage := if compressed then (sizeSignedImage + sizeSignature) % two32 else sizeImageF
          if sizeImage ≤ sizeSignature then pure .invalid
          else
            let sigStart := sizeImage - sizeSignature
            let sigEnd := (sigStart + sizeSignature) % two32
            -- checkBoundaries(start, end, blob)
            if sigStart > data.length ∨ sigEnd > data.length ∨ sigStart > sigEnd then pure .invalid
            else if sizeSignedImage > data.length then pure .invalid
            else do
              let sg ← sliceG "getSignedBlob: b.raw[signatureStart:signatureEnd]" data sigStart sigEnd
              let sd ← sliceG "getSignedBlob: b.raw[signedDataStart:signedDataEnd]" data 0 sizeSignedImage
              if sd.length ≤ pspHeaderSize then pure .invalid
              else pure (.reach sg sd)

/-! ### totality -/

theorem readSizedG_spec (site : String) (B bits : Nat) (r : Bytes) (m : Meter)
    (hB : m.alloc + 2 * r.length ≤ B) :
    SafeP (readSizedG site B bits r) m
      (fun p m' => p.2.length ≤ r.length ∧ m'.alloc + 2 * p.2.length ≤ m.alloc + 2 * r.length ∧
        p.1.length ≤ r.length) := by
  unfold readSizedG
  apply SafeP.ite; · intro _; exact SafeP.err
  intro _
  apply SafeP.ite; · intro _; exact SafeP.err
  intro hle
  apply SafeP.bind; apply SafeP.alloc (by omega)
  apply SafeP.bind; apply SafeP.alloc (by simp only []; omega)
  apply SafeP.binaryRead
  intro _
  simp only [List.length_drop, List.length_take]
  omega

theorem tokenOrRootKeyG_spec (B : Nat) (bs : Bytes) (m : Meter) (hB : m.alloc + 2 * bs.length ≤ B) :
    SafeP (tokenOrRootKeyG B bs) m
      (fun p m' => p.2.length ≤ bs.length ∧ m'.alloc + 2 * p.2.length ≤ m.alloc + 2 * bs.length ∧
        p.1.modulus.length ≤ bs.length ∧ p.1.exponent.length ≤ bs.length) := by
  unfold tokenOrRootKeyG
  apply SafeP.bind
  apply SafeP.mono (readFieldsG_spec _ _ _ m)
  intro p m1 ⟨hl, hm⟩
  rw [hm]
  apply SafeP.bind
  apply SafeP.mono (readSizedG_spec _ B _ p.2 m (by omega))
  intro p1 m2 ⟨hl1, ha1, hx1⟩
  apply SafeP.bind
  apply SafeP.mono (readSizedG_spec _ B _ p1.2 m2 (by omega))
  intro p2 m3 ⟨hl2, ha2, hx2⟩
  apply SafeP.pure
  simp only
  omega

/-- `NewRootKey`: metered allocation ≤ 2·|input| -/
theorem rootKeyG_spec (B : Nat) (bs : Bytes) (m : Meter) (hB : m.alloc + 2 * bs.length ≤ B) :
    SafeP (rootKeyG B bs) m (fun _ _ => True) := by
  unfold rootKeyG
  apply SafeP.bind
  apply SafeP.mono (tokenOrRootKeyG_spec B bs m hB)
  intro p m' _
  simp only
  apply SafeP.ite
  · intro _; exact SafeP.err
  · intro _; exact SafeP.pure trivial

/-- `NewTokenKey`: the signature buffer has the size of the *signing* key's modulus, so the bound
    carries that term: metered allocation ≤ 2·|input| + sigLen -/
theorem tokenKeyG_spec (B : Nat) (sigLen : Option Nat) (bs : Bytes) (m : Meter)
    (hB : m.alloc + 2 * bs.length + sigLen.getD 0 ≤ B) :
    SafeP (tokenKeyG B sigLen bs) m (fun _ _ => True) := by
  unfold tokenKeyG
  apply SafeP.bind
  apply SafeP.mono (tokenOrRootKeyG_spec B bs m (by omega))
  intro p m' ⟨_, ha, _, _⟩
  simp only
  cases sigLen with
  | none => exact SafeP.err
  | some n =>
    simp only [Option.getD_some] at hB
    simp only
    apply SafeP.ite; · intro _; exact SafeP.err
    intro _
    apply SafeP.bind; apply SafeP.alloc (by omega)
    apply SafeP.bind; apply SafeP.binaryRead; intro _
    simp only
    apply SafeP.ite; · intro _; exact SafeP.err
    intro hlen
    apply SafeP.bind; apply SafeP.sliceTo (by omega)
    exact SafeP.pure trivial

theorem dbKeyG_spec (B : Nat) (r : Bytes) (m : Meter) (hB : m.alloc + 2 * r.length ≤ B) :
    SafeP (dbKeyG B r) m
      (fun p m' => p.2.length + 4 ≤ r.length ∧ m'.alloc + 2 * p.2.length ≤ m.alloc + 2 * r.length ∧
        p.1.2.length ≤ r.length) := by
  unfold dbKeyG
  apply SafeP.bind; apply SafeP.binaryRead; intro h4
  simp only
  apply SafeP.ite; · intro _; exact SafeP.err
  intro _
  have hd4 : (List.drop 4 r).length = r.length - 4 := by simp
  apply SafeP.bind
  apply SafeP.mono (readFieldsG_spec _ _ _ m)
  intro p m1 ⟨hl, hm⟩
  rw [hm]
  apply SafeP.ite; · intro _; exact SafeP.err
  intro _
  apply SafeP.ite; · intro _; exact SafeP.err
  intro _
  apply SafeP.bind; apply SafeP.binaryRead; intro h44
  simp only
  apply SafeP.ite; · intro _; exact SafeP.err
  intro _
  have hd44 : (List.drop 44 p.2).length = p.2.length - 44 := by simp
  apply SafeP.bind
  apply SafeP.mono (readSizedG_spec _ B _ (List.drop 44 p.2) m (by omega))
  intro q m2 ⟨hl2, ha2, hx2⟩
  apply SafeP.pure
  simp only
  omega

/-- every round consumes at least the 4-byte size field, so `|input| + 1` rounds suffice -/
theorem dbLoopG_spec (B fuel : Nat) (r : Bytes) (ids : List Bytes) (m : Meter)
    (hfuel : r.length < fuel) (hB : m.alloc + 2 * r.length ≤ B) :
    SafeP (dbLoopG B fuel r ids) m (fun _ m' => m'.alloc ≤ m.alloc + 2 * r.length) := by
  induction fuel generalizing r ids m with
  | zero => omega
  | succ fuel ih =>
    unfold dbLoopG
    apply SafeP.ite
    · intro _; exact SafeP.pure (by omega)
    · intro _
      apply SafeP.bind
      apply SafeP.mono (dbKeyG_spec B r m hB)
      intro p m' ⟨hl, ha, _⟩
      simp only
      apply SafeP.cond
      · intro _; exact SafeP.err
      · intro _
        apply SafeP.mono (ih p.2 _ m' (by omega) (by omega))
        intro _ m'' h
        omega

/-- `parseKeyDatabase`: metered allocation ≤ 2·|input| -/
theorem parseKeyDatabaseG_spec (B : Nat) (bs : Bytes) (m : Meter) (hB : m.alloc + 2 * bs.length ≤ B) :
    SafeP (parseKeyDatabaseG B bs) m (fun _ _ => True) := by
  unfold parseKeyDatabaseG
  apply SafeP.bind; apply SafeP.binaryRead; intro _
  simp only
  have : (List.drop 80 bs).length = bs.length - 80 := by simp
  apply SafeP.mono (dbLoopG_spec B (bs.length + 1) (List.drop 80 bs) [] m (by omega) (by omega))
  intro _ _ _; trivial

/-- DESIGN.md §8 #23: a 64-byte key header with `ExponentSize = 0xFFFFFFF8` -/
def keyWitness : Bytes := leN 4 1 ++ List.replicate 16 7 ++ List.replicate 16 7 ++ leN 4 0 ++ List.replicate 16 0 ++
  leN 4 0xfffffff8 ++ leN 4 0x800

theorem readSizedOldG_witness :
    readSizedOldG "readExponent: make([]byte, ExponentSize/8)" (64 * keyWitness.length + 16777216)
      (fieldLE keyWitness 56 4) [] {} =
      .error (.panic "alloc-budget: readExponent: make([]byte, ExponentSize/8)") := by decide

theorem rootKeyG_witness_err : rootKeyG (64 * keyWitness.length + 16777216) keyWitness {} = .error .err := by decide

theorem align16_le (x : Nat) : align16 x < two32 := by
  unfold align16 two32
  omega

/-- `ValidatePSPEntry`: both slices of `getSignedBlob` are inside the entry, whatever the
    header says; metered allocation = |entry| (the defensive copy of `newPSPBinary`) -/
theorem validateEntryG_spec (B : Nat) (keys : List KeyInfo) (data : Bytes) (m : Meter)
    (hB : m.alloc + data.length ≤ B) :
    SafeP (validateEntryG B keys data) m (fun v m' => m'.alloc ≤ m.alloc + data.length ∧ ∀ sg sd, v = .reach sg sd →
      sd.length ≤ data.length ∧ sg.length ≤ data.length ∧ pspHeaderSize < sd.length) := by
  unfold validateEntryG
  apply SafeP.bind; apply SafeP.alloc (by omega)
  apply SafeP.bind; apply SafeP.binaryRead; intro _
  simp only
  apply SafeP.ite; · intro _; exact SafeP.pure ⟨by simp only; omega, by intro _ _ h; cases h⟩
  intro _
  apply SafeP.ite; · intro _; exact SafeP.pure ⟨by simp only; omega, by intro _ _ h; cases h⟩
  intro _
  split
  · exact SafeP.pure ⟨by simp only; omega, by intro _ _ h; cases h⟩
  · rename_i k _
    apply SafeP.ite; · intro _; exact SafeP.pure ⟨by simp only; omega, by intro _ _ h; cases h⟩
    intro _
    apply SafeP.ite; · intro _; exact SafeP.pure ⟨by simp only; omega, by intro _ _ h; cases h⟩
    intro _
    apply SafeP.ite; · intro _; exact SafeP.pure ⟨by simp only; omega, by intro _ _ h; cases h⟩
    intro hgt
    apply SafeP.ite; · intro _; exact SafeP.pure ⟨by simp only; omega, by intro _ _ h; cases h⟩
    intro hb1
    apply SafeP.ite; · intro _; exact SafeP.pure ⟨by simp only; omega, by intro _ _ h; cases h⟩
    intro hb2
    apply SafeP.bind; apply SafeP.slice (by omega)
    apply SafeP.bind; apply SafeP.slice (by omega)
    apply SafeP.ite; · intro _; exact SafeP.pure ⟨by simp only; omega, by intro _ _ h; cases h⟩
    intro hlen
    apply SafeP.pure
    refine ⟨by simp only; omega, ?_⟩
    intro sg sd h
    injection h with h1 h2
    subst h1 h2
    simp only [List.length_take, List.length_drop] at *
    omega

end Fiano.PsbTotal
