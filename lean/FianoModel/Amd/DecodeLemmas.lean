/-
  Every field the model decodes from a directory record or a key is the stated bit range of the
  record (`Spec.bits`).  Flag bytes: the uint8 expressions are compared with div/mod arithmetic
  by `decide` over all 256 values and lifted to every `UInt8`.
-/
import FianoModel.Amd.Spec

namespace Fiano.Amd

/-! ### little-endian integers and slices -/

theorem fromLE_drop : ∀ (o : Nat) (r : Bytes), fromLE (r.drop o) = fromLE r / 256 ^ o
  | 0, r => by simp
  | o+1, [] => by simp [fromLE]
  | o+1, x :: xs => by
    have hx := x.toNat_lt
    simp only [List.drop_succ_cons, fromLE, fromLE_drop o xs, Nat.pow_succ]
    rw [Nat.mul_comm (256 ^ o) 256, ← Nat.div_div_eq_div_mul]
    congr 1
    omega

theorem fromLE_take : ∀ (n : Nat) (r : Bytes), fromLE (r.take n) = fromLE r % 256 ^ n
  | 0, r => by simp [fromLE, Nat.mod_one]
  | n+1, [] => by simp [fromLE]
  | n+1, x :: xs => by
    have hx := x.toNat_lt
    simp only [List.take_succ_cons, fromLE, fromLE_take n xs, Nat.pow_succ]
    rw [Nat.mul_comm (256 ^ n) 256, Nat.mod_mul]
    have h1 : (x.toNat + 256 * fromLE xs) % 256 = x.toNat := by omega
    have h2 : (x.toNat + 256 * fromLE xs) / 256 = fromLE xs := by omega
    rw [h1, h2]

/-- a byte-aligned field of a record = that bit range of the record as one LE integer
    (no length hypothesis: missing bytes read as zero on both sides) -/
theorem fromLE_slice (r : Bytes) (o n : Nat) : fromLE (slice r o n) = fromLE r / 256 ^ o % 256 ^ n := by
  simp only [slice, fromLE_take, fromLE_drop]

theorem getD_toNat : ∀ (i : Nat) (r : Bytes), (r.getD i 0).toNat = fromLE r / 256 ^ i % 256
  | i, [] => by simp [fromLE]
  | 0, x :: xs => by
    have hx := x.toNat_lt
    simp [fromLE]
  | i+1, x :: xs => by
    have hx := x.toNat_lt
    have := getD_toNat i xs
    simp only [List.getD_cons_succ, this, fromLE, Nat.pow_succ]
    rw [Nat.mul_comm (256 ^ i) 256, ← Nat.div_div_eq_div_mul]
    congr 2
    omega

/-! ### flag bytes: all 256 values, lifted -/

theorem romId_nat (f : UInt16) : (pspRomId f).toNat = f.toNat / 16384 := by
  have hf := f.toNat_lt
  unfold pspRomId
  simp only [UInt8.toNat_and, UInt16.toNat_toUInt8, UInt16.toNat_shiftRight]
  have : (f.toNat >>> (UInt16.toNat 14 % 16)) = f.toNat / 16384 := by
    rw [Nat.shiftRight_eq_div_pow]; rfl
  rw [this]
  have h4 : f.toNat / 16384 < 4 := by omega
  have : f.toNat / 16384 % 2 ^ 8 = f.toNat / 16384 := Nat.mod_eq_of_lt (by omega)
  rw [this]
  show f.toNat / 16384 &&& (2^2 - 1) = _
  rw [Nat.and_two_pow_sub_one_eq_mod]
  omega

set_option maxRecDepth 100000 in
theorem bios_flags_aux : ∀ n, n < 256 →
    biosResetImage (UInt8.ofNat n) = (n % 2 == 1) ∧
    biosCopyImage (UInt8.ofNat n) = (n / 2 % 2 == 1) ∧
    biosReadOnly (UInt8.ofNat n) = (n / 4 % 2 == 1) ∧
    biosCompressed (UInt8.ofNat n) = (n / 8 % 2 == 1) ∧
    (biosInstance (UInt8.ofNat n)).toNat = n / 16 ∧
    (biosSubprogram (UInt8.ofNat n)).toNat = n % 8 ∧
    (biosRomId (UInt8.ofNat n)).toNat = n / 8 % 4 := by decide

/-- the flag-byte decoders of ParseBIOSDirectoryTableEntry, for every byte value `n < 256` -/
theorem bios_flags (n : Nat) (h : n < 256) :
    biosResetImage (UInt8.ofNat n) = (n % 2 == 1) ∧
    biosCopyImage (UInt8.ofNat n) = (n / 2 % 2 == 1) ∧
    biosReadOnly (UInt8.ofNat n) = (n / 4 % 2 == 1) ∧
    biosCompressed (UInt8.ofNat n) = (n / 8 % 2 == 1) ∧
    (biosInstance (UInt8.ofNat n)).toNat = n / 16 ∧
    (biosSubprogram (UInt8.ofNat n)).toNat = n % 8 ∧
    (biosRomId (UInt8.ofNat n)).toNat = n / 8 % 4 := bios_flags_aux n h

set_option maxRecDepth 100000 in
theorem key_flags_aux : ∀ n, n < 256 →
    (keyRevision (UInt8.ofNat n)).toNat = n % 16 ∧
    (platformModel (UInt8.ofNat n)).toNat = n / 16 ∧
    featAntiRollback (UInt8.ofNat n) = (n % 2 == 1) ∧
    featAMDKeyUse (UInt8.ofNat n) = (n / 2 % 2 == 1) ∧
    featDebugUnlock (UInt8.ofNat n) = (n / 4 % 2 == 1) := by decide

/-- the (repaired) key attribute decoders, for every byte -/
theorem key_flags (b : UInt8) :
    (keyRevision b).toNat = b.toNat % 16 ∧
    (platformModel b).toNat = b.toNat / 16 ∧
    featAntiRollback b = (b.toNat % 2 == 1) ∧
    featAMDKeyUse b = (b.toNat / 2 % 2 == 1) ∧
    featDebugUnlock b = (b.toNat / 4 % 2 == 1) := by
  have := key_flags_aux b.toNat b.toNat_lt
  simpa using this

/-! ### records -/

/-- ParsePSPDirectoryTableEntry: every field is the documented bit range of the 16-byte record -/
theorem decodePSPEntry_eq_spec (r : Bytes) : decodePSPEntry r = Spec.pspEntry r := by
  unfold decodePSPEntry Spec.pspEntry Spec.bits
  simp only [fromLE_slice, romId_nat]
  generalize fromLE r = X
  have e1 : (UInt16.ofNat (X / 256 ^ 2 % 256 ^ 2)).toNat = X / 256 ^ 2 % 256 ^ 2 := by
    simp only [UInt16.toNat_ofNat']
    omega
  rw [e1]
  congr 1 <;> omega

/-- ParseBIOSDirectoryTableEntry: every field is the documented bit range of the 24-byte record -/
theorem decodeBIOSEntry_eq_spec (r : Bytes) : decodeBIOSEntry r = Spec.biosEntry r := by
  unfold decodeBIOSEntry Spec.biosEntry Spec.bit Spec.bits
  simp only [fromLE_slice]
  generalize fromLE r = X
  have h1 : X / 256 ^ 2 % 256 ^ 1 < 256 := by omega
  have h2 : X / 256 ^ 3 % 256 ^ 1 < 256 := by omega
  obtain ⟨a1, a2, a3, a4, a5, _, _⟩ := bios_flags _ h1
  obtain ⟨_, _, _, _, _, b6, b7⟩ := bios_flags _ h2
  simp only [a1, a2, a3, a4, a5, b6, b7]
  generalize hf1 : X / 256 ^ 2 % 256 ^ 1 = f1 at *
  generalize hf2 : X / 256 ^ 3 % 256 ^ 1 = f2 at *
  have c1 : f1 % 2 = X / 2 ^ 16 % 2 ^ 1 := by omega
  have c2 : f1 / 2 % 2 = X / 2 ^ 17 % 2 ^ 1 := by omega
  have c3 : f1 / 4 % 2 = X / 2 ^ 18 % 2 ^ 1 := by omega
  have c4 : f1 / 8 % 2 = X / 2 ^ 19 % 2 ^ 1 := by omega
  have c5 : f1 / 16 = X / 2 ^ 20 % 2 ^ 4 := by omega
  have c6 : f2 % 8 = X / 2 ^ 24 % 2 ^ 3 := by omega
  have c7 : f2 / 8 % 4 = X / 2 ^ 27 % 2 ^ 2 := by omega
  rw [c1, c2, c3, c4, c5, c6, c7]

/-- directory header fields are the four 32-bit words of the first 16 bytes -/
theorem header_fields (r : Bytes) :
    (fromLE (slice r 0 4), fromLE (slice r 4 4), fromLE (slice r 8 4), fromLE (slice r 12 4)) = Spec.dirHeader r := by
  unfold Spec.dirHeader Spec.bits
  simp only [fromLE_slice]

/-! ### key attributes -/

theorem parsePlatformBinding_eq_spec (reserved : Bytes) :
    parsePlatformBinding reserved = Spec.platformBinding reserved := by
  unfold parsePlatformBinding Spec.platformBinding Spec.bits
  obtain ⟨k1, k2, _, _, _⟩ := key_flags (reserved.getD 1 0)
  simp only [k1, k2, getD_toNat]
  generalize fromLE reserved = X
  congr 1 <;> omega

theorem parseSecurityFeatureVector_eq_spec (reserved : Bytes) :
    parseSecurityFeatureVector reserved = Spec.securityFeatures reserved := by
  unfold parseSecurityFeatureVector Spec.securityFeatures Spec.bit Spec.bits
  obtain ⟨_, _, k3, k4, k5⟩ := key_flags (reserved.getD 3 0)
  simp only [k3, k4, k5, getD_toNat]
  generalize fromLE reserved = X
  have c1 : X / 256 ^ 3 % 256 % 2 = X / 2 ^ 24 % 2 ^ 1 := by omega
  have c2 : X / 256 ^ 3 % 256 / 2 % 2 = X / 2 ^ 25 % 2 ^ 1 := by omega
  have c3 : X / 256 ^ 3 % 256 / 4 % 2 = X / 2 ^ 26 % 2 ^ 1 := by omega
  rw [c1, c2, c3]

end Fiano.Amd
