/-
  Reference grammar of a well-formed AMD image, for `find_wf`: where the embedded firmware
  structure and the directory tables stand, and what makes them discoverable.  Written from the
  format (EFS at the first matching anchor; a level-1 directory is designated either by the EFS
  pointer or — pointer absent — by being the first occurrence of its cookie; a level-2 directory by
  the first level-2 entry of the level-1 directory), not from fiano's control flow.
-/
import FianoModel.Amd.Spec

namespace Fiano.Amd

/-- the bytes `raw` stand at offset `p` of the image -/
def Img.Holds (img : Img) (p : Nat) (raw : Bytes) : Prop :=
  p + raw.length ≤ img.len ∧ img.window p raw.length = raw

/-- the EFS signature stands at the offset of anchor address `a` -/
def SigAt (img : Img) (a : Nat) : Prop :=
  physAddrToOffset img.len a + 4 ≤ img.len ∧ fromLE (img.window (physAddrToOffset img.len a) 4) = efsSignature

/-- a pointer that designates nothing: zero, or not inside the image -/
def NoPtr (img : Img) (o : Nat) : Prop := o = 0 ∨ img.len ≤ o

structure Layout where
  anchor : Nat                     -- physical address of the embedded firmware structure
  psp1   : Option (Nat × Bytes)    -- offset and bytes of the level-1 PSP directory
  psp2   : Option (Nat × Bytes)
  bios1  : Option (Nat × Bytes)
  bios2  : Option (Nat × Bytes)

namespace Layout

def efsOff (lay : Layout) (img : Img) : Nat := physAddrToOffset img.len lay.anchor
def efs (lay : Layout) (img : Img) : EFS := Spec.efs (img.window (lay.efsOff img) efsSize)
def biosSlots (lay : Layout) (img : Img) : List Nat :=
  [(lay.efs img).bios0, (lay.efs img).bios1, (lay.efs img).bios2, (lay.efs img).bios3]

/-- level-1 PSP directory: by pointer, or by being the first `$PSP` of the image -/
def PSP1OK (lay : Layout) (img : Img) : Prop :=
  match lay.psp1 with
  | some (p, raw) => img.Holds p raw ∧ Spec.IsPSPTable raw ∧
      (((lay.efs img).pspPtr = p ∧ p ≠ 0) ∨
       (NoPtr img (lay.efs img).pspPtr ∧ Spec.bits raw 0 32 = pspCookie ∧
         ∀ r, r < p → img.window r 4 ≠ leN 4 pspCookie))
  | none => NoPtr img (lay.efs img).pspPtr ∧ ∀ r, r + 4 ≤ img.len → img.window r 4 ≠ leN 4 pspCookie

/-- level-2 PSP directory: designated by the first entry of type 0x40 of level 1 -/
def PSP2OK (lay : Layout) (img : Img) : Prop :=
  match lay.psp1, lay.psp2 with
  | some (_, raw1), some (q, raw2) =>
      (∃ e, (Spec.pspTable raw1).entries.find? (fun e => e.type = pspL2EntryType) = some e ∧ e.loc = q) ∧
      q ≠ 0 ∧ img.Holds q raw2 ∧ Spec.IsPSPTable raw2
  | some (_, raw1), none =>
      ∀ e, (Spec.pspTable raw1).entries.find? (fun e => e.type = pspL2EntryType) = some e → NoPtr img e.loc
  | none, some _ => False
  | none, none => True

/-- level-1 BIOS directory: by the first usable one of the four EFS slots, or — all slots empty —
    by being the first `$BHD` of the image -/
def BIOS1OK (lay : Layout) (img : Img) : Prop :=
  match lay.bios1 with
  | some (p, raw) => img.Holds p raw ∧ Spec.IsBIOSTable raw ∧
      ((∃ pre post, lay.biosSlots img = pre ++ p :: post ∧ p ≠ 0 ∧ ∀ o ∈ pre, NoPtr img o) ∨
       ((∀ o ∈ lay.biosSlots img, NoPtr img o) ∧ Spec.bits raw 0 32 = biosCookie ∧
         ∀ r, r < p → img.window r 4 ≠ leN 4 biosCookie))
  | none => (∀ o ∈ lay.biosSlots img, NoPtr img o) ∧
      ∀ r, r + 4 ≤ img.len → img.window r 4 ≠ leN 4 biosCookie

def BIOS2OK (lay : Layout) (img : Img) : Prop :=
  match lay.bios1, lay.bios2 with
  | some (_, raw1), some (q, raw2) =>
      (∃ e, (Spec.biosTable raw1).entries.find? (fun e => e.type = biosL2EntryType) = some e ∧ e.src = q) ∧
      q ≠ 0 ∧ img.Holds q raw2 ∧ Spec.IsBIOSTable raw2
  | some (_, raw1), none =>
      ∀ e, (Spec.biosTable raw1).entries.find? (fun e => e.type = biosL2EntryType) = some e → NoPtr img e.src
  | none, some _ => False
  | none, none => True

/-- the image is well formed with respect to the layout -/
structure WF (lay : Layout) (img : Img) : Prop where
  small  : img.len < 2 ^ 32
  anchor : ∃ pre post, efsAnchors = pre ++ lay.anchor :: post ∧ ∀ a ∈ pre, ¬ SigAt img a
  sig    : SigAt img lay.anchor
  efsFit : lay.efsOff img + efsSize ≤ img.len
  psp1   : lay.PSP1OK img
  psp2   : lay.PSP2OK img
  bios1  : lay.BIOS1OK img
  bios2  : lay.BIOS2OK img

/-- what discovery must return: exactly the embedded structures, read by the specification -/
def expected (lay : Layout) (img : Img) : PSPFirmware :=
  { efs := lay.efs img
    efsRange := ⟨lay.efsOff img, efsSize⟩
    psp1 := lay.psp1.map (fun x => (Spec.pspTable x.2, ⟨x.1, x.2.length⟩))
    psp2 := lay.psp2.map (fun x => (Spec.pspTable x.2, ⟨x.1, x.2.length⟩))
    bios1 := lay.bios1.map (fun x => (Spec.biosTable x.2, ⟨x.1, x.2.length⟩))
    bios2 := lay.bios2.map (fun x => (Spec.biosTable x.2, ⟨x.1, x.2.length⟩)) }

end Layout
end Fiano.Amd
