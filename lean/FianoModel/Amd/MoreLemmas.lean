/-
  Further lemmas for Props/C17: parsing only depends on the bytes inside the image, EFS probe
  inversion, physical address arithmetic, key header inversion.
-/
import FianoModel.Amd.FindLemmas

namespace Fiano.Amd

/-! ### parsing depends only on the bytes inside the image -/

/-- same length, same bytes inside -/
def Img.Same (a b : Img) : Prop := a.len = b.len ∧ ∀ i, i < a.len → a.get i = b.get i

theorem Img.Same.window {a b : Img} (h : a.Same b) (o k : Nat) (hk : o + k ≤ a.len) : a.window o k = b.window o k :=
  Img.window_ext _ _ _ _ _ (fun j hj => h.2 (o + j) (by omega))

theorem pspEntriesAt_same {a b : Img} (h : a.Same b) : ∀ (n off : Nat), off + 16 * n ≤ a.len →
    pspEntriesAt a off n = pspEntriesAt b off n
  | 0, _, _ => rfl
  | n+1, off, hf => by
    simp only [pspEntriesAt, pspEntrySize]
    rw [h.window off 16 (by omega), pspEntriesAt_same h n (off + 16) (by omega)]

theorem biosEntriesAt_same {a b : Img} (h : a.Same b) : ∀ (n off : Nat), off + 24 * n ≤ a.len →
    biosEntriesAt a off n = biosEntriesAt b off n
  | 0, _, _ => rfl
  | n+1, off, hf => by
    simp only [biosEntriesAt, biosEntrySize]
    rw [h.window off 24 (by omega), biosEntriesAt_same h n (off + 24) (by omega)]

theorem parsePSP_same {a b : Img} (h : a.Same b) (x : PSPTable × Nat) (hp : parsePSP a = .ok x) :
    parsePSP b = .ok x := by
  obtain ⟨t, n⟩ := x
  obtain ⟨⟨hck, hfit⟩, rfl, rfl⟩ := (parsePSP_iff a t n).1 hp
  have hfit' := hfit
  simp only [dirHeaderSize, pspEntrySize] at hfit'
  have w0 := h.window 0 4 (by omega)
  have w1 := h.window 4 4 (by omega)
  have w2 := h.window 8 4 (by omega)
  have w3 := h.window 12 4 (by omega)
  rw [parsePSP_iff]
  unfold PSPFits pspTableAt
  rw [← w0, ← w1, ← w2, ← w3, ← h.1]
  refine ⟨⟨hck, hfit⟩, ?_, rfl⟩
  rw [pspEntriesAt_same h _ dirHeaderSize (by simp only [dirHeaderSize]; omega)]

theorem parseBIOS_same {a b : Img} (h : a.Same b) (x : BIOSTable × Nat) (hp : parseBIOS a = .ok x) :
    parseBIOS b = .ok x := by
  obtain ⟨t, n⟩ := x
  obtain ⟨⟨hck, hfit⟩, rfl, rfl⟩ := (parseBIOS_iff a t n).1 hp
  have hfit' := hfit
  simp only [dirHeaderSize, biosEntrySize] at hfit'
  have w0 := h.window 0 4 (by omega)
  have w1 := h.window 4 4 (by omega)
  have w2 := h.window 8 4 (by omega)
  have w3 := h.window 12 4 (by omega)
  rw [parseBIOS_iff]
  unfold BIOSFits biosTableAt
  rw [← w0, ← w1, ← w2, ← w3, ← h.1]
  refine ⟨⟨hck, hfit⟩, ?_, rfl⟩
  rw [biosEntriesAt_same h _ dirHeaderSize (by simp only [dirHeaderSize]; omega)]

/-- `image[off : off+n]` of a byte string, as an image, is the slice -/
theorem ofBytes_drop_take_same (b : Bytes) (off n : Nat) (h : off + n ≤ b.length) :
    (((Img.ofBytes b).drop off).take n).Same (Img.ofBytes (slice b off n)) := by
  have hl : (slice b off n).length = n := slice_length b off n h
  constructor
  · simp only [Img.take_len, Img.drop_len, Img.ofBytes_len, hl]; omega
  · intro i hi
    simp only [Img.take_len, Img.drop_len, Img.ofBytes_len] at hi
    have hin : i < n := by omega
    simp only [Img.take, Img.drop, Img.ofBytes]
    have h1 : off + i < b.length := by omega
    have h2 : i < (slice b off n).length := by omega
    rw [List.getD_eq_getElem?_getD, List.getD_eq_getElem?_getD, List.getElem?_eq_getElem h1,
      List.getElem?_eq_getElem h2]
    simp [slice, List.getElem_take, List.getElem_drop]

/-! ### re-reading the reported range -/

theorem pspEntriesAt_take (d : Img) (m : Nat) : ∀ (n off : Nat), pspEntriesAt (d.take m) off n = pspEntriesAt d off n
  | 0, _ => rfl
  | n+1, off => by simp only [pspEntriesAt, Img.take_window, pspEntriesAt_take d m n]

theorem biosEntriesAt_take (d : Img) (m : Nat) : ∀ (n off : Nat), biosEntriesAt (d.take m) off n = biosEntriesAt d off n
  | 0, _ => rfl
  | n+1, off => by simp only [biosEntriesAt, Img.take_window, biosEntriesAt_take d m n]

theorem parsePSP_take (d : Img) (t : PSPTable) (n : Nat) (h : parsePSP d = .ok (t, n)) :
    parsePSP (d.take n) = .ok (t, n) := by
  obtain ⟨⟨hck, hfit⟩, rfl, rfl⟩ := (parsePSP_iff d t n).1 h
  rw [parsePSP_iff]
  refine ⟨⟨hck, ?_⟩, ?_, rfl⟩
  · simp only [Img.take_window, Img.take_len]
    omega
  · simp only [pspTableAt, Img.take_window, pspEntriesAt_take]

theorem parseBIOS_take (d : Img) (t : BIOSTable) (n : Nat) (h : parseBIOS d = .ok (t, n)) :
    parseBIOS (d.take n) = .ok (t, n) := by
  obtain ⟨⟨hck, hfit⟩, rfl, rfl⟩ := (parseBIOS_iff d t n).1 h
  rw [parseBIOS_iff]
  refine ⟨⟨hck, ?_⟩, ?_, rfl⟩
  · simp only [Img.take_window, Img.take_len]
    omega
  · simp only [biosTableAt, Img.take_window, biosEntriesAt_take]

/-- a table parsed at `off` lies inside the image -/
theorem parsePSP_inside (img : Img) (off : Nat) (t : PSPTable) (n : Nat) (h : parsePSP (img.drop off) = .ok (t, n)) :
    off + n ≤ img.len ∧ 16 ≤ n := by
  obtain ⟨⟨_, hfit⟩, _, rfl⟩ := (parsePSP_iff _ t n).1 h
  simp only [dirHeaderSize, pspEntrySize, Img.drop_len] at hfit ⊢
  omega

theorem parseBIOS_inside (img : Img) (off : Nat) (t : BIOSTable) (n : Nat) (h : parseBIOS (img.drop off) = .ok (t, n)) :
    off + n ≤ img.len ∧ 16 ≤ n := by
  obtain ⟨⟨_, hfit⟩, _, rfl⟩ := (parseBIOS_iff _ t n).1 h
  simp only [dirHeaderSize, biosEntrySize, Img.drop_len] at hfit ⊢
  omega

/-! ### EFS probe inversion -/

theorem parseEFS_inv (d : Img) (efs : EFS) (n : Nat) (h : parseEFS d = .ok (efs, n)) :
    efsSize ≤ d.len ∧ n = efsSize ∧ efs = Spec.efs (d.window 0 efsSize) ∧ efs.signature = efsSignature := by
  unfold parseEFS at h
  split at h
  · cases h
  · rename_i hlen
    simp only at h
    split at h
    · cases h
    · rename_i hs
      injection h with h; injection h with e1 e2
      refine ⟨by omega, e2.symm, by rw [← e1, decodeEFS_eq_spec], ?_⟩
      rw [← e1]
      exact Classical.not_not.1 hs

theorem findEFSLoop_inv (img : Img) : ∀ (as : List Nat) (efs : EFS) (r : Range), findEFSLoop img as = .ok (efs, r) →
    ∃ a, a ∈ as ∧ r.off = physAddrToOffset img.len a ∧ r.len = efsSize ∧ r.off + efsSize ≤ img.len ∧
      efs = Spec.efs (img.window r.off efsSize) ∧ efs.signature = efsSignature
  | [], _, _, h => by simp [findEFSLoop] at h
  | a :: rest, efs, r, h => by
    rw [findEFSLoop_cons img a rest _ rfl] at h
    generalize hoff : physAddrToOffset img.len a = off at h
    split at h
    · obtain ⟨a', ha, rest'⟩ := findEFSLoop_inv img rest efs r h
      exact ⟨a', by simp [ha], rest'⟩
    · rename_i hc
      split at h
      · rename_i hsig
        cases hp : parseEFS (img.drop off) with
        | error e => rw [hp] at h; cases h
        | ok x =>
          obtain ⟨efs', n⟩ := x
          rw [hp] at h
          injection h with h; injection h with e1 e2
          obtain ⟨h1, h2, h3, h4⟩ := parseEFS_inv _ _ _ hp
          subst e1; subst e2
          simp only [Img.drop_len] at h1
          refine ⟨a, by simp, hoff.symm, h2, by simp only; omega, ?_, h4⟩
          rw [h3, Img.drop_window, Nat.add_zero]
      · obtain ⟨a', ha, rest'⟩ := findEFSLoop_inv img rest efs r h
        exact ⟨a', by simp [ha], rest'⟩
/-! ### physical addresses -/

/-- inside the 4 GiB window the offset of address `a` is `len − (2³² − a)` -/
theorem physAddrToOffset_window (len a : Nat) (hl : len ≤ 2 ^ 32) (ha : a < 2 ^ 32) (hw : 2 ^ 32 - len ≤ a) :
    physAddrToOffset len a = len - (2 ^ 32 - a) := by
  unfold physAddrToOffset startAddr basePhysAddr
  omega

theorem phys_inverse (len a : Nat) :
    offsetToPhysAddr len (physAddrToOffset len a) = a % 2 ^ 64 := by
  unfold offsetToPhysAddr physAddrToOffset
  have hs : startAddr len < 2 ^ 64 := Nat.mod_lt _ (by decide)
  generalize startAddr len = s at *
  omega

/-! ### key header inversion -/

theorem newRootKey_inv (kb : Bytes) (k : KeyData) (h : newRootKey kb = .ok k) :
    keyHeaderSize ≤ kb.length ∧ k.usage = fromLE (slice kb 36 4) ∧ k.reserved = slice kb 40 16 ∧
    k.keyID = slice kb 4 16 ∧ k.certKeyID = slice kb 20 16 ∧ k.keyID = k.certKeyID := by
  unfold newRootKey at h
  split at h
  · cases h
  · rename_i k' hk
    split at h
    · cases h
    · rename_i hid
      injection h with h; subst h
      unfold newTokenOrRootKey at hk
      split at hk
      · cases hk
      · rename_i hlen
        simp only at hk
        split at hk
        · cases hk
        · split at hk
          · cases hk
          · split at hk
            · cases hk
            · split at hk
              · cases hk
              · injection hk with hk
                subst hk
                exact ⟨by omega, rfl, rfl, rfl, rfl, by simpa using hid⟩

end Fiano.Amd
