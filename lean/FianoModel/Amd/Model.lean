/-
  Model of the AMD PSP firmware discovery and entry access code:
    pkg/amd/manifest/firmware.go                      parsePSPFirmware, FirmwareImage.PhysAddrToOffset
    pkg/amd/manifest/embedded_firmware_structure.go   FindEmbeddedFirmwareStructure, ParseEmbeddedFirmwareStructure
    pkg/amd/manifest/psp_directory_table.go           ParsePSPDirectoryTable(Entry), FindPSPDirectoryTable
    pkg/amd/manifest/bios_directory_table.go          ParseBIOSDirectoryTable(Entry), FindBIOSDirectoryTable
    pkg/amd/psb/entries.go, pspentries.go, biosentries.go   Get*Entry, GetRangeBytes, Extract*, Patch*, patchEntry
    pkg/amd/psb/util.go                               checkBoundaries
  (checksum.go is in Amd/Fletcher.lean, keys.go in Amd/Keys.lean.)

  Hand-written; tied to the Go code by
   * T1: `FianoModel.Gen.AmdManifest` / `Gen.AmdPsb` (constants, anchor list, struct layouts, call
         inventories regenerated from the source; see `Amd/Tie.lean`)
   * T2: the correspondence harness (harness/props/c17) driving `Driver/C17.lean`.

  The model follows the code **as repaired** by fixes/C20-amd-efs-wrap.diff (the EFS probe no longer
  lets `offset+4` wrap); the code as it is at the pinned commit is modelled in `Amd/Unfixed.lean`.

  Images.  AMD images are 384 KiB … 16 MiB and larger (the EFS anchors are physical addresses below
  4 GiB), so an image is represented by its length and its content function instead of a list.  The
  content outside `[0,len)` is never looked at: every read below is preceded by the bounds check the
  Go code makes (`binary.Read` on a short buffer = `Err.eof`, the explicit checks of
  parsePSPFirmware / checkBoundaries), and all theorems quantify over every `Img`, hence over
  every byte string (`Img.ofBytes`).
-/
import FianoModel.Base.Bytes

namespace Fiano.Amd

/-! ### images -/

structure Img where
  len : Nat
  get : Nat → UInt8

namespace Img

/-- a byte string as an image -/
def ofBytes (b : Bytes) : Img := ⟨b.length, fun i => b.getD i 0⟩

/-- `image[off : off+n]` (callers check `off + n ≤ len` where Go would fault or return EOF) -/
def window (img : Img) (off n : Nat) : Bytes := (List.range' off n).map img.get

/-- the whole image as a byte string -/
def toBytes (img : Img) : Bytes := img.window 0 img.len

/-- `image[off:]` (callers guarantee `off ≤ len`, as the Go callers do) -/
def drop (img : Img) (off : Nat) : Img := ⟨img.len - off, fun i => img.get (off + i)⟩

/-- `image[:n]` -/
def take (img : Img) (n : Nat) : Img := ⟨min n img.len, img.get⟩

end Img

inductive Err where
  | notFound     -- EFS / table / entry not found
  | eof          -- binary.Read on a short buffer (io.EOF / io.ErrUnexpectedEOF)
  | cookie       -- incorrect cookie / signature
  | short        -- "not enough data" pre-check of a directory table
  | level        -- invalid directory level requested
  | multiple     -- several entries of the requested type (and instance)
  | bounds       -- checkBoundaries failed
  | size         -- patch: size of the new entry differs
  | usage        -- key: not a PSBSignBIOS key
  | format       -- key: invalid format
  | panic        -- Go run-time panic (slice / index out of range)
  deriving Repr, DecidableEq, Inhabited

/-- `bytes2.Range` -/
structure Range where
  off : Nat
  len : Nat
  deriving Repr, DecidableEq, Inhabited

/-! ### constants -/

def efsSignature : Nat := 0x55aa55aa
def efsSize : Nat := 74
/-- the probe order of FindEmbeddedFirmwareStructure -/
def efsAnchors : List Nat := [0xfffa0000, 0xfff20000, 0xffe20000, 0xffc20000, 0xff820000, 0xff020000]
def basePhysAddr : Nat := 2 ^ 32

def pspCookie : Nat := 0x50535024      -- "$PSP"
def pspL2Cookie : Nat := 0x324C5024    -- "$PL2"
def biosCookie : Nat := 0x44484224     -- "$BHD"
def biosL2Cookie : Nat := 0x324C4224   -- "$BL2"
def pspL2EntryType : Nat := 0x40
def biosL2EntryType : Nat := 0x70
def dirHeaderSize : Nat := 16
def pspEntrySize : Nat := 16
/-- the constant `BIOSDirectoryTableEntrySize` of the source, used by the size pre-check of
    ParseBIOSDirectoryTable: 24 since fixes/C20-amd-bios-scan-quadratic.diff (16 before, although a BIOS
    entry has 24 bytes: a table could pass the pre-check and then run out of data) -/
def biosEntrySizeConst : Nat := 24
/-- what ParseBIOSDirectoryTableEntry really consumes -/
def biosEntrySize : Nat := 24

/-! ### physical addresses (uint64 arithmetic, wraps exactly as in Go) -/

/-- `uint64(basePhysAddr - len(img))` -/
def startAddr (len : Nat) : Nat := (2 ^ 64 + basePhysAddr - len % 2 ^ 64) % 2 ^ 64

/-- `FirmwareImage.PhysAddrToOffset` -/
def physAddrToOffset (len addr : Nat) : Nat := (addr % 2 ^ 64 + 2 ^ 64 - startAddr len) % 2 ^ 64

/-- `FirmwareImage.OffsetToPhysAddr` -/
def offsetToPhysAddr (len off : Nat) : Nat := (off % 2 ^ 64 + startAddr len) % 2 ^ 64

/-! ### embedded firmware structure -/

structure EFS where
  signature : Nat      -- uint32
  reserved1 : Bytes    -- 16
  pspPtr    : Nat      -- uint32  PSPDirectoryTablePointer
  bios0     : Nat      -- uint32  BIOSDirectoryTableFamily17hModels00h0FhPointer
  bios1     : Nat      -- uint32  …Models10h1Fh
  bios2     : Nat      -- uint32  …Models30h3Fh
  reserved2 : Nat      -- uint32
  bios3     : Nat      -- uint32  …Models60h3Fh
  reserved3 : Bytes    -- 30
  deriving Repr, DecidableEq, Inhabited

/-- `binary.Read(r, LittleEndian, &EmbeddedFirmwareStructure)` on the 74 bytes of the record -/
def decodeEFS (r : Bytes) : EFS :=
  { signature := fromLE (slice r 0 4)
    reserved1 := slice r 4 16
    pspPtr := fromLE (slice r 20 4)
    bios0 := fromLE (slice r 24 4)
    bios1 := fromLE (slice r 28 4)
    bios2 := fromLE (slice r 32 4)
    reserved2 := fromLE (slice r 36 4)
    bios3 := fromLE (slice r 40 4)
    reserved3 := slice r 44 30 }

/-- `ParseEmbeddedFirmwareStructure(bytes.NewBuffer(d))` -/
def parseEFS (d : Img) : Except Err (EFS × Nat) :=
  if d.len < efsSize then .error .eof
  else
    let e := decodeEFS (d.window 0 efsSize)
    if e.signature ≠ efsSignature then .error .cookie else .ok (e, efsSize)

/-- the loop of `FindEmbeddedFirmwareStructure` over the anchor addresses (repaired bounds check:
    `offset > len || offset+4 > len`; with `offset ≤ len` the sum cannot wrap).  The first anchor
    whose four bytes are the signature decides: a parse error there is returned, later anchors
    are not tried. -/
def findEFSLoop (img : Img) : List Nat → Except Err (EFS × Range)
  | [] => .error .notFound
  | a :: rest =>
    let off := physAddrToOffset img.len a
    if off > img.len ∨ (off + 4) % 2 ^ 64 > img.len then findEFSLoop img rest
    else if fromLE (img.window off 4) = efsSignature then
      match parseEFS (img.drop off) with
      | .error e => .error e
      | .ok (efs, n) => .ok (efs, ⟨off, n⟩)
    else findEFSLoop img rest

def findEFS (img : Img) : Except Err (EFS × Range) := findEFSLoop img efsAnchors

/-! ### PSP directory table -/

structure PSPEntry where
  type       : Nat   -- uint8
  subprogram : Nat   -- uint8
  romId      : Nat   -- uint8 (2 bits)
  size       : Nat   -- uint32
  loc        : Nat   -- uint64  LocationOrValue
  deriving Repr, DecidableEq, Inhabited

structure PSPTable where
  cookie   : Nat
  checksum : Nat
  total    : Nat
  addl     : Nat
  entries  : List PSPEntry
  deriving Repr, DecidableEq, Inhabited

/-- `entry.ROMId = uint8(flags>>14) & 0x3` on the 16-bit little-endian flags word -/
def pspRomId (flags : UInt16) : UInt8 := (flags >>> 14).toUInt8 &&& 0x3

/-- `ParsePSPDirectoryTableEntry` on the 16 bytes of the record -/
def decodePSPEntry (r : Bytes) : PSPEntry :=
  { type := fromLE (slice r 0 1)
    subprogram := fromLE (slice r 1 1)
    romId := (pspRomId (UInt16.ofNat (fromLE (slice r 2 2)))).toNat
    size := fromLE (slice r 4 4)
    loc := fromLE (slice r 8 8) }

/-- the entry loop of ParsePSPDirectoryTable (`table.Entries = append(table.Entries, *entry)`):
    `n` records starting at `off`, appended to `acc` (kept in reverse); a record that does not
    fit is a read error (cannot happen after the size pre-check, see `Amd/Lemmas.lean`) -/
def readPSPEntries (d : Img) : Nat → Nat → List PSPEntry → Except Err (List PSPEntry)
  | _, 0, acc => .ok acc.reverse
  | off, n+1, acc =>
    if d.len < off + pspEntrySize then .error .eof
    else readPSPEntries d (off + pspEntrySize) n (decodePSPEntry (d.window off pspEntrySize) :: acc)

/-- `ParsePSPDirectoryTable(d)`: table and number of bytes consumed -/
def parsePSP (d : Img) : Except Err (PSPTable × Nat) :=
  if d.len < 4 then .error .eof
  else
    let cookie := fromLE (d.window 0 4)
    if cookie ≠ pspCookie ∧ cookie ≠ pspL2Cookie then .error .cookie
    else if d.len < dirHeaderSize then .error .eof
    else
      let total := fromLE (d.window 8 4)
      if d.len - dirHeaderSize < total * pspEntrySize then .error .short
      else match readPSPEntries d dirHeaderSize total [] with
        | .error e => .error e
        | .ok es =>
          .ok ({ cookie := cookie, checksum := fromLE (d.window 4 4), total := total,
                 addl := fromLE (d.window 12 4), entries := es }, dirHeaderSize + pspEntrySize * total)

/-! ### BIOS directory table -/

structure BIOSEntry where
  type       : Nat    -- uint8
  regionType : Nat    -- uint8
  resetImage : Bool
  copyImage  : Bool
  readOnly   : Bool
  compressed : Bool
  instance_  : Nat    -- uint8 (4 bits)
  subprogram : Nat    -- uint8 (3 bits)
  romId      : Nat    -- uint8 (2 bits)
  size       : Nat    -- uint32
  src        : Nat    -- uint64  SourceAddress
  dst        : Nat    -- uint64  DestinationAddress
  deriving Repr, DecidableEq, Inhabited

structure BIOSTable where
  cookie   : Nat
  checksum : Nat
  total    : Nat
  reserved : Nat
  entries  : List BIOSEntry
  deriving Repr, DecidableEq, Inhabited

/-- the uint8 expressions of ParseBIOSDirectoryTableEntry -/
def biosResetImage (f : UInt8) : Bool := f &&& 0x1 != 0
def biosCopyImage (f : UInt8) : Bool := (f >>> 1) &&& 0x1 != 0
def biosReadOnly (f : UInt8) : Bool := (f >>> 2) &&& 0x1 != 0
def biosCompressed (f : UInt8) : Bool := (f >>> 3) &&& 0x1 != 0
def biosInstance (f : UInt8) : UInt8 := f >>> 4
def biosSubprogram (f : UInt8) : UInt8 := f &&& 7
def biosRomId (f : UInt8) : UInt8 := (f >>> 3) &&& 0x3

/-- `ParseBIOSDirectoryTableEntry` on the 24 bytes of the record -/
def decodeBIOSEntry (r : Bytes) : BIOSEntry :=
  let f1 := UInt8.ofNat (fromLE (slice r 2 1))
  let f2 := UInt8.ofNat (fromLE (slice r 3 1))
  { type := fromLE (slice r 0 1)
    regionType := fromLE (slice r 1 1)
    resetImage := biosResetImage f1
    copyImage := biosCopyImage f1
    readOnly := biosReadOnly f1
    compressed := biosCompressed f1
    instance_ := (biosInstance f1).toNat
    subprogram := (biosSubprogram f2).toNat
    romId := (biosRomId f2).toNat
    size := fromLE (slice r 4 4)
    src := fromLE (slice r 8 8)
    dst := fromLE (slice r 16 8) }

/-- the entry loop of ParseBIOSDirectoryTable; here a record *can* fail to fit, because the
    pre-check multiplies by 16 while a record has 24 bytes: then the whole parse is an error -/
def readBIOSEntries (d : Img) : Nat → Nat → List BIOSEntry → Except Err (List BIOSEntry)
  | _, 0, acc => .ok acc.reverse
  | off, n+1, acc =>
    if d.len < off + biosEntrySize then .error .eof
    else readBIOSEntries d (off + biosEntrySize) n (decodeBIOSEntry (d.window off biosEntrySize) :: acc)

/-- `ParseBIOSDirectoryTable(d)` -/
def parseBIOS (d : Img) : Except Err (BIOSTable × Nat) :=
  if d.len < 4 then .error .eof
  else
    let cookie := fromLE (d.window 0 4)
    if cookie ≠ biosCookie ∧ cookie ≠ biosL2Cookie then .error .cookie
    else if d.len < dirHeaderSize then .error .eof
    else
      let total := fromLE (d.window 8 4)
      if d.len - dirHeaderSize < total * biosEntrySizeConst then .error .short
      else match readBIOSEntries d dirHeaderSize total [] with
        | .error e => .error e
        | .ok es =>
          .ok ({ cookie := cookie, checksum := fromLE (d.window 4 4), total := total,
                 reserved := fromLE (d.window 12 4), entries := es }, dirHeaderSize + biosEntrySize * total)

/-! ### cookie scan (FindPSPDirectoryTable / FindBIOSDirectoryTable) -/

/-- the bytes of `pat` stand at position `p` (compared left to right, stopping at the first
    difference; callers guarantee `p + |pat| ≤ len`) -/
def matchAt (img : Img) : Bytes → Nat → Bool
  | [], _ => true
  | c :: cs, p => img.get p == c && matchAt img cs (p + 1)

/-- `bytes.Index(image[p:], cookie)` as an absolute position: first `q ≥ p` with the four cookie
    bytes at `q`.  `fuel` bounds the scan (`len + 1` is always enough). -/
def indexFrom (img : Img) (cookie : Bytes) : Nat → Nat → Option Nat
  | 0, _ => none
  | fuel+1, p =>
    if p + 4 > img.len then none
    else if matchAt img cookie p then some p
    else indexFrom img cookie fuel (p + 1)

/-- the loop of `FindPSPDirectoryTable`, with the absolute position `cur` instead of the pair
    (re-sliced image, running offset): every occurrence of the level-1 cookie is tried in turn,
    after a failure the scan resumes 4 bytes after the occurrence.  Each iteration advances `cur`
    by at least 4, so `fuel = len + 1` is never exhausted. -/
def scanPSP (img : Img) : Nat → Nat → Option (PSPTable × Range)
  | 0, _ => none
  | fuel+1, cur =>
    match indexFrom img (leN 4 pspCookie) (img.len + 1) cur with
    | none => none
    | some p =>
      match parsePSP (img.drop p) with
      | .ok (t, n) => some (t, ⟨p, n⟩)
      | .error _ => scanPSP img fuel (p + 4)

def scanBIOS (img : Img) : Nat → Nat → Option (BIOSTable × Range)
  | 0, _ => none
  | fuel+1, cur =>
    match indexFrom img (leN 4 biosCookie) (img.len + 1) cur with
    | none => none
    | some p =>
      match parseBIOS (img.drop p) with
      | .ok (t, n) => some (t, ⟨p, n⟩)
      | .error _ => scanBIOS img fuel (p + 4)

/-! ### parsePSPFirmware -/

structure PSPFirmware where
  efs      : EFS
  efsRange : Range
  psp1     : Option (PSPTable × Range)
  psp2     : Option (PSPTable × Range)
  bios1    : Option (BIOSTable × Range)
  bios2    : Option (BIOSTable × Range)
  deriving Repr, DecidableEq, Inhabited

/-- pointer path of the level-1 PSP directory: `ptr != 0 && ptr < uint32(len(image))` -/
def pspViaPtr (img : Img) (efs : EFS) : Option (PSPTable × Range) :=
  if efs.pspPtr ≠ 0 ∧ efs.pspPtr < img.len % 2 ^ 32 then
    match parsePSP (img.drop efs.pspPtr) with
    | .ok (t, n) => some (t, ⟨efs.pspPtr, n⟩)
    | .error _ => none
  else none

def pspLevel1 (img : Img) (efs : EFS) : Option (PSPTable × Range) :=
  match pspViaPtr img efs with
  | some r => some r
  | none => scanPSP img (img.len + 1) 0

/-- level 2: only the *first* entry of type 0x40 is considered (`break`) -/
def pspLevel2 (img : Img) (t : PSPTable) : Option (PSPTable × Range) :=
  match t.entries.find? (fun e => e.type = pspL2EntryType) with
  | none => none
  | some e =>
    if e.loc ≠ 0 ∧ e.loc < img.len then
      match parsePSP (img.drop e.loc) with
      | .ok (t2, n) => some (t2, ⟨e.loc, n⟩)
      | .error _ => none
    else none

/-- pointer path of the level-1 BIOS directory: the four EFS slots in order,
    skipped when `offset == 0 || int(offset) > len(image)` (so `offset == len` is tried and fails) -/
def biosViaPtrs (img : Img) : List Nat → Option (BIOSTable × Range)
  | [] => none
  | o :: rest =>
    if o = 0 ∨ o > img.len then biosViaPtrs img rest
    else match parseBIOS (img.drop o) with
      | .ok (t, n) => some (t, ⟨o, n⟩)
      | .error _ => biosViaPtrs img rest

def biosLevel1 (img : Img) (efs : EFS) : Option (BIOSTable × Range) :=
  match biosViaPtrs img [efs.bios0, efs.bios1, efs.bios2, efs.bios3] with
  | some r => some r
  | none => scanBIOS img (img.len + 1) 0

def biosLevel2 (img : Img) (t : BIOSTable) : Option (BIOSTable × Range) :=
  match t.entries.find? (fun e => e.type = biosL2EntryType) with
  | none => none
  | some e =>
    if e.src ≠ 0 ∧ e.src < img.len then
      match parseBIOS (img.drop e.src) with
      | .ok (t2, n) => some (t2, ⟨e.src, n⟩)
      | .error _ => none
    else none

/-- level 2 is only looked for when level 1 was found -/
def pspLevel2Of (img : Img) : Option (PSPTable × Range) → Option (PSPTable × Range)
  | none => none
  | some (t, _) => pspLevel2 img t

def biosLevel2Of (img : Img) : Option (BIOSTable × Range) → Option (BIOSTable × Range)
  | none => none
  | some (t, _) => biosLevel2 img t

/-- `parsePSPFirmware` (= psb.ParseAMDFirmware up to error wrapping) -/
def discover (img : Img) : Except Err PSPFirmware :=
  match findEFS img with
  | .error e => .error e
  | .ok (efs, r) =>
    let p1 := pspLevel1 img efs
    let b1 := biosLevel1 img efs
    .ok { efs := efs, efsRange := r
          psp1 := p1
          psp2 := pspLevel2Of img p1
          bios1 := b1
          bios2 := biosLevel2Of img b1 }

/-! ### psb: entry lookup, extraction, patching -/

/-- `checkBoundaries(start, end, blob)` -/
def checkBoundaries (start end_ len : Nat) : Bool :=
  !(decide (start > len) || decide (end_ > len) || decide (start > end_))

/-- `GetRangeBytes(image, start, length)`; `end := start + length` in uint64 -/
def getRangeBytes (img : Img) (start length : Nat) : Except Err Bytes :=
  let end_ := (start + length) % 2 ^ 64
  if checkBoundaries start end_ img.len then .ok (img.window start (end_ - start)) else .error .bounds

def getPSPTable (fw : PSPFirmware) (level : Nat) : Except Err (Option PSPTable) :=
  if level = 1 then .ok (fw.psp1.map (·.1))
  else if level = 2 then .ok (fw.psp2.map (·.1))
  else .error .level

/-- `GetPSPEntry`: exactly one entry of the type, else an error -/
def getPSPEntry (fw : PSPFirmware) (level id : Nat) : Except Err PSPEntry :=
  match getPSPTable fw level with
  | .error e => .error e
  | .ok none => .error .notFound
  | .ok (some t) =>
    match t.entries.filter (fun e => e.type = id) with
    | [] => .error .notFound
    | [e] => .ok e
    | _ => .error .multiple

def getBIOSTable (fw : PSPFirmware) (level : Nat) : Except Err (Option BIOSTable) :=
  if level = 1 then .ok (fw.bios1.map (·.1))
  else if level = 2 then .ok (fw.bios2.map (·.1))
  else .error .level

/-- `GetBIOSEntry`: exactly one entry of the type *and* instance.  (GetBIOSEntries sorts the
    candidates by instance first; the result of GetBIOSEntry does not depend on that order.) -/
def getBIOSEntry (fw : PSPFirmware) (level id inst : Nat) : Except Err BIOSEntry :=
  match getBIOSTable fw level with
  | .error e => .error e
  | .ok none => .error .notFound
  | .ok (some t) =>
    match t.entries.filter (fun e => e.type = id ∧ e.instance_ = inst) with
    | [] => .error .notFound
    | [e] => .ok e
    | _ => .error .multiple

def extractPSPEntry (img : Img) (fw : PSPFirmware) (level id : Nat) : Except Err Bytes :=
  match getPSPEntry fw level id with
  | .error e => .error e
  | .ok e => getRangeBytes img e.loc e.size

def extractBIOSEntry (img : Img) (fw : PSPFirmware) (level id inst : Nat) : Except Err Bytes :=
  match getBIOSEntry fw level id inst with
  | .error e => .error e
  | .ok e => getRangeBytes img e.src e.size

/-- `patchEntry`: boundary check, size check, then the three-part rewrite
    `image[0:start] ++ modified ++ image[end:]` written to the output. -/
def patchEntry (img : Img) (start end_ : Nat) (modified : Bytes) : Except Err Img :=
  if !checkBoundaries start end_ img.len then .error .bounds
  else if end_ - start ≠ modified.length then .error .size
  else .ok
    { len := start + modified.length + (img.len - end_)
      get := fun i =>
        if i < start then img.get i
        else if i < start + modified.length then modified.getD (i - start) 0
        else img.get (end_ + (i - (start + modified.length))) }

def patchPSPEntry (img : Img) (fw : PSPFirmware) (level id : Nat) (modified : Bytes) : Except Err Img :=
  match getPSPEntry fw level id with
  | .error e => .error e
  | .ok e => patchEntry img e.loc ((e.loc + e.size) % 2 ^ 64) modified

def patchBIOSEntry (img : Img) (fw : PSPFirmware) (level id inst : Nat) (modified : Bytes) : Except Err Img :=
  match getBIOSEntry fw level id inst with
  | .error e => .error e
  | .ok e => patchEntry img e.src ((e.src + e.size) % 2 ^ 64) modified

end Fiano.Amd
