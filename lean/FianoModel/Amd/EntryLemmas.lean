/-
  Entry lookup, extraction and patching (pkg/amd/psb): inversion lemmas.
-/
import FianoModel.Amd.DiscoverLemmas

namespace Fiano.Amd

theorem nowrap64 (s l : Nat) (hs : s < 2 ^ 64) (hl : l < 2 ^ 64) (h : s ≤ (s + l) % 2 ^ 64) :
    (s + l) % 2 ^ 64 = s + l := by omega

theorem checkBoundaries_iff (s e len : Nat) : checkBoundaries s e len = true ↔ s ≤ len ∧ e ≤ len ∧ s ≤ e := by
  simp [checkBoundaries]; omega

/-- a successful `GetRangeBytes` returns exactly the image bytes `[start, start+length)` -/
theorem getRangeBytes_ok (img : Img) (start length : Nat) (d : Bytes) (hs : start < 2 ^ 64) (hl : length < 2 ^ 64)
    (h : getRangeBytes img start length = .ok d) :
    start + length ≤ img.len ∧ d = img.window start length := by
  unfold getRangeBytes at h
  simp only at h
  split at h
  · rename_i hc
    obtain ⟨h1, h2, h3⟩ := (checkBoundaries_iff _ _ _).1 hc
    have hw := nowrap64 start length hs hl h3
    injection h with h
    rw [hw] at h h2
    exact ⟨h2, by rw [← h]; congr 1; omega⟩
  · cases h

theorem getRangeBytes_fits (img : Img) (start length : Nat) (h : start + length ≤ img.len) (hb : start + length < 2 ^ 64) :
    getRangeBytes img start length = .ok (img.window start length) := by
  unfold getRangeBytes
  simp only
  rw [Nat.mod_eq_of_lt hb, if_pos ((checkBoundaries_iff _ _ _).2 ⟨by omega, h, by omega⟩)]
  congr 2; omega

theorem getRangeBytes_outside (img : Img) (start length : Nat) (hs : start < 2 ^ 64) (hl : length < 2 ^ 64)
    (h : img.len < start + length) : getRangeBytes img start length = .error .bounds := by
  unfold getRangeBytes
  simp only
  split
  · rename_i hc
    obtain ⟨h1, h2, h3⟩ := (checkBoundaries_iff _ _ _).1 hc
    have hw := nowrap64 start length hs hl h3
    omega
  · rfl

/-- which table a level selects -/
def pspTableOf (fw : PSPFirmware) (level : Nat) : Option (PSPTable × Range) :=
  if level = 1 then fw.psp1 else if level = 2 then fw.psp2 else none

def biosTableOf (fw : PSPFirmware) (level : Nat) : Option (BIOSTable × Range) :=
  if level = 1 then fw.bios1 else if level = 2 then fw.bios2 else none

theorem getPSPTable_eq (fw : PSPFirmware) (level : Nat) :
    getPSPTable fw level =
      if level = 1 ∨ level = 2 then .ok ((pspTableOf fw level).map (·.1)) else .error .level := by
  unfold getPSPTable pspTableOf
  by_cases h1 : level = 1
  · simp [h1]
  · by_cases h2 : level = 2
    · simp [h2]
    · simp [h1, h2]

theorem getBIOSTable_eq (fw : PSPFirmware) (level : Nat) :
    getBIOSTable fw level =
      if level = 1 ∨ level = 2 then .ok ((biosTableOf fw level).map (·.1)) else .error .level := by
  unfold getBIOSTable biosTableOf
  by_cases h1 : level = 1
  · simp [h1]
  · by_cases h2 : level = 2
    · simp [h2]
    · simp [h1, h2]

theorem pspTableOf_level (fw : PSPFirmware) (level : Nat) (x) (h : pspTableOf fw level = some x) :
    level = 1 ∨ level = 2 := by
  unfold pspTableOf at h
  by_cases h1 : level = 1
  · exact Or.inl h1
  · by_cases h2 : level = 2
    · exact Or.inr h2
    · simp [h1, h2] at h

theorem biosTableOf_level (fw : PSPFirmware) (level : Nat) (x) (h : biosTableOf fw level = some x) :
    level = 1 ∨ level = 2 := by
  unfold biosTableOf at h
  by_cases h1 : level = 1
  · exact Or.inl h1
  · by_cases h2 : level = 2
    · exact Or.inr h2
    · simp [h1, h2] at h

theorem getPSPEntry_ok (fw : PSPFirmware) (level id : Nat) (e : PSPEntry) (h : getPSPEntry fw level id = .ok e) :
    ∃ t r, pspTableOf fw level = some (t, r) ∧ t.entries.filter (fun x => x.type = id) = [e] := by
  unfold getPSPEntry at h
  rw [getPSPTable_eq] at h
  by_cases hl : level = 1 ∨ level = 2
  · rw [if_pos hl] at h
    cases ht : pspTableOf fw level with
    | none => simp [ht] at h
    | some tr =>
      obtain ⟨t, r⟩ := tr
      simp only [ht, Option.map_some] at h
      refine ⟨t, r, rfl, ?_⟩
      split at h
      · cases h
      · rename_i e' heq
        injection h with h
        rw [← h]; exact heq
      · cases h
  · rw [if_neg hl] at h
    cases h

theorem getBIOSEntry_ok (fw : PSPFirmware) (level id inst : Nat) (e : BIOSEntry)
    (h : getBIOSEntry fw level id inst = .ok e) :
    ∃ t r, biosTableOf fw level = some (t, r) ∧
      t.entries.filter (fun x => x.type = id ∧ x.instance_ = inst) = [e] := by
  unfold getBIOSEntry at h
  rw [getBIOSTable_eq] at h
  by_cases hl : level = 1 ∨ level = 2
  · rw [if_pos hl] at h
    cases ht : biosTableOf fw level with
    | none => simp [ht] at h
    | some tr =>
      obtain ⟨t, r⟩ := tr
      simp only [ht, Option.map_some] at h
      refine ⟨t, r, rfl, ?_⟩
      split at h
      · cases h
      · rename_i e' heq
        injection h with h
        rw [← h]; exact heq
      · cases h
  · rw [if_neg hl] at h
    cases h

/-- the unique matching entry is found -/
theorem getPSPEntry_unique (fw : PSPFirmware) (level id : Nat) (t : PSPTable) (r : Range) (e : PSPEntry)
    (ht : pspTableOf fw level = some (t, r)) (hu : t.entries.filter (fun x => x.type = id) = [e]) :
    getPSPEntry fw level id = .ok e := by
  unfold getPSPEntry
  rw [getPSPTable_eq, if_pos (pspTableOf_level fw level _ ht), ht]
  simp only [Option.map_some, hu]

theorem getBIOSEntry_unique (fw : PSPFirmware) (level id inst : Nat) (t : BIOSTable) (r : Range) (e : BIOSEntry)
    (ht : biosTableOf fw level = some (t, r))
    (hu : t.entries.filter (fun x => x.type = id ∧ x.instance_ = inst) = [e]) :
    getBIOSEntry fw level id inst = .ok e := by
  unfold getBIOSEntry
  rw [getBIOSTable_eq, if_pos (biosTableOf_level fw level _ ht), ht]
  simp only [Option.map_some, hu]

/-- tables reported by discovery carry well-typed entries -/
theorem discover_pspTableOf_wt (img : Img) (fw : PSPFirmware) (h : discover img = .ok fw) (level : Nat)
    (t : PSPTable) (r : Range) (ht : pspTableOf fw level = some (t, r)) :
    ∀ e ∈ t.entries, e.loc < 2 ^ 64 ∧ e.size < 2 ^ 32 := by
  unfold pspTableOf at ht
  split at ht
  · exact parsePSP_wt _ _ _ (discover_psp1 img fw h t r ht)
  · split at ht
    · exact parsePSP_wt _ _ _ (discover_psp2 img fw h t r ht)
    · cases ht

theorem discover_biosTableOf_wt (img : Img) (fw : PSPFirmware) (h : discover img = .ok fw) (level : Nat)
    (t : BIOSTable) (r : Range) (ht : biosTableOf fw level = some (t, r)) :
    ∀ e ∈ t.entries, e.src < 2 ^ 64 ∧ e.size < 2 ^ 32 := by
  unfold biosTableOf at ht
  split at ht
  · exact parseBIOS_wt _ _ _ (discover_bios1 img fw h t r ht)
  · split at ht
    · exact parseBIOS_wt _ _ _ (discover_bios2 img fw h t r ht)
    · cases ht

theorem mem_of_filter_singleton {α : Type} (p : α → Bool) (l : List α) (e : α) (h : l.filter p = [e]) : e ∈ l := by
  have : e ∈ l.filter p := by rw [h]; simp
  exact (List.mem_filter.1 this).1

/-! ### patchEntry -/

theorem patchEntry_ok (img : Img) (start end_ : Nat) (new : Bytes) (out : Img)
    (h : patchEntry img start end_ new = .ok out) :
    start ≤ end_ ∧ end_ ≤ img.len ∧ new.length = end_ - start ∧ out.len = img.len ∧
    (∀ j, j < start → out.get j = img.get j) ∧ (∀ j, end_ ≤ j → out.get j = img.get j) ∧
    out.window start new.length = new := by
  unfold patchEntry at h
  split at h
  · cases h
  · rename_i hc
    have hc' : checkBoundaries start end_ img.len = true := by simpa using hc
    obtain ⟨h1, h2, h3⟩ := (checkBoundaries_iff _ _ _).1 hc'
    split at h
    · cases h
    · rename_i hsz
      have hsz' : end_ - start = new.length := by simpa using hsz
      injection h with h
      subst h
      refine ⟨h3, h2, hsz'.symm, by simp only; omega, ?_, ?_, ?_⟩
      · intro j hj; simp only [if_pos hj]
      · intro j hj
        simp only
        rw [if_neg (by omega), if_neg (by omega)]
        congr 1; omega
      · apply List.ext_getElem?
        intro j
        by_cases hj : j < new.length
        · rw [Img.window_getElem? _ _ _ _ hj]
          simp only
          rw [if_neg (by omega), if_pos (by omega)]
          have : start + j - start = j := by omega
          rw [this, List.getD_eq_getElem?_getD, List.getElem?_eq_getElem hj]
          simp
        · rw [List.getElem?_eq_none (by simp; omega), List.getElem?_eq_none (by omega)]

theorem patchEntry_size_mismatch (img : Img) (start end_ : Nat) (new : Bytes) (h : new.length ≠ end_ - start) :
    ∃ e, patchEntry img start end_ new = .error e := by
  unfold patchEntry
  split
  · exact ⟨_, rfl⟩
  · rw [if_pos (by omega)]
    exact ⟨_, rfl⟩

end Fiano.Amd
