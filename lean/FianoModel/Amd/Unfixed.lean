/-
  The two places where the code at the pinned commit differs from the model (`Amd/Model.lean`,
  `Amd/Keys.lean` follow the code as repaired by fixes/C17-keybits.diff and
  fixes/C20-amd-efs-wrap.diff), transcribed as they are, and the machine-checked witnesses that
  the property fails on them.  Kept as the record of the defects (DESIGN.md §8 rows 10, 11).
-/
import FianoModel.Amd.Spec

namespace Fiano.Amd.Unfixed

/-! ### keys.go: parsePlatformBinding / parseSecurityFeatureVector as written -/

/-- `reserved[1] & 7` (comment: "Bits 0:3 => Key Revision ID") -/
def keyRevision (b : UInt8) : UInt8 := b &&& 7
/-- `reserved[1] << 3` in uint8 (comment: "Bits 4:7 => Platform Model ID") -/
def platformModel (b : UInt8) : UInt8 := b <<< 3
def featAntiRollback (b : UInt8) : Bool := b &&& 1 == 1
/-- `(reserved[3]<<1)&1 == 1` — bit 0 of a left-shifted byte is always 0 -/
def featAMDKeyUse (b : UInt8) : Bool := (b <<< 1) &&& 1 == 1
/-- `(reserved[3]<<2)&1 == 1` -/
def featDebugUnlock (b : UInt8) : Bool := (b <<< 2) &&& 1 == 1

def parsePlatformBinding (reserved : Bytes) : PlatformBinding :=
  { vendorID := (reserved.getD 0 0).toNat
    keyRevisionID := (keyRevision (reserved.getD 1 0)).toNat
    platformModelID := (platformModel (reserved.getD 1 0)).toNat }

def parseSecurityFeatureVector (reserved : Bytes) : SecurityFeatures :=
  { disableBIOSKeyAntiRollback := featAntiRollback (reserved.getD 3 0)
    disableAMDBIOSKeyUse := featAMDKeyUse (reserved.getD 3 0)
    disableSecureDebugUnlock := featDebugUnlock (reserved.getD 3 0) }

/-- DESIGN.md §8 row 11: reserved[1] = 0xA5, reserved[3] = 0x07 -/
def witnessReserved : Bytes := [0x8D, 0xA5, 0x00, 0x07, 0, 0, 0, 0, 0, 0, 0, 0, 0, 0, 0, 0]

/-- the current code reports revision 5 / model 0x28 where the key says revision 5 / model 0xA -/
theorem key_bits_binding_refuted :
    parsePlatformBinding witnessReserved = ⟨0x8D, 5, 0x28⟩ ∧
    Spec.platformBinding witnessReserved = ⟨0x8D, 5, 0xA⟩ ∧
    parsePlatformBinding witnessReserved ≠ Spec.platformBinding witnessReserved := by decide

/-- and a revision id with bit 3 set is truncated (0x0F → 7) -/
theorem key_bits_revision_refuted :
    (parsePlatformBinding [0, 0x0F, 0, 0]).keyRevisionID = 7 ∧
    (Spec.platformBinding [0, 0x0F, 0, 0]).keyRevisionID = 15 := by decide

/-- the current code reports (true, false, false) where all three feature bits are set -/
theorem key_bits_features_refuted :
    parseSecurityFeatureVector witnessReserved = ⟨true, false, false⟩ ∧
    Spec.securityFeatures witnessReserved = ⟨true, true, true⟩ := by decide

set_option maxRecDepth 100000 in
theorem features_always_false_aux : ∀ n, n < 256 →
    featAMDKeyUse (UInt8.ofNat n) = false ∧ featDebugUnlock (UInt8.ofNat n) = false := by decide

/-- the two shifted tests are constantly false: no key can ever report these features -/
theorem features_always_false (b : UInt8) : featAMDKeyUse b = false ∧ featDebugUnlock b = false := by
  have := features_always_false_aux b.toNat b.toNat_lt
  simpa using this

/-! ### embedded_firmware_structure.go: the probe as written (`offset+4 > len` may wrap) -/

/-- the loop of FindEmbeddedFirmwareStructure at the pinned commit -/
def findEFSLoop (img : Img) : List Nat → Except Err (EFS × Range)
  | [] => .error .notFound
  | a :: rest =>
    let off := physAddrToOffset img.len a
    if (off + 4) % 2 ^ 64 > img.len then findEFSLoop img rest
    else if off > img.len then .error .panic              -- image[offset:] : slice bounds out of range
    else if fromLE (img.window off 4) = efsSignature then
      match parseEFS (img.drop off) with
      | .error e => .error e
      | .ok (efs, n) => .ok (efs, ⟨off, n⟩)
    else findEFSLoop img rest

theorem loop_panics (len : Nat) (get : Nat → UInt8) (a : Nat) (rest : List Nat)
    (h1 : ¬ (physAddrToOffset len a + 4) % 2 ^ 64 > len) (h2 : physAddrToOffset len a > len) :
    findEFSLoop ⟨len, get⟩ (a :: rest) = .error .panic := by
  rw [findEFSLoop]; rw [if_neg h1, if_pos h2]

/-- DESIGN.md §8 row 10: any image of 0x5FFFF bytes makes the probe panic
    (offset = 2⁶⁴−1, offset+4 wraps to 3) -/
theorem efs_probe_panics (get : Nat → UInt8) :
    findEFSLoop ⟨0x5FFFF, get⟩ efsAnchors = .error .panic :=
  loop_panics _ _ _ _ (by decide) (by decide)

theorem repaired_skip (len : Nat) (get : Nat → UInt8) (a : Nat) (rest : List Nat)
    (h : physAddrToOffset len a > len ∨ (physAddrToOffset len a + 4) % 2 ^ 64 > len) :
    Amd.findEFSLoop ⟨len, get⟩ (a :: rest) = Amd.findEFSLoop ⟨len, get⟩ rest := by
  rw [Amd.findEFSLoop]; rw [if_pos h]

/-- the repaired loop reports "not found" there -/
theorem efs_probe_repaired (get : Nat → UInt8) :
    Amd.findEFS ⟨0x5FFFF, get⟩ = .error .notFound := by
  unfold Amd.findEFS efsAnchors
  rw [repaired_skip _ _ _ _ (by decide), repaired_skip _ _ _ _ (by decide),
    repaired_skip _ _ _ _ (by decide), repaired_skip _ _ _ _ (by decide),
    repaired_skip _ _ _ _ (by decide), repaired_skip _ _ _ _ (by decide)]
  rfl

end Fiano.Amd.Unfixed
