/-
  Specification of the AMD directory records and key attributes, written from the format
  (AMD publication 55758 rev 1.11 tables 5 and 12, "Enabling Platform Secure Boot" table 8, as
  quoted in the comments of the Go sources) — independent of how fiano decodes them:
  a record is ONE little-endian integer and every field is a bit range of it.
-/
import FianoModel.Amd.Keys

namespace Fiano.Amd.Spec

/-- bits `[off, off+w)` of the record read as one little-endian integer -/
def bits (r : Bytes) (off w : Nat) : Nat := fromLE r / 2 ^ off % 2 ^ w

def bit (r : Bytes) (off : Nat) : Bool := bits r off 1 == 1

/-- PSP directory entry (16 bytes): type 0:7, sub-program 8:15, ROM id 30:31, size 32:63,
    location/value 64:127 -/
def pspEntry (r : Bytes) : PSPEntry :=
  { type := bits r 0 8, subprogram := bits r 8 8, romId := bits r 30 2, size := bits r 32 32,
    loc := bits r 64 64 }

/-- BIOS directory entry (24 bytes): type 0:7, region type 8:15, reset 16, copy 17, read-only 18,
    compressed 19, instance 20:23, sub-program 24:26, ROM id 27:28, size 32:63, source 64:127,
    destination 128:191 -/
def biosEntry (r : Bytes) : BIOSEntry :=
  { type := bits r 0 8, regionType := bits r 8 8
    resetImage := bit r 16, copyImage := bit r 17, readOnly := bit r 18, compressed := bit r 19
    instance_ := bits r 20 4, subprogram := bits r 24 3, romId := bits r 27 2
    size := bits r 32 32, src := bits r 64 64, dst := bits r 128 64 }

/-- directory header (16 bytes): cookie, checksum, number of entries, additional info / reserved -/
def dirHeader (r : Bytes) : Nat × Nat × Nat × Nat := (bits r 0 32, bits r 32 32, bits r 64 32, bits r 96 32)

/-- the `n` records of `rs` bytes each that start at `off` -/
def records (raw : Bytes) (rs : Nat) : Nat → Nat → List Bytes
  | _, 0 => []
  | off, n+1 => slice raw off rs :: records raw rs (off + rs) n

/-- a PSP directory table read from its bytes: header words, then 16-byte records -/
def pspTable (raw : Bytes) : PSPTable :=
  { cookie := bits raw 0 32, checksum := bits raw 32 32, total := bits raw 64 32, addl := bits raw 96 32
    entries := (records raw 16 16 (bits raw 64 32)).map pspEntry }

/-- `raw` is a complete PSP directory table: accepted cookie, header and exactly the announced records -/
def IsPSPTable (raw : Bytes) : Prop :=
  (bits raw 0 32 = pspCookie ∨ bits raw 0 32 = pspL2Cookie) ∧ raw.length = 16 + 16 * bits raw 64 32

/-- a BIOS directory table read from its bytes: header words, then 24-byte records -/
def biosTable (raw : Bytes) : BIOSTable :=
  { cookie := bits raw 0 32, checksum := bits raw 32 32, total := bits raw 64 32, reserved := bits raw 96 32
    entries := (records raw 24 16 (bits raw 64 32)).map biosEntry }

def IsBIOSTable (raw : Bytes) : Prop :=
  (bits raw 0 32 = biosCookie ∨ bits raw 0 32 = biosL2Cookie) ∧ raw.length = 16 + 24 * bits raw 64 32

/-- embedded firmware structure (74 bytes): signature, 16 reserved bytes, PSP directory pointer,
    three BIOS directory pointers, a reserved word, the fourth BIOS directory pointer, 30 reserved bytes -/
def efs (r : Bytes) : EFS :=
  { signature := bits r 0 32, reserved1 := slice r 4 16, pspPtr := bits r 160 32, bios0 := bits r 192 32,
    bios1 := bits r 224 32, bios2 := bits r 256 32, reserved2 := bits r 288 32, bios3 := bits r 320 32,
    reserved3 := slice r 44 30 }

/-- platform binding of a PSBSignBIOS key: the reserved field as one integer —
    vendor id 0:7, key revision id 8:11, platform model id 12:15 -/
def platformBinding (reserved : Bytes) : PlatformBinding :=
  { vendorID := bits reserved 0 8, keyRevisionID := bits reserved 8 4, platformModelID := bits reserved 12 4 }

/-- security feature vector: bits 24, 25, 26 of the reserved field -/
def securityFeatures (reserved : Bytes) : SecurityFeatures :=
  { disableBIOSKeyAntiRollback := bit reserved 24, disableAMDBIOSKeyUse := bit reserved 25,
    disableSecureDebugUnlock := bit reserved 26 }

end Fiano.Amd.Spec
