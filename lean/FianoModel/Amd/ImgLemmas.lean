/-
  Images as (length, content function): windows, `drop` / `take`, byte strings as images.
-/
import FianoModel.Amd.Model

namespace Fiano.Amd
namespace Img

@[simp] theorem window_length (img : Img) (off n : Nat) : (img.window off n).length = n := by
  simp [window]

theorem window_getElem? (img : Img) (off n j : Nat) (h : j < n) :
    (img.window off n)[j]? = some (img.get (off + j)) := by
  simp [window, h]

theorem window_succ (img : Img) (off n : Nat) :
    img.window off (n + 1) = img.get off :: img.window (off + 1) n := by
  simp [window, List.range'_succ]

theorem window_zero (img : Img) (off : Nat) : img.window off 0 = [] := by simp [window]

/-- windows only depend on the bytes they cover -/
theorem window_ext (a b : Img) (oa ob n : Nat) (h : ∀ j, j < n → a.get (oa + j) = b.get (ob + j)) :
    a.window oa n = b.window ob n := by
  induction n generalizing oa ob with
  | zero => simp [window]
  | succ n ih =>
    rw [window_succ, window_succ]
    have h0 := h 0 (by omega)
    simp only [Nat.add_zero] at h0
    rw [h0, ih (oa + 1) (ob + 1) (fun j hj => by
      have := h (j + 1) (by omega)
      rw [show oa + 1 + j = oa + (j + 1) by omega, show ob + 1 + j = ob + (j + 1) by omega]
      exact this)]

theorem window_add (img : Img) (off n m : Nat) :
    img.window off (n + m) = img.window off n ++ img.window (off + n) m := by
  induction n generalizing off with
  | zero => simp [window_zero]
  | succ n ih =>
    rw [show n + 1 + m = (n + m) + 1 by omega, window_succ, window_succ, ih (off + 1)]
    simp only [List.cons_append]
    rw [show off + 1 + n = off + (n + 1) by omega]

theorem drop_window (img : Img) (o off n : Nat) : (img.drop o).window off n = img.window (o + off) n :=
  window_ext _ _ _ _ _ (fun j _ => by simp [drop, Nat.add_assoc])

theorem take_window (img : Img) (m off n : Nat) : (img.take m).window off n = img.window off n := rfl

@[simp] theorem drop_len (img : Img) (o : Nat) : (img.drop o).len = img.len - o := rfl
@[simp] theorem take_len (img : Img) (m : Nat) : (img.take m).len = min m img.len := rfl
@[simp] theorem ofBytes_len (b : Bytes) : (ofBytes b).len = b.length := rfl

/-- a sub-window of a window -/
theorem slice_window (img : Img) (off n o k : Nat) (h : o + k ≤ n) :
    slice (img.window off n) o k = img.window (off + o) k := by
  apply List.ext_getElem?
  intro j
  by_cases hj : j < k
  · rw [window_getElem? _ _ _ _ hj]
    simp only [slice, List.getElem?_take, hj, if_true, List.getElem?_drop]
    rw [window_getElem? _ _ _ _ (by omega)]
    simp [Nat.add_assoc]
  · have h1 : (slice (img.window off n) o k).length ≤ j := by
      simp only [slice, List.length_take, List.length_drop, window_length]; omega
    rw [List.getElem?_eq_none h1, List.getElem?_eq_none (by simp; omega)]

/-- a byte string seen as an image, read back -/
theorem ofBytes_window (b : Bytes) (off n : Nat) (h : off + n ≤ b.length) :
    (ofBytes b).window off n = slice b off n := by
  apply List.ext_getElem?
  intro j
  by_cases hj : j < n
  · rw [window_getElem? _ _ _ _ hj]
    simp only [slice, List.getElem?_take, hj, if_true, List.getElem?_drop, ofBytes]
    have : off + j < b.length := by omega
    simp [List.getD_eq_getElem?_getD, List.getElem?_eq_getElem this]
  · have h1 : (slice b off n).length ≤ j := by
      simp only [slice, List.length_take, List.length_drop]; omega
    rw [List.getElem?_eq_none h1, List.getElem?_eq_none (by simp; omega)]

theorem toBytes_ofBytes (b : Bytes) : (ofBytes b).toBytes = b := by
  unfold toBytes
  rw [ofBytes_len, ofBytes_window b 0 b.length (by simp)]
  simp [slice]

@[simp] theorem toBytes_length (img : Img) : img.toBytes.length = img.len := by simp [toBytes]

end Img
end Fiano.Amd
