/-
  What a successful table parse means (inversion) and when it succeeds (completeness):
  ParsePSPDirectoryTable / ParseBIOSDirectoryTable accept exactly the byte strings that start with
  an accepted cookie and hold the 16-byte header plus all announced records, and return the
  field-by-field decoding of those bytes and the number of bytes they occupy.
-/
import FianoModel.Amd.ImgLemmas

namespace Fiano.Amd

/-! ### PSP -/

/-- the records the entry loop decodes: `n` consecutive 16-byte windows from `off` -/
def pspEntriesAt (d : Img) : Nat → Nat → List PSPEntry
  | _, 0 => []
  | off, n+1 => decodePSPEntry (d.window off pspEntrySize) :: pspEntriesAt d (off + pspEntrySize) n

@[simp] theorem pspEntriesAt_length (d : Img) (off n : Nat) : (pspEntriesAt d off n).length = n := by
  induction n generalizing off with
  | zero => rfl
  | succ n ih => simp [pspEntriesAt, ih]

theorem readPSP_ok (d : Img) (off n : Nat) (acc : List PSPEntry) (h : off + pspEntrySize * n ≤ d.len) :
    readPSPEntries d off n acc = .ok (acc.reverse ++ pspEntriesAt d off n) := by
  induction n generalizing off acc with
  | zero => simp [readPSPEntries, pspEntriesAt]
  | succ n ih =>
    unfold readPSPEntries
    split
    · rename_i hs
      simp only [pspEntrySize] at hs h
      omega
    · rw [ih _ _ (by simp only [pspEntrySize] at h ⊢; omega)]
      simp [pspEntriesAt]

theorem readPSP_inv (d : Img) (off n : Nat) (acc es : List PSPEntry)
    (h : readPSPEntries d off n acc = .ok es) :
    es = acc.reverse ++ pspEntriesAt d off n ∧ (n = 0 ∨ off + pspEntrySize * n ≤ d.len) := by
  induction n generalizing off acc with
  | zero =>
    simp only [readPSPEntries] at h
    injection h with h
    simp [pspEntriesAt, h]
  | succ n ih =>
    unfold readPSPEntries at h
    split at h
    · cases h
    · rename_i hfit
      obtain ⟨h1, h2⟩ := ih _ _ h
      refine ⟨by simp [h1, pspEntriesAt], Or.inr ?_⟩
      simp only [pspEntrySize] at *
      omega

/-- header and records of the table at the start of `d`, read field by field -/
def pspTableAt (d : Img) : PSPTable :=
  { cookie := fromLE (d.window 0 4), checksum := fromLE (d.window 4 4), total := fromLE (d.window 8 4),
    addl := fromLE (d.window 12 4), entries := pspEntriesAt d dirHeaderSize (fromLE (d.window 8 4)) }

/-- `d` starts with a complete PSP directory table -/
def PSPFits (d : Img) : Prop :=
  (fromLE (d.window 0 4) = pspCookie ∨ fromLE (d.window 0 4) = pspL2Cookie) ∧
  dirHeaderSize + pspEntrySize * fromLE (d.window 8 4) ≤ d.len

theorem parsePSP_iff (d : Img) (t : PSPTable) (n : Nat) :
    parsePSP d = .ok (t, n) ↔
      PSPFits d ∧ t = pspTableAt d ∧ n = dirHeaderSize + pspEntrySize * fromLE (d.window 8 4) := by
  unfold parsePSP PSPFits
  constructor
  · intro h
    split at h
    · cases h
    · simp only at h
      split at h
      · cases h
      · rename_i h4 hck
        split at h
        · cases h
        · rename_i h16
          split at h
          · cases h
          · rename_i hshort
            split at h
            · cases h
            · rename_i es hes
              obtain ⟨e1, e2⟩ := readPSP_inv _ _ _ _ _ hes
              injection h with h
              injection h with h1 h2
              simp only [dirHeaderSize, pspEntrySize] at h16 hshort e2 h2 ⊢
              refine ⟨⟨by omega, by omega⟩, ?_, h2.symm⟩
              rw [← h1, e1]; simp [pspTableAt, dirHeaderSize]
  · rintro ⟨⟨hck, hfit⟩, rfl, rfl⟩
    have hfit' := hfit
    simp only [dirHeaderSize, pspEntrySize] at hfit'
    rw [if_neg (by omega)]
    simp only
    rw [if_neg (by omega), if_neg (by simp only [dirHeaderSize]; omega),
      if_neg (by simp only [dirHeaderSize, pspEntrySize]; omega)]
    rw [readPSP_ok d dirHeaderSize _ [] hfit]
    simp [pspTableAt]

/-! ### BIOS -/

def biosEntriesAt (d : Img) : Nat → Nat → List BIOSEntry
  | _, 0 => []
  | off, n+1 => decodeBIOSEntry (d.window off biosEntrySize) :: biosEntriesAt d (off + biosEntrySize) n

@[simp] theorem biosEntriesAt_length (d : Img) (off n : Nat) : (biosEntriesAt d off n).length = n := by
  induction n generalizing off with
  | zero => rfl
  | succ n ih => simp [biosEntriesAt, ih]

theorem readBIOS_ok (d : Img) (off n : Nat) (acc : List BIOSEntry) (h : off + biosEntrySize * n ≤ d.len) :
    readBIOSEntries d off n acc = .ok (acc.reverse ++ biosEntriesAt d off n) := by
  induction n generalizing off acc with
  | zero => simp [readBIOSEntries, biosEntriesAt]
  | succ n ih =>
    unfold readBIOSEntries
    split
    · rename_i hs
      simp only [biosEntrySize] at hs h
      omega
    · rw [ih _ _ (by simp only [biosEntrySize] at h ⊢; omega)]
      simp [biosEntriesAt]

theorem readBIOS_inv (d : Img) (off n : Nat) (acc es : List BIOSEntry)
    (h : readBIOSEntries d off n acc = .ok es) :
    es = acc.reverse ++ biosEntriesAt d off n ∧ (n = 0 ∨ off + biosEntrySize * n ≤ d.len) := by
  induction n generalizing off acc with
  | zero =>
    simp only [readBIOSEntries] at h
    injection h with h
    simp [biosEntriesAt, h]
  | succ n ih =>
    unfold readBIOSEntries at h
    split at h
    · cases h
    · rename_i hfit
      obtain ⟨h1, h2⟩ := ih _ _ h
      refine ⟨by simp [h1, biosEntriesAt], Or.inr ?_⟩
      simp only [biosEntrySize] at *
      omega

def biosTableAt (d : Img) : BIOSTable :=
  { cookie := fromLE (d.window 0 4), checksum := fromLE (d.window 4 4), total := fromLE (d.window 8 4),
    reserved := fromLE (d.window 12 4), entries := biosEntriesAt d dirHeaderSize (fromLE (d.window 8 4)) }

/-- `d` starts with a complete BIOS directory table (24-byte records) -/
def BIOSFits (d : Img) : Prop :=
  (fromLE (d.window 0 4) = biosCookie ∨ fromLE (d.window 0 4) = biosL2Cookie) ∧
  dirHeaderSize + biosEntrySize * fromLE (d.window 8 4) ≤ d.len

/-- Although the pre-check of ParseBIOSDirectoryTable multiplies the count by 16 instead of 24, the
    parse succeeds exactly on complete tables with 24-byte records: when the pre-check lets a short
    table through, the entry loop fails with a read error and nothing is returned. -/
theorem parseBIOS_iff (d : Img) (t : BIOSTable) (n : Nat) :
    parseBIOS d = .ok (t, n) ↔
      BIOSFits d ∧ t = biosTableAt d ∧ n = dirHeaderSize + biosEntrySize * fromLE (d.window 8 4) := by
  unfold parseBIOS BIOSFits
  constructor
  · intro h
    split at h
    · cases h
    · simp only at h
      split at h
      · cases h
      · rename_i h4 hck
        split at h
        · cases h
        · rename_i h16
          split at h
          · cases h
          · rename_i hshort
            split at h
            · cases h
            · rename_i es hes
              obtain ⟨e1, e2⟩ := readBIOS_inv _ _ _ _ _ hes
              injection h with h
              injection h with h1 h2
              simp only [dirHeaderSize, biosEntrySize, biosEntrySizeConst] at h16 hshort e2 h2 ⊢
              refine ⟨⟨by omega, by omega⟩, ?_, h2.symm⟩
              rw [← h1, e1]; simp [biosTableAt, dirHeaderSize]
  · rintro ⟨⟨hck, hfit⟩, rfl, rfl⟩
    have hfit' := hfit
    simp only [dirHeaderSize, biosEntrySize] at hfit'
    rw [if_neg (by omega)]
    simp only
    rw [if_neg (by omega), if_neg (by simp only [dirHeaderSize]; omega),
      if_neg (by simp only [dirHeaderSize, biosEntrySize, biosEntrySizeConst]; omega)]
    rw [readBIOS_ok d dirHeaderSize _ [] hfit]
    simp [biosTableAt]

end Fiano.Amd
