/-
  The tables the parsers return are the specification's reading (`Spec.pspTable`, `Spec.biosTable`)
  of exactly the bytes they report as consumed; and conversely every complete table is parsed.
-/
import FianoModel.Amd.EntryLemmas

namespace Fiano.Amd

theorem window_word (d : Img) (n o k : Nat) (h : o + k ≤ n) :
    fromLE (d.window o k) = Spec.bits (d.window 0 n) (8 * o) (8 * k) := by
  unfold Spec.bits
  have := fromLE_slice (d.window 0 n) o k
  rw [Img.slice_window d 0 n o k h, Nat.zero_add] at this
  rw [this, Nat.pow_mul, Nat.pow_mul]

theorem pspEntriesAt_spec (d : Img) (n : Nat) : ∀ (k off : Nat), off + 16 * k ≤ n →
    pspEntriesAt d off k = (Spec.records (d.window 0 n) 16 off k).map Spec.pspEntry
  | 0, _, _ => rfl
  | k+1, off, h => by
    simp only [pspEntriesAt, Spec.records, List.map_cons, pspEntrySize]
    rw [decodePSPEntry_eq_spec, Img.slice_window d 0 n off 16 (by omega), Nat.zero_add,
      pspEntriesAt_spec d n k (off + 16) (by omega)]

theorem biosEntriesAt_spec (d : Img) (n : Nat) : ∀ (k off : Nat), off + 24 * k ≤ n →
    biosEntriesAt d off k = (Spec.records (d.window 0 n) 24 off k).map Spec.biosEntry
  | 0, _, _ => rfl
  | k+1, off, h => by
    simp only [biosEntriesAt, Spec.records, List.map_cons, biosEntrySize]
    rw [decodeBIOSEntry_eq_spec, Img.slice_window d 0 n off 24 (by omega), Nat.zero_add,
      biosEntriesAt_spec d n k (off + 24) (by omega)]

/-- a successful ParsePSPDirectoryTable returns the specification's reading of the consumed bytes -/
theorem parsePSP_eq_spec (d : Img) (t : PSPTable) (n : Nat) (h : parsePSP d = .ok (t, n)) :
    n ≤ d.len ∧ Spec.IsPSPTable (d.window 0 n) ∧ t = Spec.pspTable (d.window 0 n) := by
  obtain ⟨⟨hck, hfit⟩, rfl, rfl⟩ := (parsePSP_iff d t n).1 h
  simp only [dirHeaderSize, pspEntrySize] at hfit ⊢
  have w0 := window_word d (16 + 16 * fromLE (d.window 8 4)) 0 4 (by omega)
  have w1 := window_word d (16 + 16 * fromLE (d.window 8 4)) 4 4 (by omega)
  have w2 := window_word d (16 + 16 * fromLE (d.window 8 4)) 8 4 (by omega)
  have w3 := window_word d (16 + 16 * fromLE (d.window 8 4)) 12 4 (by omega)
  refine ⟨hfit, ⟨?_, ?_⟩, ?_⟩
  · rw [← w0]; exact hck
  · rw [← w2]; simp
  · unfold pspTableAt Spec.pspTable
    rw [← w0, ← w1, ← w2, ← w3]
    simp only [dirHeaderSize]
    rw [pspEntriesAt_spec d _ _ 16 (Nat.le_refl _)]

theorem parseBIOS_eq_spec (d : Img) (t : BIOSTable) (n : Nat) (h : parseBIOS d = .ok (t, n)) :
    n ≤ d.len ∧ Spec.IsBIOSTable (d.window 0 n) ∧ t = Spec.biosTable (d.window 0 n) := by
  obtain ⟨⟨hck, hfit⟩, rfl, rfl⟩ := (parseBIOS_iff d t n).1 h
  simp only [dirHeaderSize, biosEntrySize] at hfit ⊢
  have w0 := window_word d (16 + 24 * fromLE (d.window 8 4)) 0 4 (by omega)
  have w1 := window_word d (16 + 24 * fromLE (d.window 8 4)) 4 4 (by omega)
  have w2 := window_word d (16 + 24 * fromLE (d.window 8 4)) 8 4 (by omega)
  have w3 := window_word d (16 + 24 * fromLE (d.window 8 4)) 12 4 (by omega)
  refine ⟨hfit, ⟨?_, ?_⟩, ?_⟩
  · rw [← w0]; exact hck
  · rw [← w2]; simp
  · unfold biosTableAt Spec.biosTable
    rw [← w0, ← w1, ← w2, ← w3]
    simp only [dirHeaderSize]
    rw [biosEntriesAt_spec d _ _ 16 (Nat.le_refl _)]

/-- conversely: every complete table at the start of `d` is parsed, to the specification's reading -/
theorem parsePSP_of_spec (d : Img) (raw : Bytes) (hraw : d.window 0 raw.length = raw) (hlen : raw.length ≤ d.len)
    (hs : Spec.IsPSPTable raw) : parsePSP d = .ok (Spec.pspTable raw, raw.length) := by
  obtain ⟨hck, hl⟩ := hs
  have h16 : 16 ≤ raw.length := by omega
  have w0 := window_word d raw.length 0 4 (by omega)
  have w1 := window_word d raw.length 4 4 (by omega)
  have w2 := window_word d raw.length 8 4 (by omega)
  have w3 := window_word d raw.length 12 4 (by omega)
  rw [hraw] at w0 w1 w2 w3
  rw [parsePSP_iff]
  simp only [PSPFits, dirHeaderSize, pspEntrySize]
  refine ⟨⟨by rw [w0]; exact hck, by rw [w2]; simp only [Nat.reduceMul] at hl ⊢; omega⟩, ?_,
    by rw [w2]; exact hl⟩
  unfold pspTableAt Spec.pspTable
  rw [w0, w1, w2, w3]
  simp only [dirHeaderSize]
  rw [pspEntriesAt_spec d raw.length _ 16 (by simp only [Nat.reduceMul] at hl ⊢; omega), hraw]

theorem parseBIOS_of_spec (d : Img) (raw : Bytes) (hraw : d.window 0 raw.length = raw) (hlen : raw.length ≤ d.len)
    (hs : Spec.IsBIOSTable raw) : parseBIOS d = .ok (Spec.biosTable raw, raw.length) := by
  obtain ⟨hck, hl⟩ := hs
  have h16 : 16 ≤ raw.length := by omega
  have w0 := window_word d raw.length 0 4 (by omega)
  have w1 := window_word d raw.length 4 4 (by omega)
  have w2 := window_word d raw.length 8 4 (by omega)
  have w3 := window_word d raw.length 12 4 (by omega)
  rw [hraw] at w0 w1 w2 w3
  rw [parseBIOS_iff]
  simp only [BIOSFits, dirHeaderSize, biosEntrySize]
  refine ⟨⟨by rw [w0]; exact hck, by rw [w2]; simp only [Nat.reduceMul] at hl ⊢; omega⟩, ?_,
    by rw [w2]; exact hl⟩
  unfold biosTableAt Spec.biosTable
  rw [w0, w1, w2, w3]
  simp only [dirHeaderSize]
  rw [biosEntriesAt_spec d raw.length _ 16 (by simp only [Nat.reduceMul] at hl ⊢; omega), hraw]

/-- the EFS record decoder returns the documented fields of the 74 bytes -/
theorem decodeEFS_eq_spec (r : Bytes) : decodeEFS r = Spec.efs r := by
  unfold decodeEFS Spec.efs Spec.bits
  have e : ∀ k, (256 : Nat) ^ k = 2 ^ (8 * k) := fun k => by rw [Nat.pow_mul]
  simp only [fromLE_slice, e, Nat.reduceMul]

end Fiano.Amd
