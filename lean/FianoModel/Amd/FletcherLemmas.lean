/-
  Proof that `fletcherCRC32` as coded (360-word blocks, uint32 accumulators, one reduction per
  block) never panics, never wraps, and computes mathematical Fletcher-32 (`Spec.fletcher32`).
  The argument is DESIGN.md Appendix A.4: entering a block both sums are < 65535; after j ≤ 360
  words ≤ 65535 they are at most 65534 + 65535·j and 65534 + 65534·j + 65535·j(j+1)/2 < 2³².
-/
import FianoModel.Amd.Fletcher

namespace Fiano.Amd
open Spec

/-! ### words -/

theorem words_le : ∀ (d : Bytes), ∀ w ∈ words d, w ≤ 65535
  | [], w, h => by simp [words] at h
  | [a], w, h => by
    have := a.toNat_lt
    simp [words] at h; omega
  | a :: b :: rest, w, h => by
    have ha := a.toNat_lt
    have hb := b.toNat_lt
    simp only [words, List.mem_cons] at h
    rcases h with h | h
    · omega
    · exact words_le rest w h

theorem words_length : ∀ (d : Bytes), (words d).length = (d.length + 1) / 2
  | [] => by simp [words]
  | [a] => by simp [words]
  | a :: b :: rest => by
    simp only [words, List.length_cons, words_length rest]; omega

theorem words_drop : ∀ (k : Nat) (d : Bytes), words (d.drop (2 * k)) = (words d).drop k
  | 0, d => by simp
  | k+1, [] => by simp [words]
  | k+1, [a] => by simp [words, Nat.mul_add]
  | k+1, a :: b :: rest => by
    have : 2 * (k + 1) = 2 * k + 1 + 1 := by omega
    rw [this]
    simp only [List.drop_succ_cons, words]
    exact words_drop k rest

/-! ### the wrapped (uint32) fold the inner loop performs -/

/-- one iteration of the inner loop on the accumulators, with uint32 wrap-around -/
def wstep (s : Nat × Nat) (w : Nat) : Nat × Nat :=
  ((s.1 + w) % 2 ^ 32, (s.2 + (s.1 + w) % 2 ^ 32) % 2 ^ 32)

def wfold (ws : List Nat) (s : Nat × Nat) : Nat × Nat := ws.foldl wstep s

/-- the inner loop = `k` wrapped steps over the next `k` words; it never indexes past the end
    as long as `k` words remain -/
theorem inner_eq_wfold : ∀ (k : Nat) (rest : Bytes) (c0 c1 : Nat), k ≤ (words rest).length →
    fletcherInner k rest c0 c1 =
      some (rest.drop (2 * k), (wfold ((words rest).take k) (c0, c1)).1, (wfold ((words rest).take k) (c0, c1)).2)
  | 0, rest, c0, c1, _ => by simp [fletcherInner, wfold]
  | k+1, [], c0, c1, h => by simp [words] at h
  | k+1, [a], c0, c1, h => by
    have hk : k = 0 := by simp [words] at h; omega
    subst hk
    simp [fletcherInner, words, wfold, wstep]
  | k+1, a :: b :: rest, c0, c1, h => by
    have ha := a.toNat_lt
    have hb := b.toNat_lt
    have hv : (a.toNat + (b.toNat * 256) % 2 ^ 16) % 2 ^ 16 = a.toNat + 256 * b.toNat := by omega
    have hk : k ≤ (words rest).length := by simp [words] at h; omega
    have h2 : 2 * (k + 1) = 2 * k + 1 + 1 := by omega
    simp only [fletcherInner, hv]
    rw [inner_eq_wfold k rest _ _ hk, h2]
    simp only [List.drop_succ_cons, words, List.take_succ_cons, wfold, List.foldl_cons, wstep]

/-! ### no overflow inside a block -/

/-- triangular numbers, as a recursive function so that the bound stays linear for `omega` -/
def tri : Nat → Nat
  | 0 => 0
  | j+1 => tri j + (j + 1)

theorem tri_mono : ∀ {j k : Nat}, j ≤ k → tri j ≤ tri k := by
  intro j k h
  induction h with
  | refl => exact Nat.le_refl _
  | step _ ih => simp only [tri]; omega

set_option maxRecDepth 10000 in
theorem tri_360 : tri 360 = 64980 := by decide

/-- inside a block the wrapped fold equals the plain fold: `j` = words already consumed in this
    block, the accumulators obey the Appendix A.4 bounds, at most 360 words per block -/
theorem wfold_eq_sums : ∀ (ws : List Nat) (a b j : Nat), (∀ w ∈ ws, w ≤ 65535) → ws.length + j ≤ 360 →
    a ≤ 65534 + 65535 * j → b ≤ 65534 + 65534 * j + 65535 * tri j →
    wfold ws (a, b) = sums ws (a, b)
  | [], _, _, _, _, _, _, _ => rfl
  | w :: ws, a, b, j, hw, hl, ha, hb => by
    have hw0 : w ≤ 65535 := hw w (by simp)
    have hj : j + 1 ≤ 360 := by simp at hl; omega
    have ht : tri (j + 1) ≤ 64980 := by rw [← tri_360]; exact tri_mono hj
    have ht' : tri (j + 1) = tri j + (j + 1) := rfl
    have h1 : (a + w) % 2 ^ 32 = a + w := Nat.mod_eq_of_lt (by omega)
    have h2 : (b + (a + w)) % 2 ^ 32 = b + (a + w) := Nat.mod_eq_of_lt (by omega)
    have ih := wfold_eq_sums ws (a + w) (b + (a + w)) (j + 1) (fun x hx => hw x (by simp [hx]))
      (by simp at hl; omega) (by omega) (by omega)
    simp only [wfold, sums, List.foldl_cons, wstep, h1, h2] at ih ⊢
    exact ih

/-! ### reduction modulo 65535 commutes with the sums -/

theorem sums_congr : ∀ (ws : List Nat) (a b a' b' : Nat), a % 65535 = a' % 65535 → b % 65535 = b' % 65535 →
    (sums ws (a, b)).1 % 65535 = (sums ws (a', b')).1 % 65535 ∧
    (sums ws (a, b)).2 % 65535 = (sums ws (a', b')).2 % 65535
  | [], _, _, _, _, ha, hb => ⟨ha, hb⟩
  | w :: ws, a, b, a', b', ha, hb => by
    have := sums_congr ws (a + w) (b + (a + w)) (a' + w) (b' + (a' + w)) (by omega) (by omega)
    simpa only [sums, List.foldl_cons] using this

theorem sums_append (p q : List Nat) (s : Nat × Nat) : sums (p ++ q) s = sums q (sums p s) := by
  simp [sums, List.foldl_append]

/-! ### the outer loop -/

/-- Invariant of the outer loop: `l` is twice the number of words left, the accumulators are the
    residues of the plain sums `(A, B)` of everything consumed so far.  The fuel is never
    exhausted and no index is out of range: the result is `some`. -/
theorem outer_eq : ∀ (fuel l : Nat) (rest : Bytes) (A B : Nat),
    l = 2 * (words rest).length → l ≤ fuel →
    fletcherOuter fuel l rest (A % 65535) (B % 65535) =
      some ((sums (words rest) (A, B)).1 % 65535, (sums (words rest) (A, B)).2 % 65535)
  | 0, l, rest, A, B, hl, hf => by
    have h0 : (words rest).length = 0 := by omega
    have : words rest = [] := List.eq_nil_of_length_eq_zero h0
    have hl0 : l = 0 := by omega
    simp [fletcherOuter, hl0, this, sums]
  | fuel+1, l, rest, A, B, hl, hf => by
    unfold fletcherOuter
    by_cases hl0 : l = 0
    · have h0 : (words rest).length = 0 := by omega
      have : words rest = [] := List.eq_nil_of_length_eq_zero h0
      simp [hl0, this, sums]
    · rw [if_neg hl0]
      have hbb : blockBytes = 720 := rfl
      -- number of words of this block
      have hkdef : ∃ k, (if l > blockBytes then blockBytes else l) = 2 * k ∧ k ≤ (words rest).length ∧ 1 ≤ k ∧ k ≤ 360 := by
        by_cases hb : l > blockBytes
        · exact ⟨360, by rw [if_pos hb]; omega, by omega, by omega, by omega⟩
        · exact ⟨(words rest).length, by rw [if_neg hb]; omega, by omega, by omega, by omega⟩
      obtain ⟨k, hk, hkw, hk1, hk360⟩ := hkdef
      rw [hk]
      have hk2 : 2 * k / 2 = k := by omega
      simp only [hk2]
      rw [inner_eq_wfold k rest _ _ hkw]
      simp only
      have hA : A % 65535 ≤ 65534 := by omega
      have hB : B % 65535 ≤ 65534 := by omega
      have hws : ∀ w ∈ (words rest).take k, w ≤ 65535 := fun w hw => words_le rest w (List.mem_of_mem_take hw)
      have hlen : ((words rest).take k).length + 0 ≤ 360 := by
        simp only [List.length_take]; omega
      rw [wfold_eq_sums _ _ _ 0 hws hlen (by omega) (by simp [tri]; omega)]
      -- residues of the block sums
      obtain ⟨c1, c2⟩ := sums_congr ((words rest).take k) (A % 65535) (B % 65535) A B
        (Nat.mod_mod _ _) (Nat.mod_mod _ _)
      rw [c1, c2]
      rw [outer_eq fuel (l - 2 * k) (rest.drop (2 * k)) _ _
        (by rw [words_drop, List.length_drop]; omega) (by omega)]
      rw [words_drop, ← sums_append, List.take_append_drop]

theorem sums_nil_init : sums (words ([] : Bytes)) (0, 0) = (0, 0) := rfl

/-- **the coded checksum is total and equals mathematical Fletcher-32** -/
theorem fletcherCRC32_eq_spec (data : Bytes) : fletcherCRC32 data = some (fletcher32 data) := by
  unfold fletcherCRC32 fletcher32
  have hl : (data.length + 1) / 2 * 2 = 2 * (words data).length := by rw [words_length]; omega
  have := outer_eq ((data.length + 1) / 2 * 2) ((data.length + 1) / 2 * 2) data 0 0 hl (Nat.le_refl _)
  simp only [Nat.zero_mod] at this
  simp only [this]
  have h0 : (sums (words data) (0, 0)).1 % 65535 < 65535 := Nat.mod_lt _ (by decide)
  have h1 : (sums (words data) (0, 0)).2 % 65535 < 65535 := Nat.mod_lt _ (by decide)
  generalize (sums (words data) (0, 0)).1 % 65535 = x at *
  generalize (sums (words data) (0, 0)).2 % 65535 = y at *
  have hy : (y * 2 ^ 16) % 2 ^ 32 = y * 2 ^ 16 := Nat.mod_eq_of_lt (by omega)
  rw [hy, ← Nat.shiftLeft_eq, ← Nat.shiftLeft_add_eq_or_of_lt (by omega), Nat.shiftLeft_eq]

end Fiano.Amd
