/-
  Tie T1 "code as code" for pkg/amd/manifest/checksum.go: the model `Amd.fletcherCRC32` /
  `Amd.calcDirectoryChecksum` equals, for every input, the Go function translated on every run
  (translator kind `loopfn`, Gen/CodeAmd.lean: index cursor `i`, `uint32` accumulators, the two
  nested loops with explicit fuel).  Together with `fletcherCRC32_eq_spec` this says: *the code as
  it is written today* computes the mathematical Fletcher-32 of any byte string, never indexes out
  of range and terminates within the loops' fuel.
-/
import FianoModel.Gen.CodeAmd
import FianoModel.CodeTie.Lemmas
import FianoModel.Amd.Fletcher
import FianoModel.Amd.FletcherLemmas
import FianoModel.Amd.Keys
import FianoModel.Gen.CodePsb

namespace Fiano.Amd.CodeTie
open Fiano Fiano.Amd Fiano.GoRt
open Fiano.Gen.CodeAmd

/-! ### `(len(data) + 1) & ^1` -/

theorem iand_neg2 (n : Nat) : GoRt.iand (n : Int) (-2) = ((n / 2 * 2 : Nat) : Int) := by
  have h : (-2 : Int) = Int.negSucc 1 := rfl
  rw [h]
  show GoRt.iand (Int.ofNat n) (Int.negSucc 1) = _
  simp only [GoRt.iand]
  congr 1
  rw [Nat.and_one_is_mod]
  omega

/-! ### one 16-bit word -/

theorem word2 (a b : UInt8) :
    ((a.toUInt16 + (b.toUInt16 <<< 8)).toUInt32).toNat = (a.toNat + (b.toNat * 256) % 2 ^ 16) % 2 ^ 16 := by
  simp only [UInt16.toNat_toUInt32, UInt16.toNat_add, UInt16.toNat_shiftLeft, UInt8.toNat_toUInt16]
  have h8 : (8 : UInt16).toNat % 16 = 8 := by decide
  rw [h8, Nat.shiftLeft_eq]

/-! ### single steps of the generated inner loop (no casts involved) -/

/-- the word the inner loop reads when two bytes are left -/
def w2 (x y : UInt8) : UInt32 := (x.toUInt16 + (y.toUInt16 <<< 8)).toUInt32
/-- the word the inner loop reads when one byte is left -/
def w1 (x : UInt8) : UInt32 := (x.toUInt16).toUInt32

theorem loop2_fail (data : Bytes) (fuel : Nat) (c0 c1 : UInt32) (i bl : Int) (h : idx data i = none) :
    fn_fletcherCRC32.loop2 data (fuel + 1) c0 c1 i bl = none := by
  simp [fn_fletcherCRC32.loop2, h]

theorem loop2_two (data : Bytes) (fuel : Nat) (c0 c1 : UInt32) (i bl : Int) (x y : UInt8)
    (hx : idx data i = some x) (hlt : i + 1 < (data.length : Int)) (hy : idx data (i + 1) = some y) :
    fn_fletcherCRC32.loop2 data (fuel + 1) c0 c1 i bl =
      if bl - 2 = 0 then some (c0 + w2 x y, c1 + (c0 + w2 x y), i + 1 + 1, bl - 2)
      else fn_fletcherCRC32.loop2 data fuel (c0 + w2 x y) (c1 + (c0 + w2 x y)) (i + 1 + 1) (bl - 2) := by
  simp only [fn_fletcherCRC32.loop2, hx, hlt, hy, bind, Option.bind, pure, decide_true, if_true, w2]
  by_cases hb : bl - 2 = 0 <;> simp [hb]

theorem loop2_one (data : Bytes) (fuel : Nat) (c0 c1 : UInt32) (i bl : Int) (x : UInt8)
    (hx : idx data i = some x) (hlt : ¬ (i + 1 < (data.length : Int))) :
    fn_fletcherCRC32.loop2 data (fuel + 1) c0 c1 i bl =
      if bl - 2 = 0 then some (c0 + w1 x, c1 + (c0 + w1 x), i + 1, bl - 2)
      else fn_fletcherCRC32.loop2 data fuel (c0 + w1 x) (c1 + (c0 + w1 x)) (i + 1) (bl - 2) := by
  simp only [fn_fletcherCRC32.loop2, hx, hlt, bind, Option.bind, pure, decide_false, Bool.false_eq_true, if_false, w1]
  by_cases hb : bl - 2 = 0 <;> simp [hb]

theorem w1_toNat (c0 : UInt32) (x : UInt8) : (c0 + w1 x).toNat = (c0.toNat + x.toNat) % 2 ^ 32 := by
  simp [w1, UInt32.toNat_add]

theorem w2_toNat (c0 : UInt32) (x y : UInt8) :
    (c0 + w2 x y).toNat = (c0.toNat + (x.toNat + (y.toNat * 256) % 2 ^ 16) % 2 ^ 16) % 2 ^ 32 := by
  rw [UInt32.toNat_add, w2, word2]

/-! ### the inner `for { … }` loop -/

/-- what the generated inner loop and the model's `fletcherInner` have in common: started on the
    cursor `i` (model: on `data[i:]`) with `blockLen = 2k`, `k ≥ 1`, both fail together (the cursor
    runs off the end) or both succeed with the same sums and the same cursor -/
theorem inner_tie (data : Bytes) : ∀ (k : Nat), 1 ≤ k → ∀ (fuel i : Nat) (c0 c1 : UInt32) (bl : Int), k ≤ fuel →
    bl = 2 * (k : Int) →
    match fletcherInner k (data.drop i) c0.toNat c1.toNat with
    | none => fn_fletcherCRC32.loop2 data fuel c0 c1 (i : Int) bl = none
    | some (rest', a, b) => ∃ (c0' c1' : UInt32) (i' : Nat),
        fn_fletcherCRC32.loop2 data fuel c0 c1 (i : Int) bl = some (c0', c1', (i' : Int), 0) ∧
        rest' = data.drop i' ∧ a = c0'.toNat ∧ b = c1'.toNat := by
  intro k
  induction k with
  | zero => intro h; omega
  | succ k ih =>
    intro _ fuel i c0 c1 bl hf hbl
    obtain ⟨f, rfl⟩ : ∃ f, fuel = f + 1 := ⟨fuel - 1, by omega⟩
    cases hd : data.drop i with
    | nil =>
      -- the cursor is at the end: data[i] panics, the model fails too
      have hlen : data.length ≤ i := by
        have := congrArg List.length hd; simp at this; omega
      simp only [fletcherInner]
      exact loop2_fail data f c0 c1 i bl (idx_ge data i hlen)
    | cons x tl =>
      have hlt : i < data.length := by
        have := congrArg List.length hd; simp at this; omega
      have hx : idx data (i : Int) = some x := by
        rw [idx_ofNat]
        have : (data.drop i)[0]? = some x := by rw [hd]; rfl
        rw [List.getElem?_drop] at this
        exact this
      cases tl with
      | nil =>
        -- last byte of an odd-length input: no high byte
        have hlen : data.length = i + 1 := by
          have := congrArg List.length hd; simp at this; omega
        have hnot : ¬ ((i : Int) + 1 < (data.length : Int)) := by omega
        have hdrop : data.drop (i + 1) = [] := by
          apply List.drop_eq_nil_of_le; omega
        rw [loop2_one data f c0 c1 i bl x hx hnot]
        simp only [fletcherInner]
        by_cases hk : k = 0
        · subst hk
          have hb : bl - 2 = 0 := by omega
          rw [if_pos hb]
          refine ⟨c0 + w1 x, c1 + (c0 + w1 x), i + 1, ?_, ?_, ?_, ?_⟩
          · have : ((i : Int) + 1) = ((i + 1 : Nat) : Int) := by omega
            rw [this, hb]
          · exact hdrop.symm
          · exact (w1_toNat c0 x).symm
          · rw [UInt32.toNat_add, w1_toNat]
        · have hb : ¬ (bl - 2 = 0) := by omega
          rw [if_neg hb]
          have := ih (by omega) f (i + 1) (c0 + w1 x) (c1 + (c0 + w1 x)) (bl - 2) (by omega) (by omega)
          rw [hdrop, w1_toNat, UInt32.toNat_add, w1_toNat] at this
          have e : ((i : Int) + 1) = ((i + 1 : Nat) : Int) := by omega
          rw [e]
          exact this
      | cons y tl' =>
        have hlen : i + 2 ≤ data.length := by
          have := congrArg List.length hd; simp at this; omega
        have hyes : ((i : Int) + 1 < (data.length : Int)) := by omega
        have hy : idx data ((i : Int) + 1) = some y := by
          have e : ((i : Int) + 1) = ((i + 1 : Nat) : Int) := by omega
          rw [e, idx_ofNat]
          have : (data.drop i)[1]? = some y := by rw [hd]; rfl
          rw [List.getElem?_drop] at this
          exact this
        have hdrop : data.drop (i + 2) = tl' := by
          have : (data.drop i).drop 2 = tl' := by rw [hd]; rfl
          rw [List.drop_drop] at this
          exact this
        rw [loop2_two data f c0 c1 i bl x y hx hyes hy]
        simp only [fletcherInner]
        have e : ((i : Int) + 1 + 1) = ((i + 2 : Nat) : Int) := by omega
        by_cases hk : k = 0
        · subst hk
          have hb : bl - 2 = 0 := by omega
          rw [if_pos hb]
          refine ⟨c0 + w2 x y, c1 + (c0 + w2 x y), i + 2, ?_, ?_, ?_, ?_⟩
          · rw [e, hb]
          · exact hdrop.symm
          · exact (w2_toNat c0 x y).symm
          · rw [UInt32.toNat_add, w2_toNat]
        · have hb : ¬ (bl - 2 = 0) := by omega
          rw [if_neg hb]
          have := ih (by omega) f (i + 2) (c0 + w2 x y) (c1 + (c0 + w2 x y)) (bl - 2) (by omega) (by omega)
          rw [hdrop, w2_toNat, UInt32.toNat_add, w2_toNat] at this
          rw [e]
          exact this

/-! ### the outer `for l > 0` loop -/

/-- `blockLen` of one pass -/
def blk (l : Int) : Int := if l > 720 then 720 else l

theorem loop1_done (data : Bytes) (fuel : Nat) (c0 c1 : UInt32) (i l : Int) (h : ¬ (l > 0)) :
    fn_fletcherCRC32.loop1 data (fuel + 1) c0 c1 i l = some (c0, c1, i, l) := by
  simp [fn_fletcherCRC32.loop1, h]

theorem loop1_step (data : Bytes) (fuel : Nat) (c0 c1 : UInt32) (i l : Int) (h : l > 0) :
    fn_fletcherCRC32.loop1 data (fuel + 1) c0 c1 i l =
      (fn_fletcherCRC32.loop2 data (blk l).toNat c0 c1 i (blk l)).bind (fun r =>
        fn_fletcherCRC32.loop1 data fuel (r.1 % 65535) (r.2.1 % 65535) r.2.2.1 (l - blk l)) := by
  simp only [fn_fletcherCRC32.loop1, h, decide_true, if_true, bind, blk]
  by_cases h2 : l > 720 <;> simp only [h2, decide_true, decide_false, if_true, Bool.false_eq_true, if_false] <;> rfl

theorem mod65535 (c : UInt32) : (c % 65535).toNat = c.toNat % 65535 := by
  rw [UInt32.toNat_mod]; rfl

theorem outer_tie (data : Bytes) : ∀ (n m : Nat), m ≤ n → ∀ (fuelG fuelM i : Nat) (c0 c1 : UInt32) (l : Int),
    m < fuelG → m ≤ fuelM → l = 2 * (m : Int) →
    match fletcherOuter fuelM (2 * m) (data.drop i) c0.toNat c1.toNat with
    | none => fn_fletcherCRC32.loop1 data fuelG c0 c1 (i : Int) l = none
    | some (a, b) => ∃ (c0' c1' : UInt32) (i' l' : Int),
        fn_fletcherCRC32.loop1 data fuelG c0 c1 (i : Int) l = some (c0', c1', i', l') ∧
        a = c0'.toNat ∧ b = c1'.toNat := by
  intro n
  induction n with
  | zero =>
    intro m hm fuelG fuelM i c0 c1 l hg _ hl
    have : m = 0 := by omega
    subst this
    obtain ⟨g, rfl⟩ : ∃ g, fuelG = g + 1 := ⟨fuelG - 1, by omega⟩
    have hfo : fletcherOuter fuelM (2 * 0) (data.drop i) c0.toNat c1.toNat = some (c0.toNat, c1.toNat) := by
      cases fuelM <;> simp [fletcherOuter]
    rw [hfo]
    exact ⟨c0, c1, i, l, loop1_done data g c0 c1 i l (by omega), rfl, rfl⟩
  | succ n ih =>
    intro m hm fuelG fuelM i c0 c1 l hg hM hl
    obtain ⟨g, rfl⟩ : ∃ g, fuelG = g + 1 := ⟨fuelG - 1, by omega⟩
    by_cases hm0 : m = 0
    · subst hm0
      have hfo : fletcherOuter fuelM (2 * 0) (data.drop i) c0.toNat c1.toNat = some (c0.toNat, c1.toNat) := by
        cases fuelM <;> simp [fletcherOuter]
      rw [hfo]
      exact ⟨c0, c1, i, l, loop1_done data g c0 c1 i l (by omega), rfl, rfl⟩
    · obtain ⟨fm, rfl⟩ : ∃ fm, fuelM = fm + 1 := ⟨fuelM - 1, by omega⟩
      -- k words in this block
      have hk : ∃ k : Nat, 1 ≤ k ∧ k ≤ m ∧ (if 2 * m > blockBytes then blockBytes else 2 * m) = 2 * k ∧ blk l = 2 * (k : Int) := by
        by_cases hb : 2 * m > 720
        · refine ⟨360, by omega, by omega, ?_, ?_⟩
          · simp [blockBytes, hb]
          · have : l > 720 := by omega
            simp [blk, this]
        · refine ⟨m, by omega, by omega, ?_, ?_⟩
          · simp [blockBytes, hb]
          · have : ¬ (l > 720) := by omega
            simp only [blk, this, if_false]; exact hl
      obtain ⟨k, hk1, hkm, hbm, hbg⟩ := hk
      have hne : ¬ (2 * m = 0) := by omega
      rw [loop1_step data g c0 c1 i l (by omega)]
      simp only [fletcherOuter, hne, if_false, hbm]
      have hdiv : 2 * k / 2 = k := by omega
      rw [hdiv]
      have hin := inner_tie data k hk1 (blk l).toNat i c0 c1 (blk l) (by omega) hbg
      cases hfi : fletcherInner k (data.drop i) c0.toNat c1.toNat with
      | none =>
        rw [hfi] at hin
        simp only [hin, Option.bind]
      | some r =>
        obtain ⟨rest', a, b⟩ := r
        rw [hfi] at hin
        obtain ⟨c0', c1', i', hl2, hrest, ha, hb⟩ := hin
        simp only [hl2, Option.bind]
        have := ih (m - k) (by omega) g fm i' (c0' % 65535) (c1' % 65535) (l - blk l) (by omega) (by omega) (by omega)
        rw [mod65535, mod65535, ← ha, ← hb, ← hrest] at this
        have e : 2 * m - 2 * k = 2 * (m - k) := by omega
        rw [e]
        exact this

/-! ### the whole function -/

/-- **`fletcherCRC32` as translated from the source equals the model**, for every input: same value,
    and the model's `none` (a Go panic) exactly when the generated code panics or runs out of fuel -/
theorem fletcher_tie (data : Bytes) :
    (fn_fletcherCRC32 data).map UInt32.toNat = fletcherCRC32 data := by
  unfold fn_fletcherCRC32 fletcherCRC32
  have hl : GoRt.iand ((data.length : Int) + 1) (-2) = (((data.length + 1) / 2 * 2 : Nat) : Int) := by
    have := iand_neg2 (data.length + 1)
    have e : ((data.length + 1 : Nat) : Int) = (data.length : Int) + 1 := by omega
    rw [e] at this
    exact this
  simp only [hl]
  have h2 : (data.length + 1) / 2 * 2 = 2 * ((data.length + 1) / 2) := by omega
  have ho := outer_tie data ((data.length + 1) / 2) ((data.length + 1) / 2) (Nat.le_refl _)
    ((((((data.length + 1) / 2 * 2 : Nat) : Int)) - 0).toNat + 1) ((data.length + 1) / 2 * 2) 0 0 0
    ((((data.length + 1) / 2 * 2 : Nat) : Int)) (by omega) (by omega) (by omega)
  rw [← h2] at ho
  simp only [List.drop_zero, UInt32.toNat_zero] at ho
  cases hfo : fletcherOuter ((data.length + 1) / 2 * 2) ((data.length + 1) / 2 * 2) data 0 0 with
  | none =>
    rw [hfo] at ho
    have ho' : fn_fletcherCRC32.loop1 data ((((((data.length + 1) / 2 * 2 : Nat) : Int)) - 0).toNat + 1) 0 0 0
        ((((data.length + 1) / 2 * 2 : Nat) : Int)) = none := ho
    simp only [bind, Option.bind, ho', Option.map]
  | some r =>
    obtain ⟨a, b⟩ := r
    rw [hfo] at ho
    obtain ⟨c0', c1', i', l', hlo, ha, hb⟩ := ho
    have ho' : fn_fletcherCRC32.loop1 data ((((((data.length + 1) / 2 * 2 : Nat) : Int)) - 0).toNat + 1) 0 0 0
        ((((data.length + 1) / 2 * 2 : Nat) : Int)) = some (c0', c1', i', l') := hlo
    simp only [bind, Option.bind, ho', Option.map, pure]
    congr 1
    rw [UInt32.toNat_or, UInt32.toNat_shiftLeft, ha, hb, Nat.shiftLeft_eq]
    rfl

/-- the Go code as written computes the mathematical Fletcher-32 … stated on the generated function:
    it never panics, never runs out of fuel, and its value is the model's -/
theorem fletcher_code_total (data : Bytes) (v : Nat) (h : fletcherCRC32 data = some v) :
    ∃ x : UInt32, fn_fletcherCRC32 data = some x ∧ x.toNat = v := by
  have := fletcher_tie data
  rw [h] at this
  cases hx : fn_fletcherCRC32 data with
  | none => rw [hx] at this; simp at this
  | some x => rw [hx] at this; simp at this; exact ⟨x, rfl, this⟩

/-- `CalculatePSPDirectoryCheckSum` / `CalculateBiosDirectoryCheckSum`: `raw[8:]` panics on a table
    shorter than 8 bytes, otherwise the Fletcher sum of the rest -/
theorem pspDirChecksum_tie (raw : Bytes) :
    (fn_CalculatePSPDirectoryCheckSum raw).map UInt32.toNat = calcDirectoryChecksum raw := by
  unfold fn_CalculatePSPDirectoryCheckSum calcDirectoryChecksum checksumDataOffset
  by_cases h : raw.length < 8
  · have : GoRt.sliceN raw 8 raw.length = none := sliceN_bad raw 8 raw.length (by omega)
    simp [h, this]
  · have : GoRt.sliceN raw 8 raw.length = some (raw.drop 8) := sliceN_from raw 8 (by omega)
    simp only [h, if_false, this, bind, Option.bind]
    rw [← fletcher_tie]

theorem biosDirChecksum_tie (raw : Bytes) :
    (fn_CalculateBiosDirectoryCheckSum raw).map UInt32.toNat = calcDirectoryChecksum raw := by
  have : fn_CalculateBiosDirectoryCheckSum raw = fn_CalculatePSPDirectoryCheckSum raw := rfl
  rw [this]; exact pspDirChecksum_tie raw

/-- **Corollary on the code itself.**  `fletcherCRC32` as it is written today (translated on this run)
    returns, for every byte string, the mathematical Fletcher-32 of `Spec` (16-bit little-endian
    words, zero-padded, both sums modulo 65535) — `fletcherCRC32_eq_spec` transported from the model
    to the regenerated code; in particular it never indexes out of range and always terminates. -/
theorem fletcher_code_eq_spec (data : Bytes) :
    ∃ x : UInt32, fn_fletcherCRC32 data = some x ∧ x.toNat = Spec.fletcher32 data :=
  fletcher_code_total data _ (fletcherCRC32_eq_spec data)

/-! ### attributes of a BIOS signing key (pkg/amd/psb/keys.go, property C17 "key bits") -/

/-- `parsePlatformBinding` as translated from the source (the returned struct as a tuple in field
    order: VendorID, KeyRevisionID, PlatformModelID) is the model's decoder, for every reserved
    field that has its first two bytes (the Go type is `[16]byte`) -/
theorem platformBinding_tie (reserved : Bytes) (h : 2 ≤ reserved.length) :
    (Gen.CodePsb.fn_parsePlatformBinding reserved).map
        (fun r => ({ vendorID := r.1.toNat, keyRevisionID := r.2.1.toNat, platformModelID := r.2.2.toNat } : PlatformBinding))
      = some (parsePlatformBinding reserved) := by
  match reserved, h with
  | a :: b :: rest, _ =>
    simp [Gen.CodePsb.fn_parsePlatformBinding, parsePlatformBinding, keyRevision, platformModel]

/-- `parseSecurityFeatureVector` as translated from the source (DisableBIOSKeyAntiRollback,
    DisableAMDBIOSKeyUse, DisableSecureDebugUnlock) is the model's decoder — bits 0, 1, 2 of byte 3 -/
theorem securityFeatures_tie (reserved : Bytes) (h : 4 ≤ reserved.length) :
    (Gen.CodePsb.fn_parseSecurityFeatureVector reserved).map
        (fun r => ({ disableBIOSKeyAntiRollback := r.1, disableAMDBIOSKeyUse := r.2.1,
                     disableSecureDebugUnlock := r.2.2 } : SecurityFeatures))
      = some (parseSecurityFeatureVector reserved) := by
  match reserved, h with
  | a :: b :: c :: d :: rest, _ =>
    simp [Gen.CodePsb.fn_parseSecurityFeatureVector, parseSecurityFeatureVector, featAntiRollback, featAMDKeyUse,
      featDebugUnlock]

/-- the length hypotheses are met by the 16-byte reserved field of every key -/
example : 4 ≤ (List.replicate 16 (0xA5 : UInt8)).length := by decide

end Fiano.Amd.CodeTie
