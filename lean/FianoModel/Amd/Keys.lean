/-
  Model of the key attribute decoding of pkg/amd/psb/keys.go:
    newTokenOrRootKey / NewRootKey (the 64-byte header, exponent, modulus),
    GetPlatformBindingInfo / parsePlatformBinding, GetSecurityFeatureVector / parseSecurityFeatureVector
  **as repaired** by fixes/C17-keybits.diff.  The code as it is at the pinned commit is in
  `Amd/Unfixed.lean`.

  Layout (code comments of keys.go; AMD publication 55758 table 26 and "Enabling Platform Secure
  Boot" table 8): the 16 reserved bytes of a PSBSignBIOS key start with
     byte 0        vendor id
     byte 1        bits 0:3 key revision id, bits 4:7 platform model id
     byte 3        bit 0 DISABLE_BIOS_KEY_ANTI_ROLLBACK, bit 1 DISABLE_AMD_BIOS_KEY_USE,
                   bit 2 DISABLE_SECURE_DEBUG_UNLOCK
-/
import FianoModel.Amd.Model

namespace Fiano.Amd

structure KeyData where
  versionID : Nat      -- uint32
  keyID     : Bytes    -- 16
  certKeyID : Bytes    -- 16
  usage     : Nat      -- uint32 KeyUsageFlag
  reserved  : Bytes    -- 16
  expSize   : Nat      -- uint32 (bits)
  modSize   : Nat      -- uint32 (bits)
  exponent  : Bytes
  modulus   : Bytes
  deriving Repr, DecidableEq, Inhabited

def keyHeaderSize : Nat := 64
def psbSignBIOS : Nat := 8

/-- `newTokenOrRootKey`: sequential binary.Read of the header fields, then exponent and modulus
    (sizes in bits, must be divisible by 8; a short buffer is an error) -/
def newTokenOrRootKey (b : Bytes) : Except Err KeyData :=
  if b.length < keyHeaderSize then .error .format
  else
    let expSize := fromLE (slice b 56 4)
    let modSize := fromLE (slice b 60 4)
    if expSize % 8 ≠ 0 then .error .format
    else if b.length - keyHeaderSize < expSize / 8 then .error .format
    else if modSize % 8 ≠ 0 then .error .format
    else if b.length - keyHeaderSize - expSize / 8 < modSize / 8 then .error .format
    else .ok
      { versionID := fromLE (slice b 0 4)
        keyID := slice b 4 16
        certKeyID := slice b 20 16
        usage := fromLE (slice b 36 4)
        reserved := slice b 40 16
        expSize := expSize
        modSize := modSize
        exponent := slice b keyHeaderSize (expSize / 8)
        modulus := slice b (keyHeaderSize + expSize / 8) (modSize / 8) }

/-- `NewRootKey`: a root key certifies itself -/
def newRootKey (b : Bytes) : Except Err KeyData :=
  match newTokenOrRootKey b with
  | .error e => .error e
  | .ok k => if k.keyID ≠ k.certKeyID then .error .format else .ok k

structure PlatformBinding where
  vendorID        : Nat
  keyRevisionID   : Nat
  platformModelID : Nat
  deriving Repr, DecidableEq, Inhabited

structure SecurityFeatures where
  disableBIOSKeyAntiRollback : Bool
  disableAMDBIOSKeyUse       : Bool
  disableSecureDebugUnlock   : Bool
  deriving Repr, DecidableEq, Inhabited

/-- the uint8 expressions of the repaired parsePlatformBinding -/
def keyRevision (b : UInt8) : UInt8 := b &&& 0xF
def platformModel (b : UInt8) : UInt8 := b >>> 4

/-- the uint8 expressions of the repaired parseSecurityFeatureVector -/
def featAntiRollback (b : UInt8) : Bool := b &&& 1 == 1
def featAMDKeyUse (b : UInt8) : Bool := (b >>> 1) &&& 1 == 1
def featDebugUnlock (b : UInt8) : Bool := (b >>> 2) &&& 1 == 1

def parsePlatformBinding (reserved : Bytes) : PlatformBinding :=
  { vendorID := (reserved.getD 0 0).toNat
    keyRevisionID := (keyRevision (reserved.getD 1 0)).toNat
    platformModelID := (platformModel (reserved.getD 1 0)).toNat }

def parseSecurityFeatureVector (reserved : Bytes) : SecurityFeatures :=
  { disableBIOSKeyAntiRollback := featAntiRollback (reserved.getD 3 0)
    disableAMDBIOSKeyUse := featAMDKeyUse (reserved.getD 3 0)
    disableSecureDebugUnlock := featDebugUnlock (reserved.getD 3 0) }

/-- `GetPlatformBindingInfo` -/
def getPlatformBindingInfo (k : KeyData) : Except Err PlatformBinding :=
  if k.usage ≠ psbSignBIOS then .error .usage else .ok (parsePlatformBinding k.reserved)

/-- `GetSecurityFeatureVector` -/
def getSecurityFeatureVector (k : KeyData) : Except Err SecurityFeatures :=
  if k.usage ≠ psbSignBIOS then .error .usage else .ok (parseSecurityFeatureVector k.reserved)

end Fiano.Amd
