/-
  T1 tie for pkg/amd/manifest and pkg/amd/psb: the model's constants, anchor list, record layouts,
  read sequences (order, byte order, widths) and the literal operators of every bit-field decoder
  are compared with the facts regenerated from the Go source on every build
  (FianoModel/Gen/AmdManifest.lean, FianoModel/Gen/AmdPsb.lean).
-/
import FianoModel.Amd.Model
import FianoModel.Amd.Fletcher
import FianoModel.Amd.Keys
import FianoModel.Gen.AmdManifest
import FianoModel.Gen.AmdPsb

namespace Fiano.Amd
open Fiano.Gen

/-! ### constants -/
theorem tie_efsSignature : efsSignature = AmdManifest.EmbeddedFirmwareStructureSignature := by decide
theorem tie_pspCookie : pspCookie = AmdManifest.PSPDirectoryTableCookie := by decide
theorem tie_pspL2Cookie : pspL2Cookie = AmdManifest.PSPDirectoryTableLevel2Cookie := by decide
theorem tie_biosCookie : biosCookie = AmdManifest.BIOSDirectoryTableCookie := by decide
theorem tie_biosL2Cookie : biosL2Cookie = AmdManifest.BIOSDirectoryTableLevel2Cookie := by decide
theorem tie_pspL2EntryType : pspL2EntryType = AmdManifest.PSPDirectoryTableLevel2Entry := by decide
theorem tie_biosL2EntryType : biosL2EntryType = AmdManifest.BIOSDirectoryTableLevel2Entry := by decide
theorem tie_pspEntrySize : pspEntrySize = AmdManifest.PSPDirectoryTableEntrySize := by decide
/-- the constant used by the BIOS pre-check (24 = the entry size since fixes/C20-amd-bios-scan-quadratic.diff); the model's `parseBIOS` uses it there -/
theorem tie_biosEntrySizeConst : biosEntrySizeConst = AmdManifest.BIOSDirectoryTableEntrySize := by decide
theorem tie_basePhysAddr : basePhysAddr = AmdManifest.basePhysAddr := by decide
theorem tie_checksumOffset_psp : checksumDataOffset = AmdManifest.pspDirectoryChecksumDataOffset := by decide
theorem tie_checksumOffset_bios : checksumDataOffset = AmdManifest.biosDirectoryChecksumDataOffset := by decide
theorem tie_psbSignBIOS : psbSignBIOS = AmdPsb.PSBSignBIOS := by decide

/-- the six anchor addresses, in probe order (the only integer list of FindEmbeddedFirmwareStructure) -/
theorem tie_anchors : AmdManifest.efs_anchor_lists = [efsAnchors] := by decide
/-- the probe reads a 4-byte signature: the literal arithmetic of the loop is `offset+4` and the comparison with the signature constant 0x55AA55AA -/
theorem tie_probe_ops : AmdManifest.litops_FindEmbeddedFirmwareStructure = ["+4", "==1437226410"] := by decide

/-! ### layouts (encoding/binary, packed, declaration order) -/
theorem tie_layout_EFS : AmdManifest.layout_EmbeddedFirmwareStructure =
    [("Signature", 4), ("Reserved1", 16), ("PSPDirectoryTablePointer", 4),
     ("BIOSDirectoryTableFamily17hModels00h0FhPointer", 4), ("BIOSDirectoryTableFamily17hModels10h1FhPointer", 4),
     ("BIOSDirectoryTableFamily17hModels30h3FhPointer", 4), ("Reserved2", 4),
     ("BIOSDirectoryTableFamily17hModels60h3FhPointer", 4), ("Reserved3", 30)] := by decide
theorem tie_efsSize : efsSize = AmdManifest.size_EmbeddedFirmwareStructure := by decide
theorem tie_efs_read : AmdManifest.readseq_ParseEFS = ["binary.LittleEndian:var EmbeddedFirmwareStructure"] := by decide
theorem tie_layout_PSPHeader : AmdManifest.layout_PSPDirectoryTableHeader =
    [("PSPCookie", 4), ("Checksum", 4), ("TotalEntries", 4), ("AdditionalInfo", 4)] := by decide
theorem tie_layout_BIOSHeader : AmdManifest.layout_BIOSDirectoryTableHeader =
    [("BIOSCookie", 4), ("Checksum", 4), ("TotalEntries", 4), ("Reserved", 4)] := by decide
theorem tie_dirHeaderSize : dirHeaderSize = AmdManifest.size_PSPDirectoryTableHeader ∧
    dirHeaderSize = AmdManifest.size_BIOSDirectoryTableHeader := by decide
/-- widths of the entry fields that are read into struct fields -/
theorem tie_fields_PSPEntry : AmdManifest.layout_PSPDirectoryTableEntry =
    [("Type", 1), ("Subprogram", 1), ("ROMId", 1), ("Size", 4), ("LocationOrValue", 8)] := by decide
theorem tie_fields_BIOSEntry : AmdManifest.layout_BIOSDirectoryTableEntry =
    [("Type", 1), ("RegionType", 1), ("ResetImage", 1), ("CopyImage", 1), ("ReadOnly", 1), ("Compressed", 1),
     ("Instance", 1), ("Subprogram", 1), ("RomID", 1), ("Size", 4), ("SourceAddress", 8), ("DestinationAddress", 8)] := by
  decide

/-! ### read sequences: order of the reads, little endian, widths of the local flag words -/
theorem tie_read_PSPTable : AmdManifest.readseq_ParsePSPDirectoryTable =
    ["binary.LittleEndian:PSPCookie", "binary.LittleEndian:Checksum", "binary.LittleEndian:TotalEntries",
     "binary.LittleEndian:AdditionalInfo"] := by decide
/-- 1 + 1 + 2 + 4 + 8 = 16 bytes: `decodePSPEntry` reads at offsets 0, 1, 2, 4, 8 -/
theorem tie_read_PSPEntry : AmdManifest.readseq_ParsePSPDirectoryTableEntry =
    ["binary.LittleEndian:Type", "binary.LittleEndian:Subprogram", "binary.LittleEndian:var uint16",
     "binary.LittleEndian:Size", "binary.LittleEndian:LocationOrValue"] := by decide
theorem tie_read_BIOSTable : AmdManifest.readseq_ParseBIOSDirectoryTable =
    ["binary.LittleEndian:BIOSCookie", "binary.LittleEndian:Checksum", "binary.LittleEndian:TotalEntries",
     "binary.LittleEndian:Reserved"] := by decide
/-- 1 + 1 + 1 + 1 + 4 + 8 + 8 = 24 bytes: `decodeBIOSEntry` reads at offsets 0, 1, 2, 3, 4, 8, 16 -/
theorem tie_read_BIOSEntry : AmdManifest.readseq_ParseBIOSDirectoryTableEntry =
    ["binary.LittleEndian:Type", "binary.LittleEndian:RegionType", "binary.LittleEndian:var uint8",
     "binary.LittleEndian:var uint8", "binary.LittleEndian:Size", "binary.LittleEndian:SourceAddress",
     "binary.LittleEndian:DestinationAddress"] := by decide
/-- key header: 4 + 16 + 16 + 4 + 16 + 4 + 4 = 64 bytes, reserved field at 40 -/
theorem tie_read_key : AmdPsb.readseq_newTokenOrRootKey =
    ["binary.LittleEndian:VersionID", "binary.LittleEndian:KeyID", "binary.LittleEndian:CertifyingKeyID",
     "binary.LittleEndian:KeyUsageFlag", "binary.LittleEndian:Reserved", "binary.LittleEndian:ExponentSize",
     "binary.LittleEndian:ModulusSize"] := by decide

/-! ### literal operators of the bit-field decoders (masks, shift amounts and directions) -/
/-- `pspRomId`: `uint8(flags>>14) & 0x3` -/
theorem tie_ops_PSPEntry : AmdManifest.litops_ParsePSPDirectoryTableEntry = ["&3", ">>14"] := by decide
/-- `biosResetImage … biosRomId`: `&0x1`, `>>1 &1`, `>>2 &1`, `>>3 &1`, `>>4`; `&7`, `>>3 &3` -/
theorem tie_ops_BIOSEntry : AmdManifest.litops_ParseBIOSDirectoryTableEntry =
    ["!=0", "!=0", "!=0", "!=0", "&1", "&1", "&1", "&1", "&3", "&7", ">>1", ">>2", ">>3", ">>3", ">>4"] := by decide
/-- `fletcherCRC32`: 720-byte (360-word) blocks, modulus 65535, rounding to even, word assembly, index and
    block-length steps, result. The inventory is in the translator's normal form (constants folded, named constants
    resolved, `x op= c` and `x++` counted like `x = x op c`), so value-preserving rewrites leave it unchanged. -/
theorem tie_ops_fletcher : AmdManifest.litops_fletcherCRC32 =
    ["%65535", "%65535", "&-2", "+1", "+1", "+1", "-2", "<<16", "<<8", "==0", ">0", ">720"] := by decide
/-- repaired `parsePlatformBinding`: `&0xF`, `>>4` (`keyRevision`, `platformModel`) -/
theorem tie_ops_platformBinding : AmdPsb.litops_parsePlatformBinding = ["&15", ">>4"] := by decide
/-- repaired `parseSecurityFeatureVector`: `&1`, `>>1 &1`, `>>2 &1` -/
theorem tie_ops_securityFeatures : AmdPsb.litops_parseSecurityFeatureVector =
    ["&1", "&1", "&1", "==1", "==1", "==1", ">>1", ">>2"] := by decide

end Fiano.Amd
