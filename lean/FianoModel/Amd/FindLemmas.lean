/-
  find_wf: on a well-formed image (Amd/Grammar.lean) discovery returns exactly the embedded
  structures.
-/
import FianoModel.Amd.Grammar
import FianoModel.Amd.SpecLemmas

namespace Fiano.Amd

/-! ### EFS probe -/

theorem parseEFS_ok (d : Img) (h : efsSize ≤ d.len) (hs : fromLE (d.window 0 4) = efsSignature) :
    parseEFS d = .ok (Spec.efs (d.window 0 efsSize), efsSize) := by
  unfold parseEFS
  rw [if_neg (by omega)]
  have hsg : (decodeEFS (d.window 0 efsSize)).signature = efsSignature := by
    unfold decodeEFS
    simp only
    rw [Img.slice_window _ _ _ 0 4 (by simp [efsSize]), Nat.add_zero, hs]
  simp only
  rw [if_neg (by rw [hsg]; simp), decodeEFS_eq_spec]

/-- one step of the probe loop, with the offset abstracted (keeps 2⁶⁴ arithmetic out of the way) -/
theorem findEFSLoop_cons (img : Img) (a : Nat) (rest : List Nat) (off : Nat) (ho : physAddrToOffset img.len a = off) :
    findEFSLoop img (a :: rest) =
      if off > img.len ∨ (off + 4) % 2 ^ 64 > img.len then findEFSLoop img rest
      else if fromLE (img.window off 4) = efsSignature then
        match parseEFS (img.drop off) with
        | .error e => .error e
        | .ok (efs, n) => .ok (efs, ⟨off, n⟩)
      else findEFSLoop img rest := by
  subst ho
  rw [findEFSLoop]
  rfl

theorem findEFSLoop_skip (img : Img) (a : Nat) (rest : List Nat) (hs : img.len < 2 ^ 32) (h : ¬ SigAt img a) :
    findEFSLoop img (a :: rest) = findEFSLoop img rest := by
  unfold SigAt at h
  rw [findEFSLoop_cons img a rest _ rfl]
  generalize physAddrToOffset img.len a = off at *
  split
  · rfl
  · rename_i hc
    have hoff : off ≤ img.len := by omega
    have hlt : off + 4 < 2 ^ 64 := by omega
    have h4 : (off + 4) % 2 ^ 64 = off + 4 := Nat.mod_eq_of_lt hlt
    have hfit : off + 4 ≤ img.len := by omega
    split
    · rename_i hsig
      exact absurd ⟨hfit, hsig⟩ h
    · rfl

theorem findEFSLoop_hit (img : Img) (a : Nat) (rest : List Nat) (hs : img.len < 2 ^ 32) (h : SigAt img a)
    (hfit : physAddrToOffset img.len a + efsSize ≤ img.len) :
    findEFSLoop img (a :: rest) =
      .ok (Spec.efs (img.window (physAddrToOffset img.len a) efsSize), ⟨physAddrToOffset img.len a, efsSize⟩) := by
  unfold SigAt at h
  rw [findEFSLoop_cons img a rest _ rfl]
  generalize physAddrToOffset img.len a = off at *
  obtain ⟨h4, hsig⟩ := h
  have hlt : off + 4 < 2 ^ 64 := by omega
  have hmod : (off + 4) % 2 ^ 64 = off + 4 := Nat.mod_eq_of_lt hlt
  have hc : ¬ (off > img.len ∨ (off + 4) % 2 ^ 64 > img.len) := by rw [hmod]; omega
  rw [if_neg hc, if_pos hsig]
  have hp := parseEFS_ok (img.drop off) (by simp only [Img.drop_len]; omega)
    (by rw [Img.drop_window, Nat.add_zero]; exact hsig)
  rw [Img.drop_window, Nat.add_zero] at hp
  rw [hp]

theorem findEFSLoop_append (img : Img) (pre : List Nat) (rest : List Nat) (hs : img.len < 2 ^ 32)
    (h : ∀ a ∈ pre, ¬ SigAt img a) : findEFSLoop img (pre ++ rest) = findEFSLoop img rest := by
  induction pre with
  | nil => rfl
  | cons a pre ih =>
    rw [List.cons_append, findEFSLoop_skip img a _ hs (h a (by simp))]
    exact ih (fun x hx => h x (by simp [hx]))

theorem findEFS_wf (lay : Layout) (img : Img) (wf : lay.WF img) :
    findEFS img = .ok (lay.efs img, ⟨lay.efsOff img, efsSize⟩) := by
  obtain ⟨pre, post, hl, hpre⟩ := wf.anchor
  unfold findEFS
  rw [hl, findEFSLoop_append img pre _ wf.small hpre, findEFSLoop_hit img _ _ wf.small wf.sig wf.efsFit]
  rfl

/-! ### tables that stand at an offset are parsed there -/

theorem parsePSP_holds (img : Img) (p : Nat) (raw : Bytes) (h : img.Holds p raw) (hs : Spec.IsPSPTable raw) :
    parsePSP (img.drop p) = .ok (Spec.pspTable raw, raw.length) :=
  parsePSP_of_spec (img.drop p) raw (by rw [Img.drop_window, Nat.add_zero]; exact h.2)
    (by simp only [Img.drop_len]; have := h.1; omega) hs

theorem parseBIOS_holds (img : Img) (p : Nat) (raw : Bytes) (h : img.Holds p raw) (hs : Spec.IsBIOSTable raw) :
    parseBIOS (img.drop p) = .ok (Spec.biosTable raw, raw.length) :=
  parseBIOS_of_spec (img.drop p) raw (by rw [Img.drop_window, Nat.add_zero]; exact h.2)
    (by simp only [Img.drop_len]; have := h.1; omega) hs

/-- the first four bytes of a table are its cookie, little endian -/
theorem cookie_window (img : Img) (p : Nat) (raw : Bytes) (c : Nat) (h : img.Holds p raw) (h4 : 4 ≤ raw.length)
    (hc : Spec.bits raw 0 32 = c) : img.window p 4 = leN 4 c := by
  have h1 : img.window p 4 = slice raw 0 4 := by
    rw [← h.2, Img.slice_window _ _ _ 0 4 (by omega), Nat.add_zero]
  have h2 : fromLE (slice raw 0 4) = c := by
    rw [fromLE_slice, ← hc]; rfl
  have hl : (slice raw 0 4).length = 4 := slice_length raw 0 4 (by omega)
  rw [h1, ← h2]
  exact (leN_fromLE' _ 4 hl).symm

theorem pspViaPtr_noPtr (img : Img) (efs : EFS) (hs : img.len < 2 ^ 32) (h : NoPtr img efs.pspPtr) :
    pspViaPtr img efs = none := by
  unfold pspViaPtr
  rw [if_neg]
  rw [Nat.mod_eq_of_lt hs]
  rcases h with h | h <;> omega

theorem psp1_wf (lay : Layout) (img : Img) (wf : lay.WF img) :
    pspLevel1 img (lay.efs img) = lay.psp1.map (fun x => (Spec.pspTable x.2, ⟨x.1, x.2.length⟩)) := by
  have hok := wf.psp1
  unfold Layout.PSP1OK at hok
  unfold pspLevel1
  cases hl : lay.psp1 with
  | none =>
    rw [hl] at hok
    simp only at hok
    rw [pspViaPtr_noPtr img _ wf.small hok.1]
    simp only [Option.map_none]
    exact scanPSP_none img _ hok.2
  | some x =>
    obtain ⟨p, raw⟩ := x
    rw [hl] at hok
    simp only at hok
    obtain ⟨hh, hs, hvia⟩ := hok
    have h16 : 16 ≤ raw.length := by have := hs.2; omega
    have hparse := parsePSP_holds img p raw hh hs
    rcases hvia with ⟨hp, hp0⟩ | ⟨hnp, hck, hfirst⟩
    · have : pspViaPtr img (lay.efs img) = some (Spec.pspTable raw, ⟨p, raw.length⟩) := by
        unfold pspViaPtr
        rw [hp, if_pos ⟨hp0, by rw [Nat.mod_eq_of_lt wf.small]; have := hh.1; omega⟩, hparse]
      rw [this]; rfl
    · rw [pspViaPtr_noPtr img _ wf.small hnp]
      simp only [Option.map_some]
      exact scanPSP_first img img.len p _ _ (by have := hh.1; omega)
        (cookie_window img p raw _ hh (by omega) hck) hfirst hparse

theorem psp2_wf (lay : Layout) (img : Img) (wf : lay.WF img) :
    pspLevel2Of img (lay.psp1.map (fun x => (Spec.pspTable x.2, (⟨x.1, x.2.length⟩ : Range)))) = lay.psp2.map (fun x => (Spec.pspTable x.2, ⟨x.1, x.2.length⟩)) := by
  have hok := wf.psp2
  unfold Layout.PSP2OK at hok
  cases h1 : lay.psp1 with
  | none =>
    cases h2 : lay.psp2 with
    | none => rfl
    | some y => rw [h1, h2] at hok; exact absurd hok id
  | some x =>
    obtain ⟨p, raw1⟩ := x
    simp only [Option.map_some, pspLevel2Of]
    unfold pspLevel2
    cases h2 : lay.psp2 with
    | none =>
      rw [h1, h2] at hok
      simp only at hok
      simp only [Option.map_none]
      split
      · rfl
      · rename_i e he
        have := hok e he
        rw [if_neg]
        rcases this with h | h <;> omega
    | some y =>
      obtain ⟨q, raw2⟩ := y
      rw [h1, h2] at hok
      simp only at hok
      obtain ⟨⟨e, he, hq⟩, hq0, hh, hs⟩ := hok
      have h16 : 16 ≤ raw2.length := by have := hs.2; omega
      simp only [he, Option.map_some]
      rw [hq, if_pos ⟨hq0, by have := hh.1; omega⟩, parsePSP_holds img q raw2 hh hs]

/-- slots that designate nothing are passed over (a slot equal to the image length is tried on an
    empty slice and fails) -/
theorem biosViaPtrs_skip (img : Img) (pre rest : List Nat) (h : ∀ o ∈ pre, NoPtr img o) :
    biosViaPtrs img (pre ++ rest) = biosViaPtrs img rest := by
  induction pre with
  | nil => rfl
  | cons o pre ih =>
    rw [List.cons_append, biosViaPtrs]
    have ho := h o (by simp)
    have ih' := ih (fun x hx => h x (by simp [hx]))
    split
    · exact ih'
    · rename_i hc
      have hlen : o = img.len := by rcases ho with h | h <;> omega
      have : parseBIOS (img.drop o) = .error .eof := by
        unfold parseBIOS
        rw [if_pos (by simp only [Img.drop_len]; omega)]
      rw [this]
      exact ih'

theorem bios1_wf (lay : Layout) (img : Img) (wf : lay.WF img) :
    biosLevel1 img (lay.efs img) = lay.bios1.map (fun x => (Spec.biosTable x.2, ⟨x.1, x.2.length⟩)) := by
  have hok := wf.bios1
  unfold Layout.BIOS1OK at hok
  unfold biosLevel1
  have hslots : [(lay.efs img).bios0, (lay.efs img).bios1, (lay.efs img).bios2, (lay.efs img).bios3] =
      lay.biosSlots img := rfl
  rw [hslots]
  cases hl : lay.bios1 with
  | none =>
    rw [hl] at hok
    simp only at hok
    have := biosViaPtrs_skip img (lay.biosSlots img) [] hok.1
    rw [List.append_nil] at this
    rw [this]
    simp only [biosViaPtrs, Option.map_none]
    exact scanBIOS_none img _ hok.2
  | some x =>
    obtain ⟨p, raw⟩ := x
    rw [hl] at hok
    simp only at hok
    obtain ⟨hh, hs, hvia⟩ := hok
    have h16 : 16 ≤ raw.length := by have := hs.2; omega
    have hparse := parseBIOS_holds img p raw hh hs
    rcases hvia with ⟨pre, post, hsl, hp0, hpre⟩ | ⟨hnp, hck, hfirst⟩
    · rw [hsl, biosViaPtrs_skip img pre _ hpre, biosViaPtrs]
      rw [if_neg (by have := hh.1; omega), hparse]
      rfl
    · have := biosViaPtrs_skip img (lay.biosSlots img) [] hnp
      rw [List.append_nil] at this
      rw [this]
      simp only [biosViaPtrs, Option.map_some]
      exact scanBIOS_first img img.len p _ _ (by have := hh.1; omega)
        (cookie_window img p raw _ hh (by omega) hck) hfirst hparse

theorem bios2_wf (lay : Layout) (img : Img) (wf : lay.WF img) :
    biosLevel2Of img (lay.bios1.map (fun x => (Spec.biosTable x.2, (⟨x.1, x.2.length⟩ : Range)))) = lay.bios2.map (fun x => (Spec.biosTable x.2, ⟨x.1, x.2.length⟩)) := by
  have hok := wf.bios2
  unfold Layout.BIOS2OK at hok
  cases h1 : lay.bios1 with
  | none =>
    cases h2 : lay.bios2 with
    | none => rfl
    | some y => rw [h1, h2] at hok; exact absurd hok id
  | some x =>
    obtain ⟨p, raw1⟩ := x
    simp only [Option.map_some, biosLevel2Of]
    unfold biosLevel2
    cases h2 : lay.bios2 with
    | none =>
      rw [h1, h2] at hok
      simp only at hok
      simp only [Option.map_none]
      split
      · rfl
      · rename_i e he
        have := hok e he
        rw [if_neg]
        rcases this with h | h <;> omega
    | some y =>
      obtain ⟨q, raw2⟩ := y
      rw [h1, h2] at hok
      simp only at hok
      obtain ⟨⟨e, he, hq⟩, hq0, hh, hs⟩ := hok
      have h16 : 16 ≤ raw2.length := by have := hs.2; omega
      simp only [he, Option.map_some]
      rw [hq, if_pos ⟨hq0, by have := hh.1; omega⟩, parseBIOS_holds img q raw2 hh hs]

/-- **find_wf** -/
theorem discover_wf (lay : Layout) (img : Img) (wf : lay.WF img) : discover img = .ok (lay.expected img) := by
  unfold discover
  rw [findEFS_wf lay img wf]
  simp only
  rw [psp1_wf lay img wf, bios1_wf lay img wf, psp2_wf lay img wf, bios2_wf lay img wf]
  rfl

end Fiano.Amd
