/-
  Discovery (parsePSPFirmware): every table it reports was parsed at the reported offset
  (pointer path, cookie scan, level 2), the scan visits cookie occurrences in order, and the
  decoded fields are within the ranges of their Go types.
-/
import FianoModel.Amd.ParseLemmas
import FianoModel.Amd.DecodeLemmas

namespace Fiano.Amd

/-! ### cookie search -/

theorem matchAt_iff (img : Img) : ∀ (c : Bytes) (p : Nat), matchAt img c p = true ↔ img.window p c.length = c
  | [], p => by simp [matchAt, Img.window_zero]
  | x :: xs, p => by
    simp only [matchAt, Bool.and_eq_true, beq_iff_eq, List.length_cons, Img.window_succ, List.cons.injEq,
      matchAt_iff img xs (p + 1)]

theorem matchAt_four (img : Img) (c : Bytes) (p : Nat) (hc : c.length = 4) :
    matchAt img c p = true ↔ img.window p 4 = c := by rw [matchAt_iff, hc]

theorem matchAt_four_false (img : Img) (c : Bytes) (p : Nat) (hc : c.length = 4) (h : img.window p 4 ≠ c) :
    matchAt img c p = false := by
  cases hm : matchAt img c p with
  | false => rfl
  | true => exact absurd ((matchAt_four img c p hc).1 hm) h

/-- what `indexFrom` returns is the first occurrence at or after `p` -/
theorem indexFrom_some (img : Img) (c : Bytes) : ∀ (fuel p q : Nat), indexFrom img c fuel p = some q →
    p ≤ q ∧ q + 4 ≤ img.len ∧ matchAt img c q = true ∧ ∀ r, p ≤ r → r < q → matchAt img c r = false
  | 0, p, q, h => by simp [indexFrom] at h
  | fuel+1, p, q, h => by
    unfold indexFrom at h
    split at h
    · cases h
    · rename_i hlen
      split at h
      · rename_i hm
        injection h with h; subst h
        exact ⟨Nat.le_refl _, by omega, hm, fun r h1 h2 => by omega⟩
      · rename_i hm
        obtain ⟨h1, h2, h3, h4⟩ := indexFrom_some img c fuel (p + 1) q h
        refine ⟨by omega, h2, h3, fun r hr1 hr2 => ?_⟩
        by_cases hrp : r = p
        · subst hrp; simpa using hm
        · exact h4 r (by omega) hr2

/-- the first occurrence is found when the fuel covers the distance -/
theorem indexFrom_first (img : Img) (c : Bytes) : ∀ (fuel p q : Nat), p ≤ q → q - p < fuel → q + 4 ≤ img.len →
    matchAt img c q = true → (∀ r, p ≤ r → r < q → matchAt img c r = false) →
    indexFrom img c fuel p = some q
  | 0, p, q, _, hf, _, _, _ => by omega
  | fuel+1, p, q, hpq, hf, hlen, hm, hno => by
    unfold indexFrom
    rw [if_neg (by omega)]
    by_cases hqp : q = p
    · subst hqp; rw [if_pos hm]
    · have := hno p (Nat.le_refl _) (by omega)
      rw [if_neg (by simp [this])]
      exact indexFrom_first img c fuel (p + 1) q (by omega) (by omega) hlen hm
        (fun r h1 h2 => hno r (by omega) h2)

theorem indexFrom_none (img : Img) (c : Bytes) : ∀ (fuel p : Nat), img.len + 1 - p ≤ fuel →
    (∀ r, p ≤ r → r + 4 ≤ img.len → matchAt img c r = false) → indexFrom img c fuel p = none
  | 0, p, hf, _ => by simp [indexFrom]
  | fuel+1, p, hf, hno => by
    unfold indexFrom
    by_cases hlen : p + 4 > img.len
    · rw [if_pos hlen]
    · rw [if_neg hlen, if_neg (by simp [hno p (Nat.le_refl _) (by omega)])]
      exact indexFrom_none img c fuel (p + 1) (by omega) (fun r h1 h2 => hno r (by omega) h2)

/-! ### the scan loops -/

theorem scanPSP_some (img : Img) : ∀ (fuel cur : Nat) (t : PSPTable) (r : Range),
    scanPSP img fuel cur = some (t, r) →
    parsePSP (img.drop r.off) = .ok (t, r.len) ∧ cur ≤ r.off ∧ r.off + 4 ≤ img.len
  | 0, _, _, _, h => by simp [scanPSP] at h
  | fuel+1, cur, t, r, h => by
    unfold scanPSP at h
    split at h
    · cases h
    · rename_i p hp
      obtain ⟨h1, h2, _, _⟩ := indexFrom_some _ _ _ _ _ hp
      split at h
      · rename_i t' n hparse
        injection h with h; injection h with e1 e2
        subst e1; subst e2
        exact ⟨hparse, h1, h2⟩
      · obtain ⟨a, b, c⟩ := scanPSP_some img fuel (p + 4) t r h
        exact ⟨a, by omega, c⟩

theorem scanBIOS_some (img : Img) : ∀ (fuel cur : Nat) (t : BIOSTable) (r : Range),
    scanBIOS img fuel cur = some (t, r) →
    parseBIOS (img.drop r.off) = .ok (t, r.len) ∧ cur ≤ r.off ∧ r.off + 4 ≤ img.len
  | 0, _, _, _, h => by simp [scanBIOS] at h
  | fuel+1, cur, t, r, h => by
    unfold scanBIOS at h
    split at h
    · cases h
    · rename_i p hp
      obtain ⟨h1, h2, _, _⟩ := indexFrom_some _ _ _ _ _ hp
      split at h
      · rename_i t' n hparse
        injection h with h; injection h with e1 e2
        subst e1; subst e2
        exact ⟨hparse, h1, h2⟩
      · obtain ⟨a, b, c⟩ := scanBIOS_some img fuel (p + 4) t r h
        exact ⟨a, by omega, c⟩

/-- when the first occurrence of the level-1 cookie is a complete table, the scan returns it -/
theorem scanPSP_first (img : Img) (fuel p : Nat) (t : PSPTable) (n : Nat) (hp : p + 4 ≤ img.len)
    (hm : img.window p 4 = leN 4 pspCookie)
    (hno : ∀ r, r < p → img.window r 4 ≠ leN 4 pspCookie)
    (hparse : parsePSP (img.drop p) = .ok (t, n)) :
    scanPSP img (fuel + 1) 0 = some (t, ⟨p, n⟩) := by
  unfold scanPSP
  have hl : (leN 4 pspCookie).length = 4 := by simp
  rw [indexFrom_first img _ (img.len + 1) 0 p (by omega) (by omega) hp
    ((matchAt_four _ _ _ hl).2 hm)
    (fun r _ hr => matchAt_four_false _ _ _ hl (hno r hr))]
  simp only [hparse]

theorem scanBIOS_first (img : Img) (fuel p : Nat) (t : BIOSTable) (n : Nat) (hp : p + 4 ≤ img.len)
    (hm : img.window p 4 = leN 4 biosCookie)
    (hno : ∀ r, r < p → img.window r 4 ≠ leN 4 biosCookie)
    (hparse : parseBIOS (img.drop p) = .ok (t, n)) :
    scanBIOS img (fuel + 1) 0 = some (t, ⟨p, n⟩) := by
  unfold scanBIOS
  have hl : (leN 4 biosCookie).length = 4 := by simp
  rw [indexFrom_first img _ (img.len + 1) 0 p (by omega) (by omega) hp
    ((matchAt_four _ _ _ hl).2 hm)
    (fun r _ hr => matchAt_four_false _ _ _ hl (hno r hr))]
  simp only [hparse]

/-- no occurrence of the cookie at all: the scan finds nothing -/
theorem scanPSP_none (img : Img) (fuel : Nat) (hno : ∀ r, r + 4 ≤ img.len → img.window r 4 ≠ leN 4 pspCookie) :
    scanPSP img fuel 0 = none := by
  cases fuel with
  | zero => rfl
  | succ fuel =>
    unfold scanPSP
    have hl : (leN 4 pspCookie).length = 4 := by simp
    rw [indexFrom_none img _ (img.len + 1) 0 (by omega) (fun r _ hr => matchAt_four_false _ _ _ hl (hno r hr))]

theorem scanBIOS_none (img : Img) (fuel : Nat) (hno : ∀ r, r + 4 ≤ img.len → img.window r 4 ≠ leN 4 biosCookie) :
    scanBIOS img fuel 0 = none := by
  cases fuel with
  | zero => rfl
  | succ fuel =>
    unfold scanBIOS
    have hl : (leN 4 biosCookie).length = 4 := by simp
    rw [indexFrom_none img _ (img.len + 1) 0 (by omega) (fun r _ hr => matchAt_four_false _ _ _ hl (hno r hr))]

/-! ### every reported table was parsed at the reported offset -/

theorem pspViaPtr_some (img : Img) (efs : EFS) (t : PSPTable) (r : Range) (h : pspViaPtr img efs = some (t, r)) :
    parsePSP (img.drop r.off) = .ok (t, r.len) ∧ r.off = efs.pspPtr := by
  unfold pspViaPtr at h
  split at h
  · split at h
    · rename_i t' n hp
      injection h with h; injection h with e1 e2
      subst e1; subst e2
      exact ⟨hp, rfl⟩
    · cases h
  · cases h

theorem pspLevel1_some (img : Img) (efs : EFS) (t : PSPTable) (r : Range) (h : pspLevel1 img efs = some (t, r)) :
    parsePSP (img.drop r.off) = .ok (t, r.len) := by
  unfold pspLevel1 at h
  split at h
  · rename_i r' hv
    injection h with h; subst h
    exact (pspViaPtr_some img efs t r hv).1
  · exact (scanPSP_some img _ _ t r h).1

theorem pspLevel2_some (img : Img) (t1 t : PSPTable) (r : Range) (h : pspLevel2 img t1 = some (t, r)) :
    parsePSP (img.drop r.off) = .ok (t, r.len) := by
  unfold pspLevel2 at h
  split at h
  · cases h
  · split at h
    · split at h
      · rename_i t' n hp
        injection h with h; injection h with e1 e2
        subst e1; subst e2
        exact hp
      · cases h
    · cases h

theorem biosViaPtrs_some (img : Img) : ∀ (os : List Nat) (t : BIOSTable) (r : Range),
    biosViaPtrs img os = some (t, r) → parseBIOS (img.drop r.off) = .ok (t, r.len) ∧ r.off ∈ os
  | [], _, _, h => by simp [biosViaPtrs] at h
  | o :: rest, t, r, h => by
    unfold biosViaPtrs at h
    split at h
    · obtain ⟨a, b⟩ := biosViaPtrs_some img rest t r h
      exact ⟨a, by simp [b]⟩
    · split at h
      · rename_i t' n hp
        injection h with h; injection h with e1 e2
        subst e1; subst e2
        exact ⟨hp, by simp⟩
      · obtain ⟨a, b⟩ := biosViaPtrs_some img rest t r h
        exact ⟨a, by simp [b]⟩

theorem biosLevel1_some (img : Img) (efs : EFS) (t : BIOSTable) (r : Range) (h : biosLevel1 img efs = some (t, r)) :
    parseBIOS (img.drop r.off) = .ok (t, r.len) := by
  unfold biosLevel1 at h
  split at h
  · rename_i r' hv
    injection h with h; subst h
    exact (biosViaPtrs_some img _ t r hv).1
  · exact (scanBIOS_some img _ _ t r h).1

theorem biosLevel2_some (img : Img) (t1 t : BIOSTable) (r : Range) (h : biosLevel2 img t1 = some (t, r)) :
    parseBIOS (img.drop r.off) = .ok (t, r.len) := by
  unfold biosLevel2 at h
  split at h
  · cases h
  · split at h
    · split at h
      · rename_i t' n hp
        injection h with h; injection h with e1 e2
        subst e1; subst e2
        exact hp
      · cases h
    · cases h

/-- inversion of `discover` -/
theorem discover_inv (img : Img) (fw : PSPFirmware) (h : discover img = .ok fw) :
    findEFS img = .ok (fw.efs, fw.efsRange) ∧
    fw.psp1 = pspLevel1 img fw.efs ∧
    fw.psp2 = pspLevel2Of img fw.psp1 ∧
    fw.bios1 = biosLevel1 img fw.efs ∧
    fw.bios2 = biosLevel2Of img fw.bios1 := by
  unfold discover at h
  split at h
  · cases h
  · rename_i efs r he
    injection h with h
    subst h
    exact ⟨he, rfl, rfl, rfl, rfl⟩

theorem discover_psp1 (img : Img) (fw : PSPFirmware) (h : discover img = .ok fw) (t : PSPTable) (r : Range)
    (ht : fw.psp1 = some (t, r)) : parsePSP (img.drop r.off) = .ok (t, r.len) := by
  obtain ⟨_, h1, _, _, _⟩ := discover_inv img fw h
  exact pspLevel1_some img fw.efs t r (by rw [← h1, ht])

theorem discover_psp2 (img : Img) (fw : PSPFirmware) (h : discover img = .ok fw) (t : PSPTable) (r : Range)
    (ht : fw.psp2 = some (t, r)) : parsePSP (img.drop r.off) = .ok (t, r.len) := by
  obtain ⟨_, _, h2, _, _⟩ := discover_inv img fw h
  rw [ht] at h2
  unfold pspLevel2Of at h2
  split at h2
  · cases h2
  · exact pspLevel2_some img _ t r h2.symm

theorem discover_bios1 (img : Img) (fw : PSPFirmware) (h : discover img = .ok fw) (t : BIOSTable) (r : Range)
    (ht : fw.bios1 = some (t, r)) : parseBIOS (img.drop r.off) = .ok (t, r.len) := by
  obtain ⟨_, _, _, h3, _⟩ := discover_inv img fw h
  exact biosLevel1_some img fw.efs t r (by rw [← h3, ht])

theorem discover_bios2 (img : Img) (fw : PSPFirmware) (h : discover img = .ok fw) (t : BIOSTable) (r : Range)
    (ht : fw.bios2 = some (t, r)) : parseBIOS (img.drop r.off) = .ok (t, r.len) := by
  obtain ⟨_, _, _, _, h4⟩ := discover_inv img fw h
  rw [ht] at h4
  unfold biosLevel2Of at h4
  split at h4
  · cases h4
  · exact biosLevel2_some img _ t r h4.symm

/-! ### decoded fields are within the ranges of their Go types -/

theorem pspEntry_wt (r : Bytes) : (decodePSPEntry r).loc < 2 ^ 64 ∧ (decodePSPEntry r).size < 2 ^ 32 := by
  unfold decodePSPEntry
  simp only [fromLE_slice]
  constructor
  · exact Nat.mod_lt _ (by decide)
  · exact Nat.mod_lt _ (by decide)

theorem biosEntry_wt (r : Bytes) : (decodeBIOSEntry r).src < 2 ^ 64 ∧ (decodeBIOSEntry r).size < 2 ^ 32 := by
  unfold decodeBIOSEntry
  simp only [fromLE_slice]
  constructor
  · exact Nat.mod_lt _ (by decide)
  · exact Nat.mod_lt _ (by decide)

theorem pspEntriesAt_wt (d : Img) : ∀ (n off : Nat), ∀ e ∈ pspEntriesAt d off n, e.loc < 2 ^ 64 ∧ e.size < 2 ^ 32
  | 0, _, e, h => by simp [pspEntriesAt] at h
  | n+1, off, e, h => by
    simp only [pspEntriesAt, List.mem_cons] at h
    rcases h with h | h
    · subst h; exact pspEntry_wt _
    · exact pspEntriesAt_wt d n _ e h

theorem biosEntriesAt_wt (d : Img) : ∀ (n off : Nat), ∀ e ∈ biosEntriesAt d off n, e.src < 2 ^ 64 ∧ e.size < 2 ^ 32
  | 0, _, e, h => by simp [biosEntriesAt] at h
  | n+1, off, e, h => by
    simp only [biosEntriesAt, List.mem_cons] at h
    rcases h with h | h
    · subst h; exact biosEntry_wt _
    · exact biosEntriesAt_wt d n _ e h

theorem parsePSP_wt (d : Img) (t : PSPTable) (n : Nat) (h : parsePSP d = .ok (t, n)) :
    ∀ e ∈ t.entries, e.loc < 2 ^ 64 ∧ e.size < 2 ^ 32 := by
  obtain ⟨_, rfl, _⟩ := (parsePSP_iff d t n).1 h
  exact pspEntriesAt_wt d _ _

theorem parseBIOS_wt (d : Img) (t : BIOSTable) (n : Nat) (h : parseBIOS d = .ok (t, n)) :
    ∀ e ∈ t.entries, e.src < 2 ^ 64 ∧ e.size < 2 ^ 32 := by
  obtain ⟨_, rfl, _⟩ := (parseBIOS_iff d t n).1 h
  exact biosEntriesAt_wt d _ _

end Fiano.Amd
