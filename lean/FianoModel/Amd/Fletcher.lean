/-
  Model of pkg/amd/manifest/checksum.go (`fletcherCRC32`, CalculatePSPDirectoryCheckSum,
  CalculateBiosDirectoryCheckSum) transcribed as coded, and the mathematical Fletcher-32 it is
  compared with (`Spec`).  uint32 additions wrap (`% 2^32`), uint16 additions wrap (`% 2^16`).

  The Go cursor `i` into `data` is modelled by the remaining slice `data[i:]`
  (`i < len(data)` ⇔ the rest is not empty); an index past the end is a run-time panic (`none`).
-/
import FianoModel.Base.Bytes

namespace Fiano.Amd

def blockBytes : Nat := 360 * 2

/-- the inner `for { … }` of fletcherCRC32: it is entered with `blockLen` even and positive and
    leaves when `blockLen` reaches 0, i.e. it makes `k = blockLen/2` iterations.
    Returns the remaining data and the two running sums. -/
def fletcherInner : Nat → Bytes → Nat → Nat → Option (Bytes × Nat × Nat)
  | 0, rest, c0, c1 => some (rest, c0, c1)
  | _+1, [], _, _ => none                                  -- data[i] with i = len(data): panic
  | k+1, [a], c0, c1 =>                                    -- last byte of an odd-length input
    let val := a.toNat                                     -- `i < len(data)` is false: no high byte
    let c0' := (c0 + val) % 2 ^ 32
    let c1' := (c1 + c0') % 2 ^ 32
    fletcherInner k [] c0' c1'
  | k+1, a :: b :: rest, c0, c1 =>
    let val := (a.toNat + (b.toNat * 256) % 2 ^ 16) % 2 ^ 16   -- uint16(a) + uint16(b)<<8
    let c0' := (c0 + val) % 2 ^ 32
    let c1' := (c1 + c0') % 2 ^ 32
    fletcherInner k rest c0' c1'

/-- the outer `for l > 0` loop; `l` = bytes still to process, rounded up to even.
    `fuel` bounds the number of blocks (`l` itself is always enough: each block takes ≥ 2). -/
def fletcherOuter : Nat → Nat → Bytes → Nat → Nat → Option (Nat × Nat)
  | 0, l, _, c0, c1 => if l = 0 then some (c0, c1) else none     -- fuel exhausted: never (Lemmas)
  | fuel+1, l, rest, c0, c1 =>
    if l = 0 then some (c0, c1)
    else
      let blockLen := if l > blockBytes then blockBytes else l
      match fletcherInner (blockLen / 2) rest c0 c1 with
      | none => none
      | some (rest', a, b) => fletcherOuter fuel (l - blockLen) rest' (a % 65535) (b % 65535)

/-- `fletcherCRC32(data)`; `none` = the Go function would panic (it never does: `fletcher_total`) -/
def fletcherCRC32 (data : Bytes) : Option Nat :=
  let l := (data.length + 1) / 2 * 2          -- (len(data) + 1) & ^1
  match fletcherOuter l l data 0 0 with
  | none => none
  | some (c0, c1) => some (((c1 * 2 ^ 16) % 2 ^ 32) ||| c0)      -- c1<<16 | c0 in uint32

def checksumDataOffset : Nat := 8

/-- `CalculatePSPDirectoryCheckSum(raw)` = `CalculateBiosDirectoryCheckSum(raw)`:
    `raw[8:]` panics when the table has fewer than 8 bytes -/
def calcDirectoryChecksum (raw : Bytes) : Option Nat :=
  if raw.length < checksumDataOffset then none else fletcherCRC32 (raw.drop checksumDataOffset)

/-! ### specification: mathematical Fletcher-32 -/
namespace Spec

/-- the input as little-endian 16-bit words, the last one zero-padded -/
def words : Bytes → List Nat
  | [] => []
  | [a] => [a.toNat]
  | a :: b :: rest => (a.toNat + 256 * b.toNat) :: words rest

/-- the two plain sums over ℕ: `s1 = Σ wᵢ`, `s2 = Σₖ Σ_{i≤k} wᵢ` (no reduction, no wrap) -/
def sums (ws : List Nat) (init : Nat × Nat := (0, 0)) : Nat × Nat :=
  ws.foldl (fun (s : Nat × Nat) w => (s.1 + w, s.2 + (s.1 + w))) init

/-- Fletcher-32: both sums modulo 65535, the second in the high half -/
def fletcher32 (data : Bytes) : Nat :=
  let s := sums (words data)
  (s.2 % 65535) * 65536 + s.1 % 65535

end Spec

end Fiano.Amd
