import FianoModel.Amd.MoreLemmas
namespace Fiano.Amd

/-!
  A concrete well-formed image and a concrete key, used by the non-vacuity examples of
  Props/C17.lean (the hypotheses of the theorems are inhabited by non-trivial values).
-/

def sampleEFS : Bytes :=
  [0xaa, 0x55, 0xaa, 0x55] ++ List.replicate 16 0 ++ [0x50, 0x01, 0, 0] ++ [0x90, 0x01, 0, 0] ++
  List.replicate 16 0 ++ List.replicate 30 0

def samplePSP1 : Bytes :=
  [0x24, 0x50, 0x53, 0x50, 0, 0, 0, 0, 2, 0, 0, 0, 0, 0, 0, 0,
   0x40, 0, 0, 0, 0x10, 0, 0, 0, 0x80, 0x01, 0, 0, 0, 0, 0, 0,
   0x01, 2, 0, 0xC0, 4, 0, 0, 0, 0xB0, 0x01, 0, 0, 0, 0, 0, 0]

def samplePSP2 : Bytes := [0x24, 0x50, 0x4C, 0x32, 0, 0, 0, 0, 0, 0, 0, 0, 0, 0, 0, 0]
def sampleBIOS1 : Bytes := [0x24, 0x42, 0x48, 0x44, 0, 0, 0, 0, 0, 0, 0, 0, 0, 0, 0, 0]

/-- bytes 0x100 … 0x1B3 of the sample image; everything else is 0xFF -/
def sampleChunk : Bytes :=
  sampleEFS ++ List.replicate 6 0xFF ++ samplePSP1 ++ samplePSP2 ++ sampleBIOS1 ++ List.replicate 16 0xFF ++
  [0xDE, 0xAD, 0xBE, 0xEF]

/-- a 0x60100-byte image: EFS at the first anchor (offset 0x100), PSP level 1 at 0x150 (by pointer)
    with a level-2 entry pointing to 0x180 and a second entry pointing to 4 payload bytes at 0x1B0,
    BIOS level 1 at 0x190 (first EFS slot) -/
def sampleImg : Img := ⟨0x60100, fun i => if 0x100 ≤ i then sampleChunk.getD (i - 0x100) 0xFF else 0xFF⟩

def sampleLayout : Layout :=
  { anchor := 0xfffa0000, psp1 := some (0x150, samplePSP1), psp2 := some (0x180, samplePSP2),
    bios1 := some (0x190, sampleBIOS1), bios2 := none }

theorem sample_off : sampleLayout.efsOff sampleImg = 0x100 := by decide

set_option maxRecDepth 10000 in
theorem sample_efs_window : sampleImg.window 0x100 efsSize = sampleEFS := by decide

theorem sample_efs : sampleLayout.efs sampleImg = Spec.efs sampleEFS := by
  unfold Layout.efs
  rw [sample_off, sample_efs_window]

set_option exponentiation.threshold 512 in
set_option maxRecDepth 10000 in
theorem sample_efs_fields : (Spec.efs sampleEFS).pspPtr = 0x150 ∧ (Spec.efs sampleEFS).bios0 = 0x190 ∧
    (Spec.efs sampleEFS).bios1 = 0 ∧ (Spec.efs sampleEFS).bios2 = 0 ∧ (Spec.efs sampleEFS).bios3 = 0 := by decide

set_option exponentiation.threshold 512 in
set_option maxRecDepth 10000 in
theorem sample_wf : sampleLayout.WF sampleImg where
  small := by decide
  anchor := ⟨[], [0xfff20000, 0xffe20000, 0xffc20000, 0xff820000, 0xff020000], rfl, fun a h => by simp at h⟩
  sig := by
    unfold SigAt
    have : physAddrToOffset sampleImg.len sampleLayout.anchor = 0x100 := by decide
    rw [this]
    decide
  efsFit := by rw [sample_off]; decide
  psp1 := by
    unfold Layout.PSP1OK
    simp only [show sampleLayout.psp1 = some (0x150, samplePSP1) from rfl]
    refine ⟨⟨by decide, by decide⟩, ⟨by decide, by decide⟩, Or.inl ⟨?_, by decide⟩⟩
    rw [sample_efs]
    exact sample_efs_fields.1
  psp2 := by
    unfold Layout.PSP2OK
    simp only [show sampleLayout.psp1 = some (0x150, samplePSP1) from rfl,
      show sampleLayout.psp2 = some (0x180, samplePSP2) from rfl]
    exact ⟨⟨⟨0x40, 0, 0, 0x10, 0x180⟩, by decide, by decide⟩, by decide, ⟨by decide, by decide⟩, ⟨by decide, by decide⟩⟩
  bios1 := by
    unfold Layout.BIOS1OK
    simp only [show sampleLayout.bios1 = some (0x190, sampleBIOS1) from rfl]
    refine ⟨⟨by decide, by decide⟩, ⟨by decide, by decide⟩, Or.inl ⟨[], [0, 0, 0], ?_, by decide, fun o h => by simp at h⟩⟩
    unfold Layout.biosSlots
    rw [sample_efs, sample_efs_fields.2.1, sample_efs_fields.2.2.1, sample_efs_fields.2.2.2.1, sample_efs_fields.2.2.2.2]
    rfl
  bios2 := by
    unfold Layout.BIOS2OK
    simp only [show sampleLayout.bios1 = some (0x190, sampleBIOS1) from rfl,
      show sampleLayout.bios2 = none from rfl]
    intro e h
    have : (Spec.biosTable sampleBIOS1).entries = [] := by decide
    rw [this] at h
    simp at h

/-- a self-certifying key token: usage PSBSignBIOS (8), reserved = 8D A5 00 07 …, no exponent / modulus -/
def sampleKey : Bytes :=
  [1, 0, 0, 0] ++ List.replicate 16 0x11 ++ List.replicate 16 0x11 ++ [8, 0, 0, 0] ++
  ([0x8D, 0xA5, 0x00, 0x07] ++ List.replicate 12 0) ++ [0, 0, 0, 0] ++ [0, 0, 0, 0]

end Fiano.Amd
