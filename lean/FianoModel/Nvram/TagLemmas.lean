/-
  Compaction and the bytes of nested stores.  In `compactNVarStore` the entries travel with the
  (already compacted) buffer of their nested store; the two loops never look at it, only the final
  check-only Assemble writes it in place of the old content — and it only looks at its LENGTH.
  So compaction with nested bytes attached = compaction without, followed by a substitution of the
  contents.  These lemmas are about the model functions alone (no grammar).
-/
import FianoModel.Nvram.CompactMain

namespace Fiano.Nvram

/-- nested bytes attached to an entry as a function of its content (fiano: `v.NVarStore.Buf()` for
    the store found in the content at parse time) -/
def liftF (fc : Bytes → Option Bytes) (v : NVar) : Option Bytes :=
  if v.hasContent && !hasBit v.attrs aExtHdr then fc (content v) else none

def retag (F : NVar → Option Bytes) (ps : List (NVar × Option Bytes)) : List (NVar × Option Bytes) :=
  ps.map (fun p => (p.1, F p.1))

/-- the content of an entry replaced by the nested bytes -/
def substC (F : NVar → Option Bytes) (w : NVar) : NVar :=
  match F w with
  | some b => { w with buf := w.buf.take w.dataOffset ++ b }
  | none => w

theorem retag_append (F : NVar → Option Bytes) (a b : List (NVar × Option Bytes)) :
    retag F (a ++ b) = retag F a ++ retag F b := by simp [retag]

theorem retag_retag (F G : NVar → Option Bytes) (ps : List (NVar × Option Bytes)) :
    retag F (retag G ps) = retag F ps := by simp [retag]

theorem liftF_none : liftF (fun _ => none) = fun _ => none := by
  funext v; simp [liftF]

/-! ### first loop -/

theorem pass1_retag (F : NVar → Option Bytes) :
    ∀ (ps : List (NVar × Option Bytes)) (m : List (Nat × NVar)) (keep : List (NVar × Option Bytes)),
      pass1 (retag F ps) m (retag F keep) = ((pass1 ps m keep).1, retag F (pass1 ps m keep).2) := by
  intro ps
  induction ps with
  | nil => intro m keep; rfl
  | cons p ps ih =>
    intro m keep
    obtain ⟨v, nb⟩ := p
    have hc : retag F ((v, nb) :: ps) = (v, F v) :: retag F ps := rfl
    rw [hc]
    simp only [pass1]
    split
    · exact ih m keep
    · split
      · exact ih _ keep
      · have : retag F keep ++ [(v, F v)] = retag F (keep ++ [(v, nb)]) := by simp [retag]
        rw [this]
        exact ih _ _

/-! ### the two modes of `NVar.Assemble` -/

/-- the Next field `NVar.Assemble` writes -/
def nextOf (pol : Nat) (v : NVar) : Nat :=
  if v.nextOffset ≠ 0 then write3 (v.nextOffset - v.offset) else pol + 256 * pol + 65536 * pol

/-- the header bytes `NVar.Assemble` writes (with the old `Size`) -/
def hdrOf (pol : Nat) (v : NVar) : Bytes := sig ++ leN 2 v.size ++ leN 3 (nextOf pol v) ++ [UInt8.ofNat v.attrs]

theorem asmNVar_eq (pol : Nat) (v : NVar) (c : Bytes) (chk : Bool) :
    asmNVar pol v c chk =
      (if !v.type.isValid then .error .asm
       else if v.nextOffset ≠ 0 && !chk then .error .asm
       else match guidNamePart v with
         | none => .error .panic
         | some gn =>
           if chk then
             if v.dataOffset ≠ (hdrOf pol v ++ gn).length then .error .asm
             else if v.size ≠ ((hdrOf pol v ++ gn).length + c.length) % 65536 then .error .asm
             else .ok { v with next := nextOf pol v, buf := hdrOf pol v ++ gn ++ c }
           else if (hdrOf pol v ++ gn).length + c.length > 0xFFFF then .error .asm
           else .ok { v with next := nextOf pol v, dataOffset := (hdrOf pol v ++ gn).length,
                             size := (hdrOf pol v ++ gn).length + c.length, buf := hdrOf pol v ++ gn ++ c }) := rfl

theorem asmNVar_false_ok (pol : Nat) (v0 : NVar) (c : Bytes) (v : NVar) (h : asmNVar pol v0 c false = .ok v) :
    content v = c ∧ v.hasContent = v0.hasContent ∧ v.attrs = v0.attrs := by
  rw [asmNVar_eq] at h
  split at h
  · cases h
  · split at h
    · cases h
    · split at h
      · cases h
      · simp only [Bool.false_eq_true, if_false] at h
        split at h
        · cases h
        · injection h with h
          subst h
          refine ⟨?_, rfl, rfl⟩
          simp only [content]
          exact drop_append_len _ _ _ rfl

/-- the part of the check-only rebuild that does not depend on the content -/
def checkPre (pol : Nat) (v : NVar) : Except Err Bytes :=
  if !v.type.isValid then .error .asm
  else
    match guidNamePart v with
    | none => .error .panic
    | some gn => if v.dataOffset ≠ (hdrOf pol v ++ gn).length then .error .asm else .ok (hdrOf pol v ++ gn)

theorem asmNVar_true (pol : Nat) (v : NVar) (c : Bytes) :
    asmNVar pol v c true = (match checkPre pol v with
      | .error e => .error e
      | .ok pre =>
        if v.size ≠ (pre.length + c.length) % 65536 then .error .asm
        else .ok { v with next := nextOf pol v, buf := pre ++ c }) := by
  rw [asmNVar_eq]
  unfold checkPre
  simp only [Bool.not_true, Bool.and_false, Bool.false_eq_true, if_false, if_true]
  split
  · rfl
  · cases guidNamePart v with
    | none => rfl
    | some gn =>
      simp only
      split
      · rfl
      · rfl

theorem checkPre_ok (pol : Nat) (v : NVar) (pre : Bytes) (h : checkPre pol v = .ok pre) :
    v.dataOffset = pre.length := by
  unfold checkPre at h
  split at h
  · cases h
  · cases hg : guidNamePart v with
    | none => rw [hg] at h; cases h
    | some gn =>
      rw [hg] at h
      simp only at h
      split at h
      · cases h
      · rename_i hne
        injection h with h
        subst h
        simpa using hne

/-- the check-only rebuild with other content of the same length: same verdict, and the result
    differs in the content only -/
theorem asmNVar_true_len (pol : Nat) (v : NVar) (c c' : Bytes) (hlen : c'.length = c.length) :
    asmNVar pol v c' true = (match asmNVar pol v c true with
      | .error e => .error e
      | .ok w => .ok { w with buf := w.buf.take w.dataOffset ++ c' }) := by
  rw [asmNVar_true, asmNVar_true]
  cases hp : checkPre pol v with
  | error e => rfl
  | ok pre =>
    simp only [hlen]
    split
    · rfl
    · simp only
      rw [checkPre_ok pol v pre hp, take_append_len _ _ _ rfl]

theorem asmNVar_true_ok (pol : Nat) (v : NVar) (c : Bytes) (w : NVar) (h : asmNVar pol v c true = .ok w) :
    w.hasContent = v.hasContent ∧ content w = c ∧ w.attrs = v.attrs := by
  rw [asmNVar_true] at h
  cases hp : checkPre pol v with
  | error e => rw [hp] at h; cases h
  | ok pre =>
    rw [hp] at h
    simp only at h
    split at h
    · cases h
    · injection h with h
      subst h
      refine ⟨rfl, ?_, rfl⟩
      simp only [content, checkPre_ok pol v pre hp]
      exact drop_append_len _ _ _ rfl

/-! ### second loop -/

/-- the merged attributes carry the extended-header bit of the last link -/
theorem mergeAttrs_ext (h k : Nat) : hasBit (mergeAttrs h k) aExtHdr = hasBit k aExtHdr := by
  unfold hasBit mergeAttrs aExtHdr
  have : (h % 16 + 16 * (k / 16 % 2) + 32 * (h / 32 % 2) + 64 * (k / 64 % 2) + 128 * (h / 128 % 2)) / 16 % 2
      = k / 16 % 2 := by omega
  rw [this]

theorem pass2_retag (fc : Bytes → Option Bytes) (pol : Nat) (m : List (Nat × NVar)) :
    ∀ (ks : List (NVar × Option Bytes)) (off : Nat) (gs : List Bytes),
      pass2 pol m (retag (liftF fc) ks) off gs = (match pass2 pol m ks off gs with
        | .error e => .error e
        | .ok (vs, gs') => .ok (retag (liftF fc) vs, gs')) := by
  intro ks
  induction ks with
  | nil => intro off gs; rfl
  | cons p ks ih =>
    intro off gs
    obtain ⟨k, nb⟩ := p
    have hc : retag (liftF fc) ((k, nb) :: ks) = (k, liftF fc k) :: retag (liftF fc) ks := rfl
    rw [hc]
    simp only [pass2]
    cases hlk : lookupOff m k.offset with
    | none => rfl
    | some h =>
      simp only
      split
      · rfl
      · rename_i v heq
        rw [ih]
        obtain ⟨h1, h2, h3⟩ := asmNVar_false_ok _ _ _ _ heq
        have hF : liftF fc v = liftF fc k := by
          unfold liftF
          rw [h1, h2, h3, mergeAttrs_ext]
        cases pass2 pol m ks (off + v.buf.length) _ with
        | error e => rfl
        | ok r =>
          obtain ⟨vs, gs'⟩ := r
          simp only [retag, List.map_cons, hF]

/-! ### the final check -/

theorem finalCheck_retag (fc : Bytes → Option Bytes) (hfc : ∀ c b, fc c = some b → b.length = c.length)
    (pol : Nat) : ∀ (vs : List (NVar × Option Bytes)),
      finalCheck pol (retag (liftF fc) vs) = (match finalCheck pol (retag (fun _ => none) vs) with
        | .error e => .error e
        | .ok es => .ok (es.map (substC (liftF fc)))) := by
  intro vs
  induction vs with
  | nil => rfl
  | cons p vs ih =>
    obtain ⟨v, nb⟩ := p
    have hc1 : retag (liftF fc) ((v, nb) :: vs) = (v, liftF fc v) :: retag (liftF fc) vs := rfl
    have hc2 : retag (fun _ => none) ((v, nb) :: vs) = (v, none) :: retag (fun _ => none) vs := rfl
    rw [hc1, hc2]
    simp only [finalCheck]
    rw [ih]
    cases hF : liftF fc v with
    | none =>
      simp only
      cases hw : asmNVar pol v (content v) true with
      | error e => rfl
      | ok w =>
        simp only
        cases finalCheck pol (retag (fun _ => none) vs) with
        | error e => rfl
        | ok es =>
          simp only [List.map_cons]
          obtain ⟨h1, h2, h3⟩ := asmNVar_true_ok pol v (content v) w hw
          have : liftF fc w = none := by
            rw [← hF]; unfold liftF; rw [h1, h2, h3]
          simp [substC, this]
    | some b =>
      simp only
      have hb : b.length = (content v).length := by
        unfold liftF at hF
        split at hF
        · exact hfc _ _ hF
        · cases hF
      rw [asmNVar_true_len pol v (content v) b hb]
      cases hw : asmNVar pol v (content v) true with
      | error e => rfl
      | ok w =>
        simp only
        cases finalCheck pol (retag (fun _ => none) vs) with
        | error e => rfl
        | ok es =>
          simp only [List.map_cons]
          obtain ⟨h1, h2, h3⟩ := asmNVar_true_ok pol v (content v) w hw
          have : liftF fc w = some b := by
            rw [← hF]; unfold liftF; rw [h1, h2, h3]
          simp [substC, this]

/-! ### the whole of `compactNVarStore` -/

theorem compactCore_retag (fc : Bytes → Option Bytes) (hfc : ∀ c b, fc c = some b → b.length = c.length)
    (pol : Nat) (ps : List (NVar × Option Bytes)) (s : Store) :
    compactCore pol (retag (liftF fc) ps) s =
      (match pass2 pol (pass1 ps [] []).1 (pass1 ps [] []).2 0 [] with
       | .error e => .error e
       | .ok (new, gs) =>
         match finalCheck pol (retag (fun _ => none) new) with
         | .error e => .error e
         | .ok es => layout pol { s with guidStore := gs } (es.map (substC (liftF fc)))) := by
  unfold compactCore
  simp only
  have h1 := pass1_retag (liftF fc) ps [] []
  have hn : retag (liftF fc) [] = [] := rfl
  rw [hn] at h1
  rw [h1]
  simp only
  rw [pass2_retag]
  cases pass2 pol (pass1 ps [] []).1 (pass1 ps [] []).2 0 [] with
  | error e => rfl
  | ok r =>
    obtain ⟨new, gs⟩ := r
    simp only
    rw [finalCheck_retag fc hfc]
    cases finalCheck pol (retag (fun _ => none) new) with
    | error e => rfl
    | ok es => rfl

/-- entries without nested bytes stay without -/
theorem pass2_none (pol : Nat) (m : List (Nat × NVar)) (ks : List (NVar × Option Bytes)) (off : Nat)
    (gs : List Bytes) (hk : retag (fun _ => none) ks = ks) (vs : List (NVar × Option Bytes)) (gs' : List Bytes)
    (h : pass2 pol m ks off gs = .ok (vs, gs')) : retag (fun _ => none) vs = vs := by
  have := pass2_retag (fun _ => none) pol m ks off gs
  rw [liftF_none, hk, h] at this
  simp only at this
  injection this with this
  injection this with this _
  exact this.symm

end Fiano.Nvram
