/-
  Properties of the grammar-level compaction `compactG`: GUID table (first use, no duplicates, not
  larger than the old one), well-formedness of the result, sizes.
-/
import FianoModel.Nvram.Pass2Main

namespace Fiano.Nvram
open Spec

/-! ### pigeonhole -/

theorem nodup_subset_length {α : Type} [DecidableEq α] (l m : List α) (hn : l.Nodup) (hs : ∀ x ∈ l, x ∈ m) :
    l.length ≤ m.length := by
  induction l generalizing m with
  | nil => simp
  | cons a l ih =>
    obtain ⟨ha, hl⟩ := List.nodup_cons.1 hn
    have ham : a ∈ m := hs a (by simp)
    have := ih (m.erase a) hl (by
      intro x hx
      have hxa : x ≠ a := fun h => ha (h ▸ hx)
      exact (List.mem_erase_of_ne hxa).2 (hs x (by simp [hx])))
    rw [List.length_erase_of_mem ham] at this
    have : 0 < m.length := List.length_pos_of_mem ham
    simp only [List.length_cons]; omega

/-! ### the first-use table -/

theorem guidIdxG_nodup (gs : List Bytes) (g : Bytes) (h : gs.Nodup) : (guidIdxG gs g).2.Nodup := by
  unfold guidIdxG
  cases hf : gs.findIdx? (· == g) with
  | some i => exact h
  | none =>
    simp only
    have hnot : g ∉ gs := by
      intro hg
      have := List.findIdx?_eq_none_iff.1 hf g hg
      simp at this
    exact List.nodup_append.2 ⟨h, by simp, by
      intro a ha b hb
      simp only [List.mem_singleton] at hb
      subst hb
      exact fun h' => hnot (h' ▸ ha)⟩

theorem guidIdxG_mem (gs : List Bytes) (g : Bytes) : ∀ x ∈ (guidIdxG gs g).2, x ∈ gs ∨ x = g := by
  unfold guidIdxG
  cases hf : gs.findIdx? (· == g) with
  | some i => intro x hx; exact Or.inl hx
  | none =>
    intro x hx
    simp only [List.mem_append, List.mem_singleton] at hx
    exact hx

/-- facts every row handed to `compactRows` satisfies (kept rows of a well-formed store) -/
structure RowFacts (K : Bytes → Bool) (s : NvStore) (d : Row) : Prop where
  mem : d ∈ table s
  kept : kept K s.guids d = true

theorem row_head (K : Bytes → Bool) (s : NvStore) (d : Row) (h : RowFacts K s d) :
    ∃ fh g n vh xh nxh, d.head = some (.var fh g n vh xh nxh) ∧ (Entry.var fh g n vh xh nxh) ∈ s.entries := by
  have hk := h.kept
  simp only [kept, Bool.and_eq_true] at hk
  have hhs := alive_head K s.guids d hk.1
  obtain ⟨hE, hh⟩ := Option.isSome_iff_exists.1 hhs
  obtain ⟨⟨fh, g, n, vh, xh, nxh, hEeq⟩, hEmem⟩ := table_headVar s d h.mem hE hh
  subst hEeq
  exact ⟨fh, g, n, vh, xh, nxh, hh, hEmem⟩

theorem compactRows_table (K : Bytes → Bool) (s : NvStore) (hwf : WFParts s) (rows : List Row) (gs : List Bytes)
    (hrows : ∀ d ∈ rows, RowFacts K s d) (hn : gs.Nodup) (hsub : ∀ x ∈ gs, x ∈ s.guids) :
    (compactRows s.guids rows gs).2.Nodup ∧ ∀ x ∈ (compactRows s.guids rows gs).2, x ∈ s.guids := by
  induction rows generalizing gs with
  | nil => exact ⟨by simpa [compactRows] using hn, by simpa [compactRows] using hsub⟩
  | cons d rows ih =>
    obtain ⟨fh, g, n, vh, xh, nxh, hh, hEmem⟩ := row_head K s d (hrows d (by simp))
    have hrest : ∀ d' ∈ rows, RowFacts K s d' := fun d' hd' => hrows d' (by simp [hd'])
    cases g with
    | inline gb =>
      have : compactRows s.guids (d :: rows) gs
          = (Entry.var (mergeFlags fh d.entry.flags) (.inline gb) n d.entry.value d.entry.ext none
              :: (compactRows s.guids rows gs).1, (compactRows s.guids rows gs).2) := by
        conv => lhs; unfold compactRows
        simp only [hh]
      rw [this]
      exact ih gs hrest hn hsub
    | index i =>
      have : compactRows s.guids (d :: rows) gs
          = (Entry.var (mergeFlags fh d.entry.flags) (.index (guidIdxG gs (GuidRef.resolve s.guids (.index i))).1) n
                d.entry.value d.entry.ext none
              :: (compactRows s.guids rows (guidIdxG gs (GuidRef.resolve s.guids (.index i))).2).1,
             (compactRows s.guids rows (guidIdxG gs (GuidRef.resolve s.guids (.index i))).2).2) := by
        conv => lhs; unfold compactRows
        simp only [hh]
      rw [this]
      apply ih _ hrest (guidIdxG_nodup gs _ hn)
      intro x hx
      rcases guidIdxG_mem gs _ x hx with h | h
      · exact hsub x h
      · subst h
        have hok := hwf.ok _ hEmem
        simp only [Entry.ok, Bool.and_eq_true, okGuid, decide_eq_true_eq] at hok
        have hi : i < s.guids.length := hok.2.1.1.1.2
        simp only [GuidRef.resolve, List.getElem?_eq_getElem hi]
        exact List.getElem_mem hi

theorem compactRows_len (K : Bytes → Bool) (s : NvStore) (hwf : WFParts s) (rows : List Row)
    (hrows : ∀ d ∈ rows, RowFacts K s d) :
    (compactRows s.guids rows []).2.length ≤ s.guids.length := by
  obtain ⟨h1, h2⟩ := compactRows_table K s hwf rows [] hrows List.nodup_nil (by simp)
  exact nodup_subset_length _ _ h1 h2

/-- the table holds exactly the referenced indices -/
theorem compactRows_ref (K : Bytes → Bool) (s : NvStore) (rows : List Row) (gs : List Bytes)
    (hrows : ∀ d ∈ rows, RowFacts K s d) :
    (compactRows s.guids rows gs).2.length = max gs.length (maxIdx (compactRows s.guids rows gs).1) := by
  induction rows generalizing gs with
  | nil => simp [compactRows, maxIdx]
  | cons d rows ih =>
    obtain ⟨fh, g, n, vh, xh, nxh, hh, hEmem⟩ := row_head K s d (hrows d (by simp))
    have hrest : ∀ d' ∈ rows, RowFacts K s d' := fun d' hd' => hrows d' (by simp [hd'])
    cases g with
    | inline gb =>
      have : compactRows s.guids (d :: rows) gs
          = (Entry.var (mergeFlags fh d.entry.flags) (.inline gb) n d.entry.value d.entry.ext none
              :: (compactRows s.guids rows gs).1, (compactRows s.guids rows gs).2) := by
        conv => lhs; unfold compactRows
        simp only [hh]
      rw [this]
      simp only [maxIdx, idxBound, Entry.index?]
      rw [ih gs hrest]; omega
    | index i =>
      have : compactRows s.guids (d :: rows) gs
          = (Entry.var (mergeFlags fh d.entry.flags) (.index (guidIdxG gs (GuidRef.resolve s.guids (.index i))).1) n
                d.entry.value d.entry.ext none
              :: (compactRows s.guids rows (guidIdxG gs (GuidRef.resolve s.guids (.index i))).2).1,
             (compactRows s.guids rows (guidIdxG gs (GuidRef.resolve s.guids (.index i))).2).2) := by
        conv => lhs; unfold compactRows
        simp only [hh]
      rw [this]
      simp only [maxIdx, idxBound, Entry.index?]
      rw [ih _ hrest]
      generalize GuidRef.resolve s.guids (.index i) = gg
      unfold guidIdxG
      cases hf : gs.findIdx? (· == gg) with
      | some k =>
        obtain ⟨hk, _⟩ := List.findIdx?_eq_some_iff_getElem.1 hf
        simp only; omega
      | none => simp only [List.length_append, List.length_cons, List.length_nil]; omega

end Fiano.Nvram
