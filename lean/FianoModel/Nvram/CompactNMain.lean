/-
  Main result for nested stores: `nvram-compact` (after invalidating the names selected by `K` at
  the top level) on the parsed form of a well-formed store of the recursive grammar yields the
  parsed form of the grammar-level compaction `compactN K S` — to any nesting depth, by induction on
  the fuel of the nesting recursion, which the byte length bounds (a nested store is at least 10
  bytes shorter than the store that holds it).
-/
import FianoModel.Nvram.CompactNLemmas

namespace Fiano.Nvram
open Spec

/-! ### the bytes compaction attaches to an entry -/

/-- content ↦ buffer of the compacted nested store (`none`: the content is not a store).  The
    length guard makes the function total; on well-formed stores it never fires (compaction keeps
    the length). -/
def fcOf (pol : Nat) (recC : Store → Except Err Store) (c : Bytes) : Option Bytes :=
  if c.take 4 == sig then
    match parseStore pol c with
    | .ok ns =>
      (match recC ns with
       | .ok r => if r.buf.length = c.length then some r.buf else none
       | .error _ => none)
    | .error _ => none
  else none

theorem fcOf_len (pol : Nat) (recC : Store → Except Err Store) (c b : Bytes) (h : fcOf pol recC c = some b) :
    b.length = c.length := by
  unfold fcOf at h
  split at h
  · split at h
    · split at h
      · split at h
        · rename_i hl
          injection h with h
          rw [← h]; exact hl
        · cases h
      · cases h
    · cases h
  · cases h

theorem liftF_fcOf_none (pol : Nat) (recC : Store → Except Err Store) (v : NVar) (h : nestedOf pol v = none) :
    liftF (fcOf pol recC) v = none := by
  unfold liftF fcOf
  unfold nestedOf at h
  by_cases hc : (v.hasContent && !hasBit v.attrs aExtHdr) = true
  · simp only [hc, if_true, Bool.true_and] at h ⊢
    by_cases h4 : ((content v).take 4 == sig) = true
    · simp only [h4, if_true] at h ⊢
      cases hp : parseStore pol (content v) with
      | error e => rfl
      | ok ns => rw [hp] at h; cases h
    · simp only [h4, if_false]
      rfl
  · simp [hc]

theorem liftF_fcOf_some (pol : Nat) (recC : Store → Except Err Store) (v : NVar) (ns r : Store)
    (h : nestedOf pol v = some ns) (hr : recC ns = .ok r) (hl : r.buf.length = (content v).length) :
    liftF (fcOf pol recC) v = some r.buf := by
  unfold liftF fcOf
  unfold nestedOf at h
  by_cases hc : (v.hasContent && !hasBit v.attrs aExtHdr) = true
  · simp only [hc, if_true, Bool.true_and] at h ⊢
    by_cases h4 : ((content v).take 4 == sig) = true
    · simp only [h4, if_true] at h ⊢
      cases hp : parseStore pol (content v) with
      | error e => rw [hp] at h; cases h
      | ok ns' =>
        rw [hp] at h
        injection h with h
        subst h
        simp only [hr, hl, if_true]
    · simp only [h4, if_false] at h
      cases h
  · simp [hc] at h

theorem nestedCompact_eq (pol : Nat) (recC : Store → Except Err Store) (vs : List NVar)
    (h : ∀ v ∈ vs, ∀ ns, nestedOf pol v = some ns → ∃ r, recC ns = .ok r ∧ r.buf.length = (content v).length) :
    nestedCompact pol recC vs = .ok (vs.map (fun v => (v, liftF (fcOf pol recC) v))) := by
  induction vs with
  | nil => rfl
  | cons v vs ih =>
    simp only [nestedCompact, ih (fun v' hv' => h v' (by simp [hv'])), List.map_cons]
    cases hn : nestedOf pol v with
    | none => simp only [liftF_fcOf_none pol recC v hn]
    | some ns =>
      obtain ⟨r, hr, hl⟩ := h v (by simp) ns hn
      simp only [hr, liftF_fcOf_some pol recC v ns r hn hr hl]

/-! ### small facts -/

theorem maxIdx_attained (es : List Entry) (h : 0 < maxIdx es) : ∃ e ∈ es, idxBound e = maxIdx es := by
  induction es with
  | nil => simp [maxIdx] at h
  | cons e es ih =>
    simp only [maxIdx] at h ⊢
    by_cases hle : maxIdx es ≤ idxBound e
    · exact ⟨e, by simp, by omega⟩
    · obtain ⟨e', he', h'⟩ := ih (by omega)
      exact ⟨e', by simp [he'], by omega⟩

theorem parts_wf1 (s : NvStore) (hp : WFParts s) : wf1 s = true := by
  unfold wf1
  simp only [Bool.and_eq_true, Bool.or_eq_true, beq_iff_eq, List.all_eq_true, decide_eq_true_eq,
    List.any_eq_true]
  refine ⟨⟨⟨⟨hp.pol, hp.ok⟩, hp.g16⟩, hp.n255⟩, ?_⟩
  by_cases h0 : s.guids.length = 0
  · exact Or.inl h0
  · right
    obtain ⟨e, he, hi⟩ := maxIdx_attained s.entries (by rw [hp.ref]; omega)
    refine ⟨e, he, ?_⟩
    rw [hp.ref] at hi
    unfold idxBound at hi
    cases hx : e.index? with
    | none => rw [hx] at hi; simp only at hi; omega
    | some i => rw [hx] at hi; simp only at hi; congr 1; omega

theorem rowsN_nil (K : Bytes → Bool) (S : NStore) (h : S.entries = []) : rowsN K S = [] := by
  unfold rowsN
  rw [h]
  rfl

/-- compaction of a store without entries changes nothing -/
theorem compactN_empty (K : Bytes → Bool) (n : NStore) (hp : WFParts n.flat) (he : n.entries = []) :
    (compactN K n).ser = n.ser := by
  have hfe : n.flat.entries = [] := by rw [flat_entries, he]; rfl
  have hs := ser_empty n.flat hp hfe
  rw [compactN_eq, rowsN_nil K n he]
  simp only [compactRowsN, flatEntries, entriesLen, List.map_nil, List.sum_nil, List.length_nil]
  unfold NStore.ser at *
  rw [hs]
  simp [NStore.flat, flatEntries, NvStore.ser, flat_pol]

/-! ### what the induction hypothesis gives for one level -/

/-- the induction hypothesis for the directly nested stores -/
def SubOk (d : Nat) (S : NStore) : Prop :=
  ∀ n ∈ S.subs, n.pol = S.pol →
    compact S.pol d (expectStore n.flat) = .ok (expectStore (compactN0 n).flat) ∧
    WFN (compactN0 n) ∧ (compactN0 n).ser.length = n.ser.length ∧ (compactN0 n).pol = S.pol

theorem value_rowval (S : NStore) (hl : LevelOk S) (d : Nat) (hsub : SubOk d S) (v : NValue) (x : Option Ext)
    (hv : valueOk S.pol x v = true) (hn : ∀ n, v = .store n → n ∈ S.subs) :
    (cval v).bytes.length = v.bytes.length ∧
    ((fcx (fcOf S.pol (compact S.pol d)) x (v.bytes ++ extSer x) = none ∧ (cval v).bytes = v.bytes) ∨
     (fcx (fcOf S.pol (compact S.pol d)) x (v.bytes ++ extSer x) = some (cval v).bytes ∧ x = none)) := by
  cases v with
  | raw b =>
    simp only [valueOk, Bool.or_eq_true, bne_iff_ne, ne_eq] at hv
    refine ⟨rfl, Or.inl ⟨?_, rfl⟩⟩
    unfold fcx
    by_cases hxs : x.isSome = true
    · simp [hxs]
    simp only [hxs, if_false]
    have hv : ((NValue.raw b).bytes ++ extSer x).take 4 ≠ sig ∨ notStore S.pol (b ++ extSer x) = true := by
      rcases hv with (hv | hv) | hv
      · exact Or.inl hv
      · exact absurd hv hxs
      · exact Or.inr hv
    unfold fcOf
    rcases hv with hv | hv
    · have : ((NValue.raw b).bytes ++ extSer x).take 4 ≠ sig := hv
      simp [this]
    · -- begins with the signature but `NewNVarStore` refuses it: nothing nested to compact
      have hb : (NValue.raw b).bytes = b := rfl
      rw [hb]
      unfold notStore at hv
      split at hv
      · cases hv
      · rename_i e he
        rw [he]
        simp
  | store n =>
    simp only [valueOk, Bool.and_eq_true, Option.isNone_iff_eq_none, beq_iff_eq] at hv
    obtain ⟨hx, hpol⟩ := hv
    subst hx
    have hnm := hn n rfl
    obtain ⟨hcomp, _, hlen, _⟩ := hsub n hnm hpol
    have hparts := (wfN_level n (hl.subs n hnm)).parts
    have hb : (NValue.store n).bytes = n.ser := rfl
    have hcb : (cval (NValue.store n)).bytes = (compactN0 n).ser := rfl
    rw [hb, hcb]
    simp only [extSer, List.append_nil, fcx, Option.isSome_none, Bool.false_eq_true, if_false]
    refine ⟨hlen, ?_⟩
    have hfp : n.flat.pol = S.pol := by rw [flat_pol]; exact hpol
    have hpp : S.pol = 0xFF ∨ S.pol = 0 := by rw [← hfp]; exact hparts.pol
    by_cases hes : n.entries = []
    · left
      refine ⟨?_, ?_⟩
      · have hfe : n.flat.entries = [] := by rw [flat_entries, hes]; rfl
        have hs := ser_empty n.flat hparts hfe
        unfold fcOf NStore.ser
        rw [hs, hfp, replicate_take4_ne_sig _ S.pol hpp]
        rfl
      · rw [compactN0_eq]; exact compactN_empty _ n hparts hes
    · right
      refine ⟨?_, trivial⟩
      obtain ⟨e, es, hes'⟩ : ∃ e es, n.entries = e :: es := by
        cases h : n.entries with
        | nil => exact absurd h hes
        | cons e es => exact ⟨e, es, rfl⟩
      have hfe : n.flat.entries = e.flat :: es.map NEntry.flat := by rw [flat_entries, hes']; rfl
      have h4 := ser_take4_nonempty n.flat _ _ hfe
      have hps := parseStore_ser_parts n.flat hparts
      rw [hfp] at hps
      unfold fcOf
      unfold NStore.ser at *
      rw [h4]
      simp only [beq_self_eq_true, if_true, hps, hcomp]
      have : (expectStore (compactN0 n).flat).buf.length = n.flat.ser.length := by
        simp only [expectStore]; exact hlen
      simp only [this, if_true]
      rfl

theorem rowsN_rowval (K : Bytes → Bool) (S : NStore) (hl : LevelOk S) (d : Nat) (hsub : SubOk d S) :
    ∀ p ∈ rowsN K S, RowVal (fcOf S.pol (compact S.pol d)) p := by
  intro p hp
  obtain ⟨hpm, hkept, e, he, hef, hcv⟩ := rowsN_mem K S p hp
  have hrok := table_rowOk S.flat p.1 hpm
  have hnd : ∀ a nx b, p.1.entry ≠ .dead a nx b := by
    intro a nx b hd
    simp only [kept, Bool.and_eq_true] at hkept
    have := alive_head K S.flat.guids p.1 hkept.1
    simp only [RowOk, hd] at hrok
    rw [hrok] at this; cases this
  refine ⟨hnd, ?_⟩
  have hvok := hl.vals e he
  have hcont := content_eq_value_ext p.1.entry hnd
  cases e with
  | dead a nx b => exact absurd hef.symm (hnd a nx b)
  | var f g nm v x nx =>
    have := value_rowval S hl d hsub v x hvok (fun n hvn => List.mem_filterMap.2 ⟨_, he, by rw [hvn]; rfl⟩)
    rw [hcont, ← hcv, ← hef]
    exact this
  | data f v x nx =>
    have := value_rowval S hl d hsub v x hvok (fun n hvn => List.mem_filterMap.2 ⟨_, he, by rw [hvn]; rfl⟩)
    rw [hcont, ← hcv, ← hef]
    exact this

theorem compactN_entries (K : Bytes → Bool) (S : NStore) :
    (compactN K S).entries = (compactRowsN S.flat.guids (rowsN K S) []).1 := by
  rw [compactN_eq]; rfl

theorem compactN_pol (K : Bytes → Bool) (S : NStore) : (compactN K S).pol = S.pol := by
  rw [compactN_eq]; rfl

theorem compactN_guids (K : Bytes → Bool) (S : NStore) :
    (compactN K S).guids = (compactRowsN S.flat.guids (rowsN K S) []).2 := by
  rw [compactN_eq]; rfl

/-- values and nested stores of the compacted level are well formed -/
theorem compactN_level (K : Bytes → Bool) (S : NStore) (hl : LevelOk S) (d : Nat) (hsub : SubOk d S) :
    (∀ E ∈ (compactN K S).entries, E.valueOk S.pol = true) ∧ (∀ n' ∈ (compactN K S).subs, WFN n') := by
  have hent : ∀ E ∈ (compactN K S).entries, ∃ e ∈ S.entries, ∃ f g n, E = NEntry.var f g n (cpair e).2 e.flat.ext none := by
    intro E hE
    rw [compactN_entries] at hE
    obtain ⟨p, hp, f, g, n, hEq⟩ := compactRowsN_entries _ _ _ E hE
    obtain ⟨_, _, e, he, hef, hcv⟩ := rowsN_mem K S p hp
    exact ⟨e, he, f, g, n, by rw [hEq, hcv, hef]⟩
  constructor
  · intro E hE
    obtain ⟨e, he, f, g, n, hEq⟩ := hent E hE
    have hvok := hl.vals e he
    subst hEq
    cases e with
    | dead a nx b => simp [cpair, NEntry.flat, Entry.ext, NEntry.valueOk, valueOk, extSer, Spec.sig]
    | var f' g' nm v x nx =>
      cases v with
      | raw b => exact hvok
      | store n0 =>
        simp only [NEntry.valueOk, valueOk, Bool.and_eq_true, Option.isNone_iff_eq_none, beq_iff_eq] at hvok
        obtain ⟨_, _, _, hp⟩ := hsub n0 (List.mem_filterMap.2 ⟨_, he, rfl⟩) hvok.2
        simp only [cpair, cval, NEntry.flat, Entry.ext, NEntry.valueOk, valueOk, Bool.and_eq_true,
          Option.isNone_iff_eq_none, beq_iff_eq]
        exact ⟨hvok.1, hp⟩
    | data f' v x nx =>
      cases v with
      | raw b => exact hvok
      | store n0 =>
        simp only [NEntry.valueOk, valueOk, Bool.and_eq_true, Option.isNone_iff_eq_none, beq_iff_eq] at hvok
        obtain ⟨_, _, _, hp⟩ := hsub n0 (List.mem_filterMap.2 ⟨_, he, rfl⟩) hvok.2
        simp only [cpair, cval, NEntry.flat, Entry.ext, NEntry.valueOk, valueOk, Bool.and_eq_true,
          Option.isNone_iff_eq_none, beq_iff_eq]
        exact ⟨hvok.1, hp⟩
  · intro n' hn'
    obtain ⟨E, hE, hs⟩ := List.mem_filterMap.1 hn'
    obtain ⟨e, he, f, g, n, hEq⟩ := hent E hE
    have hvok := hl.vals e he
    subst hEq
    cases e with
    | dead a nx b => simp [cpair, NEntry.sub?] at hs
    | var f' g' nm v x nx =>
      cases v with
      | raw b => simp [cpair, cval, NEntry.sub?] at hs
      | store n0 =>
        simp only [NEntry.valueOk, valueOk, Bool.and_eq_true, Option.isNone_iff_eq_none, beq_iff_eq] at hvok
        obtain ⟨_, hw, _, _⟩ := hsub n0 (List.mem_filterMap.2 ⟨_, he, rfl⟩) hvok.2
        simp only [cpair, cval, NEntry.sub?, Option.some.injEq] at hs
        rw [← hs]; exact hw
    | data f' v x nx =>
      cases v with
      | raw b => simp [cpair, cval, NEntry.sub?] at hs
      | store n0 =>
        simp only [NEntry.valueOk, valueOk, Bool.and_eq_true, Option.isNone_iff_eq_none, beq_iff_eq] at hvok
        obtain ⟨_, hw, _, _⟩ := hsub n0 (List.mem_filterMap.2 ⟨_, he, rfl⟩) hvok.2
        simp only [cpair, cval, NEntry.sub?, Option.some.injEq] at hs
        rw [← hs]; exact hw

/-! ### the main induction -/

theorem retag_pairOf (K : Bytes → Bool) (pol : Nat) (guids : List Bytes) (rows : List Row) :
    retag (fun _ => none) (rows.map (pairOf K pol guids)) = rows.map (pairOf K pol guids) := by
  simp [retag, pairOf, List.map_map, Function.comp_def]

theorem compactN_flat (K : Bytes → Bool) (S : NStore) :
    (compactN K S).flat = ⟨S.pol, flatEntries (compactRowsN S.flat.guids (rowsN K S) []).1,
      S.ser.length - entriesLen (flatEntries (compactRowsN S.flat.guids (rowsN K S) []).1)
        - 16 * (compactRowsN S.flat.guids (rowsN K S) []).2.length,
      (compactRowsN S.flat.guids (rowsN K S) []).2⟩ := by
  rw [compactN_eq]; rfl

theorem compactN_main : ∀ (d : Nat) (K : Bytes → Bool) (S : NStore), WFCN S → S.ser.length < d →
    compact S.pol d (invalK K (expectStore S.flat)) = .ok (expectStore (compactN K S).flat) ∧
    WFN (compactN K S) ∧ (compactN K S).ser.length = S.ser.length ∧ (compactN K S).pol = S.pol ∧
    (compactN K S).flat.guids = (compactG K S.flat).guids ∧
    (compactN K S).flat.entries.map (Entry.key (compactG K S.flat).guids)
      = (compactG K S.flat).entries.map (Entry.key (compactG K S.flat).guids) := by
  intro d
  induction d with
  | zero => intro K S _ h; omega
  | succ d ih =>
    intro K S hwfc hlen
    have hc := wfcN_level S hwfc
    have hl := hc.lvl
    have hfp : S.flat.pol = S.pol := flat_pol S
    have hsub : SubOk d S := by
      intro n hn hpol
      have hsz := sub_size S n hn
      have := ih (fun _ => false) n (hc.subs n hn) (by omega)
      rw [invalK_none, hpol, ← compactN0_eq] at this
      exact ⟨this.1, this.2.1, this.2.2.1, this.2.2.2.1⟩
    -- grammar level: the compacted level against the one-level compaction of the one-level view
    obtain ⟨hcparts, hclen, hcroom⟩ := compactG_wf K S.flat hl.parts hc.links hc.fits
    obtain ⟨hrels, hgs⟩ := compactRowsN_rel (fcOf S.pol (compact S.pol d)) S.flat.guids (rowsN K S) []
      (rowsN_rowval K S hl d hsub)
    rw [rowsN_fst] at hrels hgs
    have hcE : (compactG K S.flat).entries = (compactRows S.flat.guids (keptRows K S.flat) []).1 := rfl
    have hcG : (compactG K S.flat).guids = (compactRows S.flat.guids (keptRows K S.flat) []).2 := rfl
    have hCf := compactN_flat K S
    have hCE : (compactN K S).flat.entries = flatEntries (compactRowsN S.flat.guids (rowsN K S) []).1 := by
      rw [hCf]
    have hCG : (compactN K S).flat.guids = (compactG K S.flat).guids := by rw [hCf, hcG, ← hgs]
    have hCP : (compactN K S).flat.pol = S.pol := by rw [hCf]
    have hpartsC : WFParts (compactN K S).flat := by
      rw [hCf, hgs]
      have : WFParts ⟨S.pol, (compactRows S.flat.guids (keptRows K S.flat) []).1, (compactG K S.flat).free,
          (compactRows S.flat.guids (keptRows K S.flat) []).2⟩ := by
        rw [← hfp]; exact hcparts
      exact rels_parts _ _ _ _ _ _ _ hrels this
    have hlenE : entriesLen (compactN K S).flat.entries = entriesLen (compactG K S.flat).entries := by
      rw [hCE, hcE]; exact rels_len _ _ _ hrels
    have hserC : (compactN K S).ser.length = S.ser.length := by
      unfold NStore.ser
      rw [ser_length _ hpartsC, hlenE, hCG]
      have hfree : (compactN K S).flat.free = S.ser.length - entriesLen (compactN K S).flat.entries
          - 16 * (compactN K S).flat.guids.length := by rw [hCf]
      rw [hfree, hlenE, hCG]
      unfold NStore.ser
      omega
    -- well-formedness of the compacted store
    obtain ⟨hvals, hsubsC⟩ := compactN_level K S hl d hsub
    have hwfC : WFN (compactN K S) := by
      unfold WFN wfN
      refine (all_iff wfLevel _).2 ⟨?_, hsubsC⟩
      simp only [wfLevel, Bool.and_eq_true, List.all_eq_true]
      refine ⟨parts_wf1 _ hpartsC, ?_⟩
      rw [compactN_pol]; exact hvals
    refine ⟨?_, hwfC, hserC, compactN_pol K S, hCG, by rw [hCE, hcE]; exact rels_keys _ _ _ _ hrels⟩
    -- the model
    simp only [compact]
    rw [compactWith_eq]
    have hent := invalK_entries K S.flat
    have hnest : ∀ v ∈ (invalK K (expectStore S.flat)).entries, ∀ ns, nestedOf S.pol v = some ns →
        ∃ r, compact S.pol d ns = .ok r ∧ r.buf.length = (content v).length := by
      rw [hent]
      intro v hv ns hns
      obtain ⟨r, hr, hrv⟩ := List.mem_map.1 hv
      subst hrv
      rw [markK_nested, hfp, flat_guids] at hns
      obtain ⟨n, hn, hnse, hpol, hcn, _, hnd, _⟩ := nestedOf_row S hl r hr ns hns
      obtain ⟨hcomp, _, hln, _⟩ := hsub n hn hpol
      refine ⟨_, by rw [hnse]; exact hcomp, ?_⟩
      rw [markK_content, content_expect_nd _ _ _ hnd, hcn]
      simp only [expectStore]
      exact hln
    rw [nestedCompact_eq S.pol (compact S.pol d) _ hnest]
    simp only
    have hpairs : (invalK K (expectStore S.flat)).entries.map
          (fun v => (v, liftF (fcOf S.pol (compact S.pol d)) v))
        = retag (liftF (fcOf S.pol (compact S.pol d))) ((table S.flat).map (pairOf K S.pol S.flat.guids)) := by
      rw [hent]
      simp [retag, pairOf, List.map_map, Function.comp_def, hfp]
    rw [hpairs, compactCore_retag _ (fcOf_len S.pol (compact S.pol d))]
    obtain ⟨new, hp2, hfc⟩ := compactCore_parts K S.flat hl.parts hc.links hc.fits
    rw [hfp] at hp2 hfc
    rw [hp2]
    simp only
    have hk : retag (fun _ => none) (pass1 ((table S.flat).map (pairOf K S.pol S.flat.guids)) [] []).2
        = (pass1 ((table S.flat).map (pairOf K S.pol S.flat.guids)) [] []).2 := by
      have := pass1_retag (fun _ => none) ((table S.flat).map (pairOf K S.pol S.flat.guids)) [] []
      rw [retag_pairOf] at this
      have h2 := congrArg Prod.snd this
      simp only at h2
      exact h2.symm
    rw [pass2_none S.pol _ _ 0 [] hk new _ hp2, hfc]
    simp only
    -- the substituted entries are the parsed entries of the compacted store
    have htabc : table (compactG K S.flat) = varRows (compactG K S.flat).entries 0 := by
      rw [table_eq_rowsFrom]
      exact rowsFrom_allvar _ (by rw [hcE]; exact compactRows_allvar _ _ _) [] 0
    have htabC : table (compactN K S).flat = varRows (compactN K S).flat.entries 0 := by
      rw [table_eq_rowsFrom]
      refine rowsFrom_allvar _ ?_ [] 0
      rw [hCE]
      intro E hE
      obtain ⟨f, g, n, v, x, h⟩ := rels_allvar _ _ _ hrels E hE
      exact ⟨f, g, n, v, x, none, h⟩
    have hents : (expectStore (compactG K S.flat)).entries.map (substC (liftF (fcOf S.pol (compact S.pol d))))
        = (expectStore (compactN K S).flat).entries := by
      simp only [expectStore, htabc, htabC, hCG, hCP]
      have hpc : (compactG K S.flat).pol = S.pol := hfp
      rw [hpc, hCE, hcE]
      exact (rels_expect _ S.pol _ _ _ hrels _ (by rw [← hcE]; exact hcparts.ok) 0).symm
    rw [hents, ← hCP]
    exact layout_expect (compactN K S).flat hpartsC _ hCG.symm (by
      simp only [invalK, expectStore]
      unfold NStore.ser at hserC
      exact hserC.symm)

end Fiano.Nvram
