/-
  The facts about the compacted store of the recursive grammar that the property theorems of
  Props/C10.lean assemble: only Full entries, entries = current variables, unique keys, nothing but
  terminal variables at any depth.
-/
import FianoModel.Nvram.NestedLive

namespace Fiano.Nvram
open Spec

/-- the nested stores of the compacted store are the compacted nested stores of the original -/
theorem compactN_subs (K : Bytes → Bool) (S : NStore) :
    ∀ n' ∈ (compactN K S).subs, ∃ n0 ∈ S.subs, n' = compactN0 n0 := by
  intro n' hn'
  obtain ⟨E, hE, hs⟩ := List.mem_filterMap.1 hn'
  rw [compactN_entries] at hE
  obtain ⟨p, hp, f, g, n, hEq⟩ := compactRowsN_entries _ _ _ E hE
  obtain ⟨_, _, e, he, hef, hcv⟩ := rowsN_mem K S p hp
  subst hEq
  rw [← hcv] at hs
  cases e with
  | dead a nx b => simp [cpair, NEntry.sub?] at hs
  | var f' g' nm v x nx =>
    cases v with
    | raw b => simp [cpair, cval, NEntry.sub?] at hs
    | store n0 =>
      simp only [cpair, cval, NEntry.sub?, Option.some.injEq] at hs
      exact ⟨n0, List.mem_filterMap.2 ⟨_, he, rfl⟩, hs.symm⟩
  | data f' v x nx =>
    cases v with
    | raw b => simp [cpair, cval, NEntry.sub?] at hs
    | store n0 =>
      simp only [cpair, cval, NEntry.sub?, Option.some.injEq] at hs
      exact ⟨n0, List.mem_filterMap.2 ⟨_, he, rfl⟩, hs.symm⟩

/-- after compaction nothing but terminal variables is left, at any depth (no hypothesis needed) -/
theorem allTerminal_compactN : ∀ (m : Nat) (K : Bytes → Bool) (S : NStore), S.ser.length < m →
    allTerminal (compactN K S) = true := by
  intro m
  induction m with
  | zero => intro K S h; omega
  | succ m ih =>
    intro K S hm
    unfold allTerminal
    refine (all_iff allTerminalLevel _).2 ⟨?_, ?_⟩
    · simp only [allTerminalLevel, List.all_eq_true]
      intro E hE
      obtain ⟨f, g, n, v, x, h⟩ := compactN_allvar K S E hE
      subst h; rfl
    · intro n' hn'
      obtain ⟨n0, hn0, rfl⟩ := compactN_subs K S n' hn'
      have := sub_size S n0 hn0
      rw [compactN0_eq]
      exact ih _ n0 (by omega)

theorem liveC_eq (K : Bytes → Bool) (S : NStore) :
    liveC K S = (keptE K S).map
      (fun p => ((rowVar S.flat.guids p.1).1, (cpair p.2).2.bytes ++ extSer p.1.entry.ext)) := by
  unfold liveC keptE
  rw [← flat_guids, ownersT_map (fun e (t : NValue) => t.bytes ++ extSer e.ext), cpairs_rowsE, liveT_eq,
    List.map_map, filter_map', List.map_map]
  rfl

/-- the keys of `liveC` are the keys of the specification's current variables that were not
    invalidated, in the same order -/
theorem liveC_keys (K : Bytes → Bool) (S : NStore) :
    (liveC K S).map (·.1) = ((Spec.live S.flat).filter (fun kv => !K kv.1.2)).map (·.1) := by
  rw [← liveK_filter, liveK_eq, liveC_eq, ← keptE_fst, List.map_map, List.map_map, List.map_map]
  rfl

/-- a store that holds terminal variables only: its parsed form -/
theorem expect_allvar (s : NvStore) (hv : ∀ e ∈ s.entries, ∃ f g n v x, e = Entry.var f g n v x none) :
    (∀ v ∈ (expectStore s).entries, v.type = .full) ∧
    (expectStore s).entries.map (fun v => ((v.guid, v.name), content v))
      = s.entries.map (fun e => (e.key s.guids, e.content)) ∧
    live (expectStore s) = s.entries.map (fun e => (e.key s.guids, e.content)) := by
  have htab : table s = varRows s.entries 0 := by
    rw [table_eq_rowsFrom]
    exact rowsFrom_allvar _ (fun e he => by
      obtain ⟨f, g, n, v, x, h⟩ := hv e he; exact ⟨f, g, n, v, x, none, h⟩) [] 0
  obtain ⟨h1, h2, h3, h4⟩ := varRows_facts s.pol s.guids s.entries 0 hv
  refine ⟨?_, ?_, ?_⟩
  · intro v hv'
    simp only [expectStore, htab] at hv'
    obtain ⟨d, hd, hdv⟩ := List.mem_map.1 hv'
    subst hdv
    exact h3 d hd
  · simp only [expectStore, htab, List.map_map]
    rw [← h4]
    rfl
  · rw [live_expect _ (by
      intro d hd r hr
      rw [htab] at hd
      have := h2 d hd
      simp only [kept, Bool.and_eq_true, Option.isNone_iff_eq_none] at this
      rw [this.2] at hr; cases hr)]
    unfold Spec.live
    rw [liveK_eq]
    have : keptRows (fun _ => false) s = varRows s.entries 0 := by
      unfold keptRows
      rw [htab]
      exact List.filter_eq_self.2 h2
    rw [this, h1]

theorem compactN_flat_allvar (K : Bytes → Bool) (S : NStore) :
    ∀ e ∈ (compactN K S).flat.entries, ∃ f g n v x, e = Entry.var f g n v x none := by
  intro e he
  rw [flat_entries] at he
  obtain ⟨E, hE, rfl⟩ := List.mem_map.1 he
  obtain ⟨f, g, n, v, x, h⟩ := compactN_allvar K S E hE
  subst h
  exact ⟨f, g, n, v.bytes, x, rfl⟩

end Fiano.Nvram
