/-
  What the parser must produce for a store of the reference grammar: `expectStore s` is defined
  from the grammar (sizes, offsets, ownership table), not by running the parser.
  `ParseLemmas.lean` proves `parseStore s.pol s.ser = .ok (expectStore s)` for well-formed `s`.
-/
import FianoModel.Nvram.Model
import FianoModel.Nvram.Spec

namespace Fiano.Nvram
open Spec

def nextOff (off : Nat) : Option Nat → Nat
  | none => 0
  | some r => off + r

def GuidRef.index? : GuidRef → Option Nat
  | .index i => some i
  | .inline _ => none

/-- the parsed form of one row of the ownership table -/
def expectNVar (pol : Nat) (guids : List Bytes) (r : Row) : NVar :=
  match r.entry with
  | .var _ g n _ _ nx =>
    { size := r.entry.size, next := r.entry.nextField pol, attrs := r.entry.attrs, guid := g.resolve guids,
      guidIndex := GuidRef.index? g, name := n.text, type := if nx.isSome then .link else .full,
      offset := r.off, nextOffset := nextOff r.off nx, buf := r.entry.ser pol, dataOffset := headLen r.entry,
      hasContent := true }
  | .data _ _ _ nx =>
    match r.head with
    | some h =>
      { size := r.entry.size, next := r.entry.nextField pol, attrs := r.entry.attrs, guid := (h.key guids).1,
        guidIndex := none, name := (h.key guids).2, type := if nx.isSome then .link else .data,
        offset := r.off, nextOffset := nextOff r.off nx, buf := r.entry.ser pol, dataOffset := 10,
        hasContent := true }
    | none =>
      { size := r.entry.size, next := r.entry.nextField pol, attrs := r.entry.attrs, guid := zeroGuid,
        guidIndex := none, name := nmInvalidLink, type := .invalidLink,
        offset := r.off, nextOffset := nextOff r.off nx, buf := r.entry.ser pol, dataOffset := 10,
        hasContent := true }
  | .dead _ _ _ =>
    { size := r.entry.size, next := r.entry.nextField pol, attrs := r.entry.attrs, guid := zeroGuid,
      guidIndex := none, name := nmInvalid, type := .invalid,
      offset := r.off, nextOffset := 0, buf := r.entry.ser pol, dataOffset := 10, hasContent := false }

def entriesLen (es : List Entry) : Nat := (es.map Entry.size).sum

def expectStore (s : NvStore) : Store :=
  { entries := (table s).map (expectNVar s.pol s.guids)
    guidStore := s.guids
    buf := s.ser
    fso := entriesLen s.entries
    gso := entriesLen s.entries + s.free
    length := s.ser.length }

end Fiano.Nvram
