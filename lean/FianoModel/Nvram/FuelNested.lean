/-
  The fuel of the NESTING recursion of `asmStore` / `compact` (`depthFuel = |store| + 1`) is never
  exhausted, for EVERY byte string: the content of a parsed entry is at least 10 bytes (the header)
  shorter than the buffer it was parsed from, and a nested store is parsed from the content.
  (`FuelLemmas.lean` has the same for the entry walk.)
-/
import FianoModel.Nvram.FuelLemmas
import FianoModel.Nvram.CompactMain

namespace Fiano.Nvram

/-! ### what every parsed entry satisfies -/

/-- the entry buffer holds at least the header, and the content starts behind it -/
def EntryFit (n : Nat) (v : NVar) : Prop := v.buf.length ≤ n ∧ 10 ≤ v.dataOffset ∧ 10 ≤ v.buf.length

theorem entryFit_content (n : Nat) (v : NVar) (h : EntryFit n v) : (content v).length + 10 ≤ n := by
  obtain ⟨h1, h2, h3⟩ := h
  simp only [content, List.length_drop]
  omega

theorem guidPart_doff (attrs : Nat) (rest : Bytes) (sb : Bytes) (gs : List Bytes)
    (guid : Bytes) (gi : Option Nat) (gs' : List Bytes) (doff : Nat)
    (h : (if hasBit attrs aGuid then
            if rest.length < guidSize then none else some (rest.take guidSize, none, gs, hdrSize + guidSize)
          else
            match rest with
            | [] => none
            | i :: _ => some ((getGuid sb gs i.toNat).1, some i.toNat, (getGuid sb gs i.toNat).2, hdrSize + 1))
        = some (guid, gi, gs', doff)) : 10 ≤ doff := by
  split at h
  · split at h
    · cases h
    · injection h with h
      injection h with _ h
      injection h with _ h
      injection h with _ h
      rw [← h]; simp [hdrSize]
  · split at h
    · cases h
    · injection h with h
      injection h with _ h
      injection h with _ h
      injection h with _ h
      rw [← h]; simp [hdrSize]

theorem parseBody_fit (pol : Nat) (sb : Bytes) (gs : List Bytes) (es : List NVar) (off size next attrs : Nat)
    (vbuf : Bytes) (v : NVar) (gs' : List Bytes)
    (h : parseBody pol sb gs es off size next attrs vbuf = .ok (some (v, gs'))) :
    v.buf = vbuf ∧ 10 ≤ v.dataOffset := by
  unfold parseBody at h
  simp only at h
  split at h
  · injection h with h; injection h with h; injection h with h1 h2; subst h1; exact ⟨rfl, by simp [hdrSize]⟩
  · split at h
    · cases h
    · split at h
      · injection h with h; injection h with h; injection h with h1 h2; subst h1; exact ⟨rfl, by simp [hdrSize]⟩
      · split at h
        · split at h
          · injection h with h; injection h with h; injection h with h1 h2; subst h1
            exact ⟨rfl, by simp [hdrSize]⟩
          · injection h with h; injection h with h; injection h with h1 h2; subst h1
            exact ⟨rfl, by simp [hdrSize]⟩
        · split at h
          · cases h
          · rename_i guid gi gs1 doff hg
            have hd := guidPart_doff _ _ _ _ _ _ _ _ hg
            split at h
            · cases h
            · injection h with h; injection h with h; injection h with h1 h2; subst h1
              exact ⟨rfl, by simp only; omega⟩

theorem newNVar_fit (pol : Nat) (sb : Bytes) (gs : List Bytes) (es : List NVar) (buf : Bytes) (off : Nat)
    (v : NVar) (gs' : List Bytes) (h : newNVar pol sb gs es buf off = .ok (some (v, gs'))) :
    EntryFit buf.length v := by
  unfold newNVar at h
  simp only at h
  split at h
  · cases h
  · split at h
    · cases h
    · split at h
      · cases h
      · split at h
        · cases h
        · split at h
          · cases h
          · rename_i hlen hsz
            obtain ⟨h1, h2⟩ := parseBody_fit _ _ _ _ _ _ _ _ _ _ _ h
            simp only [hdrSize] at hsz
            refine ⟨?_, h2, ?_⟩
            · rw [h1, List.length_take]
              omega
            · rw [h1, List.length_take]
              omega

theorem walk_fit (pol : Nat) (sb : Bytes) :
    ∀ (f fso gso : Nat) (gs : List Bytes) (es : List NVar) (st : Store), gso ≤ sb.length →
      (∀ v ∈ es, EntryFit sb.length v) → walk pol sb f fso gso gs es = .ok st →
      st.length = sb.length ∧ ∀ v ∈ st.entries, EntryFit sb.length v := by
  intro f
  induction f with
  | zero => intro fso gso gs es st _ _ h; simp [walk] at h
  | succ f ih =>
    intro fso gso gs es st hg hes h
    unfold walk at h
    split at h
    · split at h
      · cases h
      · injection h with h; subst h; exact ⟨rfl, hes⟩
      · rename_i v gs' he
        have hfit := newNVar_fit _ _ _ _ _ _ _ _ he
        have hsl : (slice sb fso (gso - fso)).length ≤ sb.length := by
          simp only [slice, List.length_take, List.length_drop]; omega
        split at h
        · cases h
        apply ih _ _ _ _ st (by omega) _ h
        intro w hw
        rcases List.mem_append.1 hw with hw | hw
        · exact hes w hw
        · simp only [List.mem_singleton] at hw
          subst hw
          exact ⟨by have := hfit.1; omega, hfit.2⟩
    · injection h with h; subst h; exact ⟨rfl, hes⟩

/-- every entry of a parsed store has a content at least 10 bytes shorter than the store -/
theorem parseStore_fit (pol : Nat) (b : Bytes) (st : Store) (h : parseStore pol b = .ok st) :
    st.length = b.length ∧ ∀ v ∈ st.entries, EntryFit b.length v := by
  unfold parseStore at h
  exact walk_fit pol b _ _ _ _ _ st (Nat.le_refl _) (by simp) h

theorem nestedOf_fit (pol : Nat) (v : NVar) (ns : Store) (h : nestedOf pol v = some ns) :
    4 ≤ (content v).length ∧ ∀ w ∈ ns.entries, (content w).length + 10 ≤ (content v).length := by
  unfold nestedOf at h
  split at h
  · rename_i hc
    simp only [Bool.and_eq_true, beq_iff_eq] at hc
    have h4 : 4 ≤ (content v).length := by
      have := congrArg List.length hc.2
      simp only [List.length_take, sig, List.length_cons, List.length_nil] at this
      omega
    refine ⟨h4, ?_⟩
    split at h
    · rename_i s hp
      injection h with h
      subst h
      obtain ⟨_, hfit⟩ := parseStore_fit pol _ _ hp
      intro w hw
      exact entryFit_content _ w (hfit w hw)
    · cases h
  · cases h

/-! ### the model functions below the recursion never report `fuel` -/

theorem asmNVar_not_fuel (pol : Nat) (v : NVar) (c : Bytes) (chk : Bool) : asmNVar pol v c chk ≠ .error .fuel := by
  unfold asmNVar
  intro h
  simp only at h
  repeat' split at h
  all_goals cases h

theorem layout_not_fuel (pol : Nat) (s : Store) (es : List NVar) : layout pol s es ≠ .error .fuel := by
  unfold layout
  intro h
  simp only at h
  repeat' split at h
  all_goals cases h

theorem asmEntries_not_fuel (pol : Nat) (rec : Store → Except Err Store) (vs : List NVar)
    (hrec : ∀ v ∈ vs, ∀ ns, nestedOf pol v = some ns → rec ns ≠ .error .fuel) :
    asmEntries pol rec vs ≠ .error .fuel := by
  induction vs with
  | nil => intro h; cases h
  | cons v vs ih =>
    have ih' := ih (fun v' hv' => hrec v' (by simp [hv']))
    unfold asmEntries
    intro h
    simp only at h
    cases hn : nestedOf pol v with
    | none =>
      simp only [hn] at h
      split at h
      · rename_i e he
        injection h with h; subst h
        split at he
        · exact asmNVar_not_fuel _ _ _ _ he
        · cases he
      · split at h
        · rename_i e he
          injection h with h; subst h
          exact ih' he
        · cases h
    | some ns =>
      simp only [hn] at h
      cases hr : rec ns with
      | error e =>
        simp only [hr] at h
        injection h with h; subst h
        exact hrec v (by simp) ns hn hr
      | ok r =>
        simp only [hr] at h
        split at h
        · rename_i e he
          injection h with h; subst h
          split at he
          · exact asmNVar_not_fuel _ _ _ _ he
          · cases he
        · split at h
          · rename_i e he
            injection h with h; subst h
            exact ih' he
          · cases h

theorem pass2_not_fuel (pol : Nat) (m : List (Nat × NVar)) :
    ∀ (ks : List (NVar × Option Bytes)) (off : Nat) (gs : List Bytes), pass2 pol m ks off gs ≠ .error .fuel := by
  intro ks
  induction ks with
  | nil => intro off gs h; cases h
  | cons p ks ih =>
    intro off gs h
    obtain ⟨k, nb⟩ := p
    simp only [pass2] at h
    split at h
    · cases h
    · split at h
      · rename_i e he
        injection h with h; subst h
        exact asmNVar_not_fuel _ _ _ _ he
      · split at h
        · rename_i e he
          injection h with h; subst h
          exact ih _ _ he
        · cases h

theorem finalCheck_not_fuel (pol : Nat) : ∀ (vs : List (NVar × Option Bytes)), finalCheck pol vs ≠ .error .fuel := by
  intro vs
  induction vs with
  | nil => intro h; cases h
  | cons p vs ih =>
    intro h
    obtain ⟨v, nb⟩ := p
    simp only [finalCheck] at h
    split at h
    · rename_i e he
      injection h with h; subst h
      exact asmNVar_not_fuel _ _ _ _ he
    · split at h
      · rename_i e he
        injection h with h; subst h
        exact ih he
      · cases h

theorem compactCore_not_fuel (pol : Nat) (pairs : List (NVar × Option Bytes)) (s : Store) :
    compactCore pol pairs s ≠ .error .fuel := by
  unfold compactCore
  intro h
  simp only at h
  split at h
  · rename_i e he
    injection h with h; subst h
    exact pass2_not_fuel _ _ _ _ _ he
  · split at h
    · rename_i e he
      injection h with h; subst h
      exact finalCheck_not_fuel _ _ he
    · exact layout_not_fuel _ _ _ h

theorem nestedCompact_not_fuel (pol : Nat) (recC : Store → Except Err Store) (vs : List NVar)
    (hrec : ∀ v ∈ vs, ∀ ns, nestedOf pol v = some ns → recC ns ≠ .error .fuel) :
    nestedCompact pol recC vs ≠ .error .fuel := by
  induction vs with
  | nil => intro h; cases h
  | cons v vs ih =>
    have ih' := ih (fun v' hv' => hrec v' (by simp [hv']))
    unfold nestedCompact
    intro h
    simp only at h
    cases hn : nestedOf pol v with
    | none =>
      simp only [hn] at h
      split at h
      · rename_i e he
        injection h with h; subst h
        exact ih' he
      · cases h
    | some ns =>
      simp only [hn] at h
      cases hr : recC ns with
      | error e =>
        simp only [hr] at h
        injection h with h; subst h
        exact hrec v (by simp) ns hn hr
      | ok r =>
        simp only [hr] at h
        split at h
        · rename_i e he
          injection h with h; subst h
          exact ih' he
        · cases h

/-! ### the nesting recursion -/

/-- `visitors.Assemble` with fuel `d`: no `fuel` error as soon as every entry's content is shorter
    than `d` -/
theorem asmStore_not_fuel (pol : Nat) : ∀ (d : Nat) (st : Store), 0 < d →
    (∀ v ∈ st.entries, (content v).length < d) → asmStore pol d st ≠ .error .fuel := by
  intro d
  induction d with
  | zero => intro st h; omega
  | succ d ih =>
    intro st _ hst
    simp only [asmStore]
    unfold asmStoreWith
    intro h
    split at h
    · rename_i e he
      injection h with h; subst h
      refine asmEntries_not_fuel pol _ _ ?_ he
      intro v hv ns hns
      obtain ⟨h4, hw⟩ := nestedOf_fit pol v ns hns
      have := hst v hv
      apply ih ns (by omega)
      intro w hw'
      have := hw w hw'
      omega
    · exact layout_not_fuel _ _ _ h

/-- `visitors.NVRamCompact` with fuel `d` -/
theorem compact_not_fuel (pol : Nat) : ∀ (d : Nat) (st : Store), 0 < d →
    (∀ v ∈ st.entries, (content v).length < d) → compact pol d st ≠ .error .fuel := by
  intro d
  induction d with
  | zero => intro st h; omega
  | succ d ih =>
    intro st _ hst
    simp only [compact]
    rw [compactWith_eq]
    intro h
    split at h
    · rename_i e he
      injection h with h; subst h
      refine nestedCompact_not_fuel pol _ _ ?_ he
      intro v hv ns hns
      obtain ⟨h4, hw⟩ := nestedOf_fit pol v ns hns
      have := hst v hv
      apply ih ns (by omega)
      intro w hw'
      have := hw w hw'
      omega
    · exact compactCore_not_fuel _ _ _ h

theorem parsed_small (pol : Nat) (b : Bytes) (st : Store) (h : parseStore pol b = .ok st) :
    ∀ v ∈ st.entries, (content v).length < depthFuel st := by
  obtain ⟨hl, hfit⟩ := parseStore_fit pol b st h
  intro v hv
  obtain ⟨h1, h2, h3⟩ := hfit v hv
  simp only [depthFuel, hl, content, List.length_drop]
  omega

end Fiano.Nvram
