/-
  The repaired overlap guard of `NewNVarStore` (fixes/C04-nvar-table-overlap.diff; DESIGN §14 finding 51):
  a store that parses has its entries end at or before its GUID table, for EVERY byte string.
-/
import FianoModel.Nvram.Model

namespace Fiano.Nvram

theorem walk_fso_le_gso (pol : Nat) (sb : Bytes) :
    ∀ (f fso gso : Nat) (gs : List Bytes) (es : List NVar) (s : Store), fso ≤ gso →
      walk pol sb f fso gso gs es = .ok s → s.fso ≤ s.gso := by
  intro f
  induction f with
  | zero => intro fso gso gs es s _ h; simp [walk] at h
  | succ f ih =>
    intro fso gso gs es s hle h
    unfold walk at h
    split at h
    · split at h
      · cases h
      · injection h with h; subst h; exact hle
      · split at h
        · cases h
        · rename_i hng
          exact ih _ _ _ _ s (by omega) h
    · injection h with h; subst h; exact hle

/-- `FreeSpaceOffset ≤ GUIDStoreOffset` for every store `NewNVarStore` (repaired) returns -/
theorem parseStore_fso_le_gso (pol : Nat) (b : Bytes) (s : Store) (h : parseStore pol b = .ok s) :
    s.fso ≤ s.gso := by
  unfold parseStore at h
  exact walk_fso_le_gso pol b _ _ _ _ _ s (Nat.zero_le _) h

end Fiano.Nvram
