/-
  The checksum loop of `parseExtendedHeader` as written in Go computes the closed form of
  `Checksum.lean`, and the Next field does not take part in it.
-/
import FianoModel.Nvram.Checksum

namespace Fiano.Nvram

theorem slice_cons (b : Bytes) (i n : Nat) (c : UInt8) (h : b[i]? = some c) :
    slice b i (n + 1) = c :: slice b (i + 1) n := by
  have hi : i < b.length := by
    rcases Nat.lt_or_ge i b.length with h' | h'
    · exact h'
    · rw [List.getElem?_eq_none h'] at h; cases h
  have hc : b[i] = c := by
    rw [List.getElem?_eq_getElem hi] at h; injection h
  unfold slice
  rw [List.drop_eq_getElem_cons hi, List.take_succ_cons, hc]

theorem slice_nil (b : Bytes) (i : Nat) : slice b i 0 = [] := by simp [slice]

theorem goCksumLoop_tail (buf : Bytes) (size : Nat) (hs : size ≤ buf.length) :
    ∀ (f i acc : Nat), 9 ≤ i → acc < 256 → size - i ≤ f →
      goCksumLoop buf size f i acc = some ((acc + ((slice buf i (size - i)).map (·.toNat)).sum) % 256) := by
  intro f
  induction f with
  | zero =>
    intro i acc _ ha hf
    have : size - i = 0 := by omega
    simp [goCksumLoop, this, slice_nil, Nat.mod_eq_of_lt ha]
  | succ f ih =>
    intro i acc hi ha hf
    unfold goCksumLoop
    by_cases hlt : i < size
    · simp only [hlt, if_true]
      have hib : i < buf.length := by omega
      have hg : buf[i]? = some buf[i] := List.getElem?_eq_getElem hib
      rw [hg]
      simp only
      have h5 : ¬ (i = 5) := by omega
      simp only [h5, if_false]
      rw [ih (i + 1) ((acc + buf[i].toNat) % 256) (by omega) (Nat.mod_lt _ (by omega)) (by omega)]
      have hsz : size - i = (size - (i + 1)) + 1 := by omega
      rw [hsz, slice_cons buf i _ buf[i] hg]
      simp only [List.map_cons, List.sum_cons]
      congr 1
      omega
    · simp only [hlt, if_false]
      have : size - i = 0 := by omega
      simp [this, slice_nil, Nat.mod_eq_of_lt ha]

/-- the Go loop computes `sum8` over the covered bytes (entry buffer of at least `Size ≥ 10` bytes) -/
theorem goCksumLoop_eq (buf : Bytes) (size : Nat) (h10 : 10 ≤ size) (hs : size ≤ buf.length) :
    goCksumLoop buf size size 4 0 = some (sum8 (cksumBytes buf size)) := by
  obtain ⟨f, rfl⟩ : ∃ f, size = f + 2 := ⟨size - 2, by omega⟩
  have h4 : buf[4]? = some buf[4] := List.getElem?_eq_getElem (by omega)
  have h5 : buf[5]? = some buf[5] := List.getElem?_eq_getElem (by omega)
  have l4 : 4 < f + 2 := by omega
  have l5 : 5 < f + 2 := by omega
  simp only [goCksumLoop, l4, l5, if_true, h4, h5, show ¬ (4 = 5) by omega, if_false]
  rw [goCksumLoop_tail buf (f + 2) hs f 9 _ (by omega) (Nat.mod_lt _ (by omega)) (by omega)]
  unfold sum8 cksumBytes
  have e : slice buf 4 2 = [buf[4], buf[5]] := by
    rw [slice_cons buf 4 1 buf[4] h4, slice_cons buf 5 0 buf[5] h5, slice_nil]
  rw [e]
  simp only [List.cons_append, List.nil_append, List.map_cons, List.sum_cons]
  congr 1
  omega

/-- "[6-8] _Skip_ entry next (So linking will not invalidate the sum)": rewriting the Next field
    leaves the covered bytes unchanged -/
theorem cksumBytes_next_indep (buf : Bytes) (size : Nat) (a b c : UInt8) (h : 9 ≤ buf.length) :
    cksumBytes (buf.take 6 ++ [a, b, c] ++ buf.drop 9) size = cksumBytes buf size := by
  unfold cksumBytes slice
  have e1 : (buf.take 6 ++ [a, b, c] ++ buf.drop 9).drop 9 = buf.drop 9 := by
    rw [List.drop_append_of_le_length (by simp; omega)]
    have : (buf.take 6 ++ [a, b, c]).length = 9 := by simp; omega
    rw [List.drop_of_length_le (by omega)]
    rfl
  have e2 : ((buf.take 6 ++ [a, b, c] ++ buf.drop 9).drop 4).take 2 = (buf.drop 4).take 2 := by
    have hl : (buf.take 6).length = 6 := by simp; omega
    rw [List.append_assoc, List.drop_append_of_le_length (by omega),
      List.take_append_of_le_length (by simp; omega)]
    rw [← List.take_drop_take_comm_aux buf]
  rw [e1, e2]
where
  List.take_drop_take_comm_aux (buf : Bytes) : ((buf.take 6).drop 4).take 2 = (buf.drop 4).take 2 := by
    rw [List.drop_take]
    simp [List.take_take]

end Fiano.Nvram
