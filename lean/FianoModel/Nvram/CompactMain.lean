/-
  Main result: compaction of the parsed form of a well-formed store (after invalidating the names
  selected by `K`) is the parsed form of the grammar-level compaction `compactG K s`.
-/
import FianoModel.Nvram.RoomLemmas

namespace Fiano.Nvram
open Spec

/-! ### sizes of the compacted entries -/

theorem compactRows_sizes (K : Bytes → Bool) (s : NvStore) (rows : List Row) (gs : List Bytes)
    (hrows : ∀ d ∈ rows, RowFacts K s d) :
    entriesLen (compactRows s.guids rows gs).1 = sumOf newSize rows := by
  induction rows generalizing gs with
  | nil => simp [compactRows, entriesLen, sumOf]
  | cons d rows ih =>
    obtain ⟨fh, g, n, vh, xh, nxh, hh, hEmem⟩ := row_head K s d (hrows d (by simp))
    have hrest : ∀ d' ∈ rows, RowFacts K s d' := fun d' hd' => hrows d' (by simp [hd'])
    have hrok := table_rowOk s d (hrows d (by simp)).mem
    have hnd : ∀ a nx b, d.entry ≠ .dead a nx b := by
      intro a nx b he
      have := hrok
      simp only [RowOk, he] at this
      rw [this] at hh; cases hh
    have hns : ∀ g' : GuidRef, g'.ser.length = g.ser.length →
        (Entry.var (mergeFlags fh d.entry.flags) g' n d.entry.value d.entry.ext none).size = newSize d := by
      intro g' hg'
      simp only [newSize, headLenOf, hh, headLen, Entry.size, Entry.body, content_eq_value_ext _ hnd,
        List.length_append, hg']
      omega
    cases g with
    | inline gb =>
      have : compactRows s.guids (d :: rows) gs
          = (Entry.var (mergeFlags fh d.entry.flags) (.inline gb) n d.entry.value d.entry.ext none
              :: (compactRows s.guids rows gs).1, (compactRows s.guids rows gs).2) := by
        conv => lhs; unfold compactRows
        simp only [hh]
      rw [this]
      simp only [entriesLen, List.map_cons, List.sum_cons, sumOf] at ih ⊢
      rw [ih gs hrest, hns (.inline gb) rfl]
    | index i =>
      have : compactRows s.guids (d :: rows) gs
          = (Entry.var (mergeFlags fh d.entry.flags) (.index (guidIdxG gs (GuidRef.resolve s.guids (.index i))).1) n
                d.entry.value d.entry.ext none
              :: (compactRows s.guids rows (guidIdxG gs (GuidRef.resolve s.guids (.index i))).2).1,
             (compactRows s.guids rows (guidIdxG gs (GuidRef.resolve s.guids (.index i))).2).2) := by
        conv => lhs; unfold compactRows
        simp only [hh]
      rw [this]
      simp only [entriesLen, List.map_cons, List.sum_cons, sumOf] at ih ⊢
      rw [ih _ hrest, hns (.index (guidIdxG gs (GuidRef.resolve s.guids (.index i))).1) rfl]

/-! ### well-formedness of the compacted store -/

theorem okExt_merge (fh fd : Nat) (dataOnly : Bool) (x : Option Ext) (h : okExt fd dataOnly x = true) :
    okExt (mergeFlags fh fd) false x = true := by
  cases x with
  | none => rfl
  | some e =>
    simp only [okExt, Bool.and_eq_true, Bool.or_eq_true, decide_eq_true_eq, beq_iff_eq] at h ⊢
    refine ⟨h.1, ?_⟩
    have hm : mergeFlags fh fd / 64 % 2 = fd / 64 % 2 := by simp only [mergeFlags]; omega
    rw [hm]
    rcases h.2 with h2 | h2
    · exact Or.inl h2
    · right
      cases dataOnly <;> simp at h2 ⊢ <;> omega

theorem compactRows_ok (K : Bytes → Bool) (s : NvStore) (hwf : WFParts s) (rows : List Row) (gs : List Bytes)
    (hrows : ∀ d ∈ rows, RowFacts K s d)
    (hfit : ∀ d ∈ rows, ∀ hE, d.head = some hE → headLen hE + d.entry.content.length < 65536) :
    ∀ e ∈ (compactRows s.guids rows gs).1, e.ok (compactRows s.guids rows gs).2.length = true := by
  induction rows generalizing gs with
  | nil => intro e he; simp [compactRows] at he
  | cons d rows ih =>
    obtain ⟨fh, g, n, vh, xh, nxh, hh, hEmem⟩ := row_head K s d (hrows d (by simp))
    have hrest : ∀ d' ∈ rows, RowFacts K s d' := fun d' hd' => hrows d' (by simp [hd'])
    have hfitr : ∀ d' ∈ rows, ∀ hE, d'.head = some hE → headLen hE + d'.entry.content.length < 65536 :=
      fun d' hd' => hfit d' (by simp [hd'])
    have hdm := (hrows d (by simp)).mem
    have hrok := table_rowOk s d hdm
    have hnd : ∀ a nx b, d.entry ≠ .dead a nx b := by
      intro a nx b he
      have := hrok
      simp only [RowOk, he] at this
      rw [this] at hh; cases hh
    have hEok := hwf.ok _ hEmem
    simp only [Entry.ok, Bool.and_eq_true, decide_eq_true_eq] at hEok
    obtain ⟨_, ⟨⟨⟨⟨hfh, hgok⟩, hnok⟩, _⟩, _⟩⟩ := hEok
    have hdok := hwf.ok _ (row_entry_mem s d hdm)
    have hfitd := hfit d (by simp) _ hh
    -- the pieces of `ok` that come from the kept entry
    have hd2 : ∃ dataOnly, okExt d.entry.flags dataOnly d.entry.ext = true := by
      cases he : d.entry with
      | dead a nx b => exact absurd he (hnd a nx b)
      | var f g' n' v x nx =>
        rw [he] at hdok
        simp only [Entry.ok, Bool.and_eq_true] at hdok
        exact ⟨false, hdok.2.1.2⟩
      | data f v x nx =>
        rw [he] at hdok
        simp only [Entry.ok, Bool.and_eq_true] at hdok
        exact ⟨true, hdok.2.1.2⟩
    obtain ⟨dataOnly, hext⟩ := hd2
    have hnew : ∀ (g' : GuidRef) (N : Nat), g'.ser.length = g.ser.length → okGuid N g' = true →
        (Entry.var (mergeFlags fh d.entry.flags) g' n d.entry.value d.entry.ext none).ok N = true := by
      intro g' N hgl hgN
      simp only [Entry.ok, Bool.and_eq_true, decide_eq_true_eq]
      refine ⟨?_, ⟨⟨⟨⟨okFlags_merge _ _, hgN⟩, hnok⟩, okExt_merge _ _ _ _ hext⟩, rfl⟩⟩
      simp only [headLen] at hfitd
      simp only [Entry.size, Entry.body, List.length_append, hgl]
      rw [content_eq_value_ext _ hnd, List.length_append] at hfitd
      omega
    cases g with
    | inline gb =>
      have hcr : compactRows s.guids (d :: rows) gs
          = (Entry.var (mergeFlags fh d.entry.flags) (.inline gb) n d.entry.value d.entry.ext none
              :: (compactRows s.guids rows gs).1, (compactRows s.guids rows gs).2) := by
        conv => lhs; unfold compactRows
        simp only [hh]
      rw [hcr]
      intro e he
      rcases List.mem_cons.1 he with he | he
      · subst he; exact hnew (.inline gb) _ rfl hgok
      · exact ih gs hrest hfitr e he
    | index i =>
      have hcr : compactRows s.guids (d :: rows) gs
          = (Entry.var (mergeFlags fh d.entry.flags) (.index (guidIdxG gs (GuidRef.resolve s.guids (.index i))).1) n
                d.entry.value d.entry.ext none
              :: (compactRows s.guids rows (guidIdxG gs (GuidRef.resolve s.guids (.index i))).2).1,
             (compactRows s.guids rows (guidIdxG gs (GuidRef.resolve s.guids (.index i))).2).2) := by
        conv => lhs; unfold compactRows
        simp only [hh]
      rw [hcr]
      intro e he
      rcases List.mem_cons.1 he with he | he
      · subst he
        apply hnew (.index (guidIdxG gs (GuidRef.resolve s.guids (.index i))).1) _ rfl
        obtain ⟨_, hg2, _, _⟩ := guidIdxG_spec gs (GuidRef.resolve s.guids (.index i))
        obtain ⟨t2, hpre⟩ := compactRows_prefix s.guids rows (guidIdxG gs (GuidRef.resolve s.guids (.index i))).2
        simp only [okGuid, decide_eq_true_eq]
        rw [hpre]; simp only [List.length_append]; omega
      · exact ih _ hrest hfitr e he

theorem compactRows_allvar' (guids : List Bytes) (rows : List Row) (gs : List Bytes) :
    ∀ e ∈ (compactRows guids rows gs).1, ∃ f g n v x, e = Entry.var f g n v x none := by
  induction rows generalizing gs with
  | nil => intro e he; simp [compactRows] at he
  | cons d rows ih =>
    unfold compactRows
    split
    · intro e he
      simp only [List.mem_cons] at he
      rcases he with he | he
      · exact ⟨_, _, _, _, _, he⟩
      · exact ih _ e he
    · exact ih gs

theorem compactRows_allvar (guids : List Bytes) (rows : List Row) (gs : List Bytes) :
    ∀ e ∈ (compactRows guids rows gs).1, ∃ f g n v x nx, e = Entry.var f g n v x nx := by
  intro e he
  obtain ⟨f, g, n, v, x, h⟩ := compactRows_allvar' guids rows gs e he
  exact ⟨f, g, n, v, x, none, h⟩

theorem rowsFrom_allvar (es : List Entry) (hv : ∀ e ∈ es, ∃ f g n v x nx, e = Entry.var f g n v x nx)
    (done : List Row) (off : Nat) : rowsFrom done es off = varRows es off := by
  induction es generalizing done off with
  | nil => rfl
  | cons e es ih =>
    obtain ⟨f, g, n, v, x, nx, he⟩ := hv e (by simp)
    subst he
    simp only [rowsFrom, varRows, headFor]
    rw [ih (fun e' he' => hv e' (by simp [he']))]

theorem nestedCompact_none (pol : Nat) (recC : Store → Except Err Store) (vs : List NVar)
    (h : ∀ v ∈ vs, nestedOf pol v = none) : nestedCompact pol recC vs = .ok (vs.map (fun v => (v, none))) := by
  induction vs with
  | nil => rfl
  | cons v vs ih =>
    simp only [nestedCompact, h v (by simp), ih (fun v' hv' => h v' (by simp [hv'])), List.map_cons]

def keptRows (K : Bytes → Bool) (s : NvStore) : List Row := (table s).filter (kept K s.guids)

theorem keptRows_facts (K : Bytes → Bool) (s : NvStore) : ∀ d ∈ keptRows K s, RowFacts K s d := by
  intro d hd
  obtain ⟨h1, h2⟩ := List.mem_filter.1 hd
  exact ⟨h1, h2⟩

theorem fits_rows (s : NvStore) (hfit : fitsOk s = true) :
    ∀ d ∈ table s, ∀ hE, d.head = some hE → headLen hE + d.entry.content.length < 65536 := by
  intro d hd hE hh
  simp only [fitsOk, List.all_eq_true] at hfit
  have := hfit d hd
  rw [hh] at this
  simpa using this

/-- the compacted grammar store is well formed and as long as the original -/
theorem compactG_wf (K : Bytes → Bool) (s : NvStore) (hwf : WFParts s) (hl : Links s) (hfit : fitsOk s = true) :
    WFParts (compactG K s) ∧ (compactG K s).ser.length = s.ser.length ∧
    entriesLen (compactG K s).entries + 16 * (compactG K s).guids.length ≤ s.ser.length := by
  have hfacts := keptRows_facts K s
  have hfitr : ∀ d ∈ keptRows K s, ∀ hE, d.head = some hE → headLen hE + d.entry.content.length < 65536 :=
    fun d hd => fits_rows s hfit d (hfacts d hd).mem
  have hlen := compactRows_len K s hwf (keptRows K s) hfacts
  obtain ⟨_, hsub⟩ := compactRows_table K s hwf (keptRows K s) [] hfacts List.nodup_nil (by simp)
  have hroom : entriesLen (compactRows s.guids (keptRows K s) []).1 ≤ entriesLen s.entries := by
    rw [compactRows_sizes K s _ _ hfacts]
    exact room K s hl
  have hL := ser_length s hwf
  have hparts : WFParts (compactG K s) := by
    refine ⟨hwf.pol, ?_, ?_, ?_, ?_⟩
    · exact compactRows_ok K s hwf (keptRows K s) [] hfacts hfitr
    · intro g hg; exact hwf.g16 g (hsub g hg)
    · have := hwf.n255; simp only [compactG, keptRows] at *; omega
    · have := compactRows_ref K s (keptRows K s) [] hfacts
      simp only [compactG, keptRows, List.length_nil] at *
      omega
  have hroom2 : entriesLen (compactG K s).entries + 16 * (compactG K s).guids.length ≤ s.ser.length := by
    simp only [compactG, keptRows] at *; omega
  refine ⟨hparts, ?_, hroom2⟩
  rw [ser_length _ hparts]
  simp only [compactG, keptRows] at *
  omega

/-- `compactNVarStore` proper: the two loops, the final check-only assemble and the store layout,
    on entries that travel with the compacted bytes of their nested stores -/
def compactCore (pol : Nat) (pairs : List (NVar × Option Bytes)) (s : Store) : Except Err Store :=
  let p1 := pass1 pairs [] []
  match pass2 pol p1.1 p1.2 0 [] with
  | .error e => .error e
  | .ok (new, gs) =>
    match finalCheck pol new with
    | .error e => .error e
    | .ok es => layout pol { s with guidStore := gs } es

theorem compactWith_eq (pol : Nat) (recC : Store → Except Err Store) (s : Store) :
    compactWith pol recC s = (match nestedCompact pol recC s.entries with
      | .error e => .error e
      | .ok pairs => compactCore pol pairs s) := rfl

theorem invalK_entries (K : Bytes → Bool) (s : NvStore) :
    (invalK K (expectStore s)).entries = (table s).map (fun d => markK K (expectNVar s.pol s.guids d)) := by
  simp [invalK, expectStore, List.map_map, Function.comp_def]

/-- the two loops and the final check on the parsed store (with the names selected by `K`
    invalidated), nested stores left alone: the new GUID table is the one of the grammar-level
    compaction, the new entries are its parsed entries -/
theorem compactCore_parts (K : Bytes → Bool) (s : NvStore) (hwf : WFParts s) (hl : Links s)
    (hfit : fitsOk s = true) :
    ∃ new, pass2 s.pol (pass1 ((table s).map (pairOf K s.pol s.guids)) [] []).1
        (pass1 ((table s).map (pairOf K s.pol s.guids)) [] []).2 0 [] = .ok (new, (compactG K s).guids) ∧
      finalCheck s.pol new = .ok (expectStore (compactG K s)).entries := by
  have hfacts := keptRows_facts K s
  obtain ⟨hparts, hlenEq, hroom⟩ := compactG_wf K s hwf hl hfit
  -- first loop
  have hinv := pass1_inv K s hl s.entries [] 0 [] [] (by rw [List.nil_append, ← table_eq_rowsFrom])
    (by simp) (by simp) (inv_nil K s.pol s.guids)
  rw [List.nil_append, ← table_eq_rowsFrom] at hinv
  -- second loop and final check
  obtain ⟨new, hp2, hfc⟩ := p2f K s hwf (pass1 ((table s).map (pairOf K s.pol s.guids)) [] []).1
    (keptRows K s) 0 []
    (fun d hd => ⟨(hfacts d hd).mem, (hfacts d hd).kept⟩)
    (fun d hd => hinv.terms d (hfacts d hd).mem (hfacts d hd).kept)
    (fun d hd => fits_rows s hfit d (hfacts d hd).mem)
    (by have := hparts.n255; simpa [compactG, keptRows] using this)
  refine ⟨new, ?_, ?_⟩
  · rw [hinv.keepEq]
    exact hp2
  · rw [hfc]
    have hcs_entries : (compactG K s).entries = (compactRows s.guids (keptRows K s) []).1 := rfl
    have hcs_guids : (compactG K s).guids = (compactRows s.guids (keptRows K s) []).2 := rfl
    rw [← hcs_entries, ← hcs_guids]
    have htab : table (compactG K s) = varRows (compactG K s).entries 0 := by
      rw [table_eq_rowsFrom]
      exact rowsFrom_allvar _ (by rw [hcs_entries]; exact compactRows_allvar _ _ _) [] 0
    simp only [expectStore, htab]
    rfl

/-- **main lemma**: the model's compaction of the parsed store (with the names selected by `K`
    invalidated), nested stores left alone, is the parsed form of the grammar-level compaction -/
theorem compactCore_expect (K : Bytes → Bool) (s : NvStore) (hwf : WFParts s) (hl : Links s)
    (hfit : fitsOk s = true) :
    compactCore s.pol ((table s).map (pairOf K s.pol s.guids)) (invalK K (expectStore s))
      = .ok (expectStore (compactG K s)) := by
  obtain ⟨hparts, hlenEq, hroom⟩ := compactG_wf K s hwf hl hfit
  obtain ⟨new, hp2, hfc⟩ := compactCore_parts K s hwf hl hfit
  unfold compactCore
  simp only
  rw [hp2]
  simp only
  rw [hfc]
  simp only
  have hpolc : (compactG K s).pol = s.pol := rfl
  rw [← hpolc]
  exact layout_expect (compactG K s) hparts _ rfl (by simp only [invalK, expectStore]; exact hlenEq.symm)

/-- the same with `compactWith`, for a store without nested stores -/
theorem compactWith_expect (K : Bytes → Bool) (s : NvStore) (hwf : WFParts s) (hl : Links s)
    (hfit : fitsOk s = true) (hpl : ∀ e ∈ s.entries, e.plain = true) (recC : Store → Except Err Store) :
    compactWith s.pol recC (invalK K (expectStore s)) = .ok (expectStore (compactG K s)) := by
  rw [compactWith_eq]
  have hent := invalK_entries K s
  have hnest : ∀ v ∈ (invalK K (expectStore s)).entries, nestedOf s.pol v = none := by
    rw [hent]
    intro v hv
    obtain ⟨d, hd, hdv⟩ := List.mem_map.1 hv
    subst hdv
    rw [markK_nested]
    exact nestedOf_expect s.pol s.guids d (hpl _ (row_entry_mem s d hd))
  rw [nestedCompact_none s.pol recC _ hnest, hent, List.map_map]
  have hpairs : (fun v => (v, (none : Option Bytes))) ∘ (fun d => markK K (expectNVar s.pol s.guids d))
      = pairOf K s.pol s.guids := by funext d; rfl
  rw [hpairs]
  exact compactCore_expect K s hwf hl hfit

theorem compact_expect (K : Bytes → Bool) (s : NvStore) (hwf : WFParts s) (hl : Links s)
    (hfit : fitsOk s = true) (hpl : ∀ e ∈ s.entries, e.plain = true) (d : Nat) :
    compact s.pol (d + 1) (invalK K (expectStore s)) = .ok (expectStore (compactG K s)) := by
  simp only [compact]
  exact compactWith_expect K s hwf hl hfit hpl _

end Fiano.Nvram
