/-
  The reference grammar of AMI NVAR stores, stated RECURSIVELY: the value of a variable (or of a
  data-only entry) is either plain bytes or itself an NVAR store, to any depth.  AMI firmware uses
  this for "variables of variables" (e.g. the defaults store kept inside the StdDefaults variable);
  UEFITool and fiano try to read every value that begins with the NVAR signature as a store.

    NStore = (pol, entries : List NEntry, free, guids)
    NEntry = var flags guidref name (value : NValue) ext next
           | data flags (value : NValue) ext next
           | dead attrs next body
    NValue = raw bytes | store NStore

  `NStore.flat` serializes the nested values and yields the one-level store of `Spec.lean`; the
  serializer of the recursive grammar is `ser S = (flat S).ser`.  Well-formedness `wfN` is the
  one-level predicate `wf1` at every level plus, per entry: a raw value does not begin with the NVAR
  signature; a store value sits in an entry without extended header (fiano reads the content
  *including* the extended header as the nested store, so an extended header would end up inside the
  nested store's GUID-table area) and has the erase polarity of its parent.  All predicates are
  `Bool`-valued functions defined by structural recursion, hence decidable by evaluation.

  The abstract meaning `deepLive` is the tree of current variables: a value is bytes or, for a
  nested store, the list of ITS current variables.
-/
import FianoModel.Nvram.Spec
import FianoModel.Nvram.Model

namespace Fiano.Nvram.Spec

mutual
  inductive NStore where
    | mk (pol : Nat) (entries : List NEntry) (free : Nat) (guids : List Bytes)
  inductive NEntry where
    | var (flags : Nat) (guid : GuidRef) (name : VarName) (value : NValue) (ext : Option Ext) (next : Option Nat)
    | data (flags : Nat) (value : NValue) (ext : Option Ext) (next : Option Nat)
    | dead (attrs : Nat) (next : Nat) (body : Bytes)
  inductive NValue where
    | raw (b : Bytes)
    | store (s : NStore)
end

def NStore.pol : NStore → Nat
  | .mk p _ _ _ => p
def NStore.entries : NStore → List NEntry
  | .mk _ es _ _ => es
def NStore.free : NStore → Nat
  | .mk _ _ f _ => f
def NStore.guids : NStore → List Bytes
  | .mk _ _ _ g => g

/-! ### serializer: nested values first -/

mutual
  /-- the one-level view: every value replaced by its bytes -/
  def NStore.flat : NStore → NvStore
    | .mk pol es free guids => { pol := pol, entries := flatEntries es, free := free, guids := guids }
  def flatEntries : List NEntry → List Entry
    | [] => []
    | e :: es => e.flat :: flatEntries es
  def NEntry.flat : NEntry → Entry
    | .var f g n v x nx => .var f g n v.bytes x nx
    | .data f v x nx => .data f v.bytes x nx
    | .dead a nx b => .dead a nx b
  def NValue.bytes : NValue → Bytes
    | .raw b => b
    | .store s => s.flat.ser
end

def NStore.ser (S : NStore) : Bytes := S.flat.ser

/-! ### the directly nested stores -/

def NEntry.sub? : NEntry → Option NStore
  | .var _ _ _ (.store s) _ _ => some s
  | .data _ (.store s) _ _ => some s
  | _ => none

def NStore.subs (S : NStore) : List NStore := S.entries.filterMap NEntry.sub?

/-! ### a predicate at every nesting level -/

mutual
  def NStore.all (p : NStore → Bool) : NStore → Bool
    | .mk pol es free guids => p (.mk pol es free guids) && allEntries p es
  def allEntries (p : NStore → Bool) : List NEntry → Bool
    | [] => true
    | e :: es => allEntry p e && allEntries p es
  def allEntry (p : NStore → Bool) : NEntry → Bool
    | .var _ _ _ v _ _ => allValue p v
    | .data _ v _ _ => allValue p v
    | .dead _ _ _ => true
  def allValue (p : NStore → Bool) : NValue → Bool
    | .raw _ => true
    | .store s => s.all p
end

/-! ### well-formedness (decidable) -/

/-- fiano does not take the content `c` for a store: `NewNVarStore` (the model's `parseStore`,
    what `parseContent` calls when the content begins with the NVAR signature) refuses it, so
    `NVar.NVarStore` stays nil and the content is plain bytes for Assemble and compaction -/
def notStore (pol : Nat) (c : Bytes) : Bool :=
  match parseStore pol c with
  | .ok _ => false
  | .error _ => true

/-- raw value: the content (value and extended header) does not begin with the NVAR signature, or
    the entry has an extended header (since fixes/C10-nested-ext-header.diff fiano never reads the
    content of such an entry as a store — EVERY store behind an extended header is a raw value of the
    grammar; wp-nvfix), or it begins with the signature and fiano does not take it for a store
    (`notStore`: `NewNVarStore` refuses it);
    store value: no extended header, same erase polarity as the parent -/
def valueOk (pol : Nat) (x : Option Ext) : NValue → Bool
  | .raw b => (b ++ extSer x).take 4 != sig || x.isSome || notStore pol (b ++ extSer x)
  | .store s => x.isNone && s.pol == pol

def NEntry.valueOk (pol : Nat) : NEntry → Bool
  | .var _ _ _ v x _ => Spec.valueOk pol x v
  | .data _ v x _ => Spec.valueOk pol x v
  | .dead _ _ _ => true

/-- one level: the one-level store is well formed and every value is what it claims to be -/
def wfLevel (S : NStore) : Bool := wf1 S.flat && S.entries.all (NEntry.valueOk S.pol)

/-- well-formedness of a store of the recursive grammar: what parse ∘ assemble = id needs -/
def wfN (S : NStore) : Bool := S.all wfLevel

def WFN (S : NStore) : Prop := wfN S = true

/-- one level of the compaction hypotheses: link discipline, 16-bit fit, unique keys -/
def wfcLevel (S : NStore) : Bool := wfLevel S && linksOk S.flat && fitsOk S.flat && uniqueKeys S.flat

/-- well-formedness for compaction, at every level (fiano compacts the nested store of EVERY entry,
    also of superseded and orphan ones, and gives up at the first failure) -/
def wfcN (S : NStore) : Bool := S.all wfcLevel

def WFCN (S : NStore) : Prop := wfcN S = true

instance (S : NStore) : Decidable (WFN S) := by unfold WFN; infer_instance
instance (S : NStore) : Decidable (WFCN S) := by unfold WFCN; infer_instance

/-! ### abstract meaning: the tree of current variables -/

inductive AVal where
  | bytes (b : Bytes)
  | vars (l : List (Key × AVal))

/-- ownership rows (as `owners`) of entries that travel with a tag -/
def ownersT {T : Type} (done : List Row) : List (Entry × T) → Nat → List (Row × T)
  | [], _ => []
  | (e, t) :: rest, off =>
    (⟨off, e, headFor done e off⟩, t) :: ownersT (done ++ [⟨off, e, headFor done e off⟩]) rest (off + e.size)

/-- the current variables (as `liveK`), each with the tag of the entry that holds its current value -/
def liveT {T : Type} (dropped : Bytes → Bool) (guids : List Bytes) (rows : List (Row × T)) : List (Key × T) :=
  rows.filterMap (fun p =>
    match p.1.head with
    | some h =>
      if p.1.entry.next.isNone && !dropped (h.key guids).2 then some (h.key guids, p.2) else none
    | none => none)

mutual
  /-- the current variables of a store; the value of a variable whose value is a store is the list
      of the current variables of that store -/
  def NStore.deepLive : NStore → List (Key × AVal)
    | .mk _ es _ guids => liveT (fun _ => false) guids (ownersT [] (apairs es) 0)
  def apairs : List NEntry → List (Entry × AVal)
    | [] => []
    | e :: es => apair e :: apairs es
  def apair : NEntry → Entry × AVal
    | .var f g n v x nx => (.var f g n v.bytes x nx, aval x v)
    | .data f v x nx => (.data f v.bytes x nx, aval x v)
    | .dead a nx b => (.dead a nx b, .bytes [])
  def aval (x : Option Ext) : NValue → AVal
    | .raw b => .bytes (b ++ extSer x)
    | .store s => .vars s.deepLive
end

mutual
  /-- the leaves of a tree of current variables: (path of variable names, value bytes) -/
  def AVal.leaves (path : List Bytes) : AVal → List (List Bytes × Bytes)
    | .bytes b => [(path, b)]
    | .vars l => leavesL path l
  def leavesL (path : List Bytes) : List (Key × AVal) → List (List Bytes × Bytes)
    | [] => []
    | (k, v) :: rest => v.leaves (path ++ [k.2]) ++ leavesL path rest
end

/-- every entry, at every level, is a variable without successor: nothing superseded, no
    data-only, orphan or dead entry is left -/
def allTerminalLevel (S : NStore) : Bool :=
  S.entries.all (fun e => match e with | .var _ _ _ _ _ none => true | _ => false)

def allTerminal (S : NStore) : Bool := S.all allTerminalLevel

end Fiano.Nvram.Spec
