/-
  What the compacted store of the recursive grammar holds: its entries, read as
  (GUID, name) ↦ content, are the current variables of the original (`liveC`: nested stores in
  compacted form), and its abstract meaning — the TREE of current variables `deepLive` — is the
  original's, minus the invalidated names.
-/
import FianoModel.Nvram.CompactNMain

namespace Fiano.Nvram
open Spec

/-! ### rows that travel with their entry of the recursive grammar -/

def rowsE (S : NStore) : List (Row × NEntry) := ownersT [] (S.entries.map (fun e => (e.flat, e))) 0

def keptE (K : Bytes → Bool) (S : NStore) : List (Row × NEntry) :=
  (rowsE S).filter (fun p => kept K S.flat.guids p.1)

theorem ownersT_tag {T U : Type} (f : T → U) (done : List Row) (ps : List (Entry × T)) (off : Nat) :
    ownersT done (ps.map (fun p => (p.1, f p.2))) off = (ownersT done ps off).map (fun p => (p.1, f p.2)) :=
  ownersT_map (fun _ t => f t) done ps off

theorem cpairs_rowsE (S : NStore) :
    ownersT [] (cpairs S.entries) 0 = (rowsE S).map (fun p => (p.1, (cpair p.2).2)) := by
  unfold rowsE
  rw [← ownersT_tag (fun e => (cpair e).2)]
  congr 1
  rw [cpairs_eq, List.map_map]
  apply List.map_congr_left
  intro e _
  simp only [Function.comp, ← cpair_fst]

theorem apair_fst (e : NEntry) : (apair e).1 = e.flat := by
  cases e <;> rfl

theorem apairs_eq (es : List NEntry) : apairs es = es.map apair := by
  induction es with
  | nil => rfl
  | cons e es ih => simp [apairs, ih]

theorem apairs_rowsE (S : NStore) :
    ownersT [] (apairs S.entries) 0 = (rowsE S).map (fun p => (p.1, (apair p.2).2)) := by
  unfold rowsE
  rw [← ownersT_tag (fun e => (apair e).2)]
  congr 1
  rw [apairs_eq, List.map_map]
  apply List.map_congr_left
  intro e _
  simp only [Function.comp, ← apair_fst]

theorem rowsE_fst (S : NStore) : (rowsE S).map Prod.fst = table S.flat := by
  unfold rowsE
  rw [ownersT_fst, List.map_map, table_eq_rowsFrom, flat_entries]
  rfl

theorem rowsE_mem (S : NStore) (p : Row × NEntry) (h : p ∈ rowsE S) :
    p.1 ∈ table S.flat ∧ p.2 ∈ S.entries ∧ p.2.flat = p.1.entry := by
  refine ⟨by rw [← rowsE_fst]; exact List.mem_map_of_mem h, ?_⟩
  have := ownersT_mem _ _ _ p h
  obtain ⟨e, he, heq⟩ := List.mem_map.1 this
  injection heq with h1 h2
  subst h2
  exact ⟨he, h1⟩

theorem filter_map' {α β : Type} (l : List α) (f : α → β) (q : β → Bool) :
    (l.map f).filter q = (l.filter (fun a => q (f a))).map f := by
  induction l with
  | nil => rfl
  | cons a l ih =>
    simp only [List.map_cons, List.filter_cons]
    cases q (f a) <;> simp [ih]

theorem rowsN_eq (K : Bytes → Bool) (S : NStore) :
    rowsN K S = (keptE K S).map (fun p => (p.1, (cpair p.2).2)) := by
  unfold rowsN keptE
  rw [cpairs_rowsE, filter_map']

theorem keptE_fst (K : Bytes → Bool) (S : NStore) : (keptE K S).map Prod.fst = keptRows K S.flat := by
  unfold keptE keptRows
  rw [filter_fst, rowsE_fst]

theorem keptE_head (K : Bytes → Bool) (S : NStore) (p : Row × NEntry) (h : p ∈ keptE K S) :
    (∃ fh g n vh xh nxh, p.1.head = some (.var fh g n vh xh nxh)) ∧ (∀ a nx b, p.1.entry ≠ .dead a nx b) ∧
    p.2 ∈ S.entries ∧ p.2.flat = p.1.entry := by
  obtain ⟨h1, h2⟩ := List.mem_filter.1 h
  obtain ⟨hm, he, hf⟩ := rowsE_mem S p h1
  obtain ⟨fh, g, n, vh, xh, nxh, hh, _⟩ := row_head K S.flat p.1 ⟨hm, h2⟩
  refine ⟨⟨fh, g, n, vh, xh, nxh, hh⟩, ?_, he, hf⟩
  intro a nx b hd
  have hrok := table_rowOk S.flat p.1 hm
  simp only [RowOk, hd] at hrok
  rw [hrok] at hh; cases hh

/-! ### `liveT` -/

theorem liveT_eq {T : Type} (K : Bytes → Bool) (guids : List Bytes) (rows : List (Row × T)) :
    liveT K guids rows = (rows.filter (fun p => kept K guids p.1)).map (fun p => ((rowVar guids p.1).1, p.2)) := by
  induction rows with
  | nil => rfl
  | cons p rows ih =>
    unfold liveT at ih ⊢
    simp only [List.filterMap_cons, List.filter_cons, ih]
    cases hh : p.1.head with
    | none => simp [kept, alive, hh]
    | some h =>
      simp only [kept, alive, hh, rowVar]
      cases p.1.entry.next.isNone <;> cases K (Entry.key guids h).2 <;> simp [hh]

theorem liveT_filter {T : Type} (K : Bytes → Bool) (guids : List Bytes) (rows : List (Row × T)) :
    liveT K guids rows = (liveT (fun _ => false) guids rows).filter (fun kv => !K kv.1.2) := by
  induction rows with
  | nil => rfl
  | cons p rows ih =>
    unfold liveT at ih ⊢
    simp only [List.filterMap_cons, ih]
    cases hh : p.1.head with
    | none => simp
    | some h =>
      simp only
      cases p.1.entry.next.isNone <;> cases hk : K (Entry.key guids h).2 <;> simp [hk]

theorem liveT_cons_kept {T : Type} (guids : List Bytes) (p : Row × T) (rows : List (Row × T)) (h : Entry)
    (hh : p.1.head = some h) (hn : p.1.entry.next = none) :
    liveT (fun _ => false) guids (p :: rows) = (h.key guids, p.2) :: liveT (fun _ => false) guids rows := by
  simp [liveT, hh, hn]

/-- all entries terminal variables: every one is current -/
theorem liveT_allvar {T : Type} (guids : List Bytes) :
    ∀ (ps : List (Entry × T)) (done : List Row) (off : Nat),
      (∀ p ∈ ps, ∃ f g n v x, p.1 = Entry.var f g n v x none) →
      liveT (fun _ => false) guids (ownersT done ps off) = ps.map (fun p => (p.1.key guids, p.2)) := by
  intro ps
  induction ps with
  | nil => intro done off _; rfl
  | cons p ps ih =>
    intro done off h
    obtain ⟨e, t⟩ := p
    obtain ⟨f, g, n, v, x, he⟩ := h (e, t) (by simp)
    simp only at he
    subst he
    have := ih (done ++ [⟨off, Entry.var f g n v x none, headFor done (Entry.var f g n v x none) off⟩])
      (off + (Entry.var f g n v x none).size) (fun p hp => h p (by simp [hp]))
    simp only [ownersT, List.map_cons]
    rw [liveT_cons_kept guids _ _ (Entry.var f g n v x none) rfl rfl, this]

/-! ### contents and abstract values of the compacted entries -/

theorem compactRowsN_contents (guids : List Bytes) :
    ∀ (rows : List (Row × NValue)) (gs : List Bytes),
      (∀ p ∈ rows, ∃ fh g n vh xh nxh, p.1.head = some (.var fh g n vh xh nxh)) →
      (flatEntries (compactRowsN guids rows gs).1).map Entry.content
        = rows.map (fun p => p.2.bytes ++ extSer p.1.entry.ext) ∧
      (compactRowsN guids rows gs).1.map (fun E => (apair E).2)
        = rows.map (fun p => aval p.1.entry.ext p.2) := by
  intro rows
  induction rows with
  | nil => intro gs _; exact ⟨rfl, rfl⟩
  | cons p rows ih =>
    intro gs h
    obtain ⟨d, nv⟩ := p
    obtain ⟨fh, g, n, vh, xh, nxh, hh⟩ := h (d, nv) (by simp)
    simp only at hh
    have hrest : ∀ p ∈ rows, ∃ fh g n vh xh nxh, p.1.head = some (.var fh g n vh xh nxh) :=
      fun p hp => h p (by simp [hp])
    cases g with
    | inline gb =>
      obtain ⟨h1, h2⟩ := ih gs hrest
      simp only [compactRowsN, hh, flatEntries, List.map_cons, NEntry.flat, Entry.content, h1, h2, apair]
      exact ⟨trivial, trivial⟩
    | index i =>
      obtain ⟨h1, h2⟩ := ih (guidIdxG gs (GuidRef.resolve guids (.index i))).2 hrest
      simp only [compactRowsN, hh, flatEntries, List.map_cons, NEntry.flat, Entry.content, h1, h2, apair]
      exact ⟨trivial, trivial⟩

theorem map_prod_ext {α β γ δ : Type} (l1 : List α) (l2 : List β) (f1 : α → γ) (g1 : α → δ) (f2 : β → γ)
    (g2 : β → δ) (hf : l1.map f1 = l2.map f2) (hg : l1.map g1 = l2.map g2) :
    l1.map (fun a => (f1 a, g1 a)) = l2.map (fun b => (f2 b, g2 b)) := by
  induction l1 generalizing l2 with
  | nil =>
    cases l2 with
    | nil => rfl
    | cons b l2 => simp at hf
  | cons a l1 ih =>
    cases l2 with
    | nil => simp at hf
    | cons b l2 =>
      simp only [List.map_cons, List.cons.injEq] at hf hg ⊢
      exact ⟨by rw [hf.1, hg.1], ih l2 hf.2 hg.2⟩

/-- keys of the compacted level, row by row -/
theorem compactN_keys (K : Bytes → Bool) (S : NStore) (h : WFCN S) :
    (compactN K S).flat.entries.map (Entry.key (compactN K S).flat.guids)
      = (keptE K S).map (fun p => (rowVar S.flat.guids p.1).1) := by
  obtain ⟨_, _, _, _, hCG, hkeys⟩ := compactN_main (S.ser.length + 1) K S h (by omega)
  rw [hCG, hkeys]
  have hv := compactRows_vars K S.flat (keptRows K S.flat) [] (keptRows_facts K S.flat)
  have := congrArg (List.map Prod.fst) hv
  simp only [List.map_map, Function.comp_def] at this
  have hcE : (compactG K S.flat).entries = (compactRows S.flat.guids (keptRows K S.flat) []).1 := rfl
  have hcG : (compactG K S.flat).guids = (compactRows S.flat.guids (keptRows K S.flat) []).2 := rfl
  rw [hcE, hcG, this, ← keptE_fst, List.map_map]
  rfl

/-- the entries of the compacted store, read as (GUID, name) ↦ content, are the current variables
    with nested stores in compacted form -/
theorem compactN_vars (K : Bytes → Bool) (S : NStore) (h : WFCN S) :
    (compactN K S).flat.entries.map (fun e => (e.key (compactN K S).flat.guids, e.content)) = liveC K S := by
  have hL : liveC K S = (keptE K S).map
      (fun p => ((rowVar S.flat.guids p.1).1, (cpair p.2).2.bytes ++ extSer p.1.entry.ext)) := by
    unfold liveC keptE
    rw [← flat_guids, ownersT_map (fun e (t : NValue) => t.bytes ++ extSer e.ext), cpairs_rowsE, liveT_eq,
      List.map_map, filter_map', List.map_map]
    rfl
  rw [hL]
  apply map_prod_ext
  · exact compactN_keys K S h
  · rw [compactN_flat]
    simp only
    have hheads : ∀ p ∈ rowsN K S, ∃ fh g n vh xh nxh, p.1.head = some (.var fh g n vh xh nxh) := by
      intro p hp
      rw [rowsN_eq] at hp
      obtain ⟨q, hq, rfl⟩ := List.mem_map.1 hp
      exact (keptE_head K S q hq).1
    rw [(compactRowsN_contents S.flat.guids (rowsN K S) [] hheads).1, rowsN_eq, List.map_map]
    rfl

/-! ### the tree of current variables is preserved -/

theorem deepLive_eq (S : NStore) :
    S.deepLive = liveT (fun _ => false) S.guids (ownersT [] (apairs S.entries) 0) := by
  cases S; rfl

theorem deepLive_kept (K : Bytes → Bool) (S : NStore) :
    S.deepLive.filter (fun kv => !K kv.1.2)
      = (keptE K S).map (fun p => ((rowVar S.flat.guids p.1).1, (apair p.2).2)) := by
  rw [deepLive_eq, ← liveT_filter, apairs_rowsE, liveT_eq, filter_map', List.map_map, ← flat_guids]
  rfl

theorem compactN_allvar (K : Bytes → Bool) (S : NStore) :
    ∀ E ∈ (compactN K S).entries, ∃ f g n v x, E = NEntry.var f g n v x none := by
  intro E hE
  rw [compactN_entries] at hE
  obtain ⟨p, _, f, g, n, h⟩ := compactRowsN_entries _ _ _ E hE
  exact ⟨f, g, n, _, _, h⟩

theorem aval_cval (x : Option Ext) (v : NValue)
    (ih : ∀ n, v = .store n → (compactN0 n).deepLive = n.deepLive) : aval x (cval v) = aval x v := by
  cases v with
  | raw b => rfl
  | store n =>
    show AVal.vars (compactN0 n).deepLive = AVal.vars n.deepLive
    rw [ih n rfl]

/-- **the abstract meaning is preserved, to any depth**: the tree of current variables of the
    compacted store is the tree of the original, minus the variables whose (top-level) name was
    invalidated -/
theorem deepLive_compactN : ∀ (m : Nat) (K : Bytes → Bool) (S : NStore), WFCN S → S.ser.length < m →
    (compactN K S).deepLive = S.deepLive.filter (fun kv => !K kv.1.2) := by
  intro m
  induction m with
  | zero => intro K S _ h; omega
  | succ m ih =>
    intro K S h hm
    have hc := wfcN_level S h
    rw [deepLive_kept, deepLive_eq, apairs_eq]
    have hall : ∀ p ∈ (compactN K S).entries.map apair, ∃ f g n v x, p.1 = Entry.var f g n v x none := by
      intro p hp
      obtain ⟨E, hE, rfl⟩ := List.mem_map.1 hp
      obtain ⟨f, g, n, v, x, hEq⟩ := compactN_allvar K S E hE
      subst hEq
      exact ⟨f, g, n, v.bytes, x, rfl⟩
    rw [liveT_allvar _ _ [] 0 hall, List.map_map]
    show (compactN K S).entries.map (fun E => ((apair E).1.key (compactN K S).guids, (apair E).2)) = _
    apply map_prod_ext
    · have := compactN_keys K S h
      rw [flat_entries, List.map_map, flat_guids] at this
      rw [← this]
      apply List.map_congr_left
      intro E _
      simp only [Function.comp, apair_fst]
    · have hheads : ∀ p ∈ rowsN K S, ∃ fh g n vh xh nxh, p.1.head = some (.var fh g n vh xh nxh) := by
        intro p hp
        rw [rowsN_eq] at hp
        obtain ⟨q, hq, rfl⟩ := List.mem_map.1 hp
        exact (keptE_head K S q hq).1
      rw [compactN_entries, (compactRowsN_contents S.flat.guids (rowsN K S) [] hheads).2, rowsN_eq, List.map_map]
      apply List.map_congr_left
      intro p hp
      obtain ⟨_, hnd, he, hf⟩ := keptE_head K S p hp
      have hsubih : ∀ n ∈ S.subs, (compactN0 n).deepLive = n.deepLive := by
        intro n hn
        have hsz := sub_size S n hn
        have := ih (fun _ => false) n (hc.subs n hn) (by omega)
        rw [compactN0_eq, this]
        simp
      simp only [Function.comp]
      cases hp2 : p.2 with
      | dead a nx b => rw [hp2] at hf; exact absurd hf.symm (hnd a nx b)
      | var f g n v x nx =>
        rw [hp2] at hf he
        have hx : p.1.entry.ext = x := by rw [← hf]; rfl
        rw [hx]
        exact aval_cval x v (fun n0 hv => hsubih n0 (List.mem_filterMap.2 ⟨_, he, by rw [hv]; rfl⟩))
      | data f v x nx =>
        rw [hp2] at hf he
        have hx : p.1.entry.ext = x := by rw [← hf]; rfl
        rw [hx]
        exact aval_cval x v (fun n0 hv => hsubih n0 (List.mem_filterMap.2 ⟨_, he, by rw [hv]; rfl⟩))

end Fiano.Nvram
