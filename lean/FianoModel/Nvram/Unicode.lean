/-
  Model of pkg/unicode/ucs2.go (UCS2ToUTF8 / UTF8ToUCS2) with the transformers of
  golang.org/x/text/encoding/unicode v0.6.0 (UTF16(LittleEndian, IgnoreBOM)) and Go's
  unicode/utf8 + unicode/utf16 written out concretely.  Code points and bytes are `Nat`s
  inside this file; the byte-string wrappers are at the end.

  Quirks reproduced (checked against the real packages by the C10 harness, ops `ucs2dec`, `ucs2enc`):
   * decoder: a surrogate unit followed by a unit in DC00..DFFF is passed to utf16.DecodeRune
     (so `low low` consumes four bytes and yields one U+FFFD); any other surrogate yields U+FFFD and
     consumes two bytes; a single trailing byte yields U+FFFD.
   * encoder: invalid UTF-8 yields U+FFFD per byte (utf8.DecodeRune semantics: accept ranges).
   * UCS2ToUTF8 strips ONE trailing NUL character; (repaired code) the empty string stays empty
     — the unrepaired code indexes output[-1] and panics (DESIGN §8 row 3).
-/
import FianoModel.Base.Bytes

namespace Fiano.Nvram

/-- utf8.EncodeRune on a scalar value (callers replace surrogates / out-of-range by U+FFFD first) -/
def utf8EncN (r : Nat) : List Nat :=
  if r < 0x80 then [r]
  else if r < 0x800 then [0xC0 + r / 64, 0x80 + r % 64]
  else if r < 0x10000 then [0xE0 + r / 4096, 0x80 + r / 64 % 64, 0x80 + r % 64]
  else [0xF0 + r / 262144, 0x80 + r / 4096 % 64, 0x80 + r / 64 % 64, 0x80 + r % 64]

def isSurr (u : Nat) : Bool := 0xD800 ≤ u && u < 0xE000
def isLowSurr (u : Nat) : Bool := 0xDC00 ≤ u && u < 0xE000

/-- utf16.DecodeRune -/
def pairRune (hi lo : Nat) : Nat :=
  if hi < 0xDC00 then 0x10000 + (hi - 0xD800) * 1024 + (lo - 0xDC00) else 0xFFFD

/-- one iteration of utf16Decoder.Transform (little endian, atEOF = true) on a non-empty
    input: (rune written — already U+FFFD where utf8.RuneLen is negative —, bytes consumed) -/
def utf16Step : List Nat → Nat × Nat
  | [] => (0xFFFD, 0)
  | [_] => (0xFFFD, 1)
  | a :: b :: rest =>
    let u := a + 256 * b
    if isSurr u then
      match rest with
      | c :: d :: _ => if isLowSurr (c + 256 * d) then (pairRune u (c + 256 * d), 4) else (0xFFFD, 2)
      | _ => (0xFFFD, 2)
    else (u, 2)

/-- the decoder loop; `fuel` ≥ input length is never exhausted (each step consumes ≥ 1 byte) -/
def utf16DecN : Nat → List Nat → List Nat
  | 0, _ => []
  | _, [] => []
  | f + 1, a :: t =>
    let s := utf16Step (a :: t)
    s.1 :: utf16DecN f (t.drop (s.2 - 1))

def isCont (b : Nat) : Bool := 0x80 ≤ b && b < 0xC0

/-- utf8.DecodeRune: (rune, size); size 1 with U+FFFD on any ill-formed prefix -/
def decodeRune : List Nat → Nat × Nat
  | [] => (0xFFFD, 0)
  | p0 :: t =>
    if p0 < 0x80 then (p0, 1)
    else if p0 < 0xC2 then (0xFFFD, 1)
    else if p0 < 0xE0 then
      match t with
      | b1 :: _ => if isCont b1 then (p0 % 32 * 64 + b1 % 64, 2) else (0xFFFD, 1)
      | _ => (0xFFFD, 1)
    else if p0 < 0xF0 then
      match t with
      | b1 :: b2 :: _ =>
        if (if p0 = 0xE0 then 0xA0 else 0x80) ≤ b1 ∧ b1 ≤ (if p0 = 0xED then 0x9F else 0xBF) ∧ isCont b2
        then ((p0 % 16 * 64 + b1 % 64) * 64 + b2 % 64, 3) else (0xFFFD, 1)
      | _ => (0xFFFD, 1)
    else if p0 < 0xF5 then
      match t with
      | b1 :: b2 :: b3 :: _ =>
        if (if p0 = 0xF0 then 0x90 else 0x80) ≤ b1 ∧ b1 ≤ (if p0 = 0xF4 then 0x8F else 0xBF) ∧ isCont b2
            ∧ isCont b3
        then (((p0 % 8 * 64 + b1 % 64) * 64 + b2 % 64) * 64 + b3 % 64, 4) else (0xFFFD, 1)
      | _ => (0xFFFD, 1)
    else (0xFFFD, 1)

/-- one rune as UTF-16 little endian bytes (utf16.EncodeRune for r > 0xFFFF) -/
def runeUnitsN (r : Nat) : List Nat :=
  if r ≤ 0xFFFF then [r % 256, r / 256]
  else
    let hi := 0xD800 + (r - 0x10000) / 1024 % 1024
    let lo := 0xDC00 + (r - 0x10000) % 1024
    [hi % 256, hi / 256, lo % 256, lo / 256]

/-- utf16Encoder.Transform (little endian); `fuel` ≥ input length is never exhausted because
    every step consumes at least one byte. -/
def utf16EncN : Nat → List Nat → List Nat
  | 0, _ => []
  | _, [] => []
  | f + 1, p0 :: t =>
    let rn := decodeRune (p0 :: t)
    runeUnitsN rn.1 ++ utf16EncN f (t.drop (rn.2 - 1))

def toNats (b : Bytes) : List Nat := b.map (·.toNat)
def ofNats (l : List Nat) : Bytes := l.map UInt8.ofNat

/-- UCS2ToUTF8 (repaired: the empty string is returned unchanged) -/
def ucs2ToUtf8 (input : Bytes) : Bytes :=
  let out := (utf16DecN input.length (toNats input)).flatMap utf8EncN
  ofNats (if out.getLast? = some 0 then out.dropLast else out)

/-- UTF8ToUCS2: appends the terminator, then encodes -/
def utf8ToUcs2 (name : Bytes) : Bytes :=
  let p := toNats name ++ [0]
  ofNats (utf16EncN p.length p)

end Fiano.Nvram
