/-
  Facts about the ownership table of a well-formed store: link discipline, heads.
-/
import FianoModel.Nvram.Pass1Lemmas

namespace Fiano.Nvram
open Spec

theorem nodupB_nodup {α : Type} [DecidableEq α] (l : List α) (h : nodupB l = true) : l.Nodup := by
  induction l with
  | nil => exact List.nodup_nil
  | cons a l ih =>
    simp only [nodupB, Bool.and_eq_true, Bool.not_eq_true', List.contains_eq_mem, decide_eq_false_iff_not] at h
    exact List.nodup_cons.2 ⟨h.1, ih h.2⟩

theorem filterMap_inj {α β : Type} (f : α → Option β) (l : List α) (h : (l.filterMap f).Nodup)
    (a b : α) (ha : a ∈ l) (hb : b ∈ l) (x : β) (hfa : f a = some x) (hfb : f b = some x) : a = b := by
  induction l with
  | nil => simp at ha
  | cons c l ih =>
    rcases List.mem_cons.1 ha with ha1 | ha1
    · rcases List.mem_cons.1 hb with hb1 | hb1
      · rw [ha1, hb1]
      · exfalso
        rw [ha1] at hfa
        simp only [List.filterMap_cons, hfa] at h
        have hx : x ∈ l.filterMap f := List.mem_filterMap.2 ⟨b, hb1, hfb⟩
        exact (List.nodup_cons.1 h).1 hx
    · rcases List.mem_cons.1 hb with hb1 | hb1
      · exfalso
        rw [hb1] at hfb
        simp only [List.filterMap_cons, hfb] at h
        have hx : x ∈ l.filterMap f := List.mem_filterMap.2 ⟨a, ha1, hfa⟩
        exact (List.nodup_cons.1 h).1 hx
      · apply ih _ ha1 hb1
        simp only [List.filterMap_cons] at h
        split at h
        · exact h
        · exact (List.nodup_cons.1 h).2

theorem row_entry_mem (s : NvStore) (d : Row) (h : d ∈ table s) : d.entry ∈ s.entries := by
  rw [← table_entries s]
  exact List.mem_map_of_mem h

/-- link distances are positive (field range `okNext`) -/
theorem pos_of_parts (s : NvStore) (hp : WFParts s) :
    ∀ d ∈ table s, ∀ r, d.entry.next = some r → 0 < r := by
  intro d hd r hr
  have hok := hp.ok d.entry (row_entry_mem s d hd)
  cases he : d.entry with
  | var f g n v x nx =>
    rw [he] at hok hr
    simp only [Entry.ok, Bool.and_eq_true] at hok
    simp only [Entry.next] at hr
    subst hr
    have := hok.2.2
    simp only [okNext, Bool.and_eq_true, decide_eq_true_eq] at this
    exact this.1
  | data f v x nx =>
    rw [he] at hok hr
    simp only [Entry.ok, Bool.and_eq_true] at hok
    simp only [Entry.next] at hr
    subst hr
    have := hok.2.2
    simp only [okNext, Bool.and_eq_true, decide_eq_true_eq] at this
    exact this.1
  | dead a nx b => rw [he] at hr; simp [Entry.next] at hr

theorem links_of_parts (s : NvStore) (hp : WFParts s) (hlk : linksOk s = true) : Links s := by
  simp only [linksOk, Bool.and_eq_true, List.all_eq_true] at hlk
  obtain ⟨hnd, hnv⟩ := hlk
  have hnd := nodupB_nodup _ hnd
  have htgt : ∀ d ∈ table s, d.head.isSome = true → ∀ r, d.entry.next = some r → d.off + r ∈ targets s := by
    intro d hd hs r hr
    unfold targets
    exact List.mem_filterMap.2 ⟨d, hd, by simp [hs, hr]⟩
  refine ⟨?_, ?_, ?_⟩
  · intro d hd r hr
    have hok := hp.ok d.entry (row_entry_mem s d hd)
    cases he : d.entry with
    | var f g n v x nx =>
      rw [he] at hok hr
      simp only [Entry.ok, Bool.and_eq_true] at hok
      simp only [Entry.next] at hr
      subst hr
      have := hok.2.2
      simp only [okNext, Bool.and_eq_true, decide_eq_true_eq] at this
      exact this.1
    | data f v x nx =>
      rw [he] at hok hr
      simp only [Entry.ok, Bool.and_eq_true] at hok
      simp only [Entry.next] at hr
      subst hr
      have := hok.2.2
      simp only [okNext, Bool.and_eq_true, decide_eq_true_eq] at this
      exact this.1
    | dead a nx b => rw [he] at hr; simp [Entry.next] at hr
  · intro d1 h1 d2 h2 hs1 hs2 r1 r2 hr1 hr2 heq
    exact filterMap_inj _ (table s) hnd d1 d2 h1 h2 (d1.off + r1) (by simp [hs1, hr1]) (by simp [hs2, hr2, heq])
  · intro d hd ⟨f, g, n, v, x, nx, he⟩ d' hd' hs' r hr heq
    have := hnv d hd
    rw [he] at this
    simp only [Bool.not_eq_true', List.contains_eq_mem, decide_eq_false_iff_not] at this
    exact this (heq ▸ htgt d' hd' hs' r hr)

theorem links_of_wf (s : NvStore) (hwf : WF s) (hlk : linksOk s = true) : Links s :=
  links_of_parts s (wf_parts s hwf) hlk

/-- every head recorded in the table is a `var` entry of the store -/
def HeadVar (es : List Entry) (d : Row) : Prop :=
  ∀ hE, d.head = some hE → (∃ f g n v x nx, hE = .var f g n v x nx) ∧ hE ∈ es

theorem headFor_headVar (all : List Entry) (done : List Row) (e : Entry) (off : Nat) (he : e ∈ all)
    (hd : ∀ d ∈ done, HeadVar all d) : HeadVar all ⟨off, e, headFor done e off⟩ := by
  intro hE hh
  cases e with
  | var f g n v x nx =>
    simp only [headFor] at hh
    injection hh with hh
    subst hh
    exact ⟨⟨f, g, n, v, x, nx, rfl⟩, he⟩
  | dead a nx b => simp [headFor] at hh
  | data f v x nx =>
    simp only [headFor] at hh
    cases hfd : done.find? (fun d => d.linksTo off) with
    | none => simp [hfd] at hh
    | some l =>
      simp only [hfd] at hh
      exact hd l (List.mem_of_find?_eq_some hfd) hE hh

theorem rowsFrom_headVar (all : List Entry) (es : List Entry) (done : List Row) (off : Nat)
    (hes : ∀ e ∈ es, e ∈ all) (hd : ∀ d ∈ done, HeadVar all d) :
    ∀ d ∈ rowsFrom done es off, HeadVar all d := by
  induction es generalizing done off with
  | nil => intro d h; simp [rowsFrom] at h
  | cons e es ih =>
    intro d h
    simp only [rowsFrom, List.mem_cons] at h
    have h0 := headFor_headVar all done e off (hes e (by simp)) hd
    rcases h with h | h
    · subst h; exact h0
    · apply ih (done ++ [⟨off, e, headFor done e off⟩]) (off + e.size) (fun e' he' => hes e' (by simp [he'])) _ d h
      intro d' hd'
      rcases List.mem_append.1 hd' with hd' | hd'
      · exact hd d' hd'
      · simp only [List.mem_singleton] at hd'; subst hd'; exact h0

theorem table_headVar (s : NvStore) : ∀ d ∈ table s, HeadVar s.entries d := by
  rw [table_eq_rowsFrom]
  exact rowsFrom_headVar s.entries s.entries [] 0 (fun e h => h) (by simp)

theorem table_rowOk (s : NvStore) : ∀ d ∈ table s, RowOk d := by
  unfold table
  exact owners_rowOk [] s.entries 0 (by simp)

end Fiano.Nvram
