/-
  Model of the AMI NVAR code of fiano:
    pkg/uefi/nvram.go            NewNVarStore, newNVar, parseHeader/Next/ExtendedHeader/DataOnly/GUID/Name,
                                 getGUIDFromStore, NVar.Assemble, GetGUIDStoreBuf
    pkg/visitors/assemble.go     case *uefi.NVarStore, case *uefi.NVar
    pkg/visitors/nvramcompact.go compactNVarStore, NVRamCompact
    pkg/visitors/nvarinvalidate.go NVarInvalidate (with visitors.Find: nested NVars are not matched)
    pkg/unicode/ucs2.go          (Nvram/Unicode.lean)

  The model follows the code AS REPAIRED by fixes/C05-nvar-bounds.diff (Size < 10 is a parse error;
  empty UCS-2 name does not panic), fixes/C10-ucs2-terminator.diff (UCS-2 terminator searched at
  even offsets) and fixes/C10-compact-extflag.diff (compaction takes the ExtHeader / AuthWrite
  attribute bits from the entry that supplies the content).

  Process-wide state `uefi.Attributes.ErasePolarity` is the explicit parameter `pol`.

  Nested stores (an entry whose content starts with "NVAR" and parses as a store) are modelled
  functionally: the nested store of an entry is re-derived from the entry's content bytes
  (`nestedOf`) wherever the Go code follows the `NVarStore` pointer it created at parse time; the
  recursion into nested stores takes a fuel argument (`asmStore`, `compact`), proved never
  exhausted (FuelNested.lean).  The theorems of Props/C10.lean cover nested stores to any depth
  (recursive grammar: SpecNested.lean).

  Go panics that remain reachable on hostile stores are the error value `Err.panic`.
-/
import FianoModel.Base.Bytes
import FianoModel.Nvram.Unicode

namespace Fiano.Nvram

/-! ### constants (tied to the source by Nvram/Tie.lean) -/

def sig : Bytes := [0x4E, 0x56, 0x41, 0x52]   -- "NVAR", NVarEntrySignature little endian
def hdrSize : Nat := 10
def guidSize : Nat := 16
def zeroGuid : Bytes := List.replicate 16 0

def aRuntime : Nat := 1
def aAscii : Nat := 2
def aGuid : Nat := 4
def aDataOnly : Nat := 8
def aExtHdr : Nat := 16
def aHwErr : Nat := 32
def aAuthWr : Nat := 64
def aValid : Nat := 128

/-- `a & m != 0` for a single-bit mask `m` -/
def hasBit (a m : Nat) : Bool := a / m % 2 == 1

inductive EType where
  | invalid | invalidLink | link | data | full
  deriving DecidableEq, Repr, Inhabited

/-- `NVar.IsValid` -/
def EType.isValid : EType → Bool
  | .link | .data | .full => true
  | _ => false

structure NVar where
  size : Nat               -- Header.Size (uint16)
  next : Nat               -- Header.Next (3 bytes, little endian)
  attrs : Nat              -- Header.Attributes (uint8)
  guid : Bytes             -- GUID (16 bytes)
  guidIndex : Option Nat   -- *GUIDIndex
  name : Bytes             -- Name (Go string = bytes)
  type : EType
  offset : Nat
  nextOffset : Nat
  buf : Bytes
  dataOffset : Nat
  hasContent : Bool        -- parseContent was reached for this entry (a nested store may exist)
  deriving DecidableEq, Repr, Inhabited

structure Store where
  entries : List NVar
  guidStore : List Bytes
  buf : Bytes
  fso : Nat                -- FreeSpaceOffset
  gso : Nat                -- GUIDStoreOffset
  length : Nat
  deriving DecidableEq, Repr, Inhabited

inductive Err where
  | parse | asm | panic | fuel
  deriving DecidableEq, Repr, Inhabited

def nmInvalid : Bytes := [73, 110, 118, 97, 108, 105, 100]                                   -- "Invalid"
def nmInvalidLink : Bytes := [73, 110, 118, 97, 108, 105, 100, 32, 108, 105, 110, 107]       -- "Invalid link"
def nmInvalidExt : Bytes := [73, 110, 118, 97, 108, 105, 100, 32, 69, 120, 116, 72, 101, 97, 100, 101, 114]
  -- "Invalid ExtHeader" (the Go name continues with the error text; names of invalid entries are
  -- never compared)

/-- `buf[DataOffset:]` -/
def content (v : NVar) : Bytes := v.buf.drop v.dataOffset

/-! ### parse -/

/-- `uefi.IsErased` -/
def isErased (pol : Nat) (b : Bytes) : Bool := b.all (fun c => c.toNat == pol)

/-- GUID number `k` of the table that grows downwards from the end of the store buffer -/
def guidAt (sb : Bytes) (k : Nat) : Bytes := slice sb (sb.length - 16 * (k + 1)) 16

/-- `getGUIDFromStore(i)`: the GUID and the (lazily extended) in-memory GUID store.
    `i + 1` is computed in uint8 (wraps for 255), as in Go. -/
def getGuid (sb : Bytes) (gs : List Bytes) (i : Nat) : Bytes × List Bytes :=
  let i1 := (i + 1) % 256
  if gs.length < i1 then
    if sb.length < 16 * i1 then (zeroGuid, gs)         -- Seek before the start fails
    else
      let gs' := gs ++ (List.range (i1 - gs.length)).map (fun j => guidAt sb (gs.length + j))
      (match gs'[i]? with | some g => g | none => zeroGuid, gs')
  else (match gs[i]? with | some g => g | none => zeroGuid, gs)

/-- `parseExtendedHeader` succeeded (true) or turned the entry into an invalid one (false).
    `buf` is the entry buffer (`size` bytes, `size ≥ 10`). -/
def extOk (attrs size : Nat) (buf : Bytes) : Bool :=
  if !hasBit attrs aExtHdr then true
  else
    let es := fromLE (slice buf (size - 2) 2)
    if es > size - hdrSize then false
    else
      let eo := size - es
      if eo ≥ size then false                       -- reading the ext attributes hits EOF
      else if !hasBit attrs aAuthWr then
        if eo + 1 + 8 > size then false             -- no room for the time stamp
        else if hasBit attrs aDataOnly then decide (eo + 1 + 8 + 32 ≤ size)   -- hash
        else true
      else true

/-- `bytes.IndexByte(b, 0)` -/
def indexByte0 : Bytes → Option Nat
  | [] => none
  | c :: rest => if c = 0 then some 0 else (indexByte0 rest).map (· + 1)

/-- first `00 00` at an even offset (repaired `parseName`) -/
def indexNul16 : Bytes → Option Nat
  | a :: b :: rest => if a = 0 ∧ b = 0 then some 0 else (indexNul16 rest).map (· + 2)
  | _ => none

/-- `parseName` on `buf[DataOffset:]`: (name, bytes consumed) -/
def parseName (attrs : Nat) (nb : Bytes) : Option (Bytes × Nat) :=
  if hasBit attrs aAscii then
    match indexByte0 nb with
    | none => none
    | some e => some (nb.take e, e + 1)
  else
    match indexNul16 nb with
    | none => none
    | some e => some (ucs2ToUtf8 (nb.take e), e + 2)

/-- `lastVariableFlag` -/
def lastFlag (pol : Nat) : Nat := if pol = 0xFF then 0xFFFFFF else 0

/-- `newNVar` after the header has been decoded and the entry buffer `vbuf = buf[:Size]` cut out:
    parseNext, parseExtendedHeader, parseDataOnly, parseGUID, parseName.  `sb`, `gs`, `es` are the
    store's buffer, GUID store and entries parsed so far. -/
def parseBody (pol : Nat) (sb : Bytes) (gs : List Bytes) (es : List NVar) (offset size next attrs : Nat)
    (vbuf : Bytes) : Except Err (Option (NVar × List Bytes)) :=
  let base : NVar := { size := size, next := next, attrs := attrs, guid := zeroGuid, guidIndex := none,
                       name := [], type := .full, offset := offset, nextOffset := 0, buf := vbuf,
                       dataOffset := hdrSize, hasContent := false }
  if !hasBit attrs aValid then
    .ok (some ({ base with name := nmInvalid, type := .invalid }, gs))
  else if pol ≠ 0xFF ∧ pol ≠ 0 then .error .parse
  else
    let isLink := next ≠ lastFlag pol
    let ty : EType := if isLink then .link else .full
    let no := if isLink then offset + next else 0
    if !extOk attrs size vbuf then
      .ok (some ({ base with name := nmInvalidExt, type := .invalid, nextOffset := no }, gs))
    else if hasBit attrs aDataOnly then
      match es.find? (fun l => l.type.isValid && l.nextOffset == offset) with
      | some l =>
        .ok (some ({ base with guid := l.guid, name := l.name, type := if no = 0 then .data else ty,
                               nextOffset := no, hasContent := true }, gs))
      | none =>
        .ok (some ({ base with name := nmInvalidLink, type := .invalidLink, nextOffset := no,
                               hasContent := true }, gs))
    else
      let rest := vbuf.drop hdrSize
      -- GUID or GUID index
      let g : Option (Bytes × Option Nat × List Bytes × Nat) :=
        if hasBit attrs aGuid then
          if rest.length < guidSize then none else some (rest.take guidSize, none, gs, hdrSize + guidSize)
        else
          match rest with
          | [] => none
          | i :: _ => let r := getGuid sb gs i.toNat; some (r.1, some i.toNat, r.2, hdrSize + 1)
      match g with
      | none => .error .parse
      | some (guid, gi, gs', doff) =>
        match parseName attrs (vbuf.drop doff) with
        | none => .error .parse
        | some (name, used) =>
          .ok (some ({ base with guid := guid, guidIndex := gi, name := name, type := ty, nextOffset := no,
                                 dataOffset := doff + used, hasContent := true }, gs'))

/-- `newNVar(buf, offset, s)`: erased check, `parseHeader`, then the body.  `none` = the rest is
    erased. -/
def newNVar (pol : Nat) (sb : Bytes) (gs : List Bytes) (es : List NVar) (buf : Bytes) (offset : Nat) :
    Except Err (Option (NVar × List Bytes)) :=
  if isErased pol buf then .ok none
  else if buf.length < hdrSize then .error .parse
  else if slice buf 0 4 ≠ sig then .error .parse
  else
    let size := fromLE (slice buf 4 2)
    if buf.length < size then .error .parse
    else if size < hdrSize then .error .parse           -- repaired (DESIGN §8 rows 1, 2)
    else
      parseBody pol sb gs es offset size (fromLE (slice buf 6 3)) (fromLE (slice buf 9 1)) (buf.take size)

/-- the loop of `NewNVarStore`; every iteration consumes `Header.Size ≥ 10` bytes, so the fuel
    `|buf| + 1` is never exhausted -/
def walk (pol : Nat) (sb : Bytes) : Nat → Nat → Nat → List Bytes → List NVar → Except Err Store
  | 0, _, _, _, _ => .error .fuel
  | f + 1, fso, gso, gs, es =>
    if fso < gso then
      match newNVar pol sb gs es (slice sb fso (gso - fso)) fso with
      | .error e => .error e
      | .ok none => .ok ⟨es, gs, sb, fso, gso, sb.length⟩
      | .ok (some (v, gs')) =>
        -- fixes/C04-nvar-table-overlap.diff: the GUID index of this entry may have grown the table into the
        -- entries (`FreeSpaceOffset > GUIDStoreOffset`): a parse error
        if sb.length - 16 * gs'.length < fso + v.size then .error .parse
        else walk pol sb f (fso + v.size) (sb.length - 16 * gs'.length) gs' (es ++ [v])
    else .ok ⟨es, gs, sb, fso, gso, sb.length⟩

/-- `NewNVarStore` -/
def parseStore (pol : Nat) (b : Bytes) : Except Err Store :=
  walk pol b (b.length + 1) 0 b.length [] []

/-- the nested store Go attached to the entry in `parseContent` (errors there are ignored).  Since
    fixes/C10-nested-ext-header.diff `newNVar` calls `parseContent` only for an entry WITHOUT an extended
    header (behind `DataOffset` there is content + header; read as a store, the header bytes would sit in
    the nested store's GUID table): such content stays plain bytes. -/
def nestedOf (pol : Nat) (v : NVar) : Option Store :=
  if (v.hasContent && !hasBit v.attrs aExtHdr) && (content v).take 4 == sig then
    match parseStore pol (content v) with
    | .ok s => some s
    | .error _ => none
  else none

/-! ### assemble -/

/-- `Write3Size` as a number -/
def write3 (x : Nat) : Nat := if x ≥ 0xFFFFFF then 0xFFFFFF else x

/-- name as written by `NVar.Assemble` -/
def nameBytes (attrs : Nat) (name : Bytes) : Bytes :=
  if hasBit attrs aAscii then name ++ [0] else utf8ToUcs2 name

/-- GUID / GUID index and name part; `none` = nil `GUIDIndex` dereferenced -/
def guidNamePart (v : NVar) : Option Bytes :=
  if hasBit v.attrs aDataOnly then some []
  else if hasBit v.attrs aGuid then some (v.guid ++ nameBytes v.attrs v.name)
  else match v.guidIndex with
    | none => none
    | some i => some (UInt8.ofNat i :: nameBytes v.attrs v.name)

/-- `NVar.Assemble(content, checkOnly)`.  In the non-check mode the header bytes still carry the
    old `Size` (Go's warning: "must be Assembled again"). -/
def asmNVar (pol : Nat) (v : NVar) (c : Bytes) (checkOnly : Bool) : Except Err NVar :=
  if !v.type.isValid then .error .asm
  else if v.nextOffset ≠ 0 && !checkOnly then .error .asm
  else
    let next' := if v.nextOffset ≠ 0 then write3 (v.nextOffset - v.offset) else pol + 256 * pol + 65536 * pol
    let hdr := sig ++ leN 2 v.size ++ leN 3 next' ++ [UInt8.ofNat v.attrs]
    match guidNamePart v with
    | none => .error .panic
    | some gn =>
      let pre := hdr ++ gn
      if checkOnly then
        if v.dataOffset ≠ pre.length then .error .asm
        else if v.size ≠ (pre.length + c.length) % 65536 then .error .asm
        else .ok { v with next := next', buf := pre ++ c }
      else if pre.length + c.length > 0xFFFF then .error .asm     -- repaired: does not fit Header.Size
      else
        .ok { v with next := next', dataOffset := pre.length, size := pre.length + c.length,
                     buf := pre ++ c }

/-- Assemble visitor over the entries: children (nested store) first, then the check-only
    rebuild of every valid entry.  `rec` assembles a nested store. -/
def asmEntries (pol : Nat) (rec : Store → Except Err Store) : List NVar → Except Err (List NVar)
  | [] => .ok []
  | v :: vs =>
    let nb : Except Err (Option Bytes) :=
      match nestedOf pol v with
      | some ns => match rec ns with
        | .ok r => .ok (some r.buf)
        | .error e => .error e
      | none => .ok none
    match nb with
    | .error e => .error e
    | .ok nb =>
      let r : Except Err NVar :=
        if v.type.isValid then
          asmNVar pol v (match nb with | some b => b | none => content v) true
        else .ok v
      match r with
      | .error e => .error e
      | .ok v' =>
        match asmEntries pol rec vs with
        | .error e => .error e
        | .ok vs' => .ok (v' :: vs')

/-- `case *uefi.NVarStore` of the Assemble visitor, after the children: entries, erased gap,
    reversed GUID table. -/
def layout (pol : Nat) (s : Store) (es : List NVar) : Except Err Store :=
  let data := es.flatMap (·.buf)
  let fso := data.length
  -- `GUIDStoreOffset = Length - 16·len(GUIDStore)` is a uint64: it wraps when the table is longer than the
  -- store, and `make` then panics; otherwise (fix c8599a9) entries overlapping the table are an error
  if s.length < 16 * s.guidStore.length then .error .panic
  else if s.length - 16 * s.guidStore.length < fso then .error .asm
  else
    let gso := s.length - 16 * s.guidStore.length
    .ok { s with entries := es, fso := fso, gso := gso,
                 buf := data ++ List.replicate (gso - fso) (UInt8.ofNat pol) ++ s.guidStore.reverse.flatten }

def asmStoreWith (pol : Nat) (rec : Store → Except Err Store) (s : Store) : Except Err Store :=
  match asmEntries pol rec s.entries with
  | .error e => .error e
  | .ok es => layout pol s es

/-- `(&visitors.Assemble{}).Run(store)`; `d` bounds the nesting depth -/
def asmStore (pol : Nat) : Nat → Store → Except Err Store
  | 0, _ => .error .fuel
  | d + 1, s => asmStoreWith pol (asmStore pol d) s

/-! ### compact -/

def lookupOff {α : Type} (m : List (Nat × α)) (o : Nat) : Option α :=
  match m.find? (fun p => p.1 == o) with
  | some p => some p.2
  | none => none

/-- `h, ok := linkedNVar[v.Offset]; if !ok { h = v }` -/
def headOr (o : Option NVar) (v : NVar) : NVar :=
  match o with
  | some h => h
  | none => v

/-- first loop of `compactNVarStore`: the map offset ↦ head (most recent insertion first) and the
    kept entries in order.  Entries travel with the compacted bytes of their nested store. -/
def pass1 : List (NVar × Option Bytes) → List (Nat × NVar) → List (NVar × Option Bytes) →
    List (Nat × NVar) × List (NVar × Option Bytes)
  | [], m, keep => (m, keep)
  | (v, nb) :: vs, m, keep =>
    if !v.type.isValid then pass1 vs m keep
    else
      let h := headOr (lookupOff m v.offset) v
      if v.nextOffset ≠ 0 then pass1 vs ((v.nextOffset, h) :: m) keep
      else pass1 vs ((v.offset, h) :: m) (keep ++ [(v, nb)])

/-- repaired compaction: `h.Attributes &^ (ExtHeader|AuthWrite) | k.Attributes & (ExtHeader|AuthWrite)` -/
def mergeAttrs (h k : Nat) : Nat :=
  h % 16 + 16 * (k / 16 % 2) + 32 * (h / 32 % 2) + 64 * (k / 64 % 2) + 128 * (h / 128 % 2)

/-- `guidStoredIndex` / `guidStore`: index of a GUID in first-use order (uint8) -/
def guidIdx (gs : List Bytes) (g : Bytes) : Nat × List Bytes :=
  match gs.findIdx? (· == g) with
  | some i => (i % 256, gs)
  | none => (gs.length % 256, gs ++ [g])

/-- second loop of `compactNVarStore` -/
def pass2 (pol : Nat) (m : List (Nat × NVar)) :
    List (NVar × Option Bytes) → Nat → List Bytes → Except Err (List (NVar × Option Bytes) × List Bytes)
  | [], _, gs => .ok ([], gs)
  | (k, nb) :: ks, off, gs =>
    match lookupOff m k.offset with
    | none => .error .panic
    | some h =>
      let attrs := mergeAttrs h.attrs k.attrs
      let gi : Option Nat × List Bytes :=
        if hasBit attrs aGuid then (none, gs) else let r := guidIdx gs h.guid; (some r.1, r.2)
      let v0 : NVar := { size := h.size, next := h.next, attrs := attrs, guid := h.guid, guidIndex := gi.1,
                         name := h.name, type := .full, offset := off, nextOffset := 0, buf := [],
                         dataOffset := 0, hasContent := k.hasContent }
      match asmNVar pol v0 (content k) false with
      | .error e => .error e
      | .ok v =>
        match pass2 pol m ks (off + v.buf.length) gi.2 with
        | .error e => .error e
        | .ok (vs, gs') => .ok ((v, nb) :: vs, gs')

/-- the final `a.Run(s)`: check-only rebuild of the new entries, content = the compacted nested
    store where there is one -/
def finalCheck (pol : Nat) : List (NVar × Option Bytes) → Except Err (List NVar)
  | [] => .ok []
  | (v, nb) :: vs =>
    match asmNVar pol v (match nb with | some b => b | none => content v) true with
    | .error e => .error e
    | .ok v' =>
      match finalCheck pol vs with
      | .error e => .error e
      | .ok vs' => .ok (v' :: vs')

/-- `NVRamCompact.Visit` applied to the children first: every entry that carries a nested store
    gets it compacted (also entries that will be dropped); the first failure aborts. -/
def nestedCompact (pol : Nat) (recC : Store → Except Err Store) :
    List NVar → Except Err (List (NVar × Option Bytes))
  | [] => .ok []
  | v :: vs =>
    let nb : Except Err (Option Bytes) :=
      match nestedOf pol v with
      | some ns => match recC ns with
        | .ok r => .ok (some r.buf)
        | .error e => .error e
      | none => .ok none
    match nb with
    | .error e => .error e
    | .ok nb =>
      match nestedCompact pol recC vs with
      | .error e => .error e
      | .ok r => .ok ((v, nb) :: r)

def compactWith (pol : Nat) (recC : Store → Except Err Store) (s : Store) : Except Err Store :=
  match nestedCompact pol recC s.entries with
  | .error e => .error e
  | .ok pairs =>
    let p1 := pass1 pairs [] []
    match pass2 pol p1.1 p1.2 0 [] with
    | .error e => .error e
    | .ok (new, gs) =>
      match finalCheck pol new with
      | .error e => .error e
      | .ok es => layout pol { s with guidStore := gs } es

/-- `(&visitors.NVRamCompact{}).Run(store)`; `d` bounds the nesting depth -/
def compact (pol : Nat) : Nat → Store → Except Err Store
  | 0, _ => .error .fuel
  | d + 1, s => compactWith pol (compact pol d) s

/-! ### invalidate -/

/-- `NVarInvalidate` with the literal-name predicate: only the in-memory type changes; NVars
    nested in NVars are not matched (visitors.Find) -/
def invalidate (n : Bytes) (s : Store) : Store :=
  { s with entries := s.entries.map (fun v => if v.name = n then { v with type := .invalid } else v) }

/-! ### abstract view -/

/-- the live variables of a store: the terminal entry of every chain, under the GUID and name it
    inherited from the head of its chain -/
def live (s : Store) : List ((Bytes × Bytes) × Bytes) :=
  s.entries.filterMap (fun v =>
    if v.type.isValid && v.nextOffset == 0 then some ((v.guid, v.name), content v) else none)

/-- fuel that always suffices for the nesting depth of a store of this size -/
def depthFuel (s : Store) : Nat := s.length + 1

end Fiano.Nvram
