/-
  Tie T1 "code as code" for the NVAR model (pkg/uefi/nvram.go uses `uefi.IsErased` to find the end
  of the variable store and free space): the model's `isErased` equals the Go function translated
  from the source on every run (Gen/CodeUefi.lean, kind `loopfn`), for every buffer and polarity.
-/
import FianoModel.Gen.CodeUefi
import FianoModel.Nvram.Model

namespace Fiano.Nvram.CodeTie
open Fiano Fiano.GoRt
open Fiano.Gen.CodeUefi

theorem isErased_loop (pol : UInt8) (b : Bytes) :
    fn_IsErased.loop1 pol b = if b.all (fun c => c.toNat == pol.toNat) then Exit.fall () else Exit.ret false := by
  induction b with
  | nil => simp [fn_IsErased.loop1]
  | cons c rest ih =>
    simp only [fn_IsErased.loop1, List.all_cons]
    by_cases h : c = pol
    · subst h; simp [ih]
    · have : ¬ (c.toNat = pol.toNat) := fun e => h (UInt8.toNat_inj.mp e)
      simp [h, this]

/-- `Nvram.isErased` is `uefi.IsErased` as translated from the source (the model keeps the polarity as
    a number; every polarity the Go code can pass is a byte) -/
theorem isErased_tie (b : Bytes) (pol : UInt8) : Nvram.isErased pol.toNat b = fn_IsErased b pol := by
  unfold fn_IsErased Nvram.isErased
  rw [isErased_loop]
  by_cases h : b.all (fun c => c.toNat == pol.toNat) <;> simp [h]

end Fiano.Nvram.CodeTie
