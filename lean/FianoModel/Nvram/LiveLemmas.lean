/-
  The abstract view: `live` of the parsed stores against the specification `Spec.liveK`.
-/
import FianoModel.Nvram.CompactMain

namespace Fiano.Nvram
open Spec

/-- the variable a row stands for -/
def rowVar (guids : List Bytes) (d : Row) : Key × Bytes :=
  ((match d.head with | some h => h.key guids | none => (zeroGuid, [])), d.entry.content)

/-- one row's contribution to `Spec.liveK` -/
def liveRow (K : Bytes → Bool) (guids : List Bytes) (d : Row) : Option (Key × Bytes) :=
  match d.head with
  | some h => if d.entry.next.isNone && !K (h.key guids).2 then some (h.key guids, d.entry.content) else none
  | none => none

theorem liveK_def (K : Bytes → Bool) (s : NvStore) : liveK K s = (table s).filterMap (liveRow K s.guids) := rfl

theorem liveRow_kept (K : Bytes → Bool) (guids : List Bytes) (d : Row) :
    liveRow K guids d = if kept K guids d then some (rowVar guids d) else none := by
  unfold liveRow kept alive rowVar
  cases d.head with
  | none => simp
  | some h =>
    simp only
    cases d.entry.next.isNone <;> cases K (Entry.key guids h).2 <;> rfl

theorem filterMap_ite {α β : Type} (l : List α) (p : α → Bool) (f : α → β) :
    l.filterMap (fun d => if p d then some (f d) else none) = (l.filter p).map f := by
  induction l with
  | nil => rfl
  | cons a l ih =>
    simp only [List.filterMap_cons, List.filter_cons]
    cases p a <;> simp [ih]

theorem filterMap_congr_mem {α β : Type} (l : List α) (f g : α → Option β) (h : ∀ x ∈ l, f x = g x) :
    l.filterMap f = l.filterMap g := by
  induction l with
  | nil => rfl
  | cons a l ih =>
    simp only [List.filterMap_cons, h a (by simp), ih (fun x hx => h x (by simp [hx]))]

theorem liveK_eq (K : Bytes → Bool) (s : NvStore) : liveK K s = (keptRows K s).map (rowVar s.guids) := by
  rw [liveK_def, keptRows, ← filterMap_ite]
  exact filterMap_congr_mem _ _ _ (fun d _ => liveRow_kept K s.guids d)

theorem liveRow_filter (K : Bytes → Bool) (guids : List Bytes) (d : Row) :
    liveRow K guids d = (liveRow (fun _ => false) guids d).filter (fun kv => !K kv.1.2) := by
  unfold liveRow
  cases d.head with
  | none => rfl
  | some h =>
    simp only
    cases d.entry.next.isNone <;> cases hk : K (Entry.key guids h).2 <;> simp [Option.filter, hk]

theorem liveK_filter (K : Bytes → Bool) (s : NvStore) :
    liveK K s = (Spec.live s).filter (fun kv => !K kv.1.2) := by
  unfold Spec.live
  rw [liveK_def, liveK_def]
  generalize table s = t
  induction t with
  | nil => rfl
  | cons d t ih =>
    simp only [List.filterMap_cons]
    rw [liveRow_filter K s.guids d, ih]
    cases h : liveRow (fun _ => false) s.guids d with
    | none => simp [Option.filter]
    | some kv =>
      simp only [Option.filter, List.filter_cons]
      by_cases hq : (!K kv.1.2) = true <;> simp [hq]

/-- `live` of the parsed form of a well-formed store is the specification's `live` -/
theorem live_expect (s : NvStore)
    (hpos : ∀ d ∈ table s, ∀ r, d.entry.next = some r → 0 < r) :
    live (expectStore s) = Spec.live s := by
  unfold Spec.live
  rw [liveK_def]
  unfold live expectStore
  simp only [List.filterMap_map]
  apply filterMap_congr_mem
  intro d hd
  have hrok := table_rowOk s d hd
  have hv := markK_valid (fun _ => false) s.pol s.guids d hrok
  have hm : markK (fun _ => false) (expectNVar s.pol s.guids d) = expectNVar s.pol s.guids d := by simp [markK]
  rw [hm] at hv
  simp only [Function.comp, hv, expect_nextOffset, liveRow]
  cases hh : d.head with
  | none => simp [alive, hh]
  | some h =>
    have hnd : ∀ a nx b, d.entry ≠ .dead a nx b := by
      intro a nx b he
      have := hrok
      simp only [RowOk, he] at this
      rw [this] at hh; cases hh
    obtain ⟨hg, hn⟩ := expect_key s.pol s.guids d h hrok hh
    simp only [alive, hh, Bool.not_false, Bool.true_and, Bool.and_true]
    cases hnx : d.entry.next with
    | none => simp [nextOff, hg, hn, content_expect_nd _ _ _ hnd]
    | some r =>
      have := hpos d hd r hnx
      simp [nextOff]
      omega

/-- keys and contents of the compacted grammar entries, under the final GUID table -/
theorem compactRows_vars (K : Bytes → Bool) (s : NvStore) (rows : List Row) (gs : List Bytes)
    (hrows : ∀ d ∈ rows, RowFacts K s d) :
    (compactRows s.guids rows gs).1.map (fun e => (e.key (compactRows s.guids rows gs).2, e.content))
      = rows.map (rowVar s.guids) := by
  induction rows generalizing gs with
  | nil => simp [compactRows]
  | cons d rows ih =>
    obtain ⟨fh, g, n, vh, xh, nxh, hh, hEmem⟩ := row_head K s d (hrows d (by simp))
    have hrest : ∀ d' ∈ rows, RowFacts K s d' := fun d' hd' => hrows d' (by simp [hd'])
    have hrok := table_rowOk s d (hrows d (by simp)).mem
    have hnd : ∀ a nx b, d.entry ≠ .dead a nx b := by
      intro a nx b he
      have := hrok
      simp only [RowOk, he] at this
      rw [this] at hh; cases hh
    have hc : ∀ (f : Nat) (g' : GuidRef), (Entry.var f g' n d.entry.value d.entry.ext none).content = d.entry.content := by
      intro f g'
      rw [content_eq_value_ext _ hnd]; rfl
    cases g with
    | inline gb =>
      have hcr : compactRows s.guids (d :: rows) gs
          = (Entry.var (mergeFlags fh d.entry.flags) (.inline gb) n d.entry.value d.entry.ext none
              :: (compactRows s.guids rows gs).1, (compactRows s.guids rows gs).2) := by
        conv => lhs; unfold compactRows
        simp only [hh]
      rw [hcr]
      simp only [List.map_cons, ih gs hrest, hc]
      congr 1
      simp only [rowVar, hh, Entry.key, GuidRef.resolve]
    | index i =>
      have hcr : compactRows s.guids (d :: rows) gs
          = (Entry.var (mergeFlags fh d.entry.flags) (.index (guidIdxG gs (GuidRef.resolve s.guids (.index i))).1) n
                d.entry.value d.entry.ext none
              :: (compactRows s.guids rows (guidIdxG gs (GuidRef.resolve s.guids (.index i))).2).1,
             (compactRows s.guids rows (guidIdxG gs (GuidRef.resolve s.guids (.index i))).2).2) := by
        conv => lhs; unfold compactRows
        simp only [hh]
      rw [hcr]
      simp only [List.map_cons, ih _ hrest, hc]
      congr 1
      obtain ⟨hg1, _, _, _⟩ := guidIdxG_spec gs (GuidRef.resolve s.guids (.index i))
      obtain ⟨t2, hpre⟩ := compactRows_prefix s.guids rows (guidIdxG gs (GuidRef.resolve s.guids (.index i))).2
      have hres := resolve_index (compactRows s.guids rows (guidIdxG gs (GuidRef.resolve s.guids (.index i))).2).2
        (guidIdxG gs (GuidRef.resolve s.guids (.index i))).1 (GuidRef.resolve s.guids (.index i))
        (by rw [hpre]; exact getElem?_prefix _ t2 _ _ hg1)
      simp only [rowVar, hh, Entry.key, hres]

/-- facts about the rows of a store whose entries are all terminal variables -/
theorem varRows_facts (pol : Nat) (guids : List Bytes) (es : List Entry) (off : Nat)
    (hv : ∀ e ∈ es, ∃ f g n v x, e = Entry.var f g n v x none) :
    (varRows es off).map (rowVar guids) = es.map (fun e => (e.key guids, e.content)) ∧
    (∀ d ∈ varRows es off, kept (fun _ => false) guids d = true) ∧
    (∀ d ∈ varRows es off, (expectNVar pol guids d).type = .full) ∧
    (varRows es off).map (fun d => (((expectNVar pol guids d).guid, (expectNVar pol guids d).name),
        content (expectNVar pol guids d))) = es.map (fun e => (e.key guids, e.content)) := by
  induction es generalizing off with
  | nil => simp [varRows]
  | cons e es ih =>
    obtain ⟨f, g, n, v, x, he⟩ := hv e (by simp)
    subst he
    obtain ⟨h1, h2, h3, h4⟩ := ih (off + (Entry.var f g n v x none).size) (fun e' he' => hv e' (by simp [he']))
    refine ⟨?_, ?_, ?_, ?_⟩
    · simp only [varRows, List.map_cons, h1]
      rfl
    · intro d hd
      simp only [varRows, List.mem_cons] at hd
      rcases hd with hd | hd
      · subst hd; simp [kept, alive, Entry.next]
      · exact h2 d hd
    · intro d hd
      simp only [varRows, List.mem_cons] at hd
      rcases hd with hd | hd
      · subst hd; simp [expectNVar]
      · exact h3 d hd
    · simp only [varRows, List.map_cons, h4]
      congr 1
      have hc := content_expect_nd pol guids ⟨off, Entry.var f g n v x none, some (Entry.var f g n v x none)⟩
        (by intro a nx b h; cases h)
      rw [hc]
      rfl

/-- `live` of the parsed form of the compacted grammar store = the specification's `liveK` -/
theorem live_compactG (K : Bytes → Bool) (s : NvStore) (hwf : WFParts s) :
    live (expectStore (compactG K s)) = liveK K s ∧
    (expectStore (compactG K s)).entries.map (fun v => ((v.guid, v.name), content v)) = liveK K s ∧
    ∀ v ∈ (expectStore (compactG K s)).entries, v.type = .full := by
  have hfacts := keptRows_facts K s
  have hcs_entries : (compactG K s).entries = (compactRows s.guids (keptRows K s) []).1 := rfl
  have hcs_guids : (compactG K s).guids = (compactRows s.guids (keptRows K s) []).2 := rfl
  have hallvar := compactRows_allvar' s.guids (keptRows K s) []
  rw [← hcs_entries] at hallvar
  have htab : table (compactG K s) = varRows (compactG K s).entries 0 := by
    rw [table_eq_rowsFrom]
    exact rowsFrom_allvar _ (fun e he => by
      obtain ⟨f, g, n, v, x, h⟩ := hallvar e he; exact ⟨f, g, n, v, x, none, h⟩) [] 0
  obtain ⟨h1, h2, h3, h4⟩ := varRows_facts (compactG K s).pol (compactG K s).guids (compactG K s).entries 0 hallvar
  have hvars : (compactG K s).entries.map (fun e => (e.key (compactG K s).guids, e.content)) = liveK K s := by
    rw [liveK_eq K s, hcs_entries, hcs_guids]
    exact compactRows_vars K s (keptRows K s) [] hfacts
  refine ⟨?_, ?_, ?_⟩
  · rw [live_expect _ (by
      intro d hd r hr
      rw [htab] at hd
      have := h2 d hd
      simp only [kept, Bool.and_eq_true, Option.isNone_iff_eq_none] at this
      rw [this.2] at hr; cases hr)]
    unfold Spec.live
    rw [liveK_eq]
    have : keptRows (fun _ => false) (compactG K s) = varRows (compactG K s).entries 0 := by
      unfold keptRows
      rw [htab]
      exact List.filter_eq_self.2 h2
    rw [this, h1, hvars]
  · simp only [expectStore, htab, List.map_map]
    rw [← hvars, ← h4]
    rfl
  · intro v hv
    simp only [expectStore, htab] at hv
    obtain ⟨d, hd, hdv⟩ := List.mem_map.1 hv
    subst hdv
    exact h3 d hd

end Fiano.Nvram
