/-
  Nested stores, parse and assemble: the store fiano attaches to a parsed entry whose value is a
  store of the recursive grammar is the parsed form of that store, and the Assemble visitor —
  children first, to any depth — reproduces the parsed tree.
-/
import FianoModel.Nvram.NestedLemmas

namespace Fiano.Nvram
open Spec

/-- the nested store fiano finds in the parsed entry of a row whose content is the store `n` -/
theorem nestedOf_nested (pol : Nat) (guids : List Bytes) (r : Row) (n : NStore) (hn : WFParts n.flat)
    (hpol : n.pol = pol) (hc : r.entry.content = n.ser) (hnd : ∀ a nx b, r.entry ≠ .dead a nx b)
    (k : Nat) (hok : r.entry.ok k = true) (hx : r.entry.ext = none) :
    nestedOf pol (expectNVar pol guids r) = if n.entries = [] then none else some (expectStore n.flat) := by
  unfold nestedOf
  have hxb : hasBit (expectNVar pol guids r).attrs aExtHdr = false := by
    rw [expect_attrs, entry_extbit r.entry k hok hnd, hx]; rfl
  rw [content_expect_nd pol guids r hnd, hc, hxb]
  have hhc : (expectNVar pol guids r).hasContent = true := by
    rw [expect_hasContent]
    cases he : r.entry with
    | dead a nx b => exact absurd he (hnd a nx b)
    | var _ _ _ _ _ _ => rfl
    | data _ _ _ _ => rfl
  rw [hhc]
  have hfp : n.flat.pol = pol := by rw [flat_pol]; exact hpol
  cases hes : n.entries with
  | nil =>
    have hfe : n.flat.entries = [] := by rw [flat_entries, hes]; rfl
    have := ser_empty n.flat hn hfe
    unfold NStore.ser
    rw [this, hfp]
    have hp : pol = 0xFF ∨ pol = 0 := by rw [← hfp]; exact hn.pol
    rw [replicate_take4_ne_sig _ pol hp]
    simp
  | cons e es =>
    have hfe : n.flat.entries = e.flat :: es.map NEntry.flat := by rw [flat_entries, hes]; rfl
    have h4 := ser_take4_nonempty n.flat _ _ hfe
    unfold NStore.ser
    rw [h4]
    have hps := parseStore_ser_parts n.flat hn
    rw [hfp] at hps
    simp [hps]

/-- the parsed entry of a row with a plain value or a nested store carries the nested store
    `nestedOf` says, and nothing else -/
theorem nestedOf_row (S : NStore) (hl : LevelOk S) (r : Row) (hr : r ∈ table S.flat) (ns : Store)
    (h : nestedOf S.pol (expectNVar S.pol S.guids r) = some ns) :
    ∃ n ∈ S.subs, ns = expectStore n.flat ∧ n.pol = S.pol ∧ r.entry.content = n.ser ∧ r.entry.ext = none ∧
      (∀ a nx b, r.entry ≠ .dead a nx b) ∧ n.entries ≠ [] := by
  have hE : r.entry ∈ S.flat.entries := row_entry_mem S.flat r hr
  cases valCase_of_level S hl r.entry hE with
  | plain hp => rw [nestedOf_expect S.pol S.guids r hp] at h; cases h
  | refused ho => rw [nestedOf_opaque S.pol S.guids r ho] at h; cases h
  | exthdr hx hnd => rw [nestedOf_exthdr S.pol S.guids r _ (hl.parts.ok r.entry hE) hnd hx] at h; cases h
  | nested n hn hc hv hx hpol hnd =>
    have hwn := wfN_level n (hl.subs n hn)
    rw [nestedOf_nested S.pol S.guids r n hwn.parts hpol hc hnd _ (hl.parts.ok r.entry hE) hx] at h
    by_cases hes : n.entries = []
    · simp [hes] at h
    · simp only [hes, if_false, Option.some.injEq] at h
      exact ⟨n, hn, h.symm, hpol, hc, hx, hnd, hes⟩

/-- **assemble, to any depth**: the Assemble visitor run on the parsed form of a well-formed store
    of the recursive grammar returns the same in-memory store, for every fuel above the byte length -/
theorem asmStoreN : ∀ (d : Nat) (S : NStore), WFN S → S.ser.length < d →
    asmStore S.pol d (expectStore S.flat) = .ok (expectStore S.flat) := by
  intro d
  induction d with
  | zero => intro S _ h; omega
  | succ d ih =>
    intro S hwf hlen
    have hl := wfN_level S hwf
    simp only [asmStore]
    have hfp : S.flat.pol = S.pol := flat_pol S
    rw [← hfp]
    apply asmStoreWith_expect_gen S.flat hl.parts
    intro r hr ns hns
    rw [hfp, flat_guids] at hns
    obtain ⟨n, hn, hnse, hpol, hc, _, hnd, _⟩ := nestedOf_row S hl r hr ns hns
    have hsz := sub_size S n hn
    have := ih n (hl.subs n hn) (by omega)
    rw [hpol] at this
    rw [hfp]
    refine ⟨expectStore n.flat, by rw [hnse]; exact this, ?_⟩
    rw [content_expect_nd _ _ _ hnd, hc]
    rfl

/-- the nested store of every parsed entry, both directions (Props: `c10_parse_nested`) -/
theorem nested_of_rows (S : NStore) (h : WFN S) (r : Row) (hr : r ∈ table S.flat) :
    (∀ ns, nestedOf S.pol (expectNVar S.pol S.guids r) = some ns →
      ∃ n ∈ S.subs, ns = expectStore n.flat ∧ r.entry.content = n.ser) ∧
    (∀ n ∈ S.subs, r.entry.content = n.ser → (∀ a nx b, r.entry ≠ .dead a nx b) →
      nestedOf S.pol (expectNVar S.pol S.guids r) =
        if n.entries = [] ∨ r.entry.ext.isSome = true then none else some (expectStore n.flat)) := by
  have hl := wfN_level S h
  constructor
  · intro ns hns
    obtain ⟨n, hn, h1, _, h2, _⟩ := nestedOf_row S hl r hr ns hns
    exact ⟨n, hn, h1, h2⟩
  · intro n hn hc hnd
    have hE := row_entry_mem S.flat r hr
    have hpolN : n.pol = S.pol := by
      -- a nested store has the polarity of its parent
      obtain ⟨e, he, hs⟩ := List.mem_filterMap.1 hn
      have hv := hl.vals e he
      cases e with
      | dead a nx b => simp [NEntry.sub?] at hs
      | var f g nm v x nx =>
        cases v with
        | raw b => simp [NEntry.sub?] at hs
        | store n0 =>
          simp only [NEntry.sub?, Option.some.injEq] at hs
          subst hs
          simp only [NEntry.valueOk, valueOk, Bool.and_eq_true, beq_iff_eq] at hv
          exact hv.2
      | data f v x nx =>
        cases v with
        | raw b => simp [NEntry.sub?] at hs
        | store n0 =>
          simp only [NEntry.sub?, Option.some.injEq] at hs
          subst hs
          simp only [NEntry.valueOk, valueOk, Bool.and_eq_true, beq_iff_eq] at hv
          exact hv.2
    cases valCase_of_level S hl r.entry hE with
    | refused ho =>
      -- a content fiano refuses as a store and that equals the bytes of a well-formed store: the store
      -- has no entry (otherwise it parses)
      have hwn := (wfN_level n (hl.subs n hn)).parts
      rw [nestedOf_opaque S.pol S.guids r ho]
      by_cases hes : n.entries = []
      · simp [hes]
      · by_cases hxs : r.entry.ext.isSome = true
        · simp [hxs]
        exfalso
        have hps := parseStore_ser_parts n.flat hwn
        rw [flat_pol, hpolN] at hps
        rw [hc] at ho
        unfold notStore NStore.ser at ho
        rw [hps] at ho
        cases ho
    | plain hp =>
      -- a plain content that equals the bytes of a store: the store has no entry
      have hwn := (wfN_level n (hl.subs n hn)).parts
      rw [nestedOf_expect S.pol S.guids r hp]
      by_cases hes : n.entries = []
      · simp [hes]
      · by_cases hxs : r.entry.ext.isSome = true
        · simp [hxs]
        exfalso
        obtain ⟨e, es, hes'⟩ : ∃ e es, n.entries = e :: es := by
          cases h' : n.entries with
          | nil => exact absurd h' hes
          | cons e es => exact ⟨e, es, rfl⟩
        have hfe : n.flat.entries = e.flat :: es.map NEntry.flat := by rw [flat_entries, hes']; rfl
        have h4 := ser_take4_nonempty n.flat _ _ hfe
        simp only [Entry.plain, hc, NStore.ser, bne_iff_ne, ne_eq] at hp
        exact hp h4
    | exthdr hx _ =>
      rw [nestedOf_exthdr S.pol S.guids r _ (hl.parts.ok r.entry hE) hnd hx]
      simp [hx]
    | nested n' hn' hc' _ hx' hpol' hnd' =>
      have hwn := (wfN_level n (hl.subs n hn)).parts
      have hpol : n.pol = S.pol := by
        -- both stores have the polarity of their parent
        obtain ⟨e, he, hs⟩ := List.mem_filterMap.1 hn
        have hv := hl.vals e he
        cases e with
        | dead a nx b => simp [NEntry.sub?] at hs
        | var f g nm v x nx =>
          cases v with
          | raw b => simp [NEntry.sub?] at hs
          | store n0 =>
            simp only [NEntry.sub?, Option.some.injEq] at hs
            subst hs
            simp only [NEntry.valueOk, valueOk, Bool.and_eq_true, beq_iff_eq] at hv
            exact hv.2
        | data f v x nx =>
          cases v with
          | raw b => simp [NEntry.sub?] at hs
          | store n0 =>
            simp only [NEntry.sub?, Option.some.injEq] at hs
            subst hs
            simp only [NEntry.valueOk, valueOk, Bool.and_eq_true, beq_iff_eq] at hv
            exact hv.2
      rw [nestedOf_nested S.pol S.guids r n hwn hpol hc hnd _ (hl.parts.ok r.entry hE) hx']
      simp [hx']

end Fiano.Nvram
