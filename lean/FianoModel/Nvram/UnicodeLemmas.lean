/-
  UTF-16 / UTF-8 round trip for well-formed names (every scalar value, surrogate pairs included).
-/
import FianoModel.Nvram.Unicode
import FianoModel.Nvram.Spec

namespace Fiano.Nvram

def OkScalar (c : Nat) : Prop := (0 < c ∧ c < 0xD800) ∨ (0xE000 ≤ c ∧ c < 0x110000)

theorem okScalar_iff (c : Nat) : Spec.okScalar c = true ↔ OkScalar c := by
  simp [Spec.okScalar, OkScalar]

/-- UTF-16LE bytes of a scalar value, as numbers -/
def scalarUnitsN (c : Nat) : List Nat :=
  if c < 0x10000 then [c % 256, c / 256]
  else [(0xD800 + (c - 0x10000) / 1024) % 256, (0xD800 + (c - 0x10000) / 1024) / 256,
        (0xDC00 + (c - 0x10000) % 1024) % 256, (0xDC00 + (c - 0x10000) % 1024) / 256]

theorem scalarUnitsN_length_pos (c : Nat) : 0 < (scalarUnitsN c).length := by
  unfold scalarUnitsN; split <;> simp

theorem utf16Step_scalar (c : Nat) (h : OkScalar c) (t : List Nat) :
    utf16Step (scalarUnitsN c ++ t) = (c, (scalarUnitsN c).length) := by
  unfold scalarUnitsN
  by_cases hc : c < 0x10000
  · simp only [hc, if_true, List.cons_append, List.nil_append, utf16Step, List.length_cons, List.length_nil]
    have hu : c % 256 + 256 * (c / 256) = c := by omega
    have hs : isSurr c = false := by
      unfold OkScalar at h; simp [isSurr]; omega
    simp [hu, hs]
  · simp only [hc, if_false, List.cons_append, List.nil_append, utf16Step, List.length_cons, List.length_nil]
    unfold OkScalar at h
    have hhi : (0xD800 + (c - 0x10000) / 1024) % 256 + 256 * ((0xD800 + (c - 0x10000) / 1024) / 256)
        = 0xD800 + (c - 0x10000) / 1024 := by omega
    have hlo : (0xDC00 + (c - 0x10000) % 1024) % 256 + 256 * ((0xDC00 + (c - 0x10000) % 1024) / 256)
        = 0xDC00 + (c - 0x10000) % 1024 := by omega
    have h1 : isSurr (0xD800 + (c - 0x10000) / 1024) = true := by simp [isSurr]; omega
    have h2 : isLowSurr (0xDC00 + (c - 0x10000) % 1024) = true := by simp [isLowSurr]; omega
    have h3 : pairRune (0xD800 + (c - 0x10000) / 1024) (0xDC00 + (c - 0x10000) % 1024) = c := by
      unfold pairRune
      have : 0xD800 + (c - 0x10000) / 1024 < 0xDC00 := by omega
      simp only [this, if_true]; omega
    simp only [hhi, hlo, h1, h2, h3, if_true]

theorem utf16DecN_scalars (cs : List Nat) (h : ∀ c ∈ cs, OkScalar c) (fuel : Nat)
    (hf : (cs.flatMap scalarUnitsN).length ≤ fuel) :
    utf16DecN fuel (cs.flatMap scalarUnitsN) = cs := by
  induction cs generalizing fuel with
  | nil => cases fuel <;> simp [utf16DecN]
  | cons c cs ih =>
    have hc := h c (by simp)
    have hpos := scalarUnitsN_length_pos c
    simp only [List.flatMap_cons, List.length_append] at hf ⊢
    obtain ⟨f, rfl⟩ : ∃ f, fuel = f + 1 := ⟨fuel - 1, by omega⟩
    have hstep := utf16Step_scalar c hc (cs.flatMap scalarUnitsN)
    match hsu : scalarUnitsN c with
    | [] => simp [hsu] at hpos
    | a :: t =>
      rw [hsu] at hstep hf
      simp only [List.cons_append, List.length_cons] at hstep hf ⊢
      simp only [utf16DecN, hstep, Nat.add_sub_cancel]
      have : List.drop t.length (t ++ List.flatMap scalarUnitsN cs) = List.flatMap scalarUnitsN cs := by
        simp
      rw [this, ih (fun c hc' => h c (by simp [hc'])) f (by omega)]

/-! ### UTF-8 -/

theorem decodeRune_scalar (c : Nat) (h : OkScalar c) (t : List Nat) :
    decodeRune (utf8EncN c ++ t) = (c, (utf8EncN c).length) := by
  unfold OkScalar at h
  unfold utf8EncN
  by_cases h1 : c < 0x80
  · simp [h1, decodeRune]
  · by_cases h2 : c < 0x800
    · simp only [h1, h2, if_true, if_false, List.cons_append, List.nil_append, decodeRune, List.length_cons,
        List.length_nil]
      have a1 : ¬ (0xC0 + c / 64 < 0x80) := by omega
      have a2 : ¬ (0xC0 + c / 64 < 0xC2) := by omega
      have a3 : 0xC0 + c / 64 < 0xE0 := by omega
      have a4 : isCont (0x80 + c % 64) = true := by simp [isCont]; omega
      have a5 : (0xC0 + c / 64) % 32 * 64 + (0x80 + c % 64) % 64 = c := by omega
      simp only [a1, a2, a3, a4, a5, if_true, if_false]
    · by_cases h3 : c < 0x10000
      · simp only [h1, h2, h3, if_true, if_false, List.cons_append, List.nil_append, decodeRune,
          List.length_cons, List.length_nil]
        have a1 : ¬ (0xE0 + c / 4096 < 0x80) := by omega
        have a2 : ¬ (0xE0 + c / 4096 < 0xC2) := by omega
        have a3 : ¬ (0xE0 + c / 4096 < 0xE0) := by omega
        have a4 : 0xE0 + c / 4096 < 0xF0 := by omega
        have a5 : isCont (0x80 + c % 64) = true := by simp [isCont]; omega
        have a6 : (if 0xE0 + c / 4096 = 0xE0 then 0xA0 else 0x80) ≤ 0x80 + c / 64 % 64 := by
          split <;> omega
        have a7 : 0x80 + c / 64 % 64 ≤ (if 0xE0 + c / 4096 = 0xED then 0x9F else 0xBF) := by
          split <;> omega
        have a8 : ((0xE0 + c / 4096) % 16 * 64 + (0x80 + c / 64 % 64) % 64) * 64 + (0x80 + c % 64) % 64 = c := by
          omega
        simp only [a1, a2, a3, a4, a5, a6, a7, a8, if_true, if_false, and_self]
      · simp only [h1, h2, h3, if_true, if_false, List.cons_append, List.nil_append, decodeRune,
          List.length_cons, List.length_nil]
        have a1 : ¬ (0xF0 + c / 262144 < 0x80) := by omega
        have a2 : ¬ (0xF0 + c / 262144 < 0xC2) := by omega
        have a3 : ¬ (0xF0 + c / 262144 < 0xE0) := by omega
        have a4 : ¬ (0xF0 + c / 262144 < 0xF0) := by omega
        have a4' : 0xF0 + c / 262144 < 0xF5 := by omega
        have a5 : isCont (0x80 + c % 64) = true := by simp [isCont]; omega
        have a5' : isCont (0x80 + c / 64 % 64) = true := by simp [isCont]; omega
        have a6 : (if 0xF0 + c / 262144 = 0xF0 then 0x90 else 0x80) ≤ 0x80 + c / 4096 % 64 := by
          split <;> omega
        have a7 : 0x80 + c / 4096 % 64 ≤ (if 0xF0 + c / 262144 = 0xF4 then 0x8F else 0xBF) := by
          split <;> omega
        have a8 : (((0xF0 + c / 262144) % 8 * 64 + (0x80 + c / 4096 % 64) % 64) * 64 + (0x80 + c / 64 % 64) % 64) * 64
            + (0x80 + c % 64) % 64 = c := by omega
        simp only [a1, a2, a3, a4, a4', a5, a5', a6, a7, a8, if_true, if_false, and_self]

theorem runeUnitsN_scalar (c : Nat) (h : OkScalar c) : runeUnitsN c = scalarUnitsN c := by
  unfold OkScalar at h
  unfold runeUnitsN scalarUnitsN
  by_cases hc : c < 0x10000
  · have : c ≤ 0xFFFF := by omega
    simp [hc, this]
  · have : ¬ c ≤ 0xFFFF := by omega
    have e : (c - 0x10000) / 1024 % 1024 = (c - 0x10000) / 1024 := by omega
    simp only [hc, this, if_false, e]

theorem utf8EncN_length_pos (c : Nat) : 0 < (utf8EncN c).length := by
  unfold utf8EncN; split
  · simp
  · split
    · simp
    · split <;> simp

theorem utf16EncN_scalars (cs : List Nat) (h : ∀ c ∈ cs, OkScalar c) (fuel : Nat)
    (hf : (cs.flatMap utf8EncN ++ [0]).length ≤ fuel) :
    utf16EncN fuel (cs.flatMap utf8EncN ++ [0]) = cs.flatMap scalarUnitsN ++ [0, 0] := by
  induction cs generalizing fuel with
  | nil =>
    simp only [List.flatMap_nil, List.nil_append, List.length_cons, List.length_nil] at hf ⊢
    obtain ⟨f, rfl⟩ : ∃ f, fuel = f + 1 := ⟨fuel - 1, by omega⟩
    simp only [utf16EncN, decodeRune]
    cases f <;> simp [runeUnitsN, utf16EncN]
  | cons c cs ih =>
    have hc := h c (by simp)
    have hpos := utf8EncN_length_pos c
    simp only [List.flatMap_cons, List.length_append, List.append_assoc] at hf ⊢
    obtain ⟨f, rfl⟩ : ∃ f, fuel = f + 1 := ⟨fuel - 1, by omega⟩
    have hstep := decodeRune_scalar c hc (cs.flatMap utf8EncN ++ [0])
    match hsu : utf8EncN c with
    | [] => simp [hsu] at hpos
    | a :: t =>
      rw [hsu] at hstep hf
      simp only [List.cons_append, List.length_cons] at hstep hf ⊢
      simp only [utf16EncN, hstep, Nat.add_sub_cancel]
      have : List.drop t.length (t ++ (List.flatMap utf8EncN cs ++ [0])) = List.flatMap utf8EncN cs ++ [0] := by
        simp
      rw [this, ih (fun c hc' => h c (by simp [hc'])) f
          (by simp only [List.length_append, List.length_cons, List.length_nil] at hf ⊢; omega),
        runeUnitsN_scalar c hc]

/-- no byte of the UTF-8 form of a non-zero scalar is zero, and all are bytes -/
theorem utf8EncN_range (c : Nat) (h : OkScalar c) : ∀ x ∈ utf8EncN c, 0 < x ∧ x < 256 := by
  unfold OkScalar at h
  unfold utf8EncN
  intro x hx
  split at hx
  · simp at hx; omega
  · split at hx
    · simp at hx; omega
    · split at hx
      · simp at hx; omega
      · simp at hx; omega

theorem scalarUnitsN_range (c : Nat) (h : OkScalar c) : ∀ x ∈ scalarUnitsN c, x < 256 := by
  unfold OkScalar at h
  unfold scalarUnitsN
  intro x hx
  split at hx
  · simp at hx; omega
  · simp at hx; omega

/-! ### byte-string wrappers -/

theorem toNats_ofNats (l : List Nat) (h : ∀ x ∈ l, x < 256) : toNats (ofNats l) = l := by
  induction l with
  | nil => rfl
  | cons a l ih =>
    have ha := h a (by simp)
    simp only [toNats, ofNats, List.map_cons, List.map_map] at ih ⊢
    rw [ih (fun x hx => h x (by simp [hx]))]
    simp [UInt8.toNat_ofNat', Nat.mod_eq_of_lt ha]

theorem ofNats_append (a b : List Nat) : ofNats (a ++ b) = ofNats a ++ ofNats b := by simp [ofNats]
theorem toNats_append (a b : Bytes) : toNats (a ++ b) = toNats a ++ toNats b := by simp [toNats]
theorem toNats_length (a : Bytes) : (toNats a).length = a.length := by simp [toNats]

theorem scalarUnits_eq (c : Nat) : Spec.scalarUnits c = ofNats (scalarUnitsN c) := by
  unfold Spec.scalarUnits scalarUnitsN Spec.u16le ofNats
  split <;> simp

theorem flatMap_scalarUnits_eq (cs : List Nat) :
    cs.flatMap Spec.scalarUnits = ofNats (cs.flatMap scalarUnitsN) := by
  induction cs with
  | nil => rfl
  | cons c cs ih => simp only [List.flatMap_cons, ih, scalarUnits_eq, ofNats_append]

theorem flatMap_range {f : Nat → List Nat} {P : Nat → Prop} (cs : List Nat)
    (h : ∀ c ∈ cs, ∀ x ∈ f c, P x) : ∀ x ∈ cs.flatMap f, P x := by
  intro x hx
  rw [List.mem_flatMap] at hx
  obtain ⟨c, hc, hx⟩ := hx
  exact h c hc x hx

/-- parse direction: the UCS-2 bytes of a well-formed name decode to its text -/
theorem ucs2ToUtf8_scalars (cs : List Nat) (h : ∀ c ∈ cs, OkScalar c) :
    ucs2ToUtf8 (cs.flatMap Spec.scalarUnits) = ofNats (cs.flatMap utf8EncN) := by
  unfold ucs2ToUtf8
  have hr : ∀ x ∈ cs.flatMap scalarUnitsN, x < 256 :=
    flatMap_range cs (fun c hc => scalarUnitsN_range c (h c hc))
  have e1 : toNats (cs.flatMap Spec.scalarUnits) = cs.flatMap scalarUnitsN := by
    rw [flatMap_scalarUnits_eq, toNats_ofNats _ hr]
  have e2 : (cs.flatMap Spec.scalarUnits).length = (cs.flatMap scalarUnitsN).length := by
    rw [← e1, toNats_length]
  simp only [e1, e2]
  rw [utf16DecN_scalars cs h _ (Nat.le_refl _)]
  have hnz : ∀ x ∈ cs.flatMap utf8EncN, 0 < x ∧ x < 256 :=
    flatMap_range cs (fun c hc => utf8EncN_range c (h c hc))
  have : (cs.flatMap utf8EncN).getLast? ≠ some 0 := by
    intro hl
    have := List.mem_of_getLast? hl
    have := hnz 0 this
    omega
  simp [this]

/-- assemble direction: the text of a well-formed name encodes to its UCS-2 bytes and the
    terminator -/
theorem utf8ToUcs2_scalars (cs : List Nat) (h : ∀ c ∈ cs, OkScalar c) :
    utf8ToUcs2 (ofNats (cs.flatMap utf8EncN)) = cs.flatMap Spec.scalarUnits ++ [0, 0] := by
  unfold utf8ToUcs2
  have hnz : ∀ x ∈ cs.flatMap utf8EncN, 0 < x ∧ x < 256 :=
    flatMap_range cs (fun c hc => utf8EncN_range c (h c hc))
  rw [toNats_ofNats _ (fun x hx => (hnz x hx).2)]
  simp only []
  rw [utf16EncN_scalars cs h _ (Nat.le_refl _), ofNats_append, flatMap_scalarUnits_eq]
  rfl

end Fiano.Nvram
