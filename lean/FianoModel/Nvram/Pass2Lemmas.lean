/-
  Second loop of compaction and the final check-only assemble, on the kept rows.
-/
import FianoModel.Nvram.TableLemmas

namespace Fiano.Nvram
open Spec

/-! ### attribute merge -/

theorem merge_arith (lowH x b c lowK x' r5 c' : Nat) (h1 : lowH ≤ 7) (h2 : x ≤ 1) (h3 : b ≤ 1) (h4 : c ≤ 1)
    (h5 : lowK ≤ 9) (h6 : x' ≤ 1) (h7 : r5 ≤ 1) (h8 : c' ≤ 1) :
    mergeAttrs (lowH + 16 * x + 32 * b + 64 * c + 128) (lowK + 16 * x' + 32 * r5 + 64 * c' + 128)
      = lowH + 16 * x' + 32 * b + 64 * c' + 128 := by
  have e1 : (lowH + 16 * x + 32 * b + 64 * c + 128) % 16 = lowH := by omega
  have e2 : (lowH + 16 * x + 32 * b + 64 * c + 128) / 32 % 2 = b := by omega
  have e3 : (lowH + 16 * x + 32 * b + 64 * c + 128) / 128 % 2 = 1 := by omega
  have e4 : (lowK + 16 * x' + 32 * r5 + 64 * c' + 128) / 16 % 2 = x' := by omega
  have e5 : (lowK + 16 * x' + 32 * r5 + 64 * c' + 128) / 64 % 2 = c' := by omega
  unfold mergeAttrs
  rw [e1, e2, e3, e4, e5]

theorem okFlags_split (f : Nat) (h : okFlags f = true) :
    f = f % 2 + 32 * (f / 32 % 2) + 64 * (f / 64 % 2) ∧ f % 2 ≤ 1 ∧ f / 32 % 2 ≤ 1 ∧ f / 64 % 2 ≤ 1 := by
  have : f % 2 + 32 * (f / 32 % 2) + 64 * (f / 64 % 2) = f := by simpa [okFlags] using h
  omega

def nameBit : VarName → Nat
  | .ascii _ => 2
  | .ucs2 _ => 0

def guidBit : GuidRef → Nat
  | .inline _ => 4
  | .index _ => 0

theorem var_attrs_eq (f : Nat) (g : GuidRef) (n : VarName) (v : Bytes) (x : Option Ext) (nx : Option Nat) :
    (Entry.var f g n v x nx).attrs = 128 + f + nameBit n + guidBit g + extBit x := by
  cases n <;> cases g <;> rfl

def extB : Option Ext → Nat
  | none => 0
  | some _ => 1

theorem extBit_eq (x : Option Ext) : extBit x = 16 * extB x ∧ extB x ≤ 1 := by cases x <;> simp [extBit, extB]

/-- the merged attribute byte is the attribute byte of the compacted grammar entry -/
theorem mergeAttrs_entry (fh : Nat) (g g' : GuidRef) (n : VarName) (vh : Bytes) (xh : Option Ext) (nxh : Option Nat)
    (dE : Entry) (hfh : okFlags fh = true) (hfd : okFlags dE.flags = true)
    (hnd : ∀ a nx b, dE ≠ .dead a nx b) (hg : guidBit g' = guidBit g) :
    mergeAttrs (Entry.var fh g n vh xh nxh).attrs dE.attrs
      = (Entry.var (mergeFlags fh dE.flags) g' n dE.value dE.ext none).attrs := by
  obtain ⟨e1, b1, b2, b3⟩ := okFlags_split fh hfh
  obtain ⟨e2, c1, c2, c3⟩ := okFlags_split dE.flags hfd
  rw [var_attrs_eq, var_attrs_eq, hg]
  have hnb : nameBit n ≤ 2 := by cases n <;> simp [nameBit]
  have hgb : guidBit g ≤ 4 := by cases g <;> simp [guidBit]
  obtain ⟨hx1, hx2⟩ := extBit_eq xh
  obtain ⟨hy1, hy2⟩ := extBit_eq dE.ext
  have key := fun lowK (hlow : lowK ≤ 9) =>
    merge_arith (fh % 2 + nameBit n + guidBit g) (extB xh) (fh / 32 % 2) (fh / 64 % 2) lowK (extB dE.ext)
      (dE.flags / 32 % 2) (dE.flags / 64 % 2) (by omega) hx2 b2 b3 hlow hy2 c2 c3
  have hL : 128 + fh + nameBit n + guidBit g + extBit xh
      = fh % 2 + nameBit n + guidBit g + 16 * extB xh + 32 * (fh / 32 % 2) + 64 * (fh / 64 % 2) + 128 := by omega
  have hR : 128 + mergeFlags fh dE.flags + nameBit n + guidBit g + extBit dE.ext
      = fh % 2 + nameBit n + guidBit g + 16 * extB dE.ext + 32 * (fh / 32 % 2) + 64 * (dE.flags / 64 % 2) + 128 := by
    simp only [mergeFlags]; omega
  cases dE with
  | dead a nx b => exact absurd rfl (hnd a nx b)
  | var fd gd nd vd xd nxd =>
    simp only [Entry.flags, Entry.ext, Entry.value] at *
    rw [var_attrs_eq, hL, hR]
    have hl : fd % 2 + nameBit nd + guidBit gd ≤ 9 := by
      cases nd <;> cases gd <;> simp [nameBit, guidBit] <;> omega
    rw [← key (fd % 2 + nameBit nd + guidBit gd) hl]
    congr 1; omega
  | data fd vd xd nxd =>
    simp only [Entry.flags, Entry.ext, Entry.value] at *
    rw [hL, hR]
    have hl : fd % 2 + 8 ≤ 9 := by omega
    rw [← key (fd % 2 + 8) hl]
    simp only [Entry.attrs]
    congr 1; omega

/-! ### one new entry -/

/-- the GUID / name part as a function of the four fields it reads -/
def gnPart (attrs : Nat) (guid : Bytes) (gi : Option Nat) (name : Bytes) : Option Bytes :=
  if hasBit attrs aDataOnly then some []
  else if hasBit attrs aGuid then some (guid ++ nameBytes attrs name)
  else match gi with
    | none => none
    | some i => some (UInt8.ofNat i :: nameBytes attrs name)

theorem guidNamePart_eq (v : NVar) : guidNamePart v = gnPart v.attrs v.guid v.guidIndex v.name := rfl

/-- the non-check assemble of a new entry followed by the check-only one of the final `a.Run` -/
theorem step_entry (pol hsz hnx attrs : Nat) (guid name : Bytes) (gi : Option Nat) (off : Nat) (hasC : Bool)
    (c gn : Bytes) (hgn : gnPart attrs guid gi name = some gn) (hlen : 10 + gn.length + c.length ≤ 0xFFFF) :
    ∃ v1, asmNVar pol { size := hsz, next := hnx, attrs := attrs, guid := guid, guidIndex := gi, name := name,
                        type := .full, offset := off, nextOffset := 0, buf := [], dataOffset := 0,
                        hasContent := hasC } c false = .ok v1
      ∧ v1.buf.length = 10 + gn.length + c.length
      ∧ asmNVar pol v1 (content v1) true
          = .ok { size := 10 + gn.length + c.length, next := pol + 256 * pol + 65536 * pol, attrs := attrs,
                  guid := guid, guidIndex := gi, name := name, type := .full, offset := off, nextOffset := 0,
                  buf := hdr (10 + gn.length + c.length) (pol + 256 * pol + 65536 * pol) attrs ++ gn ++ c,
                  dataOffset := 10 + gn.length, hasContent := hasC } := by
  generalize hP : sig ++ leN 2 hsz ++ leN 3 (pol + 256 * pol + 65536 * pol) ++ [UInt8.ofNat attrs] ++ gn = P
  have hPlen : P.length = 10 + gn.length := by rw [← hP]; simp [sig]; omega
  have hl : ¬ (P.length + c.length > 0xFFFF) := by omega
  refine ⟨{ size := P.length + c.length, next := pol + 256 * pol + 65536 * pol, attrs := attrs, guid := guid,
            guidIndex := gi, name := name, type := .full, offset := off, nextOffset := 0, buf := P ++ c,
            dataOffset := P.length, hasContent := hasC }, ?_, ?_, ?_⟩
  · unfold asmNVar
    simp only [EType.isValid, Bool.not_true, Bool.false_eq_true, if_false, ne_eq, not_true_eq_false,
      decide_false, Bool.false_and, guidNamePart_eq, hgn, hP, hl]
  · simp [hPlen]
  · have hc : ∀ (v : NVar), v.buf = P ++ c → v.dataOffset = P.length → content v = c := by
      intro v h1 h2
      simp only [content, h1, h2]
      exact drop_append_len _ _ _ rfl
    rw [hc _ rfl rfl]
    unfold asmNVar
    simp only [EType.isValid, Bool.not_true, Bool.false_eq_true, if_false, ne_eq, not_true_eq_false,
      decide_false, Bool.false_and, guidNamePart_eq, hgn, if_true]
    simp only [hPlen]
    have h10 : (sig ++ leN 2 (10 + gn.length + c.length) ++ leN 3 (pol + 256 * pol + 65536 * pol)
        ++ [UInt8.ofNat attrs] ++ gn).length = 10 + gn.length := by simp [sig]; omega
    have hmod : (10 + gn.length + c.length) % 65536 = 10 + gn.length + c.length := Nat.mod_eq_of_lt (by omega)
    simp only [h10, hmod, not_true_eq_false, if_false, hdr]

end Fiano.Nvram
