/-
  T1 tie for the LOGIC of the NVAR code (follow-up wp-c10b).  Nvram/Tie.lean ties constants, the
  header layout and call counts; this file ties the decisions and the arithmetic of the pure
  helpers that the model spells out.  Every block has two parts:

    * `tie_…`   the regenerated fact (FianoModel/Gen/NvramLogic.lean, NvramVisitorsLogic.lean:
                conditions of the `if`/`for` statements, slice/index/make expressions, the
                assignments / returns / case lists, parameter widths — local identifiers normalised,
                statement lists sorted) equals the text the model was written from;
    * a theorem about the model's function that states, over Go's fixed-width types, that the
      model's natural-number arithmetic is that text's meaning (`hasBit` = single-bit `&`, the
      `% 256` of the GUID lookup = uint8 `i+1`, `mergeAttrs` = `&^ |`, the checksum closed form =
      the loop as written, `IsValid` = the three type codes).

  A renamed local, a reworded error, reordered independent statements: nothing changes.  A changed
  operator, constant, width, or a dropped check: a `tie_…` theorem no longer holds.
-/
import FianoModel.Nvram.Model
import FianoModel.Nvram.ChecksumLemmas
import FianoModel.Gen.Nvram
import FianoModel.Gen.NvramLogic
import FianoModel.Gen.NvramVisitorsLogic

namespace Fiano.Nvram
open Fiano.Gen

/-! ## validity: the attribute bit, the entry types -/

theorem tie_attr_isValid :
    NvramLogic.sig_NVarAttribute_IsValid = ["recv NVarAttribute", "->", "bool"] ∧
    NvramLogic.stmts_NVarAttribute_IsValid = ["return _&NVarEntryValid != 0"] := by decide

set_option maxRecDepth 100000 in
/-- the model's `hasBit a m` is Go's `a & m != 0` on a uint8, for each of the eight attribute masks -/
theorem hasBit_is_and : ∀ a < 256, ∀ m ∈ [aRuntime, aAscii, aGuid, aDataOnly, aExtHdr, aHwErr, aAuthWr, aValid],
    hasBit a m = decide (a &&& m ≠ 0) := by decide

theorem tie_nvar_isValid :
    NvramLogic.stmts_NVar_IsValid
      = ["case LinkNVarEntry, DataNVarEntry, FullNVarEntry", "return false", "return true"] := by decide

/-- numbering of the model's entry types (the iota order of the Go constants) -/
def EType.code : EType → Nat
  | .invalid => 0 | .invalidLink => 1 | .link => 2 | .data => 3 | .full => 4

theorem etype_codes :
    [EType.invalid.code, EType.invalidLink.code, EType.link.code, EType.data.code, EType.full.code]
      = [Nvram.InvalidNVarEntry, Nvram.InvalidLinkNVarEntry, Nvram.LinkNVarEntry, Nvram.DataNVarEntry,
         Nvram.FullNVarEntry] := by decide

/-- `NVar.IsValid`: exactly the three types of the case list -/
theorem isValid_is_case_list (t : EType) :
    t.isValid = [Nvram.LinkNVarEntry, Nvram.DataNVarEntry, Nvram.FullNVarEntry].contains t.code := by
  cases t <;> decide

/-! ## the lazy GUID-table lookup -/

theorem tie_getGuid :
    NvramLogic.sig_NVarStore_getGUIDFromStore = ["recv *NVarStore", "uint8", "->", "guid.GUID"] ∧
    NvramLogic.guards_NVarStore_getGUIDFromStore
      = ["if len(_.GUIDStore) < int(_+1)", "if _ != nil", "for _ >= 0", "if _ != nil",
         "if int(_) >= len(_.GUIDStore)"] ∧
    NvramLogic.sites_NVarStore_getGUIDFromStore
      = ["make([]guid.GUID, int(_+1)-len(_.GUIDStore))", "_[_]", "_.GUIDStore[_]"] ∧
    NvramLogic.stmts_NVarStore_getGUIDFromStore
      = ["_ := binary.Read(_, binary.LittleEndian, &_[_])", "_ := bytes.NewReader(_.buf)",
         "_ := int(_) - len(_.GUIDStore)", "_ := make([]guid.GUID, int(_+1)-len(_.GUIDStore))",
         "_, _ := _.Seek(-int64(binary.Size(_))*int64(_+1), io.SeekEnd)", "_--",
         "_.GUIDStore = append(_.GUIDStore, _...)", "return *ZeroGUID", "return *ZeroGUID",
         "return _.GUIDStore[_]", "var _ guid.GUID"] := by decide

/-- `i+1` is computed in uint8 before it is widened (`int(i+1)`, `int64(i+1)`): index 255 wraps to 0 -/
theorem getGuid_wrap (i : UInt8) : (i + 1).toNat = (i.toNat + 1) % 256 := by
  rw [UInt8.toNat_add]; rfl

/-- `getGUIDFromStore` as written, over the Go types: the guard `len(s.GUIDStore) < int(i+1)`, the
    Seek that fails when `16·int64(i+1)` exceeds the buffer, `int(i+1) − len` GUIDs read from the
    lowest address on (filled in from the highest index down), and the final `int(i) >= len` -/
def goGetGuid (sb : Bytes) (gs : List Bytes) (i : UInt8) : Bytes × List Bytes :=
  let gs' : Option (List Bytes) :=
    if gs.length < (i + 1).toNat then
      if sb.length < 16 * (i + 1).toNat then none
      else some (gs ++ (List.range ((i + 1).toNat - gs.length)).map (fun j => guidAt sb (gs.length + j)))
    else some gs
  match gs' with
  | none => (zeroGuid, gs)
  | some g =>
    if i.toNat ≥ g.length then (zeroGuid, g)
    else (match g[i.toNat]? with | some x => x | none => zeroGuid, g)

theorem pick_or_zero (g : List Bytes) (i : Nat) :
    ((match g[i]? with | some x => x | none => zeroGuid), g)
      = if i ≥ g.length then (zeroGuid, g) else ((match g[i]? with | some x => x | none => zeroGuid), g) := by
  by_cases h : i ≥ g.length
  · simp only [h, if_true]
    rw [List.getElem?_eq_none h]
  · simp only [h, if_false]

theorem getGuid_is_go (sb : Bytes) (gs : List Bytes) (i : UInt8) : getGuid sb gs i.toNat = goGetGuid sb gs i := by
  unfold getGuid goGetGuid
  simp only [getGuid_wrap]
  by_cases h1 : gs.length < (i.toNat + 1) % 256
  · simp only [h1, if_true]
    by_cases h2 : sb.length < 16 * ((i.toNat + 1) % 256)
    · simp only [h2, if_true]
    · simp only [h2, if_false]
      exact pick_or_zero _ _
  · simp only [h1, if_false]
    exact pick_or_zero _ _

/-! ## header, link field -/

theorem tie_parseHeader :
    NvramLogic.guards_NVar_parseHeader
      = ["if _ != nil", "if _.Header.Signature != NVarEntrySignature", "if len(_) < int(_.Header.Size)",
         "if int(_.Header.Size) < binary.Size(_.Header)"] ∧
    NvramLogic.stmts_NVar_parseHeader
      = ["_ := binary.Read(_, binary.LittleEndian, &_.Header)", "_ := bytes.NewReader(_)",
         "_.DataOffset = int64(binary.Size(_.Header))", "return _", "return nil"] := by decide

/-- the model's `newNVar` makes the same three checks in the same order (`hdrSize` = binary.Size) -/
theorem newNVar_checks (pol : Nat) (sb : Bytes) (gs : List Bytes) (es : List NVar) (buf : Bytes) (off : Nat)
    (hne : isErased pol buf = false) (hlen : hdrSize ≤ buf.length) :
    (slice buf 0 4 ≠ sig → newNVar pol sb gs es buf off = .error .parse) ∧
    (slice buf 0 4 = sig → buf.length < fromLE (slice buf 4 2) → newNVar pol sb gs es buf off = .error .parse) ∧
    (slice buf 0 4 = sig → ¬ buf.length < fromLE (slice buf 4 2) → fromLE (slice buf 4 2) < hdrSize →
      newNVar pol sb gs es buf off = .error .parse) := by
  have h0 : ¬ buf.length < hdrSize := by omega
  refine ⟨?_, ?_, ?_⟩
  · intro h; simp [newNVar, hne, h0, h]
  · intro h h2; simp [newNVar, hne, h0, h, h2]
  · intro h h2 h3; simp [newNVar, hne, h0, h, h2, h3]

theorem tie_parseNext :
    NvramLogic.guards_NVar_parseNext
      = ["if Attributes.ErasePolarity == 0xFF", "if Attributes.ErasePolarity == 0", "if _ != _"] ∧
    NvramLogic.stmts_NVar_parseNext
      = ["_ := Read3Size(_.Header.Next)", "_ = 0", "_ = 0xFFFFFF", "_.NextOffset = _.Offset + _",
         "_.Type = LinkNVarEntry", "return nil", "var _ uint64"] := by decide

/-- `lastVariableFlag`: the two values of the two assignments, by the two polarity guards -/
theorem lastFlag_values : lastFlag 0xFF = 0xFFFFFF ∧ lastFlag 0 = 0 := by decide

/-! ## extended header: sanity checks and the checksum -/

theorem tie_parseExtendedHeader :
    NvramLogic.guards_NVar_parseExtendedHeader
      = ["if _.Header.Attributes&NVarEntryExtHeader == 0", "if _ != nil", "if _ != nil", "if int64(_) > _",
         "if _ != nil", "if _ != nil", "if _&NVarEntryExtChecksum != 0", "for _ < int64(_.Header.Size)",
         "if _ == 5", "if _ != 0", "if _.Header.Attributes&NVarEntryAuthWrite == 0", "if _ != nil",
         "if _.Header.Attributes&NVarEntryDataOnly != 0", "if _ != nil",
         "if _+sha256.Size > int64(_.Header.Size)"] ∧
    NvramLogic.sites_NVar_parseExtendedHeader
      = ["_.buf[int64(_.Header.Size)-int64(binary.Size(_)+binary.Size(_))]", "_.buf[_]",
         "make([]byte, sha256.Size)", "_.buf[_ : _+sha256.Size]"] ∧
    NvramLogic.stmts_NVar_parseExtendedHeader
      = ["_ += 3", "_ += _.buf[_]", "_, _ := _.Seek(_.ExtOffset, io.SeekStart)", "_.Checksum = &_",
         "_.ExpectedChecksum = &_", "_.ExtOffset = int64(_.Header.Size) - int64(_)",
         "if _&NVarEntryExtChecksum != 0"] ∧
    NvramLogic.NVarEntryExtChecksum = 1 := by decide

/-- the checksum loop as written (`for i := 4; i < Size; i++ { sum += buf[i]; if i == 5 { i += 3 } }`,
    uint8 accumulator) computes the model's closed form: bytes 4, 5 and 9 … Size−1 -/
theorem cksum_loop_is_model (buf : Bytes) (size : Nat) (h10 : 10 ≤ size) (hs : size ≤ buf.length) :
    goCksumLoop buf size size 4 0 = some (sum8 (cksumBytes buf size)) :=
  goCksumLoop_eq buf size h10 hs

/-- the hypotheses are satisfiable and the loop computes: a 13-byte entry whose covered bytes
    (13, 0 | 0x91, 1, 0xD1, 3, 0) sum to 0x83 + 0xF0 = 0x173 -/
example : goCksumLoop [0x4E, 0x56, 0x41, 0x52, 13, 0, 0xFF, 0xFF, 0xFF, 0x91, 1, 0xD1, 3] 13 13 4 0 = some 0x73 ∧
    sum8 (cksumBytes [0x4E, 0x56, 0x41, 0x52, 13, 0, 0xFF, 0xFF, 0xFF, 0x91, 1, 0xD1, 3] 13) = 0x73 := by decide

/-- the report for that entry (attribute 0x91 = Valid | ExtHeader | Runtime, extended header of 3
    bytes: attributes 1 = checksum present, which is also the stored byte): the covered bytes sum to 0xA2,
    stored 1, expected 0x5E -/
example : extChecksum 0x91 13 [0x4E, 0x56, 0x41, 0x52, 13, 0, 0xFF, 0xFF, 0xFF, 0x91, 1, 3, 0] = some (1, some 0x5E) := by
  decide

/-- "[6-8] _Skip_ entry next (So linking will not invalidate the sum)" -/
theorem cksum_ignores_next (buf : Bytes) (size : Nat) (a b c : UInt8) (h : 9 ≤ buf.length) :
    cksumBytes (buf.take 6 ++ [a, b, c] ++ buf.drop 9) size = cksumBytes buf size :=
  cksumBytes_next_indep buf size a b c h

/-- uint8 negation `calculatedChecksum = -calculatedChecksum` -/
theorem cksum_neg (s : UInt8) : (-s).toNat = (256 - s.toNat) % 256 := by
  rw [UInt8.toNat_neg]

/-- the model's `extOk` and `extChecksum` make the size checks in the order of the guards: the
    extended header may not be larger than the body (`int64(size) > bodySize`, body = Size − 10
    at that point), and reading the attribute byte at `Size − size` hits EOF when `size = 0` -/
theorem ext_checks (attrs size : Nat) (buf : Bytes) (hx : hasBit attrs aExtHdr = true) :
    (fromLE (slice buf (size - 2) 2) > size - hdrSize → extOk attrs size buf = false ∧ extChecksum attrs size buf = none) ∧
    (fromLE (slice buf (size - 2) 2) = 0 → buf.length ≤ size → 10 ≤ size →
      extOk attrs size buf = false ∧ extChecksum attrs size buf = none) := by
  constructor
  · intro h
    simp [extOk, extChecksum, hx, h]
  · intro h hl h10
    have h0 : ¬ (0 > size - hdrSize) := by omega
    have hn : buf[size]? = none := List.getElem?_eq_none hl
    simp [extOk, extChecksum, hx, h, hn]

theorem tie_parseDataOnly :
    NvramLogic.stmts_NVar_parseDataOnly
      = ["if _ != nil", "if _.Header.Attributes&NVarEntryDataOnly == 0",
         "if _.IsValid() && _.NextOffset == _.Offset", "if _.NextOffset == 0"] := by decide

/-! ## data-offset arithmetic of parseGUID / parseName -/

theorem tie_dataOffset :
    NvramLogic.stmts_NVar_parseGUID
      = ["_ := bytes.NewReader(_.buf[_.DataOffset:])", "_.DataOffset += int64(binary.Size(_))",
         "_.DataOffset += int64(binary.Size(_.GUID))"] ∧
    NvramLogic.stmts_NVar_parseName
      = ["_ := _.buf[_.DataOffset:]", "_ := _.buf[_.DataOffset:]", "_.DataOffset += int64(_) + 1",
         "_.DataOffset += int64(_) + 2"] := by decide

/-- the model's `parseName` consumes the name and its terminator: one byte (ASCII), two (UCS-2) -/
theorem parseName_used (attrs : Nat) (nb name : Bytes) (used : Nat) (h : parseName attrs nb = some (name, used)) :
    (hasBit attrs aAscii = true → ∃ e, indexByte0 nb = some e ∧ used = e + 1) ∧
    (hasBit attrs aAscii = false → ∃ e, indexNul16 nb = some e ∧ used = e + 2) := by
  unfold parseName at h
  constructor
  · intro ha
    simp only [ha, if_true] at h
    cases he : indexByte0 nb with
    | none => rw [he] at h; cases h
    | some e =>
      rw [he] at h
      injection h with h
      injection h with _ h2
      exact ⟨e, rfl, h2.symm⟩
  · intro ha
    simp only [ha, Bool.false_eq_true, if_false] at h
    cases he : indexNul16 nb with
    | none => rw [he] at h; cases h
    | some e =>
      rw [he] at h
      injection h with h
      injection h with _ h2
      exact ⟨e, rfl, h2.symm⟩

/-! ## Assemble: link field, data-offset and size checks -/

theorem tie_assemble :
    NvramLogic.guards_NVar_Assemble
      = ["if !_.IsValid()", "if _.NextOffset != 0 && !_", "if _.NextOffset != 0", "if _ != nil",
         "if _.Header.Attributes&NVarEntryDataOnly == 0", "if _.Header.Attributes&NVarEntryGUID != 0",
         "if _ != nil", "if _ != nil", "if _.Header.Attributes&NVarEntryASCIIName != 0", "if _ != nil",
         "if _ != nil", "if _ != nil", "if _", "if _.DataOffset != int64(_.Len())", "if _ != nil", "if _",
         "if _.Header.Size != uint16(_.Len())", "if _.Len() > 0xFFFF"] ∧
    NvramLogic.stmts_NVar_Assemble
      = ["_.DataOffset = int64(_.Len())", "_.Header.Next = Write3Size(_.NextOffset - _.Offset)",
         "_.Header.Next = [3]uint8{Attributes.ErasePolarity, Attributes.ErasePolarity, Attributes.ErasePolarity}",
         "_.Header.Signature = NVarEntrySignature", "_.Header.Size = uint16(_.Len())",
         "if _.DataOffset != int64(_.Len())", "if _.Header.Size != uint16(_.Len())"] := by decide

/-- the size check of the check-only mode compares with `uint16(vData.Len())`: the model's `% 65536` -/
theorem asm_size_is_uint16 (n : Nat) : (UInt16.ofNat n).toNat = n % 65536 := by
  simp [UInt16.toNat_ofNat']

/-- the three polarity bytes of the Next field, read as a 24-bit little-endian number -/
theorem asm_next_erased (pol : Nat) (h : pol < 256) :
    fromLE [UInt8.ofNat pol, UInt8.ofNat pol, UInt8.ofNat pol] = pol + 256 * pol + 65536 * pol := by
  simp [fromLE, UInt8.toNat_ofNat', Nat.mod_eq_of_lt h]
  omega

theorem tie_store_offsets :
    NvramLogic.stmts_NewNVarStore
      = ["_, _ := newNVar(_.buf[_.FreeSpaceOffset:_.GUIDStoreOffset], _.FreeSpaceOffset, &_)",
         "_.FreeSpaceOffset += uint64(_.Header.Size)", "_.FreeSpaceOffset = uint64(0)",
         "_.GUIDStoreOffset = _.Length",
         "_.GUIDStoreOffset = _.Length - uint64(binary.Size(guid.GUID{}))*uint64(len(_.GUIDStore))",
         "_.Length = uint64(len(_))",
         -- fixes/C04-nvar-table-overlap.diff: the model's `walk` answers `Err.parse` on the same condition
         "if _.FreeSpaceOffset > _.GUIDStoreOffset"] ∧
    NvramLogic.stmts_NVarStore_GetGUIDStoreBuf = ["_ := len(_.GUIDStore) - 1"] := by decide

/-- `newNVar` looks for a nested store in `buf[DataOffset:]` once, and only when the ExtHeader attribute is
    clear (fixes/C10-nested-ext-header.diff, wp-nvfix): the model's `nestedOf` answers `none` for every entry
    that has the attribute, whatever its content -/
theorem tie_nested_lookup :
    NvramLogic.stmts_newNVar
      = ["_ = _.parseContent(_.buf[_.DataOffset:])", "if _.Header.Attributes&NVarEntryExtHeader == 0"] ∧
    (∀ (pol : Nat) (v : NVar), hasBit v.attrs aExtHdr = true → nestedOf pol v = none) := by
  refine ⟨by decide, ?_⟩
  intro pol v h
  simp [nestedOf, h]

/-! ## compaction: what comes from the head (`h` = v11, the value of the map at the kept entry's
offset), what from the kept entry (`k` = v10), in the numbered normalisation of `nvstmts #`:
v0 = the store, v1 = keepEntries, v2 = linkedNVar, v3 = v (first loop), v4/v5 = h, ok (first loop),
v6 = newEntries, v7 = guidStore, v8 = guidStoredIndex, v9 = offset, v10 = k, v11 = h, v12 = the new
entry, v13/v14 = guidIndex, ok, v15 = err.  Loop scaffolding is not part of the fact. -/

set_option maxRecDepth 100000 in
theorem tie_compact :
    NvramVisitorsLogic.stmts_compactNVarStore
      = ["const contentAttrs = uefi.NVarEntryExtHeader | uefi.NVarEntryAuthWrite", "if !v14", "if !v3.IsValid()",
         "if !v5", "if v12.Header.Attributes&uefi.NVarEntryGUID == 0", "if v15 != nil", "if v3.NextOffset != 0",
         "v0.Entries = v6", "v0.GUIDStore = v7", "v1 = append(v1, v3)", "v11 := v2[v10.Offset]",
         "v12 := uefi.NVar{Type: uefi.FullNVarEntry, Header: v11.Header, GUID: v11.GUID, Name: v11.Name, Offset: v9, NVarStore: v10.NVarStore}",
         "v12.GUIDIndex = &v13",
         "v12.Header.Attributes = v11.Header.Attributes&^contentAttrs | v10.Header.Attributes&contentAttrs",
         "v13 = uint8(len(v7))", "v13, v14 := v8[v12.GUID]",
         "v15 := v12.Assemble(v10.Buf()[v10.DataOffset:], false)", "v2[v3.NextOffset] = v4", "v2[v3.Offset] = v4",
         "v4 = v3", "v4, v5 := v2[v3.Offset]", "v6 = append(v6, &v12)", "v7 = append(v7, v12.GUID)",
         "v8 := make(map[guid.GUID]uint8)", "v8[v12.GUID] = v13", "v9 += uint64(len(v12.Buf()))"] ∧
    NvramVisitorsLogic.stmts_NVRamCompact_Visit
      = ["_ := _.(type)", "_ := _.ApplyChildren(_)", "case *uefi.NVarStore", "return _",
         "return _.ApplyChildren(_)", "return compactNVarStore(_)"] ∧
    NvramVisitorsLogic.stmts_NVarInvalidate_Visit
      = ["_ := _.(type)", "_.Type = uefi.InvalidNVarEntry", "case *uefi.NVar", "return nil"] := by decide

set_option maxRecDepth 100000 in
theorem land80 : ∀ k < 256, k &&& 80 = 16 * (k / 16 % 2) + 64 * (k / 64 % 2) := by decide

set_option maxRecDepth 100000 in
theorem merge_core : ∀ h < 256, ∀ x < 2, ∀ y < 2,
    h % 16 + 16 * x + 32 * (h / 32 % 2) + 64 * y + 128 * (h / 128 % 2) = ((h &&& 175) ||| (16 * x + 64 * y)) := by
  decide

/-- `h.Attributes &^ contentAttrs | k.Attributes & contentAttrs` with
    `contentAttrs = NVarEntryExtHeader | NVarEntryAuthWrite = 0x50` on uint8: the model's `mergeAttrs` -/
theorem mergeAttrs_is_go (h k : Nat) (hh : h < 256) (hk : k < 256) :
    mergeAttrs h k = ((h &&& (255 - (aExtHdr ||| aAuthWr))) ||| (k &&& (aExtHdr ||| aAuthWr))) := by
  have e1 : 255 - (aExtHdr ||| aAuthWr) = 175 := by decide
  have e2 : (aExtHdr ||| aAuthWr) = 80 := by decide
  rw [e1, e2, land80 k hk]
  unfold mergeAttrs
  exact merge_core h hh _ (Nat.mod_lt _ (by omega)) _ (Nat.mod_lt _ (by omega))

/-- `guidIndex = uint8(len(guidStore))`: the model's `% 256` in `guidIdx` -/
theorem guidIdx_is_uint8 (n : Nat) : (UInt8.ofNat n).toNat = n % 256 := by
  simp [UInt8.toNat_ofNat']

end Fiano.Nvram
