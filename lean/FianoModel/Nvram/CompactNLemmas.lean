/-
  The grammar-level compaction of the recursive grammar (`compactN`) against the one-level
  compaction `compactG` of the one-level view: same GUID table, and entries that differ in the value
  bytes only (`Rel`) — exactly the difference the content substitution of `TagLemmas.lean` makes.
-/
import FianoModel.Nvram.CompactNDefs
import FianoModel.Nvram.NestedParse
import FianoModel.Nvram.TagLemmas

namespace Fiano.Nvram
open Spec

/-! ### tagged ownership rows -/

theorem ownersT_fst {T : Type} (done : List Row) (ps : List (Entry × T)) (off : Nat) :
    (ownersT done ps off).map Prod.fst = rowsFrom done (ps.map Prod.fst) off := by
  induction ps generalizing done off with
  | nil => rfl
  | cons p ps ih =>
    obtain ⟨e, t⟩ := p
    simp only [ownersT, List.map_cons, rowsFrom, ih]

theorem ownersT_mem {T : Type} (done : List Row) (ps : List (Entry × T)) (off : Nat) :
    ∀ p ∈ ownersT done ps off, (p.1.entry, p.2) ∈ ps := by
  induction ps generalizing done off with
  | nil => intro p hp; simp [ownersT] at hp
  | cons q ps ih =>
    obtain ⟨e, t⟩ := q
    intro p hp
    simp only [ownersT, List.mem_cons] at hp
    rcases hp with hp | hp
    · subst hp; simp
    · exact List.mem_cons_of_mem _ (ih _ _ p hp)

theorem ownersT_map {T U : Type} (f : Entry → T → U) (done : List Row) (ps : List (Entry × T)) (off : Nat) :
    ownersT done (ps.map (fun p => (p.1, f p.1 p.2))) off
      = (ownersT done ps off).map (fun p => (p.1, f p.1.entry p.2)) := by
  induction ps generalizing done off with
  | nil => rfl
  | cons p ps ih =>
    obtain ⟨e, t⟩ := p
    simp only [List.map_cons, ownersT, ih]

theorem cpair_fst (e : NEntry) : (cpair e).1 = e.flat := by
  cases e <;> rfl

theorem cpairs_eq (es : List NEntry) : cpairs es = es.map cpair := by
  induction es with
  | nil => rfl
  | cons e es ih => simp [cpairs, ih]

theorem cpairs_fst (es : List NEntry) : (cpairs es).map Prod.fst = es.map NEntry.flat := by
  rw [cpairs_eq, List.map_map]
  apply List.map_congr_left
  intro e _
  exact cpair_fst e

theorem filter_fst {α β : Type} (l : List (α × β)) (q : α → Bool) :
    (l.filter (fun p => q p.1)).map Prod.fst = (l.map Prod.fst).filter q := by
  induction l with
  | nil => rfl
  | cons a l ih =>
    simp only [List.filter_cons, List.map_cons]
    cases q a.1 <;> simp [ih]

/-- the kept rows of a level, each with the compacted value of its entry -/
def rowsN (K : Bytes → Bool) (S : NStore) : List (Row × NValue) :=
  (ownersT [] (cpairs S.entries) 0).filter (fun p => kept K S.flat.guids p.1)

theorem ownersT_table (S : NStore) : (ownersT [] (cpairs S.entries) 0).map Prod.fst = table S.flat := by
  rw [ownersT_fst, cpairs_fst, table_eq_rowsFrom, flat_entries]

theorem rowsN_fst (K : Bytes → Bool) (S : NStore) : (rowsN K S).map Prod.fst = keptRows K S.flat := by
  unfold rowsN keptRows
  rw [filter_fst, ownersT_table]

theorem rowsN_mem (K : Bytes → Bool) (S : NStore) (p : Row × NValue) (hp : p ∈ rowsN K S) :
    p.1 ∈ table S.flat ∧ kept K S.flat.guids p.1 = true ∧ ∃ e ∈ S.entries, e.flat = p.1.entry ∧ (cpair e).2 = p.2 := by
  obtain ⟨h1, h2⟩ := List.mem_filter.1 hp
  refine ⟨?_, h2, ?_⟩
  · rw [← ownersT_table]; exact List.mem_map_of_mem h1
  · have := ownersT_mem _ _ _ p h1
    rw [cpairs_eq] at this
    obtain ⟨e, he, heq⟩ := List.mem_map.1 this
    refine ⟨e, he, ?_, ?_⟩
    · rw [← cpair_fst, heq]
    · rw [heq]

theorem compactN_eq (K : Bytes → Bool) (S : NStore) :
    compactN K S = .mk S.pol (compactRowsN S.flat.guids (rowsN K S) []).1
      (S.ser.length - entriesLen (flatEntries (compactRowsN S.flat.guids (rowsN K S) []).1)
        - 16 * (compactRowsN S.flat.guids (rowsN K S) []).2.length)
      (compactRowsN S.flat.guids (rowsN K S) []).2 := by
  simp only [compactN, compactFrom, rowsN, flat_pol, NStore.ser]

/-! ### entries that differ in the value bytes only -/

/-- the nested bytes of an entry as fiano sees them: an entry with an extended header never carries a
    nested store (fixes/C10-nested-ext-header.diff), whatever its content looks like -/
def fcx (fc : Bytes → Option Bytes) (x : Option Ext) (c : Bytes) : Option Bytes :=
  if x.isSome then none else fc c

/-- `E'` is `E` with the value replaced as the nested-bytes function `fc` says -/
def Rel (fc : Bytes → Option Bytes) (E E' : Entry) : Prop :=
  ∃ f g n v v' x, E = .var f g n v x none ∧ E' = .var f g n v' x none ∧ v'.length = v.length ∧
    ((fcx fc x (v ++ extSer x) = none ∧ v' = v) ∨ (fcx fc x (v ++ extSer x) = some v' ∧ x = none))

/-- `Rel`, entry by entry -/
inductive Rels (fc : Bytes → Option Bytes) : List Entry → List Entry → Prop where
  | nil : Rels fc [] []
  | cons {E E' : Entry} {Es Es' : List Entry} (h : Rel fc E E') (t : Rels fc Es Es') : Rels fc (E :: Es) (E' :: Es')

/-- what is known about a kept row and the compacted value it travels with -/
def RowVal (fc : Bytes → Option Bytes) (p : Row × NValue) : Prop :=
  (∀ a nx b, p.1.entry ≠ .dead a nx b) ∧ p.2.bytes.length = p.1.entry.value.length ∧
    ((fcx fc p.1.entry.ext p.1.entry.content = none ∧ p.2.bytes = p.1.entry.value) ∨
     (fcx fc p.1.entry.ext p.1.entry.content = some p.2.bytes ∧ p.1.entry.ext = none))

theorem compactRowsN_rel (fc : Bytes → Option Bytes) (guids : List Bytes) :
    ∀ (rows : List (Row × NValue)) (gs : List Bytes), (∀ p ∈ rows, RowVal fc p) →
      Rels fc (compactRows guids (rows.map Prod.fst) gs).1 (flatEntries (compactRowsN guids rows gs).1) ∧
      (compactRowsN guids rows gs).2 = (compactRows guids (rows.map Prod.fst) gs).2 := by
  intro rows
  induction rows with
  | nil => intro gs _; exact ⟨Rels.nil, rfl⟩
  | cons p rows ih =>
    intro gs hrows
    obtain ⟨d, nv⟩ := p
    have hrest : ∀ p ∈ rows, RowVal fc p := fun p hp => hrows p (by simp [hp])
    obtain ⟨hnd, hlen, hval⟩ := hrows (d, nv) (by simp)
    simp only at hnd hlen hval
    have hcont := content_eq_value_ext d.entry hnd
    cases hh : d.head with
    | none =>
      simp only [List.map_cons, compactRows, compactRowsN, hh]
      exact ih gs hrest
    | some hE =>
      cases hE with
      | data f v x nx =>
        simp only [List.map_cons, compactRows, compactRowsN, hh]
        exact ih gs hrest
      | dead a nx b =>
        simp only [List.map_cons, compactRows, compactRowsN, hh]
        exact ih gs hrest
      | var fh g n vh xh nxh =>
        have hrel : ∀ g', Rel fc (Entry.var (mergeFlags fh d.entry.flags) g' n d.entry.value d.entry.ext none)
            (NEntry.var (mergeFlags fh d.entry.flags) g' n nv d.entry.ext none).flat := by
          intro g'
          refine ⟨_, g', n, d.entry.value, nv.bytes, d.entry.ext, rfl, rfl, hlen, ?_⟩
          rw [← hcont]
          exact hval
        cases g with
        | inline gb =>
          simp only [List.map_cons, compactRows, compactRowsN, hh, flatEntries]
          obtain ⟨h1, h2⟩ := ih gs hrest
          exact ⟨Rels.cons (hrel _) h1, h2⟩
        | index i =>
          simp only [List.map_cons, compactRows, compactRowsN, hh, flatEntries]
          obtain ⟨h1, h2⟩ := ih (guidIdxG gs (GuidRef.resolve guids (.index i))).2 hrest
          exact ⟨Rels.cons (hrel _) h1, h2⟩

/-- every compacted entry is a terminal variable holding the compacted value and the extended
    header of one of the rows -/
theorem compactRowsN_entries (guids : List Bytes) :
    ∀ (rows : List (Row × NValue)) (gs : List Bytes),
      ∀ E ∈ (compactRowsN guids rows gs).1, ∃ p ∈ rows, ∃ f g n, E = NEntry.var f g n p.2 p.1.entry.ext none := by
  intro rows
  induction rows with
  | nil => intro gs E hE; simp [compactRowsN] at hE
  | cons p rows ih =>
    intro gs E hE
    obtain ⟨d, nv⟩ := p
    have hstep : ∀ gs', E ∈ (compactRowsN guids rows gs').1 →
        ∃ p ∈ (d, nv) :: rows, ∃ f g n, E = NEntry.var f g n p.2 p.1.entry.ext none := by
      intro gs' h
      obtain ⟨p, hp, rest⟩ := ih gs' E h
      exact ⟨p, List.mem_cons_of_mem _ hp, rest⟩
    cases hh : d.head with
    | none =>
      simp only [compactRowsN, hh] at hE
      exact hstep gs hE
    | some hE' =>
      cases hE' with
      | data f v x nx => simp only [compactRowsN, hh] at hE; exact hstep gs hE
      | dead a nx b => simp only [compactRowsN, hh] at hE; exact hstep gs hE
      | var fh g n vh xh nxh =>
        cases g with
        | inline gb =>
          simp only [compactRowsN, hh, List.mem_cons] at hE
          rcases hE with hE | hE
          · exact ⟨(d, nv), by simp, _, _, _, hE⟩
          · exact hstep _ hE
        | index i =>
          simp only [compactRowsN, hh, List.mem_cons] at hE
          rcases hE with hE | hE
          · exact ⟨(d, nv), by simp, _, _, _, hE⟩
          · exact hstep _ hE

/-! ### consequences of `Rel` -/

theorem rel_size (fc : Bytes → Option Bytes) (E E' : Entry) (h : Rel fc E E') : E'.size = E.size := by
  obtain ⟨f, g, n, v, v', x, rfl, rfl, hl, _⟩ := h
  simp [Entry.size, Entry.body, hl]

theorem rel_ok (fc : Bytes → Option Bytes) (N : Nat) (E E' : Entry) (h : Rel fc E E') : E'.ok N = E.ok N := by
  have hs := rel_size fc E E' h
  obtain ⟨f, g, n, v, v', x, rfl, rfl, hl, _⟩ := h
  simp only [Entry.ok, hs]

theorem rel_idx (fc : Bytes → Option Bytes) (E E' : Entry) (h : Rel fc E E') : idxBound E' = idxBound E := by
  obtain ⟨f, g, n, v, v', x, rfl, rfl, hl, _⟩ := h
  cases g <;> rfl

theorem rel_key (fc : Bytes → Option Bytes) (G : List Bytes) (E E' : Entry) (h : Rel fc E E') : E'.key G = E.key G := by
  obtain ⟨f, g, n, v, v', x, rfl, rfl, _, _⟩ := h
  rfl

theorem rels_keys (fc : Bytes → Option Bytes) (G : List Bytes) (Es Es' : List Entry) (h : Rels fc Es Es') :
    Es'.map (Entry.key G) = Es.map (Entry.key G) := by
  induction h with
  | nil => rfl
  | cons h _ ih => simp only [List.map_cons, rel_key fc G _ _ h, ih]

theorem rels_len (fc : Bytes → Option Bytes) (Es Es' : List Entry) (h : Rels fc Es Es') :
    entriesLen Es' = entriesLen Es := by
  induction h with
  | nil => rfl
  | cons h _ ih =>
    simp only [entriesLen, List.map_cons, List.sum_cons] at *
    rw [rel_size fc _ _ h, ih]

theorem rels_maxIdx (fc : Bytes → Option Bytes) (Es Es' : List Entry) (h : Rels fc Es Es') :
    maxIdx Es' = maxIdx Es := by
  induction h with
  | nil => rfl
  | cons h _ ih => simp only [maxIdx, rel_idx fc _ _ h, ih]

theorem rels_ok (fc : Bytes → Option Bytes) (N : Nat) (Es Es' : List Entry) (h : Rels fc Es Es')
    (hok : ∀ E ∈ Es, E.ok N = true) : ∀ E' ∈ Es', E'.ok N = true := by
  induction h with
  | nil => intro E' hE'; simp at hE'
  | cons h _ ih =>
    intro E' hE'
    rcases List.mem_cons.1 hE' with hE' | hE'
    · subst hE'; rw [rel_ok fc N _ _ h]; exact hok _ (by simp)
    · exact ih (fun E hE => hok E (by simp [hE])) E' hE'

theorem rels_allvar (fc : Bytes → Option Bytes) (Es Es' : List Entry) (h : Rels fc Es Es') :
    ∀ E' ∈ Es', ∃ f g n v x, E' = Entry.var f g n v x none := by
  induction h with
  | nil => intro E' hE'; simp at hE'
  | cons h _ ih =>
    intro E' hE'
    rcases List.mem_cons.1 hE' with hE' | hE'
    · subst hE'
      obtain ⟨f, g, n, v, v', x, _, h2, _⟩ := h
      exact ⟨f, g, n, v', x, h2⟩
    · exact ih E' hE'

/-- well-formedness (one level) only looks at the shape -/
theorem rels_parts (fc : Bytes → Option Bytes) (pol free free' : Nat) (G : List Bytes) (Es Es' : List Entry)
    (h : Rels fc Es Es') (hp : WFParts ⟨pol, Es, free, G⟩) : WFParts ⟨pol, Es', free', G⟩ := by
  refine ⟨hp.pol, ?_, hp.g16, hp.n255, ?_⟩
  · exact rels_ok fc _ Es Es' h hp.ok
  · have := hp.ref
    simp only at this ⊢
    rw [rels_maxIdx fc Es Es' h]; exact this

/-- the parsed form of the related entry is the parsed form of the entry with its content
    substituted -/
theorem rel_expect (fc : Bytes → Option Bytes) (pol : Nat) (G : List Bytes) (off : Nat) (E E' : Entry)
    (h : Rel fc E E') (N : Nat) (hok : E.ok N = true) :
    expectNVar pol G ⟨off, E', some E'⟩ = substC (liftF fc) (expectNVar pol G ⟨off, E, some E⟩) := by
  have hs := rel_size fc E E' h
  obtain ⟨f, g, n, v, v', x, rfl, rfl, hl, hv⟩ := h
  have hcont : content (expectNVar pol G ⟨off, .var f g n v x none, some (.var f g n v x none)⟩) = v ++ extSer x := by
    rw [content_expect_nd _ _ _ (by intro a nx b hh; cases hh)]; rfl
  have hbit : hasBit (Entry.var f g n v x none).attrs aExtHdr = x.isSome := by
    simp only [Entry.ok, Bool.and_eq_true, decide_eq_true_eq] at hok
    obtain ⟨_, ⟨⟨⟨⟨hf, _⟩, _⟩, _⟩, _⟩⟩ := hok
    exact (var_bits f g n v x none hf).2.2.2.2.2.1
  have hF : liftF fc (expectNVar pol G ⟨off, .var f g n v x none, some (.var f g n v x none)⟩)
      = fcx fc x (v ++ extSer x) := by
    unfold liftF fcx
    rw [hcont, expect_attrs, hbit]
    cases x <;> simp [expectNVar]
  unfold substC
  rw [hF]
  rcases hv with ⟨h1, h2⟩ | ⟨h1, h2⟩
  · rw [h1, h2]
  · rw [h1]
    subst h2
    have hattrs : (Entry.var f g n v' none none).attrs = (Entry.var f g n v none none).attrs := rfl
    have hser : (Entry.var f g n v' none none).ser pol
        = ((Entry.var f g n v none none).ser pol).take (headLen (Entry.var f g n v none none)) ++ v' := by
      rw [Entry.ser_eq, Entry.ser_eq, hs, hattrs]
      have hb : (Entry.var f g n v none none).body = g.ser ++ n.ser ++ v := by simp [Entry.body, extSer]
      have hb' : (Entry.var f g n v' none none).body = g.ser ++ n.ser ++ v' := by simp [Entry.body, extSer]
      have hn : (Entry.var f g n v' none none).nextField pol = (Entry.var f g n v none none).nextField pol := rfl
      rw [hb, hb', hn]
      have hH := hdr_length (Entry.var f g n v none none).size ((Entry.var f g n v none none).nextField pol)
        (Entry.var f g n v none none).attrs
      generalize hdr (Entry.var f g n v none none).size ((Entry.var f g n v none none).nextField pol)
        (Entry.var f g n v none none).attrs = H at hH ⊢
      have e1 : H ++ (g.ser ++ n.ser ++ v) = (H ++ g.ser ++ n.ser) ++ v := by simp
      rw [e1, take_append_len _ _ _ (by simp [headLen, hH]; omega)]
      simp
    simp only [expectNVar, hs, hser]
    rfl

theorem rels_expect (fc : Bytes → Option Bytes) (pol : Nat) (G : List Bytes) (Es Es' : List Entry)
    (h : Rels fc Es Es') (N : Nat) (hok : ∀ E ∈ Es, E.ok N = true) (off : Nat) :
    (varRows Es' off).map (expectNVar pol G)
      = ((varRows Es off).map (expectNVar pol G)).map (substC (liftF fc)) := by
  induction h generalizing off with
  | nil => rfl
  | cons h _ ih =>
    simp only [varRows, List.map_cons]
    rw [rel_expect fc pol G off _ _ h N (hok _ (by simp)), rel_size fc _ _ h,
      ih (fun E hE => hok E (by simp [hE]))]

end Fiano.Nvram
