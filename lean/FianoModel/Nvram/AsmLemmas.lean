/-
  assemble on the parsed form of a well-formed store gives the same store back (same bytes).
-/
import FianoModel.Nvram.WalkLemmas

namespace Fiano.Nvram
open Spec

theorem content_expect (pol : Nat) (guids : List Bytes) (r : Row) :
    content (expectNVar pol guids r) = (match r.entry with | .dead _ _ b => b | e => e.content) := by
  obtain ⟨o, e, h⟩ := r
  cases e with
  | var f g n v x nx =>
    simp only [content, expectNVar, headLen]
    rw [Entry.ser_eq]
    have : hdr (Entry.var f g n v x nx).size ((Entry.var f g n v x nx).nextField pol) (Entry.var f g n v x nx).attrs
          ++ (Entry.var f g n v x nx).body
        = (hdr (Entry.var f g n v x nx).size ((Entry.var f g n v x nx).nextField pol) (Entry.var f g n v x nx).attrs
          ++ g.ser ++ n.ser) ++ (v ++ extSer x) := by simp [Entry.body]
    rw [this]
    simp only [Entry.content]
    exact drop_append_len _ _ _ (by simp [hdr_length]; omega)
  | data f v x nx =>
    have : (Entry.data f v x nx).ser pol = hdr (Entry.data f v x nx).size ((Entry.data f v x nx).nextField pol)
        (Entry.data f v x nx).attrs ++ (v ++ extSer x) := by rw [Entry.ser_eq]; rfl
    cases h <;> simp only [content, expectNVar, Entry.content] <;> rw [this] <;>
      exact drop_append_len _ _ _ (hdr_length _ _ _)
  | dead a nx b =>
    simp only [content, expectNVar]
    rw [Entry.ser_eq]
    exact drop_append_len _ _ _ (hdr_length _ _ _)

theorem nestedOf_expect (pol : Nat) (guids : List Bytes) (r : Row) (hok : r.entry.ok guids.length = true) :
    nestedOf pol (expectNVar pol guids r) = none := by
  unfold nestedOf
  rw [content_expect]
  obtain ⟨o, e, h⟩ := r
  cases e with
  | dead a nx b => simp [expectNVar]
  | var f g n v x nx =>
    simp only [Entry.ok, Bool.and_eq_true] at hok
    have := hok.1.2
    simp only [sig_eq] at this
    simp only [bne_iff_ne, ne_eq] at this
    simp [this]
  | data f v x nx =>
    simp only [Entry.ok, Bool.and_eq_true] at hok
    have := hok.1.2
    simp only [sig_eq, bne_iff_ne, ne_eq] at this
    simp [this]

theorem polNext (pol : Nat) (hpol : pol = 0xFF ∨ pol = 0) : pol + 256 * pol + 65536 * pol = nextVal pol none := by
  rcases hpol with h | h <;> subst h <;> simp [nextVal]

theorem nameBytes_ser (attrs : Nat) (n : VarName) (hb : hasBit attrs aAscii = VarName.isAscii n)
    (hok : okName n = true) : nameBytes attrs n.text = n.ser := by
  cases n with
  | ascii s => simp [nameBytes, hb, VarName.isAscii, VarName.text, VarName.ser]
  | ucs2 cs =>
    simp only [nameBytes, hb, VarName.isAscii, Bool.false_eq_true, if_false, VarName.text, VarName.ser]
    exact utf8ToUcs2_scalars cs (okName_ucs2 cs hok)

/-- generic form: a valid entry whose fields describe its own buffer is reproduced by the
    check-only rebuild -/
theorem asmNVar_check (pol : Nat) (v : NVar) (c gn : Bytes) (hv : v.type.isValid = true)
    (hgn : guidNamePart v = some gn)
    (hnext : (if v.nextOffset ≠ 0 then write3 (v.nextOffset - v.offset) else pol + 256 * pol + 65536 * pol) = v.next)
    (hdo : v.dataOffset = 10 + gn.length) (hsz : v.size = 10 + gn.length + c.length) (hlt : v.size < 65536)
    (hbuf : v.buf = hdr v.size v.next v.attrs ++ gn ++ c) :
    asmNVar pol v c true = .ok v := by
  unfold asmNVar
  simp only [hv, Bool.not_true, Bool.false_eq_true, if_false, Bool.and_false, hgn, hnext, if_true]
  rw [show sig ++ leN 2 v.size ++ leN 3 v.next ++ [UInt8.ofNat v.attrs] = hdr v.size v.next v.attrs from rfl]
  have h1 : ¬ (v.dataOffset ≠ (hdr v.size v.next v.attrs ++ gn).length) := by
    simp [hdr_length, hdo]
  have h2 : ¬ (v.size ≠ ((hdr v.size v.next v.attrs ++ gn).length + c.length) % 65536) := by
    simp only [List.length_append, hdr_length, ← hsz, Nat.mod_eq_of_lt hlt]; simp
  simp only [h1, h2, if_false, ← hbuf]

/-- the check-only rebuild of a parsed entry reproduces it -/
theorem asmNVar_expect (pol : Nat) (hpol : pol = 0xFF ∨ pol = 0) (guids : List Bytes) (r : Row)
    (hok : r.entry.ok guids.length = true) (hv : (expectNVar pol guids r).type.isValid = true) :
    asmNVar pol (expectNVar pol guids r) (content (expectNVar pol guids r)) true
      = .ok (expectNVar pol guids r) := by
  rw [content_expect]
  obtain ⟨o, e, h⟩ := r
  cases e with
  | dead a nx b => simp [expectNVar, EType.isValid] at hv
  | data f v x nx =>
    cases h with
    | none => simp [expectNVar, EType.isValid] at hv
    | some hh =>
      have hok' := hok
      simp only [Entry.ok, Bool.and_eq_true, decide_eq_true_eq] at hok'
      obtain ⟨⟨hsz, _⟩, ⟨hf, hx⟩, hnx⟩ := hok'
      obtain ⟨ha, hbv, hbd, hbx, hba⟩ := data_bits f v x nx hf
      apply asmNVar_check pol _ _ [] hv
      · simp [guidNamePart, expectNVar, hbd]
      · cases nx with
        | none => simp [expectNVar, nextOff, Entry.nextField, polNext pol hpol]
        | some rr =>
          simp only [okNext, Bool.and_eq_true, decide_eq_true_eq] at hnx
          have hno : ¬ (o + rr = 0) := by omega
          have h3 : o + rr - o = rr := by omega
          have h4 : ¬ (rr ≥ 0xFFFFFF) := by omega
          simp [expectNVar, nextOff, Entry.nextField, nextVal, h3, write3, h4]
          intro h0 h1; omega
      · simp [expectNVar]
      · simp [expectNVar, Entry.size, Entry.body, Entry.content]
      · simpa [expectNVar] using hsz
      · simp [expectNVar, Entry.ser_eq, Entry.body, Entry.content]
  | var f g n v x nx =>
    have hok' := hok
    simp only [Entry.ok, Bool.and_eq_true, decide_eq_true_eq] at hok'
    obtain ⟨⟨hsz, _⟩, ⟨⟨⟨⟨hf, hg⟩, hn⟩, hx⟩, hnx⟩⟩ := hok'
    obtain ⟨ha, hbv, hbd, hbn, hbg, hbx, hba⟩ := var_bits f g n v x nx hf
    have hnb := nameBytes_ser _ n hbn hn
    apply asmNVar_check pol _ _ (g.ser ++ n.ser) hv
    · cases g with
      | inline gb => simp [guidNamePart, expectNVar, hbd, hbg, GuidRef.isInline, GuidRef.resolve, GuidRef.ser, hnb]
      | index i =>
        simp only [okGuid, decide_eq_true_eq] at hg
        simp [guidNamePart, expectNVar, hbd, hbg, GuidRef.isInline, GuidRef.index?, GuidRef.ser, hnb]
    · cases nx with
      | none => simp [expectNVar, nextOff, Entry.nextField, polNext pol hpol]
      | some rr =>
        simp only [okNext, Bool.and_eq_true, decide_eq_true_eq] at hnx
        have hno : ¬ (o + rr = 0) := by omega
        have h3 : o + rr - o = rr := by omega
        have h4 : ¬ (rr ≥ 0xFFFFFF) := by omega
        simp [expectNVar, nextOff, Entry.nextField, nextVal, h3, write3, h4]
        intro h0 h1; omega
    · simp [expectNVar, headLen]; omega
    · simp [expectNVar, Entry.size, Entry.body, Entry.content]; omega
    · simpa [expectNVar] using hsz
    · simp [expectNVar, Entry.ser_eq, Entry.body, Entry.content]

theorem asmEntries_expect (pol : Nat) (hpol : pol = 0xFF ∨ pol = 0) (guids : List Bytes)
    (rec : Store → Except Err Store) (rows : List Row) (hok : ∀ r ∈ rows, r.entry.ok guids.length = true) :
    asmEntries pol rec (rows.map (expectNVar pol guids)) = .ok (rows.map (expectNVar pol guids)) := by
  induction rows with
  | nil => rfl
  | cons r rows ih =>
    have hr := hok r (by simp)
    simp only [List.map_cons, asmEntries, nestedOf_expect pol guids r hr,
      ih (fun r' hr' => hok r' (by simp [hr']))]
    cases hv : (expectNVar pol guids r).type.isValid with
    | true => simp [asmNVar_expect pol hpol guids r hr hv]
    | false => simp

theorem owners_entries (done : List Row) (es : List Entry) (off : Nat) :
    (owners done es off).map (·.entry) = done.map (·.entry) ++ es := by
  induction es generalizing done off with
  | nil => simp [owners]
  | cons e es ih => simp [owners, ih]

theorem table_entries (s : NvStore) : (table s).map (·.entry) = s.entries := by
  simp [table, owners_entries]

theorem expect_buf (pol : Nat) (guids : List Bytes) (r : Row) :
    (expectNVar pol guids r).buf = r.entry.ser pol := by
  obtain ⟨o, e, h⟩ := r
  cases e with
  | var f g n v x nx => rfl
  | data f v x nx => cases h <;> rfl
  | dead a nx b => rfl

theorem expect_bufs (s : NvStore) :
    ((table s).map (expectNVar s.pol s.guids)).flatMap (·.buf) = s.entries.flatMap (Entry.ser s.pol) := by
  rw [← table_entries s]
  generalize table s = t
  induction t with
  | nil => rfl
  | cons r t ih => simp only [List.map_cons, List.flatMap_cons, expect_buf, ih]

/-- assembling the parsed form of a well-formed store changes nothing -/
theorem asmStoreWith_expect (s : NvStore) (hwf : WF s) (rec : Store → Except Err Store) :
    asmStoreWith s.pol rec (expectStore s) = .ok (expectStore s) := by
  have hp := wf_parts s hwf
  have hL := ser_length s hp
  unfold asmStoreWith
  have hrows : ∀ r ∈ table s, r.entry.ok s.guids.length = true := by
    intro r hr
    apply hp.ok
    rw [← table_entries s]
    exact List.mem_map_of_mem hr
  have he : (expectStore s).entries = (table s).map (expectNVar s.pol s.guids) := rfl
  rw [he, asmEntries_expect s.pol hp.pol s.guids rec (table s) hrows]
  simp only [layout, expect_bufs, entriesLen_ser]
  have h1 : ¬ ((expectStore s).length < 16 * (expectStore s).guidStore.length) := by
    simp only [expectStore]; omega
  have h1' : ¬ ((expectStore s).length - 16 * (expectStore s).guidStore.length < entriesLen s.entries) := by
    simp only [expectStore]; omega
  simp only [h1, h1', if_false]
  have h2 : (expectStore s).length - 16 * (expectStore s).guidStore.length = entriesLen s.entries + s.free := by
    simp only [expectStore]; omega
  have h3 : entriesLen s.entries + s.free - entriesLen s.entries = s.free := by omega
  simp only [h2, h3]
  simp [expectStore, NvStore.ser]

theorem asmStore_expect (s : NvStore) (hwf : WF s) (d : Nat) :
    asmStore s.pol (d + 1) (expectStore s) = .ok (expectStore s) := by
  simp only [asmStore]
  exact asmStoreWith_expect s hwf _

end Fiano.Nvram
