/-
  assemble on the parsed form of a well-formed store gives the same store back (same bytes).
-/
import FianoModel.Nvram.WalkLemmas

namespace Fiano.Nvram
open Spec

theorem content_expect (pol : Nat) (guids : List Bytes) (r : Row) :
    content (expectNVar pol guids r) = (match r.entry with | .dead _ _ b => b | e => e.content) := by
  obtain ⟨o, e, h⟩ := r
  cases e with
  | var f g n v x nx =>
    simp only [content, expectNVar, headLen]
    rw [Entry.ser_eq]
    have : hdr (Entry.var f g n v x nx).size ((Entry.var f g n v x nx).nextField pol) (Entry.var f g n v x nx).attrs
          ++ (Entry.var f g n v x nx).body
        = (hdr (Entry.var f g n v x nx).size ((Entry.var f g n v x nx).nextField pol) (Entry.var f g n v x nx).attrs
          ++ g.ser ++ n.ser) ++ (v ++ extSer x) := by simp [Entry.body]
    rw [this]
    simp only [Entry.content]
    exact drop_append_len _ _ _ (by simp [hdr_length]; omega)
  | data f v x nx =>
    have : (Entry.data f v x nx).ser pol = hdr (Entry.data f v x nx).size ((Entry.data f v x nx).nextField pol)
        (Entry.data f v x nx).attrs ++ (v ++ extSer x) := by rw [Entry.ser_eq]; rfl
    cases h <;> simp only [content, expectNVar, Entry.content] <;> rw [this] <;>
      exact drop_append_len _ _ _ (hdr_length _ _ _)
  | dead a nx b =>
    simp only [content, expectNVar]
    rw [Entry.ser_eq]
    exact drop_append_len _ _ _ (hdr_length _ _ _)

theorem nestedOf_expect (pol : Nat) (guids : List Bytes) (r : Row) (hpl : r.entry.plain = true) :
    nestedOf pol (expectNVar pol guids r) = none := by
  unfold nestedOf
  rw [content_expect]
  obtain ⟨o, e, h⟩ := r
  cases e with
  | dead a nx b => simp [expectNVar]
  | var f g n v x nx =>
    have := hpl
    simp only [Entry.plain, sig_eq, bne_iff_ne, ne_eq] at this
    simp [this]
  | data f v x nx =>
    have := hpl
    simp only [Entry.plain, sig_eq, bne_iff_ne, ne_eq] at this
    simp [this]

theorem polNext (pol : Nat) (hpol : pol = 0xFF ∨ pol = 0) : pol + 256 * pol + 65536 * pol = nextVal pol none := by
  rcases hpol with h | h <;> subst h <;> simp [nextVal]

theorem nameBytes_ser (attrs : Nat) (n : VarName) (hb : hasBit attrs aAscii = VarName.isAscii n)
    (hok : okName n = true) : nameBytes attrs n.text = n.ser := by
  cases n with
  | ascii s => simp [nameBytes, hb, VarName.isAscii, VarName.text, VarName.ser]
  | ucs2 cs =>
    simp only [nameBytes, hb, VarName.isAscii, Bool.false_eq_true, if_false, VarName.text, VarName.ser]
    exact utf8ToUcs2_scalars cs (okName_ucs2 cs hok)

/-- generic form: a valid entry whose fields describe its own buffer is reproduced by the
    check-only rebuild -/
theorem asmNVar_check (pol : Nat) (v : NVar) (c gn : Bytes) (hv : v.type.isValid = true)
    (hgn : guidNamePart v = some gn)
    (hnext : (if v.nextOffset ≠ 0 then write3 (v.nextOffset - v.offset) else pol + 256 * pol + 65536 * pol) = v.next)
    (hdo : v.dataOffset = 10 + gn.length) (hsz : v.size = 10 + gn.length + c.length) (hlt : v.size < 65536)
    (hbuf : v.buf = hdr v.size v.next v.attrs ++ gn ++ c) :
    asmNVar pol v c true = .ok v := by
  unfold asmNVar
  simp only [hv, Bool.not_true, Bool.false_eq_true, if_false, Bool.and_false, hgn, hnext, if_true]
  rw [show sig ++ leN 2 v.size ++ leN 3 v.next ++ [UInt8.ofNat v.attrs] = hdr v.size v.next v.attrs from rfl]
  have h1 : ¬ (v.dataOffset ≠ (hdr v.size v.next v.attrs ++ gn).length) := by
    simp [hdr_length, hdo]
  have h2 : ¬ (v.size ≠ ((hdr v.size v.next v.attrs ++ gn).length + c.length) % 65536) := by
    simp only [List.length_append, hdr_length, ← hsz, Nat.mod_eq_of_lt hlt]; simp
  simp only [h1, h2, if_false, ← hbuf]

/-- the check-only rebuild of a parsed entry reproduces it -/
theorem asmNVar_expect (pol : Nat) (hpol : pol = 0xFF ∨ pol = 0) (guids : List Bytes) (r : Row)
    (hok : r.entry.ok guids.length = true) (hv : (expectNVar pol guids r).type.isValid = true) :
    asmNVar pol (expectNVar pol guids r) (content (expectNVar pol guids r)) true
      = .ok (expectNVar pol guids r) := by
  rw [content_expect]
  obtain ⟨o, e, h⟩ := r
  cases e with
  | dead a nx b => simp [expectNVar, EType.isValid] at hv
  | data f v x nx =>
    cases h with
    | none => simp [expectNVar, EType.isValid] at hv
    | some hh =>
      have hok' := hok
      simp only [Entry.ok, Bool.and_eq_true, decide_eq_true_eq] at hok'
      obtain ⟨hsz, ⟨hf, hx⟩, hnx⟩ := hok'
      obtain ⟨ha, hbv, hbd, hbx, hba⟩ := data_bits f v x nx hf
      apply asmNVar_check pol _ _ [] hv
      · simp [guidNamePart, expectNVar, hbd]
      · cases nx with
        | none => simp [expectNVar, nextOff, Entry.nextField, polNext pol hpol]
        | some rr =>
          simp only [okNext, Bool.and_eq_true, decide_eq_true_eq] at hnx
          have hno : ¬ (o + rr = 0) := by omega
          have h3 : o + rr - o = rr := by omega
          have h4 : ¬ (rr ≥ 0xFFFFFF) := by omega
          simp [expectNVar, nextOff, Entry.nextField, nextVal, h3, write3, h4]
          intro h0 h1; omega
      · simp [expectNVar]
      · simp [expectNVar, Entry.size, Entry.body, Entry.content]
      · simpa [expectNVar] using hsz
      · simp [expectNVar, Entry.ser_eq, Entry.body, Entry.content]
  | var f g n v x nx =>
    have hok' := hok
    simp only [Entry.ok, Bool.and_eq_true, decide_eq_true_eq] at hok'
    obtain ⟨hsz, ⟨⟨⟨⟨hf, hg⟩, hn⟩, hx⟩, hnx⟩⟩ := hok'
    obtain ⟨ha, hbv, hbd, hbn, hbg, hbx, hba⟩ := var_bits f g n v x nx hf
    have hnb := nameBytes_ser _ n hbn hn
    apply asmNVar_check pol _ _ (g.ser ++ n.ser) hv
    · cases g with
      | inline gb => simp [guidNamePart, expectNVar, hbd, hbg, GuidRef.isInline, GuidRef.resolve, GuidRef.ser, hnb]
      | index i =>
        simp only [okGuid, decide_eq_true_eq] at hg
        simp [guidNamePart, expectNVar, hbd, hbg, GuidRef.isInline, GuidRef.index?, GuidRef.ser, hnb]
    · cases nx with
      | none => simp [expectNVar, nextOff, Entry.nextField, polNext pol hpol]
      | some rr =>
        simp only [okNext, Bool.and_eq_true, decide_eq_true_eq] at hnx
        have hno : ¬ (o + rr = 0) := by omega
        have h3 : o + rr - o = rr := by omega
        have h4 : ¬ (rr ≥ 0xFFFFFF) := by omega
        simp [expectNVar, nextOff, Entry.nextField, nextVal, h3, write3, h4]
        intro h0 h1; omega
    · simp [expectNVar, headLen]; omega
    · simp [expectNVar, Entry.size, Entry.body, Entry.content]; omega
    · simpa [expectNVar] using hsz
    · simp [expectNVar, Entry.ser_eq, Entry.body, Entry.content]

/-- what the recursive call of the Assemble visitor must deliver for the entries that carry a
    nested store: success, and a buffer equal to the entry's content -/
def NestAsmOk (pol : Nat) (rec : Store → Except Err Store) (v : NVar) : Prop :=
  ∀ ns, nestedOf pol v = some ns → ∃ r, rec ns = .ok r ∧ r.buf = content v

theorem asmEntries_expect_gen (pol : Nat) (hpol : pol = 0xFF ∨ pol = 0) (guids : List Bytes)
    (rec : Store → Except Err Store) (rows : List Row) (hok : ∀ r ∈ rows, r.entry.ok guids.length = true)
    (hn : ∀ r ∈ rows, NestAsmOk pol rec (expectNVar pol guids r)) :
    asmEntries pol rec (rows.map (expectNVar pol guids)) = .ok (rows.map (expectNVar pol guids)) := by
  induction rows with
  | nil => rfl
  | cons r rows ih =>
    have hr := hok r (by simp)
    have hnr := hn r (by simp)
    simp only [List.map_cons, asmEntries, ih (fun r' hr' => hok r' (by simp [hr'])) (fun r' hr' => hn r' (by simp [hr']))]
    cases hns : nestedOf pol (expectNVar pol guids r) with
    | none =>
      simp only
      cases hv : (expectNVar pol guids r).type.isValid with
      | true => simp [asmNVar_expect pol hpol guids r hr hv]
      | false => simp
    | some ns =>
      obtain ⟨r', hr1, hr2⟩ := hnr ns hns
      simp only [hr1, hr2]
      cases hv : (expectNVar pol guids r).type.isValid with
      | true => simp [asmNVar_expect pol hpol guids r hr hv]
      | false => simp

theorem asmEntries_expect (pol : Nat) (hpol : pol = 0xFF ∨ pol = 0) (guids : List Bytes)
    (rec : Store → Except Err Store) (rows : List Row) (hok : ∀ r ∈ rows, r.entry.ok guids.length = true)
    (hpl : ∀ r ∈ rows, r.entry.plain = true) :
    asmEntries pol rec (rows.map (expectNVar pol guids)) = .ok (rows.map (expectNVar pol guids)) :=
  asmEntries_expect_gen pol hpol guids rec rows hok (fun r hr ns hns => by
    rw [nestedOf_expect pol guids r (hpl r hr)] at hns; cases hns)

theorem owners_entries (done : List Row) (es : List Entry) (off : Nat) :
    (owners done es off).map (·.entry) = done.map (·.entry) ++ es := by
  induction es generalizing done off with
  | nil => simp [owners]
  | cons e es ih => simp [owners, ih]

theorem table_entries (s : NvStore) : (table s).map (·.entry) = s.entries := by
  simp [table, owners_entries]

theorem expect_buf (pol : Nat) (guids : List Bytes) (r : Row) :
    (expectNVar pol guids r).buf = r.entry.ser pol := by
  obtain ⟨o, e, h⟩ := r
  cases e with
  | var f g n v x nx => rfl
  | data f v x nx => cases h <;> rfl
  | dead a nx b => rfl

theorem expect_bufs (s : NvStore) :
    ((table s).map (expectNVar s.pol s.guids)).flatMap (·.buf) = s.entries.flatMap (Entry.ser s.pol) := by
  rw [← table_entries s]
  generalize table s = t
  induction t with
  | nil => rfl
  | cons r t ih => simp only [List.map_cons, List.flatMap_cons, expect_buf, ih]

/-- the store-level part of the Assemble visitor on the parsed entries of a well-formed store:
    entries, erased gap, reversed GUID table — the serialized store again.  `st` is any in-memory
    store with the right length and GUID table (the parsed store itself, or the store compaction
    hands over). -/
theorem layout_expect (s : NvStore) (hp : WFParts s) (st : Store) (hg : st.guidStore = s.guids)
    (hl : st.length = s.ser.length) : layout s.pol st (expectStore s).entries = .ok (expectStore s) := by
  have hL := ser_length s hp
  have he : (expectStore s).entries = (table s).map (expectNVar s.pol s.guids) := rfl
  rw [he]
  simp only [layout, expect_bufs, entriesLen_ser, hg, hl]
  have h1 : ¬ (s.ser.length < 16 * s.guids.length) := by omega
  have h1' : ¬ (s.ser.length - 16 * s.guids.length < entriesLen s.entries) := by omega
  simp only [h1, h1', if_false]
  have h2 : s.ser.length - 16 * s.guids.length = entriesLen s.entries + s.free := by omega
  have h3 : entriesLen s.entries + s.free - entriesLen s.entries = s.free := by omega
  simp only [h2, h3]
  cases st
  simp only at hg hl
  subst hg hl
  simp [expectStore, NvStore.ser]

/-- assembling the parsed form of a well-formed store changes nothing, provided the recursive calls
    on the nested stores do their job -/
theorem asmStoreWith_expect_gen (s : NvStore) (hp : WFParts s) (rec : Store → Except Err Store)
    (hn : ∀ r ∈ table s, NestAsmOk s.pol rec (expectNVar s.pol s.guids r)) :
    asmStoreWith s.pol rec (expectStore s) = .ok (expectStore s) := by
  unfold asmStoreWith
  have hrows : ∀ r ∈ table s, r.entry.ok s.guids.length = true := by
    intro r hr
    apply hp.ok
    rw [← table_entries s]
    exact List.mem_map_of_mem hr
  have he : (expectStore s).entries = (table s).map (expectNVar s.pol s.guids) := rfl
  rw [he, asmEntries_expect_gen s.pol hp.pol s.guids rec (table s) hrows hn]
  simp only
  rw [← he]
  exact layout_expect s hp (expectStore s) rfl rfl

/-- assembling the parsed form of a well-formed store (no nested stores) changes nothing -/
theorem asmStoreWith_expect (s : NvStore) (hwf : WF s) (rec : Store → Except Err Store) :
    asmStoreWith s.pol rec (expectStore s) = .ok (expectStore s) := by
  apply asmStoreWith_expect_gen s (wf_parts s hwf) rec
  intro r hr ns hns
  have hpl := wf_plain s hwf r.entry (by rw [← table_entries s]; exact List.mem_map_of_mem hr)
  rw [nestedOf_expect s.pol s.guids r hpl] at hns; cases hns

theorem asmStore_expect (s : NvStore) (hwf : WF s) (d : Nat) :
    asmStore s.pol (d + 1) (expectStore s) = .ok (expectStore s) := by
  simp only [asmStore]
  exact asmStoreWith_expect s hwf _

end Fiano.Nvram
