/-
  Model of the extended-header checksum part of `NVar.parseExtendedHeader` (pkg/uefi/nvram.go):
  fiano does not verify the checksum, it REPORTS the stored byte (`NVar.Checksum`) and, when the
  sum over the covered bytes is not zero, the value that would make it zero
  (`NVar.ExpectedChecksum`).  Covered: entry size (bytes 4, 5), attributes (byte 9) and everything
  behind the header; the signature (0–3) and the Next field (6–8) are skipped, "so linking will not
  invalidate the sum".  Executable, core Lean only; tied by Nvram/TieLogic.lean (T1) and the driver
  op `cksum` (T2).
-/
import FianoModel.Nvram.Model

namespace Fiano.Nvram

/-- the bytes the checksum covers -/
def cksumBytes (buf : Bytes) (size : Nat) : Bytes := slice buf 4 2 ++ slice buf 9 (size - 9)

/-- sum of bytes in uint8 arithmetic -/
def sum8 (b : Bytes) : Nat := (b.map (·.toNat)).sum % 256

/-- what `parseExtendedHeader` leaves in `Checksum` / `ExpectedChecksum` for an entry whose Valid
    bit is set (`none` = `Checksum` stays nil): the size sanity checks come first, then the checksum
    bit of the extended attributes decides.  `buf` is the entry buffer (`size` bytes, `size ≥ 10`). -/
def extChecksum (attrs size : Nat) (buf : Bytes) : Option (Nat × Option Nat) :=
  if !hasBit attrs aExtHdr then none
  else
    let es := fromLE (slice buf (size - 2) 2)
    if es > size - hdrSize then none                     -- extended header larger than the body
    else
      let eo := size - es
      match buf[eo]? with
      | none => none                                      -- reading the ext attributes hits EOF (es = 0)
      | some xa =>
        if xa.toNat % 2 = 1 then                           -- NVarEntryExtChecksum
          match buf[size - 3]? with
          | none => none
          | some stored =>
            let s := sum8 (cksumBytes buf size)
            some (stored.toNat, if s = 0 then none else some ((256 - s) % 256))
        else none

/-- per entry of a parsed store, in order -/
def storeChecksums (s : Store) : List (Option (Nat × Option Nat)) :=
  s.entries.map (fun v => if hasBit v.attrs aValid then extChecksum v.attrs v.size v.buf else none)

/-- the loop of `parseExtendedHeader` as written:
    `for i := 4; i < Size; i++ { sum += buf[i]; if i == 5 { i += 3 } }` with a uint8 accumulator;
    `none` = index out of range (a Go panic; never for `Size ≤ len(buf)`) -/
def goCksumLoop (buf : Bytes) (size : Nat) : Nat → Nat → Nat → Option Nat
  | 0, _, acc => some acc
  | f + 1, i, acc =>
    if i < size then
      match buf[i]? with
      | none => none
      | some c => goCksumLoop buf size f ((if i = 5 then i + 3 else i) + 1) ((acc + c.toNat) % 256)
    else some acc

end Fiano.Nvram
