/-
  Tie T1 "code as code" for the lazily loaded GUID table of the NVAR model:
  `(*NVarStore).getGUIDFromStore` translated from the Go source on every run (translator kind
  `nvlistfn`, Gen/CodeNvram.lean) equals the model's `getGuid`, for EVERY store buffer, in-memory GUID
  table and index — result GUID and new table.  In particular: the translated code never panics, its
  loop ends within its fuel, and the fill order is the model's (the GUID read first — lowest address —
  gets the highest index).  Replaces the hand transcription `goGetGuid` of TieLogic.lean.
-/
import FianoModel.Gen.CodeNvram
import FianoModel.Nvram.Model

namespace Fiano.Nvram.CodeTieGuid
open Fiano Fiano.Nvram Fiano.GuidRt
open Fiano.Gen.CodeNvram

/-! ### the run-time helpers on natural-number arguments -/

theorem getAt_nat (l : List (List UInt8)) (n : Nat) : getAt l (n : Int) = l[n]? := by
  unfold getAt
  have : ¬ ((n : Int) < 0) := by omega
  simp [this]

theorem setAt_nat (l : List (List UInt8)) (n : Nat) (g : List UInt8) (h : n < l.length) :
    setAt l (n : Int) g = some (l.set n g) := by
  unfold setAt
  have : ¬ ((n : Int) < 0 ∨ (l.length : Int) ≤ (n : Int)) := by omega
  rw [if_neg this, Int.toNat_natCast]

theorem readGuid_nat (b : List UInt8) (pos : Nat) (h : pos + 16 ≤ b.length) :
    readGuid (b, (pos : Int)) = some (slice b pos 16, (b, ((pos + 16 : Nat) : Int))) := by
  unfold readGuid
  have h1 : ¬ ((pos : Int) < 0) := by omega
  have h2 : (pos : Int) + 16 ≤ (b.length : Int) := by omega
  simp only [h1, h2, if_false, if_true, slice, Int.toNat_natCast]
  rfl

/-! ### the fill loop -/

/-- what the loop has written when it has gone from `j` down to 0: positions `0 … j` hold the GUIDs read
    from `pos`, `pos+16`, … (position `t` the one read as number `j - t`), the others are untouched -/
def Filled (sb : Bytes) (a r : List (List UInt8)) (j pos : Nat) : Prop :=
  r.length = a.length ∧
  (∀ t, t ≤ j → r[t]? = some (slice sb (pos + 16 * (j - t)) 16)) ∧
  (∀ t, j < t → r[t]? = a[t]?)

theorem loop_spec (gs : List (List UInt8)) (sb : Bytes) (i : UInt8) :
    ∀ (j : Nat) (fuel : Nat) (a : List (List UInt8)) (pos : Nat), j + 2 ≤ fuel → j < a.length →
      pos + 16 * (j + 1) ≤ sb.length →
      ∃ r, fn_NVarStore_getGUIDFromStore.loop1 gs sb i fuel a (sb, (pos : Int)) (j : Int)
          = some (r, (sb, ((pos + 16 * (j + 1) : Nat) : Int)), -1) ∧ Filled sb a r j pos := by
  intro j
  induction j with
  | zero =>
    intro fuel a pos hf ha hp
    obtain ⟨f, rfl⟩ : ∃ f, fuel = f + 2 := ⟨fuel - 2, by omega⟩
    have h0 : a[0]? = some a[0] := List.getElem?_eq_getElem ha
    have hrd := readGuid_nat sb pos (by omega)
    refine ⟨a.set 0 (slice sb pos 16), ?_, ?_⟩
    · simp only [fn_NVarStore_getGUIDFromStore.loop1]
      have hz : ((0 : Nat) : Int) = 0 := rfl
      simp only [hz]
      have hg : getAt a 0 = some a[0] := by
        have := getAt_nat a 0
        rw [h0] at this
        exact this
      have hs : setAt a 0 (slice sb pos 16) = some (a.set 0 (slice sb pos 16)) := setAt_nat a 0 _ ha
      simp [hg, hrd, hs]
    · refine ⟨by simp, ?_, ?_⟩
      · intro t ht
        have : t = 0 := by omega
        subst this
        simp [List.getElem?_set, ha]
      · intro t ht
        rw [List.getElem?_set]
        have : ¬ (0 = t) := by omega
        simp [this]
  | succ j ih =>
    intro fuel a pos hf ha hp
    obtain ⟨f, rfl⟩ : ∃ f, fuel = f + 1 := ⟨fuel - 1, by omega⟩
    have hj : a[j + 1]? = some a[j + 1] := List.getElem?_eq_getElem ha
    have hrd := readGuid_nat sb pos (by omega)
    have hg : getAt a ((j + 1 : Nat) : Int) = some a[j + 1] := by
      rw [getAt_nat, hj]
    have hs := setAt_nat a (j + 1) (slice sb pos 16) ha
    have hlen : (a.set (j + 1) (slice sb pos 16)).length = a.length := by simp
    obtain ⟨r, hr, hF⟩ := ih f (a.set (j + 1) (slice sb pos 16)) (pos + 16) (by omega) (by omega) (by omega)
    refine ⟨r, ?_, ?_⟩
    · simp only [fn_NVarStore_getGUIDFromStore.loop1]
      have hpos : ¬ (((j + 1 : Nat) : Int) < 0) := by omega
      have hge : ((j + 1 : Nat) : Int) ≥ (0 : Int) := by omega
      have hstep : ((j + 1 : Nat) : Int) - (1 : Int) = (j : Int) := by omega
      simp only [hge, decide_true, if_true, hg, hrd, hs, hstep]
      simp only [Option.pure_def, Option.bind_eq_bind, Option.bind_some]
      rw [hr]
      have : pos + 16 + 16 * (j + 1) = pos + 16 * (j + 1 + 1) := by omega
      rw [this]
    · obtain ⟨h1, h2, h3⟩ := hF
      refine ⟨by rw [h1, hlen], ?_, ?_⟩
      · intro t ht
        by_cases htj : t ≤ j
        · rw [h2 t htj]
          have : pos + 16 + 16 * (j - t) = pos + 16 * (j + 1 - t) := by omega
          rw [this]
        · have : t = j + 1 := by omega
          subst this
          rw [h3 (j + 1) (by omega), List.getElem?_set]
          simp [ha]
      · intro t ht
        rw [h3 t (by omega), List.getElem?_set]
        have : ¬ (j + 1 = t) := by omega
        simp [this]

/-- after the whole loop the fresh slice is the model's list of table GUIDs -/
theorem filled_is_model (sb : Bytes) (n m : Nat) (r : List (List UInt8)) (hm : 0 < m) (hL : 16 * (n + m) ≤ sb.length)
    (hF : Filled sb (List.replicate m zeroGuid) r (m - 1) (sb.length - 16 * (n + m))) :
    r = (List.range m).map (fun j => guidAt sb (n + j)) := by
  obtain ⟨h1, h2, _⟩ := hF
  apply List.ext_getElem?
  intro t
  by_cases ht : t < m
  · rw [h2 t (by omega)]
    simp only [List.getElem?_map, List.getElem?_range ht, Option.map_some, guidAt]
    have : sb.length - 16 * (n + m) + 16 * (m - 1 - t) = sb.length - 16 * (n + t + 1) := by omega
    rw [this]
  · have hl : r.length = m := by rw [h1]; simp
    rw [List.getElem?_eq_none (by omega), List.getElem?_eq_none (by simp; omega)]

/-! ### the function -/

theorem zeroGuid_eq : GuidRt.zeroGuid = Nvram.zeroGuid := rfl

theorem pick (g : List (List UInt8)) (i : Nat) :
    (if decide ((i : Int) ≥ (g.length : Int)) then (some (GuidRt.zeroGuid, g) : Option (List UInt8 × List (List UInt8)))
     else (getAt g (i : Int)).bind (fun x => some (x, g)))
      = some (match g[i]? with | some x => x | none => Nvram.zeroGuid, g) := by
  by_cases h : i < g.length
  · have : ¬ ((i : Int) ≥ (g.length : Int)) := by omega
    simp only [this, decide_false, getAt_nat, List.getElem?_eq_getElem h]
    rfl
  · have : (i : Int) ≥ (g.length : Int) := by omega
    simp only [this, decide_true, if_true, List.getElem?_eq_none (by omega : g.length ≤ i)]
    rfl

/-- **`getGuid` is `getGUIDFromStore` as translated from the source**, for every buffer, table and index:
    same GUID, same new in-memory table; the translated code neither panics nor runs out of fuel -/
theorem getGuid_tie (sb : Bytes) (gs : List Bytes) (i : UInt8) :
    fn_NVarStore_getGUIDFromStore gs sb i = some (getGuid sb gs i.toNat) := by
  have hw : (i + (1 : UInt8)).toNat = (i.toNat + 1) % 256 := by
    rw [UInt8.toNat_add]; rfl
  unfold fn_NVarStore_getGUIDFromStore getGuid
  simp only [hw]
  by_cases h1 : gs.length < (i.toNat + 1) % 256
  · have h1' : ((gs.length : Nat) : Int) < (((i.toNat + 1) % 256 : Nat) : Int) := by omega
    simp only [h1, h1', decide_true, if_true]
    -- `i + 1` did not wrap
    have hi : (i.toNat + 1) % 256 = i.toNat + 1 := by
      have := i.toNat_lt
      by_cases h255 : i.toNat = 255
      · rw [h255] at h1; simp at h1
      · omega
    rw [hi] at h1 ⊢
    unfold newReader seekEnd
    by_cases h2 : sb.length < 16 * (i.toNat + 1)
    · have : (sb.length : Int) + (-(16 : Int)) * ((i.toNat + 1 : Nat) : Int) < 0 := by omega
      simp only [this, h2, if_true]
      rfl
    · have hn : ¬ ((sb.length : Int) + (-(16 : Int)) * ((i.toNat + 1 : Nat) : Int) < 0) := by omega
      simp only [hn, h2, if_false]
      -- the slice
      have hmk : mkGuids (((i.toNat + 1 : Nat) : Int) - (gs.length : Int))
          = some (List.replicate (i.toNat + 1 - gs.length) GuidRt.zeroGuid) := by
        unfold mkGuids
        have : ¬ (((i.toNat + 1 : Nat) : Int) - (gs.length : Int) < 0) := by omega
        have ht : (((i.toNat + 1 : Nat) : Int) - (gs.length : Int)).toNat = i.toNat + 1 - gs.length := by omega
        simp only [this, if_false, ht]
      have hposEq : (sb.length : Int) + (-(16 : Int)) * ((i.toNat + 1 : Nat) : Int)
          = ((sb.length - 16 * (i.toNat + 1) : Nat) : Int) := by omega
      have hjEq : ((i.toNat : Nat) : Int) - (gs.length : Int) = ((i.toNat - gs.length : Nat) : Int) := by omega
      have hfuel : (((i.toNat - gs.length : Nat) : Int) - (0 : Int)).toNat + 2 = i.toNat - gs.length + 2 := by omega
      obtain ⟨r, hr, hF⟩ := loop_spec gs sb i (i.toNat - gs.length) (i.toNat - gs.length + 2)
        (List.replicate (i.toNat + 1 - gs.length) GuidRt.zeroGuid) (sb.length - 16 * (i.toNat + 1))
        (by omega) (by simp; omega) (by omega)
      simp only [hmk, hposEq, hjEq, hfuel, Option.pure_def, Option.bind_eq_bind, Option.bind_some, hr]
      have hmodel := filled_is_model sb gs.length (i.toNat + 1 - gs.length) r (by omega) (by omega)
        (by
          have e1 : i.toNat + 1 - gs.length - 1 = i.toNat - gs.length := by omega
          have e2 : gs.length + (i.toNat + 1 - gs.length) = i.toNat + 1 := by omega
          rw [e1, e2]; exact hF)
      rw [hmodel]
      exact pick _ _
  · have h1' : ¬ (((gs.length : Nat) : Int) < (((i.toNat + 1) % 256 : Nat) : Int)) := by omega
    simp only [h1, h1', decide_false, if_false]
    exact pick _ _

/-- the fill order in words: after a lookup that extends the table, entry `gs.length + j` of the table is
    the 16 bytes at `len − 16·(gs.length + j + 1)` — read from the lowest address on, stored from the
    highest index down -/
theorem fill_order (sb : Bytes) (gs : List Bytes) (i : UInt8) (h1 : gs.length < i.toNat + 1) (h255 : i.toNat < 255)
    (h2 : 16 * (i.toNat + 1) ≤ sb.length) :
    ∃ g, fn_NVarStore_getGUIDFromStore gs sb i
      = some (g, gs ++ (List.range (i.toNat + 1 - gs.length)).map (fun j => guidAt sb (gs.length + j))) := by
  rw [getGuid_tie]
  unfold getGuid
  have hi : (i.toNat + 1) % 256 = i.toNat + 1 := by omega
  rw [hi]
  have h2' : ¬ sb.length < 16 * (i.toNat + 1) := by omega
  simp only [h1, h2', if_true, if_false]
  exact ⟨_, rfl⟩

example : ∃ (sb : Bytes) (gs : List Bytes) (i : UInt8), gs.length < i.toNat + 1 ∧ i.toNat < 255 ∧ 16 * (i.toNat + 1) ≤ sb.length :=
  ⟨List.replicate 48 7, [], 2, by decide, by decide, by decide⟩

end Fiano.Nvram.CodeTieGuid
