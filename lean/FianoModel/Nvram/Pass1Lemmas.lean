/-
  First loop of compaction (`pass1`) on the parsed form of a well-formed store: the kept entries are
  the alive rows without successor, and the map resolves each of them to its head.
-/
import FianoModel.Nvram.CompactDefs

namespace Fiano.Nvram
open Spec

/-- the rows `owners` adds to `done` -/
def rowsFrom (done : List Row) : List Entry → Nat → List Row
  | [], _ => []
  | e :: es, off =>
    ⟨off, e, headFor done e off⟩ :: rowsFrom (done ++ [⟨off, e, headFor done e off⟩]) es (off + e.size)

theorem owners_eq_rowsFrom (done : List Row) (es : List Entry) (off : Nat) :
    owners done es off = done ++ rowsFrom done es off := by
  induction es generalizing done off with
  | nil => simp [owners, rowsFrom]
  | cons e es ih => simp [owners, rowsFrom, ih]

theorem table_eq_rowsFrom (s : NvStore) : table s = rowsFrom [] s.entries 0 := by
  simp [table, owners_eq_rowsFrom]

/-! ### fields of the parsed rows -/

theorem expect_offset (pol : Nat) (guids : List Bytes) (d : Row) : (expectNVar pol guids d).offset = d.off := by
  obtain ⟨o, e, h⟩ := d
  cases e with
  | var f g n v x nx => rfl
  | data f v x nx => cases h <;> rfl
  | dead a nx b => rfl

theorem expect_nextOffset (pol : Nat) (guids : List Bytes) (d : Row) :
    (expectNVar pol guids d).nextOffset = nextOff d.off d.entry.next := by
  obtain ⟨o, e, h⟩ := d
  cases e with
  | var f g n v x nx => rfl
  | data f v x nx => cases h <;> rfl
  | dead a nx b => rfl

theorem expect_attrs (pol : Nat) (guids : List Bytes) (d : Row) : (expectNVar pol guids d).attrs = d.entry.attrs := by
  obtain ⟨o, e, h⟩ := d
  cases e with
  | var f g n v x nx => rfl
  | data f v x nx => cases h <;> rfl
  | dead a nx b => rfl

theorem expect_hasContent (pol : Nat) (guids : List Bytes) (d : Row) :
    (expectNVar pol guids d).hasContent = (match d.entry with | .dead _ _ _ => false | _ => true) := by
  obtain ⟨o, e, h⟩ := d
  cases e with
  | var f g n v x nx => rfl
  | data f v x nx => cases h <;> rfl
  | dead a nx b => rfl

theorem markK_offset (K : Bytes → Bool) (v : NVar) : (markK K v).offset = v.offset := by
  unfold markK; split <;> rfl
theorem markK_nextOffset (K : Bytes → Bool) (v : NVar) : (markK K v).nextOffset = v.nextOffset := by
  unfold markK; split <;> rfl
theorem markK_attrs (K : Bytes → Bool) (v : NVar) : (markK K v).attrs = v.attrs := by
  unfold markK; split <;> rfl
theorem markK_guid (K : Bytes → Bool) (v : NVar) : (markK K v).guid = v.guid := by
  unfold markK; split <;> rfl
theorem markK_name (K : Bytes → Bool) (v : NVar) : (markK K v).name = v.name := by
  unfold markK; split <;> rfl
theorem markK_content (K : Bytes → Bool) (v : NVar) : content (markK K v) = content v := by
  unfold markK content; split <;> rfl
theorem markK_hasContent (K : Bytes → Bool) (v : NVar) : (markK K v).hasContent = v.hasContent := by
  unfold markK; split <;> rfl

theorem markK_nested (K : Bytes → Bool) (pol : Nat) (v : NVar) : nestedOf pol (markK K v) = nestedOf pol v := by
  unfold nestedOf
  rw [markK_content, markK_hasContent, markK_attrs]

theorem markK_type (K : Bytes → Bool) (v : NVar) :
    (markK K v).type = if K v.name then .invalid else v.type := by
  unfold markK; split <;> simp_all

/-- the parsed entry is valid after invalidation iff its row is alive -/
theorem markK_valid (K : Bytes → Bool) (pol : Nat) (guids : List Bytes) (d : Row) (hd : RowOk d) :
    (markK K (expectNVar pol guids d)).type.isValid = alive K guids d := by
  rw [markK_type]
  obtain ⟨o, e, h⟩ := d
  cases e with
  | var f g n v x nx =>
    simp only [RowOk] at hd
    subst hd
    simp only [alive, expectNVar, Entry.key]
    by_cases hk : K n.text = true <;> cases nx <;> simp [hk, EType.isValid]
  | data f v x nx =>
    cases h with
    | none =>
      simp only [alive, expectNVar]
      by_cases hk : K nmInvalidLink = true <;> simp [hk, EType.isValid]
    | some hh =>
      simp only [alive, expectNVar]
      by_cases hk : K (Entry.key guids hh).2 = true <;> cases nx <;> simp [hk, EType.isValid]
  | dead a nx b =>
    simp only [RowOk] at hd
    subst hd
    simp only [alive, expectNVar]
    by_cases hk : K nmInvalid = true <;> simp [hk, EType.isValid]

/-- the head a binding of the map stands for -/
def HeadLike (guids : List Bytes) (d : Row) (hv : NVar) : Prop :=
  ∃ hE, d.head = some hE ∧ hv.attrs = hE.attrs ∧ hv.guid = (hE.key guids).1 ∧ hv.name = (hE.key guids).2

theorem headLike_self (K : Bytes → Bool) (pol : Nat) (guids : List Bytes) (o : Nat) (f : Nat) (g : GuidRef)
    (n : VarName) (v : Bytes) (x : Option Ext) (nx : Option Nat) :
    HeadLike guids ⟨o, .var f g n v x nx, some (.var f g n v x nx)⟩
      (markK K (expectNVar pol guids ⟨o, .var f g n v x nx, some (.var f g n v x nx)⟩)) := by
  refine ⟨_, rfl, ?_, ?_, ?_⟩
  · rw [markK_attrs, expect_attrs]
  · rw [markK_guid]; rfl
  · rw [markK_name]; rfl

theorem headLike_congr (guids : List Bytes) (d d' : Row) (hv : NVar) (h : d.head = d'.head)
    (hl : HeadLike guids d hv) : HeadLike guids d' hv := by
  obtain ⟨hE, h1, h2⟩ := hl
  exact ⟨hE, by rw [← h, h1], h2⟩

theorem alive_congr (K : Bytes → Bool) (guids : List Bytes) (d d' : Row) (h : d.head = d'.head) :
    alive K guids d = alive K guids d' := by
  simp [alive, h]

theorem alive_head (K : Bytes → Bool) (guids : List Bytes) (d : Row) (h : alive K guids d = true) :
    d.head.isSome = true := by
  unfold alive at h
  cases hh : d.head with
  | none => simp [hh] at h
  | some x => rfl

def pairOf (K : Bytes → Bool) (pol : Nat) (guids : List Bytes) (d : Row) : NVar × Option Bytes :=
  (markK K (expectNVar pol guids d), none)

theorem lookupOff_cons {α : Type} (k : Nat) (v : α) (m : List (Nat × α)) (o : Nat) :
    lookupOff ((k, v) :: m) o = if k = o then some v else lookupOff m o := by
  unfold lookupOff
  simp only [List.find?_cons]
  by_cases h : k = o
  · simp [h]
  · have : (k == o) = false := by simp [h]
    simp [h, this]

/-- link discipline of the ownership table (from `linksOk` and `wf`) -/
structure Links (s : NvStore) : Prop where
  pos : ∀ d ∈ table s, ∀ r, d.entry.next = some r → 0 < r
  inj : ∀ d1 ∈ table s, ∀ d2 ∈ table s, d1.head.isSome = true → d2.head.isSome = true →
    ∀ r1 r2, d1.entry.next = some r1 → d2.entry.next = some r2 → d1.off + r1 = d2.off + r2 → d1 = d2
  novar : ∀ d ∈ table s, (∃ f g n v x nx, d.entry = .var f g n v x nx) →
    ∀ d' ∈ table s, d'.head.isSome = true → ∀ r, d'.entry.next = some r → d'.off + r ≠ d.off

structure Inv (K : Bytes → Bool) (pol : Nat) (guids : List Bytes) (done : List Row) (M : List (Nat × NVar))
    (keep : List (NVar × Option Bytes)) : Prop where
  keepEq : keep = (done.filter (kept K guids)).map (pairOf K pol guids)
  links : ∀ d ∈ done, alive K guids d = true → ∀ r, d.entry.next = some r →
    ∃ hv, lookupOff M (d.off + r) = some hv ∧ HeadLike guids d hv
  terms : ∀ d ∈ done, kept K guids d = true → ∃ hv, lookupOff M d.off = some hv ∧ HeadLike guids d hv
  keys : ∀ o, (lookupOff M o).isSome = true →
    (∃ d ∈ done, d.head.isSome = true ∧ ∃ r, d.entry.next = some r ∧ d.off + r = o) ∨ (∃ d ∈ done, d.off = o)

theorem inv_nil (K : Bytes → Bool) (pol : Nat) (guids : List Bytes) : Inv K pol guids [] [] [] := by
  refine ⟨rfl, ?_, ?_, ?_⟩
  · intro d hd; simp at hd
  · intro d hd; simp at hd
  · intro o h; simp [lookupOff] at h

theorem pass1_inv (K : Bytes → Bool) (s : NvStore) (hl : Links s) :
    ∀ (es : List Entry) (done : List Row) (off : Nat) (M : List (Nat × NVar)) (keep : List (NVar × Option Bytes)),
      table s = done ++ rowsFrom done es off → (∀ d ∈ done, d.off < off) → (∀ d ∈ done, RowOk d) →
      Inv K s.pol s.guids done M keep →
      Inv K s.pol s.guids (done ++ rowsFrom done es off)
        (pass1 ((rowsFrom done es off).map (pairOf K s.pol s.guids)) M keep).1
        (pass1 ((rowsFrom done es off).map (pairOf K s.pol s.guids)) M keep).2 := by
  intro es
  induction es with
  | nil =>
    intro done off M keep _ _ _ hinv
    simpa [rowsFrom, pass1] using hinv
  | cons e es ih =>
    intro done off M keep htab hlt hrok hinv
    -- the current row
    generalize hd : (⟨off, e, headFor done e off⟩ : Row) = d at *
    have hdoff : d.off = off := by rw [← hd]
    have hdent : d.entry = e := by rw [← hd]
    have hdhead : d.head = headFor done e off := by rw [← hd]
    have hrows : rowsFrom done (e :: es) off = d :: rowsFrom (done ++ [d]) es (off + e.size) := by
      simp only [rowsFrom, hd]
    rw [hrows] at htab ⊢
    have htab' : table s = (done ++ [d]) ++ rowsFrom (done ++ [d]) es (off + e.size) := by
      rw [htab]; simp
    have hdmem : d ∈ table s := by rw [htab]; simp
    have hdone_mem : ∀ d' ∈ done, d' ∈ table s := fun d' h => by rw [htab]; simp [h]
    have hdrok : RowOk d := by rw [← hd]; exact headFor_rowOk done e off
    have hlt' : ∀ d' ∈ done ++ [d], d'.off < off + e.size := by
      intro d' h'
      have := entry_size_ge e
      rcases List.mem_append.1 h' with h' | h'
      · have := hlt d' h'; omega
      · simp only [List.mem_singleton] at h'; subst h'; omega
    have hrok' : ∀ d' ∈ done ++ [d], RowOk d' := by
      intro d' h'
      rcases List.mem_append.1 h' with h' | h'
      · exact hrok d' h'
      · simp only [List.mem_singleton] at h'; subst h'; exact hdrok
    have happ : done ++ d :: rowsFrom (done ++ [d]) es (off + e.size)
        = (done ++ [d]) ++ rowsFrom (done ++ [d]) es (off + e.size) := by simp
    rw [happ]
    simp only [List.map_cons, pairOf, pass1]
    rw [markK_valid K s.pol s.guids d hdrok]
    cases hal : alive K s.guids d with
    | false =>
      simp only [Bool.not_false, if_true]
      have hk : kept K s.guids d = false := by simp [kept, hal]
      apply ih (done ++ [d]) (off + e.size) M keep htab' hlt' hrok'
      refine ⟨?_, ?_, ?_, ?_⟩
      · rw [hinv.keepEq]; simp [List.filter_append, hk]
      · intro d' h' ha r hr
        rcases List.mem_append.1 h' with h' | h'
        · exact hinv.links d' h' ha r hr
        · simp only [List.mem_singleton] at h'; subst h'; rw [hal] at ha; cases ha
      · intro d' h' hk'
        rcases List.mem_append.1 h' with h' | h'
        · exact hinv.terms d' h' hk'
        · simp only [List.mem_singleton] at h'; subst h'; rw [hk] at hk'; cases hk'
      · intro o ho
        rcases hinv.keys o ho with ⟨d', h', rest⟩ | ⟨d', h', rest⟩
        · exact Or.inl ⟨d', by simp [h'], rest⟩
        · exact Or.inr ⟨d', by simp [h'], rest⟩
    | true =>
      simp only [Bool.not_true, Bool.false_eq_true, if_false]
      rw [markK_offset, expect_offset, markK_nextOffset, expect_nextOffset, hdoff, hdent]
      have hhs := alive_head K s.guids d hal
      -- the head this row resolves to
      have hhead : ∃ h, headOr (lookupOff M off) (markK K (expectNVar s.pol s.guids d)) = h
          ∧ HeadLike s.guids d h := by
        cases e with
        | dead a nx b => rw [hdhead] at hhs; simp [headFor] at hhs
        | var f g n v x nx =>
          have hnone : lookupOff M off = none := by
            cases hlk : lookupOff M off with
            | none => rfl
            | some hv =>
              exfalso
              rcases hinv.keys off (by rw [hlk]; rfl) with ⟨d', h', hs', r, hr, heq⟩ | ⟨d', h', heq⟩
              · exact hl.novar d hdmem ⟨f, g, n, v, x, nx, hdent⟩ d' (hdone_mem d' h') hs' r hr (by rw [hdoff]; exact heq)
              · have := hlt d' h'; omega
          refine ⟨_, by rw [hnone, headOr], ?_⟩
          rw [← hd]
          simp only [headFor]
          exact headLike_self K s.pol s.guids off f g n v x nx
        | data f v x nx =>
          have hhf : d.head = (match done.find? (fun d' => d'.linksTo off) with | some l => l.head | none => none) := by
            rw [hdhead]; rfl
          cases hfd : done.find? (fun d' => d'.linksTo off) with
          | none => rw [hhf, hfd] at hhs; cases hhs
          | some l =>
            rw [hfd] at hhf
            have hlm : l ∈ done := List.mem_of_find?_eq_some hfd
            have hlk : l.linksTo off = true := by have := List.find?_some hfd; simpa using this
            simp only [Row.linksTo, Bool.and_eq_true] at hlk
            obtain ⟨_, hlk2⟩ := hlk
            cases hln : l.entry.next with
            | none => simp [hln] at hlk2
            | some r =>
              simp only [hln, beq_iff_eq] at hlk2
              have hal' : alive K s.guids l = true := by rw [alive_congr K s.guids l d hhf.symm]; exact hal
              obtain ⟨hv, hlook, hhl⟩ := hinv.links l hlm hal' r hln
              rw [hlk2] at hlook
              exact ⟨hv, by rw [hlook]; rfl, headLike_congr s.guids l d hv hhf.symm hhl⟩
      obtain ⟨h, hheq, hhl⟩ := hhead
      rw [hheq]
      cases hnx : e.next with
      | some r =>
        have hr0 : 0 < r := hl.pos d hdmem r (by rw [hdent]; exact hnx)
        have hne : ¬ (off + r = 0) := by omega
        simp only [nextOff, ne_eq, hne, not_false_eq_true, if_true]
        have hk : kept K s.guids d = false := by simp [kept, hdent, hnx]
        apply ih (done ++ [d]) (off + e.size) _ keep htab' hlt' hrok'
        refine ⟨?_, ?_, ?_, ?_⟩
        · rw [hinv.keepEq]; simp [List.filter_append, hk]
        · intro d' h' ha r' hr'
          rcases List.mem_append.1 h' with h' | h'
          · obtain ⟨hv, hlook, hh⟩ := hinv.links d' h' ha r' hr'
            refine ⟨hv, ?_, hh⟩
            rw [lookupOff_cons]
            have : ¬ (off + r = d'.off + r') := by
              intro heq
              have hdd := hl.inj d hdmem d' (hdone_mem d' h') hhs (alive_head K s.guids d' ha) r r'
                (by rw [hdent]; exact hnx) hr' (by rw [hdoff]; exact heq)
              have hlt2 := hlt d' h'
              rw [← hdd, hdoff] at hlt2; omega
            simp [this, hlook]
          · simp only [List.mem_singleton] at h'; subst h'
            rw [hdent, hnx] at hr'
            injection hr' with hr'
            subst hr'
            exact ⟨h, by rw [lookupOff_cons, hdoff]; simp, hhl⟩
        · intro d' h' hk'
          rcases List.mem_append.1 h' with h' | h'
          · obtain ⟨hv, hlook, hh⟩ := hinv.terms d' h' hk'
            refine ⟨hv, ?_, hh⟩
            rw [lookupOff_cons]
            have := hlt d' h'
            have : ¬ (off + r = d'.off) := by omega
            simp [this, hlook]
          · simp only [List.mem_singleton] at h'; subst h'; rw [hk] at hk'; cases hk'
        · intro o ho
          rw [lookupOff_cons] at ho
          by_cases heq : off + r = o
          · exact Or.inl ⟨d, by simp, hhs, r, by rw [hdent]; exact hnx, by rw [hdoff]; exact heq⟩
          · simp only [heq, if_false] at ho
            rcases hinv.keys o ho with ⟨d', h', rest⟩ | ⟨d', h', rest⟩
            · exact Or.inl ⟨d', by simp [h'], rest⟩
            · exact Or.inr ⟨d', by simp [h'], rest⟩
      | none =>
        simp only [nextOff, ne_eq, not_true_eq_false, if_false]
        have hk : kept K s.guids d = true := by simp [kept, hal, hdent, hnx]
        apply ih (done ++ [d]) (off + e.size) _ _ htab' hlt' hrok'
        refine ⟨?_, ?_, ?_, ?_⟩
        · rw [hinv.keepEq]; simp [List.filter_append, hk, pairOf]
        · intro d' h' ha r' hr'
          rcases List.mem_append.1 h' with h' | h'
          · obtain ⟨hv, hlook, hh⟩ := hinv.links d' h' ha r' hr'
            rw [lookupOff_cons]
            by_cases heq : off = d'.off + r'
            · -- d' links to the current row: it is the linker that gave the row its head
              simp only [heq, if_true]
              refine ⟨h, rfl, ?_⟩
              have hs' := alive_head K s.guids d' ha
              cases e with
              | dead a nx b => rw [hdhead] at hhs; simp [headFor] at hhs
              | var f g n v x nx =>
                exact absurd (by rw [hdoff]; exact heq.symm)
                  (hl.novar d hdmem ⟨f, g, n, v, x, nx, hdent⟩ d' (hdone_mem d' h') hs' r' hr')
              | data f v x nx =>
                have hhf : d.head = (match done.find? (fun d'' => d''.linksTo off) with
                    | some l => l.head | none => none) := by rw [hdhead]; rfl
                cases hfd : done.find? (fun d'' => d''.linksTo off) with
                | none => rw [hhf, hfd] at hhs; cases hhs
                | some l =>
                  rw [hfd] at hhf
                  have hlm : l ∈ done := List.mem_of_find?_eq_some hfd
                  have hlk : l.linksTo off = true := by have := List.find?_some hfd; simpa using this
                  simp only [Row.linksTo, Bool.and_eq_true] at hlk
                  obtain ⟨hls, hlk2⟩ := hlk
                  cases hln : l.entry.next with
                  | none => simp [hln] at hlk2
                  | some rl =>
                    simp only [hln, beq_iff_eq] at hlk2
                    have : l = d' := hl.inj l (hdone_mem l hlm) d' (hdone_mem d' h') hls hs' rl r' hln hr'
                      (by omega)
                    subst this
                    exact headLike_congr s.guids d l h hhf hhl
            · simp only [heq, if_false]
              exact ⟨hv, hlook, hh⟩
          · simp only [List.mem_singleton] at h'; subst h'
            rw [hdent, hnx] at hr'; cases hr'
        · intro d' h' hk'
          rcases List.mem_append.1 h' with h' | h'
          · obtain ⟨hv, hlook, hh⟩ := hinv.terms d' h' hk'
            refine ⟨hv, ?_, hh⟩
            rw [lookupOff_cons]
            have := hlt d' h'
            have : ¬ (off = d'.off) := by omega
            simp [this, hlook]
          · simp only [List.mem_singleton] at h'; subst h'
            exact ⟨h, by rw [lookupOff_cons, hdoff]; simp, hhl⟩
        · intro o ho
          rw [lookupOff_cons] at ho
          by_cases heq : off = o
          · exact Or.inr ⟨d, by simp, by rw [hdoff]; exact heq⟩
          · simp only [heq, if_false] at ho
            rcases hinv.keys o ho with ⟨d', h', rest⟩ | ⟨d', h', rest⟩
            · exact Or.inl ⟨d', by simp [h'], rest⟩
            · exact Or.inr ⟨d', by simp [h'], rest⟩

end Fiano.Nvram
