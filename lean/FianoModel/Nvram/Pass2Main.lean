/-
  pass2 + finalCheck on the kept rows = the parsed form of the grammar-level compaction.
-/
import FianoModel.Nvram.Pass2Lemmas

namespace Fiano.Nvram
open Spec

def varRows : List Entry → Nat → List Row
  | [], _ => []
  | e :: es, off => ⟨off, e, some e⟩ :: varRows es (off + e.size)

/-! ### first-use GUID table -/

theorem guidIdxG_spec (gs : List Bytes) (g : Bytes) :
    (guidIdxG gs g).2[(guidIdxG gs g).1]? = some g ∧ (guidIdxG gs g).1 < (guidIdxG gs g).2.length ∧
    (∃ t, (guidIdxG gs g).2 = gs ++ t) ∧ guidIdx gs g = ((guidIdxG gs g).1 % 256, (guidIdxG gs g).2) := by
  unfold guidIdxG guidIdx
  cases h : gs.findIdx? (· == g) with
  | none => simp
  | some i =>
    obtain ⟨hi, hp, _⟩ := List.findIdx?_eq_some_iff_getElem.1 h
    simp only [beq_iff_eq] at hp
    refine ⟨by simp [hi, hp], hi, ⟨[], by simp⟩, rfl⟩

theorem compactRows_prefix (guids : List Bytes) (rows : List Row) (gs : List Bytes) :
    ∃ t, (compactRows guids rows gs).2 = gs ++ t := by
  induction rows generalizing gs with
  | nil => exact ⟨[], by simp [compactRows]⟩
  | cons d rows ih =>
    unfold compactRows
    split
    · rename_i fh g n _ _ _ _
      cases g with
      | inline gb => exact ih gs
      | index i =>
        simp only
        obtain ⟨_, _, ⟨t1, h1⟩, _⟩ := guidIdxG_spec gs (GuidRef.resolve guids (.index i))
        obtain ⟨t2, h2⟩ := ih (guidIdxG gs (GuidRef.resolve guids (.index i))).2
        exact ⟨t1 ++ t2, by rw [h2, h1]; simp⟩
    · exact ih gs

theorem okFlags_merge (a b : Nat) : okFlags (mergeFlags a b) = true := by
  simp only [okFlags, mergeFlags, beq_iff_eq]
  omega

/-- an alive row's parsed entry is not touched by the invalidation -/
theorem markK_alive (K : Bytes → Bool) (pol : Nat) (guids : List Bytes) (d : Row) (hd : RowOk d)
    (ha : alive K guids d = true) : markK K (expectNVar pol guids d) = expectNVar pol guids d := by
  have hs := alive_head K guids d ha
  obtain ⟨hE, hh⟩ := Option.isSome_iff_exists.1 hs
  obtain ⟨_, hn⟩ := expect_key pol guids d hE hd hh
  unfold alive at ha
  rw [hh] at ha
  simp only [Bool.not_eq_true'] at ha
  unfold markK
  rw [hn, ha]
  simp

theorem resolve_index (G : List Bytes) (k : Nat) (x : Bytes) (h : G[k]? = some x) :
    GuidRef.resolve G (.index k) = x := by simp [GuidRef.resolve, h]

theorem getElem?_prefix {α : Type} (a t : List α) (i : Nat) (x : α) (h : a[i]? = some x) : (a ++ t)[i]? = some x := by
  have hi : i < a.length := by
    rcases Nat.lt_or_ge i a.length with h' | h'
    · exact h'
    · rw [List.getElem?_eq_none h'] at h; cases h
  rw [List.getElem?_append_left hi, h]

theorem content_expect_nd (pol : Nat) (guids : List Bytes) (d : Row) (hnd : ∀ a nx b, d.entry ≠ .dead a nx b) :
    content (expectNVar pol guids d) = d.entry.content := by
  rw [content_expect]
  cases he : d.entry with
  | dead a nx b => exact absurd he (hnd a nx b)
  | var f g n v x nx => rfl
  | data f v x nx => rfl

theorem content_eq_value_ext (e : Entry) (hnd : ∀ a nx b, e ≠ .dead a nx b) :
    e.content = e.value ++ extSer e.ext := by
  cases e with
  | dead a nx b => exact absurd rfl (hnd a nx b)
  | var f g n v x nx => rfl
  | data f v x nx => rfl

theorem okFlags_of_ok (n : Nat) (e : Entry) (h : e.ok n = true) : okFlags e.flags = true := by
  cases e with
  | var f g nm v x nx => simp only [Entry.ok, Bool.and_eq_true] at h; exact h.2.1.1.1.1
  | data f v x nx => simp only [Entry.ok, Bool.and_eq_true] at h; exact h.2.1.1
  | dead a nx b => simp [Entry.flags, okFlags]

/-- the entry `pass2` hands to the non-check assemble -/
def mkV0 (hsz hnx attrs : Nat) (guid : Bytes) (gi : Option Nat) (name : Bytes) (off : Nat) (hasC : Bool) : NVar :=
  { size := hsz, next := hnx, attrs := attrs, guid := guid, guidIndex := gi, name := name, type := .full,
    offset := off, nextOffset := 0, buf := [], dataOffset := 0, hasContent := hasC }

/-- pass2 followed by the final check on the kept rows -/
theorem p2f (K : Bytes → Bool) (s : NvStore) (hwf : WFParts s) (M : List (Nat × NVar)) :
    ∀ (rows : List Row) (off : Nat) (gs : List Bytes),
      (∀ d ∈ rows, d ∈ table s ∧ kept K s.guids d = true) →
      (∀ d ∈ rows, ∃ hv, lookupOff M d.off = some hv ∧ HeadLike s.guids d hv) →
      (∀ d ∈ rows, ∀ hE, d.head = some hE → headLen hE + d.entry.content.length < 65536) →
      (compactRows s.guids rows gs).2.length ≤ 255 →
      ∃ new, pass2 s.pol M (rows.map (pairOf K s.pol s.guids)) off gs
              = .ok (new, (compactRows s.guids rows gs).2) ∧
        finalCheck s.pol new
          = .ok ((varRows (compactRows s.guids rows gs).1 off).map
                  (expectNVar s.pol (compactRows s.guids rows gs).2)) := by
  intro rows
  induction rows with
  | nil => intro off gs _ _ _ _; exact ⟨[], by simp [pass2, compactRows], by simp [finalCheck, compactRows, varRows]⟩
  | cons d rows ih =>
    intro off gs hrows hM hfit hG
    obtain ⟨hdm, hkept⟩ := hrows d (by simp)
    have hrok := table_rowOk s d hdm
    simp only [kept, Bool.and_eq_true, Option.isNone_iff_eq_none] at hkept
    obtain ⟨hal, hnx⟩ := hkept
    have hhs := alive_head K s.guids d hal
    obtain ⟨hE, hh⟩ := Option.isSome_iff_exists.1 hhs
    obtain ⟨⟨fh, g, n, vh, xh, nxh, hEeq⟩, hEmem⟩ := table_headVar s d hdm hE hh
    subst hEeq
    have hEok := hwf.ok _ hEmem
    have hEok' := hEok
    simp only [Entry.ok, Bool.and_eq_true, decide_eq_true_eq] at hEok'
    obtain ⟨_, ⟨⟨⟨⟨hfh, hgok⟩, hnok⟩, _⟩, _⟩⟩ := hEok'
    have hdok := hwf.ok _ (row_entry_mem s d hdm)
    have hfd := okFlags_of_ok _ _ hdok
    have hnd : ∀ a nx b, d.entry ≠ .dead a nx b := by
      intro a nx b he
      have := hrok
      simp only [RowOk, he] at this
      rw [this] at hh; cases hh
    obtain ⟨hv, hlook, hE', hh', hva, hvg, hvn⟩ := hM d (by simp)
    rw [hh] at hh'; injection hh' with hh'; subst hh'
    have hfitd := hfit d (by simp) _ hh
    -- the entry of this step, generic in the re-indexed GUID reference
    have hstep : ∀ (g' : GuidRef) (gi : Option Nat) (gs1 : List Bytes),
        guidBit g' = guidBit g → gi = GuidRef.index? g' →
        gnPart (mergeAttrs hv.attrs d.entry.attrs) hv.guid gi hv.name = some (g'.ser ++ n.ser) →
        g'.ser.length = g.ser.length →
        (compactRows s.guids rows gs1).2.length ≤ 255 →
        g'.resolve (compactRows s.guids rows gs1).2 = hv.guid →
        ∃ v1 new', asmNVar s.pol (mkV0 hv.size hv.next (mergeAttrs hv.attrs d.entry.attrs) hv.guid gi hv.name off
                    (markK K (expectNVar s.pol s.guids d)).hasContent)
                  (content (markK K (expectNVar s.pol s.guids d))) false = .ok v1 ∧
          pass2 s.pol M (rows.map (pairOf K s.pol s.guids)) (off + v1.buf.length) gs1
            = .ok (new', (compactRows s.guids rows gs1).2) ∧
          finalCheck s.pol ((v1, none) :: new') = .ok ((varRows
              (Entry.var (mergeFlags fh d.entry.flags) g' n d.entry.value d.entry.ext none
                :: (compactRows s.guids rows gs1).1) off).map (expectNVar s.pol (compactRows s.guids rows gs1).2)) := by
      intro g' gi gs1 hgb hgi hgn hglen hG1 hres
      have hcont : content (markK K (expectNVar s.pol s.guids d)) = d.entry.content := by
        rw [markK_content, content_expect_nd _ _ _ hnd]
      have hhc : (markK K (expectNVar s.pol s.guids d)).hasContent = true := by
        rw [markK_hasContent, expect_hasContent]
        cases he : d.entry with
        | dead a nx b => exact absurd he (hnd a nx b)
        | var _ _ _ _ _ _ => rfl
        | data _ _ _ _ => rfl
      have hlen : 10 + (g'.ser ++ n.ser).length + d.entry.content.length ≤ 0xFFFF := by
        simp only [headLen] at hfitd
        simp only [List.length_append, hglen]; omega
      obtain ⟨v1, h1, h2, h3⟩ := step_entry s.pol hv.size hv.next (mergeAttrs hv.attrs d.entry.attrs) hv.guid hv.name
        gi off (markK K (expectNVar s.pol s.guids d)).hasContent d.entry.content (g'.ser ++ n.ser) hgn hlen
      have hsize : (Entry.var (mergeFlags fh d.entry.flags) g' n d.entry.value d.entry.ext none).size
          = 10 + (g'.ser ++ n.ser).length + d.entry.content.length := by
        simp [Entry.size, Entry.body, content_eq_value_ext _ hnd]; omega
      obtain ⟨new', hp, hf⟩ := ih (off + v1.buf.length) gs1
        (fun d' hd' => hrows d' (by simp [hd'])) (fun d' hd' => hM d' (by simp [hd']))
        (fun d' hd' => hfit d' (by simp [hd'])) hG1
      refine ⟨v1, new', by rw [hcont]; exact h1, hp, ?_⟩
      simp only [finalCheck, h3, hf, varRows, List.map_cons]
      rw [h2, ← hsize]
      congr 2
      -- the rebuilt entry is the parsed form of the grammar entry
      have hattrs : mergeAttrs hv.attrs d.entry.attrs
          = (Entry.var (mergeFlags fh d.entry.flags) g' n d.entry.value d.entry.ext none).attrs := by
        rw [hva]
        exact mergeAttrs_entry fh g g' n vh xh nxh d.entry hfh hfd hnd hgb
      rw [hhc]
      simp only [expectNVar, Option.isSome, Bool.false_eq_true, if_false, nextOff, Entry.nextField,
        ← polNext s.pol hwf.pol, hres, ← hgi, hvn, Entry.key, ← hattrs, hsize, headLen]
      simp only [Entry.ser_eq, Entry.nextField, ← polNext s.pol hwf.pol, ← hattrs, hsize, Entry.body,
        content_eq_value_ext _ hnd, List.length_append]
      simp [Nat.add_assoc]
    simp only [List.map_cons, pairOf, pass2]
    rw [markK_offset, expect_offset, hlook]
    simp only [markK_attrs, expect_attrs]
    -- attribute bits of the merged byte
    have hmerge : ∀ g', guidBit g' = guidBit g → mergeAttrs hv.attrs d.entry.attrs
          = (Entry.var (mergeFlags fh d.entry.flags) g' n d.entry.value d.entry.ext none).attrs := by
      intro g' hgb
      rw [hva]
      exact mergeAttrs_entry fh g g' n vh xh nxh d.entry hfh hfd hnd hgb
    cases g with
    | inline gb =>
      have hcr : compactRows s.guids (d :: rows) gs =
          (Entry.var (mergeFlags fh d.entry.flags) (.inline gb) n d.entry.value d.entry.ext none
            :: (compactRows s.guids rows gs).1, (compactRows s.guids rows gs).2) := by
        conv => lhs; unfold compactRows
        simp only [hh]
      rw [hcr] at hG ⊢
      have hattrs := hmerge (.inline gb) rfl
      obtain ⟨_, _, hbd, hbn, hbg, _, _⟩ :=
        var_bits (mergeFlags fh d.entry.flags) (.inline gb) n d.entry.value d.entry.ext none (okFlags_merge _ _)
      have hgl : hasBit (mergeAttrs hv.attrs d.entry.attrs) aGuid = true := by rw [hattrs, hbg]; rfl
      simp only [hgl, if_true]
      have hgn : gnPart (mergeAttrs hv.attrs d.entry.attrs) hv.guid none hv.name
          = some (GuidRef.ser (.inline gb) ++ n.ser) := by
        simp only [gnPart, hattrs, hbd, hbg, GuidRef.isInline, Bool.false_eq_true, if_false, if_true, GuidRef.ser]
        rw [hvg, hvn]
        simp only [Entry.key, GuidRef.resolve]
        rw [nameBytes_ser _ n hbn hnok]
      obtain ⟨v1, new', h1, hp, hf⟩ := hstep (.inline gb) none gs rfl rfl hgn rfl hG
        (by simp [GuidRef.resolve, hvg, Entry.key])
      unfold mkV0 at h1
      rw [h1]
      simp only
      rw [hp]
      exact ⟨_, rfl, hf⟩
    | index i =>
      have hcr : compactRows s.guids (d :: rows) gs =
          (Entry.var (mergeFlags fh d.entry.flags) (.index (guidIdxG gs (GuidRef.resolve s.guids (.index i))).1) n
              d.entry.value d.entry.ext none
            :: (compactRows s.guids rows (guidIdxG gs (GuidRef.resolve s.guids (.index i))).2).1,
           (compactRows s.guids rows (guidIdxG gs (GuidRef.resolve s.guids (.index i))).2).2) := by
        conv => lhs; unfold compactRows
        simp only [hh]
      rw [hcr] at hG ⊢
      have hattrs := hmerge (.index (guidIdxG gs (GuidRef.resolve s.guids (.index i))).1) rfl
      obtain ⟨_, _, hbd, hbn, hbg, _, _⟩ :=
        var_bits (mergeFlags fh d.entry.flags) (.index (guidIdxG gs (GuidRef.resolve s.guids (.index i))).1) n
          d.entry.value d.entry.ext none (okFlags_merge _ _)
      have hgl : hasBit (mergeAttrs hv.attrs d.entry.attrs) aGuid = false := by rw [hattrs, hbg]; rfl
      simp only [hgl, Bool.false_eq_true, if_false]
      obtain ⟨hg1, hg2, ⟨t1, hg3⟩, hg4⟩ := guidIdxG_spec gs (GuidRef.resolve s.guids (.index i))
      have hvg' : hv.guid = GuidRef.resolve s.guids (.index i) := by rw [hvg]; rfl
      rw [hvg', hg4]
      simp only
      obtain ⟨t2, hpre⟩ := compactRows_prefix s.guids rows (guidIdxG gs (GuidRef.resolve s.guids (.index i))).2
      have hlt256 : (guidIdxG gs (GuidRef.resolve s.guids (.index i))).1 < 256 := by
        have : (guidIdxG gs (GuidRef.resolve s.guids (.index i))).2.length
            ≤ (compactRows s.guids rows (guidIdxG gs (GuidRef.resolve s.guids (.index i))).2).2.length := by
          rw [hpre]; simp
        simp only at hG
        omega
      rw [Nat.mod_eq_of_lt hlt256]
      have hgn : gnPart (mergeAttrs hv.attrs d.entry.attrs) hv.guid
            (some (guidIdxG gs (GuidRef.resolve s.guids (.index i))).1) hv.name
          = some (GuidRef.ser (.index (guidIdxG gs (GuidRef.resolve s.guids (.index i))).1) ++ n.ser) := by
        simp only [gnPart, hattrs, hbd, hbg, GuidRef.isInline, Bool.false_eq_true, if_false, GuidRef.ser]
        rw [hvn]
        simp only [Entry.key]
        rw [nameBytes_ser _ n hbn hnok]
        rfl
      obtain ⟨v1, new', h1, hp, hf⟩ := hstep (.index (guidIdxG gs (GuidRef.resolve s.guids (.index i))).1) _
        (guidIdxG gs (GuidRef.resolve s.guids (.index i))).2 rfl rfl hgn rfl hG
        ((resolve_index _ _ _ (by rw [hpre]; exact getElem?_prefix _ t2 _ _ hg1)).trans hvg'.symm)
      unfold mkV0 at h1
      simp only [GuidRef.index?, hvg'] at h1 hp hf ⊢
      rw [h1]
      simp only
      rw [hp]
      exact ⟨_, rfl, hf⟩

end Fiano.Nvram
