/-
  Operation sequences on an in-memory NVAR store, as the T2 driver (Driver/C10.lean) and the
  fiano command line (`utk … nvram-compact invalidate_nvar … save`) run them: Assemble, compact,
  invalidate a name, parse the current bytes again.  Every step that recurses into nested stores
  takes the fuel `depthFuel` of the store it is applied to.  (Definitions only: the driver imports
  this file; the theorems are in FuelOps.lean.)
-/
import FianoModel.Nvram.Model

namespace Fiano.Nvram

inductive StOp where
  | asm                 -- (&visitors.Assemble{}).Run(store)
  | compact             -- (&visitors.NVRamCompact{}).Run(store)
  | reparse             -- uefi.NewNVarStore(store.Buf())
  | inv (n : Bytes)     -- NVarInvalidate with the literal name `n`
  deriving DecidableEq, Repr, Inhabited

/-- one operation on the in-memory store -/
def stepOp (pol : Nat) (s : Store) : StOp → Except Err Store
  | .asm => asmStore pol (depthFuel s) s
  | .compact => compact pol (depthFuel s) s
  | .reparse => parseStore pol s.buf
  | .inv n => .ok (invalidate n s)

/-- the results of a sequence of operations, one per operation; stops behind the first failure -/
def runOps (pol : Nat) : Store → List StOp → List (Except Err Store)
  | _, [] => []
  | s, op :: ops =>
    match stepOp pol s op with
    | .ok s' => .ok s' :: runOps pol s' ops
    | .error e => [.error e]

/-- the store after a sequence of operations (the first failure ends the sequence) -/
def runOpsEnd (pol : Nat) : Store → List StOp → Except Err Store
  | s, [] => .ok s
  | s, op :: ops =>
    match stepOp pol s op with
    | .ok s' => runOpsEnd pol s' ops
    | .error e => .error e

end Fiano.Nvram
