/-
  T1 tie for the NVAR code: the model's constants, the packed header layout, the entry-type
  numbering and the shape of the serialisation calls are compared with the facts regenerated
  from pkg/uefi/nvram.go, pkg/visitors/{nvramcompact,nvarinvalidate}.go and pkg/unicode/ucs2.go
  (FianoModel/Gen/Nvram*.lean) on every build.
  Call inventories are compared by COUNT (how many binary.Read / binary.Write / helper calls a
  function makes), so renaming a local variable is not an alarm but a new or dropped field is.
-/
import FianoModel.Nvram.Model
import FianoModel.Gen.Nvram
import FianoModel.Gen.NvramVisitors
import FianoModel.Gen.NvramUnicode

namespace Fiano.Nvram
open Fiano.Gen

theorem tie_attr_bits :
    [aRuntime, aAscii, aGuid, aDataOnly, aExtHdr, aHwErr, aAuthWr, aValid] =
    [Nvram.NVarEntryRuntime, Nvram.NVarEntryASCIIName, Nvram.NVarEntryGUID, Nvram.NVarEntryDataOnly,
     Nvram.NVarEntryExtHeader, Nvram.NVarEntryHWErrorRecord, Nvram.NVarEntryAuthWrite,
     Nvram.NVarEntryValid] := by decide

/-- "NVAR", read as a little-endian uint32 -/
theorem tie_signature : fromLE sig = Nvram.NVarEntrySignature := by decide

theorem tie_header_layout :
    Nvram.layout_NVarHeader = [("Signature", 4), ("Size", 2), ("Next", 3), ("Attributes", 1)] := by decide

theorem tie_header_size : hdrSize = Nvram.size_NVarHeader := by decide

/-- numbering of the entry types (iota order): Invalid, Invalid link, Link, Data, Full; `IsValid`
    is "Link, Data or Full" in the model -/
theorem tie_entry_types :
    [Nvram.InvalidNVarEntry, Nvram.InvalidLinkNVarEntry, Nvram.LinkNVarEntry, Nvram.DataNVarEntry,
     Nvram.FullNVarEntry] = [0, 1, 2, 3, 4] := by decide

/-- the header is read / written by ONE packed little-endian call; the GUID part has exactly the
    two alternatives (inline GUID, index byte); the ext-header decoder reads size, attributes and
    time stamp; the GUID table is read and written GUID by GUID -/
theorem tie_call_counts :
    [Nvram.calls_NVar_parseHeader_binary_Read.length, Nvram.calls_NVar_parseGUID_binary_Read.length,
     Nvram.calls_NVar_parseExtendedHeader_binary_Read.length,
     Nvram.calls_NVarStore_getGUIDFromStore_binary_Read.length,
     Nvram.calls_NVar_Assemble_binary_Write.length, Nvram.calls_NVarStore_GetGUIDStoreBuf_binary_Write.length,
     Nvram.calls_NVar_parseNext_Read3Size.length, Nvram.calls_NVar_Assemble_Write3Size.length,
     Nvram.calls_newNVar_IsErased.length] = [1, 2, 3, 1, 3, 1, 1, 1, 1] := by decide

/-- compaction assembles each new entry once in the non-check mode and assigns: two map updates,
    the merged attribute byte (repaired code), the GUID index map and pointer, and the two store
    fields; invalidation assigns the type only -/
theorem tie_visitor_counts :
    [NvramVisitors.calls_compactNVarStore_v_Assemble.length, NvramVisitors.assigns_compactNVarStore.length,
     NvramVisitors.assigns_NVarInvalidate_Visit.length] = [1, 7, 1] := by decide

/-- both directions use the same x/text transformer configuration -/
theorem tie_unicode :
    NvramUnicode.calls_UCS2ToUTF8_unicode_UTF16 = NvramUnicode.calls_UTF8ToUCS2_unicode_UTF16 ∧
    NvramUnicode.calls_UCS2ToUTF8_unicode_UTF16.length = 1 := by decide

end Fiano.Nvram
