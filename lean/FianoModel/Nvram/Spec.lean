/-
  Reference grammar of AMI NVAR stores, written from the format (UEFITool's nvramparser / the
  AMI NVAR description), not from fiano: entries (variables with inline or indexed GUID and ASCII
  or UCS-2 name, data-only entries, invalidated entries), each optionally with an extended header
  and a link to a later entry, then erased free space, then the GUID table growing downwards from
  the end.  `ser` is the serializer, `wf` the decidable well-formedness predicate, `live` the
  abstract meaning (the current variables).
-/
import FianoModel.Base.Bytes
import FianoModel.Nvram.Unicode

namespace Fiano.Nvram.Spec

inductive GuidRef where
  | inline (g : Bytes)
  | index (i : Nat)
  deriving DecidableEq, Repr, Inhabited

inductive VarName where
  | ascii (s : Bytes)           -- CHAR8 string, NUL terminated on the wire
  | ucs2 (cs : List Nat)        -- Unicode scalar values, UTF-16LE with a 00 00 terminator on the wire
  deriving DecidableEq, Repr, Inhabited

/-- extended header: attribute byte, body (time stamp, hash, checksum … — opaque here), and the
    16-bit total size that closes the entry -/
structure Ext where
  attrs : Nat
  body : Bytes
  deriving DecidableEq, Repr, Inhabited

inductive Entry where
  /-- a variable: `flags` ⊆ {Runtime 0x01, HWErrorRecord 0x20, AuthWrite 0x40};
      `next` = distance in bytes to the entry that supersedes the value -/
  | var (flags : Nat) (guid : GuidRef) (name : VarName) (value : Bytes) (ext : Option Ext) (next : Option Nat)
  /-- a data-only entry (new value of the variable whose entry links here) -/
  | data (flags : Nat) (value : Bytes) (ext : Option Ext) (next : Option Nat)
  /-- an entry whose Valid bit is cleared: `attrs < 0x80`, anything after the header -/
  | dead (attrs : Nat) (next : Nat) (body : Bytes)
  deriving DecidableEq, Repr, Inhabited

structure NvStore where
  pol : Nat                 -- erase polarity byte: 0xFF or 0x00
  entries : List Entry
  free : Nat                -- erased bytes between the entries and the GUID table
  guids : List Bytes        -- GUID table in index order (index 0 is the LAST 16 bytes of the store)
  deriving DecidableEq, Repr, Inhabited

def sig : Bytes := [0x4E, 0x56, 0x41, 0x52]

/-! ### serializer -/

def u16le (u : Nat) : Bytes := [UInt8.ofNat (u % 256), UInt8.ofNat (u / 256)]

/-- UTF-16 code units of a scalar value -/
def scalarUnits (c : Nat) : Bytes :=
  if c < 0x10000 then u16le c
  else u16le (0xD800 + (c - 0x10000) / 1024) ++ u16le (0xDC00 + (c - 0x10000) % 1024)

def VarName.ser : VarName → Bytes
  | .ascii s => s ++ [0]
  | .ucs2 cs => cs.flatMap scalarUnits ++ [0, 0]

def GuidRef.ser : GuidRef → Bytes
  | .inline g => g
  | .index i => [UInt8.ofNat i]

def Ext.ser (e : Ext) : Bytes := UInt8.ofNat e.attrs :: e.body ++ leN 2 (e.body.length + 3)

def extSer : Option Ext → Bytes
  | none => []
  | some e => e.ser

def extBit : Option Ext → Nat
  | none => 0
  | some _ => 16

/-- the Next field: all-erased (three polarity bytes) = no successor -/
def nextVal (pol : Nat) : Option Nat → Nat
  | none => if pol = 0xFF then 0xFFFFFF else 0
  | some r => r

def Entry.attrs : Entry → Nat
  | .var flags g n _ e _ =>
    0x80 + flags + (match n with | .ascii _ => 2 | .ucs2 _ => 0) + (match g with | .inline _ => 4 | .index _ => 0)
      + extBit e
  | .data flags _ e _ => 0x80 + 8 + flags + extBit e
  | .dead a _ _ => a

/-- everything after the 10-byte header -/
def Entry.body : Entry → Bytes
  | .var _ g n v e _ => g.ser ++ n.ser ++ v ++ extSer e
  | .data _ v e _ => v ++ extSer e
  | .dead _ _ b => b

def Entry.size (e : Entry) : Nat := 10 + e.body.length

def Entry.nextField (pol : Nat) : Entry → Nat
  | .var _ _ _ _ _ nx => nextVal pol nx
  | .data _ _ _ nx => nextVal pol nx
  | .dead _ nx _ => nx

def Entry.ser (pol : Nat) (e : Entry) : Bytes :=
  sig ++ leN 2 e.size ++ leN 3 (e.nextField pol) ++ [UInt8.ofNat e.attrs] ++ e.body

def NvStore.ser (s : NvStore) : Bytes :=
  s.entries.flatMap (Entry.ser s.pol) ++ List.replicate s.free (UInt8.ofNat s.pol) ++ s.guids.reverse.flatten

/-! ### abstract meaning -/

/-- abstract name: the UTF-8 string a tool shows -/
def VarName.text : VarName → Bytes
  | .ascii s => s
  | .ucs2 cs => ofNats (cs.flatMap utf8EncN)

def zeroGuid : Bytes := List.replicate 16 0

def GuidRef.resolve (guids : List Bytes) : GuidRef → Bytes
  | .inline g => g
  | .index i => match guids[i]? with | some g => g | none => zeroGuid

/-- what an entry contributes as the variable's value: value bytes followed by its extended
    header (fiano never separates the two; neither does this specification) -/
def Entry.content : Entry → Bytes
  | .var _ _ _ v e _ => v ++ extSer e
  | .data _ v e _ => v ++ extSer e
  | .dead _ _ _ => []

def Entry.next : Entry → Option Nat
  | .var _ _ _ _ _ nx => nx
  | .data _ _ _ nx => nx
  | .dead _ _ _ => none

abbrev Key := Bytes × Bytes     -- (GUID, name)

/-- the (GUID, name) a `var` entry declares -/
def Entry.key (guids : List Bytes) : Entry → Key
  | .var _ g n _ _ _ => (g.resolve guids, n.text)
  | _ => (zeroGuid, [])

/-- one row of the ownership table: offset, entry, and the `var` entry heading its chain -/
structure Row where
  off : Nat
  entry : Entry
  head : Option Entry
  deriving DecidableEq, Repr, Inhabited

/-- does the row's entry link to offset `off`, as a member of some variable's chain? -/
def Row.linksTo (d : Row) (off : Nat) : Bool :=
  d.head.isSome && (match d.entry.next with | some r => d.off + r == off | none => false)

/-- the head of the chain an entry at offset `off` belongs to, given the rows of the earlier
    entries: a `var` entry heads its own chain; a data-only entry belongs to the chain of the first
    earlier owned entry whose link points at its offset; everything else belongs to nobody. -/
def headFor (done : List Row) (e : Entry) (off : Nat) : Option Entry :=
  match e with
  | .var _ _ _ _ _ _ => some e
  | .dead _ _ _ => none
  | .data _ _ _ _ =>
    match done.find? (fun d => d.linksTo off) with
    | some d => d.head
    | none => none

/-- Ownership table: which variable each entry belongs to, in physical order.
    `done` = rows of the earlier entries. -/
def owners : List Row → List Entry → Nat → List Row
  | done, [], _ => done
  | done, e :: rest, off => owners (done ++ [⟨off, e, headFor done e off⟩]) rest (off + e.size)

def table (s : NvStore) : List Row := owners [] s.entries 0

/-- the current variables; `dropped` = names that have been invalidated.  Every owned entry
    without a successor link is the current value of its variable. -/
def liveK (dropped : Bytes → Bool) (s : NvStore) : List (Key × Bytes) :=
  (table s).filterMap (fun d =>
    match d.head with
    | some h =>
      if d.entry.next.isNone && !dropped (h.key s.guids).2 then some (h.key s.guids, d.entry.content) else none
    | none => none)

def live (s : NvStore) : List (Key × Bytes) := liveK (fun _ => false) s

/-! ### well-formedness (decidable) -/

def okFlags (f : Nat) : Bool := f % 2 + 32 * (f / 32 % 2) + 64 * (f / 64 % 2) == f

def okScalar (c : Nat) : Bool := (0 < c && c < 0xD800) || (0xE000 ≤ c && c < 0x110000)

def okName : VarName → Bool
  | .ascii s => !s.contains 0
  | .ucs2 cs => cs.all okScalar

def okGuid (n : Nat) : GuidRef → Bool
  | .inline g => g.length == 16
  | .index i => i < n

/-- the extended header must hold what the attribute bits promise: a time stamp unless AuthWrite,
    plus a hash for data-only entries -/
def okExt (flags : Nat) (dataOnly : Bool) : Option Ext → Bool
  | none => true
  | some e => e.attrs < 256 &&
      (flags / 64 % 2 == 1 || (if dataOnly then 40 else 8) ≤ e.body.length)

def okNext : Option Nat → Bool
  | none => true
  | some r => 0 < r && r < 0xFFFFFF

/-- field ranges of one entry (everything except the question whether the value is itself a store) -/
def Entry.ok (nGuids : Nat) (e : Entry) : Bool :=
  e.size < 65536 &&
  match e with
  | .var f g n _ x nx => okFlags f && okGuid nGuids g && okName n && okExt f false x && okNext nx
  | .data f _ x nx => okFlags f && okExt f true x && okNext nx
  | .dead a nx _ => a < 128 && nx < 16777216

def Entry.index? : Entry → Option Nat
  | .var _ (.index i) _ _ _ _ => some i
  | _ => none

/-- the content of the entry is plain data: it does not begin with the NVAR signature, so fiano
    does not try to read it as a nested store -/
def Entry.plain (e : Entry) : Bool := e.content.take 4 != sig

/-- well-formedness of ONE level: field ranges, names, extended headers, GUID table — whatever the
    values contain (the recursive grammar of `SpecNested.lean` uses it at every nesting level) -/
def wf1 (s : NvStore) : Bool :=
  (s.pol == 0xFF || s.pol == 0) &&
  s.entries.all (Entry.ok s.guids.length) &&
  s.guids.all (·.length == 16) && s.guids.length ≤ 255 &&
  -- the table holds exactly the GUIDs some variable refers to (the highest index is used)
  (s.guids.length == 0 || s.entries.any (fun e => e.index? == some (s.guids.length - 1)))

/-- basic well-formedness of a store without nested stores: what parse ∘ assemble = id needs -/
def wf (s : NvStore) : Bool := wf1 s && s.entries.all Entry.plain

def WF (s : NvStore) : Prop := wf s = true

/-- targets of the links of owned entries -/
def targets (s : NvStore) : List Nat :=
  (table s).filterMap (fun d => if d.head.isSome then d.entry.next.map (d.off + ·) else none)

def nodupB {α : Type} [DecidableEq α] : List α → Bool
  | [] => true
  | a :: l => !l.contains a && nodupB l

/-- link discipline: no owned link points at a `var` entry, and no two owned links point at the
    same offset -/
def linksOk (s : NvStore) : Bool :=
  nodupB (targets s) &&
  (table s).all (fun d => match d.entry with
    | .var _ _ _ _ _ _ => !(targets s).contains d.off
    | _ => true)

/-- header + GUID part + name of a `var` entry -/
def headLen : Entry → Nat
  | .var _ g n _ _ _ => 10 + g.ser.length + n.ser.length
  | _ => 10

/-- the compacted form of every variable still fits the 16-bit Size field: header, GUID part and
    name of the head, content of the current entry -/
def fitsOk (s : NvStore) : Bool :=
  (table s).all (fun d => match d.head with
    | some h => headLen h + d.entry.content.length < 65536
    | none => true)

/-- the current variables have pairwise different (GUID, name) -/
def uniqueKeys (s : NvStore) : Bool := nodupB ((live s).map (·.1))

/-- well-formedness for compaction -/
def WFC (s : NvStore) : Prop := wf s = true ∧ linksOk s = true ∧ fitsOk s = true ∧ uniqueKeys s = true

instance (s : NvStore) : Decidable (WF s) := by unfold WF; infer_instance
instance (s : NvStore) : Decidable (WFC s) := by unfold WFC; infer_instance

end Fiano.Nvram.Spec
