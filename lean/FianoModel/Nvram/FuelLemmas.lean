/-
  The entry walk of `parseStore` terminates on EVERY byte string: the fuel `|buf| + 1` is never
  exhausted, because every parsed entry has `Header.Size ≥ 10` (repaired code; the unrepaired code
  accepts Size = 0 and loops forever, DESIGN §8 row 2).
-/
import FianoModel.Nvram.Model

namespace Fiano.Nvram

theorem parseBody_size (pol : Nat) (sb : Bytes) (gs : List Bytes) (es : List NVar) (off size next attrs : Nat)
    (vbuf : Bytes) (v : NVar) (gs' : List Bytes)
    (h : parseBody pol sb gs es off size next attrs vbuf = .ok (some (v, gs'))) : v.size = size := by
  unfold parseBody at h
  simp only at h
  repeat' split at h
  all_goals first
    | (injection h with h; injection h with h; injection h with h1 h2; subst h1; rfl)
    | cases h

theorem parseBody_not_fuel (pol : Nat) (sb : Bytes) (gs : List Bytes) (es : List NVar) (off size next attrs : Nat)
    (vbuf : Bytes) : parseBody pol sb gs es off size next attrs vbuf ≠ .error .fuel := by
  intro h
  unfold parseBody at h
  simp only at h
  repeat' split at h
  all_goals cases h

theorem newNVar_size (pol : Nat) (sb : Bytes) (gs : List Bytes) (es : List NVar) (buf : Bytes) (off : Nat)
    (v : NVar) (gs' : List Bytes) (h : newNVar pol sb gs es buf off = .ok (some (v, gs'))) :
    10 ≤ v.size ∧ v.size ≤ buf.length := by
  unfold newNVar at h
  simp only at h
  repeat' split at h
  all_goals first
    | cases h
    | (rename_i hlen hsz
       have := parseBody_size _ _ _ _ _ _ _ _ _ _ _ h
       simp only [hdrSize] at hsz
       omega)

theorem newNVar_not_fuel (pol : Nat) (sb : Bytes) (gs : List Bytes) (es : List NVar) (buf : Bytes) (off : Nat) :
    newNVar pol sb gs es buf off ≠ .error .fuel := by
  intro h
  unfold newNVar at h
  simp only at h
  repeat' split at h
  all_goals first
    | cases h
    | exact parseBody_not_fuel _ _ _ _ _ _ _ _ _ h

theorem walk_not_fuel (pol : Nat) (sb : Bytes) :
    ∀ (f fso gso : Nat) (gs : List Bytes) (es : List NVar), sb.length - fso < 10 * f → gso ≤ sb.length →
      walk pol sb f fso gso gs es ≠ .error .fuel := by
  intro f
  induction f with
  | zero => intro fso gso gs es h; omega
  | succ f ih =>
    intro fso gso gs es hf hg
    unfold walk
    split
    · rename_i hlt
      split
      · rename_i e he
        intro h
        injection h with h
        subst h
        exact newNVar_not_fuel _ _ _ _ _ _ he
      · intro h; cases h
      · rename_i v gs' he
        obtain ⟨h10, hle⟩ := newNVar_size _ _ _ _ _ _ _ _ he
        have hsl : (slice sb fso (gso - fso)).length ≤ gso - fso := by
          simp only [slice, List.length_take]; omega
        split
        · intro h; cases h
        · apply ih
          · omega
          · omega
    · intro h; cases h

/-- `NewNVarStore` (repaired) terminates on every input: the model's walk never runs out of fuel -/
theorem parseStore_not_fuel (pol : Nat) (b : Bytes) : parseStore pol b ≠ .error .fuel := by
  unfold parseStore
  exact walk_not_fuel pol b _ _ _ _ _ (by omega) (Nat.le_refl _)

end Fiano.Nvram
