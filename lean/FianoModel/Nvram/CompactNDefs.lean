/-
  Compaction carried out on the recursive grammar (`compactN`): the nested store of every value is
  compacted first (all of them, as fiano does, with nothing invalidated inside: `NVarInvalidate` does
  not descend into nested stores), then the level itself as `compactG` does — one `var` entry per
  kept row, with the head's name and re-indexed GUID reference, and the kept entry's (compacted)
  value and extended header.
-/
import FianoModel.Nvram.CompactDefs
import FianoModel.Nvram.SpecNested

namespace Fiano.Nvram
open Spec

/-- the compacted entries and GUID table for the kept rows (as `compactRows`); every row travels
    with the already compacted value of its entry -/
def compactRowsN (guids : List Bytes) : List (Row × NValue) → List Bytes → List NEntry × List Bytes
  | [], gs => ([], gs)
  | (d, nv) :: rest, gs =>
    match d.head with
    | some (.var fh g n _ _ _) =>
      let gr : GuidRef × List Bytes :=
        match g with
        | .inline gb => (.inline gb, gs)
        | .index _ => let r := guidIdxG gs (g.resolve guids); (.index r.1, r.2)
      let e := NEntry.var (mergeFlags fh d.entry.flags) gr.1 n nv d.entry.ext none
      let r := compactRowsN guids rest gr.2
      (e :: r.1, r.2)
    | _ => compactRowsN guids rest gs

/-- compaction of one level, given the one-level view `s` and its entries paired with their
    compacted values -/
def compactFrom (K : Bytes → Bool) (s : NvStore) (ps : List (Entry × NValue)) : NStore :=
  let r := compactRowsN s.guids ((ownersT [] ps 0).filter (fun p => kept K s.guids p.1)) []
  .mk s.pol r.1 (s.ser.length - entriesLen (flatEntries r.1) - 16 * r.2.length) r.2

mutual
  /-- `nvram-compact` on the grammar, nothing invalidated -/
  def compactN0 : NStore → NStore
    | .mk pol es free guids => compactFrom (fun _ => false) (NStore.flat (.mk pol es free guids)) (cpairs es)
  def cpairs : List NEntry → List (Entry × NValue)
    | [] => []
    | e :: es => cpair e :: cpairs es
  /-- the one-level view of an entry, and its value with the nested store compacted -/
  def cpair : NEntry → Entry × NValue
    | .var f g n v x nx => (.var f g n v.bytes x nx, cval v)
    | .data f v x nx => (.data f v.bytes x nx, cval v)
    | .dead a nx b => (.dead a nx b, .raw [])
  def cval : NValue → NValue
    | .raw b => .raw b
    | .store s => .store (compactN0 s)
end

/-- `invalidate` of the names selected by `K` (top level only), then `nvram-compact` -/
def compactN (K : Bytes → Bool) (S : NStore) : NStore := compactFrom K S.flat (cpairs S.entries)

theorem compactN0_eq (S : NStore) : compactN0 S = compactN (fun _ => false) S := by
  cases S; simp [compactN0, compactN, NStore.entries]

/-- the current variables with the contents compaction leaves: nested stores in compacted form -/
def liveC (K : Bytes → Bool) (S : NStore) : List (Key × Bytes) :=
  liveT K S.guids (ownersT [] ((cpairs S.entries).map (fun p => (p.1, p.2.bytes ++ extSer p.1.ext))) 0)

end Fiano.Nvram
