/-
  parse ∘ ser on the reference grammar: `parseStore s.pol s.ser = .ok (expectStore s)`.
-/
import FianoModel.Nvram.EntryLemmas

namespace Fiano.Nvram
open Spec

/-- invariant of the rows of the ownership table -/
def RowOk (d : Row) : Prop :=
  match d.entry with
  | .var _ _ _ _ _ _ => d.head = some d.entry
  | .dead _ _ _ => d.head = none
  | .data _ _ _ _ => True

theorem expect_links (pol : Nat) (guids : List Bytes) (d : Row) (off : Nat) (hd : RowOk d) (hoff : 0 < off) :
    ((expectNVar pol guids d).type.isValid && (expectNVar pol guids d).nextOffset == off) = d.linksTo off := by
  obtain ⟨o, e, h⟩ := d
  cases e with
  | var f g n v x nx =>
    simp only [RowOk] at hd
    subst hd
    cases nx with
    | none =>
      simp [expectNVar, Row.linksTo, Entry.next, nextOff, EType.isValid]; omega
    | some r => simp [expectNVar, Row.linksTo, Entry.next, nextOff, EType.isValid]
  | dead a nx b =>
    simp only [RowOk] at hd
    subst hd
    simp [expectNVar, Row.linksTo, EType.isValid]
  | data f v x nx =>
    cases h with
    | none => simp [expectNVar, Row.linksTo, EType.isValid]
    | some hh =>
      cases nx with
      | none => simp [expectNVar, Row.linksTo, Entry.next, nextOff, EType.isValid]; omega
      | some r => simp [expectNVar, Row.linksTo, Entry.next, nextOff, EType.isValid]

theorem find_sim (pol : Nat) (guids : List Bytes) (done : List Row) (off : Nat)
    (hd : ∀ d ∈ done, RowOk d) (hoff : 0 < off) :
    (done.map (expectNVar pol guids)).find? (fun l => l.type.isValid && l.nextOffset == off)
      = (done.find? (fun d => d.linksTo off)).map (expectNVar pol guids) := by
  induction done with
  | nil => rfl
  | cons d ds ih =>
    have h1 := expect_links pol guids d off (hd d (by simp)) hoff
    simp only [List.map_cons, List.find?_cons, h1]
    cases d.linksTo off with
    | true => rfl
    | false => exact ih (fun d' hd' => hd d' (by simp [hd']))

/-- a linking row hands on the key of its head -/
theorem expect_key (pol : Nat) (guids : List Bytes) (d : Row) (h : Entry) (hd : RowOk d) (hh : d.head = some h) :
    (expectNVar pol guids d).guid = (h.key guids).1 ∧ (expectNVar pol guids d).name = (h.key guids).2 := by
  obtain ⟨o, e, hd'⟩ := d
  simp only at hh
  subst hh
  cases e with
  | var f g n v x nx =>
    simp only [RowOk] at hd
    injection hd with hd
    subst hd
    simp [expectNVar, Entry.key]
  | dead a nx b => simp [RowOk] at hd
  | data f v x nx => simp [expectNVar]

theorem lastFlag_cases (pol : Nat) (hpol : pol = 0xFF ∨ pol = 0) (nx : Option Nat) (hnx : okNext nx = true) :
    (nextVal pol nx ≠ lastFlag pol) = nx.isSome ∧ nextVal pol nx < 16777216 := by
  cases nx with
  | none => rcases hpol with h | h <;> subst h <;> simp [nextVal, lastFlag]
  | some r =>
    simp only [okNext, Bool.and_eq_true, decide_eq_true_eq] at hnx
    rcases hpol with h | h <;> subst h <;> simp [nextVal, lastFlag] <;> omega

def idxBound (e : Entry) : Nat :=
  match e.index? with
  | some i => i + 1
  | none => 0

theorem parseBody_dead (pol : Nat) (sb : Bytes) (guids : List Bytes) (k : Nat) (done : List Row) (off : Nat)
    (a nx : Nat) (b : Bytes) (ha : a < 128) :
    parseBody pol sb (guids.take k) (done.map (expectNVar pol guids)) off (Entry.dead a nx b).size
        ((Entry.dead a nx b).nextField pol) (Entry.dead a nx b).attrs ((Entry.dead a nx b).ser pol)
      = .ok (some (expectNVar pol guids ⟨off, .dead a nx b, headFor done (.dead a nx b) off⟩, guids.take k)) := by
  have hb : hasBit a aValid = false := by simp [hasBit, aValid]; omega
  unfold parseBody
  simp only [Entry.attrs, hb, Bool.not_false, if_true]
  simp [expectNVar, headFor, Entry.attrs, hdrSize]

theorem parseBody_data (pol : Nat) (hpol : pol = 0xFF ∨ pol = 0) (sb : Bytes) (guids : List Bytes) (k : Nat)
    (done : List Row) (off : Nat) (hd : ∀ d ∈ done, RowOk d) (hoff : 0 < off ∨ done = [])
    (f : Nat) (v : Bytes) (x : Option Ext) (nx : Option Nat)
    (hok : (Entry.data f v x nx).ok guids.length = true) :
    parseBody pol sb (guids.take k) (done.map (expectNVar pol guids)) off (Entry.data f v x nx).size
        ((Entry.data f v x nx).nextField pol) (Entry.data f v x nx).attrs ((Entry.data f v x nx).ser pol)
      = .ok (some (expectNVar pol guids ⟨off, .data f v x nx, headFor done (.data f v x nx) off⟩, guids.take k)) := by
  simp only [Entry.ok, Bool.and_eq_true, decide_eq_true_eq] at hok
  obtain ⟨hsz, ⟨hf, hx⟩, hnx⟩ := hok
  obtain ⟨ha, hbv, hbd, hbx, hba⟩ := data_bits f v x nx hf
  obtain ⟨hl, hnv⟩ := lastFlag_cases pol hpol nx hnx
  have hext : extOk (Entry.data f v x nx).attrs (Entry.data f v x nx).size ((Entry.data f v x nx).ser pol) = true := by
    have e : (Entry.data f v x nx).ser pol
        = (hdr (Entry.data f v x nx).size ((Entry.data f v x nx).nextField pol) (Entry.data f v x nx).attrs ++ v)
          ++ extSer x := by
      rw [Entry.ser_eq]; simp [Entry.body]
    rw [e]
    apply extOk_ser _ _ _ x true (f / 64 % 2 == 1) hbx hba hbd
    · simp [Entry.size, Entry.body, hdr_length]; omega
    · simp [hdr_length]
    · exact hsz
    · intro e he
      subst he
      simp only [okExt, Bool.and_eq_true, Bool.or_eq_true, decide_eq_true_eq, if_true] at hx
      rcases hx.2 with h | h
      · left; exact h
      · right; simpa using h
  have hpol' : ¬ (pol ≠ 0xFF ∧ pol ≠ 0) := by omega
  unfold parseBody
  simp only [hbv, Bool.not_true, hpol', hext, hbd, if_true, if_false, Entry.nextField, hl]
  have hfind : (done.map (expectNVar pol guids)).find? (fun l => l.type.isValid && l.nextOffset == off)
      = (done.find? (fun d => d.linksTo off)).map (expectNVar pol guids) := by
    rcases hoff with h | h
    · exact find_sim pol guids done off hd h
    · subst h; rfl
  rw [hfind]
  cases hfd : done.find? (fun d => d.linksTo off) with
  | none =>
    cases nx <;> simp [expectNVar, headFor, hfd, Entry.nextField, nextOff, hdrSize, nextVal]
  | some d =>
    have hdm : d ∈ done := List.mem_of_find?_eq_some hfd
    have hlk : d.linksTo off = true := by
      have := List.find?_some hfd; simpa using this
    have hhs : d.head.isSome = true := by
      simp only [Row.linksTo, Bool.and_eq_true] at hlk; exact hlk.1
    obtain ⟨h, hh⟩ := Option.isSome_iff_exists.1 hhs
    obtain ⟨hg, hn⟩ := expect_key pol guids d h (hd d hdm) hh
    have hhf : headFor done (.data f v x nx) off = some h := by simp [headFor, hfd, hh]
    simp only [Option.map_some]
    rw [hg, hn, hhf]
    cases nx with
    | none => simp [expectNVar, Entry.nextField, nextOff, hdrSize]
    | some r =>
      simp only [okNext, Bool.and_eq_true, decide_eq_true_eq] at hnx
      simp [expectNVar, Entry.nextField, nextOff, hdrSize, nextVal]
      omega

theorem drop_append_len {α : Type} (a b : List α) (n : Nat) (h : a.length = n) : (a ++ b).drop n = b := by
  subst h; simp

theorem take_append_len {α : Type} (a b : List α) (n : Nat) (h : a.length = n) : (a ++ b).take n = a := by
  subst h; simp

theorem parseBody_var (pol : Nat) (hpol : pol = 0xFF ∨ pol = 0) (sb : Bytes) (guids : List Bytes) (k : Nat)
    (done : List Row) (off : Nat) (hk : k ≤ guids.length) (h255 : guids.length ≤ 255)
    (hsb : 16 * guids.length ≤ sb.length) (hat : ∀ j (h : j < guids.length), guidAt sb j = guids[j])
    (f : Nat) (g : GuidRef) (n : VarName) (v : Bytes) (x : Option Ext) (nx : Option Nat)
    (hok : (Entry.var f g n v x nx).ok guids.length = true) :
    parseBody pol sb (guids.take k) (done.map (expectNVar pol guids)) off (Entry.var f g n v x nx).size
        ((Entry.var f g n v x nx).nextField pol) (Entry.var f g n v x nx).attrs ((Entry.var f g n v x nx).ser pol)
      = .ok (some (expectNVar pol guids ⟨off, .var f g n v x nx, headFor done (.var f g n v x nx) off⟩,
                   guids.take (max k (idxBound (.var f g n v x nx))))) := by
  simp only [Entry.ok, Bool.and_eq_true, decide_eq_true_eq] at hok
  obtain ⟨hsz, ⟨⟨⟨⟨hf, hg⟩, hn⟩, hx⟩, hnx⟩⟩ := hok
  obtain ⟨ha, hbv, hbd, hbn, hbg, hbx, hba⟩ := var_bits f g n v x nx hf
  obtain ⟨hl, hnv⟩ := lastFlag_cases pol hpol nx hnx
  have hser : (Entry.var f g n v x nx).ser pol
      = hdr (Entry.var f g n v x nx).size ((Entry.var f g n v x nx).nextField pol) (Entry.var f g n v x nx).attrs
        ++ (g.ser ++ (n.ser ++ (v ++ extSer x))) := by
    rw [Entry.ser_eq]; simp [Entry.body]
  have hext : extOk (Entry.var f g n v x nx).attrs (Entry.var f g n v x nx).size ((Entry.var f g n v x nx).ser pol)
      = true := by
    have e : (Entry.var f g n v x nx).ser pol
        = (hdr (Entry.var f g n v x nx).size ((Entry.var f g n v x nx).nextField pol) (Entry.var f g n v x nx).attrs
            ++ g.ser ++ n.ser ++ v) ++ extSer x := by
      rw [hser]; simp
    rw [e]
    apply extOk_ser _ _ _ x false (f / 64 % 2 == 1) hbx hba hbd
    · simp [Entry.size, Entry.body, hdr_length]; omega
    · simp [hdr_length]
    · exact hsz
    · intro e he
      subst he
      simp only [okExt, Bool.and_eq_true, Bool.or_eq_true, decide_eq_true_eq, Bool.false_eq_true, if_false] at hx
      rcases hx.2 with h | h
      · left; exact h
      · right; simpa using h
  have hpol' : ¬ (pol ≠ 0xFF ∧ pol ≠ 0) := by omega
  have hd10 : ((Entry.var f g n v x nx).ser pol).drop hdrSize = g.ser ++ (n.ser ++ (v ++ extSer x)) := by
    rw [hser]; exact drop_append_len _ _ _ (hdr_length _ _ _)
  unfold parseBody
  simp only [hbv, Bool.not_true, hpol', hext, hbd, hbg, if_true, if_false, Entry.nextField, hl, hd10,
    Bool.false_eq_true]
  cases g with
  | inline gb =>
    simp only [okGuid, beq_iff_eq] at hg
    have hd26 : ((Entry.var f (.inline gb) n v x nx).ser pol).drop (hdrSize + guidSize)
        = n.ser ++ (v ++ extSer x) := by
      rw [hser]
      have : hdr (Entry.var f (.inline gb) n v x nx).size ((Entry.var f (.inline gb) n v x nx).nextField pol)
            (Entry.var f (.inline gb) n v x nx).attrs ++ (GuidRef.ser (.inline gb) ++ (n.ser ++ (v ++ extSer x)))
          = (hdr (Entry.var f (.inline gb) n v x nx).size ((Entry.var f (.inline gb) n v x nx).nextField pol)
            (Entry.var f (.inline gb) n v x nx).attrs ++ gb) ++ (n.ser ++ (v ++ extSer x)) := by
        simp [GuidRef.ser]
      rw [this]
      exact drop_append_len _ _ _ (by simp [hdr_length, hg, hdrSize, guidSize])
    have hlen : ¬ ((GuidRef.ser (.inline gb) ++ (n.ser ++ (v ++ extSer x))).length < guidSize) := by
      simp [GuidRef.ser, hg, guidSize]
    have htk : (GuidRef.ser (.inline gb) ++ (n.ser ++ (v ++ extSer x))).take guidSize = gb := by
      simp only [GuidRef.ser]; exact take_append_len _ _ _ (by simp [hg, guidSize])
    simp only [GuidRef.isInline, if_true, hlen, if_false, htk, hd26,
      parseName_ser _ n (v ++ extSer x) hbn hn]
    cases nx <;>
      simp [expectNVar, headFor, idxBound, Entry.index?, GuidRef.index?, GuidRef.resolve, headLen, GuidRef.ser,
        hg, hdrSize, guidSize, nextOff, Entry.nextField, nextVal] <;> try omega
  | index i =>
    simp only [okGuid, decide_eq_true_eq] at hg
    have hd11 : ((Entry.var f (.index i) n v x nx).ser pol).drop (hdrSize + 1) = n.ser ++ (v ++ extSer x) := by
      rw [hser]
      have : hdr (Entry.var f (.index i) n v x nx).size ((Entry.var f (.index i) n v x nx).nextField pol)
            (Entry.var f (.index i) n v x nx).attrs ++ (GuidRef.ser (.index i) ++ (n.ser ++ (v ++ extSer x)))
          = (hdr (Entry.var f (.index i) n v x nx).size ((Entry.var f (.index i) n v x nx).nextField pol)
            (Entry.var f (.index i) n v x nx).attrs ++ [UInt8.ofNat i]) ++ (n.ser ++ (v ++ extSer x)) := by
        simp [GuidRef.ser]
      rw [this]
      exact drop_append_len _ _ _ (by simp [hdr_length, hdrSize])
    have hi : (UInt8.ofNat i).toNat = i := b8_toNat i (by omega)
    simp only [GuidRef.isInline, Bool.false_eq_true, if_false, GuidRef.ser, List.cons_append, List.nil_append, hi,
      getGuid_take sb guids k i hk hg h255 hsb hat, hd11, parseName_ser _ n (v ++ extSer x) hbn hn]
    have hres : GuidRef.resolve guids (.index i) = guids[i] := by
      simp [GuidRef.resolve, hg]
    cases nx <;>
      simp [expectNVar, headFor, idxBound, Entry.index?, GuidRef.index?, hres, headLen, GuidRef.ser,
        hdrSize, nextOff, Entry.nextField, nextVal] <;> try omega

end Fiano.Nvram
