/-
  Definitions for the compaction proof: invalidation by a name predicate, alive / kept rows of
  the ownership table, and compaction carried out on the reference grammar (`compactG`).
  The main result (CompactLemmas.lean) is that the model's `compact` on the parsed form of a
  well-formed store `s` yields the parsed form of `compactG K s`.
-/
import FianoModel.Nvram.AsmLemmas

namespace Fiano.Nvram
open Spec

/-- `invalidate` for an arbitrary name predicate -/
def markK (K : Bytes → Bool) (v : NVar) : NVar := if K v.name then { v with type := .invalid } else v

def invalK (K : Bytes → Bool) (st : Store) : Store := { st with entries := st.entries.map (markK K) }

theorem invalidate_eq (n : Bytes) (st : Store) : invalidate n st = invalK (fun x => decide (x = n)) st := by
  simp [invalidate, invalK, markK]

theorem invalK_none (st : Store) : invalK (fun _ => false) st = st := by
  cases st
  have : markK (fun _ => false) = id := by funext v; simp [markK]
  simp [invalK, this]

/-- the row belongs to a variable that has not been dropped -/
def alive (K : Bytes → Bool) (guids : List Bytes) (d : Row) : Bool :=
  match d.head with
  | some h => !K (h.key guids).2
  | none => false

/-- rows that survive compaction: alive and without successor -/
def kept (K : Bytes → Bool) (guids : List Bytes) (d : Row) : Bool := alive K guids d && d.entry.next.isNone

/-! ### compaction on the grammar -/

def Spec.Entry.flags : Entry → Nat
  | .var f _ _ _ _ _ => f
  | .data f _ _ _ => f
  | .dead _ _ _ => 0

def Spec.Entry.value : Entry → Bytes
  | .var _ _ _ v _ _ => v
  | .data _ v _ _ => v
  | .dead _ _ _ => []

def Spec.Entry.ext : Entry → Option Ext
  | .var _ _ _ _ x _ => x
  | .data _ _ x _ => x
  | .dead _ _ _ => none

/-- Runtime and HWErrorRecord from the head, AuthWrite from the entry that supplies the content -/
def mergeFlags (fh fk : Nat) : Nat := fh % 2 + 32 * (fh / 32 % 2) + 64 * (fk / 64 % 2)

/-- index of `g` in the table in first-use order, appending it when new -/
def guidIdxG (gs : List Bytes) (g : Bytes) : Nat × List Bytes :=
  match gs.findIdx? (· == g) with
  | some i => (i, gs)
  | none => (gs.length, gs ++ [g])

/-- the compacted entries and GUID table for the kept rows, given the table built so far -/
def compactRows (guids : List Bytes) : List Row → List Bytes → List Entry × List Bytes
  | [], gs => ([], gs)
  | d :: rest, gs =>
    match d.head with
    | some (.var fh g n _ _ _) =>
      let gr : GuidRef × List Bytes :=
        match g with
        | .inline gb => (.inline gb, gs)
        | .index _ => let r := guidIdxG gs (g.resolve guids); (.index r.1, r.2)
      let e := Entry.var (mergeFlags fh d.entry.flags) gr.1 n d.entry.value d.entry.ext none
      let r := compactRows guids rest gr.2
      (e :: r.1, r.2)
    | _ => compactRows guids rest gs

/-- compaction on the grammar: one `var` entry per kept row (head's GUID reference re-indexed, head's
    name, the kept entry's value and extended header), the first-use GUID table, and the free space
    that keeps the length -/
def compactG (K : Bytes → Bool) (s : NvStore) : NvStore :=
  let r := compactRows s.guids ((table s).filter (kept K s.guids)) []
  { pol := s.pol, entries := r.1, guids := r.2,
    free := s.ser.length - entriesLen r.1 - 16 * r.2.length }

end Fiano.Nvram
