/-
  Structural facts about the recursive grammar (`SpecNested.lean`): the one-level view, the
  "at every level" combinator, the directly nested stores and their sizes.
-/
import FianoModel.Nvram.SpecNested
import FianoModel.Nvram.LiveLemmas

namespace Fiano.Nvram
open Spec

theorem flatEntries_eq (es : List NEntry) : flatEntries es = es.map NEntry.flat := by
  induction es with
  | nil => rfl
  | cons e es ih => simp [flatEntries, ih]

theorem flat_pol (S : NStore) : S.flat.pol = S.pol := by cases S; rfl
theorem flat_free (S : NStore) : S.flat.free = S.free := by cases S; rfl
theorem flat_guids (S : NStore) : S.flat.guids = S.guids := by cases S; rfl
theorem flat_entries (S : NStore) : S.flat.entries = S.entries.map NEntry.flat := by
  cases S; simp [NStore.flat, NStore.entries, flatEntries_eq]

/-! ### `all` -/

theorem allEntries_iff (p : NStore → Bool) (es : List NEntry) :
    allEntries p es = true ↔ ∀ e ∈ es, allEntry p e = true := by
  induction es with
  | nil => simp [allEntries]
  | cons e es ih => simp [allEntries, ih]

theorem allEntry_iff (p : NStore → Bool) (e : NEntry) :
    allEntry p e = true ↔ ∀ n, e.sub? = some n → n.all p = true := by
  cases e with
  | var f g nm v x nx => cases v <;> simp [allEntry, allValue, NEntry.sub?]
  | data f v x nx => cases v <;> simp [allEntry, allValue, NEntry.sub?]
  | dead a nx b => simp [allEntry, NEntry.sub?]

theorem all_iff (p : NStore → Bool) (S : NStore) :
    S.all p = true ↔ p S = true ∧ ∀ n ∈ S.subs, n.all p = true := by
  cases S with
  | mk pol es free guids =>
    simp only [NStore.all, Bool.and_eq_true, allEntries_iff, NStore.subs, NStore.entries, List.mem_filterMap]
    constructor
    · rintro ⟨h1, h2⟩
      refine ⟨h1, ?_⟩
      rintro n ⟨e, he, hs⟩
      exact (allEntry_iff p e).1 (h2 e he) n hs
    · rintro ⟨h1, h2⟩
      refine ⟨h1, ?_⟩
      intro e he
      exact (allEntry_iff p e).2 (fun n hs => h2 n ⟨e, he, hs⟩)

/-! ### sizes: a nested store is strictly shorter than the store that holds it -/

theorem entriesLen_mem (es : List Entry) (e : Entry) (h : e ∈ es) : e.size ≤ entriesLen es := by
  induction es with
  | nil => simp at h
  | cons a es ih =>
    simp only [entriesLen, List.map_cons, List.sum_cons] at *
    rcases List.mem_cons.1 h with h | h
    · subst h; omega
    · have := ih h; omega

theorem ser_length_ge (s : NvStore) : entriesLen s.entries ≤ s.ser.length := by
  unfold NvStore.ser
  simp only [List.length_append, entriesLen_ser]
  omega

theorem sub_flat_content (e : NEntry) (n : NStore) (h : e.sub? = some n) :
    e.flat.content = n.ser ++ extSer e.flat.ext ∧ e.flat.value = n.ser ∧
    (∀ a nx b, e.flat ≠ .dead a nx b) := by
  cases e with
  | var f g nm v x nx =>
    cases v with
    | raw b => simp [NEntry.sub?] at h
    | store s =>
      simp only [NEntry.sub?, Option.some.injEq] at h
      subst h
      refine ⟨rfl, rfl, ?_⟩
      intro a nx' b hh; cases hh
  | data f v x nx =>
    cases v with
    | raw b => simp [NEntry.sub?] at h
    | store s =>
      simp only [NEntry.sub?, Option.some.injEq] at h
      subst h
      refine ⟨rfl, rfl, ?_⟩
      intro a nx' b hh; cases hh
  | dead a nx b => simp [NEntry.sub?] at h

theorem sub_size (S n : NStore) (h : n ∈ S.subs) : n.ser.length + 10 ≤ S.ser.length := by
  obtain ⟨e, he, hs⟩ := List.mem_filterMap.1 h
  obtain ⟨hc, _, hnd⟩ := sub_flat_content e n hs
  have h1 := entry_size_content e.flat hnd
  have h2 : e.flat ∈ S.flat.entries := by rw [flat_entries]; exact List.mem_map_of_mem he
  have h3 := entriesLen_mem _ _ h2
  have h4 := ser_length_ge S.flat
  rw [hc, List.length_append] at h1
  unfold NStore.ser at *
  omega

/-! ### what `wfN` says about one level -/

structure LevelOk (S : NStore) : Prop where
  parts : WFParts S.flat
  vals : ∀ e ∈ S.entries, e.valueOk S.pol = true
  subs : ∀ n ∈ S.subs, WFN n

theorem wfN_level (S : NStore) (h : WFN S) : LevelOk S := by
  unfold WFN wfN at h
  obtain ⟨h1, h2⟩ := (all_iff wfLevel S).1 h
  simp only [wfLevel, Bool.and_eq_true, List.all_eq_true] at h1
  exact ⟨wf1_parts _ h1.1, h1.2, h2⟩

structure LevelOkC (S : NStore) : Prop where
  lvl : LevelOk S
  links : Links S.flat
  fits : fitsOk S.flat = true
  uniq : uniqueKeys S.flat = true
  subs : ∀ n ∈ S.subs, WFCN n

theorem all_mono (p q : NStore → Bool) (hpq : ∀ S, p S = true → q S = true) :
    ∀ (m : Nat) (S : NStore), S.ser.length ≤ m → S.all p = true → S.all q = true := by
  intro m
  induction m with
  | zero =>
    intro S hm h
    obtain ⟨h1, h2⟩ := (all_iff p S).1 h
    refine (all_iff q S).2 ⟨hpq S h1, ?_⟩
    intro n hn
    have := sub_size S n hn
    omega
  | succ m ih =>
    intro S hm h
    obtain ⟨h1, h2⟩ := (all_iff p S).1 h
    refine (all_iff q S).2 ⟨hpq S h1, ?_⟩
    intro n hn
    have := sub_size S n hn
    exact ih n (by omega) (h2 n hn)

theorem wfcN_wfN (S : NStore) (h : WFCN S) : WFN S := by
  unfold WFCN wfcN at h
  unfold WFN wfN
  apply all_mono wfcLevel wfLevel _ S.ser.length S (Nat.le_refl _) h
  intro S' h'
  simp only [wfcLevel, Bool.and_eq_true] at h'
  exact h'.1.1.1

theorem wfcN_level (S : NStore) (h : WFCN S) : LevelOkC S := by
  have hwf := wfN_level S (wfcN_wfN S h)
  unfold WFCN wfcN at h
  obtain ⟨h1, h2⟩ := (all_iff wfcLevel S).1 h
  simp only [wfcLevel, Bool.and_eq_true] at h1
  exact ⟨hwf, links_of_parts _ hwf.parts h1.1.1.2, h1.1.2, h1.2, h2⟩

/-! ### the value of an entry of the one-level view -/

/-- either the entry's content is plain, or it is (exactly) a well-formed nested store -/
inductive ValCase (S : NStore) (E : Entry) : Prop where
  | plain (h : E.plain = true)
  | refused (h : notStore S.pol E.content = true)
  | exthdr (h : E.ext.isSome = true) (hnd : ∀ a nx b, E ≠ .dead a nx b)
  | nested (n : NStore) (hn : n ∈ S.subs) (hc : E.content = n.ser) (hv : E.value = n.ser) (hx : E.ext = none)
      (hpol : n.pol = S.pol) (hnd : ∀ a nx b, E ≠ .dead a nx b)

theorem dead_plain (a nx : Nat) (b : Bytes) : (Entry.dead a nx b).plain = true := by
  simp [Entry.plain, Entry.content, Spec.sig]

theorem valCase_of_level (S : NStore) (hl : LevelOk S) (E : Entry) (hE : E ∈ S.flat.entries) : ValCase S E := by
  rw [flat_entries] at hE
  obtain ⟨e, he, rfl⟩ := List.mem_map.1 hE
  have hv := hl.vals e he
  cases e with
  | dead a nx b => exact .plain (dead_plain a nx b)
  | var f g nm v x nx =>
    cases v with
    | raw b =>
      simp only [NEntry.valueOk, valueOk, Bool.or_eq_true] at hv
      rcases hv with (hv | hv) | hv
      · exact .plain (by simpa [NEntry.flat, Entry.plain, Entry.content, NValue.bytes] using hv)
      · exact .exthdr (by simpa [NEntry.flat, Entry.ext] using hv) (by intro a nx' b' hh; cases hh)
      · exact .refused (by simpa [NEntry.flat, Entry.content, NValue.bytes] using hv)
    | store n =>
      simp only [NEntry.valueOk, valueOk, Bool.and_eq_true, Option.isNone_iff_eq_none, beq_iff_eq] at hv
      obtain ⟨hx, hp⟩ := hv
      subst hx
      refine .nested n (List.mem_filterMap.2 ⟨_, he, rfl⟩) ?_ rfl rfl hp ?_
      · simp [NEntry.flat, Entry.content, NValue.bytes, extSer, NStore.ser]
      · intro a nx' b hh; cases hh
  | data f v x nx =>
    cases v with
    | raw b =>
      simp only [NEntry.valueOk, valueOk, Bool.or_eq_true] at hv
      rcases hv with (hv | hv) | hv
      · exact .plain (by simpa [NEntry.flat, Entry.plain, Entry.content, NValue.bytes] using hv)
      · exact .exthdr (by simpa [NEntry.flat, Entry.ext] using hv) (by intro a nx' b' hh; cases hh)
      · exact .refused (by simpa [NEntry.flat, Entry.content, NValue.bytes] using hv)
    | store n =>
      simp only [NEntry.valueOk, valueOk, Bool.and_eq_true, Option.isNone_iff_eq_none, beq_iff_eq] at hv
      obtain ⟨hx, hp⟩ := hv
      subst hx
      refine .nested n (List.mem_filterMap.2 ⟨_, he, rfl⟩) ?_ rfl rfl hp ?_
      · simp [NEntry.flat, Entry.content, NValue.bytes, extSer, NStore.ser]
      · intro a nx' b hh; cases hh

/-- the extended-header attribute of a well-formed live entry says whether it has such a header -/
theorem entry_extbit (e : Entry) (k : Nat) (hok : e.ok k = true) (hnd : ∀ a nx b, e ≠ .dead a nx b) :
    hasBit e.attrs aExtHdr = e.ext.isSome := by
  cases e with
  | dead a nx b => exact absurd rfl (hnd a nx b)
  | var f g n v x nx =>
    simp only [Entry.ok, Bool.and_eq_true, decide_eq_true_eq] at hok
    obtain ⟨_, ⟨⟨⟨⟨hf, _⟩, _⟩, _⟩, _⟩⟩ := hok
    exact (var_bits f g n v x nx hf).2.2.2.2.2.1
  | data f v x nx =>
    simp only [Entry.ok, Bool.and_eq_true, decide_eq_true_eq] at hok
    obtain ⟨_, ⟨hf, _⟩, _⟩ := hok
    exact (data_bits f v x nx hf).2.2.2.1

/-- an entry with an extended header: fiano does not look for a store in its content
    (fixes/C10-nested-ext-header.diff) -/
theorem nestedOf_exthdr (pol : Nat) (guids : List Bytes) (r : Row) (k : Nat) (hok : r.entry.ok k = true)
    (hnd : ∀ a nx b, r.entry ≠ .dead a nx b) (hx : r.entry.ext.isSome = true) :
    nestedOf pol (expectNVar pol guids r) = none := by
  unfold nestedOf
  rw [expect_attrs, entry_extbit r.entry k hok hnd, hx]
  simp

/-- a content fiano does not take for a store: the parsed entry carries no nested store -/
theorem nestedOf_opaque (pol : Nat) (guids : List Bytes) (r : Row) (h : notStore pol r.entry.content = true) :
    nestedOf pol (expectNVar pol guids r) = none := by
  unfold nestedOf
  rw [content_expect, expect_hasContent]
  obtain ⟨o, e, hd⟩ := r
  have herr : ∃ e', parseStore pol e.content = .error e' := by
    unfold notStore at h
    split at h
    · cases h
    · rename_i e' he; exact ⟨e', he⟩
  obtain ⟨e', he'⟩ := herr
  cases e with
  | dead a nx b => simp
  | var f g n v x nx => simp only [he']; split <;> rfl
  | data f v x nx => simp only [he']; split <;> rfl

/-! ### the serialization of a well-formed store begins with the signature iff it has entries -/

theorem ser_take4_nonempty (s : NvStore) (e : Entry) (es : List Entry) (h : s.entries = e :: es) :
    s.ser.take 4 = sig := by
  unfold NvStore.ser
  rw [h]
  simp [Entry.ser, Spec.sig, sig]

theorem ser_empty (s : NvStore) (hp : WFParts s) (h : s.entries = []) :
    s.ser = List.replicate s.free (UInt8.ofNat s.pol) := by
  have hg : s.guids = [] := by
    have := hp.ref
    rw [h] at this
    simp only [maxIdx] at this
    exact List.eq_nil_of_length_eq_zero this.symm
  unfold NvStore.ser
  rw [h, hg]
  simp

theorem replicate_take4_ne_sig (n pol : Nat) (hpol : pol = 0xFF ∨ pol = 0) :
    ((List.replicate n (UInt8.ofNat pol)).take 4 == sig) = false := by
  rcases hpol with h | h <;> subst h <;>
    (match n with
     | 0 => decide
     | 1 => decide
     | 2 => decide
     | 3 => decide
     | n + 4 => simp [List.replicate_succ, sig])

end Fiano.Nvram
