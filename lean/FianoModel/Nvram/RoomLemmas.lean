/-
  The compacted entries are never larger in total than the original ones (so the erased gap of the
  reassembled store is non-negative): every kept row is paid for by its own entry and, when it is a
  data-only entry, by the head's header that the open end of its chain carries along.
-/
import FianoModel.Nvram.CompactG

namespace Fiano.Nvram
open Spec

def headLenOf (d : Row) : Nat :=
  match d.head with
  | some h => headLen h
  | none => 0

def newSize (d : Row) : Nat := headLenOf d + d.entry.content.length

def sumOf (f : Row → Nat) (l : List Row) : Nat := (l.map f).sum

/-- `l` is an alive link whose target offset has not been reached by the rows `rows` -/
def openB (K : Bytes → Bool) (guids : List Bytes) (rows : List Row) (l : Row) : Bool :=
  alive K guids l &&
    (match l.entry.next with
     | some r => !(rows.any (fun d => d.off == l.off + r))
     | none => false)

theorem sumOf_append (f : Row → Nat) (a b : List Row) : sumOf f (a ++ b) = sumOf f a + sumOf f b := by
  simp [sumOf]

theorem sum_filter_le (f : Row → Nat) (l : List Row) (q : Row → Bool) : sumOf f (l.filter q) ≤ sumOf f l := by
  induction l with
  | nil => simp [sumOf]
  | cons a l ih =>
    simp only [List.filter_cons]
    split
    · simp only [sumOf, List.map_cons, List.sum_cons] at ih ⊢; omega
    · simp only [sumOf, List.map_cons, List.sum_cons] at ih ⊢; omega

theorem sum_filter_remove (f : Row → Nat) (l : List Row) (q : Row → Bool) (x : Row) (hx : x ∈ l) (hq : q x = false) :
    sumOf f (l.filter q) + f x ≤ sumOf f l := by
  induction l with
  | nil => simp at hx
  | cons a l ih =>
    simp only [List.filter_cons]
    rcases List.mem_cons.1 hx with h | h
    · subst h
      have := sum_filter_le f l q
      simp only [hq, Bool.false_eq_true, if_false]
      simp only [sumOf, List.map_cons, List.sum_cons] at this ⊢; omega
    · have := ih h
      split
      · simp only [sumOf, List.map_cons, List.sum_cons] at this ⊢; omega
      · simp only [sumOf, List.map_cons, List.sum_cons] at this ⊢; omega

def Nn (K : Bytes → Bool) (guids : List Bytes) (rows : List Row) : Nat := sumOf newSize (rows.filter (kept K guids))
def Op (K : Bytes → Bool) (guids : List Bytes) (rows : List Row) : Nat :=
  sumOf headLenOf (rows.filter (openB K guids rows))
def Sz (rows : List Row) : Nat := sumOf (fun d => d.entry.size) rows

/-- rows of `done` that stay open when a row at offset `o` is appended -/
theorem open_step (K : Bytes → Bool) (guids : List Bytes) (done : List Row) (d : Row) :
    done.filter (openB K guids (done ++ [d]))
      = (done.filter (openB K guids done)).filter
          (fun l => match l.entry.next with | some r => !(d.off == l.off + r) | none => true) := by
  rw [List.filter_filter]
  apply List.filter_congr
  intro l _
  unfold openB
  cases l.entry.next with
  | none => simp
  | some r =>
    simp only [List.any_append, List.any_cons, List.any_nil, Bool.or_false, Bool.not_or]
    cases alive K guids l <;> cases (done.any fun d => d.off == l.off + r) <;> cases (d.off == l.off + r) <;> rfl

theorem entry_size_content (e : Entry) (hnd : ∀ a nx b, e ≠ .dead a nx b) : e.content.length + 10 ≤ e.size := by
  cases e with
  | dead a nx b => exact absurd rfl (hnd a nx b)
  | var f g n v x nx => simp [Entry.size, Entry.body, Entry.content]; omega
  | data f v x nx => simp [Entry.size, Entry.body, Entry.content]; omega

theorem var_size (f : Nat) (g : GuidRef) (n : VarName) (v : Bytes) (x : Option Ext) (nx : Option Nat) :
    (Entry.var f g n v x nx).size = headLen (.var f g n v x nx) + (Entry.var f g n v x nx).content.length := by
  simp [Entry.size, Entry.body, Entry.content, headLen]; omega

theorem room_inv (K : Bytes → Bool) (guids : List Bytes) :
    ∀ (es : List Entry) (done : List Row) (off : Nat),
      (∀ d ∈ done, d.off < off) → (∀ e ∈ es, ∀ r, e.next = some r → 0 < r) →
      Nn K guids done + Op K guids done ≤ Sz done →
      Nn K guids (done ++ rowsFrom done es off) + Op K guids (done ++ rowsFrom done es off)
        ≤ Sz (done ++ rowsFrom done es off) := by
  intro es
  induction es with
  | nil => intro done off _ _ h; simpa [rowsFrom] using h
  | cons e es ih =>
    intro done off hlt hpos hinv
    generalize hd : (⟨off, e, headFor done e off⟩ : Row) = d
    have hdoff : d.off = off := by rw [← hd]
    have hdent : d.entry = e := by rw [← hd]
    have hdhead : d.head = headFor done e off := by rw [← hd]
    have hrows : rowsFrom done (e :: es) off = d :: rowsFrom (done ++ [d]) es (off + e.size) := by
      simp only [rowsFrom, hd]
    rw [hrows]
    have happ : done ++ d :: rowsFrom (done ++ [d]) es (off + e.size)
        = (done ++ [d]) ++ rowsFrom (done ++ [d]) es (off + e.size) := by simp
    rw [happ]
    apply ih (done ++ [d]) (off + e.size)
    · intro d' h'
      have := entry_size_ge e
      rcases List.mem_append.1 h' with h' | h'
      · have := hlt d' h'; omega
      · simp only [List.mem_singleton] at h'; subst h'; omega
    · intro e' he'; exact hpos e' (by simp [he'])
    -- one step
    have hSz : Sz (done ++ [d]) = Sz done + e.size := by simp [Sz, sumOf, hdent]
    have hNn : Nn K guids (done ++ [d]) = Nn K guids done + (if kept K guids d then newSize d else 0) := by
      simp only [Nn, List.filter_append, sumOf_append]
      by_cases hk : kept K guids d = true <;> simp [sumOf, List.filter_cons, hk]
    have hOp : Op K guids (done ++ [d])
        = sumOf headLenOf (done.filter (openB K guids (done ++ [d])))
          + (if openB K guids (done ++ [d]) d then headLenOf d else 0) := by
      simp only [Op, List.filter_append, sumOf_append]
      by_cases hk : openB K guids (done ++ [d]) d = true <;> simp [sumOf, List.filter_cons, hk]
    have hle := sum_filter_le headLenOf (done.filter (openB K guids done))
      (fun l => match l.entry.next with | some r => !(d.off == l.off + r) | none => true)
    rw [← open_step] at hle
    rw [hSz, hNn, hOp]
    have hOp0 : Op K guids done = sumOf headLenOf (done.filter (openB K guids done)) := rfl
    have hsz10 := entry_size_ge e
    cases hal : alive K guids d with
    | false =>
      have h1 : kept K guids d = false := by simp [kept, hal]
      have h2 : openB K guids (done ++ [d]) d = false := by simp [openB, hal]
      simp only [h1, h2, Bool.false_eq_true, if_false]
      omega
    | true =>
      have hhs := alive_head K guids d hal
      cases e with
      | dead a nx b => rw [hdhead] at hhs; simp [headFor] at hhs
      | var f g n v x nx =>
        have hh : d.head = some (.var f g n v x nx) := by rw [hdhead]; rfl
        have hhl : headLenOf d = headLen (.var f g n v x nx) := by simp [headLenOf, hh]
        have hsize := var_size f g n v x nx
        cases nx with
        | none =>
          have h1 : kept K guids d = true := by simp [kept, hal, hdent, Entry.next]
          have h2 : openB K guids (done ++ [d]) d = false := by simp [openB, hdent, Entry.next]
          simp only [h1, h2, if_true, Bool.false_eq_true, if_false, newSize, hhl, hdent]
          omega
        | some r =>
          have h1 : kept K guids d = false := by simp [kept, hdent, Entry.next]
          simp only [h1, Bool.false_eq_true, if_false]
          have : (if openB K guids (done ++ [d]) d = true then headLenOf d else 0) ≤ headLenOf d := by
            split <;> omega
          omega
      | data f v x nx =>
        -- the linker that gave this row its head is open, and is closed by this row
        have hhf : d.head = (match done.find? (fun d' => d'.linksTo off) with | some l => l.head | none => none) := by
          rw [hdhead]; rfl
        cases hfd : done.find? (fun d' => d'.linksTo off) with
        | none => rw [hhf, hfd] at hhs; cases hhs
        | some l =>
          rw [hfd] at hhf
          have hlm : l ∈ done := List.mem_of_find?_eq_some hfd
          have hlk : l.linksTo off = true := by have := List.find?_some hfd; simpa using this
          simp only [Row.linksTo, Bool.and_eq_true] at hlk
          obtain ⟨_, hlk2⟩ := hlk
          cases hln : l.entry.next with
          | none => simp [hln] at hlk2
          | some rl =>
            simp only [hln, beq_iff_eq] at hlk2
            have hal' : alive K guids l = true := by rw [alive_congr K guids l d hhf.symm]; exact hal
            have hopen : openB K guids done l = true := by
              simp only [openB, hal', hln, Bool.true_and, Bool.not_eq_true', List.any_eq_false, beq_iff_eq]
              intro d' hd'
              have := hlt d' hd'
              omega
            have hlin : l ∈ done.filter (openB K guids done) := List.mem_filter.2 ⟨hlm, hopen⟩
            have hrem := sum_filter_remove headLenOf (done.filter (openB K guids done))
              (fun l => match l.entry.next with | some r => !(d.off == l.off + r) | none => true) l hlin
              (by simp [hln, hdoff, hlk2])
            rw [← open_step] at hrem
            have hhl : headLenOf l = headLenOf d := by simp [headLenOf, hhf]
            have hcont := entry_size_content (.data f v x nx) (by intro a nx' b h; cases h)
            cases nx with
            | none =>
              have h1 : kept K guids d = true := by simp [kept, hal, hdent, Entry.next]
              have h2 : openB K guids (done ++ [d]) d = false := by simp [openB, hdent, Entry.next]
              simp only [h1, h2, if_true, Bool.false_eq_true, if_false, newSize, hdent]
              omega
            | some r =>
              have h1 : kept K guids d = false := by simp [kept, hdent, Entry.next]
              simp only [h1, Bool.false_eq_true, if_false]
              have : (if openB K guids (done ++ [d]) d = true then headLenOf d else 0) ≤ headLenOf d := by
                split <;> omega
              omega

theorem Sz_table (s : NvStore) : Sz (table s) = entriesLen s.entries := by
  simp only [Sz, sumOf, entriesLen]
  rw [← table_entries s, List.map_map]
  rfl

/-- the kept rows' new sizes fit into the old entries -/
theorem room (K : Bytes → Bool) (s : NvStore) (hl : Links s) :
    sumOf newSize ((table s).filter (kept K s.guids)) ≤ entriesLen s.entries := by
  have h := room_inv K s.guids s.entries [] 0 (by simp) (by
    intro e he r hr
    rw [← table_entries s] at he
    obtain ⟨d, hd, hde⟩ := List.mem_map.1 he
    exact hl.pos d hd r (by rw [hde]; exact hr)) (by simp [Nn, Op, Sz, sumOf])
  rw [List.nil_append, ← table_eq_rowsFrom] at h
  rw [Sz_table] at h
  simp only [Nn] at h
  omega

end Fiano.Nvram
