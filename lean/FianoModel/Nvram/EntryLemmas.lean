/-
  Parsing one entry of the reference grammar: header decoding, attribute bits, extended header,
  GUID part, name.
-/
import FianoModel.Nvram.Expect
import FianoModel.Nvram.UnicodeLemmas

namespace Fiano.Nvram
open Spec

theorem sig_eq : Spec.sig = sig := rfl

theorem b8_toNat (n : Nat) (h : n < 256) : (UInt8.ofNat n).toNat = n := by
  simp [UInt8.toNat_ofNat', Nat.mod_eq_of_lt h]

theorem fromLE_single (n : Nat) (h : n < 256) : fromLE [UInt8.ofNat n] = n := by
  simp [fromLE, b8_toNat n h]

/-- the 10-byte entry header -/
def hdr (size nf attrs : Nat) : Bytes := sig ++ leN 2 size ++ leN 3 nf ++ [UInt8.ofNat attrs]

theorem hdr_length (size nf attrs : Nat) : (hdr size nf attrs).length = 10 := by simp [hdr, sig]

theorem Entry.ser_eq (pol : Nat) (e : Entry) : e.ser pol = hdr e.size (e.nextField pol) e.attrs ++ e.body := rfl

theorem Entry.ser_length (pol : Nat) (e : Entry) : (e.ser pol).length = e.size := by
  rw [Entry.ser_eq, List.length_append, hdr_length]; rfl

theorem hdr_slices (size nf attrs : Nat) (rest : Bytes) :
    slice (hdr size nf attrs ++ rest) 0 4 = sig ∧
    slice (hdr size nf attrs ++ rest) 4 2 = leN 2 size ∧
    slice (hdr size nf attrs ++ rest) 6 3 = leN 3 nf ∧
    slice (hdr size nf attrs ++ rest) 9 1 = [UInt8.ofNat attrs] := by
  simp [hdr, slice, sig, leN]

theorem hdr_drop (size nf attrs : Nat) (rest : Bytes) : (hdr size nf attrs ++ rest).drop 10 = rest := by
  have := hdr_length size nf attrs
  rw [List.drop_append_of_le_length (by omega)]
  simp [List.drop_of_length_le, this]

/-! ### attribute bits -/

def VarName.isAscii : VarName → Bool
  | .ascii _ => true
  | .ucs2 _ => false

def GuidRef.isInline : GuidRef → Bool
  | .inline _ => true
  | .index _ => false

theorem okFlags_cases (f : Nat) (h : okFlags f = true) :
    f = 0 ∨ f = 1 ∨ f = 32 ∨ f = 33 ∨ f = 64 ∨ f = 65 ∨ f = 96 ∨ f = 97 := by
  have : f % 2 + 32 * (f / 32 % 2) + 64 * (f / 64 % 2) = f := by simpa [okFlags] using h
  omega

theorem var_bits (f : Nat) (g : GuidRef) (n : VarName) (v : Bytes) (x : Option Ext) (nx : Option Nat)
    (hf : okFlags f = true) :
    (Entry.var f g n v x nx).attrs < 256 ∧
    hasBit (Entry.var f g n v x nx).attrs aValid = true ∧
    hasBit (Entry.var f g n v x nx).attrs aDataOnly = false ∧
    hasBit (Entry.var f g n v x nx).attrs aAscii = VarName.isAscii n ∧
    hasBit (Entry.var f g n v x nx).attrs aGuid = GuidRef.isInline g ∧
    hasBit (Entry.var f g n v x nx).attrs aExtHdr = x.isSome ∧
    hasBit (Entry.var f g n v x nx).attrs aAuthWr = (f / 64 % 2 == 1) := by
  rcases okFlags_cases f hf with h | h | h | h | h | h | h | h <;> subst h <;>
    cases n <;> cases g <;> cases x <;>
    simp only [Entry.attrs, extBit, VarName.isAscii, GuidRef.isInline, Option.isSome] <;> decide

theorem data_bits (f : Nat) (v : Bytes) (x : Option Ext) (nx : Option Nat) (hf : okFlags f = true) :
    (Entry.data f v x nx).attrs < 256 ∧
    hasBit (Entry.data f v x nx).attrs aValid = true ∧
    hasBit (Entry.data f v x nx).attrs aDataOnly = true ∧
    hasBit (Entry.data f v x nx).attrs aExtHdr = x.isSome ∧
    hasBit (Entry.data f v x nx).attrs aAuthWr = (f / 64 % 2 == 1) := by
  rcases okFlags_cases f hf with h | h | h | h | h | h | h | h <;> subst h <;> cases x <;>
    simp only [Entry.attrs, extBit, Option.isSome] <;> decide

/-! ### extended header -/

theorem extOk_ser (attrs size : Nat) (pre : Bytes) (x : Option Ext) (dataOnly auth : Bool)
    (hbx : hasBit attrs aExtHdr = x.isSome) (hba : hasBit attrs aAuthWr = auth)
    (hbd : hasBit attrs aDataOnly = dataOnly)
    (hsize : size = pre.length + (extSer x).length) (hpre : 10 ≤ pre.length) (hsz : size < 65536)
    (hok : ∀ e, x = some e → (auth = true ∨ (if dataOnly then 40 else 8) ≤ e.body.length)) :
    extOk attrs size (pre ++ extSer x) = true := by
  cases x with
  | none => simp [extOk, hbx]
  | some e =>
    have hok := hok e rfl
    simp only [extSer, Ext.ser, List.length_cons, List.length_append, leN_length] at hsize
    have hs : slice (pre ++ extSer (some e)) (size - 2) 2 = leN 2 (e.body.length + 3) := by
      have : pre ++ extSer (some e) = (pre ++ UInt8.ofNat e.attrs :: e.body) ++ leN 2 (e.body.length + 3) := by
        simp [extSer, Ext.ser]
      rw [this]
      exact slice_mid' _ _ _ _ (by simp; omega) (by simp)
    have hv : fromLE (leN 2 (e.body.length + 3)) = e.body.length + 3 :=
      fromLE_leN_of_lt 2 _ (by omega)
    unfold extOk
    simp only [hbx, hba, hbd, Option.isSome, Bool.not_true, hs, hv, hdrSize]
    have h1 : ¬ (e.body.length + 3 > size - 10) := by omega
    have h2 : ¬ (size - (e.body.length + 3) ≥ size) := by omega
    simp only [h1, h2, if_false]
    cases auth with
    | true => simp
    | false =>
      simp only [Bool.not_false, if_true]
      rcases hok with hok | hok
      · cases hok
      · cases dataOnly with
        | true =>
          simp only [if_true] at hok ⊢
          have h3 : ¬ (size - (e.body.length + 3) + 1 + 8 > size) := by omega
          simp only [h3, if_false]; simp; omega
        | false =>
          simp only [Bool.false_eq_true, if_false] at hok ⊢
          have h3 : ¬ (size - (e.body.length + 3) + 1 + 8 > size) := by omega
          simp only [h3, if_false]

/-! ### names -/

theorem indexByte0_append (s rest : Bytes) (h : s.contains 0 = false) :
    indexByte0 (s ++ 0 :: rest) = some s.length := by
  induction s with
  | nil => simp [indexByte0]
  | cons a s ih =>
    simp only [List.contains_cons, Bool.or_eq_false_iff] at h
    have ha : a ≠ 0 := by
      intro h0; subst h0; simp at h
    simp [indexByte0, ha, ih h.2]

theorem b8_eq_zero (x : Nat) (hx : x < 256) (h : UInt8.ofNat x = 0) : x = 0 := by
  have := congrArg UInt8.toNat h
  simpa [UInt8.toNat_ofNat', Nat.mod_eq_of_lt hx] using this

theorem indexNul16_scalar (c : Nat) (h : OkScalar c) (t : Bytes) :
    indexNul16 (Spec.scalarUnits c ++ t) = (indexNul16 t).map (· + (Spec.scalarUnits c).length) := by
  unfold OkScalar at h
  unfold Spec.scalarUnits Spec.u16le
  by_cases hc : c < 0x10000
  · simp only [hc, if_true, List.cons_append, List.nil_append, indexNul16, List.length_cons, List.length_nil]
    have : ¬ (UInt8.ofNat (c % 256) = 0 ∧ UInt8.ofNat (c / 256) = 0) := by
      intro ⟨h1, h2⟩
      have := b8_eq_zero _ (by omega) h1
      have := b8_eq_zero _ (by omega) h2
      omega
    simp [this]
  · simp only [hc, if_false, List.cons_append, List.nil_append, indexNul16, List.length_cons, List.length_nil]
    have h1 : ¬ (UInt8.ofNat ((0xD800 + (c - 0x10000) / 1024) % 256) = 0 ∧
        UInt8.ofNat ((0xD800 + (c - 0x10000) / 1024) / 256) = 0) := by
      intro ⟨_, h2⟩
      have := b8_eq_zero _ (by omega) h2
      omega
    have h2 : ¬ (UInt8.ofNat ((0xDC00 + (c - 0x10000) % 1024) % 256) = 0 ∧
        UInt8.ofNat ((0xDC00 + (c - 0x10000) % 1024) / 256) = 0) := by
      intro ⟨_, h2⟩
      have := b8_eq_zero _ (by omega) h2
      omega
    simp only [h1, h2, if_false, Option.map_map]
    congr 1

theorem indexNul16_scalars (cs : List Nat) (h : ∀ c ∈ cs, OkScalar c) (rest : Bytes) :
    indexNul16 (cs.flatMap Spec.scalarUnits ++ 0 :: 0 :: rest) = some (cs.flatMap Spec.scalarUnits).length := by
  induction cs with
  | nil => simp [indexNul16]
  | cons c cs ih =>
    simp only [List.flatMap_cons, List.append_assoc, List.length_append]
    rw [indexNul16_scalar c (h c (by simp)), ih (fun c hc => h c (by simp [hc]))]
    simp [Nat.add_comm]

theorem okName_ucs2 (cs : List Nat) (h : okName (.ucs2 cs) = true) : ∀ c ∈ cs, OkScalar c := by
  intro c hc
  simp only [okName, List.all_eq_true] at h
  exact (okScalar_iff c).1 (h c hc)

theorem parseName_ser (attrs : Nat) (n : VarName) (rest : Bytes)
    (hb : hasBit attrs aAscii = VarName.isAscii n) (hok : okName n = true) :
    parseName attrs (n.ser ++ rest) = some (n.text, n.ser.length) := by
  cases n with
  | ascii s =>
    simp only [okName, Bool.not_eq_true'] at hok
    simp only [parseName, hb, VarName.isAscii, if_true, VarName.ser, List.append_assoc, List.cons_append,
      List.nil_append, indexByte0_append s rest hok, VarName.text]
    simp
  | ucs2 cs =>
    have hcs := okName_ucs2 cs hok
    simp only [parseName, hb, VarName.isAscii, Bool.false_eq_true, if_false, VarName.ser, List.append_assoc,
      List.cons_append, List.nil_append, indexNul16_scalars cs hcs rest, VarName.text]
    simp [ucs2ToUtf8_scalars cs hcs]

/-! ### GUID table -/

theorem take_extend (l : List Bytes) (k m : Nat) (hkm : k ≤ m) (hm : m ≤ l.length)
    (f : Nat → Bytes) (hf : ∀ j (h : j < l.length), f j = l[j]) :
    l.take k ++ (List.range (m - k)).map (fun j => f (k + j)) = l.take m := by
  apply List.ext_getElem
  · simp; omega
  · intro i h1 h2
    simp only [List.length_take] at h2
    by_cases hik : i < k
    · rw [List.getElem_append_left (by simp; omega)]
      simp
    · rw [List.getElem_append_right (by simp; omega)]
      simp only [List.length_take, List.getElem_map, List.getElem_range, List.getElem_take]
      have e : min k l.length = k := by omega
      rw [hf _ (by omega)]
      congr 1
      omega

theorem getGuid_take (sb : Bytes) (guids : List Bytes) (k i : Nat) (hk : k ≤ guids.length)
    (hi : i < guids.length) (h255 : guids.length ≤ 255) (hsb : 16 * guids.length ≤ sb.length)
    (hat : ∀ j (h : j < guids.length), guidAt sb j = guids[j]) :
    getGuid sb (guids.take k) i = (guids[i], guids.take (max k (i + 1))) := by
  unfold getGuid
  have e1 : (i + 1) % 256 = i + 1 := by omega
  have e2 : (guids.take k).length = k := by simp; omega
  simp only [e1, e2]
  by_cases hki : k < i + 1
  · have h1 : ¬ (sb.length < 16 * (i + 1)) := by omega
    simp only [hki, if_true, h1, if_false]
    rw [take_extend guids k (i + 1) (by omega) (by omega) (guidAt sb) hat]
    have : max k (i + 1) = i + 1 := by omega
    rw [this]
    have : (guids.take (i + 1))[i]? = some guids[i] := by
      rw [List.getElem?_take]; simp [hi]
    simp [this]
  · simp only [hki, if_false]
    have : max k (i + 1) = k := by omega
    rw [this]
    have : (guids.take k)[i]? = some guids[i] := by
      rw [List.getElem?_take]; simp [hi]; omega
    simp [this]

end Fiano.Nvram
