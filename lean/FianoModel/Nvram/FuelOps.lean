/-
  The fuel bound of the nesting recursion along OPERATION SEQUENCES on hostile stores.

  `FuelNested.lean`: `asmStore` / `compact` with fuel `d` never report `fuel` when every entry
  content is shorter than `d`; that holds for the store parsed from any byte string with
  `d = depthFuel = |store| + 1`.  Here: the bound is an invariant of every operation.  The monotone
  measure is the declared length of the store: `layout` (the last step of Assemble and of
  compaction) keeps `Length`, and it refuses entries that reach into the GUID table, so every
  entry buffer of its result — a fortiori every entry content — is at most `Length` bytes long.
  No well-formedness is needed.
-/
import FianoModel.Nvram.FuelNested
import FianoModel.Nvram.Ops

namespace Fiano.Nvram

/-- every entry content is shorter than the fuel `depthFuel` the store's operations run with -/
def FuelOk (s : Store) : Prop := ∀ v ∈ s.entries, (content v).length < depthFuel s

/-- the stronger fact that holds behind `layout`: every entry BUFFER fits the declared length -/
def BufFit (s : Store) : Prop := ∀ v ∈ s.entries, v.buf.length ≤ s.length

theorem bufFit_fuelOk (s : Store) (h : BufFit s) : FuelOk s := by
  intro v hv
  have := h v hv
  simp only [depthFuel, content, List.length_drop]
  omega

theorem mem_flatMap_buf_le (es : List NVar) (v : NVar) (hv : v ∈ es) :
    v.buf.length ≤ (es.flatMap (·.buf)).length := by
  induction es with
  | nil => cases hv
  | cons w ws ih =>
    simp only [List.flatMap_cons, List.length_append]
    rcases List.mem_cons.1 hv with h | h
    · subst h; omega
    · have := ih h; omega

/-- `layout` keeps the declared length and only succeeds when the entries end below the GUID table -/
theorem layout_fit (pol : Nat) (s s' : Store) (es : List NVar) (h : layout pol s es = .ok s') :
    s'.length = s.length ∧ s'.entries = es ∧ BufFit s' := by
  unfold layout at h
  simp only at h
  split at h
  · cases h
  · split at h
    · cases h
    · rename_i h1 h2
      injection h with h
      subst h
      refine ⟨rfl, rfl, ?_⟩
      intro v hv
      have := mem_flatMap_buf_le es v hv
      simp only
      simp only [] at hv
      omega

theorem asmStore_fit (pol d : Nat) (s s' : Store) (h : asmStore pol d s = .ok s') :
    s'.length = s.length ∧ BufFit s' := by
  cases d with
  | zero => simp [asmStore] at h
  | succ d =>
    simp only [asmStore] at h
    unfold asmStoreWith at h
    split at h
    · cases h
    · obtain ⟨h1, _, h3⟩ := layout_fit _ _ _ _ h
      exact ⟨h1, h3⟩

theorem compactCore_fit (pol : Nat) (pairs : List (NVar × Option Bytes)) (s s' : Store)
    (h : compactCore pol pairs s = .ok s') : s'.length = s.length ∧ BufFit s' := by
  unfold compactCore at h
  simp only at h
  split at h
  · cases h
  · split at h
    · cases h
    · obtain ⟨h1, _, h3⟩ := layout_fit _ _ _ _ h
      exact ⟨h1, h3⟩

theorem compact_fit (pol d : Nat) (s s' : Store) (h : compact pol d s = .ok s') :
    s'.length = s.length ∧ BufFit s' := by
  cases d with
  | zero => simp [compact] at h
  | succ d =>
    simp only [compact] at h
    rw [compactWith_eq] at h
    split at h
    · cases h
    · exact compactCore_fit _ _ _ _ h

theorem invalidate_fuelOk (n : Bytes) (s : Store) (h : FuelOk s) : FuelOk (invalidate n s) := by
  intro v hv
  simp only [invalidate, List.mem_map] at hv
  obtain ⟨w, hw, rfl⟩ := hv
  have := h w hw
  simp only [depthFuel, invalidate] at this ⊢
  split
  · exact this
  · exact this

/-- every operation keeps the bound -/
theorem stepOp_fuelOk (pol : Nat) (s s' : Store) (op : StOp) (hs : FuelOk s) (h : stepOp pol s op = .ok s') :
    FuelOk s' := by
  cases op with
  | asm => exact bufFit_fuelOk _ (asmStore_fit _ _ _ _ h).2
  | compact => exact bufFit_fuelOk _ (compact_fit _ _ _ _ h).2
  | reparse => exact parsed_small pol s.buf s' h
  | inv n =>
    simp only [stepOp] at h
    injection h with h
    subst h
    exact invalidate_fuelOk n s hs

/-- no operation reports `fuel` on a store within the bound -/
theorem stepOp_not_fuel (pol : Nat) (s : Store) (op : StOp) (hs : FuelOk s) : stepOp pol s op ≠ .error .fuel := by
  cases op with
  | asm => exact asmStore_not_fuel pol _ s (by simp [depthFuel]) hs
  | compact => exact compact_not_fuel pol _ s (by simp [depthFuel]) hs
  | reparse => exact parseStore_not_fuel pol s.buf
  | inv n => intro h; cases h

theorem runOps_not_fuel (pol : Nat) : ∀ (ops : List StOp) (s : Store), FuelOk s →
    ∀ r ∈ runOps pol s ops, r ≠ .error .fuel := by
  intro ops
  induction ops with
  | nil => intro s _ r hr; cases hr
  | cons op ops ih =>
    intro s hs r hr
    simp only [runOps] at hr
    cases hst : stepOp pol s op with
    | error e =>
      rw [hst] at hr
      simp only [List.mem_singleton] at hr
      subst hr
      rw [← hst]
      exact stepOp_not_fuel pol s op hs
    | ok s' =>
      rw [hst] at hr
      rcases List.mem_cons.1 hr with h | h
      · subst h; intro hc; cases hc
      · exact ih s' (stepOp_fuelOk pol s s' op hs hst) r h

theorem runOps_fuelOk (pol : Nat) : ∀ (ops : List StOp) (s : Store), FuelOk s →
    ∀ s' , .ok s' ∈ runOps pol s ops → FuelOk s' := by
  intro ops
  induction ops with
  | nil => intro s _ s' hr; cases hr
  | cons op ops ih =>
    intro s hs s' hr
    simp only [runOps] at hr
    cases hst : stepOp pol s op with
    | error e =>
      rw [hst] at hr
      simp only [List.mem_singleton] at hr
      cases hr
    | ok s1 =>
      rw [hst] at hr
      rcases List.mem_cons.1 hr with h | h
      · injection h with h; subst h; exact stepOp_fuelOk pol s _ op hs hst
      · exact ih s1 (stepOp_fuelOk pol s s1 op hs hst) s' h

theorem runOpsEnd_mem (pol : Nat) : ∀ (ops : List StOp) (s : Store) (e : Err),
    runOpsEnd pol s ops = .error e → .error e ∈ runOps pol s ops := by
  intro ops
  induction ops with
  | nil => intro s e h; cases h
  | cons op ops ih =>
    intro s e h
    simp only [runOpsEnd] at h
    simp only [runOps]
    cases hst : stepOp pol s op with
    | error e' =>
      rw [hst] at h
      injection h with h
      subst h
      simp
    | ok s' =>
      rw [hst] at h
      exact List.mem_cons_of_mem _ (ih s' e h)

/-! ### a store outside WFCN for the non-vacuity example of the op-sequence theorem -/

/-- 48 bytes: two current variables with the SAME (GUID, name) — `uniqueKeys` fails, both survive
    compaction —, 4 bytes of free space, a one-GUID table -/
def hostileDup : Bytes :=
  [0x4E,0x56,0x41,0x52, 14,0, 0xFF,0xFF,0xFF, 0x83, 0, 65,0, 7] ++
  [0x4E,0x56,0x41,0x52, 14,0, 0xFF,0xFF,0xFF, 0x83, 0, 65,0, 9] ++
  [0xFF,0xFF,0xFF,0xFF] ++ (List.range 16).map (fun i => UInt8.ofNat (i+1))

def allOkOps (l : List (Except Err Store)) : Bool :=
  l.all (fun r => match r with | Except.ok _ => true | Except.error _ => false)

def opsSample : List StOp := [.compact, .compact, .inv [65], .asm, .reparse, .compact]

end Fiano.Nvram
