/-
  The entry walk of `parseStore` on a serialized store of the reference grammar.
-/
import FianoModel.Nvram.ParseLemmas

namespace Fiano.Nvram
open Spec

/-! ### ownership table -/

theorem owners_append (done : List Row) (a b : List Entry) (off : Nat) :
    owners done (a ++ b) off = owners (owners done a off) b (off + entriesLen a) := by
  induction a generalizing done off with
  | nil => simp [owners, entriesLen]
  | cons e a ih =>
    simp only [List.cons_append, owners, ih, entriesLen, List.map_cons, List.sum_cons]
    congr 1; omega

theorem owners_single (done : List Row) (e : Entry) (off : Nat) :
    owners done [e] off = done ++ [⟨off, e, headFor done e off⟩] := by simp [owners]

theorem headFor_rowOk (done : List Row) (e : Entry) (off : Nat) : RowOk ⟨off, e, headFor done e off⟩ := by
  cases e <;> simp [RowOk, headFor]

theorem owners_rowOk (done : List Row) (es : List Entry) (off : Nat) (h : ∀ d ∈ done, RowOk d) :
    ∀ d ∈ owners done es off, RowOk d := by
  induction es generalizing done off with
  | nil => simpa [owners] using h
  | cons e es ih =>
    simp only [owners]
    apply ih
    intro d hd
    rcases List.mem_append.1 hd with hd | hd
    · exact h d hd
    · simp only [List.mem_singleton] at hd; subst hd; exact headFor_rowOk done e off

theorem owners_length (done : List Row) (es : List Entry) (off : Nat) :
    (owners done es off).length = done.length + es.length := by
  induction es generalizing done off with
  | nil => simp [owners]
  | cons e es ih => simp [owners, ih]; try omega

theorem entriesLen_append (a b : List Entry) : entriesLen (a ++ b) = entriesLen a + entriesLen b := by
  simp [entriesLen]

theorem entriesLen_ser (pol : Nat) (es : List Entry) : (es.flatMap (Entry.ser pol)).length = entriesLen es := by
  induction es with
  | nil => rfl
  | cons e es ih => simp [entriesLen, Entry.ser_length, ih] at * <;> omega

theorem entry_size_ge (e : Entry) : 10 ≤ e.size := by simp [Entry.size]

/-! ### GUID table at the end of the buffer -/

theorem flatten_len16 (gs : List Bytes) (h : ∀ g ∈ gs, g.length = 16) : gs.flatten.length = 16 * gs.length := by
  induction gs with
  | nil => rfl
  | cons g gs ih =>
    simp only [List.flatten_cons, List.length_append, List.length_cons, h g (by simp),
      ih (fun g' hg' => h g' (by simp [hg']))]
    omega

theorem guidAt_table (X : Bytes) (gs : List Bytes) (h : ∀ g ∈ gs, g.length = 16) (j : Nat) (hj : j < gs.length) :
    guidAt (X ++ gs.reverse.flatten) j = gs[j] := by
  induction gs generalizing X j with
  | nil => simp at hj
  | cons g gs ih =>
    have hg : g.length = 16 := h g (by simp)
    have hgs : ∀ g' ∈ gs, g'.length = 16 := fun g' hg' => h g' (by simp [hg'])
    have hfl : gs.reverse.flatten.length = 16 * gs.length := by
      rw [flatten_len16 _ (by simpa using hgs)]; simp
    have e : X ++ (g :: gs).reverse.flatten = (X ++ gs.reverse.flatten) ++ g := by simp
    rw [e]
    cases j with
    | zero =>
      simp only [guidAt, List.getElem_cons_zero]
      have : (X ++ gs.reverse.flatten ++ g).length - 16 * (0 + 1) = (X ++ gs.reverse.flatten).length := by
        simp only [List.length_append, hg]; omega
      rw [this]
      exact slice_mid' _ _ _ _ rfl hg
    | succ j =>
      simp only [List.length_cons] at hj
      simp only [List.getElem_cons_succ]
      rw [← ih X hgs j (by omega)]
      have hY : 16 * (j + 1) ≤ (X ++ gs.reverse.flatten).length := by
        simp only [List.length_append, hfl]; omega
      generalize X ++ gs.reverse.flatten = Y at hY ⊢
      simp only [guidAt]
      have hl : (Y ++ g).length - 16 * (j + 1 + 1) = Y.length - 16 * (j + 1) := by
        simp only [List.length_append, hg]; omega
      rw [hl]
      simp only [slice]
      rw [List.drop_append_of_le_length (by omega), List.take_append_of_le_length (by simp; omega)]

/-! ### header decoding -/

theorem newNVar_ser (pol : Nat) (hpol : pol = 0xFF ∨ pol = 0) (sb : Bytes) (gs : List Bytes) (es : List NVar)
    (off : Nat) (e : Entry) (tail : Bytes) (hsz : e.size < 65536) (hnf : e.nextField pol < 16777216)
    (ha : e.attrs < 256) :
    newNVar pol sb gs es (e.ser pol ++ tail) off
      = parseBody pol sb gs es off e.size (e.nextField pol) e.attrs (e.ser pol) := by
  have hser := Entry.ser_eq pol e
  have hlen := Entry.ser_length pol e
  have h10 := entry_size_ge e
  have e1 : e.ser pol ++ tail = hdr e.size (e.nextField pol) e.attrs ++ (e.body ++ tail) := by
    rw [hser]; simp
  obtain ⟨s1, s2, s3, s4⟩ := hdr_slices e.size (e.nextField pol) e.attrs (e.body ++ tail)
  have hne : isErased pol (e.ser pol ++ tail) = false := by
    rw [e1]
    rcases hpol with h | h <;> subst h <;> simp [isErased, hdr, sig]
  unfold newNVar
  have hl1 : ¬ ((e.ser pol ++ tail).length < hdrSize) := by simp [hlen, hdrSize]; omega
  have hv2 : fromLE (leN 2 e.size) = e.size := fromLE_leN_of_lt 2 _ (by omega)
  have hv3 : fromLE (leN 3 (e.nextField pol)) = e.nextField pol := fromLE_leN_of_lt 3 _ (by omega)
  have hv1 : fromLE [UInt8.ofNat e.attrs] = e.attrs := fromLE_single _ ha
  have hl2 : ¬ ((e.ser pol ++ tail).length < e.size) := by simp [hlen]
  have hl3 : ¬ (e.size < hdrSize) := by simp [hdrSize]; omega
  have htk : (e.ser pol ++ tail).take e.size = e.ser pol := take_append_len _ _ _ hlen
  simp only [hne, hl1, Bool.false_eq_true, if_false]
  rw [e1] at *
  simp only [s1, s2, s3, s4, hv1, hv2, hv3, ne_eq, not_true_eq_false, if_false, hl2, hl3, htk]

/-! ### the walk -/

theorem parseBody_entry (pol : Nat) (hpol : pol = 0xFF ∨ pol = 0) (sb : Bytes) (guids : List Bytes) (k : Nat)
    (done : List Row) (off : Nat) (hk : k ≤ guids.length) (h255 : guids.length ≤ 255)
    (hsb : 16 * guids.length ≤ sb.length) (hat : ∀ j (h : j < guids.length), guidAt sb j = guids[j])
    (hd : ∀ d ∈ done, RowOk d) (hoff : 0 < off ∨ done = [])
    (e : Entry) (hok : e.ok guids.length = true) :
    parseBody pol sb (guids.take k) (done.map (expectNVar pol guids)) off e.size (e.nextField pol) e.attrs
        (e.ser pol)
      = .ok (some (expectNVar pol guids ⟨off, e, headFor done e off⟩, guids.take (max k (idxBound e)))) := by
  cases e with
  | var f g n v x nx => exact parseBody_var pol hpol sb guids k done off hk h255 hsb hat f g n v x nx hok
  | data f v x nx =>
    have : max k (idxBound (.data f v x nx)) = k := by simp [idxBound, Entry.index?]
    rw [this]
    exact parseBody_data pol hpol sb guids k done off hd hoff f v x nx hok
  | dead a nx b =>
    have : max k (idxBound (.dead a nx b)) = k := by simp [idxBound, Entry.index?]
    rw [this]
    simp only [Entry.ok, Bool.and_eq_true, decide_eq_true_eq] at hok
    exact parseBody_dead pol sb guids k done off a nx b hok.2.1

def maxIdx : List Entry → Nat
  | [] => 0
  | e :: es => max (idxBound e) (maxIdx es)

theorem maxIdx_append (a b : List Entry) : maxIdx (a ++ b) = max (maxIdx a) (maxIdx b) := by
  induction a with
  | nil => simp [maxIdx]
  | cons e a ih => simp only [List.cons_append, maxIdx, ih]; omega

theorem idxBound_le (n : Nat) (e : Entry) (h : e.ok n = true) : idxBound e ≤ n := by
  cases e with
  | var f g nm v x nx =>
    cases g with
    | inline gb => simp [idxBound, Entry.index?]
    | index i =>
      simp only [Entry.ok, Bool.and_eq_true, okGuid, decide_eq_true_eq] at h
      simp only [idxBound, Entry.index?]
      omega
  | data f v x nx => simp [idxBound, Entry.index?]
  | dead a nx b => simp [idxBound, Entry.index?]

theorem maxIdx_le (n : Nat) (es : List Entry) (h : ∀ e ∈ es, e.ok n = true) : maxIdx es ≤ n := by
  induction es with
  | nil => simp [maxIdx]
  | cons e es ih =>
    have := idxBound_le n e (h e (by simp))
    have := ih (fun e' he' => h e' (by simp [he']))
    simp only [maxIdx]; omega

theorem maxIdx_ge (es : List Entry) (e : Entry) (he : e ∈ es) : idxBound e ≤ maxIdx es := by
  induction es with
  | nil => simp at he
  | cons a es ih =>
    simp only [maxIdx]
    rcases List.mem_cons.1 he with h | h
    · subst h; omega
    · have := ih h; omega

structure WFParts (s : NvStore) : Prop where
  pol : s.pol = 0xFF ∨ s.pol = 0
  ok : ∀ e ∈ s.entries, e.ok s.guids.length = true
  g16 : ∀ g ∈ s.guids, g.length = 16
  n255 : s.guids.length ≤ 255
  ref : maxIdx s.entries = s.guids.length

theorem wf1_parts (s : NvStore) (h : wf1 s = true) : WFParts s := by
  unfold wf1 at h
  simp only [Bool.and_eq_true, Bool.or_eq_true, beq_iff_eq, List.all_eq_true, decide_eq_true_eq,
    List.any_eq_true] at h
  obtain ⟨⟨⟨⟨hpol, hok⟩, hg⟩, h255⟩, href⟩ := h
  refine ⟨hpol, hok, hg, h255, ?_⟩
  have hle := maxIdx_le _ _ hok
  rcases href with h0 | ⟨e, he, hi⟩
  · omega
  · have := maxIdx_ge s.entries e he
    simp only [idxBound, hi] at this
    omega

theorem wf_parts (s : NvStore) (h : WF s) : WFParts s := by
  unfold WF wf at h
  simp only [Bool.and_eq_true] at h
  exact wf1_parts s h.1

/-- no entry of a well-formed flat store carries a nested store -/
theorem wf_plain (s : NvStore) (h : WF s) : ∀ e ∈ s.entries, e.plain = true := by
  unfold WF wf at h
  simp only [Bool.and_eq_true, List.all_eq_true] at h
  exact h.2

theorem ser_length (s : NvStore) (h : WFParts s) :
    s.ser.length = entriesLen s.entries + s.free + 16 * s.guids.length := by
  unfold NvStore.ser
  simp only [List.length_append, entriesLen_ser, List.length_replicate]
  rw [flatten_len16 _ (by simpa using h.g16)]
  simp

theorem take_append_ge {α : Type} (B C : List α) (n : Nat) (h : B.length ≤ n) :
    (B ++ C).take n = B ++ C.take (n - B.length) := by
  rw [List.take_append, List.take_of_length_le h]

theorem walk_ser (s : NvStore) (hwf : WFParts s) (post pre : List Entry) (hE : s.entries = pre ++ post)
    (fuel : Nat) (hfuel : post.length + 1 ≤ fuel) :
    walk s.pol s.ser fuel (entriesLen pre) (s.ser.length - 16 * maxIdx pre) (s.guids.take (maxIdx pre))
        ((owners [] pre 0).map (expectNVar s.pol s.guids))
      = .ok (expectStore s) := by
  have hL := ser_length s hwf
  have hsb : 16 * s.guids.length ≤ s.ser.length := by omega
  have hat : ∀ j (h : j < s.guids.length), guidAt s.ser j = s.guids[j] := by
    intro j hj
    unfold NvStore.ser
    exact guidAt_table _ _ hwf.g16 j hj
  induction post generalizing pre fuel with
  | nil =>
    simp only [List.append_nil] at hE
    subst hE
    obtain ⟨f, rfl⟩ : ∃ f, fuel = f + 1 := ⟨fuel - 1, by simp at hfuel; omega⟩
    have hk : maxIdx s.entries = s.guids.length := hwf.ref
    have hgs : s.guids.take (maxIdx s.entries) = s.guids := by rw [hk]; simp
    have hgso : s.ser.length - 16 * maxIdx s.entries = entriesLen s.entries + s.free := by omega
    unfold walk
    rw [hgso, hgs]
    by_cases hfree : s.free = 0
    · have : ¬ (entriesLen s.entries < entriesLen s.entries + s.free) := by omega
      simp only [this, if_false]
      simp [expectStore, table]
    · have : entriesLen s.entries < entriesLen s.entries + s.free := by omega
      simp only [this, if_true]
      have hsl : slice s.ser (entriesLen s.entries) (entriesLen s.entries + s.free - entriesLen s.entries)
          = List.replicate s.free (UInt8.ofNat s.pol) := by
        unfold NvStore.ser
        have : entriesLen s.entries + s.free - entriesLen s.entries = s.free := by omega
        rw [this]
        exact slice_mid _ _ _ _ _ (entriesLen_ser _ _) (by simp)
      rw [hsl]
      have her : isErased s.pol (List.replicate s.free (UInt8.ofNat s.pol)) = true := by
        simp only [isErased, List.all_replicate]
        rcases hwf.pol with h | h <;> rw [h] <;> simp
      simp only [newNVar, her, if_true]
      simp [expectStore, table]
  | cons e post ih =>
    obtain ⟨f, rfl⟩ : ∃ f, fuel = f + 1 := ⟨fuel - 1, by simp at hfuel; omega⟩
    have hmem : e ∈ s.entries := by rw [hE]; simp
    have hok := hwf.ok e hmem
    have hallok : ∀ e' ∈ pre, e'.ok s.guids.length = true := fun e' he' => hwf.ok e' (by rw [hE]; simp [he'])
    have hk : maxIdx pre ≤ s.guids.length := maxIdx_le _ _ hallok
    have hEl : entriesLen s.entries = entriesLen pre + e.size + entriesLen post := by
      rw [hE]; simp [entriesLen]; omega
    have hlt : entriesLen pre < s.ser.length - 16 * maxIdx pre := by
      have := entry_size_ge e; omega
    unfold walk
    simp only [hlt, if_true]
    -- the window starts with the entry
    have hwin : ∃ tail, slice s.ser (entriesLen pre) (s.ser.length - 16 * maxIdx pre - entriesLen pre)
        = e.ser s.pol ++ tail := by
      have hs : s.ser = pre.flatMap (Entry.ser s.pol)
          ++ (e.ser s.pol ++ (post.flatMap (Entry.ser s.pol) ++ List.replicate s.free (UInt8.ofNat s.pol)
              ++ s.guids.reverse.flatten)) := by
        unfold NvStore.ser; rw [hE]; simp
      refine ⟨(post.flatMap (Entry.ser s.pol) ++ List.replicate s.free (UInt8.ofNat s.pol)
              ++ s.guids.reverse.flatten).take
                (s.ser.length - 16 * maxIdx pre - entriesLen pre - (e.ser s.pol).length), ?_⟩
      have hge : (e.ser s.pol).length ≤ s.ser.length - 16 * maxIdx pre - entriesLen pre := by
        rw [Entry.ser_length]; omega
      generalize s.ser.length - 16 * maxIdx pre - entriesLen pre = n at hge ⊢
      rw [hs]
      simp only [slice]
      rw [drop_append_len _ _ _ (entriesLen_ser _ _), take_append_ge _ _ _ hge]
    obtain ⟨tail, hwin⟩ := hwin
    rw [hwin]
    -- field ranges
    have hrange : e.size < 65536 ∧ e.nextField s.pol < 16777216 ∧ e.attrs < 256 := by
      cases e with
      | var f g n v x nx =>
        have hok' := hok
        simp only [Entry.ok, Bool.and_eq_true, decide_eq_true_eq] at hok'
        obtain ⟨hsz, ⟨⟨⟨⟨hf, _⟩, _⟩, _⟩, hnx⟩⟩ := hok'
        exact ⟨hsz, (lastFlag_cases s.pol hwf.pol nx hnx).2, (var_bits f g n v x nx hf).1⟩
      | data f v x nx =>
        have hok' := hok
        simp only [Entry.ok, Bool.and_eq_true, decide_eq_true_eq] at hok'
        obtain ⟨hsz, ⟨hf, _⟩, hnx⟩ := hok'
        exact ⟨hsz, (lastFlag_cases s.pol hwf.pol nx hnx).2, (data_bits f v x nx hf).1⟩
      | dead a nx b =>
        have hok' := hok
        simp only [Entry.ok, Bool.and_eq_true, decide_eq_true_eq] at hok'
        obtain ⟨hsz, ha, hnx⟩ := hok'
        exact ⟨hsz, by simpa [Entry.nextField] using hnx, by simp [Entry.attrs]; omega⟩
    rw [newNVar_ser s.pol hwf.pol _ _ _ _ e tail hrange.1 hrange.2.1 hrange.2.2]
    have hoff : 0 < entriesLen pre ∨ owners [] pre 0 = [] := by
      cases pre with
      | nil => right; rfl
      | cons a pre => left; have := entry_size_ge a; simp [entriesLen]; omega
    rw [parseBody_entry s.pol hwf.pol s.ser s.guids (maxIdx pre) (owners [] pre 0) (entriesLen pre) hk hwf.n255 hsb
      hat (owners_rowOk [] pre 0 (by simp)) hoff e hok]
    simp only []
    -- re-establish the invariant for pre ++ [e]
    have hib := idxBound_le _ e hok
    have e1 : entriesLen pre + (expectNVar s.pol s.guids ⟨entriesLen pre, e, headFor (owners [] pre 0) e (entriesLen pre)⟩).size
        = entriesLen (pre ++ [e]) := by
      have : (expectNVar s.pol s.guids ⟨entriesLen pre, e, headFor (owners [] pre 0) e (entriesLen pre)⟩).size = e.size := by
        cases e with
        | var f g n v x nx => rfl
        | data f v x nx => simp only [expectNVar]; split <;> rfl
        | dead a nx b => rfl
      rw [this]; simp [entriesLen]
    have e2 : max (maxIdx pre) (idxBound e) = maxIdx (pre ++ [e]) := by
      rw [maxIdx_append]; simp [maxIdx]
    have e3 : (s.guids.take (max (maxIdx pre) (idxBound e))).length = maxIdx (pre ++ [e]) := by
      rw [List.length_take, e2]
      have : maxIdx (pre ++ [e]) ≤ s.guids.length := by rw [← e2]; omega
      omega
    have e4 : (owners [] pre 0).map (expectNVar s.pol s.guids)
          ++ [expectNVar s.pol s.guids ⟨entriesLen pre, e, headFor (owners [] pre 0) e (entriesLen pre)⟩]
        = (owners [] (pre ++ [e]) 0).map (expectNVar s.pol s.guids) := by
      rw [owners_append, owners_single]; simp
    rw [e1, e3, e4, e2]
    -- the repaired overlap guard (fixes/C04-nvar-table-overlap.diff) never fires: entries, free space
    -- and GUID table partition the store
    have hng : ¬ (s.ser.length - 16 * maxIdx (pre ++ [e]) < entriesLen (pre ++ [e])) := by
      have h1 : maxIdx (pre ++ [e]) ≤ s.guids.length := by rw [← e2]; omega
      have h2 : entriesLen (pre ++ [e]) = entriesLen pre + e.size := by simp [entriesLen]
      omega
    rw [if_neg hng]
    exact ih (pre ++ [e]) (by rw [hE]; simp) f (by simp at hfuel ⊢; omega)

/-- parse ∘ ser on the reference grammar -/
theorem parseStore_ser_parts (s : NvStore) (hp : WFParts s) : parseStore s.pol s.ser = .ok (expectStore s) := by
  unfold parseStore
  have := walk_ser s hp s.entries [] (by simp) (s.ser.length + 1) (by
    have := ser_length s hp
    have : s.entries.length ≤ entriesLen s.entries := by
      generalize s.entries = es
      induction es with
      | nil => simp [entriesLen]
      | cons e es ih => have := entry_size_ge e; simp [entriesLen] at *; omega
    omega)
  simpa [entriesLen, maxIdx, owners] using this

theorem parseStore_ser (s : NvStore) (hwf : WF s) : parseStore s.pol s.ser = .ok (expectStore s) :=
  parseStore_ser_parts s (wf_parts s hwf)

end Fiano.Nvram
