/-
  Run-time support for the Go code translated by the translator kind `nvlistfn`
  (translator/specs_nvram_listfn.go → Gen/CodeNvram.lean): a `bytes.Reader` over a byte buffer, the
  three library calls the translated code makes on it, and slices of 16-byte GUIDs.  Hand-written,
  core Lean only.  Modelled standard library (trusted, as GoRt.lean of wp-t1x):

    bytes.NewReader(b)                    position 0
    r.Seek(off, io.SeekEnd)               new position len(b) + off; an error when that is negative
                                          (bytes.Reader.Seek: "negative position"); seeking behind the
                                          end is allowed
    binary.Read(r, LittleEndian, &g)      for a [16]byte: io.ReadFull of 16 bytes into a scratch buffer,
                                          then copied; fewer than 16 bytes left = an error (EOF /
                                          ErrUnexpectedEOF) and `g` is untouched
    make([]guid.GUID, n)                  panics for n < 0
    a[j] / &a[j]                          panics outside 0 ≤ j < len(a)

  `none` of `seekEnd` / `readGuid` is Go's `err != nil`; `none` of `mkGuids` / `getAt` / `setAt` is a
  run-time panic.
-/
namespace Fiano.GuidRt

/-- a `*bytes.Reader`: the buffer and the read position -/
abbrev Rd := List UInt8 × Int

def newReader (b : List UInt8) : Rd := (b, 0)

def seekEnd (r : Rd) (off : Int) : Option Rd :=
  if (r.1.length : Int) + off < 0 then none else some (r.1, (r.1.length : Int) + off)

def readGuid (r : Rd) : Option (List UInt8 × Rd) :=
  if r.2 < 0 then none
  else if r.2 + 16 ≤ (r.1.length : Int) then some ((r.1.drop r.2.toNat).take 16, (r.1, r.2 + 16))
  else none

def zeroGuid : List UInt8 := List.replicate 16 0

def mkGuids (n : Int) : Option (List (List UInt8)) :=
  if n < 0 then none else some (List.replicate n.toNat zeroGuid)

def getAt (l : List (List UInt8)) (i : Int) : Option (List UInt8) :=
  if i < 0 then none else l[i.toNat]?

def setAt (l : List (List UInt8)) (i : Int) (g : List UInt8) : Option (List (List UInt8)) :=
  if i < 0 ∨ (l.length : Int) ≤ i then none else some (l.set i.toNat g)

end Fiano.GuidRt
