/-
  C16 — `GetKeys` as a whole: the exact result, and noninterference of the whole key chain
  (entry level and image level), then `ValidateRTM` including its key chain.
-/
import FianoModel.Crypto.PsbChain

namespace Fiano.Crypto.Psb
open Fiano Fiano.Crypto

/-! ### the exact result of a successful `GetKeys` -/

theorem dbLoopAll_ok (fuel : Nat) (b : Bytes) (ks ks' : KeySet) (h : dbLoopAll fuel b ks = (ks', none)) :
    ks' = ks ++ (dbEntries fuel b).map (fun k => (KeyType.keyDB, k)) := by
  induction fuel generalizing b ks with
  | zero => unfold dbLoopAll at h; cases h
  | succ f ih =>
    unfold dbLoopAll at h
    unfold dbEntries
    by_cases h0 : b.length = 0
    · simp only [h0, if_true] at h ⊢
      cases h; simp
    · simp only [h0, if_false] at h ⊢
      cases hp : parseDBKey b with
      | error x => rw [hp] at h; cases h
      | ok kn =>
        obtain ⟨k, n⟩ := kn
        rw [hp] at h
        simp only at h ⊢
        cases ha : ks.addKey k .keyDB with
        | error x => rw [ha] at h; cases h
        | ok ks1 =>
          rw [ha] at h
          simp only at h
          obtain ⟨rfl, _⟩ := addKey_ok ha
          rw [ih _ _ h]
          simp

/-- the keys of a key set, in the order in which they were added -/
def KeySet.keys (ks : KeySet) : List Key := ks.map Prod.snd

/-- **`GetKeys`, the exact result**: a key set returned without error consists of the root key, all keys
    of the signed key database body in order, the ABL key, and — if there is an OEM entry — the OEM
    key; each with its type tag; the database is signed by the root key, the ABL token is certified by
    a key of root + database, the OEM token by a key of root + database + ABL. -/
theorem getKeys_shape (P : Prims) (r d a : Bytes) (o : Option Bytes) (ks : KeySet)
    (h : getKeys P r d a o = .ok ks) :
    ∃ root signed abl, newRootKey r = .ok root ∧ getSignedBlob P d [(.amdRoot, root)] = .ok signed ∧
      let base : KeySet := (.amdRoot, root) :: (dbKeysOf (signed.drop pspHeaderSize)).map (fun k => (KeyType.keyDB, k))
      newTokenKey P a base = .ok abl ∧
      match o with
      | none => ks = base ++ [(.abl, abl)]
      | some oe => ∃ oem, newTokenKey P oe (base ++ [(.abl, abl)]) = .ok oem ∧ ks = base ++ [(.abl, abl)] ++ [(.oem, oem)] := by
  unfold getKeys at h
  cases hdb : getKeysFromDatabase P r d with
  | error x => rw [hdb] at h; cases h
  | ok ks0 =>
    rw [hdb] at h
    simp only at h
    -- the database step
    have hbase : ∃ root signed, newRootKey r = .ok root ∧ getSignedBlob P d [(.amdRoot, root)] = .ok signed ∧
        ks0 = (.amdRoot, root) :: (dbKeysOf (signed.drop pspHeaderSize)).map (fun k => (KeyType.keyDB, k)) := by
      rw [← getKeysFromDatabaseAll_toExcept] at hdb
      unfold getKeysFromDatabaseAll at hdb
      cases hr : newRootKey r with
      | error x => rw [hr] at hdb; cases hdb
      | ok root =>
        rw [hr] at hdb
        simp only [newRootKey_addKey] at hdb
        cases hb : getSignedBlob P d [(.amdRoot, root)] with
        | error x => rw [hb] at hdb; cases hdb
        | ok signed =>
          rw [hb] at hdb
          simp only at hdb
          refine ⟨root, signed, rfl, hb, ?_⟩
          unfold parseKeyDatabaseAll at hdb
          unfold dbKeysOf
          split at hdb
          · cases hdb
          · rename_i hl
            simp only [hl, if_false]
            rcases hl2 : dbLoopAll ((signed.drop pspHeaderSize).length + 1) ((signed.drop pspHeaderSize).drop 80)
                [(.amdRoot, root)] with ⟨ks', _ | x⟩
            · rw [hl2] at hdb
              cases hdb
              rw [dbLoopAll_ok _ _ _ _ hl2]
              rfl
            · rw [hl2] at hdb; cases hdb
    obtain ⟨root, signed, hroot, hsigned, rfl⟩ := hbase
    cases ha : newTokenKey P a _ with
    | error x => rw [ha] at h; cases h
    | ok abl =>
      rw [ha] at h
      simp only at h
      refine ⟨root, signed, abl, hroot, hsigned, ha, ?_⟩
      cases hadd : KeySet.addKey _ abl .abl with
      | error x => rw [hadd] at h; cases h
      | ok ks1 =>
        rw [hadd] at h
        simp only at h
        obtain ⟨rfl, _⟩ := addKey_ok hadd
        cases o with
        | none => simp only at h ⊢; cases h; rfl
        | some oe =>
          simp only at h ⊢
          cases ho : newTokenKey P oe _ with
          | error x => rw [ho] at h; cases h
          | ok oem =>
            rw [ho] at h
            simp only at h
            obtain ⟨rfl, _⟩ := addKey_ok h
            exact ⟨oem, rfl, rfl⟩

/-! ### noninterference of the whole chain, entry level -/

/-- the positions of a root key entry that `NewRootKey` reads: the header and, when it parses, the
    bytes it consumes -/
def rootCovered (raw : Bytes) (i : Nat) : Prop :=
  i < 64 ∨ ∃ k n, parseKey raw = .ok (k, n) ∧ i < n

theorem newRootKey_agree {raw raw' : Bytes} (h : AgreeOn (rootCovered raw) raw raw') :
    newRootKey raw = newRootKey raw' := by
  have hp : parseKey raw = parseKey raw' :=
    parseKey_agree h (fun i hi => Or.inl hi) (fun k n hk i hi => Or.inr ⟨k, n, hk, hi⟩)
  unfold newRootKey
  rw [hp]

/-- what it means for two sets of entries to agree on everything `GetKeys` reads: the root entry on
    what the root key parser reads; the key database entry on header, signed data and signature as
    derived under the root key; the ABL token on what `NewTokenKey` reads under the key set after the
    database step; the OEM token likewise under the key set that includes the ABL key -/
structure KeysAgree (P : Prims) (r r' d d' a a' : Bytes) (o o' : Option Bytes) : Prop where
  root : AgreeOn (rootCovered r) r r'
  db : ∀ root, newRootKey r = .ok root → AgreeOn (blobCovered d [(.amdRoot, root)]) d d'
  abl : ∀ ks, getKeysFromDatabaseAll P r d = (ks, none) → AgreeOn (tokenCovered a ks) a a'
  oemSome : o.isSome = o'.isSome
  oem : ∀ x x' ks abl ks1, o = some x → o' = some x' → getKeysFromDatabaseAll P r d = (ks, none) →
    newTokenKey P a ks = .ok abl → ks.addKey abl .abl = .ok ks1 → AgreeOn (tokenCovered x ks1) x x'

theorem getKeysFromDatabaseAll_agree (P : Prims) {r r' d d' : Bytes} (hr : AgreeOn (rootCovered r) r r')
    (hd : ∀ root, newRootKey r = .ok root → AgreeOn (blobCovered d [(.amdRoot, root)]) d d') :
    getKeysFromDatabaseAll P r d = getKeysFromDatabaseAll P r' d' := by
  unfold getKeysFromDatabaseAll
  rw [← newRootKey_agree hr]
  cases hroot : newRootKey r with
  | error x => rfl
  | ok root =>
    simp only [newRootKey_addKey]
    rw [getSignedBlob_agree P d d' _ (hd root hroot)]

/-- **`GetKeys`, noninterference of the whole chain**: entries that agree on what each step reads
    (`KeysAgree`) give the same key set and the same error — byte for byte the same keys. -/
theorem getKeysAll_agree (P : Prims) {r r' d d' a a' : Bytes} {o o' : Option Bytes}
    (h : KeysAgree P r r' d d' a a' o o') : getKeysAll P r d a o = getKeysAll P r' d' a' o' := by
  unfold getKeysAll
  rw [← getKeysFromDatabaseAll_agree P h.root h.db]
  rcases hdb : getKeysFromDatabaseAll P r d with ⟨ks, _ | x⟩
  · simp only
    rw [← newTokenKey_agree P a a' ks (h.abl ks hdb)]
    cases ha : newTokenKey P a ks with
    | error x => rfl
    | ok abl =>
      simp only
      cases hadd : ks.addKey abl .abl with
      | error x => rfl
      | ok ks1 =>
        simp only
        cases o with
        | none =>
          cases o' with
          | none => rfl
          | some x' => have := h.oemSome; simp at this
        | some x =>
          cases o' with
          | none => have := h.oemSome; simp at this
          | some x' =>
            simp only
            rw [← newTokenKey_agree P x x' ks1 (h.oem x x' ks abl ks1 rfl rfl hdb ha hadd)]
  · rfl

theorem getKeys_agree (P : Prims) {r r' d d' a a' : Bytes} {o o' : Option Bytes}
    (h : KeysAgree P r r' d d' a a' o o') : getKeys P r d a o = getKeys P r' d' a' o' := by
  rw [← getKeysAll_toExcept, ← getKeysAll_toExcept, getKeysAll_agree P h]

/-! ### image level -/

theorem rangeBytes_some {img : Bytes} {off len : Nat} {data : Bytes} (h : rangeBytes img off len = some data) :
    data = slice img off len ∧ checkBoundaries off ((off + len) % 2 ^ 64) img.length = true := by
  unfold rangeBytes at h
  split at h
  · rename_i hb; cases h; exact ⟨rfl, hb⟩
  · cases h

theorem rangeBytes_len {img img' : Bytes} (hl : img.length = img'.length) (off len : Nat) :
    (rangeBytes img off len).isSome = (rangeBytes img' off len).isSome := by
  unfold rangeBytes
  rw [hl]
  split <;> rfl

/-- agreement of two images on `c` gives agreement of an entry `[off, off+len)` on `c'` whenever
    `c'` at `j` implies `c` at `off + j` -/
theorem slice_agreeOn {c c' : Nat → Prop} {img img' : Bytes} (h : AgreeOn c img img') (off len : Nat)
    (hc : ∀ j, j < len → c' j → c (off + j)) : AgreeOn c' (slice img off len) (slice img' off len) := by
  refine ⟨by rw [slice_length_le, slice_length_le, h.1], ?_⟩
  intro j hj
  simp only [slice, List.getElem?_take, List.getElem?_drop]
  split
  · rename_i hlt; exact h.2 (off + j) (hc j hlt hj)
  · rfl

/-- the positions of the image the key chain depends on -/
def keysCovered (P : Prims) (img : Bytes) (rootR dbR ablR : Nat × Nat) (oemR : Option (Nat × Nat)) (i : Nat) : Prop :=
  (rootR.1 ≤ i ∧ i < rootR.1 + rootR.2 ∧ rootCovered (slice img rootR.1 rootR.2) (i - rootR.1)) ∨
  (dbR.1 ≤ i ∧ i < dbR.1 + dbR.2 ∧ ∃ root, newRootKey (slice img rootR.1 rootR.2) = .ok root ∧
      blobCovered (slice img dbR.1 dbR.2) [(.amdRoot, root)] (i - dbR.1)) ∨
  (ablR.1 ≤ i ∧ i < ablR.1 + ablR.2 ∧ ∃ ks,
      getKeysFromDatabaseAll P (slice img rootR.1 rootR.2) (slice img dbR.1 dbR.2) = (ks, none) ∧
      tokenCovered (slice img ablR.1 ablR.2) ks (i - ablR.1)) ∨
  (∃ oR ks abl ks1, oemR = some oR ∧ oR.1 ≤ i ∧ i < oR.1 + oR.2 ∧
      getKeysFromDatabaseAll P (slice img rootR.1 rootR.2) (slice img dbR.1 dbR.2) = (ks, none) ∧
      newTokenKey P (slice img ablR.1 ablR.2) ks = .ok abl ∧ ks.addKey abl .abl = .ok ks1 ∧
      tokenCovered (slice img oR.1 oR.2) ks1 (i - oR.1))

theorem add_sub_self_left' (a j : Nat) : a + j - a = j := by omega

/-- **`GetKeys` on an image, noninterference**: two images of the same length that agree on the
    covered positions of the four entries give the same result. -/
theorem getKeysImg_agree (P : Prims) (img img' : Bytes) (rootR dbR ablR : Nat × Nat) (oemR : Option (Nat × Nat))
    (h : AgreeOn (keysCovered P img rootR dbR ablR oemR) img img') :
    getKeysImg P img rootR dbR ablR oemR = getKeysImg P img' rootR dbR ablR oemR := by
  have hR := rangeBytes_len h.1 rootR.1 rootR.2
  have hD := rangeBytes_len h.1 dbR.1 dbR.2
  have hA := rangeBytes_len h.1 ablR.1 ablR.2
  unfold getKeysImg
  cases h1 : rangeBytes img rootR.1 rootR.2 with
  | none =>
    cases h1' : rangeBytes img' rootR.1 rootR.2 with
    | none => rfl
    | some _ => rw [h1, h1'] at hR; cases hR
  | some r =>
    cases h1' : rangeBytes img' rootR.1 rootR.2 with
    | none => rw [h1, h1'] at hR; cases hR
    | some r' =>
      cases h2 : rangeBytes img dbR.1 dbR.2 with
      | none =>
        cases h2' : rangeBytes img' dbR.1 dbR.2 with
        | none => rfl
        | some _ => rw [h2, h2'] at hD; cases hD
      | some d =>
        cases h2' : rangeBytes img' dbR.1 dbR.2 with
        | none => rw [h2, h2'] at hD; cases hD
        | some d' =>
          cases h3 : rangeBytes img ablR.1 ablR.2 with
          | none =>
            cases h3' : rangeBytes img' ablR.1 ablR.2 with
            | none => rfl
            | some _ => rw [h3, h3'] at hA; cases hA
          | some a =>
            cases h3' : rangeBytes img' ablR.1 ablR.2 with
            | none => rw [h3, h3'] at hA; cases hA
            | some a' =>
              simp only
              obtain ⟨rfl, _⟩ := rangeBytes_some h1
              obtain ⟨rfl, _⟩ := rangeBytes_some h1'
              obtain ⟨rfl, _⟩ := rangeBytes_some h2
              obtain ⟨rfl, _⟩ := rangeBytes_some h2'
              obtain ⟨rfl, _⟩ := rangeBytes_some h3
              obtain ⟨rfl, _⟩ := rangeBytes_some h3'
              have gR : AgreeOn (rootCovered (slice img rootR.1 rootR.2)) (slice img rootR.1 rootR.2)
                  (slice img' rootR.1 rootR.2) :=
                slice_agreeOn h _ _ (fun j hj hc => Or.inl ⟨by omega, by omega, by rw [add_sub_self_left']; exact hc⟩)
              have gD : ∀ root, newRootKey (slice img rootR.1 rootR.2) = .ok root →
                  AgreeOn (blobCovered (slice img dbR.1 dbR.2) [(.amdRoot, root)]) (slice img dbR.1 dbR.2)
                    (slice img' dbR.1 dbR.2) := fun root hroot =>
                slice_agreeOn h _ _ (fun j hj hc => Or.inr (Or.inl ⟨by omega, by omega, root, hroot,
                  by rw [add_sub_self_left']; exact hc⟩))
              have gA : ∀ ks, getKeysFromDatabaseAll P (slice img rootR.1 rootR.2) (slice img dbR.1 dbR.2) = (ks, none) →
                  AgreeOn (tokenCovered (slice img ablR.1 ablR.2) ks) (slice img ablR.1 ablR.2)
                    (slice img' ablR.1 ablR.2) := fun ks hks =>
                slice_agreeOn h _ _ (fun j hj hc => Or.inr (Or.inr (Or.inl ⟨by omega, by omega, ks, hks,
                  by rw [add_sub_self_left']; exact hc⟩)))
              cases oemR with
              | none =>
                simp only
                exact getKeys_agree P ⟨gR, gD, gA, rfl, fun x x' _ _ _ hx => by cases hx⟩
              | some oR =>
                simp only
                have hO := rangeBytes_len h.1 oR.1 oR.2
                cases h4 : rangeBytes img oR.1 oR.2 with
                | none =>
                  cases h4' : rangeBytes img' oR.1 oR.2 with
                  | none => rfl
                  | some _ => rw [h4, h4'] at hO; cases hO
                | some ob =>
                  cases h4' : rangeBytes img' oR.1 oR.2 with
                  | none => rw [h4, h4'] at hO; cases hO
                  | some ob' =>
                    simp only
                    obtain ⟨rfl, _⟩ := rangeBytes_some h4
                    obtain ⟨rfl, _⟩ := rangeBytes_some h4'
                    refine getKeys_agree P ⟨gR, gD, gA, rfl, ?_⟩
                    intro x x' ks abl ks1 hx hx' hks ha hadd
                    cases hx; cases hx'
                    exact slice_agreeOn h _ _ (fun j hj hc => Or.inr (Or.inr (Or.inr ⟨oR, ks, abl, ks1, rfl,
                      by omega, by omega, hks, ha, hadd, by rw [add_sub_self_left']; exact hc⟩)))

/-! ### `ValidateRTM` including its key chain -/

/-- **the RTM verdict of a firmware image, noninterference including the key chain**: two images of
    the same length that agree on the covered positions of the key chain entries, on the RTM volume,
    on the concatenated directories and on the signature entry get the same outcome (error, invalid
    or valid). -/
theorem validateRTMFull_agree (P : Prims) (img img' : Bytes) (level : Nat) (rootR dbR ablR : Nat × Nat)
    (oemR : Option (Nat × Nat)) (rtm sig dir1 dirL : Nat × Nat)
    (h : AgreeOn (fun i => keysCovered P img rootR dbR ablR oemR i ∨ rtmCovered level rtm sig dir1 dirL i) img img') :
    (validateRTMFull P img level rootR dbR ablR oemR rtm sig dir1 dirL).map Prod.fst =
    (validateRTMFull P img' level rootR dbR ablR oemR rtm sig dir1 dirL).map Prod.fst := by
  unfold validateRTMFull
  rw [← getKeysImg_agree P img img' rootR dbR ablR oemR (h.mono (fun i hi => Or.inl hi))]
  cases getKeysImg P img rootR dbR ablR oemR with
  | error x => rfl
  | ok ks =>
    simp only
    cases psbSignBIOSKey ks with
    | error x => rfl
    | ok oem => exact validateRTM_agree P img img' level rtm sig dir1 dirL oem (h.mono (fun i hi => Or.inr hi))

/-- … and a valid verdict of the whole routine is: the OEM key is trusted (chain of verified
    signatures up to the root), is the only OEM key, has usage PSBSignBIOS, and accepts the reversed
    signature entry over volume ‖ [level-1 directory] ‖ directory. -/
theorem validateRTMFull_ok (P : Prims) (img : Bytes) (level : Nat) (rootR dbR ablR : Nat × Nat)
    (oemR : Option (Nat × Nat)) (rtm sig dir1 dirL : Nat × Nat) (img' : Bytes)
    (h : validateRTMFull P img level rootR dbR ablR oemR rtm sig dir1 dirL = some (.ok (), img')) :
    ∃ root oem oR, oemR = some oR ∧ newRootKey (slice img rootR.1 rootR.2) = .ok root ∧
      Trusted P root (slice img dbR.1 dbR.2) [slice img ablR.1 ablR.2, slice img oR.1 oR.2] oem ∧
      oem.usage = usagePSBSignBIOS ∧
      newSignedBlob P (slice img sig.1 sig.2).reverse (rtmSigned img level rtm dir1 dirL) oem = .ok () ∧ img' = img := by
  unfold validateRTMFull at h
  cases hk : getKeysImg P img rootR dbR ablR oemR with
  | error x => rw [hk] at h; cases h
  | ok ks =>
    rw [hk] at h
    simp only at h
    cases ho : psbSignBIOSKey ks with
    | error x => rw [ho] at h; cases h
    | ok oem =>
      rw [ho] at h
      simp only at h
      obtain ⟨hv, himg⟩ := validateRTM_some P img level rtm sig dir1 dirL oem _ _ h
      -- the OEM key is a member of the key set, with type oem and the right usage
      have hmem : (KeyType.oem, oem) ∈ ks ∧ oem.usage = usagePSBSignBIOS := by
        unfold psbSignBIOSKey at ho
        split at ho
        · rename_i t k hf
          split at ho
          · cases ho
          · rename_i hu
            cases ho
            have : (t, oem) ∈ ks.filter (fun e => e.1 == .oem) := by rw [hf]; exact List.mem_singleton.mpr rfl
            obtain ⟨h1, h2⟩ := List.mem_filter.mp this
            have ht : t = .oem := by simpa using h2
            subst ht
            exact ⟨h1, by simpa using hu⟩
        · cases ho
      -- unfold the image-level GetKeys
      unfold getKeysImg at hk
      cases h1 : rangeBytes img rootR.1 rootR.2 with
      | none => rw [h1] at hk; cases hk
      | some r =>
        cases h2 : rangeBytes img dbR.1 dbR.2 with
        | none => rw [h1, h2] at hk; cases hk
        | some d =>
          cases h3 : rangeBytes img ablR.1 ablR.2 with
          | none => rw [h1, h2, h3] at hk; cases hk
          | some a =>
            rw [h1, h2, h3] at hk
            simp only at hk
            obtain ⟨rfl, _⟩ := rangeBytes_some h1
            obtain ⟨rfl, _⟩ := rangeBytes_some h2
            obtain ⟨rfl, _⟩ := rangeBytes_some h3
            cases oemR with
            | none =>
              -- without an OEM entry there is no key of type oem
              exfalso
              simp only at hk
              obtain ⟨root, signed, abl, _, _, _, hks⟩ := getKeys_shape P _ _ _ none ks hk
              simp only at hks
              rw [hks] at hmem
              have := hmem.1
              simp at this
            | some oR =>
              simp only at hk
              cases h4 : rangeBytes img oR.1 oR.2 with
              | none => rw [h4] at hk; cases hk
              | some ob =>
                rw [h4] at hk
                simp only at hk
                obtain ⟨rfl, _⟩ := rangeBytes_some h4
                obtain ⟨root, hroot, hT⟩ := getKeys_trusted P _ _ _ _ ks hk
                exact ⟨root, oem, oR, rfl, hroot, hT _ hmem.1, hmem.2, hv.symm, himg⟩

end Fiano.Crypto.Psb
