/-
  C16 — lemmas about the psb model.
-/
import FianoModel.Crypto.Lemmas

namespace Fiano.Crypto.Psb
open Fiano Fiano.Crypto

/-! ### key decode -/

theorem keyGet_ok_iff (k : Key) (pk : RSAPub) :
    keyGet k = .ok pk ↔ k.exponent.length ≠ 0 ∧ k.modulus.length ≠ 0 ∧ fromLE k.exponent < 2 ^ 31 ∧
      pk = { n := fromLE k.modulus, e := fromLE k.exponent } := by
  unfold keyGet checkValid
  by_cases h1 : k.exponent.length = 0
  · simp [h1]
  by_cases h2 : k.modulus.length = 0
  · simp [h1, h2]
  by_cases h3 : fromLE k.exponent < 2 ^ 31
  · have : ¬ fromLE k.exponent ≥ 2 ^ 31 := by omega
    simp [h1, h2, h3, this, eq_comm]
  · have : fromLE k.exponent ≥ 2 ^ 31 := by omega
    simp [h1, h2, h3, this]

/-- at fixed field lengths, different exponent / modulus bytes give a different RSA key -/
theorem keyGet_inj (k k' : Key) (pk : RSAPub) (he : k.exponent.length = k'.exponent.length)
    (hm : k.modulus.length = k'.modulus.length) (h : keyGet k = .ok pk) (h' : keyGet k' = .ok pk) :
    k.exponent = k'.exponent ∧ k.modulus = k'.modulus := by
  obtain ⟨_, _, _, rfl⟩ := (keyGet_ok_iff k pk).mp h
  obtain ⟨_, _, _, e⟩ := (keyGet_ok_iff k' _).mp h'
  have hn : fromLE k.modulus = fromLE k'.modulus := congrArg RSAPub.n e
  have hx : fromLE k.exponent = fromLE k'.exponent := congrArg RSAPub.e e
  exact ⟨fromLE_inj he hx, fromLE_inj hm hn⟩

/-! ### NewSignedBlob -/

theorem newSignedBlob_ok_iff (P : Prims) (sig data : Bytes) (key : Key) :
    newSignedBlob P sig data key = .ok () ↔
      ∃ pk, keyGet key = .ok pk ∧
        ((modBytes pk.n = 512 ∧ P.rsaVerify .pss algSHA384 pk (P.hash algSHA384 data) sig = true) ∨
         (modBytes pk.n = 256 ∧ P.rsaVerify .pss algSHA256 pk (P.hash algSHA256 data) sig = true)) := by
  unfold newSignedBlob
  cases hk : keyGet key with
  | error e => simp
  | ok pk =>
    simp only [Except.ok.injEq, exists_eq_left']
    by_cases h1 : modBytes pk.n = 512
    · have h2 : ¬ modBytes pk.n = 256 := by omega
      cases hv : P.rsaVerify .pss algSHA384 pk (P.hash algSHA384 data) sig <;> simp [h1, hv]
    · by_cases h2 : modBytes pk.n = 256
      · cases hv : P.rsaVerify .pss algSHA256 pk (P.hash algSHA256 data) sig <;> simp [h2, hv]
      · simp [h1, h2]

/-! ### PSP binaries: the derived ranges are well formed -/

theorem checkBoundaries_iff (a b l : Nat) : checkBoundaries a b l = true ↔ a ≤ l ∧ b ≤ l ∧ a ≤ b := by
  simp [checkBoundaries, and_assoc]

theorem rangesOf_wf (key : Key) (ssi si len : Nat) (r : BlobRanges) (hsi32 : si < 2 ^ 32)
    (hr : rangesOf key ssi si len = .ok r) :
    r.key = key ∧ r.sigLen = key.modSize / 8 ∧ r.signedEnd = ssi ∧
    pspHeaderSize < r.signedEnd ∧ r.signedEnd ≤ len ∧ r.sigStart + r.sigLen ≤ len := by
  unfold rangesOf at hr
  split at hr
  · cases hr
  rename_i hsi
  split at hr
  · cases hr
  rename_i hb1
  split at hr
  · cases hr
  rename_i hb2
  split at hr
  · cases hr
  rename_i hhs
  cases hr
  have hb1' := (checkBoundaries_iff _ _ _).mp (by simpa using hb1)
  have hb2' := (checkBoundaries_iff _ _ _).mp (by simpa using hb2)
  have hmod : (si - key.modSize / 8 + key.modSize / 8) % 2 ^ 32 = si := by
    have : si - key.modSize / 8 + key.modSize / 8 = si := by omega
    rw [this]; exact Nat.mod_eq_of_lt hsi32
  rw [hmod] at hb1'
  simp only [hmod]
  refine ⟨trivial, by omega, trivial, by omega, by omega, by omega⟩

theorem blobSizes_lt (h : Header) (sz : Nat) (hWT : h.sizeImage < 2 ^ 32) (ssi si : Nat)
    (hs : blobSizes h sz = .ok (ssi, si)) : si < 2 ^ 32 := by
  unfold blobSizes at hs
  split at hs
  · split at hs
    · cases hs
    · cases hs; exact hWT
  · cases hs; exact Nat.mod_lt _ (by decide)

theorem blobRanges_wf (h : Header) (ks : KeySet) (len : Nat) (r : BlobRanges) (hWT : h.sizeImage < 2 ^ 32)
    (hr : blobRanges h ks len = .ok r) :
    ks.getKey h.sigParams = some r.key ∧ r.key.modSize = r.key.expSize ∧ r.sigLen = r.key.modSize / 8 ∧
    pspHeaderSize < r.signedEnd ∧ r.signedEnd ≤ len ∧ r.sigStart + r.sigLen ≤ len := by
  unfold blobRanges at hr
  split at hr
  · cases hr
  split at hr
  · cases hr
  split at hr
  · cases hr
  rename_i key hkey
  split at hr
  · cases hr
  rename_i hme
  split at hr
  · cases hr
  rename_i ssi si hres
  obtain ⟨rfl, h2, _, h4, h5, h6⟩ := rangesOf_wf key ssi si len r (blobSizes_lt h _ hWT ssi si hres) hr
  exact ⟨hkey, by simpa using hme, h2, h4, h5, h6⟩


/-- the positions `getSignedBlob` reads: the header, and — when the ranges can be derived — the
    signed data and the signature -/
def blobCovered (raw : Bytes) (ks : KeySet) (i : Nat) : Prop :=
  i < pspHeaderDataSize ∨
  ∃ h r, parseHeader raw = some h ∧ blobRanges h ks raw.length = .ok r ∧
    (i < r.signedEnd ∨ (r.sigStart ≤ i ∧ i < r.sigStart + r.sigLen))

theorem parseHeader_agree {c : Nat → Prop} {raw raw' : Bytes} (h : AgreeOn c raw raw')
    (hc : ∀ i, i < pspHeaderDataSize → c i) : parseHeader raw = parseHeader raw' := by
  unfold parseHeader
  rw [← h.1, slice_agree h 0 pspHeaderDataSize (fun i _ hi => hc i (by omega))]

theorem getSignedBlob_agree (P : Prims) (raw raw' : Bytes) (ks : KeySet)
    (h : AgreeOn (blobCovered raw ks) raw raw') : getSignedBlob P raw ks = getSignedBlob P raw' ks := by
  have hp := parseHeader_agree h (fun i hi => Or.inl hi)
  unfold getSignedBlob
  rw [← hp, ← h.1]
  cases hh : parseHeader raw with
  | none => rfl
  | some hd =>
    simp only
    cases hr : blobRanges hd ks raw.length with
    | error e => rfl
    | ok r =>
      simp only
      have h1 : slice raw r.sigStart r.sigLen = slice raw' r.sigStart r.sigLen :=
        slice_agree h _ _ (fun i a b => Or.inr ⟨hd, r, hh, hr, Or.inr ⟨a, b⟩⟩)
      have h2 : slice raw 0 r.signedEnd = slice raw' 0 r.signedEnd :=
        slice_agree h _ _ (fun i _ b => Or.inr ⟨hd, r, hh, hr, Or.inl (by omega)⟩)
      rw [h1, h2]

/-- `ValidatePSPEntry`: positions of the image that are read -/
def entryCovered (img : Bytes) (ks : KeySet) (off len : Nat) (i : Nat) : Prop :=
  ∃ data, rangeBytes img off len = some data ∧ off ≤ i ∧ blobCovered data ks (i - off)

theorem slice_length_le (b : Bytes) (o l : Nat) : (slice b o l).length = min l (b.length - o) := by
  simp [slice]

theorem validatePSPEntry_agree (P : Prims) (img img' : Bytes) (ks : KeySet) (off len : Nat)
    (h : AgreeOn (entryCovered img ks off len) img img') :
    validatePSPEntry P img ks off len = validatePSPEntry P img' ks off len := by
  unfold validatePSPEntry rangeBytes
  rw [← h.1]
  by_cases hb : checkBoundaries off ((off + len) % 2 ^ 64) img.length = true
  · simp only [hb, if_true]
    have hb' := (checkBoundaries_iff _ _ _).mp hb
    have hrb : rangeBytes img off len = some (slice img off len) := by simp [rangeBytes, hb]
    have hag : AgreeOn (blobCovered (slice img off len) ks) (slice img off len) (slice img' off len) := by
      refine ⟨by rw [slice_length_le, slice_length_le, h.1], ?_⟩
      intro i hi
      simp only [slice, List.getElem?_take, List.getElem?_drop]
      split
      · exact h.2 (off + i) ⟨_, hrb, by omega, by simpa using hi⟩
      · rfl
    have hl : (slice img' off len).length = (slice img off len).length := hag.1.symm
    rw [hl, getSignedBlob_agree P _ _ ks hag]
  · simp [hb]

theorem keyAt_agree {c : Nat → Prop} {a b : Bytes} (h : AgreeOn c a b) (e m : Nat)
    (hc : ∀ i, i < 64 + e / 8 + m / 8 → c i) : keyAt a e m = keyAt b e m := by
  unfold keyAt
  rw [slice_agree h 0 4 (fun i _ hi => hc i (by omega)), slice_agree h 4 16 (fun i _ hi => hc i (by omega)),
    slice_agree h 20 16 (fun i _ hi => hc i (by omega)), slice_agree h 36 4 (fun i _ hi => hc i (by omega)),
    slice_agree h 40 16 (fun i _ hi => hc i (by omega)), slice_agree h 64 (e / 8) (fun i _ hi => hc i (by omega)),
    slice_agree h (64 + e / 8) (m / 8) (fun i _ hi => hc i (by omega))]

/-- `parseKey` reads the 64-byte header and, when it succeeds, exactly the bytes it consumes -/
theorem parseKey_agree {c : Nat → Prop} {a b : Bytes} (h : AgreeOn c a b) (h64 : ∀ i, i < 64 → c i)
    (hn : ∀ k n, parseKey a = .ok (k, n) → ∀ i, i < n → c i) : parseKey a = parseKey b := by
  have h56 : slice a 56 4 = slice b 56 4 := slice_agree h 56 4 (fun i _ hi => h64 i (by omega))
  have h60 : slice a 60 4 = slice b 60 4 := slice_agree h 60 4 (fun i _ hi => h64 i (by omega))
  have hb : parseKey b = (if a.length < 64 then .error .format
      else if fromLE (slice a 56 4) % 8 ≠ 0 ∨ fromLE (slice a 60 4) % 8 ≠ 0 ∨
          a.length < 64 + fromLE (slice a 56 4) / 8 + fromLE (slice a 60 4) / 8 then .error .format
      else .ok (keyAt b (fromLE (slice a 56 4)) (fromLE (slice a 60 4)),
                64 + fromLE (slice a 56 4) / 8 + fromLE (slice a 60 4) / 8)) := by
    unfold parseKey; rw [h.1, h56, h60]
  rw [hb]
  by_cases c1 : a.length < 64
  · simp [parseKey, c1]
  by_cases c2 : fromLE (slice a 56 4) % 8 ≠ 0 ∨ fromLE (slice a 60 4) % 8 ≠ 0 ∨
          a.length < 64 + fromLE (slice a 56 4) / 8 + fromLE (slice a 60 4) / 8
  · simp only [parseKey, c1, c2, if_false, if_true]
  · have ha : parseKey a = .ok (keyAt a (fromLE (slice a 56 4)) (fromLE (slice a 60 4)),
                64 + fromLE (slice a 56 4) / 8 + fromLE (slice a 60 4) / 8) := by
      simp only [parseKey, c1, c2, if_false]
    rw [ha]
    simp only [c1, c2, if_false]
    rw [keyAt_agree h _ _ (hn _ _ ha)]

/-- the positions `NewTokenKey` reads: the header, the key material (= the signed prefix) and the
    signature that follows it -/
def tokenCovered (raw : Bytes) (ks : KeySet) (i : Nat) : Prop :=
  i < 64 ∨ ∃ k n, parseKey raw = .ok (k, n) ∧
    (i < n ∨ ∃ sk, ks.getKey k.certID = some sk ∧ i < n + sk.modulus.length)

theorem newTokenKey_agree (P : Prims) (raw raw' : Bytes) (ks : KeySet)
    (h : AgreeOn (tokenCovered raw ks) raw raw') : newTokenKey P raw ks = newTokenKey P raw' ks := by
  have hp : parseKey raw = parseKey raw' :=
    parseKey_agree h (fun i hi => Or.inl hi) (fun k n hk i hi => Or.inr ⟨k, n, hk, Or.inl hi⟩)
  unfold newTokenKey
  rw [← hp, ← h.1]
  cases hk : parseKey raw with
  | error e => rfl
  | ok kn =>
    obtain ⟨k, n⟩ := kn
    simp only
    cases hs : ks.getKey k.certID with
    | none => rfl
    | some sk =>
      simp only
      have h1 : slice raw n sk.modulus.length = slice raw' n sk.modulus.length :=
        slice_agree h _ _ (fun i _ b => Or.inr ⟨k, n, hk, Or.inr ⟨sk, hs, b⟩⟩)
      have h2 : raw.take n = raw'.take n :=
        take_agree h _ (fun i b => Or.inr ⟨k, n, hk, Or.inl b⟩)
      rw [h1, h2]

/-- `NewTokenKey` accepts exactly the tokens whose certifying key is in the set and whose
    signature (stored reversed behind the key material) that key accepts over the key material -/
theorem newTokenKey_ok_iff (P : Prims) (raw : Bytes) (ks : KeySet) (k : Key) :
    newTokenKey P raw ks = .ok k ↔
      ∃ n sk, parseKey raw = .ok (k, n) ∧ ks.getKey k.certID = some sk ∧ checkValid sk = true ∧
        n + sk.modulus.length ≤ raw.length ∧
        newSignedBlob P (slice raw n sk.modulus.length).reverse (raw.take n) sk = .ok () := by
  unfold newTokenKey
  cases hk : parseKey raw with
  | error e => simp
  | ok kn =>
    obtain ⟨k0, n⟩ := kn
    simp only
    cases hs : ks.getKey k0.certID with
    | none =>
      simp only
      constructor
      · intro h; cases h
      · rintro ⟨n', sk, h1, h2, _⟩
        cases h1
        rw [hs] at h2; cases h2
    | some sk =>
      simp only
      cases hv : checkValid sk
      · simp only [Bool.not_false, if_true]
        constructor
        · intro h; cases h
        · rintro ⟨n', sk', h1, h2, h3, _⟩
          cases h1
          rw [hs] at h2; cases h2
          rw [hv] at h3; cases h3
      · simp only [Bool.not_true, Bool.false_eq_true, if_false]
        by_cases hl : raw.length < n + sk.modulus.length
        · simp only [hl, if_true]
          constructor
          · intro h; cases h
          · rintro ⟨n', sk', h1, h2, _, h4, _⟩
            cases h1
            rw [hs] at h2; cases h2
            omega
        · simp only [hl, if_false]
          cases hb : newSignedBlob P (slice raw n sk.modulus.length).reverse (raw.take n) sk with
          | error e =>
            simp only
            constructor
            · intro h; cases h
            · rintro ⟨n', sk', h1, h2, _, _, h5⟩
              cases h1
              rw [hs] at h2; cases h2
              rw [hb] at h5; cases h5
          | ok u =>
            simp only
            constructor
            · intro h
              cases h
              exact ⟨n, sk, rfl, hs, hv, by omega, hb⟩
            · rintro ⟨n', sk', h1, _⟩
              cases h1; rfl

theorem slice_take (b : Bytes) (n o l : Nat) (h : o + l ≤ n) : slice (b.take n) o l = slice b o l := by
  apply List.ext_getElem?
  intro i
  simp only [slice, List.getElem?_take, List.getElem?_drop]
  split
  · rw [if_pos (by omega)]
  · rfl

/-- the key an accepted token yields is a function of the signed prefix `raw[:n]` alone -/
theorem parseKey_take (raw : Bytes) (k : Key) (n : Nat) (hk : parseKey raw = .ok (k, n)) :
    parseKey (raw.take n) = .ok (k, n) := by
  unfold parseKey at hk ⊢
  split at hk
  · cases hk
  rename_i c1
  split at hk
  · cases hk
  rename_i c2
  cases hk
  have hl : (raw.take (64 + fromLE (slice raw 56 4) / 8 + fromLE (slice raw 60 4) / 8)).length
      = 64 + fromLE (slice raw 56 4) / 8 + fromLE (slice raw 60 4) / 8 := by
    simp only [List.length_take]; omega
  rw [hl, slice_take _ _ 56 4 (by omega), slice_take _ _ 60 4 (by omega)]
  rw [if_neg (by omega), if_neg (by omega)]
  unfold keyAt
  rw [slice_take _ _ 0 4 (by omega), slice_take _ _ 4 16 (by omega), slice_take _ _ 20 16 (by omega),
    slice_take _ _ 36 4 (by omega), slice_take _ _ 40 16 (by omega), slice_take _ _ 64 _ (by omega),
    slice_take _ _ (64 + fromLE (slice raw 56 4) / 8) _ (by omega)]

theorem parseDBKey_consumed (b : Bytes) (k : Key) (n : Nat) (h : parseDBKey b = .ok (k, n)) :
    80 ≤ n ∧ n ≤ b.length := by
  unfold parseDBKey at h
  split at h
  · cases h
  simp only at h
  split at h
  · cases h
  split at h
  · cases h
  split at h
  · cases h
  split at h
  · cases h
  split at h
  · cases h
  split at h
  · cases h
  split at h
  · cases h
  cases h
  omega

/-- the fuel of the key-database loop is never exhausted: any fuel above the length of the rest
    gives the same result (every accepted entry consumes at least 80 bytes) -/
theorem dbLoop_fuel (fuel : Nat) (b : Bytes) (ks : KeySet) (h : b.length < fuel) :
    dbLoop fuel b ks = dbLoop (b.length + 1) b ks := by
  induction fuel using Nat.strongRecOn generalizing b ks with
  | _ fuel ih =>
    cases fuel with
    | zero => omega
    | succ f =>
      unfold dbLoop
      by_cases h0 : b.length = 0
      · simp [h0]
      · simp only [h0, if_false]
        cases hp : parseDBKey b with
        | error e => rfl
        | ok kn =>
          obtain ⟨k, n⟩ := kn
          simp only
          cases ha : ks.addKey k .keyDB with
          | error e => rfl
          | ok ks' =>
            simp only
            obtain ⟨h1, h2⟩ := parseDBKey_consumed b k n hp
            have hl : (b.drop n).length = b.length - n := by simp
            rw [ih f (by omega) (b.drop n) ks' (by omega), ih b.length (by omega) (b.drop n) ks' (by omega)]

theorem parseKeyDatabase_never_out_of_fuel (db : Bytes) (ks : KeySet) (fuel : Nat) (h : db.length < fuel) :
    parseKeyDatabase db ks = if db.length < 80 then .error .format else dbLoop fuel (db.drop 80) ks := by
  unfold parseKeyDatabase
  split
  · rfl
  · rw [dbLoop_fuel (db.length + 1) _ _ (by simp; omega), dbLoop_fuel fuel _ _ (by simp; omega)]


/-! ### ValidateRTM (repaired: the volume is copied before the directories are appended) -/

theorem validateRTM_none_iff (P : Prims) (img : Bytes) (level : Nat) (rtm sig dir1 dirL : Nat × Nat) (oem : Key) :
    validateRTM P img level rtm sig dir1 dirL oem = none ↔ rtmBounds img.length level rtm sig dir1 dirL = false := by
  unfold validateRTM
  split
  · rename_i h; simp [h]
  · rename_i h; simp [h]

/-- the verdict is `NewSignedBlob` over exactly volume ‖ [level-1 directory] ‖ directory with the
    (reversed) signature entry, and the image is left as it was -/
theorem validateRTM_some (P : Prims) (img : Bytes) (level : Nat) (rtm sig dir1 dirL : Nat × Nat) (oem : Key)
    (v : Except Err Unit) (img' : Bytes) (h : validateRTM P img level rtm sig dir1 dirL oem = some (v, img')) :
    v = newSignedBlob P (slice img sig.1 sig.2).reverse (rtmSigned img level rtm dir1 dirL) oem ∧ img' = img := by
  unfold validateRTM at h
  split at h
  · cases h
  · cases h; exact ⟨rfl, rfl⟩

/-- the positions the verdict of `ValidateRTM` depends on -/
def rtmCovered (level : Nat) (rtm sig dir1 dirL : Nat × Nat) (i : Nat) : Prop :=
  (rtm.1 ≤ i ∧ i < rtm.1 + rtm.2) ∨ (sig.1 ≤ i ∧ i < sig.1 + sig.2) ∨ (dirL.1 ≤ i ∧ i < dirL.1 + dirL.2) ∨
  (level = 2 ∧ dir1.1 ≤ i ∧ i < dir1.1 + dir1.2)

theorem rtmSigned_agree {level : Nat} {rtm sig dir1 dirL : Nat × Nat} {img img' : Bytes}
    (h : AgreeOn (rtmCovered level rtm sig dir1 dirL) img img') :
    rtmSigned img level rtm dir1 dirL = rtmSigned img' level rtm dir1 dirL := by
  unfold rtmSigned
  rw [slice_agree h rtm.1 rtm.2 (fun i a b => Or.inl ⟨a, b⟩),
    slice_agree h dirL.1 dirL.2 (fun i a b => Or.inr (Or.inr (Or.inl ⟨a, b⟩)))]
  by_cases hl : level = 2
  · simp only [hl, if_true]
    rw [slice_agree h dir1.1 dir1.2 (fun i a b => Or.inr (Or.inr (Or.inr ⟨hl, a, b⟩)))]
  · simp only [hl, if_false]

theorem validateRTM_agree (P : Prims) (img img' : Bytes) (level : Nat) (rtm sig dir1 dirL : Nat × Nat) (oem : Key)
    (h : AgreeOn (rtmCovered level rtm sig dir1 dirL) img img') :
    (validateRTM P img level rtm sig dir1 dirL oem).map Prod.fst =
    (validateRTM P img' level rtm sig dir1 dirL oem).map Prod.fst := by
  have hs := rtmSigned_agree h
  have hg : slice img sig.1 sig.2 = slice img' sig.1 sig.2 :=
    slice_agree h sig.1 sig.2 (fun i a b => Or.inr (Or.inl ⟨a, b⟩))
  unfold validateRTM
  rw [← h.1, hs, hg]
  split <;> rfl

/-- a slice that lies inside `img` is not changed by bytes appended to `img` -/
theorem slice_append_of_le (img pad : Bytes) (o l : Nat) (h : o + l ≤ img.length) :
    slice (img ++ pad) o l = slice img o l := by
  apply List.ext_getElem?
  intro i
  simp only [slice, List.getElem?_take, List.getElem?_drop]
  split
  · rw [List.getElem?_append_left (by omega)]
  · rfl

/-- offsets and sizes are uint64 values in the Go code -/
def Fits64 (r : Nat × Nat) : Prop := r.1 < 2 ^ 64 ∧ r.2 < 2 ^ 64

/-- for uint64 operands the wrapped check `checkBoundaries(start, start + length, blob)` accepts
    exactly the ranges that lie in the blob (a wrapped end is below the start) -/
theorem checkBoundaries_range {r : Nat × Nat} {len : Nat} (hf : Fits64 r) (hlen : len < 2 ^ 64) :
    checkBoundaries r.1 ((r.1 + r.2) % 2 ^ 64) len = true ↔ r.1 + r.2 ≤ len := by
  rw [checkBoundaries_iff]
  obtain ⟨h1, h2⟩ := hf
  have e : (2 : Nat) ^ 64 = 18446744073709551616 := by decide
  rw [e] at h1 h2 hlen ⊢
  constructor
  · intro h; omega
  · intro h; omega

theorem rtmBounds_iff {len level : Nat} {rtm sig dir1 dirL : Nat × Nat}
    (h1 : Fits64 rtm) (h2 : Fits64 sig) (h3 : Fits64 dir1) (h4 : Fits64 dirL) (hlen : len < 2 ^ 64) :
    rtmBounds len level rtm sig dir1 dirL = true ↔
      rtm.1 + rtm.2 ≤ len ∧ sig.1 + sig.2 ≤ len ∧ dirL.1 + dirL.2 ≤ len ∧ (level = 2 → dir1.1 + dir1.2 ≤ len) := by
  unfold rtmBounds
  simp only [Bool.and_eq_true, Bool.or_eq_true, bne_iff_ne, ne_eq]
  rw [checkBoundaries_range h1 hlen, checkBoundaries_range h2 hlen, checkBoundaries_range h3 hlen,
    checkBoundaries_range h4 hlen]
  by_cases hl : level = 2
  · simp [hl, and_assoc]
  · simp [hl, and_assoc]

/-- **the image length has no influence**: bytes appended to an image in which all four ranges lie
    change neither the boundary checks nor the verdict -/
theorem validateRTM_pad (P : Prims) (img pad : Bytes) (level : Nat) (rtm sig dir1 dirL : Nat × Nat) (oem : Key)
    (h1 : Fits64 rtm) (h2 : Fits64 sig) (h3 : Fits64 dir1) (h4 : Fits64 dirL)
    (hlen : (img ++ pad).length < 2 ^ 64) (hb : rtmBounds img.length level rtm sig dir1 dirL = true) :
    (validateRTM P (img ++ pad) level rtm sig dir1 dirL oem).map Prod.fst =
    (validateRTM P img level rtm sig dir1 dirL oem).map Prod.fst := by
  have hlen0 : img.length < 2 ^ 64 := by rw [List.length_append] at hlen; omega
  obtain ⟨b1, b2, b3, b4⟩ := (rtmBounds_iff h1 h2 h3 h4 hlen0).mp hb
  have hb' : rtmBounds (img ++ pad).length level rtm sig dir1 dirL = true := by
    rw [rtmBounds_iff h1 h2 h3 h4 hlen, List.length_append]
    exact ⟨by omega, by omega, by omega, fun hl => by have := b4 hl; omega⟩
  unfold validateRTM
  rw [hb, hb']
  simp only [Bool.true_eq_false, if_false, Option.map_some]
  unfold rtmSigned
  rw [slice_append_of_le _ _ _ _ b1, slice_append_of_le _ _ _ _ b2, slice_append_of_le _ _ _ _ b3]
  by_cases hl : level = 2
  · simp only [hl, if_true]; rw [slice_append_of_le _ _ _ _ (b4 hl)]
  · simp only [hl, if_false]

end Fiano.Crypto.Psb
