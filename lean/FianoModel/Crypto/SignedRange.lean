/-
  C16 ∘ C15 — the bytes a Boot Guard / CBnT manifest signature covers.

  fiano's `KeySignature.Verify(signedData)` takes the covered bytes as an argument; what callers pass
  (and what the ACM hashes) is `bytes[0 : signatureOffset]` of the serialised manifest, where the
  offset is the accessor `KeyAndSignatureOffset()` (key manifests) or the stored header field
  (`KeyManifestSignatureOffset`, `BPMH.KeySignatureOffset`) that `Rehash` sets from the accessors.
  C16's covered-range function is therefore `covered b off = b.take off`; this file proves, *from
  C15's theorems* (`offset_eq`, `km_sigoffset`, `bpm_sigoffset` of Props/C15.lean — not restated) and
  for the layouts regenerated from the Go declarations on every run, that

    * `covered (WriteTo m) off` is exactly the serialisation of every field (element) that precedes the
      key-and-signature structure, and the rest of the output is exactly that structure — every byte of
      a written manifest is either hashed or part of the key / signature whose influence `verify_bound`
      describes;
    * the verdict of "read the manifest, verify it over `bytes[:stored offset]`" is `Cbnt.verify` of the
      decoded key-and-signature structure over that serialisation (`kmVerify_written`).

  A field added to a manifest declaration before the signature enters `S.body.before …` and so the
  covered range of C15 and C16 alike; one added behind it breaks `Tie.km_sigoffset_facts` /
  `tie_bgkm_sig_last` / `tie_bpm_slots` (named theorems).  A renamed field of the key / signature
  structures breaks `tie_ks_fields`.
-/
import FianoModel.Props.C15
import FianoModel.Crypto.CbntLemmas
import FianoModel.Crypto.SignedRangeModel

namespace Fiano.Crypto.SignedRange
open Fiano Fiano.Crypto Fiano.Manifest Fiano.Manifest.C15 Fiano.Gen.Manifest

theorem covered_append_left (a s : Bytes) : covered (a ++ s) a.length = a := by
  unfold covered; simp

theorem covered_append_left' (a s r : Bytes) : covered (a ++ s ++ r) a.length = a := by
  unfold covered; rw [List.append_assoc]; simp

/-! ### T1: shape facts about the regenerated declarations -/

set_option maxRecDepth 100000

/-- both key manifests have the field `KeyAndSignature`; in the Boot Guard key manifest it is the last
    field and a sub-structure (for the CBnT one that is `Manifest.Tie.km_sigoffset_facts`) -/
theorem tie_km_has_sig_field :
    ((sdefOf Tie.src 8 "cbntkey.Manifest").map fun S => S.body.hasField "KeyAndSignature") = some true ∧
    ((sdefOf Tie.src 8 "bgkey.Manifest").map fun S => S.body.hasField "KeyAndSignature") = some true := by decide

theorem tie_bgkm_sig_last :
    (match sdefOf Tie.src 8 "bgkey.Manifest" with
      | some S => (match S.body.fromField "KeyAndSignature" with
          | .sub "KeyAndSignature" _ _ .done => true
          | _ => false)
      | none => false) = true := by decide

/-- the CBnT boot policy manifest has seven slots: PMSE (slot 6) is the last one -/
theorem tie_bpm_slots :
    (containerOf Tie.src 8 "cbntbootpolicy.Manifest" (Tie.strictOf "cbntbootpolicy.Manifest")).map (·.slots.length) = some 7 := by
  decide

/-! ### key manifests: covered by accessor -/

/-- **covered range by accessor** (`bytes[:m.KeyAndSignatureOffset()]`, both key manifests): the
    covered bytes of a written key manifest are exactly the serialisation of the fields before
    `KeyAndSignature` (as written, i.e. after Rehash), and the rest of the output is exactly the
    `KeyAndSignature` structure, which is the last field. -/
theorem km_covered_by_accessor (q : String) (hq : q = "cbntkey.Manifest" ∨ q = "bgkey.Manifest") (S : SDef)
    (h : IsGenerated q S) (vs : List Val) (hs : shaped S.body vs = true) :
    ∃ o rs inner, offsetOf S.body vs "KeyAndSignature" = some o ∧
      S.body.fromField "KeyAndSignature" = .sub "KeyAndSignature" rs inner .done ∧
      covered (S.encode vs) o = encodeRaw (S.body.before "KeyAndSignature") (S.rehash vs) ∧
      (S.encode vs).drop o = encodeRaw (.sub "KeyAndSignature" rs inner .done)
                                ((S.rehash vs).drop (S.body.index "KeyAndSignature")) := by
  -- the field exists and is the last one, a sub-structure
  have hfacts : S.body.hasField "KeyAndSignature" = true ∧
      ∃ rs inner, S.body.fromField "KeyAndSignature" = .sub "KeyAndSignature" rs inner .done := by
    rcases hq with rfl | rfl
    · have h1 := tie_km_has_sig_field.1
      rw [h.2] at h1
      refine ⟨by simpa using h1, ?_⟩
      have hf := Tie.km_sigoffset_facts
      rw [h.2] at hf
      simp only [Tie.kmSigFacts, Bool.and_eq_true] at hf
      have hsub := hf.2
      split at hsub
      · next rs inner heq => exact ⟨rs, inner, heq⟩
      · cases hsub
    · have h1 := tie_km_has_sig_field.2
      rw [h.2] at h1
      refine ⟨by simpa using h1, ?_⟩
      have hsub := tie_bgkm_sig_last
      rw [h.2] at hsub
      simp only at hsub
      split at hsub
      · next rs inner heq => exact ⟨rs, inner, heq⟩
      · cases hsub
  obtain ⟨hhas, rs, inner, hfrom⟩ := hfacts
  have ho : offsetOf S.body vs "KeyAndSignature" = some (fieldOff S.body vs "KeyAndSignature") := by
    unfold offsetOf; rw [hhas]; rfl
  obtain ⟨_, h2, h3⟩ := offset_eq S vs "KeyAndSignature" _ hs ho
  refine ⟨_, rs, inner, ho, hfrom, ?_, ?_⟩
  · rw [h3, h2]; exact covered_append_left _ _
  · rw [h3, h2, hfrom]; simp

/-! ### CBnT key manifest: covered by the stored offset -/

/-- **covered range by the stored field** (`bytes[:KeyManifestSignatureOffset]` as the ACM reads it):
    for a written CBnT key manifest shorter than 64 KiB the stored offset equals the accessor, and
    the covered bytes are exactly the serialisation of the fields before `KeyAndSignature`.
    (C15's `km_sigoffset` gives the offset mod 2^16: the hypothesis `hlen` is what rules out the
    wrap of the uint16 field.) -/
theorem km_covered_by_stored_offset (S : SDef) (h : IsGenerated "cbntkey.Manifest" S) (vs : List Val)
    (hs : shaped S.body vs = true) (hlen : (S.encode vs).length < 65536) :
    ∃ off rs inner, getNum S.body (S.rehash vs) "KeyManifestSignatureOffset" = some off ∧
      offsetOf S.body vs "KeyAndSignature" = some off ∧
      S.body.fromField "KeyAndSignature" = .sub "KeyAndSignature" rs inner .done ∧
      covered (S.encode vs) off = encodeRaw (S.body.before "KeyAndSignature") (S.rehash vs) ∧
      (S.encode vs).drop off = encodeRaw (.sub "KeyAndSignature" rs inner .done)
                                  ((S.rehash vs).drop (S.body.index "KeyAndSignature")) := by
  obtain ⟨h1, _, h3⟩ := km_sigoffset S h vs hs
  obtain ⟨o, rs, inner, ho, hfrom, hc, hd⟩ := km_covered_by_accessor _ (.inl rfl) S h vs hs
  obtain ⟨_, ho2, _⟩ := offset_eq S vs "KeyAndSignature" o hs ho
  have hle : (encodeRaw (S.body.before "KeyAndSignature") (S.rehash vs)).length < 65536 := by
    have : (S.encode vs).length = (encodeRaw (S.body.before "KeyAndSignature") (S.rehash vs)).length +
        (encodeRaw (S.body.fromField "KeyAndSignature") ((S.rehash vs).drop (S.body.index "KeyAndSignature"))).length := by
      rw [h3, List.length_append]
    omega
  rw [Nat.mod_eq_of_lt hle, ← ho2] at h1
  exact ⟨o, rs, inner, h1, ho, hfrom, hc, hd⟩

/-- **the verdict on a written key manifest**: for every well-typed key manifest value shorter than
    64 KiB, followed by any bytes `r`, the verdict is `KeySignature.Verify` of the key-and-signature
    structure as written, over exactly the serialisation of the fields that precede it — nothing of
    `r`, nothing of the key / signature structure itself is hashed. -/
theorem kmVerify_written (P : Prims) (S : SDef) (h : IsGenerated "cbntkey.Manifest" S) (vs : List Val) (r : Bytes)
    (hwt : wt S.body [] vs = true) (hlen : (S.encode vs).length < 65536) :
    kmVerify P S (S.encode vs ++ r) =
      (findSub S.body (S.rehash vs) "KeyAndSignature").bind fun p =>
        (ksOfVal p.1 p.2).map fun ks =>
          Cbnt.verify P ks (encodeRaw (S.body.before "KeyAndSignature") (S.rehash vs)) := by
  have hs := wt_shaped S.body [] vs hwt
  obtain ⟨hdec, _, _⟩ := generated_roundtrip _ S h vs r hwt
  obtain ⟨off, rs, inner, hoff, ho, _, _, _⟩ := km_covered_by_stored_offset S h vs hs hlen
  obtain ⟨_, _, h3⟩ := km_sigoffset S h vs hs
  obtain ⟨_, ho2, _⟩ := offset_eq S vs "KeyAndSignature" off hs ho
  unfold kmVerify
  rw [hdec]
  simp only [hoff]
  have hcov : covered (S.encode vs ++ r) off = encodeRaw (S.body.before "KeyAndSignature") (S.rehash vs) := by
    rw [h3, ho2]; exact covered_append_left' _ _ _
  cases hf : findSub S.body (S.rehash vs) "KeyAndSignature" with
  | none => rfl
  | some p =>
    obtain ⟨L, kv⟩ := p
    simp only [Option.bind_some, hcov]

/-- **noninterference on the serialised key manifest**: two written key manifests whose fields before
    `KeyAndSignature` serialise alike and whose key-and-signature structures are equal get the same
    verdict, whatever follows them. -/
theorem kmVerify_noninterference (P : Prims) (S : SDef) (h : IsGenerated "cbntkey.Manifest" S) (vs vs' : List Val)
    (r r' : Bytes) (hwt : wt S.body [] vs = true) (hwt' : wt S.body [] vs' = true)
    (hlen : (S.encode vs).length < 65536) (hlen' : (S.encode vs').length < 65536)
    (hcov : encodeRaw (S.body.before "KeyAndSignature") (S.rehash vs) =
            encodeRaw (S.body.before "KeyAndSignature") (S.rehash vs'))
    (hks : findSub S.body (S.rehash vs) "KeyAndSignature" = findSub S.body (S.rehash vs') "KeyAndSignature") :
    kmVerify P S (S.encode vs ++ r) = kmVerify P S (S.encode vs' ++ r') := by
  rw [kmVerify_written P S h vs r hwt hlen, kmVerify_written P S h vs' r' hwt' hlen', hcov, hks]

/-! ### CBnT boot policy manifest: covered by the stored offset -/

theorem zipSlots_length_le {α} (f : Slot → Val → α) : ∀ (slots : List Slot) (vs : List Val),
    (zipSlots f slots vs).length ≤ slots.length := by
  intro slots
  induction slots with
  | nil => intro vs; simp [zipSlots]
  | cons s ss ih =>
    intro vs
    cases vs with
    | nil => simp [zipSlots]
    | cons v vt => simp only [zipSlots, List.length_cons]; have := ih vt; omega

theorem drop_eq_singleton {α} (l : List α) (i : Nat) (x : α) (h : l[i]? = some x) (hl : l.length ≤ i + 1) :
    l.drop i = [x] := by
  induction l generalizing i with
  | nil => simp at h
  | cons a t ih =>
    cases i with
    | zero =>
      simp only [List.getElem?_cons_zero, Option.some.injEq] at h
      subst h
      have : t = [] := by
        cases t with
        | nil => rfl
        | cons _ _ => simp at hl
      simp [this]
    | succ j =>
      simp only [List.getElem?_cons_succ] at h
      simp only [List.drop_succ_cons]
      exact ih j h (by simp only [List.length_cons] at hl; omega)

/-- the written boot policy manifest split at the stored offset (internal form of the next theorem) -/
theorem bpm_split (C : Container) (h : IsGeneratedContainer "cbntbootpolicy.Manifest" C)
    (vs : List Val) (bpmh pmse : List Val) (sg st : Slot)
    (hsg : C.slots[0]? = some sg) (hst : C.slots[6]? = some st)
    (hvg : vs[0]? = some (.node bpmh)) (hvt : vs[6]? = some (.node pmse))
    (hshg : shaped sg.elem.body bpmh = true) (hsht : shaped st.elem.body pmse = true)
    (hlen : (C.encode vs).length < 65536) :
    ∃ Wg Wt rs inner, (C.rehash vs)[0]? = some (.node Wg) ∧ (C.rehash vs)[6]? = some (.node Wt) ∧
      getNum sg.elem.body Wg "KeySignatureOffset"
        = some (((zipSlots slotRaw C.slots (C.rehash vs)).take 6).flatten
                  ++ encodeRaw (st.elem.body.before "KeySignature") Wt).length ∧
      st.elem.body.fromField "KeySignature" = .sub "KeySignature" rs inner .done ∧
      C.encode vs = ((zipSlots slotRaw C.slots (C.rehash vs)).take 6).flatten
          ++ encodeRaw (st.elem.body.before "KeySignature") Wt
          ++ encodeRaw (.sub "KeySignature" rs inner .done) (Wt.drop (st.elem.body.index "KeySignature")) := by
  obtain ⟨Wg, Wt, h1, h2, h3, h4, h5⟩ := bpm_sigoffset C h vs bpmh pmse sg st hsg hst hvg hvt hshg hsht
  -- PMSE is the last slot, KeySignature its last field
  have hn : C.slots.length = 7 := by
    have := tie_bpm_slots
    rw [h.2] at this
    simpa using this
  have hfrom : ∃ rs inner, st.elem.body.fromField "KeySignature" = .sub "KeySignature" rs inner .done := by
    have hf := Tie.bpm_sigoffset_facts
    rw [h.2] at hf
    simp only [Tie.bpmSigFacts, hsg, hst, Bool.and_eq_true] at hf
    have hsub := hf.1.2
    split at hsub
    · next rs inner heq => exact ⟨rs, inner, heq⟩
    · cases hsub
  obtain ⟨rs, inner, hfrom⟩ := hfrom
  have hdrop : (zipSlots slotRaw C.slots (C.rehash vs)).drop 6 = [slotRaw st (.node Wt)] := by
    apply drop_eq_singleton
    · rw [zipSlots_getElem?, hst, h2]
    · have := zipSlots_length_le slotRaw C.slots (C.rehash vs); omega
  have henc : C.encode vs = ((zipSlots slotRaw C.slots (C.rehash vs)).take 6).flatten
      ++ encodeRaw (st.elem.body.before "KeySignature") Wt
      ++ encodeRaw (.sub "KeySignature" rs inner .done) (Wt.drop (st.elem.body.index "KeySignature")) := by
    rw [h5, hdrop, List.flatten_singleton, h4, hfrom, List.append_assoc]
  have hlt : ((zipSlots slotRaw C.slots (C.rehash vs)).take 6).flatten.length
      + (encodeRaw (st.elem.body.before "KeySignature") Wt).length < 65536 := by
    have := congrArg List.length henc
    simp only [List.length_append] at this
    omega
  rw [Nat.mod_eq_of_lt hlt, ← List.length_append] at h3
  exact ⟨Wg, Wt, rs, inner, h1, h2, h3, hfrom, henc⟩

/-- **covered range of a CBnT boot policy manifest** (`bytes[:BPMH.KeySignatureOffset]`): for a written
    manifest shorter than 64 KiB the covered bytes are exactly the output for the six slots before PMSE
    (BPMH, SE…, TXTE, Res, PCDE, PME) followed by PMSE's fields before `KeySignature` (its struct-info),
    and the rest of the output is exactly the `KeySignature` structure — PMSE is the last slot and
    `KeySignature` its last field. -/
theorem bpm_covered_by_stored_offset (C : Container) (h : IsGeneratedContainer "cbntbootpolicy.Manifest" C)
    (vs : List Val) (bpmh pmse : List Val) (sg st : Slot)
    (hsg : C.slots[0]? = some sg) (hst : C.slots[6]? = some st)
    (hvg : vs[0]? = some (.node bpmh)) (hvt : vs[6]? = some (.node pmse))
    (hshg : shaped sg.elem.body bpmh = true) (hsht : shaped st.elem.body pmse = true)
    (hlen : (C.encode vs).length < 65536) :
    ∃ off Wg Wt rs inner, (C.rehash vs)[0]? = some (.node Wg) ∧ (C.rehash vs)[6]? = some (.node Wt) ∧
      getNum sg.elem.body Wg "KeySignatureOffset" = some off ∧
      st.elem.body.fromField "KeySignature" = .sub "KeySignature" rs inner .done ∧
      covered (C.encode vs) off = ((zipSlots slotRaw C.slots (C.rehash vs)).take 6).flatten
                                    ++ encodeRaw (st.elem.body.before "KeySignature") Wt ∧
      (C.encode vs).drop off = encodeRaw (.sub "KeySignature" rs inner .done)
                                  (Wt.drop (st.elem.body.index "KeySignature")) := by
  obtain ⟨Wg, Wt, rs, inner, h1, h2, h3, hfrom, henc⟩ :=
    bpm_split C h vs bpmh pmse sg st hsg hst hvg hvt hshg hsht hlen
  refine ⟨_, Wg, Wt, rs, inner, h1, h2, h3, hfrom, ?_, ?_⟩
  · rw [henc]; exact covered_append_left _ _
  · rw [henc]; exact List.drop_left' rfl

/-- T1: the slots `bpmVerify` looks up by name are slot 0 and slot 6 of the regenerated container -/
theorem tie_bpm_slot_names :
    (containerOf Tie.src 8 "cbntbootpolicy.Manifest" (Tie.strictOf "cbntbootpolicy.Manifest")).map
      (fun C => (slotIndex C.slots "BPMH" 0, slotIndex C.slots "PMSE" 0)) = some (some 0, some 6) := by decide

/-- **the verdict on a written CBnT boot policy manifest** ("ReadFrom, then
    `PMSE.KeySignature.Verify(bytes[:BPMH.KeySignatureOffset])`"): for a manifest value that is
    well-typed as written and shorter than 64 KiB, followed by fewer bytes than a struct-info, the
    verdict is `KeySignature.Verify` of PMSE's key-and-signature structure as written over exactly the
    output for the six slots before PMSE followed by PMSE's struct-info. -/
theorem bpmVerify_written (P : Prims) (C : Container) (h : IsGeneratedContainer "cbntbootpolicy.Manifest" C)
    (vs : List Val) (r : Bytes) (bpmh pmse : List Val) (sg st : Slot)
    (hsg : C.slots[0]? = some sg) (hst : C.slots[6]? = some st)
    (hvg : vs[0]? = some (.node bpmh)) (hvt : vs[6]? = some (.node pmse))
    (hshg : shaped sg.elem.body bpmh = true) (hsht : shaped st.elem.body pmse = true)
    (hwt : C.wt (C.rehash vs) = true) (hr : r.length < C.siLen) (hlen : (C.encode vs).length < 65536) :
    ∃ Wt, (C.rehash vs)[6]? = some (.node Wt) ∧
      bpmVerify P C (C.encode vs ++ r) =
        (findSub st.elem.body Wt "KeySignature").bind fun p =>
          (ksOfVal p.1 p.2).map fun ks =>
            Cbnt.verify P ks (((zipSlots slotRaw C.slots (C.rehash vs)).take 6).flatten
                                ++ encodeRaw (st.elem.body.before "KeySignature") Wt) := by
  obtain ⟨Wg, Wt, rs, inner, h1, h2, h3, hfrom, henc⟩ :=
    bpm_split C h vs bpmh pmse sg st hsg hst hvg hvt hshg hsht hlen
  refine ⟨Wt, h2, ?_⟩
  have hdec := generated_container_roundtrip _ C h vs r hwt hr
  have hnames : slotIndex C.slots "BPMH" 0 = some 0 ∧ slotIndex C.slots "PMSE" 0 = some 6 := by
    have := tie_bpm_slot_names
    rw [h.2] at this
    simp only [Option.map_some, Option.some.injEq, Prod.mk.injEq] at this
    exact this
  have hcov : covered (C.encode vs ++ r) (((zipSlots slotRaw C.slots (C.rehash vs)).take 6).flatten
        ++ encodeRaw (st.elem.body.before "KeySignature") Wt).length
      = ((zipSlots slotRaw C.slots (C.rehash vs)).take 6).flatten
        ++ encodeRaw (st.elem.body.before "KeySignature") Wt := by
    rw [henc]; exact covered_append_left' _ _ _
  unfold bpmVerify
  rw [hdec]
  simp only [hnames.1, hnames.2, hsg, hst, h1, h2, h3]
  cases hf : findSub st.elem.body Wt "KeySignature" with
  | none => rfl
  | some p =>
    obtain ⟨L, kv⟩ := p
    simp only [Option.bind_some]
    rw [hcov]

/-! ### T1: the field names of the key / signature structures, on a sample -/

/-- a small CBnT key manifest (one hash, toy-sized RSA key and signature) -/
def sampleKM : List Val :=
  [.node [.bytes (idBytes "__KEYM__"), .num 0x21, .num 0, .num 0], .num 0, .bytes [0, 0, 0], .num 1, .num 2, .num 3,
   .num 0x0b, .node [.node [.num 1, .node [.num 0x0b, .bytes [9, 9, 9]]]],
   .node [.num 0x10, .node [.num 1, .num 0x10, .num 16, .bytes [1, 0, 1, 0, 0xaa, 0xbb]],
          .node [.num 0x14, .num 0x10, .num 16, .num 0x0b, .bytes [0xcc, 0xdd]]]]

/-- on the regenerated layouts the sample is well-typed, is 60 bytes long, its stored signature offset
    is 39, and `ksOfVal` finds every field of `KeySignature` / `Key` / `Signature` by name: the
    structure C16's `Cbnt.verify` is stated on is the one the codec reads -/
theorem tie_ks_fields :
    (match sdefOf Tie.src 8 "cbntkey.Manifest" with
      | some S =>
        wt S.body [] sampleKM && decide ((S.encode sampleKM).length = 60) &&
        decide (getNum S.body (S.rehash sampleKM) "KeyManifestSignatureOffset" = some 39) &&
        (match findSub S.body (S.rehash sampleKM) "KeyAndSignature" with
          | some (L, kv) => decide (ksOfVal L kv = some
              { version := 0x10,
                key := { keyAlg := 1, version := 0x10, keySize := 16, data := [1, 0, 1, 0, 0xaa, 0xbb] },
                sig := { sigScheme := 0x14, version := 0x10, keySize := 16, hashAlg := 0x0b, data := [0xcc, 0xdd] } })
          | none => false) &&
        (kmVerify Toy.prims S (S.encode sampleKM ++ [7, 7])).isSome
      | none => false) = true := by decide

end Fiano.Crypto.SignedRange
