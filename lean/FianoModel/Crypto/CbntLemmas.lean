/-
  C16 — lemmas about the cbnt / bg model (key decode, verification, signing).
-/
import FianoModel.Crypto.Lemmas

namespace Fiano.Crypto.Cbnt
open Fiano Fiano.Crypto

/-! ### key decode -/

theorem pubKey_rsa_iff (k : Key) (pk : RSAPub) :
    pubKey k = .ok (.rsa pk) ↔ k.keyAlg = algRSA ∧ k.data.length = k.keySize / 8 + 4 ∧ pk = decodeRSA k.data := by
  unfold pubKey keyDataSize inBytes
  by_cases h1 : k.keyAlg = algRSA
  · simp only [h1, if_true]
    by_cases h2 : k.data.length = k.keySize / 8 + 4
    · simp [h2, eq_comm]
    · simp [h2]
  · simp only [h1, if_false, false_and, iff_false]
    by_cases h2 : k.keyAlg = algECC ∨ k.keyAlg = algSM2
    · simp only [h2, if_true]
      by_cases h3 : k.data.length = k.keySize / 8 * 2
      · by_cases h4 : k.keyAlg = algECC <;> simp [h3, h4]
      · simp [h3]
    · simp [h2]

/-! ### verification -/

theorem rsaSigVerify_ok_iff (P : Prims) (sch : RSAScheme) (sig : Bytes) (pk : PubKey) (ha : Alg) (d : Bytes) :
    rsaSigVerify P sch sig pk ha d = .ok () ↔
      ∃ k, pk = .rsa k ∧ (ha = algSHA256 ∨ ha = algSHA384) ∧ P.rsaVerify sch ha k (P.hash ha d) sig = true := by
  unfold rsaSigVerify
  cases pk with
  | rsa k =>
    cases hv : P.rsaVerify sch ha k (P.hash ha d) sig
    · by_cases h1 : ha = algSHA256
      · subst h1; simp_all [hashSupported, algSHA256, algSHA1, algSHA384, algSHA512, algSM3]
      · by_cases h2 : ha = algSHA384
        · subst h2; simp_all [hashSupported, algSHA256, algSHA1, algSHA384, algSHA512, algSM3]
        · simp [h1, h2]
    · by_cases h1 : ha = algSHA256
      · subst h1; simp_all [hashSupported, algSHA256, algSHA1, algSHA384, algSHA512, algSM3]
      · by_cases h2 : ha = algSHA384
        · subst h2; simp_all [hashSupported, algSHA256, algSHA1, algSHA384, algSHA512, algSM3]
        · simp [h1, h2]
  | ecc k => simp
  | sm2 k => simp

/-- verification with an RSA scheme, once the signature data is known to be RSA -/
theorem verifyWith_rsa (P : Prims) (ks : KeySignature) (d : Bytes) (sch : RSAScheme) (sd : SigData)
    (hsd : sd = .rsaPSS ks.sig.data ∧ sch = .pss ∨ sd = .rsaSSA ks.sig.data ∧ sch = .pkcs1v15) :
    verifyWith P sd ks d = .ok () ↔
      ks.key.keyAlg = algRSA ∧ ks.key.data.length = ks.key.keySize / 8 + 4 ∧
      (ks.sig.hashAlg = algSHA256 ∨ ks.sig.hashAlg = algSHA384) ∧
      P.rsaVerify sch ks.sig.hashAlg (decodeRSA ks.key.data) (P.hash ks.sig.hashAlg d) ks.sig.data = true := by
  have hsv : ∀ pk, sigVerify P sd pk ks.sig.hashAlg d = rsaSigVerify P sch ks.sig.data pk ks.sig.hashAlg d := by
    intro pk
    rcases hsd with ⟨rfl, rfl⟩ | ⟨rfl, rfl⟩ <;> rfl
  unfold verifyWith
  constructor
  · intro h
    cases hk : pubKey ks.key with
    | error e => rw [hk] at h; cases h
    | ok pk =>
      rw [hk] at h
      simp only [hsv] at h
      obtain ⟨k, rfl, hh, hv⟩ := (rsaSigVerify_ok_iff P sch _ pk _ d).mp h
      obtain ⟨a, b, rfl⟩ := (pubKey_rsa_iff ks.key k).mp hk
      exact ⟨a, b, hh, hv⟩
  · rintro ⟨a, b, hh, hv⟩
    have hk : pubKey ks.key = .ok (.rsa (decodeRSA ks.key.data)) := (pubKey_rsa_iff _ _).mpr ⟨a, b, rfl⟩
    rw [hk]
    simp only [hsv]
    exact (rsaSigVerify_ok_iff P sch _ _ _ d).mpr ⟨_, rfl, hh, hv⟩

/-- what `SignatureData` returns, by scheme -/
theorem signatureData_pss (m : Signature) (h : m.sigScheme = algRSAPSS) : signatureData m = .ok (.rsaPSS m.data) := by
  simp [signatureData, h]

theorem signatureData_ssa (m : Signature) (h : m.sigScheme = algRSASSA) : signatureData m = .ok (.rsaSSA m.data) := by
  have : ¬ algRSASSA = algRSAPSS := by decide
  simp [signatureData, h, this]

theorem signatureData_other (m : Signature) (h1 : m.sigScheme ≠ algRSAPSS) (h2 : m.sigScheme ≠ algRSASSA)
    (sd : SigData) (h : signatureData m = .ok sd) : (∃ r s, sd = .ecdsa r s) ∨ (∃ r s, sd = .sm2 r s) := by
  unfold signatureData at h
  simp only [h1, h2, if_false] at h
  by_cases he : m.sigScheme = algECDSA
  · simp only [he, if_true] at h
    split at h
    · cases h
    · cases h; exact .inl ⟨_, _, rfl⟩
  · simp only [he, if_false] at h
    by_cases hm : m.sigScheme = algSM2
    · simp only [hm, if_true] at h
      split at h
      · cases h
      · cases h; exact .inr ⟨_, _, rfl⟩
    · simp only [hm, if_false] at h
      cases h

theorem verify_ok_iff (P : Prims) (ks : KeySignature) (d : Bytes) :
    verify P ks d = .ok () ↔
      ∃ sch, rsaSchemeOf ks.sig.sigScheme = some sch ∧
        ks.key.keyAlg = algRSA ∧ ks.key.data.length = ks.key.keySize / 8 + 4 ∧
        (ks.sig.hashAlg = algSHA256 ∨ ks.sig.hashAlg = algSHA384) ∧
        P.rsaVerify sch ks.sig.hashAlg (decodeRSA ks.key.data) (P.hash ks.sig.hashAlg d) ks.sig.data = true := by
  unfold verify
  by_cases hp : ks.sig.sigScheme = algRSAPSS
  · have h2 : rsaSchemeOf ks.sig.sigScheme = some .pss := by simp [rsaSchemeOf, hp]
    rw [signatureData_pss _ hp, h2]
    simp only
    rw [verifyWith_rsa P ks d .pss _ (.inl ⟨rfl, rfl⟩)]
    constructor
    · intro h; exact ⟨.pss, rfl, h⟩
    · rintro ⟨sch, hs, h⟩; cases hs; exact h
  · by_cases hs : ks.sig.sigScheme = algRSASSA
    · have h2 : rsaSchemeOf ks.sig.sigScheme = some .pkcs1v15 := by
        have : ¬ algRSASSA = algRSAPSS := by decide
        simp [rsaSchemeOf, hs, this]
      rw [signatureData_ssa _ hs, h2]
      simp only
      rw [verifyWith_rsa P ks d .pkcs1v15 _ (.inr ⟨rfl, rfl⟩)]
      constructor
      · intro h; exact ⟨.pkcs1v15, rfl, h⟩
      · rintro ⟨sch, hs, h⟩; cases hs; exact h
    · have h2 : rsaSchemeOf ks.sig.sigScheme = none := by simp [rsaSchemeOf, hp, hs]
      simp only [h2]
      constructor
      · intro h
        exfalso
        cases hsd : signatureData ks.sig with
        | error e => rw [hsd] at h; cases h
        | ok sd =>
          rw [hsd] at h
          simp only [verifyWith] at h
          rcases signatureData_other _ hp hs sd hsd with ⟨r, s, rfl⟩ | ⟨r, s, rfl⟩
          · split at h <;> cases h
          · split at h <;> cases h
      · rintro ⟨sch, h, _⟩; cases h

/-! ### injectivity of the key decode at a fixed length -/

theorem decodeRSA_inj {a b : Bytes} (hl : a.length = b.length) (h : decodeRSA a = decodeRSA b) : a = b := by
  unfold decodeRSA at h
  have hn : fromLE (a.drop 4) = fromLE (b.drop 4) := congrArg RSAPub.n h
  have he : fromLE (a.take 4) = fromLE (b.take 4) := congrArg RSAPub.e h
  have h1 : a.take 4 = b.take 4 := fromLE_inj (by simp [hl]) he
  have h2 : a.drop 4 = b.drop 4 := fromLE_inj (by simp [hl]) hn
  rw [← List.take_append_drop 4 a, ← List.take_append_drop 4 b, h1, h2]

theorem decodeEC_inj (w : Nat) {a b : Bytes} (hl : a.length = b.length) (h : decodeEC w a = decodeEC w b) : a = b := by
  unfold decodeEC at h
  have hx : fromLE (a.take w) = fromLE (b.take w) := congrArg ECPub.x h
  have hy : fromLE (a.drop w) = fromLE (b.drop w) := congrArg ECPub.y h
  have h1 : a.take w = b.take w := fromLE_inj (by simp [hl]) hx
  have h2 : a.drop w = b.drop w := fromLE_inj (by simp [hl]) hy
  rw [← List.take_append_drop w a, ← List.take_append_drop w b, h1, h2]

/-! ### fixed-width (r, s) -/

theorem decodeRS_encodeRS (w r s : Nat) (hr : r < 256 ^ w) (hs : s < 256 ^ w) :
    decodeRS (encodeRS w r s) = (r, s) := by
  unfold decodeRS encodeRS
  have hl : (leN w r ++ leN w s).length / 2 = w := by simp; omega
  rw [hl, take_append_len _ _ w (leN_length w r), drop_append_len _ _ w (leN_length w r),
    fromLE_leN_of_lt w r hr, fromLE_leN_of_lt w s hs]

theorem encodeRS_length (w r s : Nat) : (encodeRS w r s).length = 2 * w := by
  simp [encodeRS]; omega

theorem rsWidth_cases (r s : Nat) (h : r < 2 ^ 384 ∧ s < 2 ^ 384) :
    (rsWidth r s = some 32 ∧ r < 256 ^ 32 ∧ s < 256 ^ 32) ∨ (rsWidth r s = some 48 ∧ r < 256 ^ 48 ∧ s < 256 ^ 48) := by
  unfold rsWidth
  by_cases h1 : r < 2 ^ 256 ∧ s < 2 ^ 256
  · left
    have e : (256 : Nat) ^ 32 = 2 ^ 256 := by decide
    rw [e]; simp [h1]
  · right
    have e : (256 : Nat) ^ 48 = 2 ^ 384 := by decide
    rw [e]; simp [h1, h]

/-! ### signing -/

theorem setInBytes_div (n : Nat) (h : n < 8192) : setInBytes n / 8 = n := by
  unfold setInBytes; omega

theorem decodeRSA_setPubKeyRSA (k : RSAPub) (he : k.e < 2 ^ 32) : decodeRSA (setPubKeyRSA k).data = k := by
  unfold decodeRSA setPubKeyRSA
  simp only
  rw [take_append_len _ _ 4 (leN_length 4 k.e), drop_append_len _ _ 4 (leN_length 4 k.e),
    fromLE_leN_of_lt 4 k.e (by have : (256 : Nat) ^ 4 = 2 ^ 32 := by decide
                               omega),
    fromLE_leN_of_lt _ k.n (lt_pow_byteLen k.n)]

theorem pubKey_setPubKeyRSA (k : RSAPub) (he : k.e < 2 ^ 32) (hn : byteLen k.n < 8192) :
    pubKey (setPubKeyRSA k) = .ok (.rsa k) := by
  rw [pubKey_rsa_iff]
  refine ⟨rfl, ?_, (decodeRSA_setPubKeyRSA k he).symm⟩
  show (leN 4 k.e ++ leN (byteLen k.n) k.n).length = setInBytes (byteLen k.n) / 8 + 4
  rw [setInBytes_div _ hn]
  simp; omega


theorem rsaHashOK_iff (h : Alg) : rsaHashOK h = true ↔ h = algSHA256 ∨ h = algSHA384 := by
  simp [rsaHashOK]

/-- the RSA branch of `NewSignatureDataWithHash` -/
theorem newSignatureData_rsa (P : Prims) (S : Signers) (signAlgo hashAlgo : Alg) (sk : S.RSAPriv) (rnd data : Bytes)
    (sch : RSAScheme) (hs : rsaSchemeOf (detectScheme S signAlgo (.rsa sk)) = some sch)
    (hh : rsaHashOK (recordedHash (detectScheme S signAlgo (.rsa sk)) hashAlgo) = true) :
    newSignatureData P S signAlgo hashAlgo (.rsa sk) rnd data =
      .ok (match sch with
        | .pss => .rsaPSS (S.rsaSign .pss (recordedHash algRSAPSS hashAlgo) sk rnd (P.hash (recordedHash algRSAPSS hashAlgo) data))
        | .pkcs1v15 => .rsaSSA (S.rsaSign .pkcs1v15 (recordedHash algRSASSA hashAlgo) sk rnd (P.hash (recordedHash algRSASSA hashAlgo) data))) := by
  unfold newSignatureData
  unfold rsaSchemeOf at hs
  by_cases hp : detectScheme S signAlgo (.rsa sk) = algRSAPSS
  · simp only [hp, if_true] at hs hh ⊢
    cases hs
    simp [hh]
  · simp only [hp, if_false] at hs ⊢
    by_cases hq : detectScheme S signAlgo (.rsa sk) = algRSASSA
    · simp only [hq, if_true] at hs hh ⊢
      cases hs
      simp [hh]
    · simp [hq] at hs

/-- RSA: what the library signs, it verifies -/
theorem setSignature_rsa_verify (P : Prims) (S : Signers) (L : S.Lawful P) (hH : LawfulHash P)
    (ks : KeySignature) (signAlgo hashAlgo : Alg) (sk : S.RSAPriv) (rnd data : Bytes)
    (he : (S.rsaPub sk).e < 2 ^ 32) (hn : byteLen (S.rsaPub sk).n < 8192)
    (sch : RSAScheme) (hs : rsaSchemeOf (detectScheme S signAlgo (.rsa sk)) = some sch)
    (hh : rsaHashOK (recordedHash (detectScheme S signAlgo (.rsa sk)) hashAlgo) = true) :
    ∃ ks', setSignature P S ks signAlgo hashAlgo (.rsa sk) rnd data = .ok ks' ∧ verify P ks' data = .ok () := by
  unfold setSignature sigSetSignature
  simp only [setPubKey]
  rw [newSignatureData_rsa P S signAlgo hashAlgo sk rnd data sch hs hh]
  have hs' := hs
  unfold rsaSchemeOf at hs'
  cases sch with
  | pss =>
    have hp : detectScheme S signAlgo (.rsa sk) = algRSAPSS := by
      by_cases hp : detectScheme S signAlgo (.rsa sk) = algRSAPSS
      · exact hp
      · simp only [hp, if_false] at hs'
        split at hs' <;> cases hs'
    rw [hp] at hh
    simp only [setSignatureByData, signatureBytes, schemeOf]
    refine ⟨_, rfl, ?_⟩
    rw [verify_ok_iff]
    refine ⟨.pss, by simp [rsaSchemeOf], rfl, ?_, (rsaHashOK_iff _).mp hh, ?_⟩
    · show (leN 4 _ ++ leN (byteLen _) _).length = setInBytes (byteLen _) / 8 + 4
      rw [setInBytes_div _ hn]; simp; omega
    · show P.rsaVerify .pss _ (decodeRSA (setPubKeyRSA (S.rsaPub sk)).data) _ _ = true
      rw [decodeRSA_setPubKeyRSA _ he]
      exact L.rsa_correct .pss _ sk rnd _ (hH _ _)
  | pkcs1v15 =>
    have hp : detectScheme S signAlgo (.rsa sk) = algRSASSA := by
      by_cases hp : detectScheme S signAlgo (.rsa sk) = algRSAPSS
      · simp [hp] at hs'
      · simp only [hp, if_false] at hs'
        by_cases hq : detectScheme S signAlgo (.rsa sk) = algRSASSA
        · exact hq
        · simp [hq] at hs'
    rw [hp] at hh
    simp only [setSignatureByData, signatureBytes, schemeOf]
    refine ⟨_, rfl, ?_⟩
    rw [verify_ok_iff]
    have : ¬ algRSASSA = algRSAPSS := by decide
    refine ⟨.pkcs1v15, by simp [rsaSchemeOf, this], rfl, ?_, (rsaHashOK_iff _).mp hh, ?_⟩
    · show (leN 4 _ ++ leN (byteLen _) _).length = setInBytes (byteLen _) / 8 + 4
      rw [setInBytes_div _ hn]; simp; omega
    · show P.rsaVerify .pkcs1v15 _ (decodeRSA (setPubKeyRSA (S.rsaPub sk)).data) _ _ = true
      rw [decodeRSA_setPubKeyRSA _ he]
      exact L.rsa_correct .pkcs1v15 _ sk rnd _ (hH _ _)

theorem pubKey_setPubKeyEC (alg : Alg) (k : ECPub) (ha : alg = algECC ∨ alg = algSM2)
    (hx : k.x < 2 ^ 256) (hy : k.y < 2 ^ 256) :
    ∃ key, setPubKeyEC alg k = .ok key ∧
      pubKey key = .ok (if alg = algECC then .ecc k else .sm2 k) := by
  have e : (256 : Nat) ^ 32 = 2 ^ 256 := by decide
  have hd : decodeEC 32 (leN 32 k.x ++ leN 32 k.y) = k := by
    unfold decodeEC
    rw [take_append_len _ _ 32 (leN_length 32 k.x), drop_append_len _ _ 32 (leN_length 32 k.x),
      fromLE_leN_of_lt 32 k.x (by omega), fromLE_leN_of_lt 32 k.y (by omega)]
  refine ⟨{ keyAlg := alg, version := 0x10, keySize := 256, data := leN 32 k.x ++ leN 32 k.y }, ?_, ?_⟩
  · simp [setPubKeyEC, hx, hy]
  · unfold pubKey keyDataSize inBytes
    rcases ha with rfl | rfl
    · have h1 : ¬ algECC = algRSA := by decide
      simp [h1, hd]
    · have h1 : ¬ algSM2 = algRSA := by decide
      have h2 : ¬ algSM2 = algECC := by decide
      simp [h1, h2, hd]

theorem signatureData_ecdsa64 (m : Signature) (h : m.sigScheme = algECDSA) (hl : m.data.length = 64) :
    signatureData m = .ok (.ecdsa (decodeRS m.data).1 (decodeRS m.data).2) := by
  have h1 : ¬ algECDSA = algRSAPSS := by decide
  have h2 : ¬ algECDSA = algRSASSA := by decide
  simp [signatureData, h, h1, h2, hl]

theorem signatureData_sm2_64 (m : Signature) (h : m.sigScheme = algSM2) (hl : m.data.length = 64) :
    signatureData m = .ok (.sm2 (decodeRS m.data).1 (decodeRS m.data).2) := by
  have h1 : ¬ algSM2 = algRSAPSS := by decide
  have h2 : ¬ algSM2 = algRSASSA := by decide
  have h3 : ¬ algSM2 = algECDSA := by decide
  simp [signatureData, h, h1, h2, h3, hl]

theorem rsWidth_256 (r s : Nat) (hr : r < 2 ^ 256) (hs : s < 2 ^ 256) : rsWidth r s = some 32 := by
  simp [rsWidth, hr, hs]

theorem detectScheme_ecdsa (S : Signers) (signAlgo : Alg) (sk : S.ECPriv) (hs : signAlgo = 0 ∨ signAlgo = algECDSA) :
    detectScheme S signAlgo (.ecdsa sk) = algECDSA := by
  rcases hs with rfl | rfl <;> simp [detectScheme, algECDSA]

theorem detectScheme_sm2 (S : Signers) (signAlgo : Alg) (sk : S.SM2Priv) (hs : signAlgo = 0 ∨ signAlgo = algSM2) :
    detectScheme S signAlgo (.sm2 sk) = algSM2 := by
  rcases hs with rfl | rfl <;> simp [detectScheme, algSM2]

/-- ECDSA: the stored signature is fixed width, decodes to what the signer produced and verifies
    under the standard algorithm with the recorded hash; the stored key decodes to the signer's -/
theorem setSignature_ecdsa_stored (P : Prims) (S : Signers) (L : S.Lawful P)
    (ks : KeySignature) (signAlgo hashAlgo : Alg) (sk : S.ECPriv) (rnd data : Bytes)
    (hx : (S.ecPub sk).x < 2 ^ 256) (hy : (S.ecPub sk).y < 2 ^ 256)
    (hs : signAlgo = 0 ∨ signAlgo = algECDSA)
    (hh : hashSupported (recordedHash algECDSA hashAlgo) = true) :
    ∃ ks', setSignature P S ks signAlgo hashAlgo (.ecdsa sk) rnd data = .ok ks' ∧
      ks'.sig.hashAlg = recordedHash algECDSA hashAlgo ∧
      ks'.sig.data.length = 64 ∧
      signatureData ks'.sig = .ok (.ecdsa (S.ecSign sk rnd (P.hash ks'.sig.hashAlg data)).1
                                           (S.ecSign sk rnd (P.hash ks'.sig.hashAlg data)).2) ∧
      S.ecVerify (S.ecPub sk) (P.hash ks'.sig.hashAlg data) (S.ecSign sk rnd (P.hash ks'.sig.hashAlg data)).1
          (S.ecSign sk rnd (P.hash ks'.sig.hashAlg data)).2 = true ∧
      pubKey ks'.key = .ok (.ecc (S.ecPub sk)) := by
  obtain ⟨key, hk1, hk2⟩ := pubKey_setPubKeyEC algECC (S.ecPub sk) (.inl rfl) hx hy
  have hd := detectScheme_ecdsa S signAlgo sk hs
  have e : (256 : Nat) ^ 32 = 2 ^ 256 := by decide
  have h1 : ¬ algECDSA = algRSAPSS := by decide
  have h2 : ¬ algECDSA = algRSASSA := by decide
  obtain ⟨hr, hs'⟩ := L.ec_range sk rnd (P.hash (recordedHash algECDSA hashAlgo) data)
  have hnd : newSignatureData P S signAlgo hashAlgo (.ecdsa sk) rnd data =
      .ok (.ecdsa (S.ecSign sk rnd (P.hash (recordedHash algECDSA hashAlgo) data)).1
                  (S.ecSign sk rnd (P.hash (recordedHash algECDSA hashAlgo) data)).2) := by
    unfold newSignatureData
    simp [hd, h1, h2, hh]
  unfold setSignature sigSetSignature
  simp only [setPubKey, hk1, hnd, setSignatureByData, signatureBytes, rsWidth_256 _ _ hr hs', schemeOf]
  refine ⟨_, rfl, rfl, ?_, ?_, ?_, by simpa using hk2⟩
  · simp [encodeRS_length]
  · rw [signatureData_ecdsa64 _ rfl (by simp [encodeRS_length])]
    simp only
    rw [decodeRS_encodeRS 32 _ _ (by omega) (by omega)]
  · exact L.ec_correct sk rnd _

/-! ### bg -/
theorem bg_verify_ok_iff (P : Prims) (ks : KeySignature) (d : Bytes) :
    Bg.verify P ks d = .ok () ↔
      ks.sig.sigScheme = algRSASSA ∧ ks.key.keyAlg = algRSA ∧ ks.key.data.length = ks.key.keySize / 8 + 4 ∧
      P.rsaVerify .pkcs1v15 algSHA256 (decodeRSA ks.key.data) (P.hash algSHA256 d) ks.sig.data = true := by
  unfold Bg.verify Bg.signatureData Bg.pubKey inBytes
  by_cases h1 : ks.sig.sigScheme = algRSASSA
  · by_cases h2 : ks.key.keyAlg = algRSA
    · by_cases h3 : ks.key.data.length = ks.key.keySize / 8 + 4
      · cases hv : P.rsaVerify .pkcs1v15 algSHA256 (decodeRSA ks.key.data) (P.hash algSHA256 d) ks.sig.data <;>
          simp [h1, h2, h3, hv]
      · simp [h1, h2, h3]
    · simp [h1, h2]
  · simp [h1]

theorem bg_setSignature_verify (P : Prims) (S : Signers) (L : S.Lawful P) (hH : LawfulHash P)
    (ks : KeySignature) (signAlgo : Alg) (sk : S.RSAPriv) (rnd data : Bytes)
    (he : (S.rsaPub sk).e < 2 ^ 32) (hn : byteLen (S.rsaPub sk).n < 8192)
    (hs : signAlgo = 0 ∨ signAlgo = algRSASSA) :
    ∃ ks', Bg.setSignature P S ks signAlgo sk rnd data = .ok ks' ∧ Bg.verify P ks' data = .ok () := by
  have hsch : (if signAlgo = 0 then algRSASSA else signAlgo) = algRSASSA := by
    rcases hs with rfl | rfl <;> simp
  unfold Bg.setSignature
  simp only [hsch, ne_eq, not_true_eq_false, if_false]
  refine ⟨_, rfl, ?_⟩
  rw [bg_verify_ok_iff]
  refine ⟨rfl, rfl, ?_, ?_⟩
  · show (leN 4 _ ++ leN (byteLen _) _).length = setInBytes (byteLen _) / 8 + 4
    rw [setInBytes_div _ hn]; simp; omega
  · show P.rsaVerify .pkcs1v15 _ (decodeRSA (setPubKeyRSA (S.rsaPub sk)).data) _ _ = true
    rw [decodeRSA_setPubKeyRSA _ he]
    exact L.rsa_correct .pkcs1v15 _ sk rnd _ (hH _ _)


/-! ### IBB -/
theorem validateIBB_ok_iff (P : Prims) (supported : Alg → Bool) (digest : Option (Alg × Bytes)) (segs : List IBBSegment)
    (fw : Bytes) :
    validateIBB P supported digest segs fw = .ok () ↔
      ∃ alg buf, digest = some (alg, buf) ∧ supported alg = true ∧
        (ibbRanges segs fw.length).all (rangeOK fw.length) = true ∧
        P.hash alg (gather fw (ibbRanges segs fw.length)) = buf := by
  unfold validateIBB
  cases digest with
  | none => simp
  | some d =>
    obtain ⟨alg, buf⟩ := d
    constructor
    · intro h
      simp only at h
      split at h
      · cases h
      rename_i c1
      split at h
      · cases h
      rename_i c2
      split at h
      · rename_i c3
        exact ⟨alg, buf, rfl, by simpa using c1, by simpa using c2, c3⟩
      · cases h
    · rintro ⟨a, b, he, h1, h2, h3⟩
      cases he
      simp only
      rw [if_neg (by simp [h1]), if_neg (by simp [h2]), if_pos h3]

theorem validateIBB_agree (P : Prims) (supported : Alg → Bool) (digest : Option (Alg × Bytes)) (segs : List IBBSegment)
    (fw fw' : Bytes) (h : AgreeOn (InRanges (ibbRanges segs fw.length)) fw fw') :
    validateIBB P supported digest segs fw = validateIBB P supported digest segs fw' := by
  have hl : fw'.length = fw.length := h.1.symm
  have hg : gather fw (ibbRanges segs fw.length) = gather fw' (ibbRanges segs fw.length) :=
    gather_agree h _ (fun _ hi => hi)
  unfold validateIBB
  rw [hl, hg]

/-- what one loop iteration accepts -/
def BPMEntryOK (P : Prims) (key : Key) (h : KMHash) : Prop :=
  hashSupported h.hashAlg = true ∧ key.keyAlg = algRSA ∧ 4 ≤ key.data.length ∧
  h.buf = P.hash h.hashAlg (key.data.drop 4)

theorem checkBPMEntry_true_iff (P : Prims) (hH : LawfulHash P) (key : Key) (h : KMHash) :
    checkBPMEntry P key h = .ok true ↔ usageBPM h.usage = true ∧ BPMEntryOK P key h := by
  constructor
  · intro hc
    unfold checkBPMEntry at hc
    split at hc
    · cases hc
    rename_i c0
    split at hc
    · cases hc
    rename_i c1
    split at hc
    · cases hc
    split at hc
    · cases hc
    rename_i c3
    split at hc
    · cases hc
    rename_i c4
    split at hc
    · cases hc
    rename_i c5
    exact ⟨by simpa using c0, by simpa using c1, by simpa using c3, by omega, by simpa using c5⟩
  · rintro ⟨u, s, k, l, b⟩
    unfold checkBPMEntry
    rw [if_neg (by simp [u]), if_neg (by simp [s]), if_neg (by rw [b]; simp [hH _ _]), if_neg (by simp [k]),
      if_neg (by omega), if_neg (by simp [← b])]

theorem checkBPMEntry_false_iff (P : Prims) (key : Key) (h : KMHash) :
    checkBPMEntry P key h = .ok false ↔ usageBPM h.usage = false := by
  constructor
  · intro hc
    unfold checkBPMEntry at hc
    split at hc
    · assumption
    repeat' split at hc
    all_goals cases hc
  · intro u
    unfold checkBPMEntry
    rw [if_pos u]

theorem bpmLoop_ok_iff (P : Prims) (hH : LawfulHash P) (key : Key) (hs : List KMHash) (n m : Nat) :
    bpmLoop P key hs n = .ok m ↔
      (∀ h ∈ hs, usageBPM h.usage = true → BPMEntryOK P key h) ∧
      m = n + (hs.filter (fun h => usageBPM h.usage)).length := by
  induction hs generalizing n with
  | nil =>
    simp only [bpmLoop, List.not_mem_nil, false_imp_iff, implies_true, List.filter_nil, List.length_nil,
      Nat.add_zero, true_and]
    constructor
    · intro h; cases h; rfl
    · intro h; rw [h]
  | cons h hs ih =>
    unfold bpmLoop
    cases hc : checkBPMEntry P key h with
    | error e =>
      simp only
      constructor
      · intro x; cases x
      · rintro ⟨hall, _⟩
        exfalso
        cases h0 : usageBPM h.usage with
        | true =>
          have := (checkBPMEntry_true_iff P hH key h).mpr ⟨h0, hall h List.mem_cons_self h0⟩
          rw [hc] at this; cases this
        | false =>
          have := (checkBPMEntry_false_iff P key h).mpr h0
          rw [hc] at this; cases this
    | ok b =>
      cases b with
      | true =>
        obtain ⟨h0, hok⟩ := (checkBPMEntry_true_iff P hH key h).mp hc
        simp only [ih, List.mem_cons, forall_eq_or_imp, List.filter_cons, h0, if_true, List.length_cons]
        constructor
        · rintro ⟨a, b⟩; exact ⟨⟨fun _ => hok, a⟩, by omega⟩
        · rintro ⟨⟨_, a⟩, b⟩; exact ⟨a, by omega⟩
      | false =>
        have h0 := (checkBPMEntry_false_iff P key h).mp hc
        simp only [ih, List.mem_cons, forall_eq_or_imp, List.filter_cons, h0, Bool.false_eq_true, if_false]
        constructor
        · rintro ⟨a, b⟩; exact ⟨⟨fun x => absurd x (by simp), a⟩, b⟩
        · rintro ⟨⟨_, a⟩, b⟩; exact ⟨a, b⟩

theorem validateBPMKey_ok_iff (P : Prims) (hH : LawfulHash P) (hs : List KMHash) (key : Key) :
    validateBPMKey P hs key = .ok () ↔
      (∃ h ∈ hs, usageBPM h.usage = true) ∧ ∀ h ∈ hs, usageBPM h.usage = true → BPMEntryOK P key h := by
  unfold validateBPMKey
  cases hl : bpmLoop P key hs 0 with
  | error e =>
    simp only
    constructor
    · intro x; cases x
    · rintro ⟨_, hall⟩
      have := (bpmLoop_ok_iff P hH key hs 0 _).mpr ⟨hall, rfl⟩
      rw [hl] at this; cases this
  | ok n =>
    obtain ⟨hall, hn⟩ := (bpmLoop_ok_iff P hH key hs 0 n).mp hl
    simp only
    by_cases h0 : n = 0
    · simp only [h0, if_true]
      constructor
      · intro x; cases x
      · rintro ⟨⟨h, hm, hu⟩, _⟩
        exfalso
        have : h ∈ hs.filter (fun h => usageBPM h.usage) := List.mem_filter.mpr ⟨hm, hu⟩
        have : 0 < (hs.filter (fun h => usageBPM h.usage)).length := List.length_pos_of_mem this
        omega
    · simp only [h0, if_false, true_iff]
      refine ⟨?_, hall⟩
      have : 0 < (hs.filter (fun h => usageBPM h.usage)).length := by omega
      obtain ⟨h, hm⟩ := List.exists_mem_of_length_pos this
      obtain ⟨a, b⟩ := List.mem_filter.mp hm
      exact ⟨h, a, b⟩

/-- SM2: the stored signature is fixed width, decodes to what the signer produced and verifies
    under the standard algorithm; the stored key decodes to the signer's coordinates -/
theorem setSignature_sm2_stored (P : Prims) (S : Signers) (L : S.Lawful P)
    (ks : KeySignature) (signAlgo hashAlgo : Alg) (sk : S.SM2Priv) (rnd data : Bytes)
    (hx : (S.sm2Pub sk).x < 2 ^ 256) (hy : (S.sm2Pub sk).y < 2 ^ 256)
    (hs : signAlgo = 0 ∨ signAlgo = algSM2) :
    ∃ ks', setSignature P S ks signAlgo hashAlgo (.sm2 sk) rnd data = .ok ks' ∧
      ks'.sig.hashAlg = recordedHash algSM2 hashAlgo ∧
      ks'.sig.data.length = 64 ∧
      signatureData ks'.sig = .ok (.sm2 (S.sm2Sign sk rnd data).1 (S.sm2Sign sk rnd data).2) ∧
      S.sm2Verify (S.sm2Pub sk) data (S.sm2Sign sk rnd data).1 (S.sm2Sign sk rnd data).2 = true ∧
      pubKey ks'.key = .ok (.sm2 (S.sm2Pub sk)) := by
  obtain ⟨key, hk1, hk2⟩ := pubKey_setPubKeyEC algSM2 (S.sm2Pub sk) (.inr rfl) hx hy
  have hd := detectScheme_sm2 S signAlgo sk hs
  have e : (256 : Nat) ^ 32 = 2 ^ 256 := by decide
  have h1 : ¬ algSM2 = algRSAPSS := by decide
  have h2 : ¬ algSM2 = algRSASSA := by decide
  have h3 : ¬ algSM2 = algECDSA := by decide
  have h4 : ¬ algSM2 = algECC := by decide
  obtain ⟨hr, hs'⟩ := L.sm2_range sk rnd data
  have hnd : newSignatureData P S signAlgo hashAlgo (.sm2 sk) rnd data =
      .ok (.sm2 (S.sm2Sign sk rnd data).1 (S.sm2Sign sk rnd data).2) := by
    unfold newSignatureData
    simp [hd, h1, h2, h3]
  unfold setSignature sigSetSignature
  simp only [setPubKey, hk1, hnd, setSignatureByData, signatureBytes, rsWidth_256 _ _ hr hs', schemeOf]
  refine ⟨_, rfl, rfl, ?_, ?_, ?_, by simpa [h4] using hk2⟩
  · simp [encodeRS_length]
  · rw [signatureData_sm2_64 _ rfl (by simp [encodeRS_length])]
    simp only
    rw [decodeRS_encodeRS 32 _ _ (by omega) (by omega)]
  · exact L.sm2_correct sk rnd _


/-- RSA: the digest that is signed is the digest of the hash that is recorded -/
theorem setSignature_rsa_recorded (P : Prims) (S : Signers)
    (ks : KeySignature) (signAlgo hashAlgo : Alg) (sk : S.RSAPriv) (rnd data : Bytes)
    (sch : RSAScheme) (hs : rsaSchemeOf (detectScheme S signAlgo (.rsa sk)) = some sch)
    (hh : rsaHashOK (recordedHash (detectScheme S signAlgo (.rsa sk)) hashAlgo) = true) :
    ∃ ks', setSignature P S ks signAlgo hashAlgo (.rsa sk) rnd data = .ok ks' ∧
      rsaSchemeOf ks'.sig.sigScheme = some sch ∧
      ks'.sig.data = S.rsaSign sch ks'.sig.hashAlg sk rnd (P.hash ks'.sig.hashAlg data) := by
  unfold setSignature sigSetSignature
  simp only [setPubKey]
  rw [newSignatureData_rsa P S signAlgo hashAlgo sk rnd data sch hs hh]
  cases sch with
  | pss =>
    simp only [setSignatureByData, signatureBytes, schemeOf]
    exact ⟨_, rfl, (by decide : rsaSchemeOf algRSAPSS = some .pss), rfl⟩
  | pkcs1v15 =>
    simp only [setSignatureByData, signatureBytes, schemeOf]
    exact ⟨_, rfl, (by decide : rsaSchemeOf algRSASSA = some .pkcs1v15), rfl⟩

end Fiano.Crypto.Cbnt
