/-
  C16 — third-party cryptographic behaviour as *parameters*.

  Hash functions (Go crypto/sha*, tjfoc/gmsm sm3) and signature primitives (crypto/rsa,
  crypto/ecdsa, tjfoc/gmsm sm2) are not modelled: they are fields of the structures below.
  What the theorems assume about them is spelled out as explicit `Prop` structures
  (`LawfulHash`, `Signers.Lawful`) that appear as hypotheses — never as axioms — and every
  structure has a concrete toy instance (end of this file) so that no theorem is vacuous.
  Core Lean only.
-/
import FianoModel.Base.Bytes

namespace Fiano.Crypto

/-- TPM algorithm identifier (`cbnt.Algorithm`, `bg.Algorithm`: uint16) -/
abbrev Alg := Nat

/-- an RSA public key as handed to crypto/rsa (`rsa.PublicKey{N, E}`) -/
structure RSAPub where
  n : Nat
  e : Nat
  deriving DecidableEq, Repr, Inhabited

/-- an elliptic-curve public key (affine coordinates) -/
structure ECPub where
  x : Nat
  y : Nat
  deriving DecidableEq, Repr, Inhabited

inductive RSAScheme where
  | pkcs1v15   -- rsa.VerifyPKCS1v15 / SignPKCS1v15   (RSASSA)
  | pss        -- rsa.VerifyPSS / SignPSS, salt length "auto"   (RSAPSS)
  deriving DecidableEq, Repr, Inhabited

/-- the primitives the *verification* routines call -/
structure Prims where
  /-- digest of the named algorithm over a byte string (hash.Hash: Write*, Sum(nil)) -/
  hash : Alg → Bytes → Bytes
  /-- `rsa.VerifyPKCS1v15(pk, hashfunc, digest, sig)` / `rsa.VerifyPSS(pk, hashfunc, digest, sig, auto)` -/
  rsaVerify : RSAScheme → Alg → RSAPub → Bytes → Bytes → Bool

/-- digest sizes of the Go hash implementations (`hash.Hash.Size()`) -/
def hashSize (a : Alg) : Nat :=
  if a = 0x04 then 20        -- SHA1
  else if a = 0x0B then 32   -- SHA256
  else if a = 0x0C then 48   -- SHA384
  else if a = 0x0D then 64   -- SHA512
  else if a = 0x12 then 32   -- SM3
  else 0

/-- assumed law: a digest has the size its algorithm announces -/
def LawfulHash (P : Prims) : Prop := ∀ a d, (P.hash a d).length = hashSize a

/-- the primitives the *signing* routines call (private keys are opaque) -/
structure Signers where
  RSAPriv : Type
  rsaPub  : RSAPriv → RSAPub
  /-- `priv.Sign(rand, digest, opts)`; `rnd` stands for what is read from `cbnt.RandReader` -/
  rsaSign : RSAScheme → Alg → RSAPriv → (rnd : Bytes) → (digest : Bytes) → Bytes
  ECPriv  : Type
  ecPub   : ECPriv → ECPub
  /-- ECDSA over a digest: `(r, s)` -/
  ecSign  : ECPriv → (rnd : Bytes) → (digest : Bytes) → Nat × Nat
  /-- `ecdsa.Verify(pub, digest, r, s)` -/
  ecVerify : ECPub → Bytes → Nat → Nat → Bool
  SM2Priv : Type
  sm2Pub  : SM2Priv → ECPub
  /-- `sm2.Sm2Sign(priv, msg, uid, rand)` (SM3 with the ZA prefix is internal to the primitive) -/
  sm2Sign : SM2Priv → (rnd : Bytes) → (msg : Bytes) → Nat × Nat
  /-- `sm2.Sm2Verify(pub, msg, uid, r, s)` -/
  sm2Verify : ECPub → Bytes → Nat → Nat → Bool

/-- assumed laws of the signing primitives: correctness (what is signed verifies) and the range
    of ECDSA / SM2 signature components (`0 < r, s < n < 2^256` for the 256-bit curves) -/
structure Signers.Lawful (P : Prims) (S : Signers) : Prop where
  rsa_correct : ∀ sch hf sk rnd d, d.length = hashSize hf →
      P.rsaVerify sch hf (S.rsaPub sk) d (S.rsaSign sch hf sk rnd d) = true
  ec_correct : ∀ sk rnd d, S.ecVerify (S.ecPub sk) d (S.ecSign sk rnd d).1 (S.ecSign sk rnd d).2 = true
  ec_range : ∀ sk rnd d, (S.ecSign sk rnd d).1 < 2 ^ 256 ∧ (S.ecSign sk rnd d).2 < 2 ^ 256
  sm2_correct : ∀ sk rnd m, S.sm2Verify (S.sm2Pub sk) m (S.sm2Sign sk rnd m).1 (S.sm2Sign sk rnd m).2 = true
  sm2_range : ∀ sk rnd m, (S.sm2Sign sk rnd m).1 < 2 ^ 256 ∧ (S.sm2Sign sk rnd m).2 < 2 ^ 256

/-! ### a concrete toy instance (non-vacuity of every conditional theorem) -/

namespace Toy

/-- byte sum -/
def sum8 (d : Bytes) : Nat := d.foldl (fun acc x => (acc + x.toNat) % 256) 0

/-- toy digest: `[alg, Σ bytes, |d|, 0, 0, …]` cut to the size of the algorithm -/
def hash (a : Alg) (d : Bytes) : Bytes :=
  ([UInt8.ofNat a, UInt8.ofNat (sum8 d), UInt8.ofNat d.length] ++ List.replicate (hashSize a) 0).take (hashSize a)

/-- toy "signature": a keyed checksum of (scheme, hash id, key, digest); it is *not* secure,
    it only has the input/output shape and the correctness law of the real primitive -/
def tag (sch : RSAScheme) (hf : Alg) (k : RSAPub) (d : Bytes) : Bytes :=
  leN 4 ((if sch = .pss then 1 else 0) + 2 * hf + 7 * k.e + 13 * k.n + 31 * fromLE d)

def prims : Prims where
  hash := hash
  rsaVerify := fun sch hf k d s => decide (s = tag sch hf k d)

def ecTag (k : ECPub) (d : Bytes) : Nat × Nat := ((k.x + fromLE d) % 2 ^ 256, (k.y + 3 * fromLE d) % 2 ^ 256)

def signers : Signers where
  RSAPriv := RSAPub
  rsaPub := id
  rsaSign := fun sch hf sk _ d => tag sch hf sk d
  ECPriv := ECPub
  ecPub := id
  ecSign := fun sk _ d => ecTag sk d
  ecVerify := fun k d r s => decide ((r, s) = ecTag k d)
  SM2Priv := ECPub
  sm2Pub := id
  sm2Sign := fun sk _ m => ecTag sk m
  sm2Verify := fun k m r s => decide ((r, s) = ecTag k m)

theorem hash_lawful : LawfulHash prims := by
  intro a d
  show (hash a d).length = hashSize a
  simp only [hash, List.length_take, List.length_append, List.length_cons, List.length_nil,
    List.length_replicate]
  omega

theorem signers_lawful : signers.Lawful prims where
  rsa_correct := by intro sch hf sk rnd d _; simp [prims, signers, id]
  ec_correct := by intro sk rnd d; simp [signers, id]
  ec_range := by
    intro sk rnd d
    exact ⟨Nat.mod_lt _ (by decide), Nat.mod_lt _ (by decide)⟩
  sm2_correct := by intro sk rnd m; simp [signers, id]
  sm2_range := by
    intro sk rnd m
    exact ⟨Nat.mod_lt _ (by decide), Nat.mod_lt _ (by decide)⟩

end Toy

end Fiano.Crypto
