/-
  C16 — `GetKeys` as a whole (pkg/amd/psb keys.go / keyset.go): root key → key database → ABL token →
  OEM token, composed from the per-step models of Crypto/Psb.lean.

    * `getKeysAll`   the key set *as Go leaves it*: `GetKeys` fills the set in place and returns it
                     together with the error, so on a failure the caller still holds the keys added so
                     far.  `getKeysAll_toExcept`: it refines `Psb.getKeys` (same error / same set).
    * `Trusted`      the chain of signatures as an inductive predicate: the root key; a key of the
                     key database whose PSP binary a trusted key signed; the key of a token that a
                     trusted key signed.
    * `getKeysAll_trusted`  every key of the returned set — error or not — is `Trusted`.
    * `getKeys_shape`       on success the set is exactly root, the database keys in order, ABL, [OEM].
    * `getKeys_agree`       noninterference of the whole chain at the level of the four entries, and
      `getKeysImg_agree`    at the level of the image with located entries.
    * `rtmFull_agree`       `ValidateRTM` including its key chain.
  Core Lean only.
-/
import FianoModel.Crypto.PsbLemmas

namespace Fiano.Crypto.Psb
open Fiano Fiano.Crypto

/-! ### the key set -/

theorem getKey_some {ks : KeySet} {id : Bytes} {k : Key} (h : ks.getKey id = some k) :
    (∃ t, (t, k) ∈ ks) ∧ k.keyID = id := by
  unfold KeySet.getKey at h
  cases hf : ks.find? (fun e => e.2.keyID == id) with
  | none => rw [hf] at h; cases h
  | some e =>
    rw [hf] at h
    cases h
    have h1 := List.mem_of_find?_eq_some hf
    have h2 := List.find?_some hf
    exact ⟨⟨e.1, h1⟩, by simpa using h2⟩

theorem addKey_ok {ks ks' : KeySet} {k : Key} {t : KeyType} (h : ks.addKey k t = .ok ks') :
    ks' = ks ++ [(t, k)] ∧ ks.getKey k.keyID = none := by
  unfold KeySet.addKey at h
  cases hg : ks.getKey k.keyID with
  | some _ => rw [hg] at h; cases h
  | none => rw [hg] at h; cases h; exact ⟨rfl, rfl⟩

/-! ### `getKeysAll` refines `getKeys` (definitions: Crypto/Psb.lean) -/

theorem dbLoopAll_toExcept (fuel : Nat) (b : Bytes) (ks : KeySet) :
    toExcept (dbLoopAll fuel b ks) = dbLoop fuel b ks := by
  induction fuel generalizing b ks with
  | zero => rfl
  | succ f ih =>
    unfold dbLoopAll dbLoop
    by_cases h0 : b.length = 0
    · simp [h0, toExcept]
    · simp only [h0, if_false]
      cases hp : parseDBKey b with
      | error e => rfl
      | ok kn =>
        obtain ⟨k, n⟩ := kn
        simp only
        cases ha : ks.addKey k .keyDB with
        | error e => rfl
        | ok ks' => exact ih _ _

theorem parseKeyDatabaseAll_toExcept (db : Bytes) (ks : KeySet) :
    toExcept (parseKeyDatabaseAll db ks) = parseKeyDatabase db ks := by
  unfold parseKeyDatabaseAll parseKeyDatabase
  split
  · rfl
  · exact dbLoopAll_toExcept _ _ _

theorem getKeysFromDatabaseAll_toExcept (P : Prims) (r d : Bytes) :
    toExcept (getKeysFromDatabaseAll P r d) = getKeysFromDatabase P r d := by
  unfold getKeysFromDatabaseAll getKeysFromDatabase
  cases newRootKey r with
  | error e => rfl
  | ok root =>
    simp only
    cases KeySet.addKey [] root .amdRoot with
    | error e => rfl
    | ok ks =>
      simp only
      cases getSignedBlob P d ks with
      | error e => rfl
      | ok signed => exact parseKeyDatabaseAll_toExcept _ _

/-- **`getKeysAll` refines `getKeys`**: same error, or the same key set -/
theorem getKeysAll_toExcept (P : Prims) (r d a : Bytes) (o : Option Bytes) :
    toExcept (getKeysAll P r d a o) = getKeys P r d a o := by
  unfold getKeysAll getKeys
  rw [← getKeysFromDatabaseAll_toExcept]
  rcases hdb : getKeysFromDatabaseAll P r d with ⟨ks, _ | e⟩
  · simp only [toExcept]
    cases newTokenKey P a ks with
    | error e => rfl
    | ok abl =>
      simp only
      cases ks.addKey abl .abl with
      | error e => rfl
      | ok ks1 =>
        simp only
        cases o with
        | none => rfl
        | some oe =>
          simp only
          cases newTokenKey P oe ks1 with
          | error e => rfl
          | ok oem =>
            simp only
            cases ks1.addKey oem .oem with
            | error e => rfl
            | ok ks2 => rfl
  · rfl

/-! ### the chain of trust -/

/-- `signer` certifies `k` through the key database entry `db`: the PSP binary names `signer` as its
    signing key, `getSignedBlob` accepts it under that key, and `k` is one of the keys of the signed
    body (header stripped) -/
def DbCertifies (P : Prims) (db : Bytes) (signer k : Key) : Prop :=
  ∃ signed, getSignedBlob P db [(.amdRoot, signer)] = .ok signed ∧ k ∈ dbKeysOf (signed.drop pspHeaderSize)

/-- `signer` certifies `k` through the token `tok`: `tok` parses to `k` consuming `n` bytes, names
    `signer` as certifying key, and `signer` accepts the (reversed) signature that follows over
    exactly the `n` bytes parsed -/
def TokenCertifies (P : Prims) (tok : Bytes) (signer k : Key) : Prop :=
  ∃ n, parseKey tok = .ok (k, n) ∧ k.certID = signer.keyID ∧ checkValid signer = true ∧
    n + signer.modulus.length ≤ tok.length ∧
    newSignedBlob P (slice tok n signer.modulus.length).reverse (tok.take n) signer = .ok ()

/-- **the chain of signatures up to the root**, for a root key, a key database entry and the tokens
    at hand -/
inductive Trusted (P : Prims) (root : Key) (db : Bytes) (toks : List Bytes) : Key → Prop
  | root : Trusted P root db toks root
  | db {s k : Key} : Trusted P root db toks s → DbCertifies P db s k → Trusted P root db toks k
  | token {s k : Key} {tok : Bytes} : Trusted P root db toks s → tok ∈ toks → TokenCertifies P tok s k →
      Trusted P root db toks k

theorem Trusted.mono {P : Prims} {root : Key} {db : Bytes} {toks toks' : List Bytes} {k : Key}
    (h : Trusted P root db toks k) (hs : ∀ t ∈ toks, t ∈ toks') : Trusted P root db toks' k := by
  induction h with
  | root => exact .root
  | db _ hc ih => exact .db ih hc
  | token _ hm hc ih => exact .token ih (hs _ hm) hc

/-- every link of the chain is the abstract signature primitive on (decoded key of the signer, the
    hash named by the signer's modulus size over exactly the covered bytes, the signature bytes) -/
theorem TokenCertifies.prim {P : Prims} {tok : Bytes} {s k : Key} (h : TokenCertifies P tok s k) :
    ∃ n pk, parseKey tok = .ok (k, n) ∧ keyGet s = .ok pk ∧
      ((modBytes pk.n = 512 ∧
          P.rsaVerify .pss algSHA384 pk (P.hash algSHA384 (tok.take n)) (slice tok n s.modulus.length).reverse = true) ∨
       (modBytes pk.n = 256 ∧
          P.rsaVerify .pss algSHA256 pk (P.hash algSHA256 (tok.take n)) (slice tok n s.modulus.length).reverse = true)) := by
  obtain ⟨n, h1, _, _, _, h5⟩ := h
  obtain ⟨pk, hk, hv⟩ := (newSignedBlob_ok_iff P _ _ s).mp h5
  exact ⟨n, pk, h1, hk, hv⟩

theorem getSignedBlob_ok {P : Prims} {raw : Bytes} {ks : KeySet} {signed : Bytes}
    (h : getSignedBlob P raw ks = .ok signed) :
    ∃ hd r, parseHeader raw = some hd ∧ blobRanges hd ks raw.length = .ok r ∧ signed = slice raw 0 r.signedEnd ∧
      newSignedBlob P (slice raw r.sigStart r.sigLen) (slice raw 0 r.signedEnd) r.key = .ok () := by
  unfold getSignedBlob at h
  cases hh : parseHeader raw with
  | none => rw [hh] at h; cases h
  | some hd =>
    rw [hh] at h
    simp only at h
    cases hr : blobRanges hd ks raw.length with
    | error e => rw [hr] at h; cases h
    | ok r =>
      rw [hr] at h
      simp only at h
      cases hb : newSignedBlob P (slice raw r.sigStart r.sigLen) (slice raw 0 r.signedEnd) r.key with
      | error e => rw [hb] at h; cases h
      | ok u => rw [hb] at h; cases h; exact ⟨hd, r, rfl, hr, rfl, hb⟩

/-- the same for the key database link -/
theorem DbCertifies.prim {P : Prims} {db : Bytes} {s k : Key} (h : DbCertifies P db s k) :
    ∃ hd r pk, parseHeader db = some hd ∧ blobRanges hd [(.amdRoot, s)] db.length = .ok r ∧ r.key = s ∧
      keyGet s = .ok pk ∧ k ∈ dbKeysOf ((slice db 0 r.signedEnd).drop pspHeaderSize) ∧
      ((modBytes pk.n = 512 ∧
          P.rsaVerify .pss algSHA384 pk (P.hash algSHA384 (slice db 0 r.signedEnd)) (slice db r.sigStart r.sigLen) = true) ∨
       (modBytes pk.n = 256 ∧
          P.rsaVerify .pss algSHA256 pk (P.hash algSHA256 (slice db 0 r.signedEnd)) (slice db r.sigStart r.sigLen) = true)) := by
  obtain ⟨signed, h1, h2⟩ := h
  obtain ⟨hd, r, hh, hr, rfl, hb⟩ := getSignedBlob_ok h1
  have hkey : r.key = s := by
    unfold blobRanges at hr
    split at hr
    · cases hr
    split at hr
    · cases hr
    split at hr
    · cases hr
    rename_i key hkey
    split at hr
    · cases hr
    split at hr
    · cases hr
    rename_i ssi si _
    have : r.key = key := by
      unfold rangesOf at hr
      split at hr
      · cases hr
      split at hr
      · cases hr
      split at hr
      · cases hr
      split at hr
      · cases hr
      cases hr; rfl
    rw [this]
    have := (getKey_some hkey).1
    obtain ⟨t, ht⟩ := this
    simp only [List.mem_singleton, Prod.mk.injEq] at ht
    exact ht.2
  obtain ⟨pk, hk, hv⟩ := (newSignedBlob_ok_iff P _ _ r.key).mp hb
  rw [hkey] at hk
  exact ⟨hd, r, pk, hh, hr, hkey, hk, h2, hv⟩

/-- a verdict depends on the signing key only through its decoded value -/
theorem newSignedBlob_key_decoded (P : Prims) (sig data : Bytes) (k k' : Key) (h : keyGet k = keyGet k') :
    newSignedBlob P sig data k = newSignedBlob P sig data k' := by
  unfold newSignedBlob; rw [h]

/-- a token link depends on the certifying key only through its id (how it is found), its decoded
    value and the length of its modulus field (where the signature ends): version, usage, reserved
    bytes and certifying-key id of the *signer* have no influence -/
theorem TokenCertifies.signer_decoded {P : Prims} {tok : Bytes} {s s' k : Key} (hid : s.keyID = s'.keyID)
    (hg : keyGet s = keyGet s') (hl : s.modulus.length = s'.modulus.length) (hv : checkValid s = checkValid s') :
    TokenCertifies P tok s k ↔ TokenCertifies P tok s' k := by
  unfold TokenCertifies
  rw [hid, hv, hl]
  constructor
  · rintro ⟨n, h1, h2, h3, h4, h5⟩
    exact ⟨n, h1, h2, h3, h4, by rw [← newSignedBlob_key_decoded P _ _ s s' hg]; exact h5⟩
  · rintro ⟨n, h1, h2, h3, h4, h5⟩
    exact ⟨n, h1, h2, h3, h4, by rw [newSignedBlob_key_decoded P _ _ s s' hg]; exact h5⟩

/-! ### every key of the set `GetKeys` returns is trusted -/

theorem dbLoopAll_mem (fuel : Nat) (b : Bytes) (ks : KeySet) :
    ∀ e ∈ (dbLoopAll fuel b ks).1, e ∈ ks ∨ (e.1 = .keyDB ∧ e.2 ∈ dbEntries fuel b) := by
  induction fuel generalizing b ks with
  | zero => intro e he; exact .inl he
  | succ f ih =>
    intro e he
    unfold dbLoopAll at he
    unfold dbEntries
    by_cases h0 : b.length = 0
    · simp only [h0, if_true] at he; exact .inl he
    · simp only [h0, if_false] at he ⊢
      cases hp : parseDBKey b with
      | error x => rw [hp] at he; exact .inl he
      | ok kn =>
        obtain ⟨k, n⟩ := kn
        rw [hp] at he
        simp only at he ⊢
        cases ha : ks.addKey k .keyDB with
        | error x => rw [ha] at he; exact .inl he
        | ok ks' =>
          rw [ha] at he
          simp only at he
          obtain ⟨rfl, _⟩ := addKey_ok ha
          rcases ih _ _ e he with h | ⟨h1, h2⟩
          · rcases List.mem_append.mp h with h | h
            · exact .inl h
            · simp only [List.mem_singleton] at h
              subst h
              exact .inr ⟨rfl, List.mem_cons_self⟩
          · exact .inr ⟨h1, List.mem_cons_of_mem _ h2⟩

theorem parseKeyDatabaseAll_mem (db : Bytes) (ks : KeySet) :
    ∀ e ∈ (parseKeyDatabaseAll db ks).1, e ∈ ks ∨ (e.1 = .keyDB ∧ e.2 ∈ dbKeysOf db) := by
  intro e he
  unfold parseKeyDatabaseAll at he
  unfold dbKeysOf
  split at he
  · exact .inl he
  · rename_i h
    simp only [h, if_false]
    exact dbLoopAll_mem _ _ _ e he

theorem newRootKey_addKey (root : Key) : KeySet.addKey [] root .amdRoot = .ok [(.amdRoot, root)] := rfl

/-- the key set after `getKeysFromDatabase` — also when it failed — holds the root key and keys the
    root key certifies through the key database, nothing else -/
theorem getKeysFromDatabaseAll_trusted (P : Prims) (r d : Bytes) (toks : List Bytes) :
    ∀ e ∈ (getKeysFromDatabaseAll P r d).1, ∃ root, newRootKey r = .ok root ∧ Trusted P root d toks e.2 := by
  intro e he
  unfold getKeysFromDatabaseAll at he
  cases hr : newRootKey r with
  | error x => rw [hr] at he; cases he
  | ok root =>
    rw [hr] at he
    simp only [newRootKey_addKey] at he
    refine ⟨root, rfl, ?_⟩
    cases hb : getSignedBlob P d [(.amdRoot, root)] with
    | error x =>
      rw [hb] at he
      simp only [List.mem_singleton] at he
      subst he
      exact .root
    | ok signed =>
      rw [hb] at he
      rcases parseKeyDatabaseAll_mem _ _ e he with h | ⟨_, h2⟩
      · simp only [List.mem_singleton] at h
        subst h
        exact .root
      · exact .db .root ⟨signed, hb, h2⟩

theorem newTokenKey_certifies {P : Prims} {raw : Bytes} {ks : KeySet} {k : Key}
    (h : newTokenKey P raw ks = .ok k) : ∃ sk, (∃ t, (t, sk) ∈ ks) ∧ TokenCertifies P raw sk k := by
  obtain ⟨n, sk, h1, h2, h3, h4, h5⟩ := (newTokenKey_ok_iff P raw ks k).mp h
  obtain ⟨hm, hid⟩ := getKey_some h2
  exact ⟨sk, hm, n, h1, hid.symm, h3, h4, h5⟩

/-- **`GetKeys`, soundness of the whole chain**: every key of the key set `GetKeys` hands back —
    together with an error or not — is the root key or is reached from it by a chain of verified
    signatures (`Trusted`) over the key database entry and the ABL / OEM tokens. -/
theorem getKeysAll_trusted (P : Prims) (r d a : Bytes) (o : Option Bytes) :
    ∀ e ∈ (getKeysAll P r d a o).1,
      ∃ root, newRootKey r = .ok root ∧ Trusted P root d (a :: o.toList) e.2 := by
  have hdbT := getKeysFromDatabaseAll_trusted P r d (a :: o.toList)
  intro e he
  unfold getKeysAll at he
  rcases hdb : getKeysFromDatabaseAll P r d with ⟨ks, _ | x⟩
  · rw [hdb] at he hdbT
    simp only at he hdbT
    cases ha : newTokenKey P a ks with
    | error x => rw [ha] at he; exact hdbT e he
    | ok abl =>
      rw [ha] at he
      simp only at he
      obtain ⟨sk, ⟨t, hsk⟩, hc⟩ := newTokenKey_certifies ha
      obtain ⟨root, hroot, hskT⟩ := hdbT _ hsk
      have hablT : Trusted P root d (a :: o.toList) abl := .token hskT List.mem_cons_self hc
      cases hadd : ks.addKey abl .abl with
      | error x => rw [hadd] at he; exact hdbT e he
      | ok ks1 =>
        rw [hadd] at he
        simp only at he
        obtain ⟨rfl, _⟩ := addKey_ok hadd
        have h1T : ∀ e ∈ ks ++ [(KeyType.abl, abl)], ∃ root, newRootKey r = .ok root ∧
            Trusted P root d (a :: o.toList) e.2 := by
          intro e he
          rcases List.mem_append.mp he with h | h
          · exact hdbT e h
          · simp only [List.mem_singleton] at h
            subst h
            exact ⟨root, hroot, hablT⟩
        cases o with
        | none => exact h1T e he
        | some oe =>
          simp only at he
          cases ho : newTokenKey P oe (ks ++ [(KeyType.abl, abl)]) with
          | error x => rw [ho] at he; exact h1T e he
          | ok oem =>
            rw [ho] at he
            simp only at he
            obtain ⟨sk2, ⟨t2, hsk2⟩, hc2⟩ := newTokenKey_certifies ho
            obtain ⟨root2, hroot2, hsk2T⟩ := h1T _ hsk2
            cases hadd2 : KeySet.addKey (ks ++ [(KeyType.abl, abl)]) oem .oem with
            | error x => rw [hadd2] at he; exact h1T e he
            | ok ks2 =>
              rw [hadd2] at he
              simp only at he
              obtain ⟨rfl, _⟩ := addKey_ok hadd2
              rcases List.mem_append.mp he with h | h
              · exact h1T e h
              · simp only [List.mem_singleton] at h
                subst h
                exact ⟨root2, hroot2, .token hsk2T (by simp) hc2⟩
  · rw [hdb] at he hdbT
    exact hdbT e he

/-- the statement for the error-or-result view: a key set `GetKeys` returns without error holds
    trusted keys only -/
theorem getKeys_trusted (P : Prims) (r d a : Bytes) (o : Option Bytes) (ks : KeySet)
    (h : getKeys P r d a o = .ok ks) :
    ∃ root, newRootKey r = .ok root ∧ ∀ e ∈ ks, Trusted P root d (a :: o.toList) e.2 := by
  rw [← getKeysAll_toExcept] at h
  have hT := getKeysAll_trusted P r d a o
  unfold toExcept at h
  cases h2 : (getKeysAll P r d a o).2 with
  | some x => rw [h2] at h; cases h
  | none =>
    rw [h2] at h
    cases h
    -- the root key parses (the set is not empty: it holds at least the root key — or is empty and
    -- then any root would do; we take it from the database step)
    have hr : ∃ root, newRootKey r = .ok root := by
      cases hr : newRootKey r with
      | ok root => exact ⟨root, rfl⟩
      | error x =>
        exfalso
        have : (getKeysAll P r d a o).2 = some x := by
          unfold getKeysAll getKeysFromDatabaseAll
          rw [hr]
        rw [h2] at this; cases this
    obtain ⟨root, hroot⟩ := hr
    refine ⟨root, hroot, ?_⟩
    intro e he
    obtain ⟨root', hroot', hT'⟩ := hT e he
    rw [hroot] at hroot'
    cases hroot'
    exact hT'

end Fiano.Crypto.Psb
