/-
  C16 — model of the logic *around* the primitives in
    pkg/intel/metadata/cbnt/{key.go, signature.go, signature_types.go, key_signature.go}
    pkg/intel/metadata/cbnt/cbntkey/manifest.go        (ValidateBPMKey)
    pkg/intel/metadata/cbnt/cbntbootpolicy/manifest.go (IBBDataRanges, ValidateIBB)
    pkg/intel/metadata/bg/{key.go, signature*.go, key_signature.go}, bg/bgbootpolicy/manifest.go

  The model follows the code *as repaired* by fixes/C16-*.diff:
    * ecdsa-fixed-width      r, s stored on 32 (or 48) bytes each with leading zeros
    * ecc-pubkey-fixed-width x, y stored on 32 bytes each with leading zeros
    * sign-recorded-hash     the digest that is signed is the one of the recorded hash algorithm
    * auto-rsa-bits          scheme auto-detection looks at the modulus size in bits
  Hand-written; tied to the Go code by T1 (`Crypto/Tie.lean`) and T2 (harness/props/c16).
  Core Lean only.
-/
import FianoModel.Crypto.Prims

namespace Fiano.Crypto.Cbnt
open Fiano Fiano.Crypto

/-! ### algorithm identifiers (crypto_routines.go) -/

def algUnknown : Alg := 0x0000
def algRSA     : Alg := 0x0001
def algSHA1    : Alg := 0x0004
def algSHA256  : Alg := 0x000B
def algSHA384  : Alg := 0x000C
def algSHA512  : Alg := 0x000D
def algNull    : Alg := 0x0010
def algSM3     : Alg := 0x0012
def algRSASSA  : Alg := 0x0014
def algRSAPSS  : Alg := 0x0016
def algECDSA   : Alg := 0x0018
def algSM2     : Alg := 0x001b
def algECC     : Alg := 0x0023

/-- `Algorithm.IsNull` -/
def isNull (a : Alg) : Bool := a == algNull || a == algUnknown

/-- `Algorithm.Hash()` succeeds exactly for the entries of `hashInfo` -/
def hashSupported (a : Alg) : Bool :=
  a == algSHA1 || a == algSHA256 || a == algSHA384 || a == algSHA512 || a == algSM3

/-- bg's `hashInfo` holds SHA1 and SHA256 only -/
def bgHashSupported (a : Alg) : Bool := a == algSHA1 || a == algSHA256

inductive Err where
  | sigScheme   -- unexpected signature scheme
  | sigLen      -- ECDSA / SM2 signature data is not 64 or 96 bytes
  | keyAlg      -- unexpected key algorithm
  | keyLen      -- key data length does not match KeySize
  | keyType     -- the signature scheme does not accept this kind of key
  | hashAlg     -- not a (supported) hash algorithm
  | badSig      -- the primitive rejected the signature
  | notImpl     -- ECDSA / SM2 verification is not implemented in fiano
  | range       -- a component does not fit its fixed width
  | mismatch    -- digest comparison failed
  | noHash      -- no digest to compare with
  | panic       -- the Go code indexes / slices out of range here (run-time panic)
  deriving DecidableEq, Repr, Inhabited

/-! ### structures (the fields the routines read) -/

/-- `cbnt.Key` -/
structure Key where
  keyAlg  : Alg
  version : Nat
  keySize : Nat      -- BitSize (uint16), in bits
  data    : Bytes
  deriving DecidableEq, Repr, Inhabited

/-- `cbnt.Signature` -/
structure Signature where
  sigScheme : Alg
  version   : Nat
  keySize   : Nat
  hashAlg   : Alg
  data      : Bytes
  deriving DecidableEq, Repr, Inhabited

/-- `cbnt.KeySignature` -/
structure KeySignature where
  version : Nat
  key     : Key
  sig     : Signature
  deriving DecidableEq, Repr, Inhabited

/-- `BitSize.InBytes`: `uint16(ks >> 3)` -/
def inBytes (bits : Nat) : Nat := bits / 8
/-- `BitSize.SetInBytes`: `BitSize(n << 3)` on uint16 -/
def setInBytes (n : Nat) : Nat := (n % 65536 * 8) % 65536

/-! ### key decode (key.go `PubKey`) -/

inductive PubKey where
  | rsa (k : RSAPub)
  | ecc (k : ECPub)     -- returned by value (`ecdsa.PublicKey`, curve P-256)
  | sm2 (k : ECPub)     -- returned by value (`sm2.PublicKey`, curve **P-256**, as the code says)
  deriving DecidableEq, Repr, Inhabited

/-- `keyDataSize` -/
def keyDataSize (k : Key) : Option Nat :=
  if k.keyAlg = algRSA then some (inBytes k.keySize + 4)
  else if k.keyAlg = algECC ∨ k.keyAlg = algSM2 then some (inBytes k.keySize * 2)
  else none

/-- RSA key material: little-endian uint32 exponent, then the modulus with the least
    significant byte first (`SetBytes(reverseBytes(Data[4:]))`) -/
def decodeRSA (d : Bytes) : RSAPub := { n := fromLE (d.drop 4), e := fromLE (d.take 4) }

/-- ECC key material: x ‖ y, each little endian, each half of the data -/
def decodeEC (w : Nat) (d : Bytes) : ECPub := { x := fromLE (d.take w), y := fromLE (d.drop w) }

def pubKey (k : Key) : Except Err PubKey :=
  match keyDataSize k with
  | none => .error .keyAlg
  | some n =>
    if k.data.length ≠ n then .error .keyLen
    else if k.keyAlg = algRSA then .ok (.rsa (decodeRSA k.data))
    else if k.keyAlg = algECC then .ok (.ecc (decodeEC (inBytes k.keySize) k.data))
    else .ok (.sm2 (decodeEC (inBytes k.keySize) k.data))

/-! ### signature decode / encode (signature.go) -/

inductive SigData where
  | rsaPSS (b : Bytes)
  | rsaSSA (b : Bytes)
  | ecdsa (r s : Nat)
  | sm2 (r s : Nat)
  deriving DecidableEq, Repr, Inhabited

/-- fixed-width `r ‖ s`, each little endian on `w` bytes -/
def encodeRS (w r s : Nat) : Bytes := leN w r ++ leN w s
/-- the two halves of the data, each little endian -/
def decodeRS (b : Bytes) : Nat × Nat := (fromLE (b.take (b.length / 2)), fromLE (b.drop (b.length / 2)))

/-- `Signature.SignatureData` -/
def signatureData (m : Signature) : Except Err SigData :=
  if m.sigScheme = algRSAPSS then .ok (.rsaPSS m.data)
  else if m.sigScheme = algRSASSA then .ok (.rsaSSA m.data)
  else if m.sigScheme = algECDSA then
    if m.data.length ≠ 64 ∧ m.data.length ≠ 96 then .error .sigLen
    else .ok (.ecdsa (decodeRS m.data).1 (decodeRS m.data).2)
  else if m.sigScheme = algSM2 then
    if m.data.length ≠ 64 ∧ m.data.length ≠ 96 then .error .sigLen
    else .ok (.sm2 (decodeRS m.data).1 (decodeRS m.data).2)
  else .error .sigScheme

/-- width chosen by the repaired `SetSignatureData`: 32 bytes unless a component needs more -/
def rsWidth (r s : Nat) : Option Nat :=
  if r < 2 ^ 256 ∧ s < 2 ^ 256 then some 32
  else if r < 2 ^ 384 ∧ s < 2 ^ 384 then some 48
  else none

/-- `Signature.SetSignatureData`: the `Data` field for a signature value -/
def signatureBytes : SigData → Except Err Bytes
  | .rsaPSS b => .ok b
  | .rsaSSA b => .ok b
  | .ecdsa r s => match rsWidth r s with
    | some w => .ok (encodeRS w r s)
    | none => .error .range
  | .sm2 r s => match rsWidth r s with
    | some w => .ok (encodeRS w r s)
    | none => .error .range

/-- scheme and default hash recorded by `SetSignatureByData` -/
def schemeOf : SigData → Alg
  | .rsaPSS _ => algRSAPSS | .rsaSSA _ => algRSASSA | .ecdsa _ _ => algECDSA | .sm2 _ _ => algSM2
def defaultHash (scheme : Alg) : Alg :=
  if scheme = algRSAPSS then algSHA384
  else if scheme = algRSASSA then algSHA256
  else if scheme = algECDSA then algSHA512
  else algSM3

/-- the hash algorithm that ends up in `Signature.HashAlg` -/
def recordedHash (scheme requested : Alg) : Alg := if isNull requested then defaultHash scheme else requested

/-- `Signature.SetSignatureByData` on a signature whose other fields are `m` -/
def setSignatureByData (m : Signature) (sd : SigData) (hashAlgo : Alg) : Except Err Signature :=
  match signatureBytes sd with
  | .error e => .error e
  | .ok data =>
    .ok { m with
      data := data
      sigScheme := schemeOf sd
      hashAlg := recordedHash (schemeOf sd) hashAlgo
      keySize := match sd with
        | .rsaPSS _ => setInBytes data.length
        | .rsaSSA _ => setInBytes data.length
        | .ecdsa _ _ => setInBytes (data.length / 2)
        | .sm2 _ _ => setInBytes (data.length / 2) }

/-! ### verification (key_signature.go `Verify`, signature_types.go `Verify` methods) -/

def rsaSchemeOf (scheme : Alg) : Option RSAScheme :=
  if scheme = algRSAPSS then some .pss else if scheme = algRSASSA then some .pkcs1v15 else none

/-- `SignatureRSAPSS.Verify` / `SignatureRSAASA.Verify` -/
def rsaSigVerify (P : Prims) (sch : RSAScheme) (sig : Bytes) (pk : PubKey) (hashAlg : Alg) (data : Bytes) :
    Except Err Unit :=
  match pk with
  | .rsa k =>
    if !hashSupported hashAlg then .error .hashAlg
    else if hashAlg ≠ algSHA256 ∧ hashAlg ≠ algSHA384 then .error .hashAlg
    else if P.rsaVerify sch hashAlg k (P.hash hashAlg data) sig then .ok () else .error .badSig
  | _ => .error .keyType

/-- `SignatureDataInterface.Verify` -/
def sigVerify (P : Prims) (sd : SigData) (pk : PubKey) (hashAlg : Alg) (data : Bytes) : Except Err Unit :=
  match sd with
  | .rsaPSS b => rsaSigVerify P .pss b pk hashAlg data
  | .rsaSSA b => rsaSigVerify P .pkcs1v15 b pk hashAlg data
  | .ecdsa _ _ => .error .notImpl
  | .sm2 _ _ => .error .notImpl

/-- the second half of `KeySignature.Verify`, once the signature data is decoded -/
def verifyWith (P : Prims) (sd : SigData) (ks : KeySignature) (data : Bytes) : Except Err Unit :=
  match pubKey ks.key with
  | .error e => .error e
  | .ok pk => sigVerify P sd pk ks.sig.hashAlg data

/-- `KeySignature.Verify` -/
def verify (P : Prims) (ks : KeySignature) (data : Bytes) : Except Err Unit :=
  match signatureData ks.sig with
  | .error e => .error e
  | .ok sd => verifyWith P sd ks data

/-! ### signing (key.go `SetPubKey`, signature_types.go `NewSignatureData*`, `SetSignature`) -/

/-- minimal number of bytes of a natural number (`len(big.Int.Bytes())`) -/
def byteLen (n : Nat) : Nat := if n = 0 then 0 else Nat.log2 n / 8 + 1

/-- `big.Int.BitLen` -/
def bitLen (n : Nat) : Nat := if n = 0 then 0 else Nat.log2 n + 1

inductive PrivKey (S : Signers) where
  | rsa (sk : S.RSAPriv)
  | ecdsa (sk : S.ECPriv)
  | sm2 (sk : S.SM2Priv)

/-- `Key.SetPubKey` -/
def setPubKeyRSA (k : RSAPub) : Key :=
  { keyAlg := algRSA, version := 0x10, keySize := setInBytes (byteLen k.n),
    data := leN 4 k.e ++ leN (byteLen k.n) k.n }

def setPubKeyEC (alg : Alg) (k : ECPub) : Except Err Key :=
  if k.x < 2 ^ 256 ∧ k.y < 2 ^ 256 then
    .ok { keyAlg := alg, version := 0x10, keySize := 256, data := leN 32 k.x ++ leN 32 k.y }
  else .error .range

def setPubKey (S : Signers) : PrivKey S → Except Err Key
  | .rsa sk => .ok (setPubKeyRSA (S.rsaPub sk))
  | .ecdsa sk => setPubKeyEC algECC (S.ecPub sk)
  | .sm2 sk => setPubKeyEC algSM2 (S.sm2Pub sk)

/-- auto-detection of the signing scheme (`signAlgo == 0`) in `NewSignatureDataWithHash` -/
def detectScheme (S : Signers) (signAlgo : Alg) (priv : PrivKey S) : Alg :=
  if signAlgo ≠ 0 then signAlgo
  else match priv with
    | .rsa sk =>
      if bitLen (S.rsaPub sk).n = 2048 then algRSASSA
      else if bitLen (S.rsaPub sk).n = 3072 then algRSAPSS
      else 0
    | .ecdsa _ => algECDSA
    | .sm2 _ => algSM2

/-- `rsaDigest`: only the hash functions the Verify methods accept -/
def rsaHashOK (a : Alg) : Bool := a == algSHA256 || a == algSHA384

/-- `NewSignatureDataWithHash` -/
def newSignatureData (P : Prims) (S : Signers) (signAlgo hashAlgo : Alg) (priv : PrivKey S)
    (rnd data : Bytes) : Except Err SigData :=
  let scheme := detectScheme S signAlgo priv
  let h := recordedHash scheme hashAlgo
  if scheme = algRSAPSS then
    if !rsaHashOK h then .error .hashAlg
    else match priv with
      | .rsa sk => .ok (.rsaPSS (S.rsaSign .pss h sk rnd (P.hash h data)))
      | _ => .error .keyType      -- a non-RSA signer used with an RSA scheme: outside the model's keys
  else if scheme = algRSASSA then
    if !rsaHashOK h then .error .hashAlg
    else match priv with
      | .rsa sk => .ok (.rsaSSA (S.rsaSign .pkcs1v15 h sk rnd (P.hash h data)))
      | _ => .error .keyType
  else if scheme = algECDSA then
    match priv with
    | .ecdsa sk =>
      if !hashSupported h then .error .hashAlg
      else .ok (.ecdsa (S.ecSign sk rnd (P.hash h data)).1 (S.ecSign sk rnd (P.hash h data)).2)
    | _ => .error .keyType
  else if scheme = algSM2 then
    match priv with
    | .sm2 sk => .ok (.sm2 (S.sm2Sign sk rnd data).1 (S.sm2Sign sk rnd data).2)
    | _ => .error .keyType
  else .error .sigScheme

/-- `Signature.SetSignature` -/
def sigSetSignature (P : Prims) (S : Signers) (m : Signature) (signAlgo hashAlgo : Alg) (priv : PrivKey S)
    (rnd data : Bytes) : Except Err Signature :=
  match newSignatureData P S signAlgo hashAlgo priv rnd data with
  | .error e => .error e
  | .ok sd => setSignatureByData { m with version := 0x10, hashAlg := hashAlgo } sd hashAlgo

/-- `KeySignature.SetSignature` -/
def setSignature (P : Prims) (S : Signers) (ks : KeySignature) (signAlgo hashAlgo : Alg) (priv : PrivKey S)
    (rnd data : Bytes) : Except Err KeySignature :=
  match setPubKey S priv with
  | .error e => .error e
  | .ok key =>
    match sigSetSignature P S ks.sig signAlgo hashAlgo priv rnd data with
    | .error e => .error e
    | .ok sig => .ok { version := 0x10, key := key, sig := sig }

/-- `KeySignature.SetSignatureAuto` -/
def setSignatureAuto (P : Prims) (S : Signers) (ks : KeySignature) (priv : PrivKey S) (rnd data : Bytes) :
    Except Err KeySignature :=
  setSignature P S ks 0 0 priv rnd data

/-! ### FillSignature (an externally produced signature) -/

inductive PubKind where | rsa | ecdsa | sm2
  deriving DecidableEq, Repr, Inhabited

/-- `NewSignatureByData` -/
def newSignatureByData (signAlgo : Alg) (kind : PubKind) (raw : Bytes) : Except Err SigData :=
  let scheme := if signAlgo ≠ 0 then signAlgo else
    match kind with | .rsa => algRSASSA | .ecdsa => algECDSA | .sm2 => algSM2
  if scheme = algRSAPSS then .ok (.rsaPSS raw)
  else if scheme = algRSASSA then .ok (.rsaSSA raw)
  else if scheme = algECDSA then .ok (.ecdsa (decodeRS raw).1 (decodeRS raw).2)
  else if scheme = algSM2 then .ok (.sm2 (decodeRS raw).1 (decodeRS raw).2)
  else .error .sigScheme

/-- `Signature.FillSignature` -/
def fillSignature (m : Signature) (signAlgo : Alg) (kind : PubKind) (raw : Bytes) (hashAlgo : Alg) :
    Except Err Signature :=
  match newSignatureByData signAlgo kind raw with
  | .error e => .error e
  | .ok sd => setSignatureByData { m with version := 0x10 } sd hashAlgo

/-! ### ValidateBPMKey (cbntkey/manifest.go) -/

/-- `cbntkey.Hash`: usage bit mask and digest -/
structure KMHash where
  usage   : Nat
  hashAlg : Alg
  buf     : Bytes
  deriving DecidableEq, Repr, Inhabited

/-- `UsageBPMSigningPKD` is bit 0 -/
def usageBPM (u : Nat) : Bool := u % 2 = 1

/-- one iteration of the loop: `ok false` = entry skipped (no BPM usage bit) -/
def checkBPMEntry (P : Prims) (key : Key) (h : KMHash) : Except Err Bool :=
  if usageBPM h.usage = false then .ok false
  else if hashSupported h.hashAlg = false then .error .hashAlg
  else if h.buf.length ≠ hashSize h.hashAlg then .error .mismatch
  else if key.keyAlg ≠ algRSA then .error .keyAlg
  else if key.data.length < 4 then .error .panic          -- `Data[4:]`
  else if h.buf ≠ P.hash h.hashAlg (key.data.drop 4) then .error .mismatch
  else .ok true

def bpmLoop (P : Prims) (key : Key) : List KMHash → Nat → Except Err Nat
  | [], n => .ok n
  | h :: hs, n =>
    match checkBPMEntry P key h with
    | .error e => .error e
    | .ok true => bpmLoop P key hs (n + 1)
    | .ok false => bpmLoop P key hs n

/-- `Manifest.ValidateBPMKey` -/
def validateBPMKey (P : Prims) (hashes : List KMHash) (bpmKey : Key) : Except Err Unit :=
  match bpmLoop P bpmKey hashes 0 with
  | .error e => .error e
  | .ok n => if n = 0 then .error .noHash else .ok ()

/-! ### IBB digest (cbntbootpolicy/manifest.go, bg/bgbootpolicy/manifest.go) -/

structure IBBSegment where
  flags : Nat   -- uint16
  base  : Nat   -- uint32
  size  : Nat   -- uint32
  deriving DecidableEq, Repr, Inhabited

/-- `calculateOffsetFromPhysAddr` in uint64 arithmetic -/
def offsetOfPhys (phys fwSize : Nat) : Nat :=
  (phys + 2 ^ 64 - (2 ^ 32 + 2 ^ 64 - fwSize % 2 ^ 64) % 2 ^ 64) % 2 ^ 64

/-- `IBBDataRanges`: (offset, length) of every segment whose flag bit 0 is clear -/
def ibbRanges (segs : List IBBSegment) (fwSize : Nat) : List (Nat × Nat) :=
  segs.filterMap (fun s => if s.flags % 2 = 1 then none else some (offsetOfPhys s.base fwSize, s.size))

/-- `buf[off : off+len]` with Go's run-time checks (`End()` is computed in uint64) -/
def rangeOK (len : Nat) (r : Nat × Nat) : Bool :=
  let e := (r.1 + r.2) % 2 ^ 64
  decide (r.1 ≤ e) && decide (e ≤ len)

/-- what is written to the hash: the selected ranges, in table order -/
def gather (fw : Bytes) (rs : List (Nat × Nat)) : Bytes := rs.flatMap (fun r => slice fw r.1 r.2)

/-- `ValidateIBB` given `SE[0]`'s first digest (`none` = no digest in the list) and segments -/
def validateIBB (P : Prims) (supported : Alg → Bool) (digest : Option (Alg × Bytes)) (segs : List IBBSegment)
    (fw : Bytes) : Except Err Unit :=
  match digest with
  | none => .error .noHash
  | some (alg, buf) =>
    if supported alg = false then .error .hashAlg
    else if (ibbRanges segs fw.length).all (rangeOK fw.length) = false then .error .panic
    else if P.hash alg (gather fw (ibbRanges segs fw.length)) = buf then .ok () else .error .mismatch

/-! ### bg (Boot Guard 1.0): RSASSA with SHA256 only -/

namespace Bg

/-- bg `Signature.SignatureData`: only RSASSA -/
def signatureData (m : Signature) : Except Err Bytes :=
  if m.sigScheme = algRSASSA then .ok m.data else .error .sigScheme

/-- bg `Key.PubKey`: only RSA -/
def pubKey (k : Key) : Except Err RSAPub :=
  if k.keyAlg ≠ algRSA then .error .keyAlg
  else if k.data.length ≠ inBytes k.keySize + 4 then .error .keyLen
  else .ok (decodeRSA k.data)

/-- bg `KeySignature.Verify`: SHA256 is hard-coded, `Signature.HashAlg` is not consulted -/
def verify (P : Prims) (ks : KeySignature) (data : Bytes) : Except Err Unit :=
  match signatureData ks.sig with
  | .error e => .error e
  | .ok sig =>
    match pubKey ks.key with
    | .error e => .error e
    | .ok pk => if P.rsaVerify .pkcs1v15 algSHA256 pk (P.hash algSHA256 data) sig then .ok () else .error .badSig

/-- bg `KeySignature.SetSignature` (RSA keys; `signAlgo` 0 = RSASSA) -/
def setSignature (P : Prims) (S : Signers) (ks : KeySignature) (signAlgo : Alg) (sk : S.RSAPriv)
    (rnd data : Bytes) : Except Err KeySignature :=
  let scheme := if signAlgo = 0 then algRSASSA else signAlgo
  if scheme ≠ algRSASSA then .error .sigScheme
  else
    let sig := S.rsaSign .pkcs1v15 algSHA256 sk rnd (P.hash algSHA256 data)
    .ok { version := 0x10, key := setPubKeyRSA (S.rsaPub sk),
          sig := { ks.sig with version := 0x10, sigScheme := algRSASSA, hashAlg := algSHA256,
                               data := sig, keySize := setInBytes sig.length } }

end Bg

end Fiano.Crypto.Cbnt
