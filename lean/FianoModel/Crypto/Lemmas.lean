/-
  C16 — helper lemmas: little-endian numbers, fixed-width halves, agreement of two byte strings
  on a set of positions.
-/
import FianoModel.Crypto.Cbnt
import FianoModel.Crypto.Psb

namespace Fiano.Crypto
open Fiano

/-! ### little-endian numbers -/

/-- at a fixed length the little-endian value determines the bytes -/
theorem fromLE_inj {a b : Bytes} (hl : a.length = b.length) (h : fromLE a = fromLE b) : a = b := by
  have ha := leN_fromLE a
  have hb := leN_fromLE b
  rw [← ha, ← hb, hl, h]

theorem take_append_len {α} (a b : List α) (w : Nat) (h : a.length = w) : (a ++ b).take w = a := by
  subst h; simp

theorem drop_append_len {α} (a b : List α) (w : Nat) (h : a.length = w) : (a ++ b).drop w = b := by
  subst h; simp

/-- `n < 256 ^ byteLen n`: the minimal big-endian byte string of `n` has `byteLen n` bytes -/
theorem lt_pow_byteLen (n : Nat) : n < 256 ^ Cbnt.byteLen n := by
  unfold Cbnt.byteLen
  split
  · omega
  · rename_i h
    have h1 : n < 2 ^ (n.log2 + 1) := Nat.lt_log2_self
    have h2 : (256 : Nat) ^ (n.log2 / 8 + 1) = 2 ^ (8 * (n.log2 / 8 + 1)) := by
      rw [show (256 : Nat) = 2 ^ 8 from rfl, ← Nat.pow_mul]
    rw [h2]
    have h3 : n.log2 + 1 ≤ 8 * (n.log2 / 8 + 1) := by omega
    exact Nat.lt_of_lt_of_le h1 (Nat.pow_le_pow_right (by decide) h3)

/-! ### agreement on a set of positions -/

/-- `a` and `b` have the same length and the same byte at every position selected by `c` -/
def AgreeOn (c : Nat → Prop) (a b : Bytes) : Prop := a.length = b.length ∧ ∀ i, c i → a[i]? = b[i]?

theorem AgreeOn.refl (c : Nat → Prop) (a : Bytes) : AgreeOn c a a := ⟨rfl, fun _ _ => rfl⟩

theorem AgreeOn.symm {c : Nat → Prop} {a b : Bytes} (h : AgreeOn c a b) : AgreeOn c b a :=
  ⟨h.1.symm, fun i hi => (h.2 i hi).symm⟩

theorem AgreeOn.mono {c c' : Nat → Prop} {a b : Bytes} (h : AgreeOn c a b) (hc : ∀ i, c' i → c i) :
    AgreeOn c' a b := ⟨h.1, fun i hi => h.2 i (hc i hi)⟩

/-- two byte strings that agree on `[o, o+l)` have the same slice there -/
theorem slice_agree {c : Nat → Prop} {a b : Bytes} (h : AgreeOn c a b) (o l : Nat)
    (hc : ∀ i, o ≤ i → i < o + l → c i) : slice a o l = slice b o l := by
  apply List.ext_getElem?
  intro i
  simp only [slice, List.getElem?_take, List.getElem?_drop]
  split
  · exact h.2 (o + i) (hc (o + i) (by omega) (by omega))
  · rfl

theorem take_agree {c : Nat → Prop} {a b : Bytes} (h : AgreeOn c a b) (l : Nat)
    (hc : ∀ i, i < l → c i) : a.take l = b.take l := by
  have := slice_agree h 0 l (fun i _ hi => hc i (by omega))
  simpa [slice] using this

/-- membership of a position in a list of (offset, length) ranges -/
def InRanges (rs : List (Nat × Nat)) (i : Nat) : Prop := ∃ r ∈ rs, r.1 ≤ i ∧ i < r.1 + r.2

theorem gather_agree {c : Nat → Prop} {a b : Bytes} (h : AgreeOn c a b) (rs : List (Nat × Nat))
    (hc : ∀ i, InRanges rs i → c i) : Cbnt.gather a rs = Cbnt.gather b rs := by
  induction rs with
  | nil => rfl
  | cons r rs ih =>
    simp only [Cbnt.gather, List.flatMap_cons]
    have h1 : slice a r.1 r.2 = slice b r.1 r.2 :=
      slice_agree h r.1 r.2 (fun i h1 h2 => hc i ⟨r, List.mem_cons_self, h1, h2⟩)
    have h2 := ih (fun i ⟨r', hr', hi⟩ => hc i ⟨r', List.mem_cons_of_mem _ hr', hi⟩)
    simp only [Cbnt.gather] at h2
    rw [h1, h2]

end Fiano.Crypto
