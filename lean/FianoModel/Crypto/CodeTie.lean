/-
  Tie T1 "code as code" for the byte-order helpers of the signature code (property C16):
    cbnt.reverseBytes (pkg/intel/metadata/cbnt/key.go)  → List.reverse     reverseBytes_tie
    psb.reverse       (pkg/amd/psb/util.go)             → List.reverse     psbReverse_tie
    psb.checkBoundaries                                 → the three comparisons  checkBoundaries_tie
    cbnt.BitSize.InBytes / InBits                       → Cbnt.inBytes     inBytes_tie, inBits_tie
  The models (Crypto/Cbnt.lean, Crypto/Psb.lean) write `.reverse` where the Go code calls these
  helpers; the theorems below say that the helpers *as translated from the source on every run*
  (Gen/CodeCbnt.lean, Gen/CodePsb.lean) compute exactly that, for every input, without panic and
  within the loops' fuel.
-/
import FianoModel.Gen.CodeCbnt
import FianoModel.Gen.CodePsb
import FianoModel.CodeTie.Lemmas
import FianoModel.Crypto.Cbnt

-- the single-pass lemmas deliberately carry a generous simp set (robust against harmless rewrites of the Go code)
set_option linter.unusedSimpArgs false

namespace Fiano.Crypto.CodeTie
open Fiano Fiano.GoRt

/-! ### cbnt.reverseBytes -/

theorem reverseBytes_loop (b : List UInt8) : ∀ (xs : List UInt8) (k : Nat) (r : List UInt8),
    xs.length + k = b.length → r.length = b.length →
    ∃ r', Gen.CodeCbnt.fn_reverseBytes.loop1 b xs (k : Int) r = some r' ∧ r'.length = b.length ∧
      ∀ j, r'[j]? = if k ≤ j ∧ j < b.length then b[b.length - 1 - j]? else r[j]? := by
  intro xs
  induction xs with
  | nil =>
    intro k r hk hr
    refine ⟨r, by simp [Gen.CodeCbnt.fn_reverseBytes.loop1], hr, ?_⟩
    intro j
    have : ¬ (k ≤ j ∧ j < b.length) := by simp at hk; omega
    simp [this]
  | cons x xs ih =>
    intro k r hk hr
    have hkl : k < b.length := by simp at hk; omega
    have hsrc : idx b ((b.length : Int) - (k : Int) - 1) = some b[b.length - 1 - k] := by
      have e : ((b.length : Int) - (k : Int) - 1) = ((b.length - 1 - k : Nat) : Int) := by omega
      rw [e]; exact idx_lt b _ (by omega)
    have hset : GoRt.set r (k : Int) b[b.length - 1 - k] = some (r.set k b[b.length - 1 - k]) :=
      set_ofNat r k _ (by omega)
    obtain ⟨r', h1, h2, h3⟩ := ih (k + 1) (r.set k b[b.length - 1 - k]) (by simp at hk ⊢; omega) (by simp; omega)
    refine ⟨r', ?_, h2, ?_⟩
    · simp only [Gen.CodeCbnt.fn_reverseBytes.loop1, hsrc, hset, bind, Option.bind]
      have e : ((k : Int) + 1) = ((k + 1 : Nat) : Int) := by omega
      rw [e]; exact h1
    · intro j
      rw [h3 j]
      by_cases hj : j = k
      · subst hj
        have h1 : ¬ (j + 1 ≤ j ∧ j < b.length) := by omega
        have h2 : (j ≤ j ∧ j < b.length) := ⟨Nat.le_refl _, hkl⟩
        rw [if_neg h1, if_pos h2, List.getElem?_set_self (by omega)]
        exact (List.getElem?_eq_getElem (by omega)).symm
      · rw [List.getElem?_set_ne (by omega)]
        by_cases hc : k + 1 ≤ j ∧ j < b.length
        · have : k ≤ j ∧ j < b.length := by omega
          rw [if_pos hc, if_pos this]
        · have : ¬ (k ≤ j ∧ j < b.length) := by omega
          rw [if_neg hc, if_neg this]

/-- `cbnt.reverseBytes` as translated from the source is `List.reverse` -/
theorem reverseBytes_tie (b : List UInt8) : Gen.CodeCbnt.fn_reverseBytes b = some b.reverse := by
  unfold Gen.CodeCbnt.fn_reverseBytes
  obtain ⟨r', h1, h2, h3⟩ := reverseBytes_loop b b 0 (List.replicate b.length 0) (by simp) (by simp)
  have e : ((0 : Nat) : Int) = 0 := rfl
  rw [e] at h1
  simp only [h1, bind, Option.bind, pure]
  congr 1
  apply List.ext_getElem?
  intro j
  rw [h3 j]
  by_cases hj : j < b.length
  · have : 0 ≤ j ∧ j < b.length := ⟨Nat.zero_le _, hj⟩
    rw [if_pos this, List.getElem?_reverse hj]
  · have : ¬ (0 ≤ j ∧ j < b.length) := by omega
    rw [if_neg this, List.getElem?_eq_none (by simp; omega), List.getElem?_eq_none (by simp; omega)]

/-! ### psb.reverse -/

/-- one pass of the swap loop of `psb.reverse` at `right = m` (a natural number) -/
theorem psbReverse_step (d : List UInt8) (fuel m : Nat) (hm : m < d.length - 1 - m) (hl : d.length - 1 - m < d.length) :
    Gen.CodePsb.fn_reverse.loop1 (fuel + 1) d (m : Int) =
      Gen.CodePsb.fn_reverse.loop1 fuel ((d.set m d[d.length - 1 - m]).set (d.length - 1 - m) d[m]) ((m : Int) - 1) := by
  have hge : ((m : Int) ≥ 0) := by omega
  have hleft : ((d.length : Int) - 1 - (m : Int)) = ((d.length - 1 - m : Nat) : Int) := by omega
  have h1 : idx d ((d.length - 1 - m : Nat) : Int) = some d[d.length - 1 - m] := idx_lt d _ hl
  have h2 : idx d (m : Int) = some d[m] := idx_lt d m (by omega)
  have h3 : GoRt.set d (m : Int) d[d.length - 1 - m] = some (d.set m d[d.length - 1 - m]) := set_ofNat d m _ (by omega)
  have h4 : GoRt.set (d.set m d[d.length - 1 - m]) ((d.length - 1 - m : Nat) : Int) d[m]
      = some ((d.set m d[d.length - 1 - m]).set (d.length - 1 - m) d[m]) := set_ofNat _ _ _ (by simp; omega)
  simp only [Gen.CodePsb.fn_reverse.loop1, hge, decide_true, if_true, hleft, h1, h2, h3, h4, bind, Option.bind]

theorem psbReverse_stop (d : List UInt8) (fuel : Nat) (r : Int) (h : ¬ (r ≥ 0)) :
    Gen.CodePsb.fn_reverse.loop1 (fuel + 1) d r = some (d, r) := by
  simp [Gen.CodePsb.fn_reverse.loop1, h]

/-- with `m` pairs left (`right = m - 1`) the loop mirrors the outer `m` positions on each side -/
theorem psbReverse_loop (n : Nat) : ∀ (m : Nat) (d : List UInt8) (fuel : Nat), d.length = n → 2 * m ≤ n → m < fuel →
    ∃ d' r', Gen.CodePsb.fn_reverse.loop1 fuel d ((m : Int) - 1) = some (d', r') ∧ d'.length = n ∧
      ∀ j, d'[j]? = if j < m ∨ (n - m ≤ j ∧ j < n) then d[n - 1 - j]? else d[j]? := by
  intro m
  induction m with
  | zero =>
    intro d fuel hd _ hf
    obtain ⟨f, rfl⟩ : ∃ f, fuel = f + 1 := ⟨fuel - 1, by omega⟩
    refine ⟨d, _, psbReverse_stop d f _ (by omega), hd, ?_⟩
    intro j
    have : ¬ (j < 0 ∨ (n - 0 ≤ j ∧ j < n)) := by omega
    rw [if_neg this]
  | succ m ih =>
    intro d fuel hd h2 hf
    obtain ⟨f, rfl⟩ : ∃ f, fuel = f + 1 := ⟨fuel - 1, by omega⟩
    have e : (((m + 1 : Nat) : Int) - 1) = (m : Int) := by omega
    rw [e, psbReverse_step d f m (by omega) (by omega)]
    obtain ⟨d', r', h1, hl, hp⟩ := ih ((d.set m d[d.length - 1 - m]).set (d.length - 1 - m) d[m]) f (by simp; omega) (by omega) (by omega)
    refine ⟨d', r', h1, hl, ?_⟩
    intro j
    rw [hp j]
    have hsw := swap_getElem? d m (d.length - 1 - m) (by omega) (by omega) (by omega)
    by_cases hc : j < m ∨ (n - m ≤ j ∧ j < n)
    · have hc' : j < m + 1 ∨ (n - (m + 1) ≤ j ∧ j < n) := by omega
      rw [if_pos hc, if_pos hc', hsw (n - 1 - j)]
      have a1 : ¬ (n - 1 - j = m) := by omega
      have a2 : ¬ (n - 1 - j = d.length - 1 - m) := by omega
      rw [if_neg a1, if_neg a2]
    · rw [if_neg hc, hsw j]
      by_cases hj1 : j = m
      · have hc' : j < m + 1 ∨ (n - (m + 1) ≤ j ∧ j < n) := by omega
        rw [if_pos hj1, if_pos hc']
        subst hj1
        have : n - 1 - j = d.length - 1 - j := by omega
        rw [this]
        exact (List.getElem?_eq_getElem (by omega)).symm
      · rw [if_neg hj1]
        by_cases hj2 : j = d.length - 1 - m
        · have hc' : j < m + 1 ∨ (n - (m + 1) ≤ j ∧ j < n) := by omega
          rw [if_pos hj2, if_pos hc']
          have : n - 1 - j = m := by omega
          rw [this]
          exact (List.getElem?_eq_getElem (by omega)).symm
        · have hc' : ¬ (j < m + 1 ∨ (n - (m + 1) ≤ j ∧ j < n)) := by omega
          rw [if_neg hj2, if_neg hc']

/-- `psb.reverse` as translated from the source: a reversed *copy* (`nil` for an empty input) -/
theorem psbReverse_tie (s : List UInt8) : Gen.CodePsb.fn_reverse s = some s.reverse := by
  unfold Gen.CodePsb.fn_reverse
  by_cases h0 : s.length = 0
  · have : s = [] := List.eq_nil_of_length_eq_zero h0
    subst this
    simp
  · have hne : ¬ ((s.length : Int) = 0) := by omega
    have hcopy : GoRt.copy (List.replicate s.length (0 : UInt8)) s = s := by
      simp [GoRt.copy]
    simp only [hne, beq_iff_eq, if_false, hcopy]
    have hright : (Int.tdiv (s.length : Int) 2 - 1) = (((s.length / 2 : Nat) : Int) - 1) := by
      rw [Int.tdiv_eq_ediv_of_nonneg (by omega)]; omega
    obtain ⟨d', r', h1, hl, hp⟩ := psbReverse_loop s.length (s.length / 2) s
      ((Int.tdiv (s.length : Int) 2 - 1 - 0).toNat + 2) rfl (by omega) (by rw [hright]; omega)
    rw [← hright] at h1
    simp only [h1, bind, Option.bind, pure]
    congr 1
    apply eq_reverse_of_getElem? s d' hl
    intro j hj
    rw [hp j]
    by_cases hc : j < s.length / 2 ∨ (s.length - s.length / 2 ≤ j ∧ j < s.length)
    · rw [if_pos hc]
    · rw [if_neg hc]
      have : s.length - 1 - j = j := by omega
      rw [this]

/-! ### psb.checkBoundaries -/

/-- `checkBoundaries(start, end, blob)` as translated from the source: an error unless
    `start ≤ end ≤ len(blob)` (all comparisons on uint64) -/
theorem checkBoundaries_tie (start end_ : UInt64) (blob : List UInt8) (hlen : blob.length < 2 ^ 64) :
    Gen.CodePsb.fn_checkBoundaries start end_ blob =
      (if start.toNat ≤ end_.toNat ∧ end_.toNat ≤ blob.length then nilErr else anErr) := by
  unfold Gen.CodePsb.fn_checkBoundaries
  have hl : (UInt64.ofNat blob.length).toNat = blob.length := by
    rw [UInt64.toNat_ofNat']; exact Nat.mod_eq_of_lt hlen
  by_cases h1 : start > UInt64.ofNat blob.length
  · have : ¬ (start.toNat ≤ end_.toNat ∧ end_.toNat ≤ blob.length) := by
      have := UInt64.lt_iff_toNat_lt.mp h1
      rw [hl] at this; omega
    simp [h1, this]
  · have h1' : start.toNat ≤ blob.length := by
      have := UInt64.not_lt.mp h1
      have := UInt64.le_iff_toNat_le.mp this
      rw [hl] at this; exact this
    by_cases h2 : end_ > UInt64.ofNat blob.length
    · have : ¬ (start.toNat ≤ end_.toNat ∧ end_.toNat ≤ blob.length) := by
        have := UInt64.lt_iff_toNat_lt.mp h2
        rw [hl] at this; omega
      simp [h1, h2, this]
    · have h2' : end_.toNat ≤ blob.length := by
        have := UInt64.not_lt.mp h2
        have := UInt64.le_iff_toNat_le.mp this
        rw [hl] at this; exact this
      by_cases h3 : start > end_
      · have : ¬ (start.toNat ≤ end_.toNat ∧ end_.toNat ≤ blob.length) := by
          have := UInt64.lt_iff_toNat_lt.mp h3; omega
        simp [h1, h2, h3, this]
      · have : (start.toNat ≤ end_.toNat ∧ end_.toNat ≤ blob.length) := by
          have := UInt64.le_iff_toNat_le.mp (UInt64.not_lt.mp h3); omega
        simp [h1, h2, h3, this]

/-- the hypothesis of `checkBoundaries_tie` is satisfiable (and holds for every Go slice) -/
example : ([1, 2, 3] : List UInt8).length < 2 ^ 64 := by decide

/-! ### cbnt.BitSize -/

/-- `BitSize.InBytes()` as translated from the source is the model's `Cbnt.inBytes` (÷ 8) -/
theorem inBytes_tie (ks : UInt16) : (Gen.CodeCbnt.fn_BitSize_InBytes ks).toNat = Cbnt.inBytes ks.toNat := by
  unfold Gen.CodeCbnt.fn_BitSize_InBytes Cbnt.inBytes
  rw [UInt16.toNat_shiftRight]
  have : (3 : UInt16).toNat % 16 = 3 := by decide
  rw [this, Nat.shiftRight_eq_div_pow]

/-- `BitSize.InBits()` is the identity -/
theorem inBits_tie (ks : UInt16) : Gen.CodeCbnt.fn_BitSize_InBits ks = ks := rfl

end Fiano.Crypto.CodeTie
