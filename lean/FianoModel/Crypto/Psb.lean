/-
  C16 — model of the verification logic of pkg/amd/psb:
    keys.go        newTokenOrRootKey, NewRootKey, NewTokenKey, NewKeyFromDatabase, Key.Get, GetKeys
    keyset.go      KeySet (AddKey / GetKey), parseKeyDatabase, getKeysFromDatabase
    signature.go   NewSignedBlob (hash chosen by the modulus size, RSA-PSS)
    psbbinary.go   newPSPBinary, getSignedBlob (uint32 range arithmetic — wrap modelled)
    pspentries.go  ValidatePSPEntry
    biosentries.go ValidateRTM (concatenation of volume and directories), GetPSBSignBIOSKey

  Directory tables (which entry lives where) belong to pkg/amd/manifest (property C17): the
  routines below take the located entries as (offset, length) ranges of the image.
  The model follows the code as repaired by fixes/C16-psb-exponent-range.diff (`Key.Get`
  rejects an exponent that does not fit crypto/rsa instead of dropping its upper bytes) and
  fixes/C16-token-signed-length.diff (the signed prefix of a key token is header + exponent +
  modulus as parsed, not `64 + 2·ModulusSize/8` in uint32) and fixes/C16-rtm-append-copy.diff
  (`ValidateRTM` copies the volume before it appends the directories; it used to append in place
  onto a sub-slice of the image — that model lives on in Crypto/RtmInPlace.lean).
  Core Lean only.
-/
import FianoModel.Crypto.Prims

namespace Fiano.Crypto.Psb
open Fiano Fiano.Crypto

inductive Err where
  | format      -- structural error (short buffer, bad size field, boundary check …)
  | unknownKey  -- the signing key is not in the key set
  | badKey      -- the signing key cannot be used (empty / oversized exponent, unsupported size)
  | badSig      -- the primitive rejected the signature (`SignatureCheckError`)
  | dupKey      -- AddKey: key id already present
  | oemKey      -- GetPSBSignBIOSKey: not exactly one OEM key with usage PSBSignBIOS
  deriving DecidableEq, Repr, Inhabited

/-- hash identifiers used to name the two digests NewSignedBlob can select (TPM ids) -/
def algSHA256 : Alg := 0x0B
def algSHA384 : Alg := 0x0C

/-- `psb.KeyData` -/
structure Key where
  versionID : Nat
  keyID     : Bytes   -- 16
  certID    : Bytes   -- 16
  usage     : Nat
  reserved  : Bytes   -- 16
  expSize   : Nat     -- bits, uint32
  modSize   : Nat     -- bits, uint32
  exponent  : Bytes
  modulus   : Bytes
  deriving DecidableEq, Repr, Inhabited

inductive KeyType where | amdRoot | keyDB | abl | oem
  deriving DecidableEq, Repr, Inhabited

/-- `KeySet`: the map keyID → key as an association list in insertion order, with the type tag -/
abbrev KeySet := List (KeyType × Key)

def KeySet.getKey (ks : KeySet) (id : Bytes) : Option Key :=
  match ks.find? (fun e => e.2.keyID == id) with
  | some e => some e.2
  | none => none

/-- `KeySet.AddKey` -/
def KeySet.addKey (ks : KeySet) (k : Key) (t : KeyType) : Except Err KeySet :=
  match ks.getKey k.keyID with
  | some _ => .error .dupKey
  | none => .ok (ks ++ [(t, k)])

/-- `Key.checkValid` -/
def checkValid (k : Key) : Bool := k.exponent.length ≠ 0 && k.modulus.length ≠ 0

/-- `Key.Get` (repaired): both fields little endian; the exponent must fit crypto/rsa's limit -/
def keyGet (k : Key) : Except Err RSAPub :=
  if !checkValid k then .error .badKey
  else if fromLE k.exponent ≥ 2 ^ 31 then .error .badKey
  else .ok { n := fromLE k.modulus, e := fromLE k.exponent }

/-- `rsa.PublicKey.Size()`: bytes of the modulus -/
def modBytes (n : Nat) : Nat := if n = 0 then 0 else Nat.log2 n / 8 + 1

/-- `NewSignedBlob`: ok ↔ the RSA-PSS signature verifies over the digest selected by the key size -/
def newSignedBlob (P : Prims) (sig data : Bytes) (key : Key) : Except Err Unit :=
  match keyGet key with
  | .error e => .error e
  | .ok pk =>
    if modBytes pk.n = 512 then
      if P.rsaVerify .pss algSHA384 pk (P.hash algSHA384 data) sig then .ok () else .error .badSig
    else if modBytes pk.n = 256 then
      if P.rsaVerify .pss algSHA256 pk (P.hash algSHA256 data) sig then .ok () else .error .badSig
    else .error .badKey

/-! ### key tokens -/

/-- the key whose header is at the start of `b`, with exponent / modulus fields of `e` / `m` bits -/
def keyAt (b : Bytes) (e m : Nat) : Key :=
  { versionID := fromLE (slice b 0 4), keyID := slice b 4 16, certID := slice b 20 16,
    usage := fromLE (slice b 36 4), reserved := slice b 40 16, expSize := e, modSize := m,
    exponent := slice b 64 (e / 8), modulus := slice b (64 + e / 8) (m / 8) }

/-- `newTokenOrRootKey`: 64-byte header (sizes in bits at 56 and 60), exponent, modulus. Returns
    the key and the number of bytes consumed.  (Go checks `ExponentSize % 8`, reads the exponent,
    checks `ModulusSize % 8`, reads the modulus; every failure is the same kind of error.) -/
def parseKey (b : Bytes) : Except Err (Key × Nat) :=
  if b.length < 64 then .error .format
  else if fromLE (slice b 56 4) % 8 ≠ 0 ∨ fromLE (slice b 60 4) % 8 ≠ 0 ∨
      b.length < 64 + fromLE (slice b 56 4) / 8 + fromLE (slice b 60 4) / 8 then .error .format
  else .ok (keyAt b (fromLE (slice b 56 4)) (fromLE (slice b 60 4)),
            64 + fromLE (slice b 56 4) / 8 + fromLE (slice b 60 4) / 8)

/-- `NewRootKey` -/
def newRootKey (b : Bytes) : Except Err Key :=
  match parseKey b with
  | .error e => .error e
  | .ok (k, _) => if k.keyID ≠ k.certID then .error .format else .ok k

/-- `NewTokenKey` (as repaired by fixes/C16-token-signed-length.diff: the signed prefix is exactly
    what was parsed into the key — header, exponent, modulus — so `len(raw) < lenSigned` cannot
    happen once the parse succeeded) -/
def newTokenKey (P : Prims) (raw : Bytes) (ks : KeySet) : Except Err Key :=
  match parseKey raw with
  | .error e => .error e
  | .ok (k, n) =>
    match ks.getKey k.certID with
    | none => .error .unknownKey
    | some sk =>
      if !checkValid sk then .error .badKey
      else if raw.length < n + sk.modulus.length then .error .format
      else
        match newSignedBlob P (slice raw n sk.modulus.length).reverse (raw.take n) sk with
        | .error e => .error e
        | .ok () => .ok k

/-! ### key database -/

/-- `NewKeyFromDatabase` on the unread rest `b` of the database; returns key and bytes consumed -/
def parseDBKey (b : Bytes) : Except Err (Key × Nat) :=
  if b.length < 4 then .error .format
  else
    let dataSize := fromLE (slice b 0 4)
    if dataSize > b.length then .error .format          -- `dataSize > buff.Len() + 4`
    else if b.length < 36 then .error .format           -- version, usage, exponent, key id, key size
    else
      let keySize := fromLE (slice b 32 4)
      if keySize = 0 then .error .format
      else if keySize % 8 ≠ 0 then .error .format
      else if b.length < 80 then .error .format         -- 44 reserved bytes
      else if 80 + keySize / 8 > dataSize then .error .format
      else if b.length < 80 + keySize / 8 then .error .format
      else .ok ({ versionID := fromLE (slice b 4 4), keyID := slice b 16 16,
                  certID := List.replicate 16 0, usage := fromLE (slice b 8 4),
                  reserved := List.replicate 16 0, expSize := keySize, modSize := keySize,
                  exponent := slice b 12 4, modulus := slice b 80 (keySize / 8) },
                80 + keySize / 8)

/-- the loop of `parseKeyDatabase` (after the 80-byte header); `fuel = |b| + 1` suffices because
    every accepted entry consumes at least 81 bytes -/
def dbLoop : Nat → Bytes → KeySet → Except Err KeySet
  | 0, _, _ => .error .format
  | fuel + 1, b, ks =>
    if b.length = 0 then .ok ks
    else match parseDBKey b with
      | .error e => .error e
      | .ok (k, n) =>
        match ks.addKey k .keyDB with
        | .error e => .error e
        | .ok ks' => dbLoop fuel (b.drop n) ks'

/-- `parseKeyDatabase` -/
def parseKeyDatabase (db : Bytes) (ks : KeySet) : Except Err KeySet :=
  if db.length < 80 then .error .format else dbLoop (db.length + 1) (db.drop 80) ks

/-! ### PSP binaries -/

def pspHeaderSize : Nat := 0x100
/-- `binary.Size(PSPHeaderData)` -/
def pspHeaderDataSize : Nat := 208

/-- the header fields `getSignedBlob` reads -/
structure Header where
  sizeSigned      : Nat   -- uint32 @ 20
  sigParams       : Bytes -- 16 bytes @ 56: key id of the signing key
  compressionOpts : Nat   -- uint32 @ 72
  compressedSize  : Nat   -- uint32 @ 84
  sizeImage       : Nat   -- uint32 @ 108
  deriving DecidableEq, Repr, Inhabited

def decodeHeader (h : Bytes) : Header :=
  { sizeSigned := fromLE (slice h 20 4), sigParams := slice h 56 16,
    compressionOpts := fromLE (slice h 72 4), compressedSize := fromLE (slice h 84 4),
    sizeImage := fromLE (slice h 108 4) }

/-- `newPSPBinary`: the header must be readable -/
def parseHeader (raw : Bytes) : Option Header :=
  if raw.length < pspHeaderDataSize then none else some (decodeHeader (slice raw 0 pspHeaderDataSize))

/-- `checkBoundaries` -/
def checkBoundaries (start stop len : Nat) : Bool := start ≤ len && stop ≤ len && start ≤ stop

/-- the ranges `getSignedBlob` derives: signing key, end of the signed data (it starts at 0),
    start and length of the signature.  All sums are uint32 sums. -/
structure BlobRanges where
  key       : Key
  signedEnd : Nat
  sigStart  : Nat
  sigLen    : Nat
  deriving DecidableEq, Repr, Inhabited

/-- compressed convention: the compressed size aligned to 16, plus the header (uint32 sums) -/
def alignedSigned (c : Nat) : Nat := (((c + 0x10 - 1) % 2 ^ 32) / 16 * 16 + pspHeaderSize) % 2 ^ 32

/-- (sizeSignedImage, sizeImage) by size convention -/
def blobSizes (h : Header) (sizeSignature : Nat) : Except Err (Nat × Nat) :=
  if h.compressionOpts = 0 then
    if h.sizeSigned > h.sizeImage then .error .format
    else .ok ((h.sizeSigned + pspHeaderSize) % 2 ^ 32, h.sizeImage)
  else .ok (alignedSigned h.compressedSize, (alignedSigned h.compressedSize + sizeSignature) % 2 ^ 32)

/-- the boundary checks -/
def rangesOf (key : Key) (ssi si len : Nat) : Except Err BlobRanges :=
  if si ≤ key.modSize / 8 then .error .format
  else if checkBoundaries (si - key.modSize / 8) ((si - key.modSize / 8 + key.modSize / 8) % 2 ^ 32) len = false then
    .error .format
  else if checkBoundaries 0 ssi len = false then .error .format
  else if ssi ≤ pspHeaderSize then .error .format
  else .ok { key := key, signedEnd := ssi, sigStart := si - key.modSize / 8,
             sigLen := (si - key.modSize / 8 + key.modSize / 8) % 2 ^ 32 - (si - key.modSize / 8) }

def blobRanges (h : Header) (ks : KeySet) (rawLen : Nat) : Except Err BlobRanges :=
  if h.sizeSigned = 0 then .error .format
  else if h.sizeImage = 0 then .error .format
  else match ks.getKey h.sigParams with
    | none => .error .unknownKey
    | some key =>
      if key.modSize ≠ key.expSize then .error .badKey
      else match blobSizes h (key.modSize / 8) with
        | .error e => .error e
        | .ok (ssi, si) => rangesOf key ssi si rawLen

/-- `PSPBinary.getSignedBlob` on the raw bytes of the entry: on success the signed data -/
def getSignedBlob (P : Prims) (raw : Bytes) (ks : KeySet) : Except Err Bytes :=
  match parseHeader raw with
  | none => .error .format
  | some h =>
    match blobRanges h ks raw.length with
    | .error e => .error e
    | .ok r =>
      match newSignedBlob P (slice raw r.sigStart r.sigLen) (slice raw 0 r.signedEnd) r.key with
      | .error e => .error e
      | .ok () => .ok (slice raw 0 r.signedEnd)

/-- the three outcomes of `ValidatePSPEntry`: a Go error, or a result with / without `.err` -/
inductive Verdict where
  | ok                -- result, signature valid
  | invalid (e : Err) -- result carrying an error
  | fail              -- the function itself returned an error
  deriving DecidableEq, Repr, Inhabited

/-- `GetRangeBytes`: `end := start + length` in uint64 -/
def rangeBytes (img : Bytes) (off len : Nat) : Option Bytes :=
  if checkBoundaries off ((off + len) % 2 ^ 64) img.length then some (slice img off len) else none

/-- `ValidatePSPEntry` -/
def validatePSPEntry (P : Prims) (img : Bytes) (ks : KeySet) (off len : Nat) : Verdict :=
  match rangeBytes img off len with
  | none => .fail
  | some data =>
    if data.length < pspHeaderDataSize then .fail
    else match getSignedBlob P data ks with
      | .error e => .invalid e
      | .ok _ => .ok

/-! ### GetKeys -/

/-- `getKeysFromDatabase` given the AMD root key entry and the key database entry -/
def getKeysFromDatabase (P : Prims) (rootEntry dbEntry : Bytes) : Except Err KeySet :=
  match newRootKey rootEntry with
  | .error e => .error e
  | .ok root =>
    match KeySet.addKey [] root .amdRoot with
    | .error e => .error e
    | .ok ks =>
      match getSignedBlob P dbEntry ks with
      | .error e => .error e
      | .ok signed => parseKeyDatabase (signed.drop pspHeaderSize) ks

/-- `GetKeys` given the located entries (the OEM key entry is optional) -/
def getKeys (P : Prims) (rootEntry dbEntry ablEntry : Bytes) (oemEntry : Option Bytes) : Except Err KeySet :=
  match getKeysFromDatabase P rootEntry dbEntry with
  | .error e => .error e
  | .ok ks =>
    match newTokenKey P ablEntry ks with
    | .error e => .error e
    | .ok abl =>
      match ks.addKey abl .abl with
      | .error e => .error e
      | .ok ks =>
        match oemEntry with
        | none => .ok ks
        | some oe =>
          match newTokenKey P oe ks with
          | .error e => .error e
          | .ok oem => ks.addKey oem .oem

/-- `PSBSignBIOS` -/
def usagePSBSignBIOS : Nat := 8

/-- `GetPSBSignBIOSKey` on the key set -/
def psbSignBIOSKey (ks : KeySet) : Except Err Key :=
  match ks.filter (fun e => e.1 == .oem) with
  | [(_, k)] => if k.usage ≠ usagePSBSignBIOS then .error .oemKey else .ok k
  | _ => .error .oemKey

/-! ### ValidateRTM -/

/-- the boundary checks of `ValidateRTM` — `GetRangeBytes` for the RTM volume and for the signature
    entry (`end := start + length` in uint64), `checkBoundaries` for the directory of the level and,
    at level 2, for the level-1 directory: a function of the image *length* only -/
def rtmBounds (len level : Nat) (rtm sig dir1 dirL : Nat × Nat) : Bool :=
  checkBoundaries rtm.1 ((rtm.1 + rtm.2) % 2 ^ 64) len && checkBoundaries sig.1 ((sig.1 + sig.2) % 2 ^ 64) len &&
  checkBoundaries dirL.1 ((dirL.1 + dirL.2) % 2 ^ 64) len &&
  (level != 2 || checkBoundaries dir1.1 ((dir1.1 + dir1.2) % 2 ^ 64) len)

/-- the signed data of the RTM volume: volume ‖ [level-1 directory] ‖ directory of the level -/
def rtmSigned (img : Bytes) (level : Nat) (rtm dir1 dirL : Nat × Nat) : Bytes :=
  slice img rtm.1 rtm.2 ++ (if level = 2 then slice img dir1.1 dir1.2 else []) ++ slice img dirL.1 dirL.2

/-- `ValidateRTM` after the entries were located: RTM volume, its signature, BIOS directory of
    level 1 and of the requested level (ranges of the image), and the OEM key.
    `none` = the function returns an error (a boundary check fails); otherwise the verdict carried
    by the result and the image as `ValidateRTM` leaves it.

    As repaired by fixes/C16-rtm-append-copy.diff: the volume is copied before the directories are
    appended, so the signed data is the plain concatenation and the caller's image is not written.
    (Before the repair the directories were appended *in place* onto the sub-slice of the image that
    holds the volume: `Crypto/RtmInPlace.lean` keeps that model and shows what it got wrong.) -/
def validateRTM (P : Prims) (img : Bytes) (level : Nat) (rtm sig dir1 dirL : Nat × Nat) (oem : Key) :
    Option (Except Err Unit × Bytes) :=
  if rtmBounds img.length level rtm sig dir1 dirL = false then none
  else some (newSignedBlob P (slice img sig.1 sig.2).reverse (rtmSigned img level rtm dir1 dirL) oem, img)

/-! ## `GetKeys` with the key set as Go leaves it, and the whole-image compositions -/

/-! ### the key database without the key set -/

/-- the keys `NewKeyFromDatabase` yields one after the other on the rest `b` of the database, up to
    the first entry it refuses -/
def dbEntries : Nat → Bytes → List Key
  | 0, _ => []
  | fuel + 1, b =>
    if b.length = 0 then []
    else match parseDBKey b with
      | .error _ => []
      | .ok (k, n) => k :: dbEntries fuel (b.drop n)

/-- the keys of a key database body (80-byte header, then the entries) -/
def dbKeysOf (body : Bytes) : List Key :=
  if body.length < 80 then [] else dbEntries (body.length + 1) (body.drop 80)

/-! ### `GetKeys` with the key set as Go leaves it -/

/-- `parseKeyDatabase`'s loop on the shared key set: the set as it is when the loop stops, and the
    error if it stopped on one -/
def dbLoopAll : Nat → Bytes → KeySet → KeySet × Option Err
  | 0, _, ks => (ks, some .format)
  | fuel + 1, b, ks =>
    if b.length = 0 then (ks, none)
    else match parseDBKey b with
      | .error e => (ks, some e)
      | .ok (k, n) =>
        match ks.addKey k .keyDB with
        | .error e => (ks, some e)
        | .ok ks' => dbLoopAll fuel (b.drop n) ks'

def parseKeyDatabaseAll (db : Bytes) (ks : KeySet) : KeySet × Option Err :=
  if db.length < 80 then (ks, some .format) else dbLoopAll (db.length + 1) (db.drop 80) ks

/-- `getKeysFromDatabase` on the key set handed in by `GetKeys` (empty) -/
def getKeysFromDatabaseAll (P : Prims) (rootEntry dbEntry : Bytes) : KeySet × Option Err :=
  match newRootKey rootEntry with
  | .error e => ([], some e)
  | .ok root =>
    match KeySet.addKey [] root .amdRoot with
    | .error e => ([], some e)
    | .ok ks =>
      match getSignedBlob P dbEntry ks with
      | .error e => (ks, some e)
      | .ok signed => parseKeyDatabaseAll (signed.drop pspHeaderSize) ks

/-- `GetKeys`: the key set it returns and the error it returns with it -/
def getKeysAll (P : Prims) (rootEntry dbEntry ablEntry : Bytes) (oemEntry : Option Bytes) : KeySet × Option Err :=
  match getKeysFromDatabaseAll P rootEntry dbEntry with
  | (ks, some e) => (ks, some e)
  | (ks, none) =>
    match newTokenKey P ablEntry ks with
    | .error e => (ks, some e)
    | .ok abl =>
      match ks.addKey abl .abl with
      | .error e => (ks, some e)
      | .ok ks1 =>
        match oemEntry with
        | none => (ks1, none)
        | some oe =>
          match newTokenKey P oe ks1 with
          | .error e => (ks1, some e)
          | .ok oem =>
            match ks1.addKey oem .oem with
            | .error e => (ks1, some e)
            | .ok ks2 => (ks2, none)

/-- the error-or-result view of a (key set, error) pair -/
def toExcept (r : KeySet × Option Err) : Except Err KeySet :=
  match r.2 with
  | none => .ok r.1
  | some e => .error e

/-! ### image level (entries located by the directory parser, property C17) -/

/-- `GetKeys` on an image whose four entries were located by the directory parser (property C17);
    an entry that does not lie in the image is an error, like every other failure -/
def getKeysImg (P : Prims) (img : Bytes) (rootR dbR ablR : Nat × Nat) (oemR : Option (Nat × Nat)) : Except Err KeySet :=
  match rangeBytes img rootR.1 rootR.2, rangeBytes img dbR.1 dbR.2, rangeBytes img ablR.1 ablR.2 with
  | some r, some d, some a =>
    match oemR with
    | none => getKeys P r d a none
    | some oR =>
      match rangeBytes img oR.1 oR.2 with
      | some o => getKeys P r d a (some o)
      | none => .error .format
  | _, _, _ => .error .format

/-- `ValidateRTM` on an image with located entries: `GetPSBSignBIOSKey` (= `GetKeys`, then the single
    OEM key with usage PSBSignBIOS), then the signature check.  `none` = the function returns an error. -/
def validateRTMFull (P : Prims) (img : Bytes) (level : Nat) (rootR dbR ablR : Nat × Nat) (oemR : Option (Nat × Nat))
    (rtm sig dir1 dirL : Nat × Nat) : Option (Except Err Unit × Bytes) :=
  match getKeysImg P img rootR dbR ablR oemR with
  | .error _ => none
  | .ok ks =>
    match psbSignBIOSKey ks with
    | .error _ => none
    | .ok oem => validateRTM P img level rtm sig dir1 dirL oem

end Fiano.Crypto.Psb
