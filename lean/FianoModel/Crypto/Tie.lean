/-
  T1 tie for C16: the model's constants, header offsets and the shape of the verification routines
  are compared with the facts regenerated from the Go sources (FianoModel/Gen/Crypto*.lean) on
  every build.  Call inventories are compared by *count* only (see translator/specs_crypto.go).
-/
import FianoModel.Crypto.Cbnt
import FianoModel.Crypto.Psb
import FianoModel.Gen.CryptoCbnt
import FianoModel.Gen.CryptoCbntKey
import FianoModel.Gen.CryptoCbntBpm
import FianoModel.Gen.CryptoBg
import FianoModel.Gen.CryptoBgBpm
import FianoModel.Gen.CryptoPsb

namespace Fiano.Crypto.Tie
open Fiano.Crypto Fiano.Gen

/-- offset of a field in a packed layout -/
def offsetOf : List (String × Nat) → String → Option Nat
  | [], _ => none
  | (n, s) :: rest, f => if n = f then some 0 else (offsetOf rest f).map (· + s)

/-! ### cbnt / bg algorithm identifiers -/

theorem tie_cbnt_algs :
    [Cbnt.algUnknown, Cbnt.algRSA, Cbnt.algSHA1, Cbnt.algSHA256, Cbnt.algSHA384, Cbnt.algSHA512, Cbnt.algNull,
     Cbnt.algSM3, Cbnt.algRSASSA, Cbnt.algRSAPSS, Cbnt.algECDSA, Cbnt.algSM2, Cbnt.algECC] =
    [CryptoCbnt.AlgUnknown, CryptoCbnt.AlgRSA, CryptoCbnt.AlgSHA1, CryptoCbnt.AlgSHA256, CryptoCbnt.AlgSHA384,
     CryptoCbnt.AlgSHA512, CryptoCbnt.AlgNull, CryptoCbnt.AlgSM3, CryptoCbnt.AlgRSASSA, CryptoCbnt.AlgRSAPSS,
     CryptoCbnt.AlgECDSA, CryptoCbnt.AlgSM2, CryptoCbnt.AlgECC] := by decide

theorem tie_bg_algs :
    [Cbnt.algRSA, Cbnt.algSHA1, Cbnt.algSHA256, Cbnt.algNull, Cbnt.algRSASSA] =
    [CryptoBg.AlgRSA, CryptoBg.AlgSHA1, CryptoBg.AlgSHA256, CryptoBg.AlgNull, CryptoBg.AlgRSASSA] := by decide

/-- the digest sizes the model assumes are those of the named TPM algorithms -/
theorem tie_hashSize :
    [hashSize CryptoCbnt.AlgSHA1, hashSize CryptoCbnt.AlgSHA256, hashSize CryptoCbnt.AlgSHA384,
     hashSize CryptoCbnt.AlgSHA512, hashSize CryptoCbnt.AlgSM3] = [20, 32, 48, 64, 32] := by decide

theorem tie_psb_hash_names : Psb.algSHA256 = CryptoCbnt.AlgSHA256 ∧ Psb.algSHA384 = CryptoCbnt.AlgSHA384 := by decide

/-- `UsageBPMSigningPKD` is bit 0 -/
theorem tie_usageBPM : CryptoCbntKey.UsageBPMSigningPKD = 1 := by decide

/-! ### one primitive call per verification routine, one comparison per digest check -/

theorem tie_cbnt_verify_calls :
    CryptoCbnt.calls_SignatureRSAPSS_Verify_rsa_VerifyPSS.length = 1 ∧
    CryptoCbnt.calls_SignatureRSAASA_Verify_rsa_VerifyPKCS1v15.length = 1 := by decide

/-- the signing routine hashes through `rsaDigest` (both RSA schemes) and hands the requested
    hash algorithm down (fixes/C16-sign-recorded-hash.diff) -/
theorem tie_cbnt_sign_calls :
    CryptoCbnt.calls_Signature_SetSignature_NewSignatureDataWithHash.length = 1 ∧
    CryptoCbnt.calls_NewSignatureDataWithHash_rsaDigest.length = 2 ∧
    CryptoCbnt.calls_NewSignatureDataWithHash_sm2_Sm2Sign.length = 1 := by decide

theorem tie_bg_calls :
    CryptoBg.calls_SignatureRSAASA_Verify_rsa_VerifyPKCS1v15.length = 1 ∧
    CryptoBg.calls_NewSignatureData_rsa_SignPKCS1v15.length = 1 := by decide

theorem tie_digest_checks :
    CryptoCbntKey.calls_Manifest_ValidateBPMKey_bytes_Equal.length = 1 ∧
    CryptoCbntBpm.calls_Manifest_ValidateIBB_bytes_Equal.length = 1 ∧
    CryptoCbntBpm.calls_Manifest_IBBDataRanges_calculateOffsetFromPhysAddr.length = 1 ∧
    CryptoBgBpm.calls_Manifest_ValidateIBB_bytes_Equal.length = 1 ∧
    CryptoBgBpm.calls_Manifest_IBBDataRanges_calculateOffsetFromPhysAddr.length = 1 := by decide

/-! ### psb -/

theorem tie_pspHeaderSize : Psb.pspHeaderSize = CryptoPsb.pspHeaderSize := by decide
theorem tie_signedDataStart : CryptoPsb.signedDataStart = 0 := by decide
theorem tie_pspHeaderDataSize : Psb.pspHeaderDataSize = CryptoPsb.size_PSPHeaderData := by decide
theorem tie_keyDBHeader : CryptoPsb.size_keyDBHeader = 80 := by decide
theorem tie_usagePSBSignBIOS : Psb.usagePSBSignBIOS = CryptoPsb.PSBSignBIOS := by decide

/-- the header fields `decodeHeader` reads sit where the packed Go struct puts them -/
theorem tie_header_offsets :
    [offsetOf CryptoPsb.layout_PSPHeaderData "SizeSigned", offsetOf CryptoPsb.layout_PSPHeaderData "SignatureParameters",
     offsetOf CryptoPsb.layout_PSPHeaderData "CompressionOptions", offsetOf CryptoPsb.layout_PSPHeaderData "CompressedImageSize",
     offsetOf CryptoPsb.layout_PSPHeaderData "SizeImage"] = [some 20, some 56, some 72, some 84, some 108] := by decide

theorem tie_header_widths :
    [CryptoPsb.layout_PSPHeaderData.lookup "SizeSigned", CryptoPsb.layout_PSPHeaderData.lookup "SignatureParameters",
     CryptoPsb.layout_PSPHeaderData.lookup "CompressionOptions", CryptoPsb.layout_PSPHeaderData.lookup "CompressedImageSize",
     CryptoPsb.layout_PSPHeaderData.lookup "SizeImage"] = [some 4, some 16, some 4, some 4, some 4] := by decide

/-- entry types the harness uses to locate the key chain and the RTM signature -/
theorem tie_entry_types :
    [CryptoPsb.AMDPublicKeyEntry, CryptoPsb.ABLPublicKey, CryptoPsb.KeyDatabaseEntry, CryptoPsb.OEMSigningKeyEntry,
     CryptoPsb.BIOSRTMSignatureEntry] = [0x00, 0x0A, 0x50, 0x05, 0x07] := by decide

/-- shape of the psb routines: one verification each; two boundary checks in `getSignedBlob`;
    `ValidateRTM` appends at least twice (the level-1 directory, then the directory of the level; the
    copy of the volume that fixes/C16-rtm-append-copy.diff puts in front may be an `append` too — that
    it *is* a copy is checked by T2: the image after the call is compared) -/
theorem tie_psb_calls :
    CryptoPsb.calls_NewSignedBlob_rsa_VerifyPSS.length = 1 ∧
    CryptoPsb.calls_NewTokenKey_NewSignedBlob.length = 1 ∧
    CryptoPsb.calls_PSPBinary_getSignedBlob_checkBoundaries.length = 2 ∧
    CryptoPsb.calls_PSPBinary_getSignedBlob_NewSignedBlob.length = 1 ∧
    CryptoPsb.calls_ValidateRTM_NewSignedBlob.length = 1 ∧
    2 ≤ CryptoPsb.calls_ValidateRTM_append.length ∧
    CryptoPsb.calls_ValidateRTM_checkBoundaries.length = 2 ∧
    CryptoPsb.calls_getKeysFromDatabase_parseKeyDatabase.length = 1 := by decide

/-- shape of the key chain: `getKeysFromDatabase` reads one root key and one key database binary;
    `GetKeys` runs it once and validates two tokens (ABL, OEM); `ValidateRTM` obtains its key through
    `GetPSBSignBIOSKey`, which runs `GetKeys` once -/
theorem tie_psb_chain_calls :
    CryptoPsb.calls_getKeysFromDatabase_NewRootKey.length = 1 ∧
    CryptoPsb.calls_getKeysFromDatabase_newPSPBinary.length = 1 ∧
    CryptoPsb.calls_GetKeys_getKeysFromDatabase.length = 1 ∧
    CryptoPsb.calls_GetKeys_NewTokenKey.length = 2 ∧
    CryptoPsb.calls_GetPSBSignBIOSKey_GetKeys.length = 1 ∧
    CryptoPsb.calls_ValidateRTM_GetPSBSignBIOSKey.length = 1 := by decide

end Fiano.Crypto.Tie
