/-
  C16 ∘ C15 — model definitions: C16's covered-range function for serialised manifests, the reading of
  a `KeySignature` value tree into C16's structure, and the "verify the bytes of a manifest" pipelines
  (ReadFrom, then `KeySignature.Verify(bytes[:stored signature offset])`).  Theorems: Crypto/SignedRange.lean.
  Core Lean only.
-/
import FianoModel.Manifest.Model
import FianoModel.Crypto.Cbnt

namespace Fiano.Crypto.SignedRange
open Fiano Fiano.Crypto Fiano.Manifest

/-- **C16's covered-range function** for a serialised manifest: `bytes[0 : signatureOffset]` -/
def covered (b : Bytes) (off : Nat) : Bytes := b.take off

/-- the byte-string field `f` of a structure value -/
def getBytes : Layout → List Val → String → Option Bytes
  | .done, _, _ => none
  | .bytes n _ r, us, f | .dyn n _ r, us, f | .dynE n _ _ r, us, f =>
      if n = f then us.head?.bind (fun v => match v with | .bytes b => some b | _ => none) else getBytes r us.tail f
  | .num _ _ r, us, f | .numV _ _ r, us, f | .sub _ _ _ r, us, f | .list _ _ _ _ r, us, f => getBytes r us.tail f

/-- `cbnt.Key` / `bg.Key` -/
def keyOfVal (L : Layout) (vs : List Val) : Option Cbnt.Key :=
  match getNum L vs "KeyAlg", getNum L vs "Version", getNum L vs "KeySize", getBytes L vs "Data" with
  | some a, some v, some z, some d => some { keyAlg := a, version := v, keySize := z, data := d }
  | _, _, _, _ => none

/-- `cbnt.Signature` / `bg.Signature` -/
def sigOfVal (L : Layout) (vs : List Val) : Option Cbnt.Signature :=
  match getNum L vs "SigScheme", getNum L vs "Version", getNum L vs "KeySize", getNum L vs "HashAlg",
      getBytes L vs "Data" with
  | some s, some v, some z, some h, some d => some { sigScheme := s, version := v, keySize := z, hashAlg := h, data := d }
  | _, _, _, _, _ => none

/-- `cbnt.KeySignature` / `bg.KeySignature`, fields found by name on the regenerated layout -/
def ksOfVal (L : Layout) (vs : List Val) : Option Cbnt.KeySignature :=
  match getNum L vs "Version", findSub L vs "Key", findSub L vs "Signature" with
  | some v, some (Lk, kv), some (Ls, sv) =>
    match keyOfVal Lk kv, sigOfVal Ls sv with
    | some k, some s => some { version := v, key := k, sig := s }
    | _, _ => none
  | _, _, _ => none

/-! ### verify a serialised CBnT key manifest -/

/-- what a verifier built on fiano does with the bytes of a CBnT key manifest: `ReadFrom`, then
    `KeyAndSignature.Verify(bytes[:KeyManifestSignatureOffset])`.  `none`: the bytes do not parse (or
    the layout lacks the fields — excluded for the regenerated layout by `tie_ks_fields`). -/
def kmVerify (P : Prims) (S : SDef) (b : Bytes) : Option (Except Cbnt.Err Unit) :=
  match S.decode b with
  | .error _ => none
  | .ok (vs, _) =>
    match getNum S.body vs "KeyManifestSignatureOffset", findSub S.body vs "KeyAndSignature" with
    | some off, some (L, kv) => (ksOfVal L kv).map fun ks => Cbnt.verify P ks (covered b off)
    | _, _ => none

/-- what a verifier built on fiano does with the bytes of a CBnT boot policy manifest: `ReadFrom`, then
    `PMSE.KeySignature.Verify(bytes[:BPMH.KeySignatureOffset])` -/
def bpmVerify (P : Prims) (C : Container) (b : Bytes) : Option (Except Cbnt.Err Unit) :=
  match C.decode b with
  | .error _ => none
  | .ok (vs, _) =>
    match slotIndex C.slots "BPMH" 0, slotIndex C.slots "PMSE" 0 with
    | some ig, some it =>
      match C.slots[ig]?, C.slots[it]?, vs[ig]?, vs[it]? with
      | some sg, some st, some (.node g), some (.node t) =>
        match getNum sg.elem.body g "KeySignatureOffset", findSub st.elem.body t "KeySignature" with
        | some off, some (L, kv) => (ksOfVal L kv).map fun ks => Cbnt.verify P ks (covered b off)
        | _, _ => none
      | _, _, _, _ => none
    | _, _ => none

end Fiano.Crypto.SignedRange
