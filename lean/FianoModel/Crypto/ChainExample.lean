/-
  C16 — a concrete AMD key chain over toy primitives (non-vacuity of the `GetKeys` theorems):
  root key → key database (one key) → ABL token certified by the database key → OEM token certified
  by the ABL key.  The toy signature is the keyed checksum of Crypto/Prims.lean written on the width
  of the modulus (the PSP stores signatures of modulus size).
-/
import FianoModel.Crypto.PsbChainNI

namespace Fiano.Crypto.Psb.Example
open Fiano Fiano.Crypto Fiano.Crypto.Psb

/-- toy primitives with signatures as wide as the modulus -/
def prims : Prims where
  hash := Toy.hash
  rsaVerify := fun sch hf k d s => decide (s = leN (modBytes k.n) (fromLE (Toy.tag sch hf k d)))

/-- a 2048-bit toy modulus: `t` in the lowest byte, 1 in the highest -/
def modulus (t : UInt8) : Bytes := t :: List.replicate 254 0 ++ [1]

def sign (modl exponent data : Bytes) : Bytes :=
  leN 256 (fromLE (Toy.tag .pss algSHA256 { n := fromLE modl, e := fromLE exponent } (Toy.hash algSHA256 data)))

def id16 (t : UInt8) : Bytes := List.replicate 16 t

/-- header ‖ exponent ‖ modulus of a key token -/
def tokenBody (id cert : Bytes) (usage : Nat) (exponent modl : Bytes) : Bytes :=
  leN 4 1 ++ id ++ cert ++ leN 4 usage ++ List.replicate 16 0 ++ leN 4 (8 * exponent.length) ++ leN 4 (8 * modl.length)
    ++ exponent ++ modl

def exp256 : Bytes := 3 :: List.replicate 255 0
def exp4 : Bytes := [3, 0, 0, 0]

/-- the AMD root key entry (id A1, 2048-bit exponent and modulus fields) -/
def rootEntry : Bytes := tokenBody (id16 0xA1) (id16 0xA1) 0 exp256 (modulus 0x11)

/-- key database body: 80-byte header, one entry (id B2, usage 2) -/
def dbBody : Bytes :=
  List.replicate 80 0 ++ (leN 4 (80 + 256) ++ leN 4 1 ++ leN 4 2 ++ exp4 ++ id16 0xB2 ++ leN 4 2048 ++ List.replicate 44 0
    ++ modulus 0x22)

/-- PSP header of an uncompressed binary with `n` signed bytes after the header, signed by key `id` -/
def pspHeader (n : Nat) (id : Bytes) : Bytes :=
  List.replicate 20 0 ++ leN 4 n ++ List.replicate 32 0 ++ id ++ leN 4 0 ++ List.replicate 8 0 ++ leN 4 0
    ++ List.replicate 20 0 ++ leN 4 (0x100 + n + 256) ++ List.replicate 144 0

/-- the key database entry: header ‖ body ‖ signature of the root key over header ‖ body -/
def dbEntry : Bytes :=
  pspHeader dbBody.length (id16 0xA1) ++ dbBody
    ++ sign (modulus 0x11) exp256 (pspHeader dbBody.length (id16 0xA1) ++ dbBody)

/-- ABL token: key C3, certified by the database key B2 (reversed signature behind the key material) -/
def ablBody : Bytes := tokenBody (id16 0xC3) (id16 0xB2) 2 exp4 (modulus 0x33)
def ablEntry : Bytes := ablBody ++ (sign (modulus 0x22) exp4 ablBody).reverse

/-- OEM token: key D4 with usage PSBSignBIOS, certified by the ABL key C3 -/
def oemBody : Bytes := tokenBody (id16 0xD4) (id16 0xC3) 8 exp4 (modulus 0x44)
def oemEntry : Bytes := oemBody ++ (sign (modulus 0x33) exp4 oemBody).reverse

/-- type and key id of every key of a result -/
def ids (r : Except Err KeySet) : Option (List (KeyType × Bytes)) :=
  match r with
  | .ok ks => some (ks.map (fun e => (e.1, e.2.keyID)))
  | .error _ => none

/-- key ids of a key set -/
def kids (ks : KeySet) : List Bytes := ks.map (fun e => e.2.keyID)

set_option maxRecDepth 1000000

/-- the whole chain verifies: root, database key, ABL (certified by the database key), OEM
    (certified by the ABL key) -/
theorem chain_ok : ids (getKeys prims rootEntry dbEntry ablEntry (some oemEntry)) =
    some [(.amdRoot, id16 0xA1), (.keyDB, id16 0xB2), (.abl, id16 0xC3), (.oem, id16 0xD4)] := by decide

/-- ABL token with one bit of its signature flipped -/
def ablBroken : Bytes := ablBody ++ (match (sign (modulus 0x22) exp4 ablBody).reverse with | b :: r => (b ^^^ 1) :: r | [] => [])

/-- **a broken link in the middle**: the ABL signature does not verify — `GetKeys` fails, the OEM key
    (properly signed by the now untrusted ABL key) is not accepted, and the key set left behind holds
    root and database key only -/
theorem chain_broken_middle :
    ids (getKeys prims rootEntry dbEntry ablBroken (some oemEntry)) = none ∧
    kids (getKeysAll prims rootEntry dbEntry ablBroken (some oemEntry)).1 = [id16 0xA1, id16 0xB2] := by decide

/-- OEM token certified by key E5, which is not in the key set; its signature is good under E5 -/
def oemUntrustedBody : Bytes := tokenBody (id16 0xD4) (id16 0xE5) 8 exp4 (modulus 0x44)
def oemUntrusted : Bytes := oemUntrustedBody ++ (sign (modulus 0x55) exp4 oemUntrustedBody).reverse

/-- **a token signed by a key that is itself untrusted** is refused -/
theorem chain_untrusted_signer :
    ids (getKeys prims rootEntry dbEntry ablEntry (some oemUntrusted)) = none ∧
    kids (getKeysAll prims rootEntry dbEntry ablEntry (some oemUntrusted)).1 = [id16 0xA1, id16 0xB2, id16 0xC3] := by decide

/-- OEM token that *names* the trusted ABL key C3 as certifying key but was signed by E5 -/
def oemWrongSigner : Bytes := oemBody ++ (sign (modulus 0x55) exp4 oemBody).reverse

theorem chain_wrong_signer : ids (getKeys prims rootEntry dbEntry ablEntry (some oemWrongSigner)) = none := by decide

/-- OEM token that names itself (D4) as certifying key and is properly signed with its own key -/
def oemSelfBody : Bytes := tokenBody (id16 0xD4) (id16 0xD4) 8 exp4 (modulus 0x44)
def oemSelfSigned : Bytes := oemSelfBody ++ (sign (modulus 0x44) exp4 oemSelfBody).reverse

/-- **a self-signed token** is refused: its certifying key is not in the key set -/
theorem chain_self_signed : ids (getKeys prims rootEntry dbEntry ablEntry (some oemSelfSigned)) = none := by decide

/-- key database with one bit of its body flipped (inside the database key's modulus) -/
def dbBroken : Bytes :=
  pspHeader dbBody.length (id16 0xA1) ++ (dbBody.take 200 ++ [0x80] ++ dbBody.drop 201)
    ++ sign (modulus 0x11) exp256 (pspHeader dbBody.length (id16 0xA1) ++ dbBody)

/-- **a broken first link**: nothing below the root is accepted -/
theorem chain_broken_db :
    ids (getKeys prims rootEntry dbBroken ablEntry (some oemEntry)) = none ∧
    kids (getKeysAll prims rootEntry dbBroken ablEntry (some oemEntry)).1 = [id16 0xA1] := by decide

/-! ### a whole image: key chain, directory, RTM volume and — right behind it — the signature -/

def rtmDir : Bytes := [4, 5]
def rtmVol : Bytes := [1, 2, 3]
def rtmSig : Bytes := (sign (modulus 0x44) exp4 (rtmVol ++ rtmDir)).reverse

def image : Bytes := rootEntry ++ dbEntry ++ ablEntry ++ oemEntry ++ rtmDir ++ rtmVol ++ rtmSig

theorem lengths : rootEntry.length = 576 ∧ dbEntry.length = 928 ∧ ablEntry.length = 580 ∧ oemEntry.length = 580 ∧
    image.length = 2925 := by decide

/-- the whole routine accepts the image (signature entry right behind the volume: the layout the
    in-place code rejected) and leaves it unchanged -/
theorem image_valid :
    (validateRTMFull prims image 1 (0, 576) (576, 928) (1504, 580) (some (2084, 580)) (2666, 3) (2669, 256) (0, 0) (2664, 2)).map
      (fun r => (r.1.toBool, r.2 == image)) = some (true, true) := by decide

end Fiano.Crypto.Psb.Example
