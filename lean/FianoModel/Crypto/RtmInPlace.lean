/-
  C16 — `ValidateRTM` as it was before fixes/C16-rtm-append-copy.diff.

  The Go code appended the directory tables onto `rtmVolume`, a sub-slice `img[a:b]` of the firmware
  image.  Go's `append` writes in place when the capacity allows: the bytes of the image that follow
  the volume were overwritten — and the directory of the requested level (at level 2) and the
  signature entry were read *afterwards*.  This file keeps that model (`InPlace.validateRTM`, with
  capacity = length of the image) and shows
    * when the in-place code was right: under `NoAlias` its verdict is the repaired one
      (`validateRTM_noalias`, `inplace_eq_repaired`);
    * what it got wrong when `NoAlias` fails — concrete, kernel-evaluated witnesses over the toy
      primitives (`witness_*`): a properly signed image rejected, an image whose signature entry
      does not verify accepted, the verdict flipped by padding appended to the image (which switches
      `append` from reallocating to writing in place), and a second run on the image the first run
      left behind giving another verdict.
  Nothing here is tied to the current Go code any more (T2 replays the witnesses' layouts on the
  real code: repaired = all agree with `Psb.validateRTM`; unrepaired = the harness oracles fire).
-/
import FianoModel.Crypto.PsbLemmas

namespace Fiano.Crypto.Psb.InPlace
open Fiano Fiano.Crypto Fiano.Crypto.Psb

/-- Go `append(s, x...)` where `s = img[a:b]` is a sub-slice of an image whose capacity ends at
    `|img|`: in place (the image is overwritten after `b`) when it fits, else a fresh array.
    State: the image, the accumulated slice contents, and — while still aliased — its end. -/
structure Acc where
  img   : Bytes
  buf   : Bytes
  alias : Option Nat     -- `some e`: buf is `img[_ : e]`, still backed by the image
  deriving DecidableEq, Repr, Inhabited

def Acc.append (a : Acc) (x : Bytes) : Acc :=
  match a.alias with
  | some e =>
    if e + x.length ≤ a.img.length then
      { img := splice a.img e x, buf := a.buf ++ x, alias := some (e + x.length) }
    else { a with buf := a.buf ++ x, alias := none }
  | none => { a with buf := a.buf ++ x }

/-- the last steps of `ValidateRTM`: append the directory of the requested level (read from the
    image as the previous append left it), then verify; the signature entry is a slice of the
    image and is read after the appends -/
def rtmFinish (P : Prims) (a1 : Acc) (sig dirL : Nat × Nat) (oem : Key) : Except Err Unit × Bytes :=
  (newSignedBlob P (slice (a1.append (slice a1.img dirL.1 dirL.2)).img sig.1 sig.2).reverse
      (a1.append (slice a1.img dirL.1 dirL.2)).buf oem,
   (a1.append (slice a1.img dirL.1 dirL.2)).img)

/-- `ValidateRTM` after the entries were located: RTM volume, its signature, BIOS directory of
    level 1 and of the requested level (ranges of the image), and the OEM key.
    `none` = the function returns an error (a boundary check fails); otherwise the verdict carried
    by the result and the image as `ValidateRTM` leaves it. -/
def validateRTM (P : Prims) (img : Bytes) (level : Nat) (rtm sig dir1 dirL : Nat × Nat) (oem : Key) :
    Option (Except Err Unit × Bytes) :=
  -- ExtractBIOSEntry for the volume and the signature (GetRangeBytes), directory boundary checks
  if checkBoundaries rtm.1 ((rtm.1 + rtm.2) % 2 ^ 64) img.length = false then none
  else if checkBoundaries sig.1 ((sig.1 + sig.2) % 2 ^ 64) img.length = false then none
  else if checkBoundaries dirL.1 ((dirL.1 + dirL.2) % 2 ^ 64) img.length = false then none
  else if level = 2 then
    if checkBoundaries dir1.1 ((dir1.1 + dir1.2) % 2 ^ 64) img.length = false then none
    else some (rtmFinish P
      (Acc.append { img := img, buf := slice img rtm.1 rtm.2, alias := some (rtm.1 + rtm.2) } (slice img dir1.1 dir1.2))
      sig dirL oem)
  else some (rtmFinish P { img := img, buf := slice img rtm.1 rtm.2, alias := some (rtm.1 + rtm.2) } sig dirL oem)

/-- `img'` differs from `img` at most inside `[w, W)` -/
def Unch (w W : Nat) (img img' : Bytes) : Prop :=
  img'.length = img.length ∧ ∀ i, (i < w ∨ W ≤ i) → img'[i]? = img[i]?

theorem Unch.refl (w W : Nat) (img : Bytes) : Unch w W img img := ⟨rfl, fun _ _ => rfl⟩

theorem slice_unch {w W : Nat} {img img' : Bytes} (h : Unch w W img img') (o n : Nat)
    (hd : o + n ≤ w ∨ W ≤ o) : slice img' o n = slice img o n := by
  apply List.ext_getElem?
  intro i
  simp only [slice, List.getElem?_take, List.getElem?_drop]
  split
  · exact h.2 (o + i) (by omega)
  · rfl

theorem slice_len_le (b : Bytes) (o n : Nat) : (slice b o n).length ≤ n := by
  simp [slice]; omega

theorem append_buf (a : Acc) (x : Bytes) : (a.append x).buf = a.buf ++ x := by
  unfold Acc.append
  split
  · split <;> rfl
  · rfl

theorem append_alias (a : Acc) (x : Bytes) (e' : Nat) (h : (a.append x).alias = some e') :
    ∃ e, a.alias = some e ∧ e' = e + x.length := by
  unfold Acc.append at h
  split at h
  · rename_i e he
    split at h
    · cases h; exact ⟨e, he, rfl⟩
    · cases h
  · rename_i he; rw [he] at h; cases h

theorem append_unch (w W : Nat) (img : Bytes) (a : Acc) (x : Bytes) (h : Unch w W img a.img)
    (ha : ∀ e, a.alias = some e → w ≤ e ∧ e + x.length ≤ W) : Unch w W img (a.append x).img := by
  unfold Acc.append
  split
  · rename_i e he
    obtain ⟨h1, h2⟩ := ha e he
    split
    · rename_i hfit
      refine ⟨by rw [splice_length _ _ _ hfit]; exact h.1, ?_⟩
      intro i hi
      simp only
      rcases hi with hi | hi
      · rw [splice_getElem?_lt _ _ _ _ (by omega) hfit]; exact h.2 i (Or.inl hi)
      · rw [splice_getElem?_ge _ _ _ _ (by omega) hfit]; exact h.2 i (Or.inr hi)
    · exact h
  · exact h

/-- the window the in-place appends may overwrite, `[end of volume, + length of the directories)`,
    is disjoint from the signature entry and from the directory that is read after the first append -/
def NoAlias (level : Nat) (rtm sig dir1 dirL : Nat × Nat) : Prop :=
  (sig.1 + sig.2 ≤ rtm.1 + rtm.2 ∨ rtm.1 + rtm.2 + ((if level = 2 then dir1.2 else 0) + dirL.2) ≤ sig.1) ∧
  (dirL.1 + dirL.2 ≤ rtm.1 + rtm.2 ∨ rtm.1 + rtm.2 + ((if level = 2 then dir1.2 else 0) + dirL.2) ≤ dirL.1)

theorem validateRTM_noalias (P : Prims) (img : Bytes) (level : Nat) (rtm sig dir1 dirL : Nat × Nat) (oem : Key)
    (hna : NoAlias level rtm sig dir1 dirL) (v : Except Err Unit) (img' : Bytes)
    (h : validateRTM P img level rtm sig dir1 dirL oem = some (v, img')) :
    v = newSignedBlob P (slice img sig.1 sig.2).reverse (rtmSigned img level rtm dir1 dirL) oem := by
  unfold validateRTM at h
  split at h
  · cases h
  split at h
  · cases h
  split at h
  · cases h
  let w := rtm.1 + rtm.2
  let W := w + ((if level = 2 then dir1.2 else 0) + dirL.2)
  let a0 : Acc := { img := img, buf := slice img rtm.1 rtm.2, alias := some w }
  have u0 : Unch w W img a0.img := Unch.refl _ _ _
  have hxL := slice_len_le img dirL.1 dirL.2
  by_cases hl : level = 2
  · simp only [hl, if_true] at h
    split at h
    · cases h
    have hW : W = w + (dir1.2 + dirL.2) := by simp [W, hl]
    have hx1 := slice_len_le img dir1.1 dir1.2
    have u1 : Unch w W img (a0.append (slice img dir1.1 dir1.2)).img :=
      append_unch w W img a0 _ u0 (by
        intro e he
        have : e = w := by simpa [a0] using he.symm
        omega)
    have hdL : slice (a0.append (slice img dir1.1 dir1.2)).img dirL.1 dirL.2 = slice img dirL.1 dirL.2 :=
      slice_unch u1 _ _ (by
        have := hna.2; simp only [hl, if_true] at this; omega)
    have u2 : Unch w W img ((a0.append (slice img dir1.1 dir1.2)).append (slice img dirL.1 dirL.2)).img :=
      append_unch w W img _ _ u1 (by
        intro e he
        obtain ⟨e0, he0, rfl⟩ := append_alias a0 _ e he
        have : e0 = w := by simpa [a0] using he0.symm
        omega)
    have hsig : slice ((a0.append (slice img dir1.1 dir1.2)).append (slice img dirL.1 dirL.2)).img sig.1 sig.2
        = slice img sig.1 sig.2 :=
      slice_unch u2 _ _ (by
        have := hna.1; simp only [hl, if_true] at this; omega)
    have hf : rtmFinish P (a0.append (slice img dir1.1 dir1.2)) sig dirL oem = (v, img') := by
      simpa [a0, w] using h
    unfold rtmFinish at hf
    rw [hdL, hsig, append_buf, append_buf] at hf
    have := congrArg Prod.fst hf
    simp only at this
    rw [← this]
    simp [rtmSigned, hl, a0]
  · simp only [hl, if_false] at h
    have hW : W = w + dirL.2 := by simp [W, hl]
    have u2 : Unch w W img (a0.append (slice img dirL.1 dirL.2)).img :=
      append_unch w W img a0 _ u0 (by
        intro e he
        have : e = w := by simpa [a0] using he.symm
        omega)
    have hsig : slice (a0.append (slice img dirL.1 dirL.2)).img sig.1 sig.2 = slice img sig.1 sig.2 :=
      slice_unch u2 _ _ (by
        have := hna.1; simp only [hl, if_false] at this; omega)
    have hf : rtmFinish P a0 sig dirL oem = (v, img') := by
      simpa [a0, w] using h
    unfold rtmFinish at hf
    rw [show a0.img = img from rfl, hsig, append_buf] at hf
    have := congrArg Prod.fst hf
    simp only at this
    rw [← this]
    simp [rtmSigned, hl, a0]


theorem validateRTM_none_iff (P : Prims) (img : Bytes) (level : Nat) (rtm sig dir1 dirL : Nat × Nat) (oem : Key) :
    validateRTM P img level rtm sig dir1 dirL oem = none ↔ rtmBounds img.length level rtm sig dir1 dirL = false := by
  unfold validateRTM rtmBounds
  cases h1 : checkBoundaries rtm.1 ((rtm.1 + rtm.2) % 2 ^ 64) img.length <;>
  cases h2 : checkBoundaries sig.1 ((sig.1 + sig.2) % 2 ^ 64) img.length <;>
  cases h3 : checkBoundaries dirL.1 ((dirL.1 + dirL.2) % 2 ^ 64) img.length <;>
  cases h4 : checkBoundaries dir1.1 ((dir1.1 + dir1.2) % 2 ^ 64) img.length <;>
  by_cases hl : level = 2 <;> simp [hl]

/-- **when the in-place code was right**: under `NoAlias` it returns an error exactly when the
    repaired code does, and otherwise carries the same verdict -/
theorem inplace_eq_repaired (P : Prims) (img : Bytes) (level : Nat) (rtm sig dir1 dirL : Nat × Nat) (oem : Key)
    (hna : NoAlias level rtm sig dir1 dirL) :
    (validateRTM P img level rtm sig dir1 dirL oem).map Prod.fst =
    (Psb.validateRTM P img level rtm sig dir1 dirL oem).map Prod.fst := by
  cases h1 : validateRTM P img level rtm sig dir1 dirL oem with
  | none =>
    have := (validateRTM_none_iff P img level rtm sig dir1 dirL oem).mp h1
    rw [(Psb.validateRTM_none_iff P img level rtm sig dir1 dirL oem).mpr this]
  | some r1 =>
    cases h2 : Psb.validateRTM P img level rtm sig dir1 dirL oem with
    | none =>
      have := (Psb.validateRTM_none_iff P img level rtm sig dir1 dirL oem).mp h2
      rw [(validateRTM_none_iff P img level rtm sig dir1 dirL oem).mpr this] at h1
      cases h1
    | some r2 =>
      obtain ⟨v1, i1⟩ := r1
      obtain ⟨v2, i2⟩ := r2
      have e1 := validateRTM_noalias P img level rtm sig dir1 dirL oem hna v1 i1 h1
      have e2 := (Psb.validateRTM_some P img level rtm sig dir1 dirL oem v2 i2 h2).1
      simp only [Option.map_some]
      rw [e1, e2]

/-! ### what the in-place code got wrong: witnesses over the toy primitives

  A 2048-bit toy key (`n = 2^2040`, `e = 3`), a one- or few-byte "directory", a two-byte "volume" and
  a four-byte toy signature (stored reversed, as the PSP does).  Every statement is evaluated by the
  kernel (`decide`). -/

/-- verdict only: `some true` = valid, `some false` = the result carries an error, `none` = the
    function failed -/
def verdict (r : Option (Except Err Unit × Bytes)) : Option Bool := r.map (fun x => x.1.toBool)

set_option maxRecDepth 100000

def wKey : Key :=
  { versionID := 1, keyID := [1], certID := [1], usage := 8, reserved := [], expSize := 8, modSize := 2048,
    exponent := [3], modulus := List.replicate 255 0 ++ [1] }

/-- (i) **a properly signed image is rejected.**  Layout: directory `[0,2)`, volume `[2,4)`, signature
    entry `[4,8)` right behind the volume.  The repaired code accepts; the in-place code overwrote
    the first two signature bytes with the directory before reading the signature. -/
theorem witness_valid_rejected :
    ¬ NoAlias 1 (2, 2) (4, 4) (0, 0) (0, 2) ∧
    verdict (Psb.validateRTM Toy.prims [3, 4, 1, 2, 0x00, 0x7D, 0x37, 0x81] 1 (2, 2) (4, 4) (0, 0) (0, 2) wKey) = some true ∧
    verdict (validateRTM Toy.prims [3, 4, 1, 2, 0x00, 0x7D, 0x37, 0x81] 1 (2, 2) (4, 4) (0, 0) (0, 2) wKey) = some false := by
  refine ⟨by unfold NoAlias; decide, by decide, by decide⟩

/-- (ii) **an image whose signature entry does not verify is accepted** (the unsound direction; it
    needs a signature that is a fixed point of "sign what contains me", which a weak primitive such
    as the toy one allows).  Same layout; the signature entry `FF FF 18 81` is not valid for
    volume ‖ directory, but after the append the entry reads `00 7D 18 81`, which is. -/
theorem witness_invalid_accepted :
    verdict (Psb.validateRTM Toy.prims [0, 0x7D, 70, 70, 0xFF, 0xFF, 0x18, 0x81] 1 (2, 2) (4, 4) (0, 0) (0, 2) wKey) = some false ∧
    verdict (validateRTM Toy.prims [0, 0x7D, 70, 70, 0xFF, 0xFF, 0x18, 0x81] 1 (2, 2) (4, 4) (0, 0) (0, 2) wKey) = some true := by
  refine ⟨by decide, by decide⟩

/-- (iii) **the verdict depends on bytes outside every covered range — on their mere presence.**
    Directory `[0,6)`, volume `[6,8)`, signature `[8,12)`.  In the 12-byte image the append does not
    fit (8 + 6 > 12), Go reallocates, the verdict is right.  With two padding bytes appended to the
    image the append fits, is done in place and destroys the signature: the same firmware, padded,
    is rejected.  (The same happens in Go when the caller's slice merely has spare *capacity*.) -/
theorem witness_padding_flips_verdict :
    verdict (validateRTM Toy.prims [1, 2, 3, 4, 5, 6, 7, 8, 0x00, 0xFC, 0x5D, 0x81] 1 (6, 2) (8, 4) (0, 0) (0, 6) wKey) = some true ∧
    verdict (validateRTM Toy.prims ([1, 2, 3, 4, 5, 6, 7, 8, 0x00, 0xFC, 0x5D, 0x81] ++ [0, 0]) 1 (6, 2) (8, 4) (0, 0) (0, 6) wKey)
      = some false ∧
    verdict (Psb.validateRTM Toy.prims ([1, 2, 3, 4, 5, 6, 7, 8, 0x00, 0xFC, 0x5D, 0x81] ++ [0, 0]) 1 (6, 2) (8, 4) (0, 0) (0, 6) wKey)
      = some true := by
  refine ⟨by decide, by decide, by decide⟩

/-- (iv) **the verdict depends on what ran before.**  Signature `[0,4)`, volume `[4,6)`, one padding
    byte, directory `[7,10)`.  The first run is right (the directory is read before it is written)
    but shifts the directory by one byte inside the caller's image; a second run on the image the
    first one left behind rejects it.  The repaired code leaves the image alone. -/
theorem witness_second_run_differs :
    verdict (validateRTM Toy.prims [0x00, 0x9C, 0xD2, 0x81, 1, 2, 0xEE, 3, 4, 5] 1 (4, 2) (0, 4) (0, 0) (7, 3) wKey) = some true ∧
    (validateRTM Toy.prims [0x00, 0x9C, 0xD2, 0x81, 1, 2, 0xEE, 3, 4, 5] 1 (4, 2) (0, 4) (0, 0) (7, 3) wKey).map Prod.snd
      = some [0x00, 0x9C, 0xD2, 0x81, 1, 2, 3, 4, 5, 5] ∧
    verdict (validateRTM Toy.prims [0x00, 0x9C, 0xD2, 0x81, 1, 2, 3, 4, 5, 5] 1 (4, 2) (0, 4) (0, 0) (7, 3) wKey) = some false := by
  refine ⟨by decide, by decide, by decide⟩

end Fiano.Crypto.Psb.InPlace
