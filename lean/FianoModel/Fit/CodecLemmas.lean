/-
  Binary and JSON codecs of EntryHeaders / Table (entry_headers.go, table.go).
-/
import FianoModel.Fit.Model

namespace Fiano.Fit

theorem u8_roundtrip (n : Nat) (h : n < 256) : (UInt8.ofNat n).toNat = n := by
  simp [UInt8.toNat_ofNat']; omega

@[simp] theorem encodeHdr_length (h : Hdr) : (encodeHdr h).length = 16 := by
  simp [encodeHdr]

theorem decodeHdr_encodeHdr (h : Hdr) (w : h.WT) : decodeHdr (encodeHdr h) = h := by
  obtain ⟨address, size, reserved, version, tcv, checksum⟩ := h
  obtain ⟨ha, hs, hr, hv, ht, hc⟩ := w
  simp only at ha hs hr hv ht hc
  simp only [decodeHdr, encodeHdr, Hdr.mk.injEq]
  refine ⟨?_, ?_, ?_, ?_, ?_, ?_⟩
  · have := slice_mid [] (leN 8 address) (leN 3 size ++ [UInt8.ofNat reserved] ++ leN 2 version
      ++ [UInt8.ofNat tcv, UInt8.ofNat checksum]) 0 8 rfl (by simp)
    simp only [List.nil_append, List.append_assoc] at this ⊢
    rw [this, fromLE_leN_of_lt 8 address ha]
  · have := slice_mid (leN 8 address) (leN 3 size) ([UInt8.ofNat reserved] ++ leN 2 version
      ++ [UInt8.ofNat tcv, UInt8.ofNat checksum]) 8 3 (by simp) (by simp)
    simp only [List.append_assoc] at this ⊢
    rw [this, fromLE_leN_of_lt 3 size hs]
  · have : (leN 8 address ++ leN 3 size ++ [UInt8.ofNat reserved] ++ leN 2 version
        ++ [UInt8.ofNat tcv, UInt8.ofNat checksum])[11]? = some (UInt8.ofNat reserved) := by
      simp [List.append_assoc]
    rw [List.getD_eq_getElem?_getD, this]
    simp [u8_roundtrip reserved hr]
  · have := slice_mid (leN 8 address ++ leN 3 size ++ [UInt8.ofNat reserved]) (leN 2 version)
      [UInt8.ofNat tcv, UInt8.ofNat checksum] 12 2 (by simp) (by simp)
    simp only [List.append_assoc] at this ⊢
    rw [this, fromLE_leN_of_lt 2 version hv]
  · have : (leN 8 address ++ leN 3 size ++ [UInt8.ofNat reserved] ++ leN 2 version
        ++ [UInt8.ofNat tcv, UInt8.ofNat checksum])[14]? = some (UInt8.ofNat tcv) := by
      simp [List.append_assoc]
    rw [List.getD_eq_getElem?_getD, this]
    simp [u8_roundtrip tcv ht]
  · have : (leN 8 address ++ leN 3 size ++ [UInt8.ofNat reserved] ++ leN 2 version
        ++ [UInt8.ofNat tcv, UInt8.ofNat checksum])[15]? = some (UInt8.ofNat checksum) := by
      simp [List.append_assoc]
    rw [List.getD_eq_getElem?_getD, this]
    simp [u8_roundtrip checksum hc]

/-- every decoded header is representable -/
theorem decodeHdr_WT (b : Bytes) (hb : b.length = 16) : (decodeHdr b).WT := by
  have hl : ∀ o l, o + l ≤ 16 → (slice b o l).length = l := fun o l h => slice_length b o l (by omega)
  constructor
  · have := fromLE_lt (slice b 0 8); rw [hl 0 8 (by omega)] at this; exact this
  · have := fromLE_lt (slice b 8 3); rw [hl 8 3 (by omega)] at this; exact this
  · exact (b.getD 11 0).toNat_lt
  · have := fromLE_lt (slice b 12 2); rw [hl 12 2 (by omega)] at this; exact this
  · exact (b.getD 14 0).toNat_lt
  · exact (b.getD 15 0).toNat_lt

theorem getD_toNat_ofNat (b : Bytes) (i : Nat) (h : i < b.length) :
    [UInt8.ofNat (b.getD i 0).toNat] = slice b i 1 := by
  have : b[i]? = some b[i] := List.getElem?_eq_getElem h
  rw [List.getD_eq_getElem?_getD, this]
  simp only [Option.getD_some, slice]
  rw [List.drop_eq_getElem_cons h]
  simp [List.take]

theorem encodeHdr_decodeHdr (b : Bytes) (hb : b.length = 16) : encodeHdr (decodeHdr b) = b := by
  simp only [encodeHdr, decodeHdr]
  have hl : ∀ o l, o + l ≤ 16 → (slice b o l).length = l := fun o l h => slice_length b o l (by omega)
  rw [leN_fromLE' (slice b 0 8) 8 (hl 0 8 (by omega)), leN_fromLE' (slice b 8 3) 3 (hl 8 3 (by omega)),
    leN_fromLE' (slice b 12 2) 2 (hl 12 2 (by omega))]
  have e1 : [UInt8.ofNat (b.getD 11 0).toNat] = slice b 11 1 := getD_toNat_ofNat b 11 (by omega)
  have e2 : [UInt8.ofNat (b.getD 14 0).toNat, UInt8.ofNat (b.getD 15 0).toNat] = slice b 14 1 ++ slice b 15 1 := by
    rw [← getD_toNat_ofNat b 14 (by omega), ← getD_toNat_ofNat b 15 (by omega)]; rfl
  rw [e1, e2]
  have : b = slice b 0 16 := (slice_zero_all b 16 hb).symm
  conv => rhs; rw [this]
  rw [slice_add b 0 8 8, slice_add b (0+8) 3 5, slice_add b (0+8+3) 1 4, slice_add b (0+8+3+1) 2 2,
    slice_add b (0+8+3+1+2) 1 1]
  simp only [List.append_assoc, Nat.zero_add, Nat.reduceAdd]

theorem encodeTable_length (hs : List Hdr) : (encodeTable hs).length = 16 * hs.length := by
  induction hs with
  | nil => rfl
  | cons h hs ih =>
    simp only [encodeTable, List.flatMap_cons, List.length_append, List.length_cons, encodeHdr_length] at *
    omega

theorem encodeTable_cons (h : Hdr) (hs : List Hdr) : encodeTable (h :: hs) = encodeHdr h ++ encodeTable hs := by
  simp [encodeTable]

theorem decodeHdrs_encodeTable (hs : List Hdr) (w : ∀ h ∈ hs, h.WT) (r : Bytes) :
    decodeHdrs hs.length (encodeTable hs ++ r) = hs := by
  induction hs with
  | nil => rfl
  | cons h hs ih =>
    have h2 := ih (fun x hx => w x (by simp [hx]))
    simp only [encodeTable_cons, List.length_cons, decodeHdrs, hdrSize, List.append_assoc]
    rw [List.take_append_of_le_length (by simp), List.drop_append_of_le_length (by simp)]
    have e : (16 : Nat) = (encodeHdr h).length := (encodeHdr_length h).symm
    rw [e, List.take_length, List.drop_length, List.nil_append, h2, decodeHdr_encodeHdr h (w h (by simp))]

theorem parseTable_encodeTable (hs : List Hdr) (w : ∀ h ∈ hs, h.WT) :
    parseTable (encodeTable hs) = some hs := by
  unfold parseTable
  rw [encodeTable_length]
  simp only [hdrSize]
  rw [if_neg (by omega)]
  have : 16 * hs.length / 16 = hs.length := by omega
  rw [this]
  have := decodeHdrs_encodeTable hs w []
  simp only [List.append_nil] at this
  rw [this]

theorem decodeHdrs_length (n : Nat) (b : Bytes) : (decodeHdrs n b).length = n := by
  induction n generalizing b with
  | zero => rfl
  | succ n ih => simp [decodeHdrs, ih]

theorem encodeTable_decodeHdrs (n : Nat) (b : Bytes) (hb : b.length = 16 * n) :
    encodeTable (decodeHdrs n b) = b := by
  induction n generalizing b with
  | zero => simp at hb; subst hb; rfl
  | succ n ih =>
    simp only [decodeHdrs, encodeTable_cons, hdrSize]
    rw [ih (b.drop 16) (by simp; omega), encodeHdr_decodeHdr (b.take 16) (by simp; omega), List.take_append_drop]

/-- a parsed table re-encodes to the bytes it was parsed from -/
theorem encodeTable_parseTable (b : Bytes) (hs : List Hdr) (h : parseTable b = some hs) :
    encodeTable hs = b := by
  unfold parseTable at h
  simp only [hdrSize] at h
  split at h
  · cases h
  · injection h with h; subst h
    exact encodeTable_decodeHdrs _ b (by omega)

/-! ### the repaired `EntryHeaders.Write` / `Table.Write` -/

theorem hdrWrite_roundtrip (b b' : Bytes) (h : Hdr) (w : h.WT) (hw : hdrWrite b h = some b') :
    b'.length = b.length ∧ decodeHdr (slice b' 0 16) = h ∧ b'.drop 16 = b.drop 16 := by
  unfold hdrWrite at hw
  simp only [hdrSize] at hw
  split at hw
  · cases hw
  · injection hw with hw; subst hw
    have hl := encodeHdr_length h
    refine ⟨splice_length _ _ _ (by omega), ?_, ?_⟩
    · have := slice_splice_same b 0 (encodeHdr h) (by omega)
      rw [hl] at this
      rw [this, decodeHdr_encodeHdr h w]
    · simp [splice, hl]

theorem hdrWrite_none (b : Bytes) (h : Hdr) : hdrWrite b h = none ↔ b.length < 16 := by
  unfold hdrWrite; simp only [hdrSize]; split <;> simp_all

/-! ### JSON -/

theorem toJSON_fromJSON (h : Hdr) (w : h.WT) : fromJSON (toJSON h) = .ok h := by
  obtain ⟨address, size, reserved, version, tcv, checksum⟩ := h
  obtain ⟨ha, hs, hr, hv, ht, hc⟩ := w
  simp only at ha hs hr hv ht hc
  have ha64 : address < 18446744073709551616 := by omega
  have hs32 : size < 4294967296 := by omega
  have hs24 : ¬ 16777216 ≤ size := by omega
  have hty : tcv % 128 < 256 := by omega
  have hty' : ¬ 128 ≤ tcv % 128 := by omega
  have hmaj : version / 256 % 256 < 256 := by omega
  have hmin : version % 256 < 256 := by omega
  have htcv : (tcv % 128 + if 128 ≤ tcv % 256 then 128 else 0) = tcv := by split <;> omega
  by_cases r0 : reserved = 0 <;> by_cases m0 : version % 256 = 0 <;>
    simp [fromJSON, toJSON, occurrences, decodeAll, jNum, jNumS, jBool, jVersion, Hdr.type, Hdr.cv,
      r0, m0, ha64, hs32, hs24, hr, hty, hty', hc, hmaj, hmin, htcv, bind, Except.bind, pure, Except.pure] <;>
    omega

end Fiano.Fit
