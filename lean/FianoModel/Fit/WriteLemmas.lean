/-
  Writes into a fixed buffer: splices, sequences of disjoint writes, the in-memory seeker, and
  `inject` as such a sequence.
-/
import FianoModel.Fit.CodecLemmas
import FianoModel.Fit.AddrLemmas

namespace Fiano.Fit

/-! ### pointwise view of slices and splices -/

theorem slice_getElem? (b : Bytes) (o l i : Nat) :
    (slice b o l)[i]? = if i < l then b[o + i]? else none := by
  unfold slice
  rw [List.getElem?_take]
  split
  · rw [List.getElem?_drop]
  · rfl

theorem slice_congr (a b : Bytes) (o l : Nat)
    (h : ∀ j, o ≤ j → j < o + l → a[j]? = b[j]?) : slice a o l = slice b o l := by
  apply List.ext_getElem?
  intro i
  rw [slice_getElem?, slice_getElem?]
  split
  · exact h (o + i) (by omega) (by omega)
  · rfl

theorem splice_getElem?_mid (b : Bytes) (off : Nat) (d : Bytes) (j : Nat)
    (h1 : off ≤ j) (h2 : j < off + d.length) (hfit : off ≤ b.length) :
    (splice b off d)[j]? = d[j - off]? := by
  have hl : (b.take off).length = off := by simp; omega
  simp only [splice, List.append_assoc]
  rw [List.getElem?_append_right (by omega), hl, List.getElem?_append_left (by omega)]

theorem splice_getElem?_out (b : Bytes) (off : Nat) (d : Bytes) (j : Nat)
    (hj : j < off ∨ off + d.length ≤ j) (hfit : off + d.length ≤ b.length) :
    (splice b off d)[j]? = b[j]? := by
  rcases hj with hj | hj
  · exact splice_getElem?_lt b off d j hj hfit
  · exact splice_getElem?_ge b off d j hj hfit

theorem splice_nil (b : Bytes) (off : Nat) : splice b off [] = b := by
  simp [splice]

/-- two adjacent writes are one write of the concatenation -/
theorem splice_splice_adjacent (b : Bytes) (p : Nat) (d1 d2 : Bytes)
    (hfit : p + d1.length + d2.length ≤ b.length) :
    splice (splice b p d1) (p + d1.length) d2 = splice b p (d1 ++ d2) := by
  have hl1 : (splice b p d1).length = b.length := splice_length b p d1 (by omega)
  apply List.ext_getElem?
  intro j
  by_cases c1 : j < p
  · rw [splice_getElem?_out _ _ _ _ (Or.inl (by omega)) (by omega),
      splice_getElem?_out _ _ _ _ (Or.inl c1) (by omega),
      splice_getElem?_out _ _ _ _ (Or.inl c1) (by simp; omega)]
  · by_cases c2 : j < p + d1.length
    · rw [splice_getElem?_out _ _ _ _ (Or.inl c2) (by omega),
        splice_getElem?_mid _ _ _ _ (by omega) c2 (by omega),
        splice_getElem?_mid _ _ _ _ (by omega) (by simp; omega) (by omega),
        List.getElem?_append_left (by omega)]
    · by_cases c3 : j < p + d1.length + d2.length
      · rw [splice_getElem?_mid _ _ _ _ (by omega) (by omega) (by omega),
          splice_getElem?_mid _ _ _ _ (by omega) (by simp; omega) (by omega),
          List.getElem?_append_right (by omega)]
        congr 1; omega
      · rw [splice_getElem?_out _ _ _ _ (Or.inr (by omega)) (by omega),
          splice_getElem?_out _ _ _ _ (Or.inr (by omega)) (by omega),
          splice_getElem?_out _ _ _ _ (Or.inr (by simp; omega)) (by simp; omega)]

/-! ### sequences of writes -/

structure W where
  off : Nat
  d   : Bytes

def applyW (img : Bytes) : List W → Bytes
  | [] => img
  | w :: ws => applyW (splice img w.off w.d) ws

def W.Fits (n : Nat) (w : W) : Prop := w.off + w.d.length ≤ n
def W.Disj (a b : W) : Prop := a.off + a.d.length ≤ b.off ∨ b.off + b.d.length ≤ a.off

theorem applyW_length (img : Bytes) (ws : List W) (hf : ∀ w ∈ ws, w.Fits img.length) :
    (applyW img ws).length = img.length := by
  induction ws generalizing img with
  | nil => rfl
  | cons w ws ih =>
    have h1 : (splice img w.off w.d).length = img.length := splice_length _ _ _ (hf w (by simp))
    simp only [applyW]
    rw [ih _ (fun x hx => by rw [h1]; exact hf x (by simp [hx])), h1]

theorem applyW_append (img : Bytes) (a b : List W) : applyW img (a ++ b) = applyW (applyW img a) b := by
  induction a generalizing img with
  | nil => rfl
  | cons w ws ih => simp only [List.cons_append, applyW, ih]

/-- bytes outside every written window are untouched -/
theorem applyW_frame (img : Bytes) (ws : List W) (j : Nat) (hf : ∀ w ∈ ws, w.Fits img.length)
    (hj : ∀ w ∈ ws, j < w.off ∨ w.off + w.d.length ≤ j) : (applyW img ws)[j]? = img[j]? := by
  induction ws generalizing img with
  | nil => rfl
  | cons w ws ih =>
    have h1 : (splice img w.off w.d).length = img.length := splice_length _ _ _ (hf w (by simp))
    simp only [applyW]
    rw [ih _ (fun x hx => by rw [h1]; exact hf x (by simp [hx])) (fun x hx => hj x (by simp [hx]))]
    exact splice_getElem?_out _ _ _ _ (hj w (by simp)) (hf w (by simp))

/-- a window disjoint from every write keeps its content -/
theorem applyW_slice_frame (img : Bytes) (ws : List W) (o l : Nat) (hf : ∀ w ∈ ws, w.Fits img.length)
    (hd : ∀ w ∈ ws, w.off + w.d.length ≤ o ∨ o + l ≤ w.off) :
    slice (applyW img ws) o l = slice img o l := by
  apply slice_congr
  intro j h1 h2
  apply applyW_frame _ _ _ hf
  intro w hw
  rcases hd w hw with h | h <;> omega

/-- after a sequence of pairwise disjoint writes every window holds what was written to it -/
theorem applyW_stores (img : Bytes) (ws : List W) (hf : ∀ w ∈ ws, w.Fits img.length)
    (hd : ws.Pairwise W.Disj) : ∀ w ∈ ws, slice (applyW img ws) w.off w.d.length = w.d := by
  induction ws generalizing img with
  | nil => intro w hw; cases hw
  | cons w0 ws ih =>
    have h1 : (splice img w0.off w0.d).length = img.length := splice_length _ _ _ (hf w0 (by simp))
    have hf' : ∀ x ∈ ws, x.Fits (splice img w0.off w0.d).length := fun x hx => by
      rw [h1]; exact hf x (by simp [hx])
    rw [List.pairwise_cons] at hd
    intro w hw
    simp only [applyW]
    rcases List.mem_cons.mp hw with rfl | hw
    · rw [applyW_slice_frame _ _ _ _ hf' (fun x hx => by
        rcases hd.1 x hx with h | h
        · exact Or.inr h
        · exact Or.inl h)]
      exact slice_splice_same _ _ _ (hf w (by simp))
    · exact ih _ hf' hd.2 w hw

/-! ### the seeker -/

theorem Seeker.write_length (s : Seeker) (d : Bytes) : (s.write d).1.buf.length = s.buf.length := by
  unfold Seeker.write
  split
  · rfl
  · simp only
    apply splice_length
    simp only [List.length_take]
    omega

theorem Seeker.write_pos (s : Seeker) (d : Bytes) :
    s.pos ≤ (s.write d).1.pos ∧ (s.write d).1.pos ≤ s.pos + d.length ∧
    ((s.write d).2 = true → (s.write d).1.pos = s.pos + d.length) := by
  unfold Seeker.write
  split
  · simp
  · simp only [decide_eq_true_eq]
    omega

/-- a (possibly clipped or refused) write touches only `[pos, pos + |d|)` -/
theorem Seeker.write_frame (s : Seeker) (d : Bytes) (j : Nat)
    (hj : j < s.pos ∨ s.pos + d.length ≤ j) : (s.write d).1.buf[j]? = s.buf[j]? := by
  unfold Seeker.write
  split
  · rfl
  · simp only
    apply splice_getElem?_out
    · simp only [List.length_take]; omega
    · simp only [List.length_take]; omega

theorem Seeker.write_fits (s : Seeker) (d : Bytes) (h : s.pos + d.length ≤ s.buf.length)
    (hd : 0 < d.length) :
    s.write d = ({ buf := splice s.buf s.pos d, pos := s.pos + d.length }, true) := by
  unfold Seeker.write
  rw [if_neg (by omega)]
  have hm : min (s.buf.length - s.pos) d.length = d.length := by omega
  simp only [hm, List.take_length, decide_true]

theorem writeHdrs_length (s : Seeker) (hs : List Hdr) : (writeHdrs s hs).1.buf.length = s.buf.length := by
  induction hs generalizing s with
  | nil => rfl
  | cons h hs ih =>
    simp only [writeHdrs]
    have := Seeker.write_length s (encodeHdr h)
    split
    · rename_i s' heq; rw [heq] at this; exact this
    · rename_i s' heq; rw [heq] at this; rw [ih, this]

/-- the header table is written inside `[pos, pos + 16·|hs|)`, whatever happens -/
theorem writeHdrs_frame (s : Seeker) (hs : List Hdr) (j : Nat)
    (hj : j < s.pos ∨ s.pos + 16 * hs.length ≤ j) : (writeHdrs s hs).1.buf[j]? = s.buf[j]? := by
  induction hs generalizing s with
  | nil => rfl
  | cons h hs ih =>
    simp only [writeHdrs]
    have hf := Seeker.write_frame s (encodeHdr h) j (by simp only [encodeHdr_length, List.length_cons] at *; omega)
    have hp := Seeker.write_pos s (encodeHdr h)
    split
    · rename_i s' heq; rw [heq] at hf; exact hf
    · rename_i s' heq
      rw [heq] at hf hp
      simp only [encodeHdr_length, List.length_cons, forall_const] at hp hj
      rw [ih s' (by omega), hf]

theorem writeHdrs_fits (s : Seeker) (hs : List Hdr) (h : s.pos + 16 * hs.length ≤ s.buf.length) :
    writeHdrs s hs = ({ buf := splice s.buf s.pos (encodeTable hs), pos := s.pos + 16 * hs.length }, true) := by
  induction hs generalizing s with
  | nil => simp [writeHdrs, encodeTable, splice_nil]
  | cons x hs ih =>
    simp only [List.length_cons] at h
    simp only [writeHdrs]
    rw [Seeker.write_fits s (encodeHdr x) (by simp; omega) (by simp)]
    simp only
    have hl : (splice s.buf s.pos (encodeHdr x)).length = s.buf.length := splice_length _ _ _ (by simp; omega)
    rw [ih _ (by simp only [hl, encodeHdr_length]; omega)]
    simp only [encodeHdr_length, encodeTable_cons, List.length_cons]
    have := splice_splice_adjacent s.buf s.pos (encodeHdr x) (encodeTable hs)
      (by simp only [encodeHdr_length, encodeTable_length]; omega)
    simp only [encodeHdr_length] at this
    rw [this]
    congr 2
    omega

end Fiano.Fit
