/-
  RecalculateHeaders: what the recomputed headers satisfy.
-/
import FianoModel.Fit.Layout

namespace Fiano.Fit

theorem setU24_ok (v r : Nat) (h : setU24 v = .ok r) : r = v % two32 ∧ r < two24 := by
  unfold setU24 at h
  simp only at h
  split at h
  · cases h
  · injection h with h; subst h; exact ⟨rfl, by omega⟩

theorem mostCommonRecalc_ok (e e' : Entry) (h : mostCommonRecalc e = .ok e') :
    ∃ t, typeOfKind e.kind = some t ∧ e'.kind = e.kind ∧ e'.data = e.data ∧
      e'.hdr.tcv = 128 + t ∧ e'.hdr.address = e.hdr.address ∧ e'.hdr.version = 0x0100 ∧
      e'.hdr.size = e.data.length / 16 % two32 ∧ e.data.length / 16 % two32 < two24 := by
  unfold mostCommonRecalc at h
  split at h
  · cases h
  · rename_i t ht
    cases hs : setU24 (e.data.length / 16) with
    | error f => rw [hs] at h; cases h
    | ok sz =>
      rw [hs] at h
      obtain ⟨h1, h2⟩ := setU24_ok _ _ hs
      simp only [bind, Except.bind, pure, Except.pure] at h
      injection h with h
      subst h
      exact ⟨t, ht, rfl, rfl, rfl, rfl, rfl, h1, by rw [← h1]; exact h2⟩

theorem typeOfKind_lt (k : Kind) (t : Nat) (h : typeOfKind k = some t) : t < 128 ∧ kindOfType t = k := by
  cases k <;> simp only [typeOfKind, Option.some.injEq] at h <;> first | (subst h; decide) | cases h

theorem recalcEntry_kind (e e' : Entry) (h : recalcEntry e = .ok e') : e'.kind = e.kind := by
  unfold recalcEntry at h
  split at h
  · cases h
  · cases h
  · injection h with h; subst h; rfl
  · injection h with h; subst h; rfl
  · cases hm : mostCommonRecalc e with
    | error f => rw [hm] at h; cases h
    | ok e1 =>
      rw [hm] at h
      simp only [bind, Except.bind, pure, Except.pure] at h
      injection h with h; subst h
      obtain ⟨_, _, hk, _⟩ := mostCommonRecalc_ok e e1 hm
      exact hk
  all_goals
    cases hm : mostCommonRecalc e with
    | error f => rw [hm] at h; first | cases h | (simp only [bind, Except.bind] at h; cases h)
    | ok e1 =>
      rw [hm] at h
      obtain ⟨_, _, hk, _⟩ := mostCommonRecalc_ok e e1 hm
      first
        | (injection h with h; subst h; exact hk)
        | (simp only [bind, Except.bind, pure, Except.pure] at h
           split at h
           · cases h
           · injection h with h; subst h; exact hk)

theorem recalcEntry_fitHeader (e e' : Entry) (h : recalcEntry e = .ok e') (hk : e.kind = .fitHeader) :
    e'.hdr.address = magicAddr := by
  unfold recalcEntry at h
  rw [hk] at h
  simp only at h
  cases hm : mostCommonRecalc e with
  | error f => rw [hm] at h; cases h
  | ok e1 =>
    rw [hm] at h
    simp only [bind, Except.bind, pure, Except.pure] at h
    injection h with h; subst h; rfl

/-- element-wise relation between two lists of the same length -/
inductive Pointwise {α β : Type} (R : α → β → Prop) : List α → List β → Prop
  | nil : Pointwise R [] []
  | cons {a : α} {b : β} {as : List α} {bs : List β} : R a b → Pointwise R as bs → Pointwise R (a :: as) (b :: bs)

theorem recalcList_ok (es es' : List Entry) (h : recalcList es = .ok es') :
    Pointwise (fun e e' => recalcEntry e = .ok e') es es' := by
  induction es generalizing es' with
  | nil => unfold recalcList at h; injection h with h; subst h; exact .nil
  | cons e es ih =>
    unfold recalcList at h
    cases h1 : recalcEntry e with
    | error f => rw [h1] at h; cases h
    | ok e1 =>
      rw [h1] at h
      cases h2 : recalcList es with
      | error f => rw [h2] at h; simp only [bind, Except.bind] at h; cases h
      | ok es1 =>
        rw [h2] at h
        simp only [bind, Except.bind, pure, Except.pure] at h
        injection h with h; subst h
        exact .cons h1 (ih es1 h2)

theorem forall₂_length {α β : Type} {R : α → β → Prop} {l1 : List α} {l2 : List β}
    (h : Pointwise R l1 l2) : l2.length = l1.length := by
  induction h with
  | nil => rfl
  | cons _ _ ih => simp [ih]

theorem forall₂_kinds {l1 l2 : List Entry}
    (h : Pointwise (fun e e' => recalcEntry e = .ok e') l1 l2) :
    l2.map Entry.kind = l1.map Entry.kind := by
  induction h with
  | nil => rfl
  | cons h1 _ ih => simp only [List.map_cons, ih, recalcEntry_kind _ _ h1]

/-- after a successful `RecalculateHeaders` entry 0 carries the magic and the count; the list
    keeps its length and the Go types their order -/
theorem recalc_entry0 (es es' : List Entry) (hne : es ≠ []) (h32 : es.length < two32)
    (h : recalc es = .ok es') :
    FitHeaderOK es' ∧ es'.length = es.length ∧ es'.map Entry.kind = es.map Entry.kind := by
  unfold recalc at h
  cases es with
  | nil => exact absurd rfl hne
  | cons x xs =>
    simp only at h
    cases h1 : recalcList (x :: xs) with
    | error f => rw [h1] at h; cases h
    | ok es1 =>
      rw [h1] at h
      have hf := recalcList_ok _ _ h1
      have hlen := forall₂_length hf
      have hkinds := forall₂_kinds hf
      simp only [bind, Except.bind] at h
      cases es1 with
      | nil => simp at hlen
      | cons e0 rest =>
        simp only at h
        split at h
        · cases h
        · rename_i hk0
          have hk0' : e0.kind = .fitHeader := by simpa using hk0
          cases hs : setU24 (x :: xs).length with
          | error f => rw [hs] at h; cases h
          | ok sz =>
            rw [hs] at h
            simp only [pure, Except.pure] at h
            injection h with h; subst h
            obtain ⟨hsz, hsz24⟩ := setU24_ok _ _ hs
            cases hf with
            | cons hx _ =>
              have hkx : x.kind = .fitHeader := by rw [← recalcEntry_kind _ _ hx]; exact hk0'
              have haddr := recalcEntry_fitHeader x e0 hx hkx
              refine ⟨⟨haddr, ?_⟩, by simpa using hlen, by simpa using hkinds⟩
              simp only [List.length_cons] at hlen hsz hsz24 h32 ⊢
              rw [hsz, hlen]
              simp only [two32, two24] at *
              omega

/-- data that `RecalculateHeaders` can describe in the header: a multiple of 16 bytes for the
    ×16 types, any length for the byte-counted types (below 4 GiB: the length goes through
    `uint32`) -/
def RecalcDescribes (e : Entry) : Prop :=
  e.data.length < two32 ∧
  match e.kind with
  | .microcode | .biosStartup | .cseSecureBoot | .featurePolicy | .jmpDebug | .skip => e.data.length % 16 = 0
  | .keyManifest | .bootPolicy | .biosPolicy => True
  | _ => False

instance (e : Entry) : Decidable (RecalcDescribes e) := by
  unfold RecalcDescribes; cases e.kind <;> infer_instance

theorem recalcEntry_consistent (e e' : Entry) (h : recalcEntry e = .ok e') (hd : RecalcDescribes e) :
    e'.kind = kindOfType e'.hdr.type ∧ e'.data = e.data ∧
    announced e'.hdr e'.data = some e'.data.length := by
  obtain ⟨h32, hd⟩ := hd
  unfold recalcEntry at h
  cases hk : e.kind <;> simp only [hk] at hd h
  case keyManifest | bootPolicy | biosPolicy =>
    cases hm : mostCommonRecalc e with
    | error f => rw [hm] at h; simp only [bind, Except.bind] at h; cases h
    | ok e1 =>
      rw [hm] at h
      obtain ⟨t, ht, hk1, hd1, htcv, _, _, _, _⟩ := mostCommonRecalc_ok e e1 hm
      simp only [bind, Except.bind, pure, Except.pure] at h
      cases hs : setU24 e.data.length with
      | error f => rw [hs] at h; cases h
      | ok sz =>
        rw [hs] at h
        injection h with h; subst h
        obtain ⟨hsz, _⟩ := setU24_ok _ _ hs
        rw [hk] at ht
        simp only [typeOfKind, Option.some.injEq] at ht
        subst ht
        refine ⟨?_, hd1, ?_⟩
        · simp only [Hdr.type, htcv, hk1, hk]; decide
        · simp only [announced, Hdr.type, htcv, hd1]
          simp only [two32] at *
          have : e.data.length % 4294967296 = e.data.length := by omega
          rw [hsz]
          first
            | (show some (e.data.length % 4294967296) = some e.data.length; rw [this])
            | simp [this]
  case microcode | biosStartup | cseSecureBoot | featurePolicy | jmpDebug | skip =>
    obtain ⟨t, ht, hk1, hd1, htcv, _, _, hsz, hlt⟩ := mostCommonRecalc_ok e e' h
    rw [hk] at ht
    simp only [typeOfKind, Option.some.injEq] at ht
    subst ht
    refine ⟨?_, hd1, ?_⟩
    · simp only [Hdr.type, htcv, hk1, hk]; decide
    · simp only [announced, Hdr.type, htcv, hd1, hsz]
      simp only [two32, two24] at *
      have : e.data.length / 16 % 4294967296 * 16 = e.data.length := by omega
      first
        | (show some (e.data.length / 16 % 4294967296 * 16) = some e.data.length; rw [this])
        | simp [this]

end Fiano.Fit
