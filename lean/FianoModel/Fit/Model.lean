/-
  Model of pkg/intel/metadata/fit (calc_offset.go, entry_headers.go, table.go, entry.go,
  entry_base.go, get_entries.go, check/bounds.go, the per-type files ent_*.go) and of the
  cmds/fittool command functions.  Hand-written; tied to the Go code by
   * T1: `FianoModel.Gen.Fit` (constants, packed layouts, type registry, call inventories
         regenerated from the source; see `Fit/Tie.lean`)
   * T2: the correspondence harness (harness/props/c14) driving `Driver/C14.lean`.

  Go `uint64` arithmetic wraps; it is modelled on `Nat` with explicit `% 2^64`.
  `bytesextra.ReadWriteSeeker` (third party) is modelled as a fixed buffer with a position:
  `Seek` fails outside `[0, len]`, `Write` at `pos ≥ len` fails, a write that does not fit is
  clipped (the fitting prefix is stored) and fails.  Core Lean only.
-/
import FianoModel.Base.Bytes

namespace Fiano.Fit

/-! ### constants (consts/consts.go, consts/magic.go) -/

abbrev two64 : Nat := 18446744073709551616   -- 2^64
abbrev two63 : Nat := 9223372036854775808    -- 2^63
abbrev two32 : Nat := 4294967296             -- 2^32
abbrev two24 : Nat := 16777216               -- 2^24

abbrev basePhysAddr : Nat := 4294967296      -- consts.BasePhysAddr = 1 << 32
abbrev fitPointerOffset : Nat := 64          -- consts.FITPointerOffset = 0x40
abbrev fitPointerSize : Nat := 16            -- consts.FITPointerSize   = 0x10
abbrev hdrSize : Nat := 16                   -- binary.Size(EntryHeaders{})
/-- consts.FITHeadersMagic = "_FIT_   " -/
def magic : Bytes := [0x5f, 0x46, 0x49, 0x54, 0x5f, 0x20, 0x20, 0x20]
/-- the magic read as a little-endian `Address64` -/
abbrev magicAddr : Nat := 2314885802276505183   -- 0x2020205f5449465f

/-! ### uint64 arithmetic (calc_offset.go) -/

/-- `a - b` on uint64 -/
def sub64 (a b : Nat) : Nat := (a % two64 + two64 - b % two64) % two64
/-- `a + b` on uint64 -/
def add64 (a b : Nat) : Nat := (a + b) % two64

/-- `CalculatePhysAddrFromOffset(offset, imageSize)` -/
def physOfOffset (offset imageSize : Nat) : Nat := add64 (sub64 basePhysAddr imageSize) offset
/-- `CalculateOffsetFromPhysAddr(physAddr, imageSize)` (= `Address64.Offset`) -/
def offsetOfPhys (physAddr imageSize : Nat) : Nat := sub64 physAddr (sub64 basePhysAddr imageSize)
/-- `CalculateTailOffsetFromPhysAddr(physAddr)` -/
def tailOffsetOfPhys (physAddr : Nat) : Nat := sub64 basePhysAddr physAddr

/-- Go `int(x)` / `int64(x)` of a `uint64` -/
def toI64 (x : Nat) : Int := if x % two64 < two63 then ((x % two64 : Nat) : Int) else ((x % two64 : Nat) : Int) - (two64 : Int)

/-- `check.BytesRange(length, int(startIdx), int(endIdx)) == nil` (check/bounds.go) -/
def bytesRangeOK (length startIdx endIdx : Nat) : Bool :=
  let s := toI64 startIdx
  let e := toI64 endIdx
  !(decide (s < 0)) && !(decide (e < s)) && !(decide (0 ≤ e) && decide ((length : Int) < e))

/-! ### entry headers (entry_headers.go) -/

structure Hdr where
  address  : Nat   -- Address64
  size     : Nat   -- Uint24 (value of the three little-endian bytes)
  reserved : Nat   -- uint8
  version  : Nat   -- EntryVersion (uint16)
  tcv      : Nat   -- TypeAndIsChecksumValid (uint8): bit 7 = C_V, bits 0..6 = type
  checksum : Nat   -- uint8
  deriving Repr, DecidableEq, Inhabited

def Hdr.type (h : Hdr) : Nat := h.tcv % 128
def Hdr.cv (h : Hdr) : Bool := decide (128 ≤ h.tcv % 256)

/-- values representable in the Go struct -/
structure Hdr.WT (h : Hdr) : Prop where
  address : h.address < 256 ^ 8
  size : h.size < 256 ^ 3
  reserved : h.reserved < 256
  version : h.version < 256 ^ 2
  tcv : h.tcv < 256
  checksum : h.checksum < 256

instance (h : Hdr) : Decidable h.WT :=
  if c : h.address < 256 ^ 8 ∧ h.size < 256 ^ 3 ∧ h.reserved < 256 ∧ h.version < 256 ^ 2 ∧ h.tcv < 256
      ∧ h.checksum < 256
  then isTrue ⟨c.1, c.2.1, c.2.2.1, c.2.2.2.1, c.2.2.2.2.1, c.2.2.2.2.2⟩
  else isFalse (fun w => c ⟨w.address, w.size, w.reserved, w.version, w.tcv, w.checksum⟩)

/-- `binary.Write(w, binary.LittleEndian, hdr)`: packed, declaration order -/
def encodeHdr (h : Hdr) : Bytes :=
  leN 8 h.address ++ leN 3 h.size ++ [UInt8.ofNat h.reserved] ++ leN 2 h.version
    ++ [UInt8.ofNat h.tcv, UInt8.ofNat h.checksum]

/-- `binary.Read(r, binary.LittleEndian, &hdr)` on 16 bytes -/
def decodeHdr (b : Bytes) : Hdr :=
  { address := fromLE (slice b 0 8)
    size := fromLE (slice b 8 3)
    reserved := (b.getD 11 0).toNat
    version := fromLE (slice b 12 2)
    tcv := (b.getD 14 0).toNat
    checksum := (b.getD 15 0).toNat }

def encodeTable (hs : List Hdr) : Bytes := hs.flatMap encodeHdr

def decodeHdrs : Nat → Bytes → List Hdr
  | 0, _ => []
  | k+1, b => decodeHdr (b.take hdrSize) :: decodeHdrs k (b.drop hdrSize)

/-- `ParseTable(b)`: 16-byte records until the reader is empty; a trailing partial record is an
    error (`binary.Read` → unexpected EOF) and then no table is returned. -/
def parseTable (b : Bytes) : Option (List Hdr) :=
  if b.length % hdrSize ≠ 0 then none else some (decodeHdrs (b.length / hdrSize) b)

def byteSum (b : Bytes) : Nat := b.foldl (fun acc x => acc + x.toNat) 0

/-- `CalculateChecksum`: plain 8-bit sum of the 16 encoded bytes with `Checksum = 0` -/
def calcChecksum (h : Hdr) : Nat := byteSum (encodeHdr { h with checksum := 0 }) % 256

/-- `EntryHeaders.Write(b)` — AS REPAIRED by fixes/C14-headers-write.diff: the 16 bytes go to the
    start of `b`; a shorter `b` is refused (`io.ErrUnexpectedEOF`) and left untouched.
    (The unrepaired code wraps `b` in `bytes.NewBuffer(b)` and so *appends* behind `len(b)`:
    `b` itself is never written and the result is always `16, nil`.) -/
def hdrWrite (b : Bytes) (h : Hdr) : Option Bytes :=
  if b.length < hdrSize then none else some (splice b 0 (encodeHdr h))

/-- `Table.Write(b)` — AS REPAIRED: header `i` at `b[16 i : 16 i + 16]`; stops at the first
    header that does not fit.  Result: bytes written so far, the buffer, success. -/
def tableWrite : Bytes → Nat → List Hdr → Nat × Bytes × Bool
  | b, n, [] => (n, b, true)
  | b, n, h :: hs =>
    if b.length < n + hdrSize then (n, b, false)
    else tableWrite (splice b n (encodeHdr h)) (n + hdrSize) hs

/-! ### JSON (structured value; the text layer of encoding/json is assumed) -/

inductive JS where
  | num (n : Nat)
  | bool (b : Bool)
  deriving Repr, DecidableEq, Inhabited

inductive JV where
  | s (x : JS)
  | obj (fields : List (String × JS))
  deriving Repr, DecidableEq, Inhabited

abbrev JObj := List (String × JV)

/-- `EntryHeaders.MarshalJSON` (with `EntryVersion.MarshalJSON`; `omitempty` on Reserved / min) -/
def toJSON (h : Hdr) : JObj :=
  [("Address", .s (.num h.address)), ("Size", .s (.num h.size))]
  ++ (if h.reserved = 0 then [] else [("Reserved", .s (.num h.reserved))])
  ++ [("Version", .obj ([("maj", .num (h.version / 256 % 256))]
        ++ (if h.version % 256 = 0 then [] else [("min", .num (h.version % 256))])))]
  ++ [("Type", .s (.num h.type)), ("IsChecksumValid", .s (.bool h.cv)), ("Checksum", .s (.num h.checksum))]

inductive JErr where
  | err     -- json.Unmarshal returned an error
  | panic   -- SetUint32 / SetType panicked (Size ≥ 2^24, Type ≥ 0x80)
  deriving Repr, DecidableEq, Inhabited

/-- every value given for a key, in text order (encoding/json decodes each occurrence into the
    same field: a later duplicate overwrites, but an occurrence that fails to decode makes the
    whole `Unmarshal` fail) -/
def occurrences {α : Type} (k : String) (o : List (String × α)) : List α :=
  (o.filter (fun p => p.1 = k)).map (fun p => p.2)

/-- decode every occurrence; the last one wins; none = the zero value `cur` -/
def decodeAll {α β : Type} (dec : α → Except JErr β) : β → List α → Except JErr β
  | cur, [] => .ok cur
  | _, v :: vs => do
    let x ← dec v
    decodeAll dec x vs

/-- a JSON number into a Go unsigned integer of `bits` bits -/
def jNum (bits : Nat) (v : JV) : Except JErr Nat :=
  match v with
  | .s (.num n) => if n < 2 ^ bits then .ok n else .error .err
  | _ => .error .err

def jNumS (bits : Nat) (v : JS) : Except JErr Nat :=
  match v with
  | .num n => if n < 2 ^ bits then .ok n else .error .err
  | _ => .error .err

def jBool (v : JV) : Except JErr Bool :=
  match v with
  | .s (.bool b) => .ok b
  | _ => .error .err

/-- `EntryVersion.UnmarshalJSON` -/
def jVersion (v : JV) : Except JErr Nat :=
  match v with
  | .obj fs => do
    let maj ← decodeAll (jNumS 8) 0 (occurrences "maj" fs)
    let min ← decodeAll (jNumS 8) 0 (occurrences "min" fs)
    pure (maj * 256 + min)
  | _ => .error .err

/-- `EntryHeaders.UnmarshalJSON`: every field is decoded (any type/range error makes
    `json.Unmarshal` fail), then `SetUint32` / `SetType` panic on out-of-range values. -/
def fromJSON (o : JObj) : Except JErr Hdr := do
  let address ← decodeAll (jNum 64) 0 (occurrences "Address" o)
  let size ← decodeAll (jNum 32) 0 (occurrences "Size" o)
  let reserved ← decodeAll (jNum 8) 0 (occurrences "Reserved" o)
  let version ← decodeAll jVersion 0 (occurrences "Version" o)
  let type ← decodeAll (jNum 8) 0 (occurrences "Type" o)
  let cv ← decodeAll jBool false (occurrences "IsChecksumValid" o)
  let checksum ← decodeAll (jNum 8) 0 (occurrences "Checksum" o)
  if size ≥ two24 then .error .panic
  else if type ≥ 128 then .error .panic
  else pure { address, size, reserved, version, tcv := type + (if cv then 128 else 0), checksum }

/-! ### entries -/

/-- the Go types registered in entry_type.go (`init`), plus `EntryUnknown` -/
inductive Kind where
  | fitHeader | microcode | sacm | diagACM | biosStartup | tpmPolicy | biosPolicy | txtPolicy
  | keyManifest | bootPolicy | cseSecureBoot | featurePolicy | jmpDebug | skip | unknown
  deriving Repr, DecidableEq, Inhabited

/-- `EntryType.newEntry()` (nil ⇒ `EntryUnknown`) -/
def kindOfType (t : Nat) : Kind :=
  if t = 0x00 then .fitHeader else if t = 0x01 then .microcode else if t = 0x02 then .sacm
  else if t = 0x03 then .diagACM else if t = 0x07 then .biosStartup else if t = 0x08 then .tpmPolicy
  else if t = 0x09 then .biosPolicy else if t = 0x0A then .txtPolicy else if t = 0x0B then .keyManifest
  else if t = 0x0C then .bootPolicy else if t = 0x10 then .cseSecureBoot
  else if t = 0x2D then .featurePolicy else if t = 0x2F then .jmpDebug else if t = 0x7F then .skip
  else .unknown

/-- `entryTypeOf(entry)` (not found for `EntryUnknown`) -/
def typeOfKind : Kind → Option Nat
  | .fitHeader => some 0x00 | .microcode => some 0x01 | .sacm => some 0x02 | .diagACM => some 0x03
  | .biosStartup => some 0x07 | .tpmPolicy => some 0x08 | .biosPolicy => some 0x09
  | .txtPolicy => some 0x0A | .keyManifest => some 0x0B | .bootPolicy => some 0x0C
  | .cseSecureBoot => some 0x10 | .featurePolicy => some 0x2D | .jmpDebug => some 0x2F
  | .skip => some 0x7F | .unknown => none

/-- a FIT entry: the dynamic Go type, `EntryBase.Headers`, `EntryBase.DataSegmentBytes` -/
structure Entry where
  kind : Kind
  hdr  : Hdr
  data : Bytes
  deriving Repr, DecidableEq, Inhabited

/-- `EntrySACMParseSizeFrom(firmware, offset)` on the in-memory seeker:
    `Seek(int64(offset)+24, SeekStart)`, read a little-endian `uint32`, `<< 2` (on `uint32`). -/
def sacmSize (img : Bytes) (off : Nat) : Option Nat :=
  let so := add64 off 24
  if two63 ≤ so ∨ img.length < so then none            -- Seek refuses
  else if img.length < so + 4 then none                -- io.ReadFull: EOF / unexpected EOF
  else some (fromLE (slice img so 4) * 4 % two32)

/-- `EntryDataSegmentSize`: the per-type rule (`none` = the rule returns an error) -/
def segSize (img : Bytes) (h : Hdr) : Option Nat :=
  match kindOfType h.type with
  | .fitHeader | .txtPolicy => some 0
  | .tpmPolicy | .diagACM => none
  | .keyManifest | .bootPolicy | .biosPolicy => some h.size
  | .sacm => sacmSize img (offsetOfPhys h.address img.length)
  | _ => some (h.size * 16)

/-- `entryInitDataSegmentBytes`: the data segment read back and whether an error was recorded
    in `HeadersErrors` (size rule failed, or the window leaves the image) -/
def readData (img : Bytes) (h : Hdr) : Bytes × Bool :=
  let off := offsetOfPhys h.address img.length
  match segSize img h with
  | none => ([], true)
  | some sz =>
    if sz = 0 then ([], false)
    else if bytesRangeOK img.length off (add64 off sz) then (slice img off sz, false)
    else ([], true)

/-- `NewEntry(hdr, firmware)`: the entry and whether `HeadersErrors` is non-empty -/
def readEntry (img : Bytes) (h : Hdr) : Entry × Bool :=
  ({ kind := kindOfType h.type, hdr := h, data := (readData img h).1 }, (readData img h).2)

/-- `GetHeadersTableRangeFrom(firmware)`: start and end index of the header table -/
def tableRange (img : Bytes) : Option (Nat × Nat) :=
  let n := img.length
  -- GetPointerCoordinates + check.BytesRange: startIdx = n - 0x40 must not be negative
  if n < fitPointerOffset then none
  else
    let ptr := fromLE (slice img (n - fitPointerOffset) 8)
    let start := sub64 n (tailOffsetOfPhys ptr)
    if !bytesRangeOK n start (add64 start hdrSize) then none
    else
      let h0 := decodeHdr (slice img start hdrSize)
      if leN 8 h0.address ≠ magic then none
      else
        let e := add64 start (h0.size * 16 % two32)
        if !bytesRangeOK n start e then none else some (start, e)

/-- `GetTableFrom(firmware)` -/
def getTable (img : Bytes) : Option (List Hdr) :=
  match tableRange img with
  | none => none
  | some (s, e) => parseTable (slice img s (e - s))

/-- `GetEntriesFrom(firmware)` -/
def getEntries (img : Bytes) : Option (List (Entry × Bool)) :=
  match getTable img with
  | none => none
  | some hs => some (hs.map (readEntry img))

/-! ### the in-memory seeker and Inject -/

structure Seeker where
  buf : Bytes
  pos : Nat
  deriving Repr, DecidableEq, Inhabited

/-- `Seek(int64(x), io.SeekStart)` for a `uint64` x -/
def Seeker.seekStart (s : Seeker) (x : Nat) : Option Seeker :=
  if two63 ≤ x ∨ s.buf.length < x then none else some { s with pos := x }

/-- `Write(d)`: state afterwards and success.  Refused at `pos ≥ len`; clipped when too long. -/
def Seeker.write (s : Seeker) (d : Bytes) : Seeker × Bool :=
  if s.buf.length ≤ s.pos then (s, false)
  else
    let n := min (s.buf.length - s.pos) d.length
    ({ buf := splice s.buf s.pos (d.take n), pos := s.pos + n }, decide (n = d.length))

/-- `Table.WriteTo(w)`: one `binary.Write` (= one `Write` of 16 bytes) per header -/
def writeHdrs (s : Seeker) : List Hdr → Seeker × Bool
  | [] => (s, true)
  | h :: hs =>
    match s.write (encodeHdr h) with
    | (s', false) => (s', false)
    | (s', true) => writeHdrs s' hs

/-- `EntryBase.injectDataSectionTo(w)`: nothing for an entry without data; otherwise
    `Seek(int64(Address.Offset(size)), SeekStart)` and one `Write` of the data -/
def injectOne (buf : Bytes) (e : Entry) : Bytes × Bool :=
  if e.data.isEmpty then (buf, true)
  else
    match ({ buf := buf, pos := 0 } : Seeker).seekStart (offsetOfPhys e.hdr.address buf.length) with
    | none => (buf, false)
    | some s => ((s.write e.data).1.buf, (s.write e.data).2)

/-- the data sections of all entries, in order; the first failure stops -/
def injectData (buf : Bytes) : List Entry → Bytes × Bool
  | [] => (buf, true)
  | e :: es =>
    match injectOne buf e with
    | (buf', false) => (buf', false)
    | (buf', true) => injectData buf' es

/-- `Entries.Inject(b, headersOffset)`: the image afterwards (also when it fails midway: what
    was written stays written) and success. -/
def inject (img : Bytes) (es : List Entry) (tbl : Nat) : Bytes × Bool :=
  let n := img.length
  -- Seek(-FITPointerOffset, io.SeekEnd)
  if n < fitPointerOffset then (img, false)
  else
    -- binary.Write(w, LittleEndian, pointerValue): 8 bytes, always fit (0x40 ≥ 8)
    let (s1, ok1) := ({ buf := img, pos := n - fitPointerOffset } : Seeker).write (leN 8 (physOfOffset tbl n))
    if !ok1 then (s1.buf, false)
    else
      match s1.seekStart tbl with
      | none => (s1.buf, false)
      | some s2 =>
        match writeHdrs s2 (es.map Entry.hdr) with
        | (s3, false) => (s3.buf, false)
        | (s3, true) => injectData s3.buf es

/-! ### RecalculateHeaders (entry.go and the Custom… methods) -/

inductive Fault where
  | err | panic
  deriving Repr, DecidableEq, Inhabited

/-- `Uint24.SetUint32(uint32(v))` -/
def setU24 (v : Nat) : Except Fault Nat :=
  let v32 := v % two32
  if two24 ≤ v32 then .error .panic else .ok v32

/-- `mostCommonRecalculateHeadersOfEntry`: type, C_V, checksum (computed *before* version and
    size are set), version 0x0100, size = len(data) >> 4 -/
def mostCommonRecalc (e : Entry) : Except Fault Entry :=
  match typeOfKind e.kind with
  | none => .error .panic
  | some t => do
    let h1 := { e.hdr with tcv := 128 + t }
    let h2 := { h1 with checksum := calcChecksum h1 }
    let h3 := { h2 with version := 0x0100 }
    let sz ← setU24 (e.data.length / 16)
    pure { e with hdr := { h3 with size := sz } }

/-- `EntryRecalculateHeaders(entry)` -/
def recalcEntry (e : Entry) : Except Fault Entry :=
  match e.kind with
  | .diagACM | .tpmPolicy => .error .err
  | .sacm => .ok { e with hdr := { e.hdr with size := 0 } }
  | .txtPolicy =>
    -- SetType keeps bit 7, SetIsChecksumValid(false) clears it
    .ok { e with data := [], hdr := { e.hdr with tcv := 0x0A, size := 0 } }
  | .fitHeader => do
    let e' ← mostCommonRecalc e
    pure { e' with hdr := { e'.hdr with address := magicAddr } }
  | .keyManifest | .bootPolicy | .biosPolicy => do
    let e' ← mostCommonRecalc e
    let sz ← setU24 e.data.length
    pure { e' with hdr := { e'.hdr with size := sz } }
  | _ => mostCommonRecalc e

def recalcList : List Entry → Except Fault (List Entry)
  | [] => .ok []
  | e :: es => do
    let e' ← recalcEntry e
    let es' ← recalcList es
    pure (e' :: es')

/-- `Entries.RecalculateHeaders()` -/
def recalc (es : List Entry) : Except Fault (List Entry) :=
  match es with
  | [] => .ok []
  | _ => do
    let es' ← recalcList es
    match es' with
    | [] => .ok []
    | e0 :: rest =>
      if e0.kind ≠ .fitHeader then .error .err
      else do
        let sz ← setU24 es.length
        pure ({ e0 with hdr := { e0.hdr with size := sz } } :: rest)

/-! ### cmds/fittool (on an `os.File`: writes past the end grow the file, gaps are zero) -/

/-- `os.File` Seek(off, SeekStart) + Write(d) -/
def fileWriteAt (f : Bytes) (off : Nat) (d : Bytes) : Bytes :=
  if d.isEmpty then f
  else
    let f' := f ++ List.replicate (off + d.length - f.length) 0
    splice f' off d

/-- `Table.WriteToFirmwareImage(file)` -/
def writeTableToImage (f : Bytes) (t : List Hdr) : Option Bytes :=
  match tableRange f with
  | none => none
  | some (s, _) => some (fileWriteAt f s (encodeTable t))

/-- `fittool init`: `Entries{&EntryFITHeaderEntry{}}.RecalculateHeaders()` then `InjectTo(file, off)` -/
def cmdInit (f : Bytes) (fitOffset : Nat) : Bytes × Bool :=
  match recalc [{ kind := .fitHeader, hdr := { address := 0, size := 0, reserved := 0, version := 0, tcv := 0, checksum := 0 }, data := [] }] with
  | .error _ => (f, false)
  | .ok es =>
    -- file.Seek(-0x40, SeekEnd) fails (EINVAL) for a file shorter than 0x40
    if f.length < fitPointerOffset then (f, false)
    else
      let f1 := fileWriteAt f (f.length - fitPointerOffset) (leN 8 (physOfOffset fitOffset f.length))
      -- Seek(int64(off), SeekStart): negative ⇒ EINVAL
      if two63 ≤ fitOffset then (f1, false)
      else (fileWriteAt f1 fitOffset (encodeTable (es.map Entry.hdr)), true)

/-- the optional header fields of add_raw_headers / set_raw_headers -/
structure RawOpts where
  addressPointer : Option Nat
  addressOffset  : Option Nat
  size           : Option Nat
  type           : Option Nat
  cv             : Option Bool
  checksum       : Option Nat
  deriving Repr, DecidableEq, Inhabited

inductive CmdRes where
  | ok (f : Bytes) | err | panic
  deriving Repr, DecidableEq, Inhabited

/-- the common field-update sequence of add_raw_headers / set_raw_headers -/
def applyRaw (h : Hdr) (o : RawOpts) (fileSize : Nat) : Except Fault Hdr := do
  let h := match o.addressPointer with | some p => { h with address := p } | none => h
  let h := match o.addressOffset with | some x => { h with address := physOfOffset x fileSize } | none => h
  let h ← match o.size with
    | some s => do let v ← setU24 s; pure { h with size := v }
    | none => pure h
  let h := match o.cv with | some b => { h with tcv := h.tcv % 128 + (if b then 128 else 0) } | none => h
  let h := match o.type with | some t => { h with tcv := t % 128 + (if h.cv then 128 else 0) } | none => h
  let h := if h.cv then { h with checksum := calcChecksum h } else h
  let h := match o.checksum with | some c => { h with checksum := c } | none => h
  pure h

def argsBad (o : RawOpts) : Bool :=
  (o.addressOffset.isSome && o.addressPointer.isSome) ||
  (match o.type with | some t => decide (128 ≤ t) | none => false)

def setHdr0Size (t : List Hdr) (n : Nat) : Except Fault (List Hdr) :=
  match t with
  | [] => .ok []
  | h0 :: rest => do let v ← setU24 n; pure ({ h0 with size := v } :: rest)

def finishTable (f : Bytes) (t : List Hdr) (count : Nat) : CmdRes :=
  match t with
  | [] => .err
  | h0 :: _ =>
    if h0.type ≠ 0 then .err
    else match setHdr0Size t count with
      | .error .panic => .panic
      | .error .err => .err
      | .ok t' => match writeTableToImage f t' with
        | none => .err
        | some f' => .ok f'

/-- `fittool add_raw_headers` -/
def cmdAdd (f : Bytes) (o : RawOpts) : CmdRes :=
  if argsBad o then .err
  else match getTable f with
    | none => .err
    | some [] => .err
    | some t =>
      let h : Hdr := { address := 0, size := 0, reserved := 0, version := 0x1000, tcv := 0x7F, checksum := 0 }
      match applyRaw h o f.length with
      | .error .panic => .panic
      | .error .err => .err
      | .ok h' => finishTable f (t ++ [h']) (t.length + 1)

def skipHdr : Hdr := { address := 0, size := 0, reserved := 0, version := 0, tcv := 0x7F, checksum := 0 }

/-- `fittool set_raw_headers -n idx` -/
def cmdSet (f : Bytes) (idx : Nat) (o : RawOpts) : CmdRes :=
  if argsBad o then .err
  else match getTable f with
    | none => .err
    | some [] => .err
    | some t =>
      let t1 := t ++ List.replicate (idx + 1 - t.length) skipHdr
      match t1[idx]? with
      | none => .err
      | some h =>
        match applyRaw h o f.length with
        | .error .panic => .panic
        | .error .err => .err
        | .ok h' => finishTable f (t1.set idx h') t1.length

def zeroHdr : Hdr := { address := 0, size := 0, reserved := 0, version := 0, tcv := 0, checksum := 0 }

/-- `fittool remove_headers -n idx`: shift left, zero the last slot, count − 1; the whole old
    table length is written back (note: entry 0's type is *not* checked here) -/
def cmdRemove (f : Bytes) (idx : Nat) : CmdRes :=
  match getTable f with
  | none => .err
  | some [] => .err
  | some t =>
    if t.length ≤ idx then .err
    else
      let t1 := t.eraseIdx idx ++ [zeroHdr]
      match setHdr0Size t1 (t.length - 1) with
      | .error .panic => .panic
      | .error .err => .err
      | .ok t2 => match writeTableToImage f t2 with
        | none => .err
        | some f' => .ok f'

end Fiano.Fit
