/-
  Reader inversion: what `tableRange` / `getTable` / `readEntry` / `getEntries` return on an image
  whose pointer window, table window and data windows hold given contents.
-/
import FianoModel.Fit.CodecLemmas
import FianoModel.Fit.AddrLemmas
import FianoModel.Fit.Layout

namespace Fiano.Fit

/-- the bounds check on `[off, off + sz)` computed with wrapping `uint64` addition passes exactly
    when the window lies inside the image -/
theorem bytesRangeOK_window (n off sz : Nat) (hn : n < two63) (ho : off < two64) (hsz : sz < two64) :
    bytesRangeOK n off (add64 off sz) = true ↔ off + sz ≤ n := by
  rw [bytesRangeOK_iff n off (add64 off sz) hn ho (add64_lt _ _)]
  unfold add64
  simp only [two63, two64] at *
  omega

theorem magic_leN : leN 8 magicAddr = magic := by decide

/-! ### one entry -/

theorem segSize_of_data (img : Bytes) (e : Entry) (hn : img.length < two63)
    (ha : announced e.hdr e.data = some e.data.length)
    (hin : dataOff img.length e + e.data.length ≤ img.length)
    (hs : slice img (dataOff img.length e) e.data.length = e.data) :
    segSize img e.hdr = some e.data.length := by
  unfold announced at ha
  unfold segSize
  cases hk : kindOfType e.hdr.type <;> simp only [hk] at ha ⊢ <;> try exact ha
  all_goals try (cases ha)
  -- startup ACM: the size field is read from the image, inside the data window
  split at ha
  · cases ha
  · rename_i h28
    unfold sacmSize
    unfold dataOff at hin hs
    have hoff : add64 (offsetOfPhys e.hdr.address img.length) 24 = offsetOfPhys e.hdr.address img.length + 24 := by
      unfold add64; simp only [two63, two64] at *; omega
    simp only [hoff]
    rw [if_neg (by simp only [two63] at *; omega), if_neg (by omega)]
    have : slice img (offsetOfPhys e.hdr.address img.length + 24) 4 = slice e.data 24 4 := by
      rw [← slice_slice img _ e.data.length 24 4 (by omega), hs]
    rw [this]
    exact ha

theorem readData_data (img : Bytes) (e : Entry) (hn : img.length < two63)
    (hne : e.data ≠ []) (ha : announced e.hdr e.data = some e.data.length)
    (hin : dataOff img.length e + e.data.length ≤ img.length)
    (hs : slice img (dataOff img.length e) e.data.length = e.data) :
    readData img e.hdr = (e.data, false) := by
  unfold readData
  simp only
  rw [segSize_of_data img e hn ha hin hs]
  simp only
  have hpos : 0 < e.data.length := List.length_pos_iff.mpr hne
  rw [if_neg (by omega)]
  have hr := (bytesRangeOK_window img.length (offsetOfPhys e.hdr.address img.length) e.data.length hn
    (offsetOfPhys_lt _ _) (by unfold dataOff at hin; simp only [two63, two64] at *; omega)).mpr hin
  rw [if_pos hr]
  unfold dataOff at hs
  rw [hs]

/-- what the size rule gives for a header that designates nothing readable: an error, zero, or a
    window that leaves the image -/
theorem segSize_noSegment (img : Bytes) (h : Hdr) (hn : img.length < two63) (hwt : h.WT)
    (hns : noSegment img.length h = true) :
    segSize img h = none ∨ segSize img h = some 0 ∨
      ∃ sz, segSize img h = some sz ∧ sz < two64 ∧ img.length < offsetOfPhys h.address img.length + sz := by
  have hsz := hwt.size
  unfold noSegment at hns
  unfold segSize
  cases hk : kindOfType h.type <;> simp only [hk, decide_eq_true_eq] at hns ⊢
  case fitHeader => exact Or.inr (Or.inl trivial)
  case txtPolicy => exact Or.inr (Or.inl trivial)
  case tpmPolicy => exact Or.inl trivial
  case diagACM => exact Or.inl trivial
  case sacm =>
    left
    unfold sacmSize
    simp only
    by_cases c : two63 ≤ add64 (offsetOfPhys h.address img.length) 24 ∨
        img.length < add64 (offsetOfPhys h.address img.length) 24
    · rw [if_pos c]
    · rw [if_neg c, if_pos hns]
  case keyManifest | bootPolicy | biosPolicy =>
    rcases hns with h0 | h1
    · exact Or.inr (Or.inl (by rw [h0]))
    · exact Or.inr (Or.inr ⟨_, rfl, by simp only [two64] at *; omega, h1⟩)
  all_goals
    rcases hns with h0 | h1
    · exact Or.inr (Or.inl (by rw [h0]))
    · exact Or.inr (Or.inr ⟨_, rfl, by simp only [two64] at *; omega, h1⟩)

theorem readData_nodata (img : Bytes) (h : Hdr) (hn : img.length < two63) (hwt : h.WT)
    (hns : noSegment img.length h = true) : (readData img h).1 = [] := by
  unfold readData
  simp only
  rcases segSize_noSegment img h hn hwt hns with h1 | h1 | ⟨sz, h1, h2, h3⟩
  · rw [h1]
  · rw [h1]; rfl
  · rw [h1]
    simp only
    split
    · rfl
    · split
      · rename_i hr
        have := (bytesRangeOK_window img.length _ sz hn (offsetOfPhys_lt _ _) h2).mp hr
        omega
      · rfl

/-- a self-consistent entry is read back as it is from any image whose data window holds its
    data -/
theorem readEntry_of_slice (img : Bytes) (e : Entry) (hn : img.length < two63) (hwt : e.hdr.WT)
    (hwf : e.WF img.length)
    (hin : e.data ≠ [] → dataOff img.length e + e.data.length ≤ img.length)
    (hs : e.data ≠ [] → slice img (dataOff img.length e) e.data.length = e.data) :
    (readEntry img e.hdr).1 = e := by
  obtain ⟨hk, hwf⟩ := hwf
  unfold readEntry
  simp only
  by_cases he : e.data = []
  · rw [if_pos (by simp [he])] at hwf
    rw [readData_nodata img e.hdr hn hwt hwf, ← hk, ← he]
  · rw [if_neg (by simpa using he)] at hwf
    rw [readData_data img e hn he hwf (hin he) (hs he), ← hk]

/-! ### the table -/

theorem tableRange_of_slices (img : Bytes) (tbl : Nat) (h0 : Hdr) (hs : List Hdr)
    (hn : fitPointerOffset ≤ img.length) (hn63 : img.length < two63)
    (hfit : tbl + 16 * (h0 :: hs).length ≤ img.length)
    (hwt : h0.WT) (hmagic : h0.address = magicAddr) (hcount : h0.size = (h0 :: hs).length)
    (hptr : slice img (img.length - fitPointerOffset) 8 = leN 8 (physOfOffset tbl img.length))
    (htab : slice img tbl (16 * (h0 :: hs).length) = encodeTable (h0 :: hs)) :
    tableRange img = some (tbl, tbl + 16 * (h0 :: hs).length) := by
  unfold tableRange
  simp only
  rw [if_neg (by omega), hptr, fromLE_leN_of_lt 8 _ (by have := physOfOffset_lt tbl img.length; simp only [two64] at this; omega)]
  rw [tail_physOfOffset tbl img.length (by simp only [two63, two64] at *; omega) (by omega)]
  have h16 : add64 tbl hdrSize = tbl + 16 := by
    unfold add64; simp only [two63, two64, hdrSize, List.length_cons] at *; omega
  rw [h16]
  have hr1 : bytesRangeOK img.length tbl (tbl + 16) = true :=
    (bytesRangeOK_iff _ _ _ hn63 (by simp only [two63, two64] at *; omega)
      (by simp only [two63, two64, List.length_cons] at *; omega)).mpr
      (by simp only [List.length_cons] at *; omega)
  simp only [hr1, Bool.not_true, Bool.false_eq_true, if_false]
  have hh0 : slice img tbl hdrSize = encodeHdr h0 := by
    have : slice (slice img tbl (16 * (h0 :: hs).length)) 0 16 = slice (encodeTable (h0 :: hs)) 0 16 := by
      rw [htab]
    rw [slice_slice _ _ _ _ _ (by simp only [List.length_cons]; omega), Nat.add_zero] at this
    rw [this, encodeTable_cons]
    have := slice_mid [] (encodeHdr h0) (encodeTable hs) 0 16 rfl (encodeHdr_length h0)
    simpa using this
  rw [hh0, decodeHdr_encodeHdr h0 hwt, hmagic, magic_leN]
  simp only [ne_eq, not_true_eq_false, if_false]
  have hsz : h0.size * 16 % two32 = 16 * (h0 :: hs).length := by
    have := hwt.size
    rw [hcount] at this ⊢
    simp only [two32] at *
    omega
  rw [hsz]
  have he : add64 tbl (16 * (h0 :: hs).length) = tbl + 16 * (h0 :: hs).length := by
    unfold add64; simp only [two63, two64] at *; omega
  rw [he]
  have hr2 : bytesRangeOK img.length tbl (tbl + 16 * (h0 :: hs).length) = true :=
    (bytesRangeOK_iff _ _ _ hn63 (by simp only [two63, two64] at *; omega)
      (by simp only [two63, two64] at *; omega)).mpr (by omega)
  simp only [hr2, Bool.not_true, Bool.false_eq_true, if_false]

theorem getTable_of_slices (img : Bytes) (tbl : Nat) (h0 : Hdr) (hs : List Hdr)
    (hn : fitPointerOffset ≤ img.length) (hn63 : img.length < two63)
    (hfit : tbl + 16 * (h0 :: hs).length ≤ img.length)
    (hwt : ∀ h ∈ h0 :: hs, h.WT) (hmagic : h0.address = magicAddr) (hcount : h0.size = (h0 :: hs).length)
    (hptr : slice img (img.length - fitPointerOffset) 8 = leN 8 (physOfOffset tbl img.length))
    (htab : slice img tbl (16 * (h0 :: hs).length) = encodeTable (h0 :: hs)) :
    getTable img = some (h0 :: hs) := by
  unfold getTable
  rw [tableRange_of_slices img tbl h0 hs hn hn63 hfit (hwt h0 (by simp)) hmagic hcount hptr htab]
  simp only
  have : tbl + 16 * (h0 :: hs).length - tbl = 16 * (h0 :: hs).length := by omega
  rw [this, htab, parseTable_encodeTable _ hwt]

end Fiano.Fit
