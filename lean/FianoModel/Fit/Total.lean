/-
  pkg/intel/metadata/fit against Go's semantics (GoM): pointer lookup, `GetHeadersTableRangeFrom`,
  `GetTable`, `ParseTable`, `GetEntries` (data-segment coordinates per entry type and the slice of
  the image they select) on a `*bytesextra.ReadWriteSeeker`, and the startup-ACM data parser
  `ParseSACMData` — as repaired by fixes/C20-fit-acm-size-alloc.diff (`readBytesFromReader` reads
  through `io.LimitReader` + `io.ReadAll` instead of `make([]byte, size)`).

  All index arithmetic of the Go code is `uint64` with wrap-around, converted with `int(…)` for
  `check.BytesRange`; the model keeps both (`% two64`, `toInt`).  `len(image) < 2^63` is a fact of
  the Go runtime and an explicit hypothesis of the theorems.

  Own namespace (`Fiano.FitTotal`): the functional FIT model of C14 lives in `Fiano.Fit`.
-/
import FianoModel.Total.Hoare

namespace Fiano.FitTotal
open GoM

def two64 : Nat := 18446744073709551616
def two63 : Nat := 9223372036854775808
def two32 : Nat := 4294967296

/-- `int(x)` for `x : uint64` -/
def toInt (x : Nat) : Int := if x < two63 then (x : Int) else (x : Int) - (two64 : Int)

/-- `check.BytesRange(length, startIdx, endIdx) == nil` -/
def bytesRangeOk (length : Nat) (s e : Int) : Bool :=
  decide (¬ s < 0 ∧ ¬ e < s ∧ ¬ (0 ≤ e ∧ (length : Int) < e))

theorem bytesRange_sound (len s e : Nat) (hl : len < two63) (hs : s < two64) (he : e < two64)
    (h : bytesRangeOk len (toInt s) (toInt e) = true) : s ≤ e ∧ e ≤ len := by
  have h' := of_decide_eq_true h
  simp only [toInt, two63, two64] at *
  obtain ⟨h1, h2, h3⟩ := h'
  by_cases a : s < 9223372036854775808 <;> by_cases b : e < 9223372036854775808 <;>
    simp only [a, b, if_true, if_false] at h1 h2 h3 <;> omega

/-- `sliceOrCopyBytesFrom` on a `*bytesextra.ReadWriteSeeker`: BytesRange, then `Storage[start:end]` -/
def sliceOrCopyG (site : String) (st : Bytes) (s e : Nat) : GoM Bytes :=
  if bytesRangeOk st.length (toInt s) (toInt e) then sliceG site st s e else err

theorem sliceOrCopyG_spec (site : String) (st : Bytes) (s e : Nat) (m : Meter) (hl : st.length < two63)
    (hs : s < two64) (he : e < two64) :
    SafeP (sliceOrCopyG site st s e) m (fun d m' => d.length = e - s ∧ s ≤ e ∧ e ≤ st.length ∧ m' = m) := by
  unfold sliceOrCopyG
  apply SafeP.cond
  · intro h
    have hb := bytesRange_sound _ _ _ hl hs he h
    apply SafeP.slice hb
    refine ⟨?_, hb.1, hb.2, rfl⟩
    simp; omega
  · intro _; exact SafeP.err

def magic : Bytes := [0x5f, 0x46, 0x49, 0x54, 0x5f, 0x20, 0x20, 0x20]   -- "_FIT_   "

/-- `GetHeadersTableRangeFrom` -/
def tableRangeG (bs : Bytes) : GoM (Nat × Nat) := do
  let size := bs.length
  let ps : Int := (size : Int) - 0x40
  let pe : Int := ps + 0x10
  if !bytesRangeOk size ps pe then err
  else do
    let pb ← sliceOrCopyG "sliceOrCopyBytesFrom: r.Storage[startIdx:endIdx] (pointer)" bs ps.toNat pe.toNat
    let _ ← indexG "binary.LittleEndian.Uint64(fitPointerBytes): b[7]" pb 7
    let ptr := fromLE (pb.take 8)
    let off := (two32 + two64 - ptr) % two64            -- CalculateTailOffsetFromPhysAddr
    let startIdx := (size + two64 - off) % two64
    let firstEnd := (startIdx + 16) % two64
    if !bytesRangeOk size (toInt startIdx) (toInt firstEnd) then err
    else if toInt startIdx < 0 ∨ (size : Int) < toInt startIdx then err          -- Seek(int64(startIdx), io.SeekStart)
    else do
      let cur ← sliceFromG "bytesextra.Read: w.Storage[w.CurrentPosition:]" bs startIdx
      let (hb, _) ← binaryReadG cur 16
      if slice hb 0 8 ≠ magic then err
      else
        let endIdx := (startIdx + (fieldLE hb 8 3 * 16) % two32) % two64          -- Size.Uint32()<<4
        if !bytesRangeOk size (toInt startIdx) (toInt endIdx) then err
        else pure (startIdx, endIdx)

/-- `ParseTable`: `for r.Len() > 0 { binary.Read(16 bytes); append }` -/
def parseTableG (B : Nat) : Nat → Bytes → List Bytes → GoM (List Bytes)
  | 0, _, _ => outOfFuel
  | fuel+1, r, acc =>
    if r.length = 0 then pure acc
    else do
      let (h, r') ← binaryReadG r 16
      allocB "ParseTable: append(result, *entryHeaders)" B 1 16
      parseTableG B fuel r' (acc ++ [h])

/-- how the data-segment size of an entry type is obtained -/
inductive SizeRule where
  | none          -- no data segment (FIT header, TXT policy)
  | unsupported   -- CustomGetDataSegmentSize returns an error (TPM policy, diagnostic ACM)
  | raw           -- Size field in bytes (key manifest, boot policy manifest, BIOS policy)
  | shifted       -- Size field * 16 (every other type, unknown types included)
  | sacm          -- read from the ACM header inside the image
  deriving Repr, DecidableEq

def sizeRule (typ : Nat) : SizeRule :=
  if typ = 0x00 ∨ typ = 0x0A then .none
  else if typ = 0x08 ∨ typ = 0x03 then .unsupported
  else if typ = 0x0B ∨ typ = 0x0C ∨ typ = 0x09 then .raw
  else if typ = 0x02 then .sacm
  else .shifted

/-- the bytes `NewEntry` attaches to one entry, and whether an error was recorded in
    `HeadersErrors` (errors are collected per entry, never returned) -/
def entryDataG (bs : Bytes) (h : Bytes) : GoM (Bytes × Bool) := do
  let size := bs.length
  let addr := fieldLE h 0 8
  let sz24 := fieldLE h 8 3
  let typ := fieldLE h 14 1 % 128
  let startAddr := (two32 + two64 - size % two64) % two64              -- BasePhysAddr - imageSize
  let off := (addr + two64 - startAddr) % two64                         -- Address.Offset
  let slice? (dsz : Nat) : GoM (Bytes × Bool) :=
    if dsz = 0 then pure ([], false)
    else if bytesRangeOk size (toInt off) (toInt ((off + dsz) % two64)) then do
      let d ← sliceG "sliceOrCopyBytesFrom: r.Storage[startIdx:endIdx] (data segment)" bs off ((off + dsz) % two64)
      pure (d, false)
    else pure ([], true)
  match sizeRule typ with
  | .none => pure ([], false)
  | .unsupported => pure ([], true)
  | .raw => slice? sz24
  | .shifted => slice? (sz24 * 16)
  | .sacm =>
    -- EntrySACMParseSizeFrom: Seek(int64(offset) + 24, SeekStart), binary.Read(uint32), << 2 in uint32
    let pos := toInt ((off + 24) % two64)
    if pos < 0 ∨ (size : Int) < pos then pure ([], true)
    else do
      let cur ← sliceFromG "bytesextra.Read: w.Storage[w.CurrentPosition:] (ACM size)" bs pos.toNat
      if cur.length < 4 then pure ([], true)
      else slice? ((fromLE (cur.take 4) * 4) % two32)

def entriesLoopG (B : Nat) (bs : Bytes) : List Bytes → List (Bytes × Bool) → GoM (List (Bytes × Bool))
  | [], acc => pure acc
  | h :: hs, acc => do
    let e ← entryDataG bs h
    allocB "GetEntriesFrom: append(result, entry)" B 1 64
    entriesLoopG B bs hs (acc ++ [e])

/-- `fit.GetEntries(image)` -/
def getEntriesG (B : Nat) (bs : Bytes) : GoM (List (Bytes × Bool)) := do
  let (s, e) ← tableRangeG bs
  let tb ← sliceOrCopyG "sliceOrCopyBytesFrom: r.Storage[startIdx:endIdx] (table)" bs s e
  let hs ← parseTableG B (tb.length + 1) tb []
  entriesLoopG B bs hs []

/-! ### startup ACM data (`EntrySACM.ParseData` → `ParseSACMData`) -/

def acmCommonSize : Nat := 128

/-- bytes of the version-specific part that follows the common header -/
def acmRestSize (version : Nat) : Option (Nat × Nat) :=      -- (rest size, required key size in bytes)
  if version = 0 then some (1088, 256)
  else if version = 0x30000 then some (1600, 384)
  else if version = 0x40000 then some (7168, 384)
  else none

def parseSACMG (B : Nat) (bs : Bytes) : GoM (Bytes × Bytes) := do
  let (c, r1) ← binaryReadG bs acmCommonSize
  match acmRestSize (fieldLE c 8 4) with
  | none => err
  | some (rest, key) =>
    if fieldLE c 120 4 * 4 ≠ key then err
    else do
      let (v, r2) ← binaryReadG r1 rest
      let userStart := acmCommonSize + rest
      let userEnd := fieldLE c 24 4 * 4                      -- SizeM4.Size(): uint64, no wrap
      if userEnd > userStart then do
        -- repaired readBytesFromReader: io.ReadAll(io.LimitReader(r, n)), then the length check
        let n := userEnd - userStart
        let ua := r2.take n
        allocB "readBytesFromReader: io.ReadAll(io.LimitReader(r, size))" B ua.length 1
        if ua.length ≠ n then err else pure (c ++ v, ua)
      else pure (c ++ v, [])

/-- the unrepaired `readBytesFromReader`: `make([]byte, size)` before the copy -/
def readUserAreaOldG (B : Nat) (sizeDwords restLen : Nat) (r : Bytes) : GoM Bytes := do
  let n := sizeDwords * 4 - restLen
  allocB "readBytesFromReader: make([]byte, size)" B n 1
  let (ua, _) ← binaryReadG r n
  pure ua

/-- DESIGN.md §8 #23: ACM `Size = 0x3FFFFFFF` (dwords) in a header-only module of 1216 bytes -/
theorem readUserAreaOldG_witness :
    readUserAreaOldG (64 * 1216 + 16777216) 0x3fffffff 1216 [] {} =
      .error (.panic "alloc-budget: readBytesFromReader: make([]byte, size)") := by decide

/-! ### totality -/

theorem tableRangeG_spec (bs : Bytes) (m : Meter) (hl : bs.length < two63) :
    SafeP (tableRangeG bs) m (fun p m' => p.1 < two64 ∧ p.2 < two64 ∧ m' = m ∧ p.2 ≤ p.1 + 268435440) := by
  unfold tableRangeG
  apply SafeP.cond
  · intro _; exact SafeP.err
  · intro hr
    have hps : (0 : Int) ≤ (bs.length : Int) - 0x40 := by
      have hr' : bytesRangeOk bs.length ((bs.length : Int) - 0x40) ((bs.length : Int) - 0x40 + 0x10) = true := by
        simpa using hr
      have := of_decide_eq_true hr'
      omega
    have h64 : bs.length ≥ 64 := by omega
    have e1 : ((bs.length : Int) - 0x40).toNat = bs.length - 64 := by omega
    have e2 : ((bs.length : Int) - 0x40 + 0x10).toNat = bs.length - 48 := by omega
    rw [e1, e2]
    apply SafeP.bind
    apply SafeP.mono (sliceOrCopyG_spec _ bs _ _ m hl (by simp only [two63, two64] at *; omega)
      (by simp only [two63, two64] at *; omega))
    intro pb m' ⟨hpl, _, _, hm⟩
    rw [hm]
    apply SafeP.bind; apply SafeP.index (by omega)
    simp only
    apply SafeP.cond
    · intro _; exact SafeP.err
    · intro hr2
      apply SafeP.ite
      · intro _; exact SafeP.err
      · intro hseek
        have hmod : ∀ x, x % two64 < two64 := fun x => Nat.mod_lt _ (by decide)
        generalize hst : (bs.length + two64 - (two32 + two64 - fromLE (List.take 8 pb)) % two64) % two64 = st at *
        have hst64 : st < two64 := by rw [← hst]; exact hmod _
        have hb := bytesRange_sound _ _ _ hl hst64 (hmod _) (by simpa using hr2)
        have hst63 : st < two63 := by
          simp only [toInt] at hseek
          split at hseek
          · assumption
          · simp only [two63, two64] at *; omega
        have hstle : st ≤ bs.length := by
          simp only [toInt, if_pos hst63] at hseek
          omega
        apply SafeP.bind; apply SafeP.sliceFrom hstle
        apply SafeP.bind; apply SafeP.binaryRead; intro _
        simp only
        apply SafeP.ite
        · intro _; exact SafeP.err
        · intro _
          apply SafeP.cond
          · intro _; exact SafeP.err
          · intro _
            -- the table is as long as the 24-bit size field of its first entry says (in 16-byte units)
            have h24 := fieldLE3_lt (List.take 16 (List.drop st bs)) 8
            have hle1 := Nat.mod_le (st + fieldLE (List.take 16 (List.drop st bs)) 8 3 * 16 % two32) two64
            have hle2 := Nat.mod_le (fieldLE (List.take 16 (List.drop st bs)) 8 3 * 16) two32
            exact SafeP.pure ⟨hst64, hmod _, rfl, by simp only; omega⟩

theorem parseTableG_spec (B N fuel : Nat) (r : Bytes) (acc : List Bytes) (m : Meter)
    (hfuel : r.length < fuel) (hr : r.length ≤ N) (hb : m.alloc + r.length ≤ B) :
    SafeP (parseTableG B fuel r acc) m (fun hs m' => m'.alloc ≤ m.alloc + r.length ∧
      hs.length * 16 ≤ acc.length * 16 + r.length) := by
  induction fuel generalizing r acc m with
  | zero => omega
  | succ fuel ih =>
    unfold parseTableG
    apply SafeP.ite
    · intro _; exact SafeP.pure ⟨by omega, by omega⟩
    · intro _
      apply SafeP.bind; apply SafeP.binaryRead; intro h16
      apply SafeP.bind; apply SafeP.alloc (by omega)
      have hlen : (List.drop 16 r).length = r.length - 16 := by simp
      apply SafeP.mono (ih (List.drop 16 r) (acc ++ [List.take 16 r]) _ (by omega) (by omega)
        (by simp only []; omega))
      intro hs m' h
      simp only [List.length_append, List.length_cons, List.length_nil] at h
      exact ⟨by omega, by omega⟩

theorem entryDataG_spec (bs h : Bytes) (m : Meter) (hl : bs.length < two63) :
    SafeP (entryDataG bs h) m (fun _ m' => m' = m) := by
  have hmod : ∀ x, x % two64 < two64 := fun x => Nat.mod_lt _ (by decide)
  have hslice : ∀ (off dsz : Nat), off < two64 →
      SafeP (if dsz = 0 then (pure ([], false) : GoM (Bytes × Bool))
        else if bytesRangeOk bs.length (toInt off) (toInt ((off + dsz) % two64)) then do
          let d ← sliceG "sliceOrCopyBytesFrom: r.Storage[startIdx:endIdx] (data segment)" bs off ((off + dsz) % two64)
          pure (d, false)
        else pure ([], true)) m (fun _ m' => m' = m) := by
    intro off dsz hoff
    apply SafeP.ite
    · intro _; exact SafeP.pure rfl
    · intro _
      apply SafeP.cond
      · intro hr
        have hb := bytesRange_sound _ _ _ hl hoff (hmod _) hr
        apply SafeP.bind; apply SafeP.slice hb
        exact SafeP.pure rfl
      · intro _; exact SafeP.pure rfl
  unfold entryDataG
  simp only
  split
  · exact SafeP.pure rfl
  · exact SafeP.pure rfl
  · exact hslice _ _ (hmod _)
  · exact hslice _ _ (hmod _)
  · apply SafeP.ite
    · intro _; exact SafeP.pure rfl
    · intro hpos
      have hp : (toInt ((((fieldLE h 0 8 + two64 - (two32 + two64 - bs.length % two64) % two64) % two64) + 24) % two64)).toNat
          ≤ bs.length := by omega
      apply SafeP.bind; apply SafeP.sliceFrom hp
      apply SafeP.ite
      · intro _; exact SafeP.pure rfl
      · intro _; exact hslice _ _ (hmod _)

theorem entriesLoopG_spec (B : Nat) (bs : Bytes) (hs : List Bytes) (acc : List (Bytes × Bool)) (m : Meter)
    (hl : bs.length < two63) (hb : m.alloc + 64 * hs.length ≤ B) :
    SafeP (entriesLoopG B bs hs acc) m (fun _ m' => m'.alloc ≤ m.alloc + 64 * hs.length) := by
  induction hs generalizing acc m with
  | nil => exact SafeP.pure (by simp)
  | cons h hs ih =>
    unfold entriesLoopG
    simp only [List.length_cons] at *
    apply SafeP.bind
    apply SafeP.mono (entryDataG_spec bs h m hl)
    intro e m' hm
    rw [hm]
    apply SafeP.bind; apply SafeP.alloc (by omega)
    apply SafeP.mono (ih _ _ (by simp only []; omega))
    intro _ m'' h
    simp only at h
    omega

/-- allocation coefficient of `getEntriesG`: 16 bytes per table entry + 64 per parsed entry,
    one entry per 16 bytes of the table ⇒ `alloc ≤ 5·|image|` -/
def getEntriesKSlope : Nat := 5

theorem getEntriesG_spec (B : Nat) (bs : Bytes) (m : Meter) (hl : bs.length < two63)
    (hB : m.alloc + getEntriesKSlope * bs.length ≤ B) :
    SafeP (getEntriesG B bs) m (fun _ _ => True) := by
  unfold getEntriesG
  simp only [getEntriesKSlope] at hB
  apply SafeP.bind
  apply SafeP.mono (tableRangeG_spec bs m hl)
  intro p m1 ⟨h1, h2, hm, _⟩
  rw [hm]
  apply SafeP.bind
  apply SafeP.mono (sliceOrCopyG_spec _ bs p.1 p.2 m hl h1 h2)
  intro tb m2 ⟨htl, hse, hel, hm⟩
  rw [hm]
  have htb : tb.length ≤ bs.length := by omega
  apply SafeP.bind
  apply SafeP.mono (parseTableG_spec B tb.length (tb.length + 1) tb [] m (by omega) (by omega) (by omega))
  intro hs m3 ⟨ha, hn⟩
  simp only [List.length_nil, Nat.zero_mul, Nat.zero_add] at hn
  apply SafeP.mono (entriesLoopG_spec B bs hs [] m3 hl (by omega))
  intro _ _ _; trivial

/-- `ParseSACMData` (repaired): metered allocation ≤ |data segment| -/
theorem parseSACMG_spec (B : Nat) (bs : Bytes) (m : Meter) (hB : m.alloc + bs.length ≤ B) :
    SafeP (parseSACMG B bs) m (fun _ _ => True) := by
  unfold parseSACMG
  apply SafeP.bind; apply SafeP.binaryRead; intro _
  simp only
  split
  · exact SafeP.err
  · apply SafeP.ite
    · intro _; exact SafeP.err
    · intro _
      apply SafeP.bind; apply SafeP.binaryRead; intro _
      simp only
      apply SafeP.ite
      · intro _
        apply SafeP.bind; apply SafeP.alloc
        · simp only [List.length_take, List.length_drop]; omega
        apply SafeP.ite
        · intro _; exact SafeP.err
        · intro _; exact SafeP.pure trivial
      · intro _; exact SafeP.pure trivial

end Fiano.FitTotal
