/-
  The hypotheses of the C14 theorems, as executable (decidable) predicates: where `inject`
  writes, when a layout is free of overlap, when an entry is self-consistent.
  Written from the FIT conventions; evaluated by the driver too (`valid`), so that the harness'
  own judgement of "inside the quantifier" is cross-checked against them.
-/
import FianoModel.Fit.Model

namespace Fiano.Fit

/-- offset of the data segment of `e` in an image of `n` bytes (`Address64.Offset`) -/
def dataOff (n : Nat) (e : Entry) : Nat := offsetOfPhys e.hdr.address n

/-- `(start, length)` of the data windows of the entries that carry data, in order -/
def dataRanges (n : Nat) : List Entry → List (Nat × Nat)
  | [] => []
  | e :: es => if e.data.isEmpty then dataRanges n es else (dataOff n e, e.data.length) :: dataRanges n es

/-- every window `Inject` writes: the 8-byte FIT pointer at `n − 0x40`, the header table at
    `tbl`, the data windows -/
def layout (es : List Entry) (tbl n : Nat) : List (Nat × Nat) :=
  (n - fitPointerOffset, 8) :: (tbl, 16 * es.length) :: dataRanges n es

def rangesDisjoint (a b : Nat × Nat) : Prop := a.1 + a.2 ≤ b.1 ∨ b.1 + b.2 ≤ a.1

instance (a b : Nat × Nat) : Decidable (rangesDisjoint a b) := by unfold rangesDisjoint; infer_instance

/-- all windows lie inside the image and no two of them overlap -/
def Disjoint (n : Nat) (rs : List (Nat × Nat)) : Prop :=
  (∀ r ∈ rs, r.1 + r.2 ≤ n) ∧ rs.Pairwise rangesDisjoint

instance (n : Nat) (rs : List (Nat × Nat)) : Decidable (Disjoint n rs) := by unfold Disjoint; infer_instance

/-- the data length a header announces (per-type convention); `none`: the type has no data
    segment (FIT header, TXT policy) or none that can be read back (TPM policy, diagnostic ACM).
    A startup ACM describes itself: little-endian `uint32` at +24, in units of 4 bytes. -/
def announced (h : Hdr) (d : Bytes) : Option Nat :=
  match kindOfType h.type with
  | .fitHeader | .txtPolicy | .tpmPolicy | .diagACM => none
  | .keyManifest | .bootPolicy | .biosPolicy => some h.size
  | .sacm => if d.length < 28 then none else some (fromLE (slice d 24 4) * 4 % two32)
  | _ => some (h.size * 16)

/-- a header that designates nothing readable inside an image of `n` bytes -/
def noSegment (n : Nat) (h : Hdr) : Bool :=
  let off := offsetOfPhys h.address n
  match kindOfType h.type with
  | .fitHeader | .txtPolicy | .tpmPolicy | .diagACM => true
  | .keyManifest | .bootPolicy | .biosPolicy => decide (h.size = 0 ∨ n < off + h.size)
  | .sacm => decide (n < add64 off 24 + 4)
  | _ => decide (h.size = 0 ∨ n < off + h.size * 16)

/-- a self-consistent entry: the Go type is the one registered for the TYPE field; data, when
    present, has the announced length; without data the header designates nothing readable -/
def Entry.WF (n : Nat) (e : Entry) : Prop :=
  e.kind = kindOfType e.hdr.type ∧
  (if e.data.isEmpty then noSegment n e.hdr = true else announced e.hdr e.data = some e.data.length)

instance (n : Nat) (e : Entry) : Decidable (e.WF n) := by unfold Entry.WF; infer_instance

/-- entry 0 carries the magic `_FIT_   ` as its address and the entry count as its size -/
def FitHeaderOK (es : List Entry) : Prop :=
  match es with
  | [] => False
  | e0 :: _ => e0.hdr.address = magicAddr ∧ e0.hdr.size = es.length

instance (es : List Entry) : Decidable (FitHeaderOK es) := by
  unfold FitHeaderOK; cases es <;> infer_instance

/-- everything the C14 round-trip theorem assumes, in one decidable predicate -/
def ValidLayout (n tbl : Nat) (es : List Entry) : Prop :=
  fitPointerOffset ≤ n ∧ n < two63 ∧ FitHeaderOK es ∧ (∀ e ∈ es, e.hdr.WT) ∧ (∀ e ∈ es, e.WF n) ∧
  Disjoint n (layout es tbl n)

instance (n tbl : Nat) (es : List Entry) : Decidable (ValidLayout n tbl es) := by
  unfold ValidLayout; infer_instance

end Fiano.Fit
