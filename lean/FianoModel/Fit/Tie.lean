/-
  T1 tie for pkg/intel/metadata/fit (+ consts, cmds/fittool): the model's constants, packed
  layouts, type registry and the shape of the anchored functions are compared with the facts
  regenerated from the Go source (FianoModel/Gen/Fit*.lean) on every build.
-/
import FianoModel.Fit.Model
import FianoModel.Gen.Fit
import FianoModel.Gen.FitConsts
import FianoModel.Gen.FitToolInit
import FianoModel.Gen.FitToolAdd

namespace Fiano.Fit
open Fiano.Gen

/-! ### constants -/

theorem tie_basePhysAddr : basePhysAddr = Gen.FitConsts.BasePhysAddr := by decide
theorem tie_fitPointerOffset : fitPointerOffset = Gen.FitConsts.FITPointerOffset := by decide
theorem tie_fitPointerSize : fitPointerSize = Gen.FitConsts.FITPointerSize := by decide
theorem tie_fitPointerPhysAddr :
    Gen.FitConsts.FITPointerPhysAddr = Gen.FitConsts.BasePhysAddr - Gen.FitConsts.FITPointerOffset := by decide
/-- the pointer window the model writes (8 bytes) lies inside the 16 bytes the code reserves -/
theorem tie_pointer_window : 8 ≤ Gen.FitConsts.FITPointerSize ∧
    Gen.FitConsts.FITPointerSize ≤ Gen.FitConsts.FITPointerOffset := by decide

/-! ### the packed header -/

theorem tie_hdrSize : hdrSize = Gen.Fit.size_EntryHeaders := by decide

/-- field order and widths used by `encodeHdr` / `decodeHdr` -/
theorem tie_layout_EntryHeaders : Gen.Fit.layout_EntryHeaders =
    [("Address", 8), ("Size", 3), ("Reserved", 1), ("Version", 2), ("TypeAndIsChecksumValid", 1),
     ("Checksum", 1)] := by decide

theorem tie_layout_Uint24 : Gen.Fit.layout_Uint24 = [("Value", 3)] := by decide

/-- does the call text contain the token? (inventories are compared by count, order and key
    tokens — byte order, shifts, field names — not by whole texts, so that renaming a local or
    rewording an error is not a broken tie) -/
def isPrefixC : List Char → List Char → Bool
  | [], _ => true
  | _ :: _, [] => false
  | a :: as, b :: bs => a == b && isPrefixC as bs
def containsC (tok : List Char) : List Char → Bool
  | [] => tok.isEmpty
  | c :: cs => isPrefixC tok (c :: cs) || containsC tok cs
def has (tok s : String) : Bool := containsC tok.toList s.toList

/-- little endian, one record per header, both directions -/
theorem tie_hdr_write : Gen.Fit.calls_EntryHeaders_WriteTo_binary_Write.map (has "binary.LittleEndian") = [true] := by
  decide
theorem tie_hdr_read : Gen.Fit.calls_ParseEntryHeadersFrom_binary_Read.map (has "binary.LittleEndian") = [true] := by
  decide
theorem tie_parseTable : Gen.Fit.calls_ParseTable_ParseEntryHeadersFrom.length = 1 := by decide

/-- the `[]byte` encoders as repaired (fixes/C14-headers-write.diff): `EntryHeaders.Write` copies
    into `b` (and no longer wraps `b` in a `bytes.Buffer`), `Table.Write` passes the unwritten
    rest of `b` -/
theorem tie_hdr_write_bytes : Gen.Fit.calls_EntryHeaders_Write_copy.length = 1 ∧
    Gen.Fit.calls_EntryHeaders_Write_bytes_NewBuffer = [] := by decide
theorem tie_table_write_bytes : Gen.Fit.sites_Table_Write.length = 1 := by decide

/-- the checksum is computed over a little-endian encoding -/
theorem tie_checksum : Gen.Fit.calls_EntryHeaders_CalculateChecksum_binary_Write.map (has "binary.LittleEndian") = [true] := by
  decide

/-- the ACM size field sits at offset 24 of the common ACM header (`SizeBinaryOffset`) -/
theorem tie_sacm_size_offset :
    ((Gen.Fit.layout_EntrySACMDataCommon.takeWhile (fun p => p.1 != "Size")).map (·.2)).foldl (· + ·) 0 = 24 ∧
    Gen.Fit.layout_EntrySACMDataCommon[8]? = some ("Size", 4) := by decide

/-! ### the registry of entry types -/

theorem tie_registry : Gen.Fit.calls_init_RegisterEntryType =
    ["RegisterEntryType(EntryTypeFITHeaderEntry, &EntryFITHeaderEntry{})",
     "RegisterEntryType(EntryTypeMicrocodeUpdateEntry, &EntryMicrocodeUpdateEntry{})",
     "RegisterEntryType(EntryTypeStartupACModuleEntry, &EntrySACM{})",
     "RegisterEntryType(EntryTypeDiagnosticACModuleEntry, &EntryDiagnosticACM{})",
     "RegisterEntryType(EntryTypeBIOSStartupModuleEntry, &EntryBIOSStartupModuleEntry{})",
     "RegisterEntryType(EntryTypeTPMPolicyRecord, &EntryTPMPolicyRecord{})",
     "RegisterEntryType(EntryTypeBIOSPolicyRecord, &EntryBIOSPolicyRecord{})",
     "RegisterEntryType(EntryTypeTXTPolicyRecord, &EntryTXTPolicyRecord{})",
     "RegisterEntryType(EntryTypeKeyManifestRecord, &EntryKeyManifestRecord{})",
     "RegisterEntryType(EntryTypeBootPolicyManifest, &EntryBootPolicyManifestRecord{})",
     "RegisterEntryType(EntryTypeCSESecureBoot, &EntryCSESecureBoot{})",
     "RegisterEntryType(EntryTypeFeaturePolicyDeliveryRecord, &EntryFeaturePolicyDeliveryRecord{})",
     "RegisterEntryType(EntryTypeJMPDebugPolicy, &EntryJMPDebugPolicy{})",
     "RegisterEntryType(EntryTypeSkip, &EntrySkip{})"] := by decide

/-- the model's `kindOfType` / `typeOfKind` use the TYPE values of the registered constants, in
    the order of the registry -/
theorem tie_type_values :
    [Gen.Fit.EntryTypeFITHeaderEntry, Gen.Fit.EntryTypeMicrocodeUpdateEntry, Gen.Fit.EntryTypeStartupACModuleEntry,
     Gen.Fit.EntryTypeDiagnosticACModuleEntry, Gen.Fit.EntryTypeBIOSStartupModuleEntry,
     Gen.Fit.EntryTypeTPMPolicyRecord, Gen.Fit.EntryTypeBIOSPolicyRecord, Gen.Fit.EntryTypeTXTPolicyRecord,
     Gen.Fit.EntryTypeKeyManifestRecord, Gen.Fit.EntryTypeBootPolicyManifest, Gen.Fit.EntryTypeCSESecureBoot,
     Gen.Fit.EntryTypeFeaturePolicyDeliveryRecord, Gen.Fit.EntryTypeJMPDebugPolicy, Gen.Fit.EntryTypeSkip].map
      kindOfType =
    [.fitHeader, .microcode, .sacm, .diagACM, .biosStartup, .tpmPolicy, .biosPolicy, .txtPolicy,
     .keyManifest, .bootPolicy, .cseSecureBoot, .featurePolicy, .jmpDebug, .skip] ∧
    [Kind.fitHeader, .microcode, .sacm, .diagACM, .biosStartup, .tpmPolicy, .biosPolicy, .txtPolicy,
     .keyManifest, .bootPolicy, .cseSecureBoot, .featurePolicy, .jmpDebug, .skip].map typeOfKind =
    [Gen.Fit.EntryTypeFITHeaderEntry, Gen.Fit.EntryTypeMicrocodeUpdateEntry, Gen.Fit.EntryTypeStartupACModuleEntry,
     Gen.Fit.EntryTypeDiagnosticACModuleEntry, Gen.Fit.EntryTypeBIOSStartupModuleEntry,
     Gen.Fit.EntryTypeTPMPolicyRecord, Gen.Fit.EntryTypeBIOSPolicyRecord, Gen.Fit.EntryTypeTXTPolicyRecord,
     Gen.Fit.EntryTypeKeyManifestRecord, Gen.Fit.EntryTypeBootPolicyManifest, Gen.Fit.EntryTypeCSESecureBoot,
     Gen.Fit.EntryTypeFeaturePolicyDeliveryRecord, Gen.Fit.EntryTypeJMPDebugPolicy, Gen.Fit.EntryTypeSkip].map some := by
  decide

/-- every TYPE value that is not one of the fourteen is `EntryUnknown` in the model -/
theorem tie_unknown_types : ∀ t, t < 128 → kindOfType t = .unknown ∨
    t ∈ [Gen.Fit.EntryTypeFITHeaderEntry, Gen.Fit.EntryTypeMicrocodeUpdateEntry, Gen.Fit.EntryTypeStartupACModuleEntry,
     Gen.Fit.EntryTypeDiagnosticACModuleEntry, Gen.Fit.EntryTypeBIOSStartupModuleEntry,
     Gen.Fit.EntryTypeTPMPolicyRecord, Gen.Fit.EntryTypeBIOSPolicyRecord, Gen.Fit.EntryTypeTXTPolicyRecord,
     Gen.Fit.EntryTypeKeyManifestRecord, Gen.Fit.EntryTypeBootPolicyManifest, Gen.Fit.EntryTypeCSESecureBoot,
     Gen.Fit.EntryTypeFeaturePolicyDeliveryRecord, Gen.Fit.EntryTypeJMPDebugPolicy, Gen.Fit.EntryTypeSkip] := by
  decide

/-! ### Inject -/

/-- the pointer is `CalculatePhysAddrFromOffset(headersOffset, size)`, written little endian -/
theorem tie_inject_pointer : Gen.Fit.calls_Entries_InjectTo_binary_Write.map (has "binary.LittleEndian") = [true] ∧
    Gen.Fit.calls_Entries_InjectTo_CalculatePhysAddrFromOffset.length = 1 := by decide
theorem tie_address64 : Gen.Fit.calls_Address64_Offset_CalculateOffsetFromPhysAddr.length = 1 ∧
    Gen.Fit.calls_Address64_SetOffset_CalculatePhysAddrFromOffset.length = 1 := by decide

/-! ### locating and reading the table -/

/-- three bounds checks (pointer, first header, whole table), the pointer read as a little-endian
    `uint64` and turned into a tail offset, entry 0 read little endian and compared with the
    magic, the table length `Size << 4` -/
theorem tie_range : Gen.Fit.calls_GetHeadersTableRangeFrom_check_BytesRange.length = 3 ∧
    Gen.Fit.calls_GetHeadersTableRangeFrom_GetPointerCoordinates.length = 1 ∧
    Gen.Fit.calls_GetHeadersTableRangeFrom_binary_LittleEndian_Uint64.length = 1 ∧
    Gen.Fit.calls_GetHeadersTableRangeFrom_CalculateTailOffsetFromPhysAddr.length = 1 ∧
    Gen.Fit.calls_GetHeadersTableRangeFrom_binary_Read.map (has "binary.LittleEndian") = [true] ∧
    Gen.Fit.calls_GetHeadersTableRangeFrom_bytes_Equal.map (has "FITHeadersMagic") = [true] ∧
    (Gen.Fit.calls_GetHeadersTableRangeFrom_uint64.filter (has "<<")).map (has "<< 4") = [true] := by decide
theorem tie_slices : Gen.Fit.calls_GetTableFrom_sliceOrCopyBytesFrom.length = 1 ∧
    Gen.Fit.calls_sliceOrCopyBytesFrom_check_BytesRange.length = 1 ∧
    Gen.Fit.sites_sliceOrCopyBytesFrom.length = 1 ∧
    Gen.Fit.calls_entryInitDataSegmentBytes_sliceOrCopyBytesFrom.length = 1 := by decide

/-! ### per-type data-size rules -/

/-- ×16 by default? no: the default rule converts `Size` and shifts outside the conversion; the
    byte-counted types convert `Size` unshifted; FIT header / TXT never fail; TPM policy and
    diagnostic ACM always fail; the ACM reads its size little endian from the image -/
theorem tie_size_rules :
    Gen.Fit.calls_EntryHeaders_mostCommonGetDataSegmentSize_uint64.map (has "Size") = [true] ∧
    Gen.Fit.calls_EntryKeyManifestRecord_CustomGetDataSegmentSize_uint64.map (fun c => (has "Size" c, has "<<" c)) = [(true, false)] ∧
    Gen.Fit.calls_EntryBootPolicyManifestRecord_CustomGetDataSegmentSize_uint64.map (fun c => (has "Size" c, has "<<" c)) = [(true, false)] ∧
    Gen.Fit.calls_EntryBIOSPolicyRecord_CustomGetDataSegmentSize_uint64.map (fun c => (has "Size" c, has "<<" c)) = [(true, false)] ∧
    Gen.Fit.calls_EntryFITHeaderEntry_CustomGetDataSegmentSize_fmt_Errorf = [] ∧
    Gen.Fit.calls_EntryTXTPolicyRecord_CustomGetDataSegmentSize_fmt_Errorf = [] ∧
    Gen.Fit.calls_EntryTPMPolicyRecord_CustomGetDataSegmentSize_fmt_Errorf.length = 1 ∧
    Gen.Fit.calls_EntryDiagnosticACM_CustomGetDataSegmentSize_fmt_Errorf.length = 1 ∧
    Gen.Fit.calls_EntrySACM_CustomGetDataSegmentSize_EntrySACMParseSizeFrom.length = 1 ∧
    Gen.Fit.calls_EntrySACMParseSizeFrom_binary_Read.map (has "binary.LittleEndian") = [true] := by decide

/-! ### RecalculateHeaders -/

/-- the checksum is assigned before the version; the size is `len >> 4`; version 0x0100 -/
theorem tie_recalc_common :
    Gen.Fit.assigns_mostCommonRecalculateHeadersOfEntry.map (fun c => (has "Checksum" c, has "Version" c)) =
      [(true, false), (false, true)] ∧
    Gen.Fit.calls_mostCommonRecalculateHeadersOfEntry_uint32.map (has ">> 4") = [true] ∧
    Gen.Fit.calls_mostCommonRecalculateHeadersOfEntry_EntryVersion.map (has "0x0100") = [true] := by decide

/-- KM / BPM / BIOS policy: common rule, then the size in bytes; FIT header: common rule; the
    startup ACM and the TXT policy do *not* go through the common rule (so the ACM's TYPE field
    is not set); entry 0 receives the (uint32) entry count -/
theorem tie_recalc_custom :
    Gen.Fit.calls_EntryKeyManifestRecord_CustomRecalculateHeaders_uint32.map (has ">>") = [false] ∧
    Gen.Fit.calls_EntryBootPolicyManifestRecord_CustomRecalculateHeaders_uint32.map (has ">>") = [false] ∧
    Gen.Fit.calls_EntryBIOSPolicyRecord_CustomRecalculateHeaders_uint32.map (has ">>") = [false] ∧
    Gen.Fit.calls_EntryKeyManifestRecord_CustomRecalculateHeaders_mostCommonRecalculateHeadersOfEntry.length = 1 ∧
    Gen.Fit.calls_EntryBootPolicyManifestRecord_CustomRecalculateHeaders_mostCommonRecalculateHeadersOfEntry.length = 1 ∧
    Gen.Fit.calls_EntryBIOSPolicyRecord_CustomRecalculateHeaders_mostCommonRecalculateHeadersOfEntry.length = 1 ∧
    Gen.Fit.calls_EntryFITHeaderEntry_CustomRecalculateHeaders_mostCommonRecalculateHeadersOfEntry.length = 1 ∧
    Gen.Fit.calls_EntrySACM_CustomRecalculateHeaders_mostCommonRecalculateHeadersOfEntry = [] ∧
    Gen.Fit.calls_EntryTXTPolicyRecord_CustomRecalculateHeaders_mostCommonRecalculateHeadersOfEntry = [] ∧
    Gen.Fit.calls_Entries_RecalculateHeaders_uint32.length = 1 := by decide

/-! ### cmds/fittool -/

theorem tie_fittool_init : Gen.FitToolInit.calls_Command_Execute_fit_Address64.length = 1 := by decide
/-- add_raw_headers starts from version 0x1000 (sic) and stores the new count in entry 0 -/
theorem tie_fittool_add : Gen.FitToolAdd.calls_Command_Execute_fit_EntryVersion.map (has "0x1000") = [true] ∧
    Gen.FitToolAdd.calls_Command_Execute_uint32.length = 1 := by decide

end Fiano.Fit
