/-
  Tie T1 "code as code" for pkg/intel/metadata/fit: the summation loop of
  `EntryHeaders.CalculateChecksum` (a *fragment* of the method: the statements from
  `result := uint8(0)` to the `for` loop, with `buf.Bytes()` as its input) as translated from the
  source on every run (Gen/CodeFit.lean) is the model's `byteSum … % 256` (Fit/Model.lean,
  `calcChecksum`) — an 8-bit wrap-around sum of all bytes, for every byte string.
  Second part: the bit-field methods of `TypeAndIsChecksumValid` (Type, IsChecksumValid, SetType with
  its panic, SetIsChecksumValid) against `Hdr.type` / `Hdr.cv` / the model's re-composition of the
  byte, and `GetPointerCoordinates` against `fitPointerOffset`.
-/
import FianoModel.Gen.CodeFit
import FianoModel.CodeTie.Lemmas
import FianoModel.Fit.Model

namespace Fiano.Fit.CodeTie
open Fiano Fiano.Fit Fiano.GoRt
open Fiano.Gen.CodeFit

theorem foldl_u8_nat : ∀ (b : Bytes) (a : UInt8) (n : Nat), a.toNat = n % 256 →
    (b.foldl (fun r x => r + x) a).toNat = (b.foldl (fun acc x => acc + x.toNat) n) % 256 := by
  intro b
  induction b with
  | nil => intro a n h; simpa using h
  | cons x xs ih =>
    intro a n h
    simp only [List.foldl_cons]
    apply ih
    rw [UInt8.toNat_add, h]
    omega

/-- the checksum loop of `CalculateChecksum` as translated from the source = `byteSum b % 256` -/
theorem headerByteSum_tie (b : Bytes) : (frag_headerByteSum b).toNat = byteSum b % 256 := by
  unfold frag_headerByteSum byteSum
  exact foldl_u8_nat b 0 0 (by decide)

/-- the model's `calcChecksum` is the translated loop applied to the encoded header -/
theorem calcChecksum_code (h : Hdr) :
    calcChecksum h = (frag_headerByteSum (encodeHdr { h with checksum := 0 })).toNat := by
  unfold calcChecksum
  rw [headerByteSum_tie]

/-! ### the type / checksum-valid byte (`TypeAndIsChecksumValid`): getters and setters -/

set_option maxRecDepth 100000 in
/-- `TypeAndIsChecksumValid.Type()` as translated from the source: the low seven bits (model: `Hdr.type`) -/
theorem tcvType_tie : ∀ f : UInt8, (fn_TypeAndIsChecksumValid_Type f).toNat = f.toNat % 128 := by
  apply u8_forall; decide

set_option maxRecDepth 100000 in
/-- `TypeAndIsChecksumValid.IsChecksumValid()` as translated from the source: bit 7 (model: `Hdr.cv`) -/
theorem tcvValid_tie : ∀ f : UInt8, fn_TypeAndIsChecksumValid_IsChecksumValid f = decide (128 ≤ f.toNat % 256) := by
  apply u8_forall; decide

/-- the model's accessors `Hdr.type` / `Hdr.cv` are the translated methods applied to the header byte -/
theorem hdr_type_code (h : Hdr) (hb : h.tcv < 256) :
    h.type = (fn_TypeAndIsChecksumValid_Type (UInt8.ofNat h.tcv)).toNat ∧
    h.cv = fn_TypeAndIsChecksumValid_IsChecksumValid (UInt8.ofNat h.tcv) := by
  have e : (UInt8.ofNat h.tcv).toNat = h.tcv := by simp [UInt8.toNat_ofNat']; omega
  rw [tcvType_tie, tcvValid_tie, e]
  exact ⟨rfl, rfl⟩

/-- the hypothesis of `hdr_type_code` holds for every decoded header (the field is one byte) -/
example : ({ address := 0, size := 0, reserved := 0, version := 0x100, tcv := 0x82, checksum := 0 } : Hdr).tcv < 256 := by
  decide

set_option maxRecDepth 100000 in
/-- `SetIsChecksumValid` as translated from the source: bit 7 := the flag, the type bits are kept
    (model: `tcv := type + (if cv then 128 else 0)`) -/
theorem tcvSetValid_tie : ∀ f : UInt8, ∀ v : Bool,
    (fn_TypeAndIsChecksumValid_SetIsChecksumValid f v).toNat = f.toNat % 128 + (if v then 128 else 0) := by
  apply u8_forall; decide

set_option maxRecDepth 100000 in
theorem setType_guard : ∀ t : UInt8, ((t.toUInt64 &&& 18446744073709551488) != 0) = decide (128 ≤ t.toNat) := by
  apply u8_forall; decide
set_option maxRecDepth 100000 in
theorem setType_other : ∀ f : UInt8, (f.toUInt64 &&& 18446744073709551488).toUInt8 = f &&& 128 := by
  apply u8_forall; decide
set_option maxRecDepth 100000 in
theorem and128 : ∀ f : UInt8, (f &&& 128 = 0 ∧ f.toNat / 128 * 128 = 0) ∨ (f &&& 128 = 128 ∧ f.toNat / 128 * 128 = 128) := by
  apply u8_forall; decide
set_option maxRecDepth 100000 in
theorem or128 : ∀ t : UInt8, t.toNat < 128 → (t ||| 128).toNat = t.toNat + 128 := by
  apply u8_forall; decide

/-- `SetType` as translated from the source: **panics** for a type ≥ 0x80 (model: `.error .panic`),
    otherwise stores the type and keeps bit 7 (the C_V flag) -/
theorem tcvSetType_tie (f t : UInt8) :
    fn_TypeAndIsChecksumValid_SetType f t =
      if t.toNat < 128 then some (UInt8.ofNat (t.toNat + f.toNat / 128 * 128)) else none := by
  unfold fn_TypeAndIsChecksumValid_SetType
  simp only [setType_guard, setType_other]
  by_cases h : t.toNat < 128
  · have hn : ¬ (128 ≤ t.toNat) := by omega
    simp only [hn, decide_false, Bool.false_eq_true, if_false, h, if_true, bind, Option.bind, pure]
    congr 1
    apply UInt8.toNat_inj.mp
    rcases and128 f with ⟨h1, h2⟩ | ⟨h1, h2⟩
    · rw [h1, h2]; simp
    · rw [h1, h2, or128 t h]; simp; omega
  · have hn : (128 ≤ t.toNat) := by omega
    simp [hn, h]

/-! ### where the FIT pointer sits -/

/-- `GetPointerCoordinates` as translated from the source (with `consts.FITPointerOffset` and
    `consts.FITPointerSize` folded from the other package): the 16 bytes starting 0x40 before the end
    of the image (model: `fitPointerOffset`), for every image size below 2^63 -/
theorem pointerCoordinates_tie (size : UInt64) (h : size.toNat < 2 ^ 63) :
    fn_GetPointerCoordinates size = ((size.toNat : Int) - (fitPointerOffset : Nat), (size.toNat : Int) - 48) := by
  unfold fn_GetPointerCoordinates
  simp only [i64_small size h, fitPointerOffset]
  congr 1
  omega

/-- the size hypothesis is satisfiable (and true of every in-memory image) -/
example : (16777216 : UInt64).toNat < 2 ^ 63 := by decide

end Fiano.Fit.CodeTie
