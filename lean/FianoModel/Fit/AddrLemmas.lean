/-
  uint64 address arithmetic of calc_offset.go and the bounds check of check/bounds.go.
-/
import FianoModel.Fit.Model

namespace Fiano.Fit

theorem sub64_lt (a b : Nat) : sub64 a b < two64 := by
  unfold sub64 two64; omega

theorem add64_lt (a b : Nat) : add64 a b < two64 := by
  unfold add64 two64; omega

theorem physOfOffset_lt (o n : Nat) : physOfOffset o n < two64 := add64_lt _ _
theorem offsetOfPhys_lt (a n : Nat) : offsetOfPhys a n < two64 := sub64_lt _ _

/-- offset → address → offset, for every uint64 offset and image size -/
theorem offsetOfPhys_physOfOffset (off size : Nat) (ho : off < two64) :
    offsetOfPhys (physOfOffset off size) size = off := by
  unfold offsetOfPhys physOfOffset add64 sub64 basePhysAddr two64 at *
  omega

/-- address → offset → address, for every uint64 address and image size -/
theorem physOfOffset_offsetOfPhys (addr size : Nat) (ha : addr < two64) :
    physOfOffset (offsetOfPhys addr size) size = addr := by
  unfold offsetOfPhys physOfOffset add64 sub64 basePhysAddr two64 at *
  omega

/-- inside an image that ends at 4 GiB the address is the plain sum, inside the window -/
theorem physOfOffset_inside (off size : Nat) (hs : size ≤ two32) (ho : off < size) :
    physOfOffset off size = two32 - size + off ∧
    two32 - size ≤ physOfOffset off size ∧ physOfOffset off size < two32 := by
  unfold physOfOffset add64 sub64 basePhysAddr two64 two32 at *
  omega

theorem offsetOfPhys_inside (addr size : Nat) (hs : size ≤ two32)
    (h1 : two32 - size ≤ addr) (h2 : addr < two32) :
    offsetOfPhys addr size = addr - (two32 - size) ∧ offsetOfPhys addr size < size := by
  unfold offsetOfPhys sub64 basePhysAddr two64 two32 at *
  omega

/-- the tail offset of the address of `off` is the distance from the end -/
theorem tail_physOfOffset (off size : Nat) (hs : size < two64) (ho : off ≤ size) :
    sub64 size (tailOffsetOfPhys (physOfOffset off size)) = off := by
  unfold tailOffsetOfPhys physOfOffset add64 sub64 basePhysAddr two64 at *
  omega

theorem toI64_small (x : Nat) (h : x < two63) : toI64 x = (x : Int) := by
  unfold toI64 two63 two64 at *
  have : x % 18446744073709551616 = x := by omega
  rw [this, if_pos h]

theorem toI64_big (x : Nat) (h1 : two63 ≤ x) (h2 : x < two64) : toI64 x = (x : Int) - (two64 : Int) := by
  unfold toI64 two63 two64 at *
  have : x % 18446744073709551616 = x := by omega
  rw [this, if_neg (by omega)]

theorem bytesRangeOK_eq (len s e : Nat) :
    bytesRangeOK len s e = true ↔
      ¬ (toI64 s < 0) ∧ ¬ (toI64 e < toI64 s) ∧ ¬ (0 ≤ toI64 e ∧ (len : Int) < toI64 e) := by
  simp only [bytesRangeOK, Bool.and_eq_true, Bool.not_eq_true', decide_eq_false_iff_not,
    decide_eq_true_eq, Bool.and_eq_false_imp, and_assoc]
  constructor
  · rintro ⟨a, b, c⟩; exact ⟨a, b, fun ⟨h1, h2⟩ => absurd h2 (by have := c h1; omega)⟩
  · rintro ⟨a, b, c⟩; exact ⟨a, b, fun h1 => by
      by_cases h2 : (len : Int) < toI64 e
      · exact absurd ⟨h1, h2⟩ c
      · exact h2⟩

/-- `check.BytesRange` on `uint64` indices converted with `int(...)`: passes exactly when
    `start ≤ end ≤ length` (as naturals below 2^63) -/
theorem bytesRangeOK_iff (len s e : Nat) (hl : len < two63) (hs : s < two64) (he : e < two64) :
    bytesRangeOK len s e = true ↔ s ≤ e ∧ e ≤ len := by
  rw [bytesRangeOK_eq]
  by_cases c1 : s < two63 <;> by_cases c2 : e < two63
  · rw [toI64_small s c1, toI64_small e c2]; simp only [two63, two64] at *; omega
  · rw [toI64_small s c1, toI64_big e (by omega) he]; simp only [two63, two64] at *; omega
  · rw [toI64_big s (by omega) hs, toI64_small e c2]; simp only [two63, two64] at *; omega
  · rw [toI64_big s (by omega) hs, toI64_big e (by omega) he]; simp only [two63, two64] at *; omega

end Fiano.Fit
