/-
  `injectData` and `inject` as sequences of confined writes.
-/
import FianoModel.Fit.WriteLemmas
import FianoModel.Fit.Layout

namespace Fiano.Fit

/-! ### data sections -/

def dataWrites (n : Nat) : List Entry → List W
  | [] => []
  | e :: es => if e.data.isEmpty then dataWrites n es else ⟨dataOff n e, e.data⟩ :: dataWrites n es

theorem seekStart_some (s s' : Seeker) (x : Nat) (h : s.seekStart x = some s') :
    s' = { buf := s.buf, pos := x } := by
  unfold Seeker.seekStart at h
  split at h
  · cases h
  · injection h with h; subst h; rfl

theorem injectOne_length (buf : Bytes) (e : Entry) : (injectOne buf e).1.length = buf.length := by
  unfold injectOne
  split
  · rfl
  · split
    · rfl
    · rename_i s hs
      rw [seekStart_some _ _ _ hs]
      exact Seeker.write_length _ _

theorem injectOne_frame (buf : Bytes) (e : Entry) (j : Nat)
    (hj : e.data ≠ [] → j < dataOff buf.length e ∨ dataOff buf.length e + e.data.length ≤ j) :
    (injectOne buf e).1[j]? = buf[j]? := by
  unfold injectOne
  split
  · rfl
  · rename_i hne
    have hne' : e.data ≠ [] := by simpa using hne
    split
    · rfl
    · rename_i s hs
      rw [seekStart_some _ _ _ hs]
      exact Seeker.write_frame _ _ _ (hj hne')

theorem injectOne_fits (buf : Bytes) (e : Entry) (hn : buf.length < two63) (hne : e.data ≠ [])
    (hfit : dataOff buf.length e + e.data.length ≤ buf.length) :
    injectOne buf e = (splice buf (dataOff buf.length e) e.data, true) := by
  unfold injectOne
  rw [if_neg (by simpa using hne)]
  have hpos : 0 < e.data.length := List.length_pos_iff.mpr hne
  have hseek : ({ buf := buf, pos := 0 } : Seeker).seekStart (offsetOfPhys e.hdr.address buf.length)
      = some { buf := buf, pos := dataOff buf.length e } := by
    unfold Seeker.seekStart
    unfold dataOff at hfit
    simp only
    rw [if_neg (by omega)]
    rfl
  rw [hseek]
  simp only
  rw [Seeker.write_fits _ _ (by simpa using hfit) hpos]

theorem injectData_length (buf : Bytes) (es : List Entry) : (injectData buf es).1.length = buf.length := by
  induction es generalizing buf with
  | nil => rfl
  | cons e es ih =>
    unfold injectData
    have h1 := injectOne_length buf e
    generalize injectOne buf e = r at h1 ⊢
    obtain ⟨b', ok⟩ := r
    cases ok
    · exact h1
    · simp only at h1 ⊢; rw [ih, h1]

/-- data sections are written inside their address-derived windows, whatever happens -/
theorem injectData_frame (buf : Bytes) (es : List Entry) (j : Nat)
    (hj : ∀ e ∈ es, e.data ≠ [] → j < dataOff buf.length e ∨ dataOff buf.length e + e.data.length ≤ j) :
    (injectData buf es).1[j]? = buf[j]? := by
  induction es generalizing buf with
  | nil => rfl
  | cons e es ih =>
    unfold injectData
    have h1 := injectOne_length buf e
    have f1 := injectOne_frame buf e j (hj e (by simp))
    generalize injectOne buf e = r at h1 f1 ⊢
    obtain ⟨b', ok⟩ := r
    cases ok
    · exact f1
    · simp only at h1 f1 ⊢
      rw [ih b' (fun x hx => by rw [h1]; exact hj x (by simp [hx])), f1]

theorem injectData_fits (buf : Bytes) (es : List Entry) (hn : buf.length < two63)
    (hfit : ∀ e ∈ es, e.data ≠ [] → dataOff buf.length e + e.data.length ≤ buf.length) :
    injectData buf es = (applyW buf (dataWrites buf.length es), true) := by
  induction es generalizing buf with
  | nil => rfl
  | cons e es ih =>
    unfold injectData dataWrites
    by_cases hne : e.data = []
    · have : injectOne buf e = (buf, true) := by unfold injectOne; rw [if_pos (by simp [hne])]
      rw [this, if_pos (by simp [hne])]
      exact ih buf hn (fun x hx => hfit x (by simp [hx]))
    · have hf := hfit e (by simp) hne
      rw [injectOne_fits buf e hn hne hf, if_neg (by simpa using hne)]
      simp only [applyW]
      have hl : (splice buf (dataOff buf.length e) e.data).length = buf.length := splice_length _ _ _ hf
      have := ih (splice buf (dataOff buf.length e) e.data) (by rw [hl]; exact hn)
        (fun x hx => by rw [hl]; exact hfit x (by simp [hx]))
      rw [hl] at this
      exact this

/-! ### Inject -/

theorem inject_length (img : Bytes) (es : List Entry) (tbl : Nat) :
    (inject img es tbl).1.length = img.length := by
  unfold inject
  simp only
  split
  · rfl
  · have h1 := Seeker.write_length { buf := img, pos := img.length - fitPointerOffset }
      (leN 8 (physOfOffset tbl img.length))
    generalize Seeker.write { buf := img, pos := img.length - fitPointerOffset }
      (leN 8 (physOfOffset tbl img.length)) = r at h1 ⊢
    obtain ⟨s1, ok1⟩ := r
    simp only at h1 ⊢
    split
    · exact h1
    · split
      · exact h1
      · rename_i s2 hs2
        have hb : s2.buf = s1.buf := by
          unfold Seeker.seekStart at hs2
          split at hs2
          · cases hs2
          · injection hs2 with hs2; subst hs2; rfl
        have h3 := writeHdrs_length s2 (es.map Entry.hdr)
        split
        · rename_i s3 heq; rw [heq] at h3; rw [h3, hb, h1]
        · rename_i s3 heq; rw [heq] at h3; rw [injectData_length, h3, hb, h1]

/-- **frame**: whatever `inject` does (also when it fails midway), a byte outside the 8-byte
    pointer window, the table window and the data windows is unchanged -/
theorem inject_frame (img : Bytes) (es : List Entry) (tbl : Nat) (j : Nat)
    (hp : j < img.length - fitPointerOffset ∨ img.length - fitPointerOffset + 8 ≤ j)
    (ht : j < tbl ∨ tbl + 16 * es.length ≤ j)
    (hd : ∀ e ∈ es, e.data ≠ [] → j < dataOff img.length e ∨ dataOff img.length e + e.data.length ≤ j) :
    (inject img es tbl).1[j]? = img[j]? := by
  unfold inject
  simp only
  split
  · rfl
  · have h1 := Seeker.write_length { buf := img, pos := img.length - fitPointerOffset }
      (leN 8 (physOfOffset tbl img.length))
    have f1 := Seeker.write_frame { buf := img, pos := img.length - fitPointerOffset }
      (leN 8 (physOfOffset tbl img.length)) j (by simpa using hp)
    generalize Seeker.write { buf := img, pos := img.length - fitPointerOffset }
      (leN 8 (physOfOffset tbl img.length)) = r at h1 f1 ⊢
    obtain ⟨s1, ok1⟩ := r
    simp only at h1 f1 ⊢
    split
    · exact f1
    · split
      · exact f1
      · rename_i s2 hs2
        have hb : s2 = { buf := s1.buf, pos := tbl } := by
          unfold Seeker.seekStart at hs2
          split at hs2
          · cases hs2
          · injection hs2 with hs2; subst hs2; rfl
        have h3 := writeHdrs_length s2 (es.map Entry.hdr)
        have f3 := writeHdrs_frame s2 (es.map Entry.hdr) j (by rw [hb]; simpa using ht)
        split
        · rename_i s3 heq; rw [heq] at f3; rw [f3, hb, f1]
        · rename_i s3 heq
          rw [heq] at f3 h3
          have hl3 : s3.buf.length = img.length := by rw [h3, hb, h1]
          rw [injectData_frame _ _ _ (by rw [hl3]; exact hd), f3, hb, f1]

/-- the three kinds of writes `inject` performs when everything fits -/
def injectWrites (n tbl : Nat) (es : List Entry) : List W :=
  ⟨n - fitPointerOffset, leN 8 (physOfOffset tbl n)⟩ :: ⟨tbl, encodeTable (es.map Entry.hdr)⟩ :: dataWrites n es

theorem inject_fits (img : Bytes) (es : List Entry) (tbl : Nat)
    (hn : fitPointerOffset ≤ img.length) (hn63 : img.length < two63)
    (htbl : tbl + 16 * es.length ≤ img.length)
    (hfit : ∀ e ∈ es, e.data ≠ [] → dataOff img.length e + e.data.length ≤ img.length) :
    inject img es tbl = (applyW img (injectWrites img.length tbl es), true) := by
  unfold inject injectWrites
  simp only
  rw [if_neg (by omega)]
  rw [Seeker.write_fits _ _ (by simp only [leN_length, fitPointerOffset] at *; omega) (by simp)]
  simp only [Bool.not_true, Bool.false_eq_true, if_false, leN_length, applyW]
  have hl1 : (splice img (img.length - fitPointerOffset) (leN 8 (physOfOffset tbl img.length))).length
      = img.length := splice_length _ _ _ (by simp only [leN_length, fitPointerOffset] at *; omega)
  generalize splice img (img.length - fitPointerOffset) (leN 8 (physOfOffset tbl img.length)) = img1 at hl1 ⊢
  have hseek : Seeker.seekStart ⟨img1, img.length - fitPointerOffset + 8⟩ tbl = some ⟨img1, tbl⟩ := by
    unfold Seeker.seekStart
    simp only
    rw [if_neg (by omega)]
  rw [hseek]
  simp only
  rw [writeHdrs_fits _ _ (by simp only [hl1, List.length_map]; omega)]
  simp only
  have hl2 : (splice img1 tbl (encodeTable (es.map Entry.hdr))).length = img.length := by
    rw [splice_length _ _ _ (by simp only [hl1, encodeTable_length, List.length_map]; omega), hl1]
  have := injectData_fits _ es (by rw [hl2]; exact hn63) (by rw [hl2]; exact hfit)
  rw [hl2] at this
  exact this

/-- the windows of `injectWrites` are exactly `layout` -/
theorem dataWrites_ranges (n : Nat) (es : List Entry) :
    (dataWrites n es).map (fun w => (w.off, w.d.length)) = dataRanges n es := by
  induction es with
  | nil => rfl
  | cons e es ih =>
    unfold dataWrites dataRanges
    split
    · exact ih
    · simp only [List.map_cons, ih]

theorem injectWrites_ranges (n tbl : Nat) (es : List Entry) :
    (injectWrites n tbl es).map (fun w => (w.off, w.d.length)) = layout es tbl n := by
  unfold injectWrites layout
  simp only [List.map_cons, dataWrites_ranges, leN_length, encodeTable_length, List.length_map]

theorem mem_dataRanges (n : Nat) (es : List Entry) (e : Entry) (he : e ∈ es) (hne : e.data ≠ []) :
    (dataOff n e, e.data.length) ∈ dataRanges n es := by
  induction es with
  | nil => cases he
  | cons x xs ih =>
    unfold dataRanges
    rcases List.mem_cons.mp he with rfl | h
    · rw [if_neg (by simpa using hne)]; simp
    · split
      · exact ih h
      · exact List.mem_cons_of_mem _ (ih h)

theorem mem_dataWrites (n : Nat) (es : List Entry) (e : Entry) (he : e ∈ es) (hne : e.data ≠ []) :
    (⟨dataOff n e, e.data⟩ : W) ∈ dataWrites n es := by
  induction es with
  | nil => cases he
  | cons x xs ih =>
    unfold dataWrites
    rcases List.mem_cons.mp he with rfl | h
    · rw [if_neg (by simpa using hne)]; simp
    · split
      · exact ih h
      · exact List.mem_cons_of_mem _ (ih h)

/-- what `inject` leaves in the image under `ValidLayout`: success, and every window holds what
    was written to it -/
theorem inject_valid (img : Bytes) (es : List Entry) (tbl : Nat) (hv : ValidLayout img.length tbl es) :
    (inject img es tbl).2 = true ∧ (inject img es tbl).1.length = img.length ∧
    slice (inject img es tbl).1 (img.length - fitPointerOffset) 8 = leN 8 (physOfOffset tbl img.length) ∧
    slice (inject img es tbl).1 tbl (16 * es.length) = encodeTable (es.map Entry.hdr) ∧
    ∀ e ∈ es, e.data ≠ [] → dataOff img.length e + e.data.length ≤ img.length ∧
      slice (inject img es tbl).1 (dataOff img.length e) e.data.length = e.data := by
  obtain ⟨hn, hn63, _, _, _, hin, hpw⟩ := hv
  have htbl : tbl + 16 * es.length ≤ img.length := hin (tbl, 16 * es.length) (by simp [layout])
  have hdat : ∀ e ∈ es, e.data ≠ [] → dataOff img.length e + e.data.length ≤ img.length :=
    fun e he hne => hin (dataOff img.length e, e.data.length)
      (by simp only [layout, List.mem_cons]; exact Or.inr (Or.inr (mem_dataRanges _ _ _ he hne)))
  rw [inject_fits img es tbl hn hn63 htbl hdat]
  have hfits : ∀ w ∈ injectWrites img.length tbl es, w.Fits img.length := by
    intro w hw
    have : (w.off, w.d.length) ∈ layout es tbl img.length := by
      rw [← injectWrites_ranges]; exact List.mem_map_of_mem hw
    exact hin _ this
  have hdisj : (injectWrites img.length tbl es).Pairwise W.Disj := by
    have := hpw
    rw [← injectWrites_ranges, List.pairwise_map] at this
    exact this
  have hst := applyW_stores img _ hfits hdisj
  refine ⟨rfl, applyW_length img _ hfits, ?_, ?_, ?_⟩
  · have := hst ⟨img.length - fitPointerOffset, leN 8 (physOfOffset tbl img.length)⟩ (by simp [injectWrites])
    simpa using this
  · have := hst ⟨tbl, encodeTable (es.map Entry.hdr)⟩ (by simp [injectWrites])
    simpa [encodeTable_length] using this
  · intro e he hne
    refine ⟨hdat e he hne, ?_⟩
    exact hst ⟨dataOff img.length e, e.data⟩
      (by simp only [injectWrites, List.mem_cons]; exact Or.inr (Or.inr (mem_dataWrites _ _ _ he hne)))

end Fiano.Fit
