/-
  pkg/intel/metadata/fit, the modifying path on entries parsed from a hostile image, against Go's
  semantics (GoM):  `GetEntries` (with the headers kept) → `Entries.RecalculateHeaders` →
  `Entries.Inject` / `InjectTo` on a `*bytesextra.ReadWriteSeeker`; and the `ParseData` dispatch of
  the key-manifest / boot-policy-manifest records (`bgheader.DetectBGV`, then the Boot Guard 1.0 or the
  CBnT reader).

  Faulting sites of this path:
   * `Uint24.SetUint32` **panics** for a value ≥ 2^24; it is called with `len(data) >> 4`
     (`mostCommonRecalculateHeadersOfEntry`), with `len(data)` (key manifest, boot policy, BIOS policy
     records) and with `len(entries)`.  The theorem needs — and proves — that no entry that
     `GetEntries` builds from an image can carry that much data: the data segment was *sized by the same
     24-bit field* (`entryDataG_len`), and the table has as many entries as its own 24-bit size says.
   * `mostCommonRecalculateHeadersOfEntry` panics for an entry type that is not registered;
     `EntryRecalculateHeaders` (fixes/C20-fit-recalculate-unknown-panic.diff) returns an error first.
   * `entries[0]` behind the `len(entries) == 0` return.
   * `bytesextra.ReadWriteSeeker.Write`: `copy(w.Storage[w.CurrentPosition:], b)` behind
     `CurrentPosition >= len(Storage) → io.EOF`; `Seek` refuses negative and too large positions (the
     `int64(uint64)` conversions of `headersOffset` and of the data-segment offset are kept: `toInt`).
  Errors of `RecalculateHeaders` are values here (`Bool`): the callers may go on and inject what they have
  (the harness does), so what was recalculated before the error stays recalculated.

  Headers are decoded / encoded / check-summed with C14's functions (`Fit.decodeHdr`, `Fit.encodeHdr`,
  `Fit.calcChecksum`, `Fit.kindOfType`, `Fit.typeOfKind`), so the image after `Inject` can be
  compared byte for byte with what the Go code wrote.
-/
import FianoModel.Fit.Total
import FianoModel.Fit.Model

namespace Fiano.FitTotal
open GoM
open Fiano.Fit (Entry Hdr Kind kindOfType typeOfKind decodeHdr encodeHdr calcChecksum magicAddr physOfOffset offsetOfPhys)

def two24 : Nat := 16777216

/-! ## `GetEntries`, keeping the headers -/

def entsLoopG (B : Nat) (bs : Bytes) : List Bytes → List Entry → GoM (List Entry)
  | [], acc => pure acc
  | h :: hs, acc => do
    let e ← entryDataG bs h
    allocB "GetEntriesFrom: append(result, entry)" B 1 64
    entsLoopG B bs hs (acc ++ [{ kind := kindOfType (fieldLE h 14 1 % 128), hdr := decodeHdr h, data := e.1 }])

/-- `fit.GetEntries(image)`: dynamic type, headers and data segment of every entry -/
def getEntsG (B : Nat) (bs : Bytes) : GoM (List Entry) := do
  let p ← tableRangeG bs
  let tb ← sliceOrCopyG "sliceOrCopyBytesFrom: r.Storage[startIdx:endIdx] (table)" bs p.1 p.2
  let hs ← parseTableG B (tb.length + 1) tb []
  entsLoopG B bs hs []

/-! ## `RecalculateHeaders` -/

/-- `Uint24.SetUint32(uint32(v))`: `make([]byte, 4)`, panics for ≥ 2^24 -/
def setU24G (B : Nat) (v : Nat) : GoM Nat :=
  if two24 ≤ v % two32 then goPanic "Uint24.SetUint32: too big integer"
  else do
    allocB "Uint24.SetUint32: make([]byte, 4)" B 4 1
    pure (v % two32)

/-- `mostCommonRecalculateHeadersOfEntry` -/
def mostCommonG (B : Nat) (e : Entry) : GoM Entry :=
  match typeOfKind e.kind with
  | none => goPanic "mostCommonRecalculateHeadersOfEntry: type is not known"
  | some t => do
    let h1 : Hdr := { e.hdr with tcv := 128 + t }
    let h2 : Hdr := { h1 with checksum := calcChecksum h1 }
    let sz ← setU24G B (e.data.length / 16)
    pure { e with hdr := { h2 with version := 0x0100, size := sz } }

/-- `EntryRecalculateHeaders(entry)`; `none` = it returned an error (entry untouched) -/
def recalcEntryG (B : Nat) (e : Entry) : GoM (Option Entry) :=
  match e.kind with
  | .diagACM => pure none
  | .tpmPolicy => pure none
  | .unknown => pure none                       -- entryTypeOf fails: an error, not the panic of the helper
  | .sacm => do
    let z ← setU24G B 0
    pure (some { e with hdr := { e.hdr with size := z } })
  | .txtPolicy => do
    let z ← setU24G B 0
    pure (some { e with data := [], hdr := { e.hdr with tcv := 0x0A, size := z } })
  | .fitHeader => do
    let e' ← mostCommonG B e
    pure (some { e' with hdr := { e'.hdr with address := magicAddr } })
  | .keyManifest => do
    let e' ← mostCommonG B e
    let sz ← setU24G B e.data.length
    pure (some { e' with hdr := { e'.hdr with size := sz } })
  | .bootPolicy => do
    let e' ← mostCommonG B e
    let sz ← setU24G B e.data.length
    pure (some { e' with hdr := { e'.hdr with size := sz } })
  | .biosPolicy => do
    let e' ← mostCommonG B e
    let sz ← setU24G B e.data.length
    pure (some { e' with hdr := { e'.hdr with size := sz } })
  | .microcode => do
    let e' ← mostCommonG B e
    pure (some e')
  | .biosStartup => do
    let e' ← mostCommonG B e
    pure (some e')
  | .cseSecureBoot => do
    let e' ← mostCommonG B e
    pure (some e')
  | .featurePolicy => do
    let e' ← mostCommonG B e
    pure (some e')
  | .jmpDebug => do
    let e' ← mostCommonG B e
    pure (some e')
  | .skip => do
    let e' ← mostCommonG B e
    pure (some e')

/-- the loop of `RecalculateHeaders`: in place, stops at the first error -/
def recalcLoopG (B : Nat) : List Entry → GoM (List Entry × Bool)
  | [] => pure ([], true)
  | e :: es => do
    let r ← recalcEntryG B e
    match r with
    | none => pure (e :: es, false)
    | some e' => do
      let q ← recalcLoopG B es
      pure (e' :: q.1, q.2)

/-- `Entries.RecalculateHeaders()`: the entries afterwards and whether it returned nil -/
def recalcG (B : Nat) (es : List Entry) : GoM (List Entry × Bool) :=
  if es.length = 0 then pure (es, true)
  else do
    let q ← recalcLoopG B es
    if !q.2 then pure q
    else
      match q.1 with
      | [] => goPanic "RecalculateHeaders: entries[0]"
      | e0 :: rest =>
        if e0.kind ≠ .fitHeader then pure (q.1, false)
        else do
          let sz ← setU24G B es.length
          pure ({ e0 with hdr := { e0.hdr with size := sz } } :: rest, true)

/-! ## `Inject` on the in-memory seeker -/

structure Sk where
  buf : Bytes
  pos : Nat

/-- `(*ReadWriteSeeker).Write(d)`: refused at `pos ≥ len`, clipped when too long -/
def writeG (s : Sk) (d : Bytes) : GoM (Sk × Bool) :=
  if s.buf.length ≤ s.pos then pure (s, false)
  else do
    let _ ← sliceFromG "bytesextra.Write: w.Storage[w.CurrentPosition:]" s.buf s.pos
    pure ({ buf := splice s.buf s.pos (d.take (min (s.buf.length - s.pos) d.length)),
            pos := s.pos + min (s.buf.length - s.pos) d.length },
          decide (min (s.buf.length - s.pos) d.length = d.length))

/-- `Table.WriteTo(w)`: one `binary.Write` of 16 bytes per header -/
def writeHdrsG (B : Nat) : Sk → List Hdr → GoM (Sk × Bool)
  | s, [] => pure (s, true)
  | s, h :: hs => do
    allocB "binary.Write: headers" B 16 1
    let r ← writeG s (encodeHdr h)
    if !r.2 then pure r else writeHdrsG B r.1 hs

/-- `EntryBase.injectDataSectionTo(w)` for every entry, in order; the first failure stops -/
def injectDataG : Bytes → List Entry → GoM (Bytes × Bool)
  | buf, [] => pure (buf, true)
  | buf, e :: es =>
    if e.data.length = 0 then injectDataG buf es
    else
      -- Seek(0, io.SeekEnd); Seek(int64(Address.Offset(firmwareSize)), io.SeekStart)
      if toInt (offsetOfPhys e.hdr.address buf.length) < 0 ∨
          (buf.length : Int) < toInt (offsetOfPhys e.hdr.address buf.length) then pure (buf, false)
      else do
        let r ← writeG { buf := buf, pos := offsetOfPhys e.hdr.address buf.length } e.data
        if !r.2 then pure (r.1.buf, false) else injectDataG r.1.buf es

/-- `Entries.Inject(b, headersOffset)`: the image afterwards (what was written before a failure stays
    written) and whether it returned nil -/
def injectG (B : Nat) (img : Bytes) (es : List Entry) (off : Nat) : GoM (Bytes × Bool) :=
  -- Seek(0, io.SeekEnd): the image size is a length, never negative; Seek(-0x40, io.SeekEnd)
  if img.length < 64 then pure (img, false)
  else do
    allocB "binary.Write: FIT pointer" B 8 1
    let r1 ← writeG { buf := img, pos := img.length - 64 } (leN 8 (physOfOffset (off % two64) img.length))
    if !r1.2 then pure (r1.1.buf, false)
    else if toInt (off % two64) < 0 ∨ (r1.1.buf.length : Int) < toInt (off % two64) then pure (r1.1.buf, false)
    else do
      allocB "Entries.Table: make(Table, 0, len(entries))" B es.length 16
      let r3 ← writeHdrsG B { buf := r1.1.buf, pos := off % two64 } (es.map (·.hdr))
      if !r3.2 then pure (r3.1.buf, false) else injectDataG r3.1.buf es

/-- the pipeline of the harness (`fit.inject`): parse, optionally recalculate (going on after an
    error), inject into a copy of the image at `headersOffset` -/
def injectPipelineG (B : Nat) (bs : Bytes) (off : Nat) (recalc : Bool) : GoM (Bytes × Bool) := do
  let es ← getEntsG B bs
  let es' ← (if recalc then do
      let q ← recalcG B es
      pure q.1
    else pure es)
  injectG B bs es' off

/-! ## the record `ParseData` dispatch -/

/-- `bgheader.DetectBGV`: nine bytes (`structInfo{ID [8]byte; Version uint8}`), `Seek(0, 0)`;
    1 = Boot Guard 1.0, 2 = CBnT -/
def detectBGVG (d : Bytes) : GoM Nat := do
  let p ← binaryReadG d 9
  if (p.1.getD 8 0).toNat ≥ 0x20 then pure 2
  else if (p.1.getD 8 0).toNat ≥ 0x10 then pure 1
  else err

/-- `EntryKeyManifestRecord.ParseData` / `EntryBootPolicyManifestRecord.ParseData` with the two manifest
    readers as parameters.  (Go treats an `io.EOF` of the reader as success; `err` here.) -/
def parseRecordG {α : Type} (r1 r2 : Bytes → GoM α) (d : Bytes) : GoM α := do
  let v ← detectBGVG d
  if v = 1 then r1 d else r2 d

/-! ## totality -/

/-- what `GetEntries` guarantees about an entry it built from an image: its data segment was sized by
    the 24-bit `Size` field of its own headers -/
def EntOK (e : Entry) : Prop :=
  (e.kind ≠ .sacm → e.data.length / 16 < two24) ∧
  ((e.kind = .keyManifest ∨ e.kind = .bootPolicy ∨ e.kind = .biosPolicy ∨ e.kind = .fitHeader) → e.data.length < two24)

/-- which type IDs create which Go types (`EntryType.newEntry`) -/
theorem kindOfType_inv (t : Nat) (k : Kind) (h : kindOfType t = k) :
    (k = .fitHeader → t = 0x00) ∧ (k = .biosPolicy → t = 0x09) ∧ (k = .keyManifest → t = 0x0B) ∧
    (k = .bootPolicy → t = 0x0C) ∧ (k = .sacm → t = 0x02) := by
  unfold kindOfType at h
  by_cases c0 : t = 0x00
  · rw [if_pos c0] at h; subst h; subst c0; decide
  rw [if_neg c0] at h
  by_cases c1 : t = 0x01
  · rw [if_pos c1] at h; subst h; subst c1; decide
  rw [if_neg c1] at h
  by_cases c2 : t = 0x02
  · rw [if_pos c2] at h; subst h; subst c2; decide
  rw [if_neg c2] at h
  by_cases c3 : t = 0x03
  · rw [if_pos c3] at h; subst h; subst c3; decide
  rw [if_neg c3] at h
  by_cases c4 : t = 0x07
  · rw [if_pos c4] at h; subst h; subst c4; decide
  rw [if_neg c4] at h
  by_cases c5 : t = 0x08
  · rw [if_pos c5] at h; subst h; subst c5; decide
  rw [if_neg c5] at h
  by_cases c6 : t = 0x09
  · rw [if_pos c6] at h; subst h; subst c6; decide
  rw [if_neg c6] at h
  by_cases c7 : t = 0x0A
  · rw [if_pos c7] at h; subst h; subst c7; decide
  rw [if_neg c7] at h
  by_cases c8 : t = 0x0B
  · rw [if_pos c8] at h; subst h; subst c8; decide
  rw [if_neg c8] at h
  by_cases c9 : t = 0x0C
  · rw [if_pos c9] at h; subst h; subst c9; decide
  rw [if_neg c9] at h
  by_cases c10 : t = 0x10
  · rw [if_pos c10] at h; subst h; subst c10; decide
  rw [if_neg c10] at h
  by_cases c11 : t = 0x2D
  · rw [if_pos c11] at h; subst h; subst c11; decide
  rw [if_neg c11] at h
  by_cases c12 : t = 0x2F
  · rw [if_pos c12] at h; subst h; subst c12; decide
  rw [if_neg c12] at h
  by_cases c13 : t = 0x7F
  · rw [if_pos c13] at h; subst h; subst c13; decide
  rw [if_neg c13] at h
  subst h
  refine ⟨?_, ?_, ?_, ?_, ?_⟩ <;> intro h <;> cases h

theorem kind_not_sacm (t : Nat) (h : kindOfType t ≠ .sacm) : sizeRule t ≠ .sacm := by
  intro hs
  have : t = 2 := by
    unfold sizeRule at hs
    split at hs; · cases hs
    split at hs; · cases hs
    split at hs; · cases hs
    split at hs
    · assumption
    · cases hs
  subst this
  exact h (by decide)

theorem kind_raw (t : Nat) (h : kindOfType t = .keyManifest ∨ kindOfType t = .bootPolicy ∨ kindOfType t = .biosPolicy ∨
    kindOfType t = .fitHeader) : sizeRule t = .raw ∨ sizeRule t = .none := by
  obtain ⟨h0, h9, hb, hc, _⟩ := kindOfType_inv t _ rfl
  rcases h with h | h | h | h
  · have := hb h; subst this; left; decide
  · have := hc h; subst this; left; decide
  · have := h9 h; subst this; left; decide
  · have := h0 h; subst this; right; decide

/-- the data segment `NewEntry` attaches is never longer than the size its rule computed -/
theorem entryDataG_len (bs h : Bytes) (m : Meter) (hl : bs.length < two63) :
    SafeP (entryDataG bs h) m (fun p m' => m' = m ∧
      (sizeRule (fieldLE h 14 1 % 128) = .none → p.1.length = 0) ∧
      (sizeRule (fieldLE h 14 1 % 128) = .unsupported → p.1.length = 0) ∧
      (sizeRule (fieldLE h 14 1 % 128) = .raw → p.1.length ≤ fieldLE h 8 3) ∧
      (sizeRule (fieldLE h 14 1 % 128) = .shifted → p.1.length ≤ fieldLE h 8 3 * 16)) := by
  have hmod : ∀ x, x % two64 < two64 := fun x => Nat.mod_lt _ (by decide)
  have hslice : ∀ (off dsz : Nat), off < two64 →
      SafeP (if dsz = 0 then (pure ([], false) : GoM (Bytes × Bool))
        else if bytesRangeOk bs.length (toInt off) (toInt ((off + dsz) % two64)) then do
          let d ← sliceG "sliceOrCopyBytesFrom: r.Storage[startIdx:endIdx] (data segment)" bs off ((off + dsz) % two64)
          pure (d, false)
        else pure ([], true)) m (fun p m' => m' = m ∧ p.1.length ≤ dsz) := by
    intro off dsz hoff
    apply SafeP.ite
    · intro _; exact SafeP.pure ⟨rfl, by simp⟩
    · intro _
      apply SafeP.cond
      · intro hr
        have hb := bytesRange_sound _ _ _ hl hoff (hmod _) hr
        apply SafeP.bind; apply SafeP.slice hb
        refine SafeP.pure ⟨rfl, ?_⟩
        have hle : (off + dsz) % two64 ≤ off + dsz := Nat.mod_le _ _
        simp only [List.length_take, List.length_drop]
        omega
      · intro _; exact SafeP.pure ⟨rfl, by simp⟩
  unfold entryDataG
  simp only
  split
  · rename_i hr; exact SafeP.pure ⟨rfl, by simp [hr]⟩
  · rename_i hr; exact SafeP.pure ⟨rfl, by simp [hr]⟩
  · rename_i hr
    apply SafeP.mono (hslice _ _ (hmod _))
    intro p m' ⟨h1, h2⟩
    exact ⟨h1, by simp [hr], by simp [hr], fun _ => h2, by simp [hr]⟩
  · rename_i hr
    apply SafeP.mono (hslice _ _ (hmod _))
    intro p m' ⟨h1, h2⟩
    exact ⟨h1, by simp [hr], by simp [hr], by simp [hr], fun _ => h2⟩
  · rename_i hr
    apply SafeP.ite
    · intro _; exact SafeP.pure ⟨rfl, by simp [hr]⟩
    · intro hpos
      have hp : (toInt ((((fieldLE h 0 8 + two64 - (two32 + two64 - bs.length % two64) % two64) % two64) + 24) % two64)).toNat
          ≤ bs.length := by omega
      apply SafeP.bind; apply SafeP.sliceFrom hp
      apply SafeP.ite
      · intro _; exact SafeP.pure ⟨rfl, by simp [hr]⟩
      · intro _
        apply SafeP.mono (hslice _ _ (hmod _))
        intro p m' ⟨h1, _⟩
        exact ⟨h1, by simp [hr], by simp [hr], by simp [hr], by simp [hr]⟩

theorem entsLoopG_spec (B : Nat) (bs : Bytes) (hs : List Bytes) (acc : List Entry) (m : Meter)
    (hl : bs.length < two63) (hb : m.alloc + 64 * hs.length ≤ B) (hacc : ∀ e ∈ acc, EntOK e) :
    SafeP (entsLoopG B bs hs acc) m (fun es m' => m'.alloc ≤ m.alloc + 64 * hs.length ∧
      es.length = acc.length + hs.length ∧ ∀ e ∈ es, EntOK e) := by
  induction hs generalizing acc m with
  | nil => exact SafeP.pure ⟨by simp, by simp, hacc⟩
  | cons h hs ih =>
    unfold entsLoopG
    simp only [List.length_cons] at *
    apply SafeP.bind
    apply SafeP.mono (entryDataG_len bs h m hl)
    intro p m' ⟨hm, hnone, hunsup, hraw, hshift⟩
    rw [hm]
    apply SafeP.bind; apply SafeP.alloc (by omega)
    have h24 := fieldLE3_lt h 8
    apply SafeP.mono (ih _ _ (by simp only []; omega) ?_)
    · intro es m'' ⟨h1, h2, h3⟩
      simp only at h1
      simp only [List.length_append, List.length_cons, List.length_nil] at h2
      exact ⟨by omega, by omega, h3⟩
    · intro e he
      simp only [List.mem_append, List.mem_singleton] at he
      rcases he with he | he
      · exact hacc e he
      · subst he
        simp only [EntOK, two24]
        constructor
        · intro hk
          have hns := kind_not_sacm _ hk
          cases hr : sizeRule (fieldLE h 14 1 % 128) with
          | none => have := hnone hr; omega
          | unsupported => have := hunsup hr; omega
          | raw => have := hraw hr; omega
          | shifted => have := hshift hr; omega
          | sacm => exact absurd hr hns
        · intro hk
          rcases kind_raw _ hk with hr | hr
          · have := hraw hr; omega
          · have := hnone hr; omega

/-- `GetEntries` with headers: every entry it returns is `EntOK`, there are fewer than 2^24 of them,
    and 16 bytes of table stand behind each -/
theorem getEntsG_spec (B : Nat) (bs : Bytes) (m : Meter) (hl : bs.length < two63)
    (hB : m.alloc + getEntriesKSlope * bs.length ≤ B) :
    SafeP (getEntsG B bs) m (fun es m' => m'.alloc ≤ m.alloc + getEntriesKSlope * bs.length ∧
      es.length * 16 ≤ bs.length ∧ es.length < two24 ∧ (∀ e ∈ es, EntOK e)) := by
  unfold getEntsG
  simp only [getEntriesKSlope] at *
  apply SafeP.bind
  apply SafeP.mono (tableRangeG_spec bs m hl)
  intro p m1 ⟨h1, h2, hm, hcnt⟩
  rw [hm]
  apply SafeP.bind
  apply SafeP.mono (sliceOrCopyG_spec _ bs p.1 p.2 m hl h1 h2)
  intro tb m2 ⟨htl, hse, hel, hm⟩
  rw [hm]
  have htb : tb.length ≤ bs.length := by omega
  apply SafeP.bind
  apply SafeP.mono (parseTableG_spec B tb.length (tb.length + 1) tb [] m (by omega) (by omega) (by omega))
  intro hs m3 ⟨ha, hn⟩
  simp only [List.length_nil, Nat.zero_mul, Nat.zero_add] at hn
  apply SafeP.mono (entsLoopG_spec B bs hs [] m3 hl (by omega) (by intro e he; cases he))
  intro es m4 ⟨h4, h5, h6⟩
  simp only [List.length_nil, Nat.zero_add] at h5
  exact ⟨by omega, by omega, by simp only [two24]; omega, h6⟩

theorem setU24G_spec (B v : Nat) (m : Meter) (hv : v < two24) (hB : m.alloc + 4 ≤ B) :
    SafeP (setU24G B v) m (fun _ m' => m'.alloc = m.alloc + 4) := by
  unfold setU24G
  apply SafeP.ite
  · intro h
    have : v % two32 ≤ v := Nat.mod_le _ _
    omega
  · intro _
    apply SafeP.bind; apply SafeP.alloc (by omega)
    exact SafeP.pure (by simp only)

theorem mostCommonG_spec (B : Nat) (e : Entry) (m : Meter) (hk : e.kind ≠ .unknown) (hd : e.data.length / 16 < two24)
    (hB : m.alloc + 4 ≤ B) :
    SafeP (mostCommonG B e) m (fun e' m' => m'.alloc = m.alloc + 4 ∧ e'.kind = e.kind ∧ e'.data = e.data) := by
  unfold mostCommonG
  split
  · rename_i hn
    exfalso
    cases hkind : e.kind <;> simp [hkind, typeOfKind] at hn hk
  · apply SafeP.bind
    apply SafeP.mono (setU24G_spec B _ m hd hB)
    intro sz m' h
    exact SafeP.pure ⟨h, rfl, rfl⟩

/-- `EntryRecalculateHeaders` on an entry `GetEntries` built: never a panic; ≤ 8 bytes allocated -/
theorem recalcEntryG_spec (B : Nat) (e : Entry) (m : Meter) (he : EntOK e) (hB : m.alloc + 8 ≤ B) :
    SafeP (recalcEntryG B e) m (fun r m' => m'.alloc ≤ m.alloc + 8 ∧ ∀ e', r = some e' → e'.kind = e.kind) := by
  obtain ⟨h16, hraw⟩ := he
  have hz : (0 : Nat) < two24 := by decide
  unfold recalcEntryG
  split
  · exact SafeP.pure ⟨by omega, fun _ h => by cases h⟩
  · exact SafeP.pure ⟨by omega, fun _ h => by cases h⟩
  · exact SafeP.pure ⟨by omega, fun _ h => by cases h⟩
  · apply SafeP.bind
    apply SafeP.mono (setU24G_spec B 0 m hz (by omega))
    intro z m' h
    refine SafeP.pure ⟨by omega, fun e' h' => ?_⟩
    simp only [Option.some.injEq] at h'; subst h'; rfl
  · apply SafeP.bind
    apply SafeP.mono (setU24G_spec B 0 m hz (by omega))
    intro z m' h
    refine SafeP.pure ⟨by omega, fun e' h' => ?_⟩
    simp only [Option.some.injEq] at h'; subst h'; rfl
  · rename_i hk
    apply SafeP.bind
    apply SafeP.mono (mostCommonG_spec B e m (by rw [hk]; decide) (h16 (by rw [hk]; decide)) (by omega))
    intro e1 m1 ⟨h1, h2, _⟩
    refine SafeP.pure ⟨by omega, fun e' h' => ?_⟩
    simp only [Option.some.injEq] at h'; subst h'; exact h2
  · rename_i hk
    apply SafeP.bind
    apply SafeP.mono (mostCommonG_spec B e m (by rw [hk]; decide) (h16 (by rw [hk]; decide)) (by omega))
    intro e1 m1 ⟨h1, h2, _⟩
    apply SafeP.bind
    apply SafeP.mono (setU24G_spec B _ m1 (hraw (Or.inl hk)) (by omega))
    intro sz m2 h3
    refine SafeP.pure ⟨by omega, fun e' h' => ?_⟩
    simp only [Option.some.injEq] at h'; subst h'; exact h2
  · rename_i hk
    apply SafeP.bind
    apply SafeP.mono (mostCommonG_spec B e m (by rw [hk]; decide) (h16 (by rw [hk]; decide)) (by omega))
    intro e1 m1 ⟨h1, h2, _⟩
    apply SafeP.bind
    apply SafeP.mono (setU24G_spec B _ m1 (hraw (Or.inr (Or.inl hk))) (by omega))
    intro sz m2 h3
    refine SafeP.pure ⟨by omega, fun e' h' => ?_⟩
    simp only [Option.some.injEq] at h'; subst h'; exact h2
  · rename_i hk
    apply SafeP.bind
    apply SafeP.mono (mostCommonG_spec B e m (by rw [hk]; decide) (h16 (by rw [hk]; decide)) (by omega))
    intro e1 m1 ⟨h1, h2, _⟩
    apply SafeP.bind
    apply SafeP.mono (setU24G_spec B _ m1 (hraw (Or.inr (Or.inr (Or.inl hk)))) (by omega))
    intro sz m2 h3
    refine SafeP.pure ⟨by omega, fun e' h' => ?_⟩
    simp only [Option.some.injEq] at h'; subst h'; exact h2
  · rename_i hk
    apply SafeP.bind
    apply SafeP.mono (mostCommonG_spec B e m (by rw [hk]; decide) (h16 (by rw [hk]; decide)) (by omega))
    intro e1 m1 ⟨h1, h2, _⟩
    refine SafeP.pure ⟨by omega, fun e' h' => ?_⟩
    simp only [Option.some.injEq] at h'; subst h'; exact h2
  · rename_i hk
    apply SafeP.bind
    apply SafeP.mono (mostCommonG_spec B e m (by rw [hk]; decide) (h16 (by rw [hk]; decide)) (by omega))
    intro e1 m1 ⟨h1, h2, _⟩
    refine SafeP.pure ⟨by omega, fun e' h' => ?_⟩
    simp only [Option.some.injEq] at h'; subst h'; exact h2
  · rename_i hk
    apply SafeP.bind
    apply SafeP.mono (mostCommonG_spec B e m (by rw [hk]; decide) (h16 (by rw [hk]; decide)) (by omega))
    intro e1 m1 ⟨h1, h2, _⟩
    refine SafeP.pure ⟨by omega, fun e' h' => ?_⟩
    simp only [Option.some.injEq] at h'; subst h'; exact h2
  · rename_i hk
    apply SafeP.bind
    apply SafeP.mono (mostCommonG_spec B e m (by rw [hk]; decide) (h16 (by rw [hk]; decide)) (by omega))
    intro e1 m1 ⟨h1, h2, _⟩
    refine SafeP.pure ⟨by omega, fun e' h' => ?_⟩
    simp only [Option.some.injEq] at h'; subst h'; exact h2
  · rename_i hk
    apply SafeP.bind
    apply SafeP.mono (mostCommonG_spec B e m (by rw [hk]; decide) (h16 (by rw [hk]; decide)) (by omega))
    intro e1 m1 ⟨h1, h2, _⟩
    refine SafeP.pure ⟨by omega, fun e' h' => ?_⟩
    simp only [Option.some.injEq] at h'; subst h'; exact h2
  · rename_i hk
    apply SafeP.bind
    apply SafeP.mono (mostCommonG_spec B e m (by rw [hk]; decide) (h16 (by rw [hk]; decide)) (by omega))
    intro e1 m1 ⟨h1, h2, _⟩
    refine SafeP.pure ⟨by omega, fun e' h' => ?_⟩
    simp only [Option.some.injEq] at h'; subst h'; exact h2

theorem recalcLoopG_spec (B : Nat) (es : List Entry) (m : Meter) (hes : ∀ e ∈ es, EntOK e)
    (hB : m.alloc + 8 * es.length ≤ B) :
    SafeP (recalcLoopG B es) m (fun q m' => m'.alloc ≤ m.alloc + 8 * es.length ∧ q.1.length = es.length) := by
  induction es generalizing m with
  | nil => exact SafeP.pure ⟨by simp, rfl⟩
  | cons e es ih =>
    unfold recalcLoopG
    simp only [List.length_cons] at *
    apply SafeP.bind
    apply SafeP.mono (recalcEntryG_spec B e m (hes e List.mem_cons_self) (by omega))
    intro r m1 ⟨h1, _⟩
    cases r with
    | none => exact SafeP.pure ⟨by omega, by simp⟩
    | some e' =>
      simp only
      apply SafeP.bind
      apply SafeP.mono (ih m1 (fun x hx => hes x (List.mem_cons_of_mem _ hx)) (by omega))
      intro q m2 ⟨h2, h3⟩
      exact SafeP.pure ⟨by omega, by simp [h3]⟩

/-- `RecalculateHeaders` on what `GetEntries` returned: value or error, never a panic -/
theorem recalcG_spec (B : Nat) (es : List Entry) (m : Meter) (hes : ∀ e ∈ es, EntOK e) (hn : es.length < two24)
    (hB : m.alloc + 8 * es.length + 4 ≤ B) :
    SafeP (recalcG B es) m (fun q m' => m'.alloc ≤ m.alloc + 8 * es.length + 4 ∧ q.1.length = es.length) := by
  unfold recalcG
  apply SafeP.ite
  · intro _; exact SafeP.pure ⟨by omega, rfl⟩
  · intro hne
    apply SafeP.bind
    apply SafeP.mono (recalcLoopG_spec B es m hes (by omega))
    intro q m1 ⟨h1, h2⟩
    apply SafeP.cond
    · intro _; exact SafeP.pure ⟨by omega, h2⟩
    · intro _
      split
      · rename_i hq; rw [hq] at h2; simp at h2; omega
      · rename_i e0 rest hq
        apply SafeP.ite
        · intro _; exact SafeP.pure ⟨by omega, h2⟩
        · intro _
          apply SafeP.bind
          apply SafeP.mono (setU24G_spec B _ m1 hn (by omega))
          intro sz m2 h3
          refine SafeP.pure ⟨by omega, ?_⟩
          rw [hq] at h2
          simpa using h2

theorem writeG_spec (s : Sk) (d : Bytes) (m : Meter) :
    SafeP (writeG s d) m (fun r m' => m' = m ∧ r.1.buf.length = s.buf.length) := by
  unfold writeG
  apply SafeP.ite
  · intro _; exact SafeP.pure ⟨rfl, rfl⟩
  · intro h
    apply SafeP.bind; apply SafeP.sliceFrom (by omega)
    refine SafeP.pure ⟨rfl, ?_⟩
    simp only
    apply splice_length
    simp only [List.length_take]
    omega

theorem writeHdrsG_spec (B : Nat) (s : Sk) (hs : List Hdr) (m : Meter) (hB : m.alloc + 16 * hs.length ≤ B) :
    SafeP (writeHdrsG B s hs) m (fun r m' => m'.alloc ≤ m.alloc + 16 * hs.length ∧ r.1.buf.length = s.buf.length) := by
  induction hs generalizing s m with
  | nil => exact SafeP.pure ⟨by simp, rfl⟩
  | cons h hs ih =>
    unfold writeHdrsG
    simp only [List.length_cons] at *
    apply SafeP.bind; apply SafeP.alloc (by omega)
    apply SafeP.bind
    apply SafeP.mono (writeG_spec s (encodeHdr h) _)
    intro r m1 ⟨h1, h2⟩
    subst h1
    apply SafeP.cond
    · intro _; exact SafeP.pure ⟨by simp only; omega, h2⟩
    · intro _
      apply SafeP.mono (ih r.1 _ (by simp only; omega))
      intro r' m2 ⟨h3, h4⟩
      simp only at h3
      exact ⟨by omega, by omega⟩

theorem injectDataG_spec (buf : Bytes) (es : List Entry) (m : Meter) :
    SafeP (injectDataG buf es) m (fun r m' => m' = m ∧ r.1.length = buf.length) := by
  induction es generalizing buf with
  | nil => exact SafeP.pure ⟨rfl, rfl⟩
  | cons e es ih =>
    unfold injectDataG
    apply SafeP.ite
    · intro _; exact ih buf
    · intro _
      apply SafeP.ite
      · intro _; exact SafeP.pure ⟨rfl, rfl⟩
      · intro _
        apply SafeP.bind
        apply SafeP.mono (writeG_spec _ e.data m)
        intro r m1 ⟨h1, h2⟩
        subst h1
        simp only at h2
        apply SafeP.cond
        · intro _; exact SafeP.pure ⟨rfl, h2⟩
        · intro _
          apply SafeP.mono (ih r.1.buf)
          intro r' m2 ⟨h3, h4⟩
          exact ⟨h3, by omega⟩

/-- `Inject` of **any** entry list at **any** `headersOffset` into any image: value or error, the
    image keeps its length; 8 + 32 bytes per entry allocated -/
theorem injectG_spec (B : Nat) (img : Bytes) (es : List Entry) (off : Nat) (m : Meter)
    (hB : m.alloc + 8 + 32 * es.length ≤ B) :
    SafeP (injectG B img es off) m (fun r m' => m'.alloc ≤ m.alloc + 8 + 32 * es.length ∧ r.1.length = img.length) := by
  unfold injectG
  apply SafeP.ite
  · intro _; exact SafeP.pure ⟨by omega, rfl⟩
  · intro _
    apply SafeP.bind; apply SafeP.alloc (by omega)
    apply SafeP.bind
    apply SafeP.mono (writeG_spec _ _ _)
    intro r1 m1 ⟨h1, h2⟩
    subst h1
    simp only at h2
    apply SafeP.cond
    · intro _; exact SafeP.pure ⟨by simp only; omega, h2⟩
    · intro _
      apply SafeP.ite
      · intro _; exact SafeP.pure ⟨by simp only; omega, h2⟩
      · intro _
        apply SafeP.bind; apply SafeP.alloc (by simp only; omega)
        apply SafeP.bind
        apply SafeP.mono (writeHdrsG_spec B _ (es.map (·.hdr)) _ (by simp only [List.length_map]; omega))
        intro r3 m3 ⟨h3, h4⟩
        simp only [List.length_map] at h3 h4
        apply SafeP.cond
        · intro _; exact SafeP.pure ⟨by omega, by simp only; omega⟩
        · intro _
          apply SafeP.mono (injectDataG_spec r3.1.buf es m3)
          intro r m4 ⟨h5, h6⟩
          subst h5
          exact ⟨by omega, by omega⟩

/-- allocation coefficient of the pipeline: `GetEntries` (5), 8 + 32 bytes per entry of 16 table bytes (3) -/
def injectKSlope : Nat := 8

/-- **parse → RecalculateHeaders → Inject** on every image shorter than 2^63 bytes, for every
    `headersOffset`: a value or an error, never a panic; the image keeps its length -/
theorem injectPipelineG_spec (B : Nat) (bs : Bytes) (off : Nat) (recalc : Bool) (m : Meter) (hl : bs.length < two63)
    (hB : m.alloc + injectKSlope * bs.length + 12 ≤ B) :
    SafeP (injectPipelineG B bs off recalc) m (fun r _ => r.1.length = bs.length) := by
  unfold injectPipelineG
  simp only [injectKSlope] at hB
  apply SafeP.bind
  apply SafeP.mono (getEntsG_spec B bs m hl (by simp only [getEntriesKSlope]; omega))
  intro es m1 ⟨h1, h2, hn, h3⟩
  simp only [getEntriesKSlope] at h1
  apply SafeP.bind
  refine SafeP.mono (Q := fun es' m2 => m2.alloc ≤ m1.alloc + 8 * es.length + 4 ∧ es'.length = es.length) ?_ ?_
  · cases recalc with
    | false => exact SafeP.pure ⟨by omega, rfl⟩
    | true =>
      simp only [if_true]
      apply SafeP.bind
      apply SafeP.mono (recalcG_spec B es m1 h3 hn (by omega))
      intro q m2 ⟨h4, h5⟩
      exact SafeP.pure ⟨h4, h5⟩
  · intro es' m2 ⟨h4, h5⟩
    apply SafeP.mono (injectG_spec B bs es' off m2 (by omega))
    intro r m3 ⟨_, h7⟩
    exact h7

/-- the record dispatch is as total as the two readers it chooses between -/
theorem parseRecordG_spec {α : Type} (r1 r2 : Bytes → GoM α) (d : Bytes) (m : Meter) (Q : α → Meter → Prop)
    (h1 : SafeP (r1 d) m Q) (h2 : SafeP (r2 d) m Q) : SafeP (parseRecordG r1 r2 d) m Q := by
  unfold parseRecordG detectBGVG
  apply SafeP.bind
  apply SafeP.bind; apply SafeP.binaryRead; intro _
  apply SafeP.ite
  · intro _
    apply SafeP.pure
    apply SafeP.ite
    · intro h; cases h
    · intro _; exact h2
  · intro _
    apply SafeP.ite
    · intro _
      apply SafeP.pure
      apply SafeP.ite
      · intro _; exact h1
      · intro h; exact absurd rfl h
    · intro _; exact SafeP.err

end Fiano.FitTotal
