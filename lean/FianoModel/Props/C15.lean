/-
  C15 — Boot Guard / CBnT manifests round-trip with truthful sizes and offsets.

  All theorems are about the executable model FianoModel/Manifest/Model.lean; they are proved once,
  for *every* layout (any number and nesting of fields, lists and sub-structures, any byte-string
  and list lengths) and then instantiated on the layouts that are rebuilt from the Go declarations
  on every run (`IsGenerated`, via FianoModel/Manifest/Tie.lean).  Together with the 33 `wire_*`
  theorems of Tie ("the checked-in generated codec is what the declaration prescribes") this is the
  property; the correspondence harness (harness/props/c15) ties the model to the running code.

  Notation: `S : SDef` a structure type (Rehash rules + fields), `vs` its field values,
  `S.encode` = WriteTo (Rehash, then the fields), `S.decode` = ReadFrom, `S.rehash vs` = the value
  after WriteTo, `S.totalSize` = TotalSize(), `offsetOf` = the <F>Offset() accessors,
  `wt` = well-typed: numbers fit their width, static arrays have their length, prefixed lengths and
  counts fit their count type, `countValue` arrays have the length the reader computes.
-/
import FianoModel.Manifest.Tie
import FianoModel.Manifest.RehashLemmas
import FianoModel.Manifest.ContainerLemmas

namespace Fiano.Manifest.C15
open Fiano Fiano.Manifest Fiano.Gen.Manifest

/-! ## for all layouts -/

/-- **write → read** (`decode_encode`): what WriteTo emits for a well-typed value, followed by any
    bytes `r`, is read back by ReadFrom as the value *as written* (i.e. after Rehash), leaving exactly
    `r` unread.  Hypothesis `targetsFree`: no rehashed field feeds a length function. -/
theorem decode_encode (S : SDef) (hfree : targetsFree S.rules S.body = true) (vs : List Val) (r : Bytes)
    (hwt : wt S.body [] vs = true) :
    S.decode (S.encode vs ++ r) = .ok (S.rehash vs, r) :=
  decode_encodeRaw S.body [] (S.rehash vs) r (wt_rehash S hfree vs hwt)

/-- the same without any condition on the rules, for a value that is well-typed after Rehash -/
theorem decode_encode' (S : SDef) (vs : List Val) (r : Bytes) (hwt : wt S.body [] (S.rehash vs) = true) :
    S.decode (S.encode vs ++ r) = .ok (S.rehash vs, r) :=
  decode_encodeRaw S.body [] (S.rehash vs) r hwt

/-- **read → write, raw** (`encode_decode`): whatever ReadFrom accepts is, byte for byte, the fields of
    the value read as WriteTo emits them, followed by the unread rest; and the value read is
    well-typed. -/
theorem encode_decode_raw (S : SDef) (b : Bytes) (vs : List Val) (r : Bytes)
    (h : S.decode b = .ok (vs, r)) : encodeRaw S.body vs ++ r = b ∧ wt S.body [] vs = true :=
  encodeRaw_decode S.body [] b vs r h

/-- **read → write** (`encode_decode`): if moreover the stored derived fields are truthful
    (Rehash does not change the value read), WriteTo reproduces the input exactly. -/
theorem encode_decode (S : SDef) (b : Bytes) (vs : List Val) (r : Bytes)
    (h : S.decode b = .ok (vs, r)) (htruth : S.rehash vs = vs) : S.encode vs ++ r = b := by
  unfold SDef.encode
  rw [htruth]
  exact (encodeRaw_decode S.body [] b vs r h).1

/-- **Rehash is idempotent** when parent and own assignments never hit the same field. -/
theorem rehash_idempotent (S : SDef) (hok : rulesOK S.rules S.body = true) (vs : List Val) :
    S.rehash (S.rehash vs) = S.rehash vs := rehash_idem S hok vs

/-- **read a written manifest, write it again: identical bytes.** -/
theorem write_read_write (S : SDef) (hok : rulesOK S.rules S.body = true)
    (hfree : targetsFree S.rules S.body = true) (vs : List Val) (r : Bytes)
    (hwt : wt S.body [] vs = true) :
    ∃ vs', S.decode (S.encode vs ++ r) = .ok (vs', r) ∧ S.encode vs' = S.encode vs := by
  refine ⟨S.rehash vs, decode_encode S hfree vs r hwt, ?_⟩
  unfold SDef.encode
  rw [rehash_idem S hok vs]

/-- **sizes** (`size_eq`): the number of bytes WriteTo produces is TotalSize() — of the value before
    or after the write, Rehash does not change sizes. -/
theorem size_eq (S : SDef) (vs : List Val) :
    (S.encode vs).length = S.totalSize vs ∧ S.totalSize (S.rehash vs) = S.totalSize vs := by
  refine ⟨?_, totalSize_rehash S vs⟩
  unfold SDef.encode
  rw [encodeRaw_length]
  exact totalSize_rehash S vs

/-- **bytes consumed**: the number of bytes ReadFrom consumed is TotalSize() of the value it read. -/
theorem read_count (S : SDef) (b : Bytes) (vs : List Val) (r : Bytes) (h : S.decode b = .ok (vs, r)) :
    b.length = S.totalSize vs + r.length := by
  have h1 := (encodeRaw_decode S.body [] b vs r h).1
  rw [← h1, List.length_append, encodeRaw_length]
  rfl

/-- **offsets** (`offset_eq`): every `<F>Offset()` (evaluated before or after the write) is the length
    of what WriteTo emits for the fields before `F`; that is a prefix of the output and the bytes of
    the fields from `F` on follow it. -/
theorem offset_eq (S : SDef) (vs : List Val) (f : String) (o : Nat) (hs : shaped S.body vs = true)
    (ho : offsetOf S.body vs f = some o) :
    offsetOf S.body (S.rehash vs) f = some o ∧
    o = (encodeRaw (S.body.before f) (S.rehash vs)).length ∧
    S.encode vs = encodeRaw (S.body.before f) (S.rehash vs)
                    ++ encodeRaw (S.body.fromField f) ((S.rehash vs).drop (S.body.index f)) := by
  have hs' : shaped S.body (S.rehash vs) = true := by rw [shaped_rehash]; exact hs
  obtain ⟨h1, h2⟩ := split_at_field S.body (S.rehash vs) f hs'
  unfold offsetOf at ho ⊢
  split at ho
  · next hf =>
    simp only [Option.some.injEq] at ho
    refine ⟨?_, ?_, h1⟩
    · rw [fieldOff_rehash]; simp [ho, hf]
    · rw [← h2, fieldOff_rehash]; exact ho.symm
  · cases ho

/-- **stored offsets** (`sigoffset`, generic form): a numeric field `f` of width `k` that Rehash sets to
    `<T>Offset()` holds, in the written value, the length of the output before field `T` (mod 256^k)
    — it points at `T`. -/
theorem stored_offset (S : SDef) (vs : List Val) (f t : String) (k : Nat)
    (hs : shaped S.body vs = true) (hw : numWidth S.body f = some k)
    (hr : ruleFor S.rules [f] = some (.fieldOffset [] t)) :
    getNum S.body (S.rehash vs) f
        = some ((encodeRaw (S.body.before t) (S.rehash vs)).length % 256 ^ k) ∧
    S.encode vs = encodeRaw (S.body.before t) (S.rehash vs)
                    ++ encodeRaw (S.body.fromField t) ((S.rehash vs).drop (S.body.index t)) := by
  have hs' : shaped S.body (S.rehash vs) = true := by rw [shaped_rehash]; exact hs
  obtain ⟨h1, h2⟩ := split_at_field S.body (S.rehash vs) t hs'
  refine ⟨?_, h1⟩
  have := getNum_rehashWalk S.body S.body vs S.rules vs f k _ hs hw hr
  unfold SDef.rehash at h2 ⊢
  rw [this, ← h2]
  simp only [RExpr.eval, relOffset]
  rw [← fieldOff_rehash S vs t]
  rfl

/-! ## on the structures regenerated from the sources -/

/-- `S` is the model of one of the structures that have a generated codec, built from its
    declaration as regenerated from the Go sources by this run of the translator -/
def IsGenerated (q : String) (S : SDef) : Prop := q ∈ structNames ∧ sdefOf Tie.src 8 q = some S

theorem generated_ok (q : String) (S : SDef) (h : IsGenerated q S) :
    rulesOK S.rules S.body = true ∧ targetsFree S.rules S.body = true := by
  have := Tie.model_structs_ok
  rw [List.all_eq_true] at this
  have hq := this q h.1
  rw [h.2] at hq
  simpa using hq

/-- **C15 on every generated non-container structure** — key manifests (cbntkey.Manifest,
    bgkey.Manifest) and every sub-structure: a well-typed value is written, read back equal (as
    written) with exactly the rest unread, and re-written to identical bytes; the byte count is
    TotalSize(). -/
theorem generated_roundtrip (q : String) (S : SDef) (h : IsGenerated q S) (vs : List Val) (r : Bytes)
    (hwt : wt S.body [] vs = true) :
    S.decode (S.encode vs ++ r) = .ok (S.rehash vs, r) ∧
    S.encode (S.rehash vs) = S.encode vs ∧
    (S.encode vs).length = S.totalSize vs := by
  obtain ⟨hok, hfree⟩ := generated_ok q S h
  refine ⟨decode_encode S hfree vs r hwt, ?_, (size_eq S vs).1⟩
  unfold SDef.encode
  rw [rehash_idem S hok vs]

/-! ## the element containers (Boot Guard and CBnT boot policy manifests) -/

/-- **write → read for an element container** (`decode_encode` with `r` shorter than a struct-info):
    for every container whose struct-info holds the 8-byte ID, whose dispatched IDs are pairwise
    different and whose elements begin with the struct-info (`C.ok`), and every value that, as
    written, is well-typed — one node per slot, every element well-typed and carrying the ID of its
    slot, optional elements at most once (`C.wt`): ReadFrom applied to the output of WriteTo followed
    by fewer bytes than a struct-info returns the value as written and leaves those bytes uncounted.
    The value lists its elements per slot, i.e. in architectural order with singletons once: that is
    what WriteTo emits, and the order / multiplicity checks of the loop accept it. -/
theorem container_decode_encode (C : Container) (hC : C.ok = true) (vs : List Val) (r : Bytes)
    (hwt : C.wt (C.rehash vs) = true) (hr : r.length < C.siLen) :
    C.decode (C.encode vs ++ r) = .ok (C.rehash vs, r) :=
  Fiano.Manifest.container_decode_encode C hC vs r hwt hr

/-- `C` is the model of one of the two boot policy manifests, built from the regenerated
    declarations, with the regenerated value of `StrictOrderCheck` -/
def IsGeneratedContainer (q : String) (C : Container) : Prop :=
  q ∈ Tie.containerNames ∧ containerOf Tie.src 8 q (Tie.strictOf q) = some C

theorem generated_container_ok (q : String) (C : Container) (h : IsGeneratedContainer q C) :
    C.ok = true := by
  have := Tie.model_containers_ok
  rw [List.all_eq_true] at this
  have hq := this q h.1
  rw [h.2] at hq
  simp only [Bool.and_eq_true] at hq
  exact hq.1

/-- **C15 on both boot policy manifests**: write → read returns the value as written. -/
theorem generated_container_roundtrip (q : String) (C : Container) (h : IsGeneratedContainer q C)
    (vs : List Val) (r : Bytes) (hwt : C.wt (C.rehash vs) = true) (hr : r.length < C.siLen) :
    C.decode (C.encode vs ++ r) = .ok (C.rehash vs, r) :=
  container_decode_encode C (generated_container_ok q C h) vs r hwt hr

/-- **sizes and offsets of a container**: the number of bytes WriteTo produces is TotalSize() (before
    or after the write); `<F>Offset()` of slot `i` is the length of the output for the slots before
    it, which is a prefix of the output, followed by the bytes of the slots from `i` on. -/
theorem container_size_offset (C : Container) (vs : List Val) (i : Nat) :
    (C.encode vs).length = C.totalSize vs ∧
    C.slotOffset vs i = ((zipSlots slotRaw C.slots (C.rehash vs)).take i).flatten.length ∧
    C.encode vs = ((zipSlots slotRaw C.slots (C.rehash vs)).take i).flatten
                    ++ ((zipSlots slotRaw C.slots (C.rehash vs)).drop i).flatten := by
  refine ⟨?_, ?_, (container_offset C vs i).1⟩
  · rw [container_size, container_totalSize_rehash]
  · rw [← container_slotOffset_rehash, (container_offset C vs i).2]

/-- **read a written container, write it again: identical bytes** (`C.rulesOK`: the container's
    assignments into a singleton element and that element's own never hit the same field). -/
theorem container_write_read_write (C : Container) (hC : C.ok = true) (hR : C.rulesOK = true)
    (vs : List Val) (r : Bytes) (hwt : C.wt (C.rehash vs) = true) (hr : r.length < C.siLen) :
    ∃ vs', C.decode (C.encode vs ++ r) = .ok (vs', r) ∧ C.encode vs' = C.encode vs := by
  refine ⟨C.rehash vs, container_decode_encode C hC vs r hwt hr, ?_⟩
  unfold Container.encode
  rw [container_rehash_idem C hR vs]

/-! ## the stored signature offsets point at the key-and-signature structure -/

/-- **`sigoffset`, CBnT key manifest**: in the value as written, KeyManifestSignatureOffset holds the
    number of bytes of the output that precede the KeyAndSignature structure (mod 2^16 — the field
    is a uint16), and the output is those bytes followed by WriteTo's output for KeyAndSignature. -/
theorem km_sigoffset (S : SDef) (h : IsGenerated "cbntkey.Manifest" S) (vs : List Val)
    (hs : shaped S.body vs = true) :
    getNum S.body (S.rehash vs) "KeyManifestSignatureOffset"
        = some ((encodeRaw (S.body.before "KeyAndSignature") (S.rehash vs)).length % 65536) ∧
    (∃ rs inner, S.body.fromField "KeyAndSignature" = .sub "KeyAndSignature" rs inner .done) ∧
    S.encode vs = encodeRaw (S.body.before "KeyAndSignature") (S.rehash vs)
        ++ encodeRaw (S.body.fromField "KeyAndSignature")
             ((S.rehash vs).drop (S.body.index "KeyAndSignature")) := by
  have hf := Tie.km_sigoffset_facts
  rw [h.2] at hf
  simp only [Tie.kmSigFacts, Bool.and_eq_true, beq_iff_eq] at hf
  obtain ⟨⟨hr, hw⟩, hsub⟩ := hf
  obtain ⟨h1, h2⟩ := stored_offset S vs "KeyManifestSignatureOffset" "KeyAndSignature" 2 hs hw hr
  refine ⟨h1, ?_, h2⟩
  split at hsub
  · next rs inner heq => exact ⟨rs, inner, heq⟩
  · cases hsub

/-- **`sigoffset`, CBnT boot policy manifest**: in the value as written, BPMH.KeySignatureOffset holds
    the number of bytes of the output that precede the KeySignature structure of the PMSE element
    (mod 2^16), i.e. the elements before PMSE plus PMSE's struct-info. -/
theorem bpm_sigoffset (C : Container) (h : IsGeneratedContainer "cbntbootpolicy.Manifest" C)
    (vs : List Val) (bpmh pmse : List Val) (sg st : Slot)
    (hsg : C.slots[0]? = some sg) (hst : C.slots[6]? = some st)
    (hvg : vs[0]? = some (.node bpmh)) (hvt : vs[6]? = some (.node pmse))
    (hshg : shaped sg.elem.body bpmh = true) (hsht : shaped st.elem.body pmse = true) :
    ∃ Wg Wt, (C.rehash vs)[0]? = some (.node Wg) ∧ (C.rehash vs)[6]? = some (.node Wt) ∧
      getNum sg.elem.body Wg "KeySignatureOffset"
        = some ((((zipSlots slotRaw C.slots (C.rehash vs)).take 6).flatten.length
                  + (encodeRaw (st.elem.body.before "KeySignature") Wt).length) % 65536) ∧
      slotRaw st (.node Wt) = encodeRaw (st.elem.body.before "KeySignature") Wt
          ++ encodeRaw (st.elem.body.fromField "KeySignature") (Wt.drop (st.elem.body.index "KeySignature")) ∧
      C.encode vs = ((zipSlots slotRaw C.slots (C.rehash vs)).take 6).flatten
                      ++ ((zipSlots slotRaw C.slots (C.rehash vs)).drop 6).flatten := by
  have hf := Tie.bpm_sigoffset_facts
  rw [h.2] at hf
  simp only [Tie.bpmSigFacts, hsg, hst, Bool.and_eq_true, beq_iff_eq, Option.isNone_iff_eq_none] at hf
  obtain ⟨⟨⟨⟨⟨⟨⟨⟨⟨hkg, hkt⟩, hng⟩, hnt⟩, hidx⟩, hw⟩, hr⟩, hnone⟩, _⟩, _⟩ := hf
  obtain ⟨Wg, Wt, h1, h2, h3, h4⟩ := container_stored_offset C vs 0 6 sg st "KeySignatureOffset"
    "KeySignature" 2 bpmh pmse hsg hkg hvg hshg hst hkt hvt hsht (by rw [hnt]; exact hidx) hw
    (by rw [hng, hnt]; exact hr) hnone
  exact ⟨Wg, Wt, h1, h2, h3, h4, (container_offset C vs 6).1⟩

/-! ## non-vacuity: the hypotheses are inhabited by real manifests, and the excluded points -/

set_option maxRecDepth 100000

/-- a CBnT key (RSA 2048: 4 + 256 bytes), a signature and a key manifest with one hash are
    well-typed on the regenerated layouts -/
example : (match sdefOf Tie.src 8 "cbnt.Key" with
    | some S => wt S.body [] [.num 1, .num 0x10, .num 2048, .bytes (List.replicate 260 7)]
    | none => false) = true := by decide

example : (match sdefOf Tie.src 8 "cbntkey.Manifest" with
    | some S =>
      let key : Val := .node [.num 1, .num 0x10, .num 16, .bytes [1, 0, 1, 0, 0xaa, 0xbb]]
      let sig : Val := .node [.num 0x14, .num 0x10, .num 16, .num 0x0b, .bytes [0xcc, 0xdd]]
      let v := [Val.node [.bytes (idBytes "__KEYM__"), .num 0x21, .num 0, .num 0], .num 0,
                .bytes [0, 0, 0], .num 1, .num 2, .num 3, .num 0x0b,
                .node [.node [.num 1, .node [.num 0x0b, .bytes [9, 9, 9]]]],
                .node [.num 0x10, key, sig]]
      wt S.body [] v && shaped S.body v && decide (S.rehash v ≠ [] ∧ (S.encode v).length = 60)
    | none => false) = true := by decide

/-- a Boot Guard boot policy manifest with one SE (one IBB segment), no PM, and a signature: `C.ok`,
    `C.rulesOK` and `C.wt (C.rehash v)` hold, and it is 128 bytes long -/
example : (match containerOf Tie.src 8 "bgbootpolicy.Manifest" true with
    | some C =>
      let key : Val := .node [.num 1, .num 0x10, .num 16, .bytes [1, 0, 1, 0, 0xaa, 0xbb]]
      let sig : Val := .node [.num 0x14, .num 0x10, .num 16, .num 0x0b, .bytes [0xcc, 0xdd]]
      let bpmh : Val := .node [.node [.bytes (idBytes "__ACBP__"), .num 0x10], .num 1, .num 2, .num 3,
                               .num 4, .bytes [0], .num 5]
      let se : Val := .node [.node [.bytes (idBytes "__IBBS__"), .num 0x10], .bytes [0], .bytes [0],
                             .num 1, .num 2, .num 3, .num 4, .num 5, .num 6,
                             .bytes (List.replicate 8 0), .bytes (List.replicate 8 0),
                             .node [.num 0x0c, .bytes [0, 0]], .num 7, .node [.num 0x0b, .bytes [8]],
                             .node [.node [.bytes [0, 0], .num 1, .num 2, .num 3]]]
      let pmse : Val := .node [.node [.bytes (idBytes "__PMSG__"), .num 0x10], .node [.num 0x10, key, sig]]
      let v := [bpmh, .node [se], .node [], pmse]
      C.ok && C.rulesOK && C.wt (C.rehash v) && decide ((C.encode v).length = 128)
    | none => false) = true := by decide

/-- **excluded point (forced hypothesis `wt`)**: a Key whose algorithm fiano does not know is not
    well-typed unless it carries exactly 65535 data bytes — `uint16(keyDataSize())` is
    `uint16(-1)`; the freshly constructed empty key does not survive a round trip (short read). -/
theorem key_unknown_algorithm_excluded :
    (match sdefOf Tie.src 8 "cbnt.Key" with
      | some S =>
        let v := [Val.num 0, .num 0x10, .num 2048, .bytes []]
        !(wt S.body [] v) && (match S.decode (S.encode v) with | .error .eof => true | _ => false)
      | none => false) = true := by decide

/-- **excluded point**: a TPMInfoList with a non-empty algorithm list is written but cannot be read
    back — the generated value-receiver `Algorithm.ReadFrom` hands `binary.Read` a non-pointer.
    (The structure is not part of any manifest.) -/
theorem tpm_info_list_excluded :
    (match sdefOf Tie.src 8 "cbnt.TPMInfoList" with
      | some S =>
        let v := [Val.num 5, .node [.node [.num 0x0b]]]
        !(wt S.body [] v) && decide ((S.encode v).length = 8)
          && (match S.decode (S.encode v) with | .error .invalid => true | _ => false)
          && wt S.body [] [Val.num 5, .node []]
      | none => false) = true := by decide

end Fiano.Manifest.C15
