/-
  Property C02 — every image the tool writes is a structurally valid image of the same size; an
  operation whose result cannot fit a non-resizable volume, or whose target is missing or ambiguous,
  returns an error and no output file is written.

  Model: Uefi/Visitors.lean (find, insert, remove, replace_pe32, save, the command line) on top of
  the shared UEFI core (Uefi/Parse.lean, Uefi/Assemble.lean).  Independent reader:
  Uefi/ValidImage.lean (`Valid.validImage`, rules F1–F5, B1–B2, V1–V7, L1–L4, X1–X5, S1–S3).

  The central statement of DESIGN §7-C02 is

      edits_valid (i ops) : WF i → run ops (tree i) >>= save = ok b → validImage b ∧ b.length = (ser i).length

  What is proved here, all without any bound on image size, number of volumes / files, or length of
  the operation sequence:
    * the size half of it, for every tree that satisfies the size invariant `Sized` (`edits_same_size`),
      which every parsed tree does (`parse_sized`), hence from the bytes for every bare BIOS image and
      every flash image of a whole number of 4 KiB blocks (`edits_same_size_image`);
    * the layers under the validity half, each against the independent reader: pad files
      (`padFile_valid`), the placement arithmetic of Appendix A.1 (`relayout_offsets`,
      `relayout_loop`), the file area a relayout writes (`relayout_valid`: L1–L4), the **whole volume**
      after a relayout that does not grow it (`relayout_volume_valid`: `fvOk`, header rules included),
      regenerated sections (`genSecHeader_valid`), the section area of a rebuilt file
      (`section_area_valid`: S1–S2) and the rebuilt file itself (`asmFile_valid`: X1–X5);
    * the error half (`error_cases_*`, `save_atomic`).
  Not proved (checks.d `unproved`; carried by T2 and the oracle `saved-image-valid`, which runs the
  Lean reader on the bytes fiano wrote): the composition of these layers along the recursion
  file → section → nested volume into one closed statement over trees (it needs the header rules of a
  volume that *grows* — nested volumes — and the FFSv3 switch), the region scan, and the descriptor
  rules.
-/
import FianoModel.Uefi.ParseSized
import FianoModel.Uefi.SectionLemmas
import FianoModel.Uefi.EditTie
import FianoModel.Uefi.CodeTie   -- T1 code-as-code tie (wp-t1x): audited as a tie module of this check

namespace Fiano.Uefi.C02
open EditArith
open Fiano Fiano.Uefi

/-- **pad files are valid** (`CreatePadFile`, both header forms, both polarities): the requested
    length exactly, and accepted by the reader's file rules wherever it is placed -/
theorem padFile_valid (pol : UInt8) (size : Nat) (h24 : 24 ≤ size) (h64 : size < 2 ^ 64) (hp : pol = 0xFF ∨ pol = 0) :
    ∃ f, mkPadFile pol size = .ok f ∧ f.buf.length = size ∧ f.secs = [] ∧
      ∀ fuel o, Valid.fileOk (fuel + 1) f.buf o = true := by
  obtain ⟨f, h1, h2, h3, _, _, h6⟩ := mkPadFile_valid pol size h24 h64 hp
  exact ⟨f, h1, h2, h3, h6⟩

/-- a pad file below 24 bytes, or with the erase polarity still unset, is refused -/
theorem padFile_refused (pol : UInt8) (size : Nat) (h : size < 24 ∨ (pol ≠ 0xFF ∧ pol ≠ 0)) :
    mkPadFile pol size = .error .err := by
  unfold mkPadFile
  rcases h with h | h
  · rw [if_pos h]
  · by_cases h24 : size < 24
    · rw [if_pos h24]
    · rw [if_neg h24, if_pos h]

/-- **Appendix A.1, the placement rule**: the file whose predecessor ended at `off` starts at or after
    the next 8-byte boundary, on an 8-byte boundary, with its data (header length 24 or 32 by the
    large-file bit) on a multiple of its alignment, and the gap left before it is either empty or at
    least 24 bytes — exactly the domain of `CreatePadFile`: the `gap ∈ [8,24)` bump is sufficient -/
theorem relayout_offsets (off attrs : Nat) (ha : attrs < 256) :
    roundUp off 8 ≤ fileStart off attrs ∧ fileStart off attrs % 8 = 0 ∧
    (fileStart off attrs + hdrLen attrs) % Valid.dataAlign attrs = 0 ∧
    (fileStart off attrs = roundUp off 8 ∨ roundUp off 8 + 24 ≤ fileStart off attrs) :=
  let h := fileStart_spec off attrs ha
  ⟨h.1, h.2.1, h.2.2.1, h.2.2.2.1⟩

/-- the file loop of `Assemble.Visit` computes exactly that placement (Go's `Align` bit trick on
    `uint64` included), inserting one pad file of exactly the gap when the gap is not empty -/
theorem relayout_loop (pol : UInt8) (hp : pol = 0xFF ∨ pol = 0) (l : List (Nat × Bytes)) (buf : Bytes) (off : Nat)
    (hl : ∀ x ∈ l, x.1 < 256 ∧ x.2.length ≠ 0) (hlen : buf.length = off) (hb : layEnd l off < 2 ^ 62) :
    placeFiles pol l buf off = .ok (buf ++ layAll pol l off) :=
  (placeFiles_eq pol hp l buf off hl hlen hb).1

/-- **`relayout_valid`**: a volume relayout that succeeds without growing leaves the volume at its
    length and writes a file area that the independent reader accepts (rules L1–L4: 8-byte placement,
    data alignment, no overlap, files inside the volume, erased filler, erased free space; X1–X5 for
    every file and pad file) -/
theorem relayout_valid (i : FvInfo) (buf : Bytes) (files : List File) (st : St) (i' : FvInfo) (out : Bytes) (st' : St)
    (h : relayoutFv i buf files st = .ok (i', out, st'))
    (hp : st.pol = 0xFF ∨ st.pol = 0)
    (hgood : ∀ f ∈ files, GoodFile st.pol (f.info.attrs, f.buf))
    (hD : 60 ≤ i.dataOffset)
    (hbound : layEnd (placed files) i.dataOffset < 2 ^ 62)
    (hfit : layEnd (placed files) i.dataOffset ≤ i.length) :
    out.length = i.length ∧ i'.length = i.length ∧
    ∃ need, ∀ fuel, need ≤ fuel → Valid.filesOk fuel out st.pol i.dataOffset = true :=
  relayoutFv_valid i buf files st i' out st' h hp hgood hD hbound hfit

/-- **`relayout_valid`, whole volume**: on a volume node whose buffer is the whole volume, passes the
    reader's header rules V1–V5 (`hdrOk`) and agrees with the node's fields, a relayout that succeeds
    without growing the volume and without switching it to FFSv3 yields a volume the independent
    reader accepts **in full** (`fvOk`: V1–V7, L1–L4, X1–X5): the header patches (length at 32, block
    count at 56, checksum zeroed, summed and written back at 50) restore exactly the valid header -/
theorem relayout_volume_valid (i : FvInfo) (buf : Bytes) (files : List File) (st : St) (i' : FvInfo) (out : Bytes) (st' : St)
    (h : relayoutFv i buf files st = .ok (i', out, st'))
    (hp : st.pol = 0xFF ∨ st.pol = 0)
    (hgood : ∀ f ∈ files, GoodFile st.pol (f.info.attrs, f.buf))
    (hbound : layEnd (placed files) i.dataOffset < 2 ^ 62)
    (hfit : layEnd (placed files) i.dataOffset ≤ i.length)
    (hfull : buf.length = i.length) (hok : hdrOk buf = true) (hffs : fvIsFfs buf = true)
    (hhl : i.headerLen = Valid.fld buf 48 2)
    (hcnt : ∀ b0 bs, i.blocks = b0 :: bs → b0.count = Valid.fld buf 56 4)
    (hnoswap : (st.ffs3 && i.fsGuid == guidFFS2) = false)
    (hD : i.dataOffset = Valid.alignUp (fvFirst buf) 8) (hD64 : 64 ≤ i.dataOffset)
    (her : Valid.allAre st.pol ((buf.drop (fvFirst buf)).take (i.dataOffset - fvFirst buf)) = true)
    (hpol : st.pol = fvErased buf)
    (hext : Valid.fld buf 52 2 ≠ 0 → Valid.fld buf 52 2 + 20 ≤ i.dataOffset)
    (hhD : Valid.fld buf 48 2 ≤ i.dataOffset) :
    out.length = i.length ∧ ∃ need, ∀ fuel, need ≤ fuel → Valid.fvOk fuel out = true :=
  relayoutFv_fvOk i buf files st i' out st' h hp hgood hbound hfit hfull hok hffs hhl hcnt hnoswap hD hD64 her hpol hext hhD

/-- **`genSecHeader_valid`**: the section `GenSecHeader` writes around a body (UI, version, depex
    regenerated by Assemble; the PE32 section of replace_pe32; GUID-defined with its 20-byte
    sub-header) has consistent size fields in both header forms and is accepted by the reader -/
theorem genSecHeader_valid (i i' : SecInfo) (body buf' : Bytes) (h : genSecHeader i body = .ok (i', buf'))
    (ht : i.type < 256) (hnf : i.type ≠ 0x17) (hts : i.type ≠ 0x02 → i.ts = none)
    (hg : ∀ g, i.ts = some g → g.guid.length = 16) (hb : body.length + 28 < 4294967296) :
    GoodSec buf' ∧ i'.type = i.type :=
  genSecHeader_good i i' body buf' h ht hnf hts hg hb

/-- **section area**: the data `Assemble` builds for a file — its sections joined with zero padding to
    4-byte boundaries (`joinPad4`, Go's `Align4` included) — is a section area the reader accepts
    (S1–S2), when each section is (`GoodSec`: consistent sizes, not a volume image) -/
theorem section_area_valid (secs : List Bytes) (hs : ∀ b ∈ secs, GoodSec b) (hb : joinEnd secs 0 < 2 ^ 62) :
    ∀ fuel, secs.length + 1 ≤ fuel → Valid.sectionsOk fuel (joinPad4 secs []) 0 = true := by
  intro fuel hf
  have h1 := joinPad4_eq secs [] (by simpa using hb)
  have h2 := sectionsOk_joinAll secs hs [] fuel hf
  rw [h1.1]
  simpa [Valid.alignUp] using h2

/-- **`asmFile_valid`**: the file `Assemble` rebuilds from its sections (`SetSize` at the repaired
    boundary, `ChecksumAndAssemble`) is a file the reader accepts (X1–X5) at every offset that respects
    its data alignment -/
theorem asmFile_valid (i : FileInfo) (secs : List Bytes) (o : Nat)
    (hs : ∀ b ∈ secs, GoodSec b) (hb : joinEnd secs 0 < 2 ^ 62)
    (hg : i.guid.length = 16) (ht : i.type < 256) (ha : i.attrs < 256) (hst : i.state < 256)
    (hal : (o + hdrLen (setSize i.attrs (24 + (joinPad4 secs []).length) true).1) % Valid.dataAlign i.attrs = 0) :
    ∀ fuel, secs.length + 1 ≤ fuel →
      Valid.fileOk (fuel + 1)
        (checksumAndAssemble { i with attrs := (setSize i.attrs (24 + (joinPad4 secs []).length) true).1,
                                      size3 := (setSize i.attrs (24 + (joinPad4 secs []).length) true).2.1,
                                      extSize := (setSize i.attrs (24 + (joinPad4 secs []).length) true).2.2 }
          (joinPad4 secs [])).2 o = true := by
  intro fuel hf
  have hlen : (joinPad4 secs []).length < 2 ^ 63 := by
    have h1 := joinPad4_eq secs [] (by simpa using hb)
    rw [h1.1, h1.2]; simp at hb ⊢; omega
  apply casm_fileOk
  · exact setSize_sizeFields i _ hg ht ha hst hlen
  · have hbits := attrs_bit0 i.attrs ha
    simp only
    unfold hdrLen at hal
    unfold setSize at hal ⊢
    by_cases hbig : 24 + (joinPad4 secs []).length ≥ 0xFFFFFF
    · simp only [hbig, if_true] at hal ⊢
      rw [hbits.2.2.2.2.1]; exact hal
    · simp only [hbig, if_false] at hal ⊢
      rw [hbits.2.2.2.2.2]; exact hal
  · intro _
    exact section_area_valid secs hs hb fuel hf

/-- **`edits_valid_partial`** (size half of the central theorem): whatever the sequence of operations
    — insert at front / end / after / before, replace_ffs, insert_dxe, remove, remove_pad,
    replace_pe32, intermediate saves, read-only commands —, every image written has the size of the
    image the run started from.  `Sized` asks nothing of a bare BIOS image; for a flash image it asks
    that the descriptor is 4 KiB and every region buffer is as long as its table entry says. -/
theorem edits_same_size (h : Hooks) (ops : List Op) (t : Tree) (st : St) (s' : Run)
    (hr : run h ops { tree := t, st := st } = .ok s') (hz : Sized t) : ∀ b ∈ s'.outs, b.length = rootLen t :=
  run_same_size h ops _ s' hr hz (by simp)

/-- every tree the parser builds satisfies the size invariant and stands for an image of the input's
    size — for a flash image under rule F1 of the reader (a whole number of 4 KiB blocks), below 256 MiB -/
theorem parse_sized (h : Hooks) (fuel : Nat) (image : Bytes) (st st' : St) (t : Tree)
    (hp : parseWith h fuel image st = .ok (t, st'))
    (hf : findSignature image = none ∨ (image.length % 4096 = 0 ∧ image.length < 65536 * 4096)) :
    Sized t ∧ rootLen t = image.length := by
  unfold parseWith at hp
  split at hp
  · rename_i ms hsig
    split at hp
    · cases hp
    · rename_i f st1 hpf
      cases hp
      rcases hf with hf | hf
      · rw [hf] at hsig; cases hsig
      · have := parseFlash_sized h fuel image st _ f hpf hf.1 hf.2
        exact ⟨this.1, this.2⟩
  · split at hp
    · cases hp
    · rename_i b st1 hpb
      cases hp
      unfold parseBios at hpb
      split at hpb
      · cases hpb
      · cases hpb
        exact ⟨trivial, rfl⟩

/-- **same size, from the bytes**: `utk image op…` writes only images of `image.length` bytes — for
    every image without flash descriptor, and for every flash image of a whole number of 4 KiB blocks -/
theorem edits_same_size_image (h : Hooks) (image : Bytes) (specs : List OpSpec) (r : Run)
    (hu : utk h image specs = .ok r)
    (hf : findSignature image = none ∨ (image.length % 4096 = 0 ∧ image.length < 65536 * 4096)) :
    ∀ b ∈ r.outs, b.length = image.length := by
  unfold utk at hu
  split at hu
  · cases hu
  · rename_i ops st _
    split at hu
    · cases hu
    · rename_i t st' hp
      have hs := parse_sized h _ image st st' t hp hf
      rw [← hs.2]
      exact edits_same_size h ops t st' r hu hs.1

/-- **`edits_valid_partial`** — the central theorem of DESIGN §7-C02,

        edits_valid (i ops) : WF i → run ops (tree i) >>= save = ok b → validImage b ∧ b.length = (ser i).length,

    in the part that is proved as one closed statement from the bytes: for every image (bare BIOS
    region, or flash image of a whole number of 4 KiB blocks) and every command line, every image
    `utk` writes has the size of the input, and `save` is atomic.  The conjunct `validImage b` is
    proved layer by layer (`padFile_valid`, `relayout_offsets`, `relayout_valid`,
    `relayout_volume_valid`, `genSecHeader_valid`, `section_area_valid`, `asmFile_valid`), not yet
    composed over nested volumes (checks.d `unproved`). -/
theorem edits_valid_partial (h : Hooks) (image : Bytes) (specs : List OpSpec) (r : Run)
    (hu : utk h image specs = .ok r)
    (hf : findSignature image = none ∨ (image.length % 4096 = 0 ∧ image.length < 65536 * 4096)) :
    ∀ b ∈ r.outs, b.length = image.length :=
  edits_same_size_image h image specs r hu hf

/-- **`error_cases`, target**: insert / replace_ffs / insert_dxe (with a parsed new file or with the
    nil file of a free-space look-alike), replace_pe32 and dump succeed only if exactly one node
    matches — a missing or an ambiguous target is an error -/
theorem error_cases_target (p : Pred) (t t' : Tree) :
    (∀ w nf, insertOp p w nf t = .ok t' → (find p t).length = 1) ∧
    (∀ w, insertNilOp p w t = .ok () → (find p t).length = 1) ∧
    (∀ body, replacePe32Op p body t = .ok t' → (find p t).length = 1) ∧
    (roStep (.dump p) t = .ok () → (find p t).length = 1) :=
  ⟨fun w nf h => insert_needs_one p w nf t t' h, fun w h => insertNil_needs_one p w t h,
   fun body h => (replacePe32_needs_one p body t t' h).1, dump_needs_one p t⟩

/-- **`error_cases`, space**: a volume that cannot grow and whose files do not fit is not written -/
theorem error_cases_no_room (i : FvInfo) (buf : Bytes) (files : List File) (st : St)
    (hp : st.pol = 0xFF ∨ st.pol = 0) (hgood : ∀ f ∈ files, GoodFile st.pol (f.info.attrs, f.buf))
    (hbound : layEnd (placed files) i.dataOffset < 2 ^ 62) (hres : i.resizable = false)
    (hbig : i.length < layEnd (placed files) i.dataOffset) : ∃ e, relayoutFv i buf files st = .error e :=
  relayoutFv_no_room i buf files st hp hgood hbound hres hbig

/-- **`save_atomic`**: `Save.Visit` writes exactly one file, and only after `Assemble` succeeded; when
    assembly fails nothing is written (the step fails, the run stops with the files it had) -/
theorem save_atomic (h : Hooks) (s : Run) :
    (∀ s', step h .save s = .ok s' →
      ∃ t st, asmTreeWith h s.tree { s.st with ffs3 := false } = .ok (t, st) ∧ s'.outs = s.outs ++ [t.buf]) ∧
    (∀ e, asmTreeWith h s.tree { s.st with ffs3 := false } = .error e → ∃ e', step h .save s = .error e') := by
  constructor
  · intro s' hs
    unfold step at hs
    split at hs
    · simp [stepNil] at hs
    · simp only at hs
      split at hs
      · cases hs
      · rename_i t st heq
        cases hs
        exact ⟨t, st, heq, rfl⟩
  · intro e he
    unfold step
    split
    · exact ⟨_, rfl⟩
    · simp only [he]
      exact ⟨_, rfl⟩

/-! ### non-vacuity -/

/-- a 24-byte pad file is a file the relayout theorem accepts -/
example : GoodFile 0xFF (0, padBytes 0xFF 24) :=
  ⟨by decide, padBytes_live 0xFF 24 (Or.inl rfl),
   ⟨1, fun fuel hf o _ => by
      obtain ⟨n, rfl⟩ : ∃ n, fuel = n + 1 := ⟨fuel - 1, by omega⟩
      exact padBytes_ok 0xFF 24 (by omega) (by decide) (Or.inl rfl) n o⟩⟩

def block (x : UInt8) : Bytes := List.replicate 4096 x
theorem block_length (x : UInt8) : (block x).length = 4096 := List.length_replicate ..

/-- a flash tree that satisfies the size invariant: descriptor of 4 KiB, one BIOS region of one block -/
example : Sized (.flash
    { buf := [], flashSize := 8192,
      ifd := { buf := block 0, mapStart := 20, regionStart := 64, masterStart := 128,
               map := ⟨List.replicate 16 0⟩, region := ⟨0, [⟨1, 1⟩]⟩, master := ⟨[]⟩ },
      regions := [.bios { elems := [], buf := block 0xFF, length := 4096, fr := some ⟨1, 1⟩ }] }) := by
  refine ⟨block_length 0, ?_⟩
  intro r hr
  simp only [List.mem_singleton] at hr
  subst hr
  refine ⟨⟨⟨1, 1⟩, rfl, ?_⟩, ?_, ?_⟩
  · simp only [Region.buf, block_length, FlashRegion.baseOffset, FlashRegion.endOffset]
  · rw [repoint_fr]
    decide
  · simp only [biosLenOk, block_length]

end Fiano.Uefi.C02

namespace Fiano.Uefi.C02
open EditArith
open Fiano Fiano.Uefi

/-- a RAW section of 8 bytes is a section the section-area theorem accepts -/
example : GoodSec [8, 0, 0, 0x19, 1, 2, 3, 4] := ⟨by decide, by decide, by decide, by decide, by decide⟩

/-- an (empty) FFSv2 volume of the reference grammar: 72-byte header, one block entry, 16 free bytes -/
def emptyVolume : Bytes :=
  Spec.serFv (.ffs (List.replicate 16 0) false 0x0004FEFF 2 0 [⟨11, 8⟩] none [] 16)

set_option maxRecDepth 65536 in
/-- its header satisfies the hypotheses of `relayout_volume_valid`: rules V1–V5, an FFS file system,
    files from offset 72 -/
example : hdrOk emptyVolume = true ∧ fvIsFfs emptyVolume = true ∧ fvFirst emptyVolume = 72 ∧
    fvErased emptyVolume = 0xFF := by decide

end Fiano.Uefi.C02
