/-
  Property C02 — every image the tool writes is a structurally valid image of the same size; an
  operation whose result cannot fit a non-resizable volume, or whose target is missing or ambiguous,
  returns an error and no output file is written.

  Model: Uefi/Visitors.lean (find, insert, remove, replace_pe32, save, the command line) on top of
  the shared UEFI core (Uefi/Parse.lean, Uefi/Assemble.lean).  Independent reader:
  Uefi/ValidImage.lean (`Valid.validImage`, rules F1–F5, B1–B2, V1–V7, L1–L4, X1–X5, S1–S3).

  The central statement of DESIGN §7-C02 is

      edits_valid (i ops) : WF i → run ops (tree i) >>= save = ok b → validImage b ∧ b.length = (ser i).length

  It is proved below as ONE closed theorem from the bytes (`edits_valid`, follow-up wp-c02b): for every
  image the independent reader accepts (below 256 MiB) and every command line of the modelled
  operations — insert ×5, pad_file, insert_dxe, remove, remove_pad, replace_pe32, saves, read-only
  commands —, if `utk` succeeds then every image it wrote passes `Valid.validImage` AND has the size of
  the input.  The proof is an invariant argument: `TreeOk` (Uefi/TreeOk.lean, EditValidTop.lean) is
  established by the parser (`parse_establishes_TreeOk`), preserved by every operation and by
  `Assemble` itself (`edits_valid_tree`), and `Assemble` of a `TreeOk` tree writes a valid image — layer
  by layer: `asmSection_valid` (every section kind incl. volume images holding an assembled nested
  volume), `asmFile_valid_node` (rebuilt / kept / NVAR / pad files), `asmFv_valid` incl. the growing
  branch of a resizable volume and the FFSv3 GUID switch (`relayout_volume_valid_any`),
  `asmBios_valid` (region scan, rules B1–B2), `asmFlash_valid` (descriptor rules F1–F5).

  The hypotheses the proof forced, all explicit and decidable (none is needed for the size half):
    * the input passes the reader, is shorter than 256 MiB (16-bit block numbers of the descriptor),
      and fiano read its headers as the specification does (`readAlikeB`: no section of an unlisted
      type with 3-byte size FFFFFF [finding F-c02c-1]; nested volumes have one block-map entry with a
      power-of-two size [finding F-c02b-1]; the clause about an extended header 20 bytes before the end
      of a volume is gone since round 3: fixed in /repo and in the shared parse model);
    * a new file is one the reader accepts, a new PE32 body fits a section (`SpecOk`);
    * the hooks for codecs / NVAR stores satisfy their laws (`BoundedCodecs`, `NvLaw`).
  `create-fv` (pkg/visitors/createfv.go) is modelled in Uefi/CreateFv.lean (tie T2:
  harness/props/c02/createfv.go) and covered by the same argument: the volume it builds passes the
  reader (`createFv_volume_valid`), the operation keeps `TreeOk` (`createFv_valid`), and command lines
  that mix it with the other operations write only valid images of the input's size
  (`edits_valid_createfv`) — provided every `create-fv` finds its state as `CreateFvPre` asks: erase
  polarity 0xFF, and the padding it splits is entered at a multiple of 8 (anywhere else the new volume
  is never found again, finding F-c02b-3) and shows no volume signature at its probes.
  The older statements (size half, single layers, error half) are kept.

  Round 3 (follow-up wp-c02c): `nvram-compact` is an operation of the edit language (`Op3`, `run3`, `utk3`:
  Uefi/EditValidOpsDefs.lean; the visitor is an editor of the generic tree rewriting, the store compaction a
  parameter).  It keeps `TreeOk` (`nvCompact_valid`), so the ONE theorem covers command lines that contain it
  (`edits_valid_ops_tree`, `edits_valid_ops`).  For the instance the driver runs — C10's model of the NVAR
  store as the NVAR hooks and as the compaction — the laws the theorems ask of hooks and compaction are
  PROVED for all inputs (`nvCompact_model_law`, `nvHooks_model_law`), which gives `edits_valid_nvram` without
  any hypothesis about hooks; `sample_nvcompact_valid` applies it to a run that compacts a store and writes.
  `create-fv` under erase polarity 0 is inside the statement now: the new volume poisons the tree, every later
  save fails and nothing is written (`save_refuses_conflicting_polarity`, `createFv_polarity0_writes_nothing`),
  hence `edits_valid_nvram_anypol` with the weaker guard `Guard3w`.
-/
import FianoModel.Uefi.ParseSized
import FianoModel.Uefi.SectionLemmas
import FianoModel.Uefi.EditTie
import FianoModel.Uefi.CodeTie   -- T1 code-as-code tie (wp-t1x): audited as a tie module of this check
import FianoModel.Uefi.ParseOk12
import FianoModel.Uefi.CreateFvOk4
import FianoModel.Uefi.CreateFvSample
import FianoModel.Uefi.SampleC04
import FianoModel.Uefi.EditValidOps3
import FianoModel.Uefi.EditValidOpsNvLaw
import FianoModel.Uefi.EditValidOpsSampleOk
import FianoModel.Uefi.EditValidOps4
import FianoModel.Uefi.CreateFvPol0Sample

namespace Fiano.Uefi.C02
open EditArith
open Fiano Fiano.Uefi

/-- **pad files are valid** (`CreatePadFile`, both header forms, both polarities): the requested
    length exactly, and accepted by the reader's file rules wherever it is placed -/
theorem padFile_valid (pol : UInt8) (size : Nat) (h24 : 24 ≤ size) (h64 : size < 2 ^ 64) (hp : pol = 0xFF ∨ pol = 0) :
    ∃ f, mkPadFile pol size = .ok f ∧ f.buf.length = size ∧ f.secs = [] ∧
      ∀ fuel o, Valid.fileOk (fuel + 1) f.buf o = true := by
  obtain ⟨f, h1, h2, h3, _, _, h6⟩ := mkPadFile_valid pol size h24 h64 hp
  exact ⟨f, h1, h2, h3, h6⟩

/-- a pad file below 24 bytes, or with the erase polarity still unset, is refused -/
theorem padFile_refused (pol : UInt8) (size : Nat) (h : size < 24 ∨ (pol ≠ 0xFF ∧ pol ≠ 0)) :
    mkPadFile pol size = .error .err := by
  unfold mkPadFile
  rcases h with h | h
  · rw [if_pos h]
  · by_cases h24 : size < 24
    · rw [if_pos h24]
    · rw [if_neg h24, if_pos h]

/-- **Appendix A.1, the placement rule**: the file whose predecessor ended at `off` starts at or after
    the next 8-byte boundary, on an 8-byte boundary, with its data (header length 24 or 32 by the
    large-file bit) on a multiple of its alignment, and the gap left before it is either empty or at
    least 24 bytes — exactly the domain of `CreatePadFile`: the `gap ∈ [8,24)` bump is sufficient -/
theorem relayout_offsets (off attrs : Nat) (ha : attrs < 256) :
    roundUp off 8 ≤ fileStart off attrs ∧ fileStart off attrs % 8 = 0 ∧
    (fileStart off attrs + hdrLen attrs) % Valid.dataAlign attrs = 0 ∧
    (fileStart off attrs = roundUp off 8 ∨ roundUp off 8 + 24 ≤ fileStart off attrs) :=
  let h := fileStart_spec off attrs ha
  ⟨h.1, h.2.1, h.2.2.1, h.2.2.2.1⟩

/-- the file loop of `Assemble.Visit` computes exactly that placement (Go's `Align` bit trick on
    `uint64` included), inserting one pad file of exactly the gap when the gap is not empty -/
theorem relayout_loop (pol : UInt8) (hp : pol = 0xFF ∨ pol = 0) (l : List (Nat × Bytes)) (buf : Bytes) (off : Nat)
    (hl : ∀ x ∈ l, x.1 < 256 ∧ x.2.length ≠ 0) (hlen : buf.length = off) (hb : layEnd l off < 2 ^ 62) :
    placeFiles pol l buf off = .ok (buf ++ layAll pol l off) :=
  (placeFiles_eq pol hp l buf off hl hlen hb).1

/-- **`relayout_valid`**: a volume relayout that succeeds without growing leaves the volume at its
    length and writes a file area that the independent reader accepts (rules L1–L4: 8-byte placement,
    data alignment, no overlap, files inside the volume, erased filler, erased free space; X1–X5 for
    every file and pad file) -/
theorem relayout_valid (i : FvInfo) (buf : Bytes) (files : List File) (st : St) (i' : FvInfo) (out : Bytes) (st' : St)
    (h : relayoutFv i buf files st = .ok (i', out, st'))
    (hp : st.pol = 0xFF ∨ st.pol = 0)
    (hgood : ∀ f ∈ files, GoodFile st.pol (f.info.attrs, f.buf))
    (hD : 60 ≤ i.dataOffset)
    (hbound : layEnd (placed files) i.dataOffset < 2 ^ 62)
    (hfit : layEnd (placed files) i.dataOffset ≤ i.length) :
    out.length = i.length ∧ i'.length = i.length ∧
    ∃ need, ∀ fuel, need ≤ fuel → Valid.filesOk fuel out st.pol i.dataOffset = true :=
  relayoutFv_valid i buf files st i' out st' h hp hgood hD hbound hfit

/-- **`relayout_valid`, whole volume**: on a volume node whose buffer is the whole volume, passes the
    reader's header rules V1–V5 (`hdrOk`) and agrees with the node's fields, a relayout that succeeds
    without growing the volume and without switching it to FFSv3 yields a volume the independent
    reader accepts **in full** (`fvOk`: V1–V7, L1–L4, X1–X5): the header patches (length at 32, block
    count at 56, checksum zeroed, summed and written back at 50) restore exactly the valid header -/
theorem relayout_volume_valid (i : FvInfo) (buf : Bytes) (files : List File) (st : St) (i' : FvInfo) (out : Bytes) (st' : St)
    (h : relayoutFv i buf files st = .ok (i', out, st'))
    (hp : st.pol = 0xFF ∨ st.pol = 0)
    (hgood : ∀ f ∈ files, GoodFile st.pol (f.info.attrs, f.buf))
    (hbound : layEnd (placed files) i.dataOffset < 2 ^ 62)
    (hfit : layEnd (placed files) i.dataOffset ≤ i.length)
    (hfull : buf.length = i.length) (hok : hdrOk buf = true) (hffs : fvIsFfs buf = true)
    (hhl : i.headerLen = Valid.fld buf 48 2)
    (hcnt : ∀ b0 bs, i.blocks = b0 :: bs → b0.count = Valid.fld buf 56 4)
    (hnoswap : (st.ffs3 && i.fsGuid == guidFFS2) = false)
    (hD : i.dataOffset = Valid.alignUp (fvFirst buf) 8) (hD64 : 64 ≤ i.dataOffset)
    (her : Valid.allAre st.pol ((buf.drop (fvFirst buf)).take (i.dataOffset - fvFirst buf)) = true)
    (hpol : st.pol = fvErased buf)
    (hext : Valid.fld buf 52 2 ≠ 0 → Valid.fld buf 52 2 + 20 ≤ i.dataOffset)
    (hhD : Valid.fld buf 48 2 ≤ i.dataOffset) :
    out.length = i.length ∧ ∃ need, ∀ fuel, need ≤ fuel → Valid.fvOk fuel out = true :=
  relayoutFv_fvOk i buf files st i' out st' h hp hgood hbound hfit hfull hok hffs hhl hcnt hnoswap hD hD64 her hpol hext hhD

/-- **`genSecHeader_valid`**: the section `GenSecHeader` writes around a body (UI, version, depex
    regenerated by Assemble; the PE32 section of replace_pe32; GUID-defined with its 20-byte
    sub-header) has consistent size fields in both header forms and is accepted by the reader -/
theorem genSecHeader_valid (i i' : SecInfo) (body buf' : Bytes) (h : genSecHeader i body = .ok (i', buf'))
    (ht : i.type < 256) (hnf : i.type ≠ 0x17) (hts : i.type ≠ 0x02 → i.ts = none)
    (hg : ∀ g, i.ts = some g → g.guid.length = 16) (hb : body.length + 28 < 4294967296) :
    GoodSec buf' ∧ i'.type = i.type :=
  genSecHeader_good i i' body buf' h ht hnf hts hg hb

/-- **section area**: the data `Assemble` builds for a file — its sections joined with zero padding to
    4-byte boundaries (`joinPad4`, Go's `Align4` included) — is a section area the reader accepts
    (S1–S2), when each section is (`GoodSec`: consistent sizes, not a volume image) -/
theorem section_area_valid (secs : List Bytes) (hs : ∀ b ∈ secs, GoodSec b) (hb : joinEnd secs 0 < 2 ^ 62) :
    ∀ fuel, secs.length + 1 ≤ fuel → Valid.sectionsOk fuel (joinPad4 secs []) 0 = true := by
  intro fuel hf
  have h1 := joinPad4_eq secs [] (by simpa using hb)
  have h2 := sectionsOk_joinAll secs hs [] fuel hf
  rw [h1.1]
  simpa [Valid.alignUp] using h2

/-- **`asmFile_valid`**: the file `Assemble` rebuilds from its sections (`SetSize` at the repaired
    boundary, `ChecksumAndAssemble`) is a file the reader accepts (X1–X5) at every offset that respects
    its data alignment -/
theorem asmFile_valid (i : FileInfo) (secs : List Bytes) (o : Nat)
    (hs : ∀ b ∈ secs, GoodSec b) (hb : joinEnd secs 0 < 2 ^ 62)
    (hg : i.guid.length = 16) (ht : i.type < 256) (ha : i.attrs < 256) (hst : i.state < 256)
    (hal : (o + hdrLen (setSize i.attrs (24 + (joinPad4 secs []).length) true).1) % Valid.dataAlign i.attrs = 0) :
    ∀ fuel, secs.length + 1 ≤ fuel →
      Valid.fileOk (fuel + 1)
        (checksumAndAssemble { i with attrs := (setSize i.attrs (24 + (joinPad4 secs []).length) true).1,
                                      size3 := (setSize i.attrs (24 + (joinPad4 secs []).length) true).2.1,
                                      extSize := (setSize i.attrs (24 + (joinPad4 secs []).length) true).2.2 }
          (joinPad4 secs [])).2 o = true := by
  intro fuel hf
  have hlen : (joinPad4 secs []).length < 2 ^ 63 := by
    have h1 := joinPad4_eq secs [] (by simpa using hb)
    rw [h1.1, h1.2]; simp at hb ⊢; omega
  apply casm_fileOk
  · exact setSize_sizeFields i _ hg ht ha hst hlen
  · have hbits := attrs_bit0 i.attrs ha
    simp only
    unfold hdrLen at hal
    unfold setSize at hal ⊢
    by_cases hbig : 24 + (joinPad4 secs []).length ≥ 0xFFFFFF
    · simp only [hbig, if_true] at hal ⊢
      rw [hbits.2.2.2.2.1]; exact hal
    · simp only [hbig, if_false] at hal ⊢
      rw [hbits.2.2.2.2.2]; exact hal
  · intro _
    exact section_area_valid secs hs hb fuel hf

/-- **`edits_valid_partial`** (size half of the central theorem): whatever the sequence of operations
    — insert at front / end / after / before, replace_ffs, insert_dxe, remove, remove_pad,
    replace_pe32, intermediate saves, read-only commands —, every image written has the size of the
    image the run started from.  `Sized` asks nothing of a bare BIOS image; for a flash image it asks
    that the descriptor is 4 KiB and every region buffer is as long as its table entry says. -/
theorem edits_same_size (h : Hooks) (ops : List Op) (t : Tree) (st : St) (s' : Run)
    (hr : run h ops { tree := t, st := st } = .ok s') (hz : Sized t) : ∀ b ∈ s'.outs, b.length = rootLen t :=
  run_same_size h ops _ s' hr hz (by simp)

/-- every tree the parser builds satisfies the size invariant and stands for an image of the input's
    size — for a flash image under rule F1 of the reader (a whole number of 4 KiB blocks), below 256 MiB -/
theorem parse_sized (h : Hooks) (fuel : Nat) (image : Bytes) (st st' : St) (t : Tree)
    (hp : parseWith h fuel image st = .ok (t, st'))
    (hf : findSignature image = none ∨ (image.length % 4096 = 0 ∧ image.length < 65536 * 4096)) :
    Sized t ∧ rootLen t = image.length := by
  unfold parseWith at hp
  split at hp
  · rename_i ms hsig
    split at hp
    · cases hp
    · rename_i f st1 hpf
      cases hp
      rcases hf with hf | hf
      · rw [hf] at hsig; cases hsig
      · have := parseFlash_sized h fuel image st _ f hpf hf.1 hf.2
        exact ⟨this.1, this.2⟩
  · split at hp
    · cases hp
    · rename_i b st1 hpb
      cases hp
      unfold parseBios at hpb
      split at hpb
      · cases hpb
      · cases hpb
        exact ⟨trivial, rfl⟩

/-- **same size, from the bytes**: `utk image op…` writes only images of `image.length` bytes — for
    every image without flash descriptor, and for every flash image of a whole number of 4 KiB blocks -/
theorem edits_same_size_image (h : Hooks) (image : Bytes) (specs : List OpSpec) (r : Run)
    (hu : utk h image specs = .ok r)
    (hf : findSignature image = none ∨ (image.length % 4096 = 0 ∧ image.length < 65536 * 4096)) :
    ∀ b ∈ r.outs, b.length = image.length := by
  unfold utk at hu
  split at hu
  · cases hu
  · rename_i ops st _
    split at hu
    · cases hu
    · rename_i t st' hp
      have hs := parse_sized h _ image st st' t hp hf
      rw [← hs.2]
      exact edits_same_size h ops t st' r hu hs.1

/-- **`edits_valid_partial`** — the central theorem of DESIGN §7-C02,

        edits_valid (i ops) : WF i → run ops (tree i) >>= save = ok b → validImage b ∧ b.length = (ser i).length,

    in the part that is proved as one closed statement from the bytes: for every image (bare BIOS
    region, or flash image of a whole number of 4 KiB blocks) and every command line, every image
    `utk` writes has the size of the input, and `save` is atomic.  The conjunct `validImage b` is
    proved layer by layer (`padFile_valid`, `relayout_offsets`, `relayout_valid`,
    `relayout_volume_valid`, `genSecHeader_valid`, `section_area_valid`, `asmFile_valid`), not yet
    composed over nested volumes (checks.d `unproved`). -/
theorem edits_valid_partial (h : Hooks) (image : Bytes) (specs : List OpSpec) (r : Run)
    (hu : utk h image specs = .ok r)
    (hf : findSignature image = none ∨ (image.length % 4096 = 0 ∧ image.length < 65536 * 4096)) :
    ∀ b ∈ r.outs, b.length = image.length :=
  edits_same_size_image h image specs r hu hf

/-- **`error_cases`, target**: insert / replace_ffs / insert_dxe (with a parsed new file or with the
    nil file of a free-space look-alike), replace_pe32 and dump succeed only if exactly one node
    matches — a missing or an ambiguous target is an error -/
theorem error_cases_target (p : Pred) (t t' : Tree) :
    (∀ w nf, insertOp p w nf t = .ok t' → (find p t).length = 1) ∧
    (∀ w, insertNilOp p w t = .ok () → (find p t).length = 1) ∧
    (∀ body, replacePe32Op p body t = .ok t' → (find p t).length = 1) ∧
    (roStep (.dump p) t = .ok () → (find p t).length = 1) :=
  ⟨fun w nf h => insert_needs_one p w nf t t' h, fun w h => insertNil_needs_one p w t h,
   fun body h => (replacePe32_needs_one p body t t' h).1, dump_needs_one p t⟩

/-- **`error_cases`, space**: a volume that cannot grow and whose files do not fit is not written -/
theorem error_cases_no_room (i : FvInfo) (buf : Bytes) (files : List File) (st : St)
    (hp : st.pol = 0xFF ∨ st.pol = 0) (hgood : ∀ f ∈ files, GoodFile st.pol (f.info.attrs, f.buf))
    (hbound : layEnd (placed files) i.dataOffset < 2 ^ 62) (hres : i.resizable = false)
    (hbig : i.length < layEnd (placed files) i.dataOffset) : ∃ e, relayoutFv i buf files st = .error e :=
  relayoutFv_no_room i buf files st hp hgood hbound hres hbig

/-- **`save_atomic`**: `Save.Visit` writes exactly one file, and only after `Assemble` succeeded; when
    assembly fails nothing is written (the step fails, the run stops with the files it had) -/
theorem save_atomic (h : Hooks) (s : Run) :
    (∀ s', step h .save s = .ok s' →
      ∃ t st, asmTreeWith h s.tree { s.st with ffs3 := false } = .ok (t, st) ∧ s'.outs = s.outs ++ [t.buf]) ∧
    (∀ e, asmTreeWith h s.tree { s.st with ffs3 := false } = .error e → ∃ e', step h .save s = .error e') := by
  constructor
  · intro s' hs
    unfold step at hs
    split at hs
    · simp [stepNil] at hs
    · simp only at hs
      split at hs
      · cases hs
      · rename_i t st heq
        cases hs
        exact ⟨t, st, heq, rfl⟩
  · intro e he
    unfold step
    split
    · exact ⟨_, rfl⟩
    · simp only [he]
      exact ⟨_, rfl⟩

/-! ### non-vacuity -/

/-- a 24-byte pad file is a file the relayout theorem accepts -/
example : GoodFile 0xFF (0, padBytes 0xFF 24) :=
  ⟨by decide, padBytes_live 0xFF 24 (Or.inl rfl),
   ⟨1, fun fuel hf o _ => by
      obtain ⟨n, rfl⟩ : ∃ n, fuel = n + 1 := ⟨fuel - 1, by omega⟩
      exact padBytes_ok 0xFF 24 (by omega) (by decide) (Or.inl rfl) n o⟩⟩

def block (x : UInt8) : Bytes := List.replicate 4096 x
theorem block_length (x : UInt8) : (block x).length = 4096 := List.length_replicate ..

/-- a flash tree that satisfies the size invariant: descriptor of 4 KiB, one BIOS region of one block -/
example : Sized (.flash
    { buf := [], flashSize := 8192,
      ifd := { buf := block 0, mapStart := 20, regionStart := 64, masterStart := 128,
               map := ⟨List.replicate 16 0⟩, region := ⟨0, [⟨1, 1⟩]⟩, master := ⟨[]⟩ },
      regions := [.bios { elems := [], buf := block 0xFF, length := 4096, fr := some ⟨1, 1⟩ }] }) := by
  refine ⟨block_length 0, ?_⟩
  intro r hr
  simp only [List.mem_singleton] at hr
  subst hr
  refine ⟨⟨⟨1, 1⟩, rfl, ?_⟩, ?_, ?_⟩
  · simp only [Region.buf, block_length, FlashRegion.baseOffset, FlashRegion.endOffset]
  · rw [repoint_fr]
    decide
  · simp only [biosLenOk, block_length]

end Fiano.Uefi.C02

namespace Fiano.Uefi.C02
open EditArith
open Fiano Fiano.Uefi

/-- a RAW section of 8 bytes is a section the section-area theorem accepts -/
example : GoodSec [8, 0, 0, 0x19, 1, 2, 3, 4] := ⟨by decide, by decide, by decide, by decide, by decide⟩

/-- an (empty) FFSv2 volume of the reference grammar: 72-byte header, one block entry, 16 free bytes -/
def emptyVolume : Bytes :=
  Spec.serFv (.ffs (List.replicate 16 0) false 0x0004FEFF 2 0 [⟨11, 8⟩] none [] 16)

set_option maxRecDepth 65536 in
/-- its header satisfies the hypotheses of `relayout_volume_valid`: rules V1–V5, an FFS file system,
    files from offset 72 -/
example : hdrOk emptyVolume = true ∧ fvIsFfs emptyVolume = true ∧ fvFirst emptyVolume = 72 ∧
    fvErased emptyVolume = 0xFF := by decide

end Fiano.Uefi.C02

/-! ## follow-up wp-c02b: the validity half, closed -/

namespace Fiano.Uefi.C02
open EditArith
open Fiano Fiano.Uefi

/-- **`asmSection_valid`** (layer (a)): `Assemble` on a section node that satisfies the invariant
    `SecOk` — a kept leaf, a regenerated UI / version / depex section, a GUID-defined section rebuilt
    around its (re-compressed or kept) data, a volume-image section around its *assembled* nested
    volume — returns a node that satisfies it again and whose buffer is a section the independent
    reader accepts on its own (S1–S3, the nested volume included), when less than 2 GiB are written -/
theorem asmSection_valid (h : Hooks) (hlaw : h.NvLaw) (s s' : Section) (st st' : St) (hok : SecOk s)
    (ha : asmSection h s st = .ok (s', st')) (hlen : s'.buf.length < 2 ^ 31) : SecOk s' ∧ SecBytesOk s'.buf :=
  asmSection_ok h hlaw s st s' st' hok ha hlen

/-- **`asmFile_valid`, whole file nodes** (layer (b)): `Assemble` on a file node that satisfies `FileOk`
    — rebuilt from its assembled sections, rebuilt around an NVAR store, or kept (no sections: RAW,
    PEIM, pad, unparsed types) — returns a node that satisfies it again and whose buffer the reader
    accepts wherever its data alignment holds (X1–X5) -/
theorem asmFile_valid_node (h : Hooks) (hlaw : h.NvLaw) (e : UInt8) (he : e = 0xFF ∨ e = 0) (f f' : File) (st st' : St)
    (hok : FileOk e f) (ha : asmFile h f st = .ok (f', st')) (hlen : f'.buf.length < 2 ^ 31) :
    FileOk e f' ∧ GoodFile e (f'.info.attrs, f'.buf) :=
  asmFile_ok h hlaw e f st f' st' hok ha he hlen

/-- **`relayout_valid`, whole volume, any branch**: the relayout of a volume node whose fields agree
    with its valid buffer (`FvHdrOk`) writes a volume the reader accepts in full (V1–V7, L1–L4, X1–X5)
    — also when the volume **grows** to the next block boundary (`Length` and `Blocks[0].Count`
    rewritten, one power-of-two block entry), when the file-system GUID is switched to FFSv3, and for
    a volume that is not an FFS volume; the node's fields agree with the new buffer again -/
theorem relayout_volume_valid_any (i : FvInfo) (buf : Bytes) (files : List File) (st : St) (i' : FvInfo) (out : Bytes)
    (st' : St) (h : relayoutFv i buf files st = .ok (i', out, st')) (hinv : FvHdrOk i buf)
    (hpol : st.pol = fvErased buf) (hgood : ∀ f ∈ files, GoodFile st.pol (f.info.attrs, f.buf))
    (hbound : out.length < 2 ^ 31) :
    FvHdrOk i' out ∧ FvBytesOk out ∧ buf.length ≤ out.length ∧ (i.resizable = false → out.length = buf.length) := by
  obtain ⟨h1, _, _, _, h5, h6, _, _⟩ := relayoutFv_ok i buf files st i' out st' h hinv hpol hgood hbound
  exact ⟨h1, h1.ok, h5, h6⟩

/-- **`asmFv_valid`** (layer (c)): `Assemble` on a volume node that satisfies `FvOk` (its files and
    everything below included) returns a node that satisfies it again — in particular its buffer is a
    volume the reader accepts (`FvOk v'` contains `FvBytesOk v'.buf`) — and a non-resizable volume keeps
    its length -/
theorem asmFv_valid (h : Hooks) (hlaw : h.NvLaw) (v v' : Fv) (st st' : St) (hok : FvOk v)
    (ha : asmFv h v st = .ok (v', st')) (hlen : v'.buf.length < 2 ^ 31) :
    FvOk v' ∧ (v.info.resizable = false → v'.buf.length = v.buf.length) := by
  obtain ⟨h1, h2⟩ := asmFv_ok h hlaw v st v' st' hok ha hlen
  exact ⟨h1, h2.same⟩

/-- **`asmBios_valid`** (layer (d)): `Assemble` on a BIOS region that satisfies `BiosOk` writes a region
    that passes the reader's region scan (B1–B2: every `_FVH` hit at an 8-byte step is a valid volume,
    at least one), of the region's length -/
theorem asmBios_valid (h : Hooks) (hlaw : h.NvLaw) (b b' : BiosRegion) (st st' : St) (hok : BiosOk b)
    (ha : asmBios h b st = .ok (b', st')) (hlen : b.length < 2 ^ 31) :
    BiosOk b' ∧ Valid.biosOk b'.buf = true ∧ b'.length = b.length := by
  obtain ⟨h1, h2, _, _, h5, _⟩ := asmBios_ok h hlaw b b' st st' hok ha hlen
  exact ⟨h1, h2, h5⟩

/-- **`asmFlash_valid`** (layer (d)): `Assemble` on a flash tree that satisfies `FlashOk` writes an image
    the reader accepts (descriptor rules F1–F5, the BIOS region's rules) -/
theorem asmFlash_valid (h : Hooks) (hlaw : h.NvLaw) (f f' : Flash) (st st' : St) (hok : FlashOk f)
    (ha : asmFlash h f st = .ok (f', st')) (hL : f.flashSize < 2 ^ 31) : FlashOk f' ∧ Valid.validImage f'.buf = true :=
  asmFlash_ok h hlaw f f' st st' hok ha hL

/-- **`edits_valid`, from a tree** (layer (e)): the invariant `TreeOk` is preserved by every modelled
    operation and by `Assemble`; every image a run writes from a `TreeOk` tree passes the independent
    reader and has the size the tree stands for -/
theorem edits_valid_tree (h : Hooks) (hlaw : h.NvLaw) (ops : List Op) (t : Tree) (st : St) (s' : Run)
    (hr : run h ops { tree := t, st := st } = .ok s') (hops : ∀ op ∈ ops, OpOk op) (hok : TreeOk t)
    (hL : rootLen t < 2 ^ 31) : ∀ b ∈ s'.outs, Valid.validImage b = true ∧ b.length = rootLen t := by
  intro b hb
  exact ⟨run_valid h hlaw ops _ s' hr hops hok hL (by simp) b hb,
    run_same_size h ops _ s' hr (treeOk_sized t hok) (by simp) b hb⟩

/-- **`parse_establishes_TreeOk`**: on every image the reader accepts (below 256 MiB) the tree
    `uefi.Parse` builds satisfies the invariant, when fiano read the headers as the specification
    does (`readAlikeB`, decidable on the tree) -/
theorem parse_establishes_TreeOk (h : Hooks) (hb : h.BoundedCodecs) (hlaw : h.NvLaw) (fuel : Nat) (image : Bytes)
    (st st' : St) (t : Tree)
    (hp : parseWith h fuel image st = .ok (t, st')) (hv : Valid.validImage image = true)
    (hL : image.length < 65536 * 4096) (hRA : readAlikeB t = true) : TreeOk t ∧ rootLen t = image.length :=
  Fiano.Uefi.parse_establishes_TreeOk h hb hlaw fuel image st st' t hp hv hL (readAlikeB_sound t hRA)

/-- a blob the reader accepts as a file is a new file that may be inserted (`SpecOk` for `insert`) -/
theorem newFile_valid (h : Hooks) (hb : h.BoundedCodecs) (hlaw : h.NvLaw) (fuel : Nat) (blob : Bytes) (st st' : St) (nf : File)
    (hp : parseFile h fuel blob st = .ok (some nf, st')) (hL : blob.length < 2 ^ 62)
    (size hl fuel' o : Nat) (hfs : Valid.fileSize blob = some (size, hl))
    (hok : Valid.fileOk fuel' (blob.take size) o = true)
    (hFF : Valid.allAre 0xFF (blob.take 24) = false) (h00 : Valid.allAre 0 (blob.take 24) = false)
    (hRA : fileRAb nf = true) (hpos : 0 < nf.info.extSize) : NewFileOk nf :=
  newFile_est h hb hlaw fuel blob st st' nf hp hL size hl fuel' o hfs hok hFF h00 (fileRAb_sound nf hRA) hpos

/-- **`edits_valid`** — the central theorem of DESIGN §7-C02, closed, from the bytes: for every image
    the independent reader accepts and every command line of the modelled operations (insert at front
    / end / after / before, replace_ffs, insert pad_file, insert_dxe, remove, remove_pad, replace_pe32,
    intermediate saves, read-only commands), if `utk` succeeds then **every image written passes the
    independent reader and has the size of the input**. -/
theorem edits_valid (h : Hooks) (hb : h.BoundedCodecs) (hlaw : h.NvLaw) (image : Bytes) (specs : List OpSpec) (r : Run)
    (hu : utk h image specs = .ok r)
    (hv : Valid.validImage image = true) (hL : image.length < 65536 * 4096)
    (hspecs : ∀ s ∈ specs, SpecOk h s)
    (hRA : ∀ ops st t st', cliParse h specs {} = .ok (ops, st) →
      parseWith h (defaultFuel image) image st = .ok (t, st') → readAlikeB t = true) :
    ∀ b ∈ r.outs, Valid.validImage b = true ∧ b.length = image.length := by
  unfold utk at hu
  split at hu
  · cases hu
  · rename_i ops st hcli
    split at hu
    · cases hu
    · rename_i t st' hp
      obtain ⟨hok, hlen⟩ := parse_establishes_TreeOk h hb hlaw _ image st st' t hp hv hL (hRA ops st t st' hcli hp)
      have hops := cliParse_ok h specs {} ops st hcli hspecs
      intro b hbm
      have := edits_valid_tree h hlaw ops t st' r hu hops hok (by rw [hlen]; omega) b hbm
      rw [hlen] at this
      exact this

/-! ### non-vacuity of the new hypotheses -/

open SampleC04 in
/-- the hooks laws are satisfiable: no codec / no NVAR parsing, and the one-codec hooks of the sample -/
example : Hooks.none.NvLaw ∧ Hooks.none.BoundedCodecs ∧ hooks.BoundedCodecs :=
  ⟨Hooks.none_nvLaw, none_bounded, hooks_bounded⟩

open SampleC04 in
theorem hooks_nvLaw : hooks.NvLaw := by
  refine ⟨fun b nv hn => ?_, fun nv pol nv' hl hn => ?_⟩
  · simp [hooks] at hn
  · simp only [hooks] at hn
    cases hn
    exact hl

open SampleC04 in
set_option maxRecDepth 100000 in
/-- the 264-byte sample image of property C04 (a volume with a checksummed driver with UI and RAW
    sections, a driver with a GUID-defined section with decoded children, a pad file, free space; then
    16 bytes of padding) passes the independent reader -/
theorem sampleBios_valid : Valid.validImage sampleBios = true := by decide +kernel

open SampleC04 in
set_option maxRecDepth 100000 in
/-- … and fiano reads its headers as the specification does -/
theorem sampleBios_readAlike :
    (match parseWith hooks (defaultFuel sampleBios) sampleBios {} with
     | .ok (t, _) => readAlikeB t
     | .error _ => false) = true := by
  rw [← parseWith_eval]; decide +kernel

open SampleC04 in
/-- **`TreeOk` is inhabited by a parsed tree** (so neither `parse_establishes_TreeOk` nor
    `edits_valid_tree` is vacuous) -/
theorem sampleBios_treeOk : ∃ t st', parseWith hooks (defaultFuel sampleBios) sampleBios {} = .ok (t, st') ∧ TreeOk t := by
  have hs := sampleBios_readAlike
  match hp : parseWith hooks (defaultFuel sampleBios) sampleBios {} with
  | .ok (t, st') =>
    rw [hp] at hs
    exact ⟨t, st', rfl, (parse_establishes_TreeOk hooks hooks_bounded hooks_nvLaw _ sampleBios {} st' t hp sampleBios_valid
      (by decide +kernel) hs).1⟩
  | .error _ => rw [hp] at hs; cases hs

/-- a 24-byte pad file is a new file that may be inserted, and `insert pad_file 24` is a command the
    theorem covers -/
example : ∃ pf, mkPadFile 0xFF 24 = .ok pf ∧ NewFileOk pf := by
  obtain ⟨f, hf, _⟩ := mkPadFile_valid 0xFF 24 (by omega) (by omega) (Or.inl rfl)
  exact ⟨f, hf, mkPadFile_fileOk _ _ f hf (by omega) 0xFF (Or.inl rfl), mkPadFile_fileOk _ _ f hf (by omega) 0 (Or.inr rfl)⟩

example (p : Pred) : SpecOk Hooks.none (.insertPad p .front 24) ∧ SpecOk Hooks.none (.replacePe32 p [0x4D, 0x5A]) ∧
    SpecOk Hooks.none (.remove p true) ∧ SpecOk Hooks.none .save := by
  refine ⟨?_, ?_, trivial, trivial⟩
  · show 24 < 2 ^ 64; omega
  · show [0x4D, 0x5A].length + 28 < 4294967296; decide

/-! ### the closed theorem applied to a run that writes -/

open SampleC04

/-- the two drivers of the sample volume, by GUID -/
def firstDriver : Pred := { file := fun f => f.info.guid == [1, 2, 3, 4, 5, 6, 7, 8, 9, 10, 11, 12, 13, 14, 15, 16] }
def secondDriver : Pred := { file := fun f => f.info.guid ==
  [0x21, 0x22, 0x23, 0x24, 0x25, 0x26, 0x27, 0x28, 0x29, 0x2a, 0x2b, 0x2c, 0x2d, 0x2e, 0x2f, 0x30] }
/-- `utk sample remove <1st> save a replace_pe32 <2nd> MZ remove_pad <2nd> save b` -/
def sampleSpecs : List OpSpec :=
  [.remove firstDriver false, .save, .replacePe32 secondDriver [0x4D, 0x5A], .remove secondDriver true, .save]

set_option maxRecDepth 100000 in
/-- the run succeeds and writes two images, both different from the input -/
theorem sample_run : (match utk hooks sampleBios sampleSpecs with
    | .ok r => r.outs.length == 2 && r.outs.all (fun b => b != sampleBios)
    | .error _ => false) = true := by
  unfold utk
  simp only [← parseWith_eval]
  decide +kernel

/-- **the hypotheses of `edits_valid` are jointly satisfiable on a run that writes**: the theorem
    applies to the sample image with a five-command line (two of them saves of edited trees) -/
theorem sample_edits_valid : ∃ r, utk hooks sampleBios sampleSpecs = .ok r ∧ r.outs.length = 2 ∧
    ∀ b ∈ r.outs, Valid.validImage b = true ∧ b.length = sampleBios.length := by
  have hs := sample_run
  match hu : utk hooks sampleBios sampleSpecs with
  | .error _ => rw [hu] at hs; cases hs
  | .ok r =>
    rw [hu] at hs
    simp only [Bool.and_eq_true, beq_iff_eq] at hs
    refine ⟨r, rfl, hs.1, ?_⟩
    refine edits_valid hooks hooks_bounded hooks_nvLaw sampleBios sampleSpecs r hu sampleBios_valid (by decide +kernel) ?_ ?_
    · intro s hs
      simp only [sampleSpecs, List.mem_cons, List.not_mem_nil, or_false] at hs
      rcases hs with rfl | rfl | rfl | rfl | rfl
      · trivial
      · trivial
      · show [0x4D, 0x5A].length + 28 < 4294967296; decide
      · trivial
      · trivial
    · intro ops st t st' hc hp
      have : st = {} := by
        simp only [sampleSpecs, cliParse, cliOne] at hc
        cases hc; rfl
      subst this
      have h2 := sampleBios_readAlike
      rw [hp] at h2
      exact h2

/-! ### `create-fv` (model: Uefi/CreateFv.lean, tie T2: harness/props/c02/createfv.go) -/

/-- **the volume `create-fv` builds is valid**: under erase polarity 0xFF the bytes
    `createEmptyFirmwareVolume` produces for a 16-byte name and a size below 16 TiB pass the reader's
    volume rules V1–V7 (72-byte header with a one-entry block map that adds up to the length, header
    checksum, extended header behind the block map, file area = free space) and are `size` bytes -/
theorem createFv_volume_valid (fvOffset size : Nat) (name : Guid) (v : Fv) (hn : name.length = 16) (hs : size < 2 ^ 44)
    (h : createEmptyFv 0xFF fvOffset size name = .ok v) :
    (∃ fuel, Valid.fvOk fuel v.buf = true) ∧ v.buf.length = size := by
  obtain ⟨htop, _, hlen, _, _⟩ := createEmptyFv_ok fvOffset size name v hn hs h
  exact ⟨(fvOk_node_facts v htop.1).2.2.2, hlen⟩

/-- **`create-fv` keeps the invariant of the central theorem** (and the size of the image), when it
    finds its state as `CreateFvPre` asks: erase polarity 0xFF, a 16-byte name, and the padding it
    splits is entered at a multiple of 8 and shows no volume signature at its probes -/
theorem createFv_valid (pol : UInt8) (abs size : Nat) (name : Guid) (t t' : Tree) (hok : TreeOk t) (hL : rootLen t < 2 ^ 31)
    (h : createFvOp pol abs size name t = .ok t') (hpre : CreateFvPre pol abs size name t) :
    TreeOk t' ∧ rootLen t' = rootLen t :=
  createFvOp_ok pol abs size name t t' hok hL h hpre

/-- **`edits_valid` with `create-fv`, from a tree**: command lines that mix `create-fv` with the
    modelled operations; `Guard2` = every `create-fv` finds its state as `CreateFvPre` asks -/
theorem edits_valid_createfv_tree (h : Hooks) (hlaw : h.NvLaw) (ops : List Op2) (t : Tree) (st : St) (s' : Run)
    (hr : run2 h ops { tree := t, st := st } = .ok s') (hops : ∀ op ∈ ops, Op2Ok op)
    (hg : Guard2 h ops { tree := t, st := st }) (hok : TreeOk t) (hL : rootLen t < 2 ^ 31) :
    ∀ b ∈ s'.outs, Valid.validImage b = true ∧ b.length = rootLen t :=
  run2_valid h hlaw ops _ s' hr hops hg hok hL (by intro b hb; cases hb)

/-- **`edits_valid` with `create-fv`, from the bytes** -/
theorem edits_valid_createfv (h : Hooks) (hb : h.BoundedCodecs) (hlaw : h.NvLaw) (image : Bytes) (specs : List OpSpec2) (r : Run)
    (hu : utk2 h image specs = .ok r)
    (hv : Valid.validImage image = true) (hL : image.length < 65536 * 4096)
    (hspecs : ∀ s, .base s ∈ specs → SpecOk h s)
    (hRA : ∀ ops st t st', cliParse2 h specs {} = .ok (ops, st) →
      parseWith h (defaultFuel image) image st = .ok (t, st') → readAlikeB t = true)
    (hG : ∀ ops st t st', cliParse2 h specs {} = .ok (ops, st) →
      parseWith h (defaultFuel image) image st = .ok (t, st') → Guard2 h ops { tree := t, st := st' }) :
    ∀ b ∈ r.outs, Valid.validImage b = true ∧ b.length = image.length :=
  edits_valid2 h hb hlaw image specs r hu hv hL hspecs hRA hG

/-- `CreateFvPre` is decidable in practice (`createFvPreB`): 8 bytes into a 16-byte erased padding -/
example : CreateFvPre 0xFF 8 8 (List.replicate 16 0) (.bios ⟨[.pad (List.replicate 16 0xFF) 0], [], 16, none⟩) :=
  createFvPreB_sound _ _ _ _ _ (by decide)

open CreateFvSample


theorem sampleV_top : TopFvOk sampleV ∧ Valid.hasFlashSig sampleV.buf = false := by
  obtain ⟨t, st', hp, hok⟩ := sampleBios_treeOk
  have hs := sample_shape
  unfold sampleV
  rw [parseWith_eval, hp] at hs ⊢
  cases t with
  | flash f => simp at hs
  | bios b =>
    simp only [Bool.and_eq_true, Bool.not_eq_true', Option.isSome_iff_exists] at hs ⊢
    obtain ⟨⟨v, hv⟩, h2⟩ := hs
    rw [hv] at h2 ⊢
    simp only [Option.getD_some] at h2 ⊢
    exact ⟨firstFv_top b.elems v hok.1.elems hv, h2⟩

def newName : Guid := [0x70, 0x71, 0x72, 0x73, 0x74, 0x75, 0x76, 0x77, 0x78, 0x79, 0x7a, 0x7b, 0x7c, 0x7d, 0x7e, 0x7f]
/-- `create-fv 248 4096 <name>`, then `save` -/
def sampleOps2 : List Op2 := [.createFv 248 4096 newName, .base .save]
/-- the sample volume followed by 4104 erased bytes, erase polarity 0xFF -/
def sampleRun0 : Run := { tree := volPad sampleV 4104, st := { pol := 0xFF } }

set_option maxRecDepth 1000000 in
theorem sample_run2 :
    (match run2 hooks sampleOps2 sampleRun0 with
     | .ok r => r.outs.length == 1 && sampleV.buf.length == 248
     | .error _ => false) = true := by decide +kernel

/-- **the hypotheses of `run2_valid` are jointly satisfiable on a run that creates a volume and
    writes**: the invariant holds of the start tree, the conditions of `create-fv` hold, the run
    succeeds and writes one image — which therefore passes the reader and has the size of the tree -/
theorem sample_createfv_valid : ∃ r, run2 hooks sampleOps2 sampleRun0 = .ok r ∧ r.outs.length = 1 ∧
    ∀ b ∈ r.outs, Valid.validImage b = true ∧ b.length = 4352 := by
  have hs := sample_run2
  match hu : run2 hooks sampleOps2 sampleRun0 with
  | .error _ => rw [hu] at hs; cases hs
  | .ok r =>
    rw [hu] at hs
    simp only [Bool.and_eq_true, beq_iff_eq] at hs
    obtain ⟨hlen1, h248⟩ := hs
    refine ⟨r, rfl, hlen1, ?_⟩
    have hok : TreeOk sampleRun0.tree := volPad_ok sampleV 4104 sampleV_top.1 sampleV_top.2
    have hroot : rootLen sampleRun0.tree = 4352 := by
      show sampleV.buf.length + 4104 = 4352
      rw [h248]
    have hpre : CreateFvPre 0xFF 248 4096 newName sampleRun0.tree := by
      refine ⟨rfl, rfl, fun p o ht => ?_⟩
      simp only [biosBase, createFvTarget, h248] at ht ⊢
      rw [if_pos ⟨by omega, by rw [List.length_replicate]; omega⟩] at ht
      cases ht
      exact ⟨by decide, noHit_replicateFF _ _⟩
    have hg : Guard2 hooks sampleOps2 sampleRun0 := by
      refine ⟨hpre, fun s' _ => ⟨trivial, fun _ _ => trivial⟩⟩
    have := run2_valid hooks hooks_nvLaw sampleOps2 sampleRun0 r hu
      (by intro op hop
          simp only [sampleOps2, List.mem_cons, List.not_mem_nil, or_false] at hop
          rcases hop with rfl | rfl <;> trivial)
      hg hok (by rw [hroot]; omega) (by intro b hb; cases hb)
    rw [hroot] at this
    exact this

/-! ### `nvram-compact` inside the edit language (follow-up wp-c02c; model: Uefi/EditValidOpsDefs.lean,
    tie T2: harness/props/c02/ops3.go, driver request `run3`) -/

/-- **`nvram-compact` keeps the invariant of the central theorem** (and the size of the image): the
    visitor rewrites the store below every file that carries one, nested volumes included, and leaves
    everything else alone; the file is again one `Assemble` can size from the store's `Length` and fill
    from its `Buf`.  `c.Law` = the compaction turns a store with `Length = |Buf|` into such a store
    (any erase polarity). -/
theorem nvCompact_valid (c : NvCompactFn) (hc : c.Law) (pol : UInt8) (t t' : Tree) (hok : TreeOk t)
    (h : nvCompactOp c pol t = .ok t') : TreeOk t' ∧ rootLen t' = rootLen t :=
  nvCompactOp_ok c hc pol t t' hok h

/-- **`edits_valid` for command lines with `create-fv` and `nvram-compact`, from a tree**: whatever the
    sequence of insert ×5 / pad_file / insert_dxe / remove / remove_pad / replace_pe32 / create-fv /
    nvram-compact / save / read-only commands — if the run succeeds, every image it wrote passes the
    independent reader and has the size the tree stands for -/
theorem edits_valid_ops_tree (h : Hooks) (hlaw : h.NvLaw) (c : NvCompactFn) (hc : c.Law) (ops : List Op3) (t : Tree)
    (st : St) (s' : Run)
    (hr : run3 h c ops { tree := t, st := st } = .ok s') (hops : ∀ op ∈ ops, Op3Ok op)
    (hg : Guard3 h c ops { tree := t, st := st }) (hok : TreeOk t) (hL : rootLen t < 2 ^ 31) :
    ∀ b ∈ s'.outs, Valid.validImage b = true ∧ b.length = rootLen t :=
  run3_valid h hlaw c hc ops _ s' hr hops hg hok hL (by intro b hb; cases hb)

/-- **`edits_valid` for command lines with `create-fv` and `nvram-compact`, from the bytes**: `hcl` =
    the hooks under which the new files of the command line are read, `h` = the hooks of `uefi.Parse`
    and of the run (with an NVAR parser the stores become nodes of the tree), `c` = the store compaction -/
theorem edits_valid_ops (hcl h : Hooks) (hb : h.BoundedCodecs) (hlaw : h.NvLaw) (c : NvCompactFn) (hc : c.Law)
    (image : Bytes) (specs : List OpSpec3) (r : Run)
    (hu : utk3 hcl h c image specs = .ok r)
    (hv : Valid.validImage image = true) (hL : image.length < 65536 * 4096)
    (hspecs : ∀ s, .base (.base s) ∈ specs → SpecOk hcl s)
    (hRA : ∀ ops st t st', cliParse3 hcl specs {} = .ok (ops, st) →
      parseWith h (defaultFuel image) image st = .ok (t, st') → readAlikeB t = true)
    (hG : ∀ ops st t st', cliParse3 hcl specs {} = .ok (ops, st) →
      parseWith h (defaultFuel image) image st = .ok (t, st') → Guard3 h c ops { tree := t, st := st' }) :
    ∀ b ∈ r.outs, Valid.validImage b = true ∧ b.length = image.length :=
  edits_valid3_tree hcl h hb hlaw c hc image specs r hu hv hL hspecs hRA hG


/-- **C10's model of `nvram-compact` satisfies the law** the theorems ask of the compaction (`CompactLaw`),
    for every store (well formed or not) and every erase polarity: the GUIDs the store parser yields are
    16 bytes long, so the table the compaction rebuilds is `16 · n` bytes and the new buffer (entries,
    erased gap, table) is `Length` bytes long -/
theorem nvCompact_model_law : compactC10.Law := compactC10_law

/-- **C10's model of `NewNVarStore` / `Assemble` of a store satisfies `NvLaw`**, the law `edits_valid` asks of
    the NVAR hooks; and these hooks know no codec -/
theorem nvHooks_model_law (pol : UInt8) : (hooksC10 pol).NvLaw ∧ (hooksC10 pol).BoundedCodecs :=
  ⟨hooksC10_nvLaw pol, by intro g c x y hc _; cases hc⟩

/-- **`edits_valid` with `create-fv` and `nvram-compact`, from the bytes, for the model the driver runs**
    (no hypothesis about hooks or compaction is left): the image is parsed with C10's model of the NVAR
    store as the NVAR hooks (stores parsed under polarity `pol`), the new files of the command line are read
    without NVAR parsing (`Hooks.none`: Go reads them before any volume has set the erase polarity), and
    `nvram-compact` runs C10's model of the compaction.  If `utk` succeeds, every image it wrote passes the
    independent reader and has the size of the input. -/
theorem edits_valid_nvram (pol : UInt8) (image : Bytes) (specs : List OpSpec3) (r : Run)
    (hu : utk3 Hooks.none (hooksC10 pol) compactC10 image specs = .ok r)
    (hv : Valid.validImage image = true) (hL : image.length < 65536 * 4096)
    (hspecs : ∀ s, .base (.base s) ∈ specs → SpecOk Hooks.none s)
    (hRA : ∀ ops st t st', cliParse3 Hooks.none specs {} = .ok (ops, st) →
      parseWith (hooksC10 pol) (defaultFuel image) image st = .ok (t, st') → readAlikeB t = true)
    (hG : ∀ ops st t st', cliParse3 Hooks.none specs {} = .ok (ops, st) →
      parseWith (hooksC10 pol) (defaultFuel image) image st = .ok (t, st') →
      Guard3 (hooksC10 pol) compactC10 ops { tree := t, st := st' }) :
    ∀ b ∈ r.outs, Valid.validImage b = true ∧ b.length = image.length :=
  edits_valid3_tree Hooks.none (hooksC10 pol) (nvHooks_model_law pol).2 (nvHooks_model_law pol).1 compactC10
    compactC10_law image specs r hu hv hL hspecs hRA hG

/-- without `create-fv` on the command line `Guard3` asks nothing -/
theorem guard3_no_createfv (h : Hooks) (c : NvCompactFn) : ∀ (ops : List Op3) (s : Run),
    (∀ a z n, Op3.base (.createFv a z n) ∉ ops) → Guard3 h c ops s
  | [], _, _ => trivial
  | op :: ops, s, hn => by
    refine ⟨?_, fun s' _ => guard3_no_createfv h c ops s' (fun a z n hm => hn a z n (by simp [hm]))⟩
    cases op with
    | nvCompact => trivial
    | base op2 =>
      cases op2 with
      | base _ => trivial
      | createFv a z n => exact absurd (by simp) (hn a z n)


open NvSample in
/-- **the hypotheses of `edits_valid_nvram` are jointly satisfiable on a run that compacts a store and
    writes**: on the 872-byte sample image (a full volume whose last file is a checksummed NVAR file holding
    a store with a deleted entry) `utk image nvram-compact save` succeeds on the model the driver runs, the
    parsed tree holds the store as a node, one image is written, it differs from the input — and therefore
    passes the independent reader and has 872 bytes -/
theorem sample_nvcompact_valid : ∃ r, utk3 Hooks.none (hooksC10 0xFF) compactC10 nvSample nvSpecs = .ok r ∧
    r.outs.length = 1 ∧ (∀ b ∈ r.outs, b ≠ nvSample) ∧
    ∀ b ∈ r.outs, Valid.validImage b = true ∧ b.length = 872 := by
  have hs := nvSample_run
  match hu : utk3 Hooks.none (hooksC10 0xFF) compactC10 nvSample nvSpecs with
  | .error _ => rw [hu] at hs; cases hs
  | .ok r =>
    rw [hu] at hs
    simp only [Bool.and_eq_true, beq_iff_eq, List.all_eq_true, bne_iff_ne, ne_eq] at hs
    refine ⟨r, rfl, hs.1, hs.2, ?_⟩
    have hcli : ∀ ops st, cliParse3 Hooks.none nvSpecs {} = .ok (ops, st) →
        st = {} ∧ ops = [.nvCompact, .base (.base .save)] := by
      intro ops st hc
      simp only [nvSpecs, cliParse3, cliOne] at hc
      cases hc
      exact ⟨rfl, rfl⟩
    have hlen : nvSample.length = 872 := nvSample_len
    have := edits_valid_nvram 0xFF nvSample nvSpecs r hu nvSample_valid (by rw [hlen]; omega) ?_ ?_ ?_
    · rw [hlen] at this; exact this
    · intro s hs'
      simp only [nvSpecs, List.mem_cons, List.not_mem_nil, or_false] at hs'
      rcases hs' with hs' | hs'
      · cases hs'
      · cases hs'; trivial
    · intro ops st t st' hc hp
      obtain ⟨rfl, _⟩ := hcli ops st hc
      have h2 := nvSample_readAlike
      rw [hp] at h2
      simp only [Bool.and_eq_true] at h2
      exact h2.1
    · intro ops st t st' hc _
      obtain ⟨_, rfl⟩ := hcli ops st hc
      exact guard3_no_createfv _ _ _ _ (by intro a z n hm; simp at hm)


/-! ### `create-fv` under erase polarity 0 (follow-up wp-c02c; Uefi/CreateFvPol0.lean) -/

open Pol0

/-- **`save` fails on a tree that holds a top-level volume of the other erase polarity** (the error half of
    C02 for this case: `Assemble` returns "conflicting erase polarities", and `save_atomic` says that
    nothing is written then) -/
theorem save_refuses_conflicting_polarity (h : Hooks) (t : Tree) (st : St) (hset : st.pol ≠ 0xF0)
    (hp : Poisoned st.pol t) : ∃ e, asmTreeWith h t st = .error e := by
  match ha : asmTreeWith h t st with
  | .error e => exact ⟨e, rfl⟩
  | .ok (t', st') => exact absurd hp (asmTree_clean h t t' st st' ha hset)

/-- **`create-fv` in a process whose erase polarity is not 0xFF**: the new volume always announces
    polarity 0xFF (attributes 0x0004FEFF), so the tree is poisoned; whatever follows — modelled operations,
    further create-fv, nvram-compact, saves — a run that succeeds has written nothing after it -/
theorem createFv_polarity0_writes_nothing (h : Hooks) (c : NvCompactFn) (a z : Nat) (n : Guid) (ops : List Op3)
    (s r : Run) (hset : s.st.pol ≠ 0xF0) (hpol : s.st.pol ≠ 0xFF)
    (hr : run3 h c (.base (.createFv a z n) :: ops) s = .ok r) : r.outs = s.outs :=
  createFv_wrong_polarity_writes_nothing h c a z n ops s r hset hpol hr

open Pol0Sample in
/-- non-vacuity: on the sample of erase polarity 0 `create-fv` does succeed (so the theorem above is about
    runs that exist), the process polarity is set and is not 0xFF, and the tree it leaves is poisoned -/
theorem sample_createfv_polarity0 : ∃ r, run3 Hooks.none compactC10 [.base (.createFv 112 4096 Pol0Sample.newName)] pol0Run = .ok r ∧
    pol0Run.st.pol ≠ 0xF0 ∧ pol0Run.st.pol ≠ 0xFF ∧ Poisoned 0 r.tree := by
  have hs := pol0_createfv
  match hu : run3 Hooks.none compactC10 [.base (.createFv 112 4096 Pol0Sample.newName)] pol0Run with
  | .error _ => rw [hu] at hs; cases hs
  | .ok r =>
    refine ⟨r, rfl, by decide, by decide, ?_⟩
    rw [run3] at hu
    split at hu
    · cases hu
    · rename_i s1 hs1
      rw [run3] at hu
      cases hu
      rw [step3, step2] at hs1
      split at hs1
      · cases hs1
      · rename_i t ht
        cases hs1
        exact createFvOp_poisons _ _ _ _ _ _ ht (by decide)

/-- **`edits_valid` for the whole modelled edit language under any erase polarity, from the bytes, for the
    model the driver runs**: insert ×5, pad_file, insert_dxe, remove, remove_pad, replace_pe32, create-fv,
    nvram-compact, saves, read-only commands.  `Guard3w` asks of every `create-fv` that the process
    polarity is set and — under polarity 0xFF only — that it enters its padding as `CreateFvPre` says. -/
theorem edits_valid_nvram_anypol (pol : UInt8) (image : Bytes) (specs : List OpSpec3) (r : Run)
    (hu : utk3 Hooks.none (hooksC10 pol) compactC10 image specs = .ok r)
    (hv : Valid.validImage image = true) (hL : image.length < 65536 * 4096)
    (hspecs : ∀ s, .base (.base s) ∈ specs → SpecOk Hooks.none s)
    (hRA : ∀ ops st t st', cliParse3 Hooks.none specs {} = .ok (ops, st) →
      parseWith (hooksC10 pol) (defaultFuel image) image st = .ok (t, st') → readAlikeB t = true)
    (hG : ∀ ops st t st', cliParse3 Hooks.none specs {} = .ok (ops, st) →
      parseWith (hooksC10 pol) (defaultFuel image) image st = .ok (t, st') →
      Guard3w (hooksC10 pol) compactC10 ops { tree := t, st := st' }) :
    ∀ b ∈ r.outs, Valid.validImage b = true ∧ b.length = image.length :=
  edits_valid3_anypol Hooks.none (hooksC10 pol) (nvHooks_model_law pol).2 (nvHooks_model_law pol).1 compactC10
    compactC10_law image specs r hu hv hL hspecs hRA hG

/-- `Pre3w` under polarity 0 asks nothing but a set polarity -/
example (a z : Nat) (n : Guid) (t : Tree) : Pre3w (.base (.createFv a z n)) { tree := t, st := { pol := 0 } } :=
  ⟨(by show (0 : UInt8) ≠ 0xF0; decide), fun h => absurd (show (0 : UInt8) = 0xFF from h) (by decide)⟩

end Fiano.Uefi.C02
